(* The pointer-level transcription of List / PoolList (SeqLinkModel) refines the node-level model
   (SeqModel.nlist): a heap state `repr`esents a node list when following `next` from _begin gives
   exactly its (value, slot) nodes with matching `prev` pointers up to &endItem, endItem.prev is the
   last node, the `prev`-threaded free list is its free list, and size / block count agree.  Every
   operation keeps that relation and returns the pointer to the node the node-level model names. *)
From Coq Require Import ZArith List Bool Lia Sorting.Permutation.
From Common Require Import ListAux.
From Seq Require Import SeqSpec SeqModel SeqSortProofs SeqPoolProofs SeqLinkModel.
Import ListNotations.
Local Open Scope nat_scope.

(* ---- heap ------------------------------------------------------------------------------- *)
Lemma hset_same h s c : hset h s c s = c.
Proof. unfold hset. rewrite Nat.eqb_refl. reflexivity. Qed.
Lemma hset_other h s c x : x <> s -> hset h s c x = h x.
Proof. intros H. unfold hset. destruct (Nat.eqb x s) eqn:E; [apply Nat.eqb_eq in E; contradiction|reflexivity]. Qed.

(* ---- the representation ------------------------------------------------------------------ *)
(* nodes ns are linked from cur; the first one's prev is `prev`; the last one's next is nxt *)
Fixpoint seg (h : heap) (prev cur : ptr) (ns : list (Z * slot)) (nxt : ptr) : Prop :=
  match ns with
  | [] => cur = nxt
  | (v, s) :: t => cur = PNode s /\ cval (h s) = v /\ cprev (h s) = prev /\ seg h (PNode s) (cnext (h s)) t nxt
  end.

Fixpoint lastp (prev : ptr) (ns : list (Z * slot)) : ptr :=
  match ns with [] => prev | (_, s) :: t => lastp (PNode s) t end.
Definition headp (ns : list (Z * slot)) (nxt : ptr) : ptr :=
  match ns with [] => nxt | (_, s) :: _ => PNode s end.

Fixpoint fchain (h : heap) (p : ptr) (fr : list slot) : Prop :=
  match fr with [] => p = PNull | s :: t => p = PNode s /\ fchain h (cprev (h s)) t end.

Definition repr (st : lstate) (l : nlist) : Prop :=
  seg (cells st) PNull (begin_ st) (nodes l) (PEnd (self st))
  /\ end_prev st = lastp PNull (nodes l)
  /\ fchain (cells st) (lfree st) (free l)
  /\ lsz st = msize l
  /\ lblocks st = nblocks l.

(* the pointer the harness obtains by walking k steps from begin() *)
Definition ptr_at (o : nat) (k : nat) (ns : list (Z * slot)) : ptr := headp (skipn k ns) (PEnd o).
Definition ptr_of (o : nat) (it : option slot) : ptr := match it with Some s => PNode s | None => PEnd o end.

Lemma repr_empty o : repr (ls_empty o) nl_empty.
Proof. unfold repr, ls_empty, nl_empty; cbn. repeat split; reflexivity. Qed.

(* ---- frame and splitting ----------------------------------------------------------------- *)
Lemma seg_frame h s c : forall ns prev cur nxt,
    ~ In s (slots ns) -> seg h prev cur ns nxt -> seg (hset h s c) prev cur ns nxt.
Proof.
  induction ns as [|[v x] t IH]; intros prev cur nxt Hn H; cbn [seg] in *; [exact H|].
  destruct H as (Hc & Hv & Hp & Ht). cbn [slots map snd] in Hn.
  assert (x <> s) by (intros ->; apply Hn; left; reflexivity).
  rewrite hset_other by assumption. repeat split; try assumption.
  apply IH; [|exact Ht]. intros Hin. apply Hn. right. exact Hin.
Qed.

Lemma fchain_frame h s c : forall fr p, ~ In s fr -> fchain h p fr -> fchain (hset h s c) p fr.
Proof.
  induction fr as [|x t IH]; intros p Hn H; cbn [fchain] in *; [exact H|].
  destruct H as (Hp & Ht). assert (x <> s) by (intros ->; apply Hn; left; reflexivity).
  rewrite hset_other by assumption. split; [exact Hp|]. apply IH; [|exact Ht].
  intros Hin. apply Hn. right. exact Hin.
Qed.

Lemma lastp_app prev a b : lastp prev (a ++ b) = lastp (lastp prev a) b.
Proof. revert prev; induction a as [|[v s] t IH]; intros prev; cbn; [reflexivity|apply IH]. Qed.

Lemma seg_app h : forall a prev cur b nxt,
    seg h prev cur (a ++ b) nxt <-> seg h prev cur a (headp b nxt) /\ seg h (lastp prev a) (headp b nxt) b nxt.
Proof.
  induction a as [|[v s] t IH]; intros prev cur b nxt; cbn [app seg lastp].
  - split.
    + intros H. split; [|].
      * destruct b as [|[vb sb] b']; cbn [seg headp] in *; [exact H|apply H].
      * destruct b as [|[vb sb] b']; cbn [seg headp] in *; [reflexivity|].
        destruct H as (Hc & Hr). split; [reflexivity|]. exact Hr.
    + intros (Hc & Hb). destruct b as [|[vb sb] b']; cbn [seg headp] in *; [exact Hc|].
      destruct Hb as (_ & Hr). split; [exact Hc|exact Hr].
  - rewrite IH. tauto.
Qed.

(* the next pointer of the last node of a run may be redirected *)
Lemma seg_snoc_set_next h n' a v s prev cur nxt :
    NoDup (slots (a ++ [(v, s)])) -> seg h prev cur (a ++ [(v, s)]) nxt ->
    seg (set_next h s n') prev cur (a ++ [(v, s)]) n'.
Proof.
  intros Hnd H. apply seg_app in H. destruct H as (Ha & Hs). apply seg_app. cbn [headp] in *.
  assert (Hnin : ~ In s (slots a)).
  { rewrite slots_app in Hnd. cbn in Hnd. apply NoDup_remove_2 in Hnd. rewrite app_nil_r in Hnd. exact Hnd. }
  split.
  - apply seg_frame; assumption.
  - cbn [seg] in *. destruct Hs as (_ & Hv & Hp & _). unfold set_next. rewrite hset_same. cbn [cval cprev cnext].
    repeat split; assumption.
Qed.

(* the prev pointer of the first node of a run may be redirected *)
Lemma seg_cons_set_prev h q v s b prev nxt :
    NoDup (slots ((v, s) :: b)) -> seg h prev (PNode s) ((v, s) :: b) nxt ->
    seg (set_prev h s q) q (PNode s) ((v, s) :: b) nxt.
Proof.
  intros Hnd H. cbn [seg slots map snd] in *. destruct H as (_ & Hv & _ & Ht).
  inversion Hnd as [|? ? Hnin _]; subst. unfold set_prev. rewrite hset_same. cbn [cval cprev cnext].
  repeat split; try assumption. apply seg_frame; assumption.
Qed.

Lemma lastp_snoc prev a v s : lastp prev (a ++ [(v, s)]) = PNode s.
Proof. rewrite lastp_app. reflexivity. Qed.

(* ---- reading cells after a write ---------------------------------------------------------- *)
Lemma get_set_val_same h s v : set_val h s v s = mk_cell v (cprev (h s)) (cnext (h s)).
Proof. apply hset_same. Qed.
Lemma get_set_prev_same h s q : set_prev h s q s = mk_cell (cval (h s)) q (cnext (h s)).
Proof. apply hset_same. Qed.
Lemma get_set_next_same h s q : set_next h s q s = mk_cell (cval (h s)) (cprev (h s)) q.
Proof. apply hset_same. Qed.
Lemma get_set_val_other h s v x : x <> s -> set_val h s v x = h x.
Proof. apply hset_other. Qed.
Lemma get_set_prev_other h s q x : x <> s -> set_prev h s q x = h x.
Proof. apply hset_other. Qed.
Lemma get_set_next_other h s q x : x <> s -> set_next h s q x = h x.
Proof. apply hset_other. Qed.

Ltac neq := first [assumption | apply not_eq_sym; assumption | lia].
Ltac heap :=
  repeat first
    [ rewrite get_set_prev_same | rewrite get_set_val_same | rewrite get_set_next_same
    | progress cbn [cval cprev cnext]
    | rewrite get_set_prev_other by neq | rewrite get_set_val_other by neq
    | rewrite get_set_next_other by neq ].

Lemma seg_frame_val h s v ns prev cur nxt : ~ In s (slots ns) -> seg h prev cur ns nxt -> seg (set_val h s v) prev cur ns nxt.
Proof. apply seg_frame. Qed.
Lemma seg_frame_prev h s q ns prev cur nxt : ~ In s (slots ns) -> seg h prev cur ns nxt -> seg (set_prev h s q) prev cur ns nxt.
Proof. apply seg_frame. Qed.
Lemma seg_frame_next h s q ns prev cur nxt : ~ In s (slots ns) -> seg h prev cur ns nxt -> seg (set_next h s q) prev cur ns nxt.
Proof. apply seg_frame. Qed.
Lemma fchain_frame_val h s v fr p : ~ In s fr -> fchain h p fr -> fchain (set_val h s v) p fr.
Proof. apply fchain_frame. Qed.
Lemma fchain_frame_prev h s q fr p : ~ In s fr -> fchain h p fr -> fchain (set_prev h s q) p fr.
Proof. apply fchain_frame. Qed.
Lemma fchain_frame_next h s q fr p : ~ In s fr -> fchain h p fr -> fchain (set_next h s q) p fr.
Proof. apply fchain_frame. Qed.

(* ---- allocation ---------------------------------------------------------------------------- *)
Lemma slots_below l x : nl_inv l -> In x (slots (nodes l)) -> x < 4 * nblocks l.
Proof.
  intros [P _] Hin. assert (In x (seq 0 (4 * nblocks l))) as H.
  { eapply Permutation_in; [exact P|]. apply in_or_app. left. exact Hin. }
  apply in_seq in H. lia.
Qed.

Definition pl_alloc (st : lstate) : lstate := match lfree st with PNull => pl_new_block st | _ => st end.

Lemma alloc_link st l s f nb : repr st l -> nl_inv l -> alloc l = (s, f, nb) ->
    let st1 := pl_alloc st in
    lfree st1 = PNode s
    /\ fchain (cells st1) (cprev (cells st1 s)) f
    /\ lblocks st1 = nb
    /\ seg (cells st1) PNull (begin_ st1) (nodes l) (PEnd (self st1))
    /\ end_prev st1 = end_prev st /\ begin_ st1 = begin_ st /\ self st1 = self st /\ lsz st1 = lsz st.
Proof.
  intros (Hseg & Hend & Hfr & Hsz & Hb) I H. unfold alloc in H. unfold pl_alloc.
  destruct (free l) as [|s0 f0] eqn:Ef.
  - injection H as Hs Hf Hn; subst s f nb. cbn [fchain] in Hfr. rewrite Hfr.
    unfold pl_new_block. cbn [lfree cells lblocks begin_ end_prev self lsz]. rewrite Hb.
    set (b := nblocks l) in *. change (b + (b + (b + (b + 0)))) with (4 * b) in *.
    assert (N0 : ~ In (4 * b) (slots (nodes l))) by (intros Hin; apply (slots_below l _ I) in Hin; fold b in Hin; lia).
    assert (N1 : ~ In (4 * b + 1) (slots (nodes l))) by (intros Hin; apply (slots_below l _ I) in Hin; fold b in Hin; lia).
    assert (N2 : ~ In (4 * b + 2) (slots (nodes l))) by (intros Hin; apply (slots_below l _ I) in Hin; fold b in Hin; lia).
    assert (N3 : ~ In (4 * b + 3) (slots (nodes l))) by (intros Hin; apply (slots_below l _ I) in Hin; fold b in Hin; lia).
    assert (4 * b + 2 <> 4 * b + 3) by lia. assert (4 * b + 1 <> 4 * b + 3) by lia. assert (4 * b <> 4 * b + 3) by lia.
    assert (4 * b + 1 <> 4 * b + 2) by lia. assert (4 * b <> 4 * b + 2) by lia. assert (4 * b <> 4 * b + 1) by lia.
    split; [reflexivity|]. split; [|split; [reflexivity|split; [|repeat split; reflexivity]]].
    + cbn [fchain]. heap. repeat split; reflexivity.
    + apply seg_frame_prev; [exact N3|]. apply seg_frame_prev; [exact N2|]. apply seg_frame_prev; [exact N1|].
      apply seg_frame_prev; [exact N0|]. exact Hseg.
  - inversion H; subst s f nb. clear H. cbn [fchain] in Hfr. destruct Hfr as (Hp & Hf).
    replace (match lfree st with PNull => pl_new_block st | _ => st end) with st by (rewrite Hp; reflexivity).
    split; [exact Hp|]. split; [exact Hf|]. split; [exact Hb|]. split; [exact Hseg|].
    repeat split; reflexivity.
Qed.

Lemma nodup_app_disjoint {A} (a b : list A) x : NoDup (a ++ b) -> In x a -> ~ In x b.
Proof.
  induction a as [|y t IH]; cbn; intros ND Hin Hb; [contradiction|].
  inversion ND as [|? ? Hn ND']; subst. destruct Hin as [->|Hin].
  - apply Hn. apply in_or_app. right. exact Hb.
  - exact (IH ND' Hin Hb).
Qed.

Lemma nodup_app_r {A} (a b : list A) : NoDup (a ++ b) -> NoDup b.
Proof. induction a as [|y t IH]; cbn; intros ND; [exact ND|]. inversion ND; auto. Qed.

Lemma seg_cons h prev v s t nxt :
    cval (h s) = v -> cprev (h s) = prev -> seg h (PNode s) (cnext (h s)) t nxt -> seg h prev (PNode s) ((v, s) :: t) nxt.
Proof. intros. cbn [seg]. repeat split; assumption. Qed.

Lemma repr_intro st l :
    seg (cells st) PNull (begin_ st) (nodes l) (PEnd (self st)) -> end_prev st = lastp PNull (nodes l) ->
    fchain (cells st) (lfree st) (free l) -> lsz st = msize l -> lblocks st = nblocks l -> repr st l.
Proof. intros. unfold repr. repeat split; assumption. Qed.

Ltac proj :=
  cbn [fst snd cells begin_ end_prev lfree lsz lblocks self with_cells with_begin with_end_prev with_free with_size
       wr_prev wr_next nodes free msize nblocks].

(* ---- insert -------------------------------------------------------------------------------- *)
Lemma lastp_null ns : lastp PNull ns = PNull -> ns = [].
Proof. destruct ns as [|[v s] t _] using rev_ind; [reflexivity|]. rewrite lastp_snoc. discriminate. Qed.

Lemma lastp_cons_any p q b (ns : list (Z * slot)) : lastp p (b :: ns) = lastp q (b :: ns).
Proof. destruct b; reflexivity. Qed.

Theorem link_insert st l k v : repr st l -> nl_inv l -> k <= length (nodes l) ->
    repr (fst (pl_insert (ptr_at (self st) k (nodes l)) v st)) (fst (nl_insert k v l))
    /\ snd (pl_insert (ptr_at (self st) k (nodes l)) v st) = PNode (snd (nl_insert k v l))
    /\ self (fst (pl_insert (ptr_at (self st) k (nodes l)) v st)) = self st.
Proof.
  intros R I Hk. unfold nl_insert. destruct (alloc l) as [[s f] nb] eqn:Ea. cbn [fst snd].
  pose proof (alloc_link st l s f nb R I Ea) as AL. cbv zeta in AL.
  destruct AL as (Hfr1 & Hfc1 & Hb1 & Hseg1 & He1 & Hbg1 & Hself1 & Hsz1).
  pose proof (alloc_spec _ _ _ _ I Ea) as P.
  assert (ND : NoDup (s :: slots (nodes l) ++ f)) by (eapply Permutation_NoDup; [symmetry; exact P|apply seq_NoDup]).
  destruct R as (_ & Hend & _ & Hsz & _).
  unfold pl_insert. fold (pl_alloc st). set (st1 := pl_alloc st) in *. rewrite Hfr1.
  unfold ptr_at. set (o := self st) in *. rewrite Hself1 in Hseg1.
  set (A := firstn k (nodes l)). set (B := skipn k (nodes l)).
  assert (Hns : nodes l = A ++ B) by (symmetry; apply firstn_skipn).
  rewrite Hns in Hseg1, ND, Hend. apply seg_app in Hseg1. destruct Hseg1 as (HA & HB).
  set (p := headp B (PEnd o)) in *. set (h1 := cells st1) in *.
  inversion ND as [|? ? Hs_nin ND']; subst.
  assert (HsA : ~ In s (slots A)) by (intros Hin; apply Hs_nin; rewrite slots_app; apply in_or_app; left; apply in_or_app; left; exact Hin).
  assert (HsB : ~ In s (slots B)) by (intros Hin; apply Hs_nin; rewrite slots_app; apply in_or_app; left; apply in_or_app; right; exact Hin).
  assert (Hsf : ~ In s f) by (intros Hin; apply Hs_nin; apply in_or_app; right; exact Hin).
  assert (NDn : NoDup (slots (A ++ B))) by (eapply NoDup_app_l; exact ND').
  (* insertPos->prev is the last node before the position *)
  assert (Hq : rd_prev (with_free (with_cells st1 (set_val h1 s v)) (cprev (set_val h1 s v s))) p = lastp PNull A).
  { subst p. destruct B as [|[vb sb] B'] eqn:EB; cbn [headp rd_prev with_free with_cells end_prev cells].
    - rewrite He1, Hend. rewrite lastp_app. reflexivity.
    - cbn [seg] in HB. destruct HB as (_ & _ & Hp & _).
      assert (sb <> s) by (intros ->; apply HsB; left; reflexivity). heap. exact Hp. }
  cbn [cells with_cells]. fold h1. rewrite Hq. clear Hq.
  split; [|split; [reflexivity|]].
  2:{ destruct (lastp PNull A); subst p; destruct B as [|[vb sb] B']; cbn; exact Hself1. }
  (* the free list: none of the written cells is on it *)
  assert (Hfree : forall h', (forall x, In x f -> h' x = h1 x) -> fchain h' (cprev (h1 s)) f).
  { intros h' Hh. clear -Hfc1 Hh. revert Hfc1 Hh. generalize (cprev (h1 s)).
    induction f as [|x t IH]; intros pp Hc Hh; cbn [fchain] in *; [exact Hc|].
    destruct Hc as (Hpp & Ht). split; [exact Hpp|]. rewrite Hh by (left; reflexivity).
    apply IH; [exact Ht|]. intros y Hy. apply Hh. right. exact Hy. }
  destruct A as [|[vl sl] A0 _] using rev_ind.
  - (* insertion in front of the first node: _begin.item = item *)
    cbn [lastp app] in *. destruct B as [|[vb sb] B'] eqn:EB; subst p; cbn [headp] in *.
    + (* into the empty list *)
      apply repr_intro; proj; rewrite ?Hself1; heap.
      * cbn [seg]. heap. repeat split; reflexivity.
      * reflexivity.
      * apply Hfree. intros x Hx. assert (x <> s) by (intros ->; contradiction). heap. reflexivity.
      * rewrite Hsz1, Hsz. reflexivity.
      * reflexivity.
    + assert (sb <> s) by (intros ->; apply HsB; left; reflexivity).
      assert (Hsbf : ~ In sb f) by (eapply nodup_app_disjoint; [exact ND'|left; reflexivity]).
      apply repr_intro; proj; rewrite ?Hself1; heap.
      * apply seg_cons; heap; [reflexivity|reflexivity|].
        eapply seg_cons_set_prev; [exact NDn|]. apply seg_frame_next; [exact HsB|]. apply seg_frame_prev; [exact HsB|].
        apply seg_frame_val; [exact HsB|]. exact HB.
      * rewrite He1, Hend. reflexivity.
      * apply Hfree. intros x Hx. assert (x <> s) by (intros ->; contradiction).
        assert (x <> sb) by (intros ->; contradiction). heap. reflexivity.
      * rewrite Hsz1, Hsz. reflexivity.
      * reflexivity.
  - (* behind the node sl: sl->next = item *)
    rewrite lastp_snoc in *.
    assert (sl <> s) by (intros ->; apply HsA; rewrite slots_app; apply in_or_app; right; left; reflexivity).
    assert (Hslf : ~ In sl f).
    { eapply nodup_app_disjoint; [exact ND'|]. rewrite !slots_app. apply in_or_app. left. apply in_or_app. right. left. reflexivity. }
    assert (NDA : NoDup (slots (A0 ++ [(vl, sl)]))) by (rewrite slots_app in NDn; eapply NoDup_app_l; exact NDn).
    destruct B as [|[vb sb] B'] eqn:EB; subst p; cbn [headp] in *.
    + (* append: endItem.prev = item *)
      apply repr_intro; proj; rewrite ?Hself1; heap.
      * apply seg_app. cbn [headp lastp seg]. rewrite lastp_snoc. split.
        -- apply seg_frame_next; [exact HsA|]. eapply (seg_snoc_set_next _ (PNode s)); [exact NDA|].
           apply seg_frame_prev; [exact HsA|]. apply seg_frame_val; [exact HsA|]. exact HA.
        -- heap. repeat split; reflexivity.
      * rewrite lastp_app. reflexivity.
      * apply Hfree. intros x Hx. assert (x <> s) by (intros ->; contradiction).
        assert (x <> sl) by (intros ->; contradiction). heap. reflexivity.
      * rewrite Hsz1, Hsz. reflexivity.
      * reflexivity.
    + assert (sb <> s) by (intros ->; apply HsB; left; reflexivity).
      assert (Hsbf : ~ In sb f).
      { eapply nodup_app_disjoint; [exact ND'|]. rewrite slots_app. apply in_or_app. right. left. reflexivity. }
      assert (Hsl_B : ~ In sl (slots ((vb, sb) :: B'))).
      { rewrite slots_app in NDn. eapply nodup_app_disjoint; [exact NDn|]. rewrite slots_app. apply in_or_app. right. left. reflexivity. }
      assert (Hsb_A : ~ In sb (slots (A0 ++ [(vl, sl)]))).
      { rewrite slots_app in NDn. intros Hin. eapply nodup_app_disjoint; [exact NDn|exact Hin|left; reflexivity]. }
      assert (sb <> sl) by (intros ->; apply Hsl_B; left; reflexivity).
      apply repr_intro; proj; rewrite ?Hself1; heap.
      * apply seg_app. cbn [headp lastp]. rewrite lastp_snoc. split.
        -- apply seg_frame_prev; [exact Hsb_A|]. apply seg_frame_next; [exact HsA|].
           eapply (seg_snoc_set_next _ (PNode s)); [exact NDA|].
           apply seg_frame_prev; [exact HsA|]. apply seg_frame_val; [exact HsA|]. exact HA.
        -- apply seg_cons; heap; [reflexivity|reflexivity|].
           assert (NDB : NoDup (slots ((vb, sb) :: B'))) by (rewrite slots_app in NDn; eapply nodup_app_r; exact NDn).
           eapply seg_cons_set_prev; [exact NDB|]. apply seg_frame_next; [exact HsB|].
           apply seg_frame_next; [exact Hsl_B|]. apply seg_frame_prev; [exact HsB|].
           apply seg_frame_val; [exact HsB|]. exact HB.
      * rewrite He1, Hend. rewrite !lastp_app. reflexivity.
      * apply Hfree. intros x Hx. assert (x <> s) by (intros ->; contradiction).
        assert (x <> sl) by (intros ->; contradiction). assert (x <> sb) by (intros ->; contradiction). heap. reflexivity.
      * rewrite Hsz1, Hsz. reflexivity.
      * reflexivity.
Qed.

(* ---- remove -------------------------------------------------------------------------------- *)
Lemma seg_head h : forall ns prev cur nxt, seg h prev cur ns nxt -> cur = headp ns nxt.
Proof. intros [|[v s] t] prev cur nxt H; cbn [seg headp] in *; [exact H|apply H]. Qed.

Theorem link_remove st l k : repr st l -> nl_inv l -> k < length (nodes l) ->
    repr (fst (pl_remove (ptr_at (self st) k (nodes l)) st)) (fst (nl_remove k l))
    /\ snd (pl_remove (ptr_at (self st) k (nodes l)) st) = ptr_of (self st) (snd (nl_remove k l))
    /\ self (fst (pl_remove (ptr_at (self st) k (nodes l)) st)) = self st.
Proof.
  intros R I Hk. unfold nl_remove, ptr_at.
  destruct (skipn_nonempty k (nodes l) Hk) as ([v s] & B & Hs). rewrite Hs. cbn [fst snd headp].
  pose proof (split_at _ _ _ _ Hs) as Hns. set (A := firstn k (nodes l)) in *.
  destruct R as (Hseg & Hend & Hfc & Hsz & Hb).
  pose proof (nl_inv_nodup l I) as ND. rewrite Hns in Hseg, Hend, ND.
  set (o := self st) in *. set (h := cells st) in *.
  apply seg_app in Hseg. cbn [headp] in Hseg. destruct Hseg as (HA & HsB).
  cbn [seg] in HsB. destruct HsB as (_ & Hv & Hq & HB).
  pose proof (seg_head _ _ _ _ _ HB) as Hn.
  assert (NDn : NoDup (slots (A ++ (v, s) :: B))) by (eapply NoDup_app_l; exact ND).
  assert (HsA : ~ In s (slots A)).
  { rewrite slots_app in NDn. intros Hin. eapply nodup_app_disjoint; [exact NDn|exact Hin|left; reflexivity]. }
  assert (NDsB : NoDup (slots ((v, s) :: B))) by (rewrite slots_app in NDn; eapply nodup_app_r; exact NDn).
  assert (HsB : ~ In s (slots B)) by (inversion NDsB; assumption).
  assert (NDB : NoDup (slots B)) by (inversion NDsB; assumption).
  assert (Hsf : ~ In s (free l)).
  { eapply nodup_app_disjoint; [exact ND|]. rewrite slots_app. apply in_or_app. right. left. reflexivity. }
  assert (Hfree : forall h', (forall x, In x (free l) -> h' x = h x) -> fchain h' (lfree st) (free l)).
  { intros h' Hh. clear -Hfc Hh. revert Hfc Hh. generalize (lfree st).
    induction (free l) as [|x t IH]; intros pp Hc Hh; cbn [fchain] in *; [exact Hc|].
    destruct Hc as (Hpp & Ht). split; [exact Hpp|]. rewrite Hh by (left; reflexivity).
    apply IH; [exact Ht|]. intros y Hy. apply Hh. right. exact Hy. }
  assert (Hsz' : pred (lsz st) = pred (msize l)) by (rewrite Hsz; reflexivity).
  unfold pl_remove. fold h. rewrite Hq, Hn.
  destruct A as [|[vl sl] A0 _] using rev_ind.
  - (* the first node: _begin.item = item->next, its prev = 0 *)
    cbn [lastp app] in *. destruct B as [|[vb sb] B'] eqn:EB; cbn [headp] in *.
    + split; [|split; [proj; fold h; heap; rewrite Hn; reflexivity|reflexivity]].
      apply repr_intro; proj; fold h; heap.
      * cbn [seg]. reflexivity.
      * reflexivity.
      * cbn [fchain]. heap. split; [reflexivity|]. apply Hfree. intros x Hx.
        assert (x <> s) by (intros ->; contradiction). heap. reflexivity.
      * exact Hsz'.
      * exact Hb.
    + assert (sb <> s) by (intros ->; apply HsB; left; reflexivity).
      assert (Hsbf : ~ In sb (free l)).
      { eapply nodup_app_disjoint; [exact ND|]. cbn [slots map snd]. right. left. reflexivity. }
      split; [|split; [proj; fold h; heap; rewrite Hn; reflexivity|reflexivity]].
      apply repr_intro; proj; fold h; heap.
      * apply seg_frame_prev; [exact HsB|]. eapply seg_cons_set_prev; [exact NDB|]. rewrite Hn in HB. exact HB.
      * rewrite Hend. reflexivity.
      * cbn [fchain]. heap. split; [reflexivity|]. apply Hfree. intros x Hx.
        assert (x <> s) by (intros ->; contradiction). assert (x <> sb) by (intros ->; contradiction). heap. reflexivity.
      * exact Hsz'.
      * exact Hb.
  - (* behind sl: sl->next = item->next, and that one's prev = sl *)
    rewrite lastp_snoc in *.
    assert (NDA : NoDup (slots (A0 ++ [(vl, sl)]))) by (rewrite slots_app in NDn; eapply NoDup_app_l; exact NDn).
    assert (sl <> s) by (intros ->; apply HsA; rewrite slots_app; apply in_or_app; right; left; reflexivity).
    assert (Hslf : ~ In sl (free l)).
    { eapply nodup_app_disjoint; [exact ND|]. rewrite !slots_app. apply in_or_app. left. apply in_or_app. right. left. reflexivity. }
    assert (Hsl_B : ~ In sl (slots B)).
    { rewrite slots_app in NDn. intros Hin. eapply nodup_app_disjoint; [exact NDn| |right; exact Hin].
      rewrite slots_app. apply in_or_app. right. left. reflexivity. }
    destruct B as [|[vb sb] B'] eqn:EB; cbn [headp] in *.
    + split; [|split; [proj; fold h; heap; rewrite Hn; reflexivity|reflexivity]].
      apply repr_intro; proj; fold h; heap.
      * rewrite app_nil_r. apply seg_frame_prev; [exact HsA|]. eapply seg_snoc_set_next; [exact NDA|exact HA].
      * rewrite app_nil_r, lastp_snoc. reflexivity.
      * cbn [fchain]. heap. split; [reflexivity|]. apply Hfree. intros x Hx.
        assert (x <> s) by (intros ->; contradiction). assert (x <> sl) by (intros ->; contradiction). heap. reflexivity.
      * exact Hsz'.
      * exact Hb.
    + assert (sb <> s) by (intros ->; apply HsB; left; reflexivity).
      assert (sb <> sl) by (intros ->; apply Hsl_B; left; reflexivity).
      assert (Hsbf : ~ In sb (free l)).
      { eapply nodup_app_disjoint; [exact ND|]. rewrite slots_app. apply in_or_app. right. right. left. reflexivity. }
      assert (Hsb_A : ~ In sb (slots (A0 ++ [(vl, sl)]))).
      { rewrite slots_app in NDn. intros Hin. eapply nodup_app_disjoint; [exact NDn|exact Hin|right; left; reflexivity]. }
      split; [|split; [proj; fold h; heap; rewrite Hn; reflexivity|reflexivity]].
      apply repr_intro; proj; fold h; heap.
      * apply seg_app. cbn [headp]. rewrite lastp_snoc. split.
        -- apply seg_frame_prev; [exact HsA|]. apply seg_frame_prev; [exact Hsb_A|].
           eapply seg_snoc_set_next; [exact NDA|exact HA].
        -- apply seg_frame_prev; [exact HsB|]. eapply seg_cons_set_prev; [exact NDB|].
           apply seg_frame_next; [exact Hsl_B|]. rewrite Hn in HB. exact HB.
      * rewrite Hend. rewrite !lastp_app. reflexivity.
      * cbn [fchain]. heap. split; [reflexivity|]. apply Hfree. intros x Hx.
        assert (x <> s) by (intros ->; contradiction). assert (x <> sl) by (intros ->; contradiction).
        assert (x <> sb) by (intros ->; contradiction). heap. reflexivity.
      * exact Hsz'.
      * exact Hb.
Qed.

(* ---- clear --------------------------------------------------------------------------------- *)
Lemma clear_loop_spec o : forall ns fuel h prev cur fr frl,
    seg h prev cur ns (PEnd o) -> NoDup (slots ns ++ frl) -> fchain h fr frl -> length ns <= fuel ->
    fchain (fst (pl_clear_loop fuel h cur fr)) (snd (pl_clear_loop fuel h cur fr)) (rev (slots ns) ++ frl).
Proof.
  induction ns as [|[v s] t IH]; intros fuel h prev cur fr frl Hseg ND Hfc Hf; cbn [seg slots map snd rev app length] in *.
  - subst cur. destruct fuel; cbn [pl_clear_loop fst snd]; exact Hfc.
  - destruct Hseg as (-> & _ & _ & Ht). destruct fuel as [|f]; [lia|]. cbn [pl_clear_loop].
    inversion ND as [|? ? Hn ND']; subst.
    assert (Hst : ~ In s (slots t)) by (intros Hin; apply Hn; apply in_or_app; left; exact Hin).
    assert (Hsf : ~ In s frl) by (intros Hin; apply Hn; apply in_or_app; right; exact Hin).
    heap. rewrite <- app_assoc. cbn [app].
    apply (IH f (set_prev h s fr) (PNode s) (cnext (h s)) (PNode s) (s :: frl)).
    + apply seg_frame_prev; [exact Hst|exact Ht].
    + apply NoDup_cons_iff in ND. eapply Permutation_NoDup; [apply Permutation_middle|]. constructor; assumption.
    + cbn [fchain]. heap. split; [reflexivity|]. apply fchain_frame_prev; [exact Hsf|exact Hfc].
    + lia.
Qed.

Theorem link_clear st l : repr st l -> nl_inv l -> repr (pl_clear st) (nl_clear l) /\ self (pl_clear st) = self st.
Proof.
  intros (Hseg & Hend & Hfc & Hsz & Hb) I. unfold pl_clear.
  pose proof (clear_loop_spec (self st) (nodes l) (lsz st) (cells st) PNull (begin_ st) (lfree st) (free l)
                Hseg (nl_inv_nodup l I) Hfc) as H.
  destruct (pl_clear_loop (lsz st) (cells st) (begin_ st) (lfree st)) as [h fr]. cbn [fst snd] in H.
  split; [|reflexivity]. apply repr_intro; cbn [cells begin_ end_prev lfree lsz lblocks self nl_clear nodes free msize nblocks seg lastp].
  - reflexivity.
  - reflexivity.
  - rewrite frev_rev. apply H. rewrite Hsz. destruct I as [_ ->]. apply le_n.
  - reflexivity.
  - exact Hb.
Qed.

(* ---- swap ---------------------------------------------------------------------------------- *)
Lemma link_take me other lo : repr other lo -> nl_inv lo -> repr (pl_take me other) lo /\ self (pl_take me other) = self me.
Proof.
  intros (Hseg & Hend & Hfc & Hsz & Hb) I. unfold pl_take.
  pose proof (nl_inv_nodup lo I) as ND.
  destruct (nodes lo) as [|[vl sl] A0 _] eqn:En using rev_ind.
  - cbn [lastp] in Hend. rewrite Hend. split; [|reflexivity].
    apply repr_intro; cbn [cells begin_ end_prev lfree lsz lblocks self]; rewrite ?En; cbn [seg lastp]; try assumption; reflexivity.
  - rewrite lastp_snoc in Hend. rewrite Hend. cbn [wr_next]. split; [|reflexivity].
    apply repr_intro; proj; rewrite ?En.
    + eapply seg_snoc_set_next; [eapply NoDup_app_l; exact ND|exact Hseg].
    + rewrite lastp_snoc. reflexivity.
    + apply fchain_frame_next; [|exact Hfc]. eapply nodup_app_disjoint; [exact ND|].
      rewrite slots_app. apply in_or_app. right. left. reflexivity.
    + exact Hsz.
    + exact Hb.
Qed.

Theorem link_swap a b la lb : repr a la -> repr b lb -> nl_inv la -> nl_inv lb ->
    repr (fst (pl_swap a b)) lb /\ repr (snd (pl_swap a b)) la
    /\ self (fst (pl_swap a b)) = self a /\ self (snd (pl_swap a b)) = self b.
Proof.
  intros Ra Rb Ia Ib. unfold pl_swap. cbn [fst snd].
  destruct (link_take a b lb Rb Ib) as (R1 & S1). destruct (link_take b a la Ra Ia) as (R2 & S2).
  split; [exact R1|split; [exact R2|split; [exact S1|exact S2]]].
Qed.

(* ---- iteration, find, front/back, isEmpty ------------------------------------------------------ *)
Lemma walk_spec h o : forall ns fuel prev cur, seg h prev cur ns (PEnd o) -> length ns <= fuel -> pl_walk fuel h cur = vals ns.
Proof.
  induction ns as [|[v s] t IH]; intros fuel prev cur Hseg Hf; cbn [seg vals map fst length] in *.
  - subst cur. destruct fuel; reflexivity.
  - destruct Hseg as (-> & Hv & _ & Ht). destruct fuel as [|f]; [lia|]. cbn [pl_walk]. rewrite Hv. f_equal.
    apply (IH f (PNode s)); [exact Ht|lia].
Qed.

Lemma walk_back_spec h : forall ns fuel cur nxt, seg h PNull cur ns nxt -> length ns <= fuel ->
    pl_walk_back fuel h (lastp PNull ns) = rev (vals ns).
Proof.
  induction ns as [|[v s] a IH] using rev_ind; intros fuel cur nxt Hseg Hf.
  - cbn. destruct fuel; reflexivity.
  - rewrite lastp_snoc. apply seg_app in Hseg. cbn [headp] in Hseg. destruct Hseg as (Ha & Hs).
    cbn [seg] in Hs. destruct Hs as (_ & Hv & Hp & _).
    rewrite app_length in Hf. cbn [length] in Hf. destruct fuel as [|f]; [lia|]. cbn [pl_walk_back].
    rewrite Hv, Hp. rewrite vals_app. cbn [vals map fst]. rewrite rev_app_distr. cbn [rev app]. f_equal.
    apply (IH f cur (PNode s)); [exact Ha|lia].
Qed.

Lemma find_loop_spec h o v : forall ns fuel prev cur, seg h prev cur ns (PEnd o) -> length ns <= fuel ->
    pl_find_loop fuel h (PEnd o) cur v = ptr_of o (nth_slot (find_rank v ns) ns).
Proof.
  induction ns as [|[x s] t IH]; intros fuel prev cur Hseg Hf; cbn [seg length find_rank] in *.
  - subst cur. destruct fuel; reflexivity.
  - destruct Hseg as (-> & Hv & _ & Ht). destruct fuel as [|f]; [lia|]. cbn [pl_find_loop]. rewrite Hv.
    destruct (Z.eqb x v); [reflexivity|]. rewrite (IH f (PNode s)); [reflexivity|exact Ht|lia].
Qed.

Theorem link_observe st l : repr st l -> nl_inv l ->
    pl_walk (lsz st) (cells st) (begin_ st) = vals (nodes l)
    /\ pl_walk_back (lsz st) (cells st) (end_prev st) = rev (vals (nodes l))
    /\ (forall v, pl_find v st = ptr_of (self st) (nl_find v l))
    /\ pl_is_empty st = match nodes l with [] => true | _ => false end
    /\ (nodes l <> [] -> Some (pl_front st) = hd_error (vals (nodes l))
                         /\ Some (pl_back st) = hd_error (rev (vals (nodes l)))).
Proof.
  intros (Hseg & Hend & Hfc & Hsz & Hb) I.
  assert (Hlen : length (nodes l) <= lsz st) by (rewrite Hsz; destruct I as [_ ->]; apply le_n).
  split; [eapply walk_spec; eassumption|].
  split; [rewrite Hend; eapply walk_back_spec; eassumption|].
  split; [intros v; unfold pl_find, nl_find; eapply find_loop_spec; eassumption|].
  split.
  - unfold pl_is_empty. rewrite Hend. destruct (nodes l) as [|[v s] a _] using rev_ind; [reflexivity|].
    rewrite lastp_snoc. destruct a; reflexivity.
  - intros Hne. split.
    + unfold pl_front. destruct (nodes l) as [|[v s] t]; [congruence|]. cbn [seg] in Hseg.
      destruct Hseg as (-> & Hv & _). rewrite Hv. reflexivity.
    + unfold pl_back. rewrite Hend. destruct (nodes l) as [|[v s] a _] using rev_ind; [congruence|].
      rewrite lastp_snoc. apply seg_app in Hseg. cbn [headp seg] in Hseg. destruct Hseg as (_ & _ & Hv & _).
      rewrite Hv. rewrite vals_app. cbn [vals map fst]. rewrite rev_app_distr. reflexivity.
Qed.

(* ---- the loops of the copy constructor, operator=, append(list), insert(position, list) ----------- *)
Lemma ptr_at_end o ns : ptr_at o (length ns) ns = PEnd o.
Proof. unfold ptr_at. rewrite skipn_all. reflexivity. Qed.

Lemma ptr_at_begin st l : repr st l -> ptr_at (self st) 0 (nodes l) = begin_ st.
Proof. intros (Hseg & _). unfold ptr_at. cbn [skipn]. symmetry. eapply seg_head. exact Hseg. Qed.

Theorem link_append_all vs : forall st l, repr st l -> nl_inv l ->
    repr (pl_append_all vs st) (nl_append_all vs l) /\ self (pl_append_all vs st) = self st.
Proof.
  induction vs as [|v t IH]; intros st l R I; cbn [pl_append_all nl_append_all]; [split; [exact R|reflexivity]|].
  unfold nl_append. rewrite <- (ptr_at_end (self st) (nodes l)).
  destruct (link_insert st l (length (nodes l)) v R I (le_n _)) as (R1 & _ & S1).
  destruct (nl_insert (length (nodes l)) v l) as [l1 s] eqn:E.
  destruct (nl_insert_spec _ _ _ _ _ I E) as (I1 & _). cbn [fst] in *.
  destruct (IH _ _ R1 I1) as (R2 & S2). split; [exact R2|]. rewrite S2. exact S1.
Qed.

Theorem link_insert_all vs : forall st l k, repr st l -> nl_inv l -> k <= length (nodes l) ->
    repr (pl_insert_all (ptr_at (self st) k (nodes l)) vs st) (nl_insert_all k vs l)
    /\ self (pl_insert_all (ptr_at (self st) k (nodes l)) vs st) = self st.
Proof.
  induction vs as [|v t IH]; intros st l k R I Hk; cbn [pl_insert_all nl_insert_all]; [split; [exact R|reflexivity]|].
  destruct (link_insert st l k v R I Hk) as (R1 & _ & S1).
  destruct (nl_insert k v l) as [l1 s] eqn:E.
  destruct (nl_insert_spec _ _ _ _ _ I E) as (I1 & Hn & _). cbn [fst] in *.
  assert (Hk1 : S k <= length (nodes l1)).
  { rewrite Hn. rewrite app_length. cbn [length]. rewrite firstn_length_le by exact Hk.
    rewrite skipn_length. lia. }
  assert (Hp : ptr_at (self st) k (nodes l) =
               ptr_at (self (fst (pl_insert (ptr_at (self st) k (nodes l)) v st))) (S k) (nodes l1)).
  { rewrite S1. unfold ptr_at. rewrite Hn. destruct (firstn_S_mid k (nodes l) (v, s) Hk) as [_ ->]. reflexivity. }
  rewrite Hp at 1 3. destruct (IH _ _ (S k) R1 I1 Hk1) as (R2 & S2). split; [exact R2|]. rewrite S2. exact S1.
Qed.
