(* MODEL of the relinking code of include/nstd/List.hpp (and PoolList.hpp, which has the same
   code around an element constructed in place) at the level of pointers: every node is a cell
   (value, prev, next) in a heap indexed by slot id, `&endItem` is the pointer `PEnd self`, the
   free list is threaded through `prev`.  Statement by statement: insert() incl. the allocation of
   a block of 4 items, remove(), clear(), swap(), find(), front()/back(), forward and backward
   iteration.  SeqLinkProofs shows that each of them does to the heap exactly what the node-level
   model (SeqModel: nl_insert, nl_remove, ...) does to its list of (value, slot) - the node-level
   model is the one the drivers run against the implementation.  No proofs in this file. *)
From Coq Require Import ZArith List Bool.
From Seq Require Import SeqSpec SeqModel.
Import ListNotations.

Inductive ptr :=
| PNull                                   (* 0 *)
| PEnd (owner : nat)                      (* &endItem of the List object `owner` *)
| PNode (s : slot).                       (* the item in slot s of this list's blocks *)

Definition ptr_eqb (a b : ptr) : bool :=
  match a, b with
  | PNull, PNull => true
  | PEnd x, PEnd y => Nat.eqb x y
  | PNode x, PNode y => Nat.eqb x y
  | _, _ => false
  end.

Record cell := mk_cell { cval : Z; cprev : ptr; cnext : ptr }.
Definition heap := slot -> cell.
Definition hset (h : heap) (s : slot) (c : cell) : heap := fun x => if Nat.eqb x s then c else h x.
Definition set_val (h : heap) (s : slot) (v : Z) : heap := hset h s (mk_cell v (cprev (h s)) (cnext (h s))).
Definition set_prev (h : heap) (s : slot) (q : ptr) : heap := hset h s (mk_cell (cval (h s)) q (cnext (h s))).
Definition set_next (h : heap) (s : slot) (q : ptr) : heap := hset h s (mk_cell (cval (h s)) (cprev (h s)) q).

Record lstate := mk_lstate {
  self : nat;                             (* which List object this is: &endItem = PEnd self *)
  cells : heap;                           (* the items of the blocks this list owns *)
  begin_ : ptr;                           (* _begin.item *)
  end_prev : ptr;                         (* endItem.prev   (endItem.next stays 0) *)
  lsz : nat;                              (* _size *)
  lfree : ptr;                            (* freeItem *)
  lblocks : nat                           (* length of the blocks chain *)
}.

Definition with_cells (st : lstate) (h : heap) : lstate :=
  mk_lstate (self st) h (begin_ st) (end_prev st) (lsz st) (lfree st) (lblocks st).
Definition with_begin (st : lstate) (p : ptr) : lstate :=
  mk_lstate (self st) (cells st) p (end_prev st) (lsz st) (lfree st) (lblocks st).
Definition with_end_prev (st : lstate) (p : ptr) : lstate :=
  mk_lstate (self st) (cells st) (begin_ st) p (lsz st) (lfree st) (lblocks st).
Definition with_free (st : lstate) (p : ptr) : lstate :=
  mk_lstate (self st) (cells st) (begin_ st) (end_prev st) (lsz st) p (lblocks st).
Definition with_size (st : lstate) (n : nat) : lstate :=
  mk_lstate (self st) (cells st) (begin_ st) (end_prev st) n (lfree st) (lblocks st).

Definition ls_empty (o : nat) : lstate :=
  mk_lstate o (fun _ => mk_cell 0%Z PNull PNull) (PEnd o) PNull O PNull O.

(* p->prev, p->next = q, p->prev = q for p an item or &endItem *)
Definition rd_prev (st : lstate) (p : ptr) : ptr :=
  match p with PNode s => cprev (cells st s) | PEnd _ => end_prev st | PNull => PNull end.
Definition wr_prev (st : lstate) (p q : ptr) : lstate :=
  match p with
  | PNode s => with_cells st (set_prev (cells st) s q)
  | PEnd _ => with_end_prev st q
  | PNull => st
  end.
Definition wr_next (st : lstate) (p q : ptr) : lstate :=
  match p with
  | PNode s => with_cells st (set_next (cells st) s q)
  | _ => st
  end.

(* ItemBlock* itemBlock = new ...; blocks = itemBlock;
   for(i = first item of the block, end = i + 4; i < end; ++i) { i->prev = item; item = i; }
   freeItem = item;                                     (item == 0 on entry) *)
Definition pl_new_block (st : lstate) : lstate :=
  let b := lblocks st in
  let h1 := set_prev (cells st) (4 * b) PNull in
  let h2 := set_prev h1 (4 * b + 1) (PNode (4 * b)) in
  let h3 := set_prev h2 (4 * b + 2) (PNode (4 * b + 1)) in
  let h4 := set_prev h3 (4 * b + 3) (PNode (4 * b + 2)) in
  mk_lstate (self st) h4 (begin_ st) (end_prev st) (lsz st) (PNode (4 * b + 3)) (S b).

(* Iterator insert(const Iterator& position, const T& value) *)
Definition pl_insert (pos : ptr) (v : Z) (st : lstate) : lstate * ptr :=
  let st1 := match lfree st with PNull => pl_new_block st | _ => st end in       (* if(!item) { ... } *)
  match lfree st1 with
  | PNode s =>
      let st2 := with_cells st1 (set_val (cells st1) s v) in                     (* new(item) Item(value) *)
      let st3 := with_free st2 (cprev (cells st2 s)) in                          (* freeItem = item->prev *)
      let q := rd_prev st3 pos in                                                (* insertPos->prev *)
      let st4 := with_cells st3 (set_prev (cells st3) s q) in                    (* item->prev = insertPos->prev *)
      let st5 := match q with
                 | PNull => with_begin st4 (PNode s)                             (* else _begin.item = item *)
                 | _ => wr_next st4 q (PNode s)                                  (* insertPos->prev->next = item *)
                 end in
      let st6 := with_cells st5 (set_next (cells st5) s pos) in                  (* item->next = insertPos *)
      let st7 := wr_prev st6 pos (PNode s) in                                    (* insertPos->prev = item *)
      (with_size st7 (S (lsz st7)), PNode s)                                     (* ++_size; return item *)
  | _ => (st1, PNull)
  end.

(* the loops of List(const List&), operator= and append(const List&): append(i->value) for every
   node of the other list; and of insert(position, list): insert(pos, i->value) before the same node *)
Fixpoint pl_append_all (vs : list Z) (st : lstate) : lstate :=
  match vs with
  | [] => st
  | v :: t => pl_append_all t (fst (pl_insert (PEnd (self st)) v st))
  end.
Fixpoint pl_insert_all (pos : ptr) (vs : list Z) (st : lstate) : lstate :=
  match vs with
  | [] => st
  | v :: t => pl_insert_all pos t (fst (pl_insert pos v st))
  end.

(* Iterator remove(const Iterator& it) *)
Definition pl_remove (it : ptr) (st : lstate) : lstate * ptr :=
  match it with
  | PNode s =>
      let q := cprev (cells st s) in
      let n := cnext (cells st s) in
      let st1 := match q with
                 | PNull => wr_prev (with_begin st n) n PNull                    (* (_begin.item = item->next)->prev = 0 *)
                 | _ => wr_prev (wr_next st q n) n q                             (* (item->prev->next = item->next)->prev = item->prev *)
                 end in
      let st2 := with_size st1 (pred (lsz st1)) in                               (* --_size *)
      let st3 := with_cells st2 (set_prev (cells st2) s (lfree st2)) in          (* item->prev = freeItem *)
      let st4 := with_free st3 (PNode s) in                                      (* freeItem = item *)
      (st4, cnext (cells st4 s))                                                 (* return item->next *)
  | _ => (st, PNull)
  end.

(* for(Item* i = _begin.item, * end = &endItem; i != end; i = i->next) { i->prev = freeItem; freeItem = i; } *)
Fixpoint pl_clear_loop (fuel : nat) (h : heap) (i : ptr) (fr : ptr) : heap * ptr :=
  match fuel with
  | O => (h, fr)
  | S f =>
      match i with
      | PNode s => let h' := set_prev h s fr in pl_clear_loop f h' (cnext (h' s)) (PNode s)
      | _ => (h, fr)
      end
  end.

Definition pl_clear (st : lstate) : lstate :=
  let '(h, fr) := pl_clear_loop (lsz st) (cells st) (begin_ st) (lfree st) in
  mk_lstate (self st) h (PEnd (self st)) PNull O fr (lblocks st).       (* _begin.item = &endItem; endItem.prev = 0; _size = 0 *)

(* void swap(List& other): the blocks (and with them the cells) change hands *)
Definition pl_take (me other : lstate) : lstate :=
  match end_prev other with
  | PNull => mk_lstate (self me) (cells other) (PEnd (self me)) PNull (lsz other) (lfree other) (lblocks other)
  | last =>                                                              (* endItem.prev->next = &endItem; _begin.item = other._begin.item *)
      wr_next (mk_lstate (self me) (cells other) (begin_ other) last (lsz other) (lfree other) (lblocks other))
              last (PEnd (self me))
  end.
Definition pl_swap (a b : lstate) : lstate * lstate := (pl_take a b, pl_take b a).

(* iteration: for(it = begin(); it != end(); ++it) *it, and backwards from end() with --it *)
Fixpoint pl_walk (fuel : nat) (h : heap) (i : ptr) : list Z :=
  match fuel with
  | O => []
  | S f => match i with PNode s => cval (h s) :: pl_walk f h (cnext (h s)) | _ => [] end
  end.
Fixpoint pl_walk_back (fuel : nat) (h : heap) (i : ptr) : list Z :=
  match fuel with
  | O => []
  | S f => match i with PNode s => cval (h s) :: pl_walk_back f h (cprev (h s)) | _ => [] end
  end.

(* Iterator find(const T& value) const *)
Fixpoint pl_find_loop (fuel : nat) (h : heap) (endp : ptr) (i : ptr) (v : Z) : ptr :=
  match fuel with
  | O => endp
  | S f => match i with
           | PNode s => if Z.eqb (cval (h s)) v then i else pl_find_loop f h endp (cnext (h s)) v
           | _ => endp
           end
  end.
Definition pl_find (v : Z) (st : lstate) : ptr := pl_find_loop (lsz st) (cells st) (PEnd (self st)) (begin_ st) v.

Definition pl_is_empty (st : lstate) : bool := ptr_eqb (end_prev st) PNull.
Definition pl_front (st : lstate) : Z := match begin_ st with PNode s => cval (cells st s) | _ => 0%Z end.
Definition pl_back (st : lstate) : Z := match end_prev st with PNode s => cval (cells st s) | _ => 0%Z end.
