(* Array<T> at the level of storage cells: the member functions, one object at a time.
   `has_arr h a L`: the Array object a holds exactly the elements L in heap h - its allocation is
   live, its first |L| cells are constructed with the values L, the remaining _capacity - |L| cells
   are raw.  For every member function: started in such a state it ends WITHOUT an access error in
   such a state, the new (L, _capacity, allocation flag) are what the value-level model computes, and
   the heap changed only as `step_frame` allows (other allocations untouched, the abandoned one freed
   with all its elements destroyed, no further live allocation left behind). *)
From Coq Require Import ZArith List Bool Lia.
From Coq Require Import ZifyBool ZifyNat.
From Common Require Import ListAux.
From Seq Require Import SeqSpec SeqModel SeqPoolProofs SeqListProofs SeqArrayProofs SeqArrayMemModel SeqArrayMemProofs.
Import ListNotations.
Local Open Scope Z_scope.

Definition blk_of (L : list Z) (r : nat) : block := mk_block true (map Some L ++ repeat None r).
Definition abs_arr (a : sarr) (L : list Z) : marr := mk_marr L (scap a) (is_some (sbeg a)).

Definition has_arr (h : mheap) (a : sarr) (L : list Z) : Prop :=
  a_inv (abs_arr a L) /\
  match sbeg a with
  | None => send a = O
  | Some b => nth_error h b = Some (blk_of L (Z.to_nat (scap a) - length L)) /\ send a = length L
  end.

Record step_frame (h : mheap) (a : sarr) (h' : mheap) (a' : sarr) : Prop := {
  sf_len : (length h <= length h')%nat;
  sf_other : forall b', (b' < length h)%nat -> sbeg a <> Some b' -> nth_error h' b' = nth_error h b';
  sf_beg : sbeg a' = None \/ sbeg a' = sbeg a \/ exists nb, sbeg a' = Some nb /\ (length h <= nb)%nat;
  sf_live : forall bb blk, nth_error h' bb = Some blk -> blive blk = true -> sbeg a' <> Some bb ->
            (bb < length h)%nat /\ sbeg a <> Some bb
}.

Lemma map_unsome_some L : map unsome (map Some L) = L.
Proof. induction L as [|x t IH]; cbn; [reflexivity|]. f_equal. exact IH. Qed.

Lemma firstn_app_exact {A} (l1 l2 : list A) : firstn (length l1) (l1 ++ l2) = l1.
Proof. induction l1 as [|x t IH]; cbn; [destruct l2; reflexivity|]. f_equal. exact IH. Qed.

Lemma has_arr_none h a L : has_arr h a L -> sbeg a = None -> L = [].
Proof. intros ((_ & Hu & _) & _) E. apply Hu. cbn [abs_arr allocated]. rewrite E. reflexivity. Qed.

Lemma has_arr_send h a L : has_arr h a L -> send a = length L.
Proof.
  intros H. destruct (sbeg a) as [b|] eqn:E.
  - destruct H as (_ & H). rewrite E in H. apply H.
  - rewrite (has_arr_none h a L H E). destruct H as (_ & H). rewrite E in H. exact H.
Qed.

Lemma has_arr_items h a L : has_arr h a L -> s_items h a = L.
Proof.
  intros H. unfold s_items. destruct (sbeg a) as [b|] eqn:E.
  - pose proof (has_arr_send h a L H) as Hs. destruct H as (_ & H). rewrite E in H. destruct H as (Hb & _).
    rewrite Hb, Hs. cbn [blk_of bcells]. rewrite <- (map_length Some L) at 1. rewrite firstn_app_exact. apply map_unsome_some.
  - symmetry. eapply has_arr_none; eassumption.
Qed.

Lemma has_arr_abs h a L : has_arr h a L -> sabs_arr h a = abs_arr a L.
Proof. intros H. unfold sabs_arr, abs_arr. rewrite (has_arr_items h a L H). reflexivity. Qed.

Lemma has_arr_cap h a L : has_arr h a L -> Z.of_nat (length L) <= scap a.
Proof. intros ((Hs & _) & _). exact Hs. Qed.

Lemma has_arr_frame h h' o L : (forall b, sbeg o = Some b -> nth_error h' b = nth_error h b) -> has_arr h o L -> has_arr h' o L.
Proof.
  intros F (I & H). split; [exact I|]. destruct (sbeg o) as [b|]; [|exact H]. rewrite (F b eq_refl). exact H.
Qed.

Lemma has_arr_lt h a L b : has_arr h a L -> sbeg a = Some b -> (b < length h)%nat.
Proof. intros (_ & H) E. rewrite E in H. destruct H as (H & _). eapply nth_error_lt. exact H. Qed.

(* reading the elements of an array through a pointer to its storage *)
Lemma has_arr_reads h o L i j : has_arr h o L -> (i + j < length L)%nat ->
    rd_src (SPtr (sbeg o) i) j h = Ok (nth (i + j) L 0) h.
Proof.
  intros H Hj. cbn [rd_src]. destruct (sbeg o) as [b|] eqn:E.
  - destruct H as (_ & H). rewrite E in H. destruct H as (Hb & _). apply (rd_ok h b _ Hb).
    rewrite nth_error_app1 by (rewrite map_length; exact Hj).
    rewrite nth_error_map. rewrite (nth_error_nth' L 0 Hj). reflexivity.
  - rewrite (has_arr_none h o L H E) in Hj. cbn in Hj. lia.
Qed.

Lemma rd_src_lt b' i k v h : rd_src (SPtr (Some b') i) k h = Ok v h -> (b' < length h)%nat.
Proof.
  cbn [rd_src]. unfold rd, find_cell. destruct (nth_error h b') eqn:E; [|discriminate]. intros _.
  eapply nth_error_lt. exact E.
Qed.

(* ---- step_frame ------------------------------------------------------------------------------- *)
Lemma step_frame_refl h a : step_frame h a h a.
Proof.
  split; [lia|reflexivity|right; left; reflexivity|].
  intros bb blk H _ Hn. split; [eapply nth_error_lt; exact H|exact Hn].
Qed.

Lemma step_frame_trans h a h1 a1 h2 a2 : step_frame h a h1 a1 -> step_frame h1 a1 h2 a2 -> step_frame h a h2 a2.
Proof.
  intros [L1 O1 B1 V1] [L2 O2 B2 V2].
  assert (N1 : forall b', (b' < length h)%nat -> sbeg a <> Some b' -> sbeg a1 <> Some b').
  { intros b' Hlt Hn E. destruct B1 as [B1|[B1|(nb & B1 & Hnb)]]; try congruence. rewrite B1 in E. injection E as ->. lia. }
  split.
  - lia.
  - intros b' Hlt Hn. rewrite O2 by (try lia; apply N1; assumption). apply O1; assumption.
  - destruct B2 as [B2|[B2|(nb & B2 & Hnb)]].
    + left; exact B2.
    + rewrite B2. exact B1.
    + right; right. exists nb. split; [exact B2|lia].
  - intros bb blk Hb Hl Hn. destruct (V2 bb blk Hb Hl Hn) as (Hlt & Hn1).
    rewrite (O2 bb Hlt Hn1) in Hb. apply (V1 bb blk Hb Hl Hn1).
Qed.

(* a change inside the array's own allocation, which stays its allocation *)
Lemma step_frame_inplace h a a' b blk : sbeg a = Some b -> sbeg a' = Some b -> step_frame h a (upd b blk h) a'.
Proof.
  intros E E'. split.
  - rewrite upd_length. lia.
  - intros b' _ Hn. apply nth_error_upd_other. congruence.
  - right; left. congruence.
  - intros bb blk' Hb _ Hn. rewrite E' in Hn. rewrite nth_error_upd_other in Hb by congruence.
    split; [eapply nth_error_lt; exact Hb|congruence].
Qed.

(* ---- reserve ---------------------------------------------------------------------------------- *)
Lemma repeat_app_le {A} (x : A) n m : (n <= m)%nat -> repeat x m = repeat x n ++ repeat x (m - n).
Proof. intros H. rewrite <- repeat_app. f_equal. lia. Qed.

Lemma forallb_is_none_repeat n : forallb is_none (repeat (@None Z) n) = true.
Proof. induction n; cbn; auto. Qed.

Lemma nth_error_snoc_last {A} (h : list A) x : nth_error (h ++ [x]) (length h) = Some x.
Proof. apply nth_error_mid. Qed.

Lemma nth_error_snoc_lt {A} (h : list A) x b : (b < length h)%nat -> nth_error (h ++ [x]) b = nth_error h b.
Proof. intros H. apply nth_error_app1. exact H. Qed.

Lemma abs_reserve_eq n a L c : (n >? scap a) || (negb (is_some (sbeg a)) && (n >? 0)) = true ->
    c = Z.lor (if n >? scap a then n else scap a) 3 -> forall nb e,
    abs_arr (mk_sarr (Some nb) e c) L = a_reserve n (abs_arr a L).
Proof.
  intros Hc -> nb e. unfold a_reserve, abs_arr. cbn [cap allocated items sbeg scap is_some]. rewrite Hc. reflexivity.
Qed.

Lemma s_reserve_ok n a h L : has_arr h a L ->
    exists h' a', s_reserve n a h = Ok a' h' /\ has_arr h' a' L /\ abs_arr a' L = a_reserve n (abs_arr a L)
                  /\ step_frame h a h' a'.
Proof.
  intros H. pose proof H as (I & Hm). unfold s_reserve.
  destruct ((n >? scap a) || (negb (is_some (sbeg a)) && (n >? 0))) eqn:Hc.
  2:{ exists h, a. split; [reflexivity|]. split; [exact H|]. split; [|apply step_frame_refl].
      unfold a_reserve, abs_arr. cbn [cap allocated]. rewrite Hc. reflexivity. }
  set (c := Z.lor (if n >? scap a then n else scap a) 3).
  pose proof (abs_reserve_eq n a L c Hc eq_refl) as Habs.
  destruct (a_reserve_inv n _ I) as (I1 & Hn & Hcap). cbn [abs_arr cap] in Hcap.
  assert (Hcc : scap a <= c /\ Z.of_nat (length L) <= c).
  { rewrite <- (Habs O O) in Hcap. cbn [abs_arr cap scap] in Hcap. destruct I as (Is & _). unfold asize in Is. cbn [abs_arr items cap] in Is. lia. }
  unfold bind, mem_alloc. set (h1 := h ++ [mk_block true (repeat None (Z.to_nat c))]).
  destruct (sbeg a) as [b|] eqn:E.
  - destruct Hm as (Hb & Hs). pose proof (nth_error_lt _ _ _ Hb) as Hlt.
    assert (Hb1 : nth_error h1 b = Some (mk_block true ([] ++ map Some L ++ repeat None (Z.to_nat (scap a) - length L)))).
    { unfold h1. rewrite nth_error_snoc_lt by exact Hlt. exact Hb. }
    assert (Hd1 : nth_error h1 (length h) = Some (mk_block true ([] ++ repeat None (length L) ++ repeat None (Z.to_nat c - length L)))).
    { unfold h1. rewrite nth_error_snoc_last. cbn [app]. rewrite <- repeat_app_le by lia. reflexivity. }
    rewrite Hs. pose proof (move_loop_ok L b (length h) [] _ [] _ h1 ltac:(lia) eq_refl Hb1 Hd1) as Hml.
    cbn [length app] in Hml. rewrite Hml. clear Hml.
    set (h2 := upd b _ (upd (length h) _ h1)).
    assert (Hb2 : nth_error h2 b = Some (mk_block true (repeat None (length L) ++ repeat None (Z.to_nat (scap a) - length L)))).
    { unfold h2. apply nth_error_upd_same. rewrite upd_length. unfold h1. rewrite app_length. lia. }
    unfold mem_free. rewrite Hb2. cbn [blive bcells]. rewrite forallb_app, !forallb_is_none_repeat. cbn [andb].
    eexists _, _. split; [reflexivity|].
    assert (Hlen : length h1 = Datatypes.S (length h)) by (unfold h1; rewrite app_length; cbn; lia).
    split; [|split; [apply Habs|]].
    + split; [rewrite (Habs (length h) (length L)); exact I1|]. cbn [sbeg send scap]. split; [|reflexivity].
      rewrite nth_error_upd_other by lia. unfold h2. rewrite nth_error_upd_other by lia.
      rewrite nth_error_upd_same by lia. reflexivity.
    + split.
      * rewrite upd_length. unfold h2. rewrite !upd_length. lia.
      * intros b' Hb' Hn'. rewrite nth_error_upd_other by congruence. unfold h2.
        rewrite nth_error_upd_other by congruence. rewrite nth_error_upd_other by lia.
        unfold h1. apply nth_error_snoc_lt. exact Hb'.
      * right; right. exists (length h). split; [reflexivity|lia].
      * intros bb blk Hbb Hl Hn'. cbn [sbeg] in Hn'.
        destruct (Nat.eq_dec bb b) as [->|Hne].
        { rewrite nth_error_upd_same in Hbb by (unfold h2; rewrite !upd_length; lia).
          injection Hbb as <-. discriminate Hl. }
        pose proof (nth_error_lt _ _ _ Hbb) as Hlt2. rewrite upd_length in Hlt2. unfold h2 in Hlt2. rewrite !upd_length in Hlt2.
        split; [|congruence]. assert (bb <> length h) by congruence. lia.
  - pose proof (has_arr_none h a L H E) as ->.
    eexists _, _. split; [reflexivity|]. split; [|split; [apply Habs|]].
    + split; [rewrite (Habs (length h) O); exact I1|]. cbn [sbeg send scap length]. split; [|reflexivity].
      unfold h1. rewrite nth_error_snoc_last. rewrite Nat.sub_0_r. reflexivity.
    + split.
      * unfold h1. rewrite app_length. lia.
      * intros b' Hb' _. unfold h1. apply nth_error_snoc_lt. exact Hb'.
      * right; right. exists (length h). split; [reflexivity|lia].
      * intros bb blk Hbb Hl Hn'. cbn [sbeg] in Hn'. split; [|congruence].
        pose proof (nth_error_lt _ _ _ Hbb) as Hlt2. unfold h1 in Hlt2. rewrite app_length in Hlt2. cbn [length] in Hlt2.
        assert (bb <> length h) by congruence. lia.
Qed.

(* no reallocation while the request fits an allocated buffer *)
Lemma s_reserve_fits n a h : is_some (sbeg a) = true -> n <= scap a -> s_reserve n a h = Ok a h.
Proof.
  intros Ha Hn. unfold s_reserve. rewrite Ha. cbn [negb andb]. rewrite orb_false_r.
  destruct (n >? scap a) eqn:G; [lia|reflexivity].
Qed.

Lemma a_reserve_idem n A : a_inv A -> a_reserve n (a_reserve n A) = a_reserve n A.
Proof.
  intros I. destruct (a_reserve_rule n A) as (_ & Hr).
  destruct ((n >? cap A) || (negb (allocated A) && (n >? 0))) eqn:E.
  - destruct Hr as (Hc & Ha). apply a_reserve_fits; [exact Ha|]. rewrite Hc. pose proof (lor3_bounds (Z.max n (cap A))). lia.
  - rewrite Hr. exact Hr.
Qed.

(* what is known after reserve(n) *)
Lemma after_reserve n a L a' : a_inv (abs_arr a L) -> abs_arr a' L = a_reserve n (abs_arr a L) ->
    n <= scap a' /\ scap a <= scap a' /\ (0 < n -> is_some (sbeg a') = true).
Proof.
  intros I E. destruct (a_reserve_inv n _ I) as (_ & Hn & Hc). rewrite <- E in Hn, Hc. cbn [abs_arr cap] in Hn, Hc.
  split; [exact Hn|]. split; [exact Hc|]. intros Hp. pose proof (a_reserve_alloc n _ I Hp) as Ha. rewrite <- E in Ha. exact Ha.
Qed.

(* ---- constructing a tail: the loop shared by append(Array), append(T*, n), copy construction ---- *)
Lemma copy_tail_ok (S : list Z) s h a L :
    has_arr h a L -> Z.of_nat (length L + length S) <= scap a -> (S <> [] -> is_some (sbeg a) = true) ->
    (forall j, (j < length S)%nat -> rd_src s j h = Ok (nth j S 0) h) ->
    match s with SPtr (Some b') i => sbeg a = Some b' -> (i + length S <= length L)%nat | _ => True end ->
    let a' := mk_sarr (sbeg a) (send a + length S) (scap a) in
    exists h', copy_loop (length S) s 0 (sbeg a) (send a) h = Ok tt h' /\ has_arr h' a' (L ++ S) /\ step_frame h a h' a'.
Proof.
  intros H Hcap Hne Hr Ha a'. subst a'. pose proof (has_arr_send h a L H) as Hs. pose proof H as (I & Hm).
  destruct (sbeg a) as [b|] eqn:E.
  - destruct Hm as (Hb & _). set (r := (Z.to_nat (scap a) - length L)%nat) in *.
    assert (Hb' : nth_error h b = Some (mk_block true (map Some L ++ repeat None (length S) ++ repeat None (r - length S)))).
    { rewrite Hb. unfold blk_of. rewrite <- repeat_app_le by lia. reflexivity. }
    rewrite Hs. rewrite <- (map_length Some L).
    rewrite (copy_loop_ok S s O b (map Some L) _ h Hb').
    + eexists. split; [reflexivity|]. split.
      * split.
        { destruct I as (Is & Iu & Ic). unfold a_inv, asize, abs_arr in *. cbn [items cap allocated sbeg scap is_some] in *.
          rewrite app_length. split; [lia|]. split; [intros; discriminate|]. intros _. apply Ic. rewrite E. reflexivity. }
        cbn [sbeg send scap]. rewrite map_length. split; [|rewrite app_length; lia].
        rewrite (upd_block_same h b _ Hb). unfold blk_of. rewrite map_app, <- app_assoc. do 5 f_equal. rewrite app_length. unfold r. lia.
      * apply step_frame_inplace; [exact E|reflexivity].
    + exact Hr.
    + destruct s as [vs|[b'|] i]; auto. destruct (Nat.eq_dec b' b) as [->|Hn]; [right|left; exact Hn].
      rewrite map_length. specialize (Ha eq_refl). lia.
  - assert (S = []) as -> by (destruct S; [reflexivity|]; specialize (Hne ltac:(discriminate)); discriminate).
    cbn [length copy_loop]. exists h. split; [reflexivity|]. rewrite app_nil_r.
    replace (mk_sarr None (send a + 0) (scap a)) with a.
    2:{ destruct a as [ab ae ac]; cbn [sbeg send scap] in *. subst ab. f_equal. lia. }
    split; [exact H|apply step_frame_refl].
Qed.

(* resize: the same for one value that is read every time round the loop *)
Lemma fill_tail_ok (m : nat) val v h a L :
    has_arr h a L -> Z.of_nat (length L + m) <= scap a -> (m <> O -> is_some (sbeg a) = true) ->
    rd_src val 0 h = Ok v h ->
    match val with SPtr (Some b') i => sbeg a = Some b' -> (i < length L)%nat | _ => True end ->
    exists h', fill_loop m val (sbeg a) (send a) h = Ok tt h'
               /\ has_arr h' (mk_sarr (sbeg a) (send a + m) (scap a)) (L ++ repeat v m)
               /\ step_frame h a h' (mk_sarr (sbeg a) (send a + m) (scap a)).
Proof.
  intros H Hcap Hne Hr Ha. pose proof (has_arr_send h a L H) as Hs. pose proof H as (I & Hm).
  destruct (sbeg a) as [b|] eqn:E.
  - destruct Hm as (Hb & _). set (r := (Z.to_nat (scap a) - length L)%nat) in *.
    assert (Hb' : nth_error h b = Some (mk_block true (map Some L ++ repeat None m ++ repeat None (r - m)))).
    { rewrite Hb. unfold blk_of. rewrite <- repeat_app_le by lia. reflexivity. }
    rewrite Hs. rewrite <- (map_length Some L).
    rewrite (fill_loop_ok m val v b (map Some L) _ h Hb' Hr).
    + eexists. split; [reflexivity|]. split.
      * split.
        { destruct I as (Is & Iu & Ic). unfold a_inv, asize, abs_arr in *. cbn [items cap allocated sbeg scap is_some] in *.
          rewrite app_length, repeat_length. split; [lia|]. split; [intros; discriminate|]. intros _. apply Ic. rewrite E. reflexivity. }
        cbn [sbeg send scap]. rewrite map_length. split; [|rewrite app_length, repeat_length; lia].
        rewrite (upd_block_same h b _ Hb). unfold blk_of. rewrite map_app, <- app_assoc. do 5 f_equal.
        rewrite app_length, repeat_length. unfold r. lia.
      * apply step_frame_inplace; [exact E|reflexivity].
    + destruct val as [vs|[b'|] i]; auto. destruct (Nat.eq_dec b' b) as [->|Hn]; [right|left; exact Hn].
      rewrite map_length. apply Ha. reflexivity.
  - assert (m = O) as -> by (destruct m; [reflexivity|]; specialize (Hne ltac:(discriminate)); discriminate).
    cbn [fill_loop repeat]. exists h. split; [reflexivity|]. rewrite app_nil_r.
    replace (mk_sarr None (send a + 0) (scap a)) with a.
    2:{ destruct a as [ab ae ac]; cbn [sbeg send scap] in *. subst ab. f_equal. lia. }
    split; [exact H|apply step_frame_refl].
Qed.

(* a `const T&` argument: readable, and if it lies in the array's own storage it is one of its elements *)
Definition src_ok (h : mheap) (a : sarr) (L : list Z) (val : src) (v : Z) : Prop :=
  rd_src val 0 h = Ok v h /\
  match val with SPtr (Some b') i => sbeg a = Some b' -> (i < length L)%nat | _ => True end.

Lemma src_ok_vals h a L v : src_ok h a L (SVals [v]) v.
Proof. split; [reflexivity|exact I]. Qed.

(* reserve(n) with n within the capacity does not invalidate the argument *)
Lemma src_ok_reserve_fit n h a L val v h1 a1 :
    has_arr h a L -> n <= scap a -> src_ok h a L val v ->
    s_reserve n a h = Ok a1 h1 -> step_frame h a h1 a1 -> src_ok h1 a1 L val v.
Proof.
  intros H Hn (Hr & Ha) Hres F. destruct (sbeg a) as [b|] eqn:E.
  - rewrite s_reserve_fits in Hres by (try rewrite E; auto). injection Hres as <- <-. split; [exact Hr|]. rewrite E. exact Ha.
  - destruct val as [vs|[b'|] i].
    + split; [|exact I]. eapply rd_src_frame; [exact I|exact Hr].
    + pose proof (rd_src_lt _ _ _ _ _ Hr) as Hlt. split.
      * eapply rd_src_frame; [|exact Hr]. cbn. apply (sf_other _ _ _ _ F); [exact Hlt|congruence].
      * intros E1. exfalso. destruct (sf_beg _ _ _ _ F) as [B|[B|(nb & B & Hnb)]]; try congruence.
        rewrite B in E1. injection E1 as ->. lia.
    + cbn in Hr. unfold rd, find_cell in Hr. discriminate.
Qed.

Lemma asize_abs a L : asize (abs_arr a L) = Z.of_nat (length L).
Proof. reflexivity. Qed.

(* ---- resize ------------------------------------------------------------------------------------ *)
Lemma s_resize_fit f n val v a h L :
    has_arr h a L -> 0 <= n -> (Z.of_nat (length L) <= n -> n <= scap a) -> src_ok h a L val v ->
    exists h' a' L', s_resize (Datatypes.S f) n val a h = Ok a' h' /\ has_arr h' a' L'
                     /\ abs_arr a' L' = a_resize n v (abs_arr a L) /\ step_frame h a h' a'.
Proof.
  intros H Hn Hfit Hsrc. pose proof (has_arr_send h a L H) as Hs. pose proof H as (I & Hm).
  destruct (a_resize_refines n v _ I Hn) as (I' & _).
  cbn [s_resize]. rewrite Hs. destruct (n <? Z.of_nat (length L)) eqn:E1.
  - (* the tail is destroyed *)
    destruct (sbeg a) as [b|] eqn:E.
    2:{ rewrite (has_arr_none h a L H E) in E1. cbn in E1. lia. }
    destruct Hm as (Hb & _). set (k := Z.to_nat n) in *. set (r := (Z.to_nat (scap a) - length L)%nat) in *.
    assert (Hb' : nth_error h b = Some (mk_block true (map Some (firstn k L) ++ map Some (skipn k L) ++ repeat None r))).
    { rewrite Hb. unfold blk_of. rewrite app_assoc, <- map_app, firstn_skipn. reflexivity. }
    pose proof (destroy_loop_ok (skipn k L) b (map Some (firstn k L)) (repeat None r) h Hb') as Hd.
    rewrite map_length, firstn_length, skipn_length, Nat.min_l in Hd by lia.
    unfold bind. rewrite Hd. eexists _, _, (firstn k L). split; [reflexivity|].
    assert (Eabs : abs_arr (mk_sarr (Some b) k (scap a)) (firstn k L) = a_resize n v (abs_arr a L)).
    { unfold a_resize. rewrite asize_abs, E1. unfold abs_arr. cbn [items cap allocated sbeg scap]. rewrite E. reflexivity. }
    split; [|split; [exact Eabs|apply step_frame_inplace; [exact E|reflexivity]]].
    split; [rewrite Eabs; exact I'|]. cbn [sbeg send scap]. rewrite firstn_length, Nat.min_l by lia. split; [|reflexivity].
    rewrite (upd_block_same h b _ Hb). unfold blk_of. rewrite <- repeat_app. do 4 f_equal.
    pose proof (has_arr_cap h a L H). unfold r, k. lia.
  - destruct (n >? scap a) eqn:E2; [lia|].
    destruct (s_reserve_ok n a h L H) as (h1 & a1 & Hres & H1 & Eabs1 & F1).
    destruct (after_reserve n a L a1 I Eabs1) as (Hn1 & _ & Hal1).
    pose proof (src_ok_reserve_fit n h a L val v h1 a1 H ltac:(lia) Hsrc Hres F1) as (Hr1 & Ha1).
    pose proof (has_arr_send h1 a1 L H1) as Hs1.
    set (m := (Z.to_nat n - length L)%nat).
    destruct (fill_tail_ok m val v h1 a1 L H1 ltac:(unfold m; lia) ltac:(unfold m; intros; apply Hal1; lia) Hr1 Ha1) as (h2 & Hf & H2 & F2).
    unfold bind. rewrite Hres. rewrite Hs1 in Hf. fold m. rewrite Hf.
    rewrite Hs1 in H2, F2. replace (length L + m)%nat with (Z.to_nat n) in H2, F2 by (unfold m; lia).
    eexists _, _, _. split; [reflexivity|]. split; [exact H2|]. split; [|eapply step_frame_trans; eassumption].
    unfold a_resize. rewrite asize_abs, E1. rewrite <- Eabs1. unfold abs_arr. cbn [items cap allocated sbeg scap]. reflexivity.
Qed.

Lemma a_resize_reserve n v A : a_inv A -> asize A <= n -> a_resize n v (a_reserve n A) = a_resize n v A.
Proof.
  intros I Hn. unfold a_resize, asize in *. rewrite a_reserve_items.
  destruct (n <? Z.of_nat (length (items A))) eqn:E; [lia|]. rewrite a_reserve_idem by exact I. rewrite !a_reserve_items. reflexivity.
Qed.

Lemma s_resize_ok n val v a h L :
    has_arr h a L -> 0 <= n -> src_ok h a L val v ->
    exists h' a' L', s_resize 2 n val a h = Ok a' h' /\ has_arr h' a' L'
                     /\ abs_arr a' L' = a_resize n v (abs_arr a L) /\ step_frame h a h' a'.
Proof.
  intros H Hn Hsrc. pose proof H as (I & _).
  destruct (Z_lt_le_dec n (Z.of_nat (length L))) as [Hlt|Hge]; [apply s_resize_fit; auto; lia|].
  destruct (Z_le_gt_dec n (scap a)) as [Hle|Hgt]; [apply s_resize_fit; auto|].
  (* the value is copied, the storage replaced, and resize runs once more within the capacity *)
  pose proof (has_arr_send h a L H) as Hs.
  change (s_resize 2 n val a h) with
    ((let sz := send a in
      if n <? Z.of_nat sz then _ <- destroy_loop (sz - Z.to_nat n) (sbeg a) (Z.to_nat n) ;; ret (mk_sarr (sbeg a) (Z.to_nat n) (scap a))
      else if n >? scap a then x <- rd_src val 0 ;; a1 <- s_reserve n a ;; s_resize 1 n (SVals [x]) a1
      else a1 <- s_reserve n a ;; _ <- fill_loop (Z.to_nat n - sz) val (sbeg a1) sz ;; ret (mk_sarr (sbeg a1) (Z.to_nat n) (scap a1))) h).
  cbv zeta. rewrite Hs. destruct (n <? Z.of_nat (length L)) eqn:E1; [lia|]. destruct (n >? scap a) eqn:E2; [|lia].
  destruct Hsrc as (Hr & _). unfold bind at 1. rewrite Hr.
  destruct (s_reserve_ok n a h L H) as (h1 & a1 & Hres & H1 & Eabs1 & F1).
  destruct (after_reserve n a L a1 I Eabs1) as (Hn1 & _ & _).
  unfold bind. rewrite Hres.
  destruct (s_resize_fit 0 n (SVals [v]) v a1 h1 L H1 Hn ltac:(intros; exact Hn1) (src_ok_vals h1 a1 L v)) as (h2 & a2 & L2 & Hrs & H2 & Eabs2 & F2).
  exists h2, a2, L2. split; [exact Hrs|]. split; [exact H2|]. split; [|eapply step_frame_trans; eassumption].
  rewrite Eabs2, Eabs1. apply a_resize_reserve; [exact I|]. rewrite asize_abs. exact Hge.
Qed.

(* ---- append(const T&) ---------------------------------------------------------------------------- *)
Lemma s_append_fit f val v a h L :
    has_arr h a L -> Z.of_nat (length L) + 1 <= scap a -> src_ok h a L val v ->
    exists h' a', s_append (Datatypes.S f) val a h = Ok (a', length L) h' /\ has_arr h' a' (L ++ [v])
                  /\ abs_arr a' (L ++ [v]) = fst (a_append v (abs_arr a L)) /\ step_frame h a h' a'.
Proof.
  intros H Hfit Hsrc. pose proof (has_arr_send h a L H) as Hs. pose proof H as (I & Hm).
  cbn [s_append]. rewrite Hs. destruct (Z.of_nat (length L) + 1 >? scap a) eqn:E1; [lia|].
  destruct (s_reserve_ok (Z.of_nat (length L) + 1) a h L H) as (h1 & a1 & Hres & H1 & Eabs1 & F1).
  destruct (after_reserve _ a L a1 I Eabs1) as (Hn1 & _ & Hal1).
  pose proof (src_ok_reserve_fit _ h a L val v h1 a1 H Hfit Hsrc Hres F1) as (Hr1 & Ha1).
  pose proof (has_arr_send h1 a1 L H1) as Hs1.
  destruct (fill_tail_ok 1 val v h1 a1 L H1 ltac:(lia) ltac:(intros; apply Hal1; lia) Hr1 Ha1) as (h2 & Hf & H2 & F2).
  cbn [fill_loop] in Hf. unfold bind in Hf. rewrite Hr1 in Hf.
  unfold bind. rewrite Hres, Hr1. destruct (construct (sbeg a1) (send a1) v h1) as [[] h2'|e] eqn:Ec; [|discriminate].
  unfold ret in Hf. injection Hf as ->.
  rewrite Hs1. replace (send a1 + 1)%nat with (Datatypes.S (length L)) in H2, F2 by lia. cbn [repeat] in H2.
  eexists _, _. split; [reflexivity|]. split; [exact H2|]. split; [|eapply step_frame_trans; eassumption].
  unfold a_append. cbn [fst]. rewrite asize_abs, <- Eabs1. unfold abs_arr. cbn [items cap allocated sbeg scap]. reflexivity.
Qed.

Lemma a_append_reserve v A : a_inv A -> a_append v (a_reserve (asize A + 1) A) = a_append v A.
Proof.
  intros I. unfold a_append.
  assert (E : asize (a_reserve (asize A + 1) A) = asize A) by (unfold asize; rewrite a_reserve_items; reflexivity).
  rewrite E. rewrite a_reserve_idem by exact I. reflexivity.
Qed.

Lemma s_append_ok val v a h L :
    has_arr h a L -> src_ok h a L val v ->
    exists h' a', s_append 2 val a h = Ok (a', length L) h' /\ has_arr h' a' (L ++ [v])
                  /\ abs_arr a' (L ++ [v]) = fst (a_append v (abs_arr a L)) /\ step_frame h a h' a'.
Proof.
  intros H Hsrc. pose proof H as (I & _).
  destruct (Z_le_gt_dec (Z.of_nat (length L) + 1) (scap a)) as [Hle|Hgt]; [apply s_append_fit; auto|].
  pose proof (has_arr_send h a L H) as Hs.
  change (s_append 2 val a h) with
    ((let sz := send a in
      if Z.of_nat sz + 1 >? scap a then x <- rd_src val 0 ;; a1 <- s_reserve (Z.of_nat sz + 1) a ;; s_append 1 (SVals [x]) a1
      else a1 <- s_reserve (Z.of_nat sz + 1) a ;; x <- rd_src val 0 ;; _ <- construct (sbeg a1) (send a1) x ;;
           ret (mk_sarr (sbeg a1) (Datatypes.S (send a1)) (scap a1), send a1)) h).
  cbv zeta. rewrite Hs. destruct (Z.of_nat (length L) + 1 >? scap a) eqn:E1; [|lia].
  destruct Hsrc as (Hr & _). unfold bind at 1. rewrite Hr.
  destruct (s_reserve_ok (Z.of_nat (length L) + 1) a h L H) as (h1 & a1 & Hres & H1 & Eabs1 & F1).
  destruct (after_reserve _ a L a1 I Eabs1) as (Hn1 & _ & _).
  unfold bind. rewrite Hres.
  destruct (s_append_fit 0 (SVals [v]) v a1 h1 L H1 Hn1 (src_ok_vals h1 a1 L v)) as (h2 & a2 & Hrs & H2 & Eabs2 & F2).
  exists h2, a2. split; [exact Hrs|]. split; [exact H2|]. split; [|eapply step_frame_trans; eassumption].
  rewrite Eabs2, Eabs1. rewrite <- (asize_abs a L). rewrite a_append_reserve by exact I. reflexivity.
Qed.

(* ---- append(const Array&), append(const T*, usize): reserve, then construct the tail ------------- *)
Lemma append_tail_ok (S : list Z) (mk : sarr -> src) a h L :
    has_arr h a L ->
    (forall h1 a1, has_arr h1 a1 L -> step_frame h a h1 a1 ->
       (forall j, (j < length S)%nat -> rd_src (mk a1) j h1 = Ok (nth j S 0) h1)
       /\ match mk a1 with SPtr (Some b') i => sbeg a1 = Some b' -> (i + length S <= length L)%nat | _ => True end) ->
    exists h' a',
      (a1 <- s_reserve (Z.of_nat (length L) + Z.of_nat (length S)) a ;;
       _ <- copy_loop (length S) (mk a1) 0 (sbeg a1) (send a1) ;;
       ret (mk_sarr (sbeg a1) (send a1 + length S) (scap a1))) h = Ok a' h'
      /\ has_arr h' a' (L ++ S) /\ abs_arr a' (L ++ S) = a_append_all S (abs_arr a L) /\ step_frame h a h' a'.
Proof.
  intros H Hsrc. pose proof H as (I & _).
  destruct (s_reserve_ok (Z.of_nat (length L) + Z.of_nat (length S)) a h L H) as (h1 & a1 & Hres & H1 & Eabs1 & F1).
  destruct (after_reserve _ a L a1 I Eabs1) as (Hn1 & _ & Hal1).
  destruct (Hsrc h1 a1 H1 F1) as (Hr & Ha).
  destruct (copy_tail_ok S (mk a1) h1 a1 L H1 ltac:(lia)) as (h2 & Hc & H2 & F2); [|exact Hr|exact Ha|].
  { intros Hne. apply Hal1. destruct S; [congruence|cbn [length]; lia]. }
  unfold bind. rewrite Hres, Hc. eexists _, _. split; [reflexivity|]. split; [exact H2|].
  split; [|eapply step_frame_trans; eassumption].
  unfold a_append_all. rewrite asize_abs, <- Eabs1. unfold abs_arr. cbn [items cap allocated sbeg scap]. reflexivity.
Qed.

Lemma has_arr_fun h a L1 L2 : has_arr h a L1 -> has_arr h a L2 -> L1 = L2.
Proof. intros H1 H2. rewrite <- (has_arr_items h a L1 H1). apply has_arr_items. exact H2. Qed.

(* a pointer into another array's allocation does not point into this array's, old or new *)
Lemma other_block_after h a h1 a1 b' : step_frame h a h1 a1 -> (b' < length h)%nat -> sbeg a <> Some b' -> sbeg a1 <> Some b'.
Proof.
  intros F Hlt Hn E1. destruct (sf_beg _ _ _ _ F) as [B|[B|(nb & B & Hnb)]]; try congruence.
  rewrite B in E1. injection E1 as ->. lia.
Qed.

Lemma s_append_arr_ok self o a h L Lo :
    has_arr h a L -> has_arr h o Lo -> (self = true -> o = a) ->
    (self = false -> forall b, sbeg o = Some b -> sbeg a <> Some b) ->
    exists h' a', s_append_arr self o a h = Ok a' h' /\ has_arr h' a' (L ++ Lo)
                  /\ abs_arr a' (L ++ Lo) = a_append_all Lo (abs_arr a L) /\ step_frame h a h' a'.
Proof.
  intros H Ho Hself Hoth. unfold s_append_arr. rewrite (has_arr_send h a L H), (has_arr_send h o Lo Ho).
  apply (append_tail_ok Lo (fun a1 => SPtr (sbeg (if self then a1 else o)) 0) a h L H).
  intros h1 a1 H1 F1. destruct self.
  - specialize (Hself eq_refl). subst o. pose proof (has_arr_fun h a L Lo H Ho) as <-. split.
    + intros j Hj. apply (has_arr_reads h1 a1 L 0 j H1). exact Hj.
    + destruct (sbeg a1); [intros _; lia|exact I].
  - specialize (Hoth eq_refl).
    assert (Ho1 : has_arr h1 o Lo).
    { eapply has_arr_frame; [|exact Ho]. intros b E. apply (sf_other _ _ _ _ F1); [eapply has_arr_lt; eassumption|apply Hoth; exact E]. }
    split.
    + intros j Hj. apply (has_arr_reads h1 o Lo 0 j Ho1). exact Hj.
    + destruct (sbeg o) as [b'|] eqn:E; [|exact I]. intros E1. exfalso.
      apply (other_block_after h a h1 a1 b' F1); [eapply has_arr_lt; eassumption|apply Hoth; reflexivity|exact E1].
Qed.

Lemma s_append_buf_ok vs a h L :
    has_arr h a L ->
    exists h' a', s_append_buf (SVals vs) (length vs) a h = Ok a' h' /\ has_arr h' a' (L ++ vs)
                  /\ abs_arr a' (L ++ vs) = a_append_all vs (abs_arr a L) /\ step_frame h a h' a'.
Proof.
  intros H. unfold s_append_buf. replace (in_own (SVals vs) a) with false by (unfold in_own; destruct (sbeg a); reflexivity).
  rewrite (has_arr_send h a L H).
  apply (append_tail_ok vs (fun _ => SVals vs) a h L H). intros h1 a1 _ _. split; [|exact I].
  intros j Hj. cbn [rd_src]. rewrite (nth_error_nth' vs 0 Hj). reflexivity.
Qed.

Lemma nth_firstn_lt {A} (l : list A) n j d : (j < n)%nat -> nth j (firstn n l) d = nth j l d.
Proof. revert n j; induction l as [|x t IH]; intros [|n] [|j] H; cbn; try reflexivity; try lia. apply IH. lia. Qed.

Lemma nth_skipn_add {A} (l : list A) off j d : nth j (skipn off l) d = nth (off + j) l d.
Proof. revert l; induction off as [|off IH]; intros [|x t]; cbn; try reflexivity; [destruct j; reflexivity|apply IH]. Qed.

Lemma nth_firstn_skipn {A} (l : list A) off n j d : (j < n)%nat -> nth j (firstn n (skipn off l)) d = nth (off + j) l d.
Proof. intros Hj. rewrite nth_firstn_lt by exact Hj. apply nth_skipn_add. Qed.

(* the pointer points into the array's own storage: the range [off, off + n) of its elements *)
Lemma s_append_buf_own_ok off n a h L :
    has_arr h a L -> (off + n <= length L)%nat ->
    let S := firstn n (skipn off L) in
    exists h' a', s_append_buf (SPtr (sbeg a) off) n a h = Ok a' h' /\ has_arr h' a' (L ++ S)
                  /\ abs_arr a' (L ++ S) = a_append_all S (abs_arr a L) /\ step_frame h a h' a'.
Proof.
  intros H Hr S.
  assert (HS : length S = n) by (unfold S; rewrite firstn_length, skipn_length; lia).
  pose proof (has_arr_send h a L H) as Hs.
  unfold s_append_buf. rewrite Hs. rewrite <- HS.
  destruct (in_own (SPtr (sbeg a) off) a) eqn:Eown.
  - apply (append_tail_ok S (fun a1 => SPtr (sbeg a1) off) a h L H). intros h1 a1 H1 _. split.
    + intros j Hj. rewrite (has_arr_reads h1 a1 L off j H1) by lia. unfold S. rewrite nth_firstn_skipn by lia. reflexivity.
    + destruct (sbeg a1); [intros _; lia|exact I].
  - (* the pointer is null or one past the last element: nothing is read through it *)
    assert (n = O) as Hn0.
    { unfold in_own in Eown. destruct (sbeg a) as [b|] eqn:E.
      - rewrite Nat.eqb_refl in Eown. cbn [andb] in Eown. rewrite Hs in Eown. lia.
      - rewrite (has_arr_none h a L H E) in Hr. cbn in Hr. lia. }
    apply (append_tail_ok S (fun _ => SPtr (sbeg a) off) a h L H). intros h1 a1 _ _. split; [intros j Hj; lia|].
    destruct (sbeg a); [intros _; lia|exact I].
Qed.

Lemma skipn_S_tl {A} k (l : list A) : skipn (Datatypes.S k) l = tl (skipn k l).
Proof. revert l; induction k as [|k IH]; intros [|x t]; try reflexivity. cbn [skipn] in *. apply IH. Qed.

(* ---- remove ---------------------------------------------------------------------------------------- *)
Lemma s_remove_ok pos a h L :
    has_arr h a L -> (pos < length L)%nat ->
    let a' := mk_sarr (sbeg a) (pred (length L)) (scap a) in
    exists h', s_remove pos a h = Ok a' h' /\ has_arr h' a' (shift_out pos L)
               /\ abs_arr a' (shift_out pos L) = mk_marr (shift_out pos (items (abs_arr a L))) (cap (abs_arr a L)) (allocated (abs_arr a L))
               /\ step_frame h a h' a'.
Proof.
  intros H Hpos a'. subst a'. pose proof (has_arr_send h a L H) as Hs. pose proof (has_arr_cap h a L H) as Hc. pose proof H as (I & Hm).
  destruct (sbeg a) as [b|] eqn:E.
  2:{ rewrite (has_arr_none h a L H E) in Hpos. cbn in Hpos. lia. }
  destruct Hm as (Hb & _). set (r := (Z.to_nat (scap a) - length L)%nat) in *.
  set (L1 := firstn pos L). destruct (skipn pos L) as [|x L2] eqn:Esk.
  { pose proof (skipn_length pos L) as Hl. rewrite Esk in Hl. cbn in Hl. lia. }
  assert (EL : L = L1 ++ x :: L2) by (unfold L1; rewrite <- Esk; symmetry; apply firstn_skipn).
  assert (HL1 : length L1 = pos) by (unfold L1; rewrite firstn_length; lia).
  assert (Hlen : length L = Datatypes.S (pos + length L2)) by (rewrite EL, app_length; cbn [length]; lia).
  assert (Eso : shift_out pos L = L1 ++ L2).
  { rewrite shift_out_del_at. unfold del_at. fold L1. f_equal.
    rewrite skipn_S_tl, Esk. reflexivity. }
  unfold s_remove. rewrite Hs, Hlen, !E. cbn [pred].
  replace (pos + length L2 - pos)%nat with (length L2) by lia.
  assert (Hb' : nth_error h b = Some (mk_block true (map Some L1 ++ Some x :: map Some L2 ++ repeat None r))).
  { rewrite Hb. unfold blk_of. rewrite EL at 1. rewrite map_app. cbn [map]. rewrite <- app_assoc. reflexivity. }
  pose proof (shift_loop_ok L2 x b (map Some L1) (repeat None r) h Hb') as Hsh. rewrite map_length, HL1 in Hsh.
  unfold bind. rewrite Hsh. set (h1 := upd b _ h).
  assert (Hb1 : nth_error h1 b = Some (mk_block true ((map Some L1 ++ map Some L2) ++ Some (last L2 x) :: repeat None r))).
  { unfold h1. rewrite (upd_block_same h b _ Hb). rewrite <- app_assoc. reflexivity. }
  assert (Hidx : length (map Some L1 ++ map Some L2) = (pos + length L2)%nat) by (rewrite app_length, !map_length; lia).
  assert (Hd : destroy (Some b) (pos + length L2) h1
               = Ok tt (upd b (mk_block true ((map Some L1 ++ map Some L2) ++ None :: repeat None r)) h1)).
  { rewrite <- Hidx. rewrite <- (upd_app_at (map Some L1 ++ map Some L2) (repeat None r) None (Some (last L2 x))).
    apply (destroy_ok h1 b _ Hb1 _ (last L2 x)). apply nth_error_mid. }
  rewrite Hd. unfold h1. rewrite upd_twice.
  eexists. split; [reflexivity|]. split; [|split; [|apply step_frame_inplace; [exact E|reflexivity]]].
  - split.
    + destruct I as (Is & Iu & Ic). unfold a_inv, asize, abs_arr in *. cbn [items cap allocated sbeg scap is_some] in *.
      rewrite Eso, app_length. split; [lia|]. split; [intros; discriminate|]. intros _. apply Ic. rewrite E. reflexivity.
    + cbn [sbeg send scap]. rewrite Eso, app_length. split; [|lia].
      rewrite (upd_block_same h b _ Hb). unfold blk_of. rewrite map_app. do 3 f_equal.
      change (None :: repeat None r) with (repeat (@None Z) (Datatypes.S r)). f_equal. unfold r. lia.
  - unfold abs_arr. cbn [items cap allocated sbeg scap]. rewrite E. reflexivity.
Qed.

(* ---- clear, the destructor, copy construction / assignment, find ----------------------------------- *)
Lemma s_clear_ok a h L :
    has_arr h a L ->
    exists h' a', s_clear a h = Ok a' h' /\ has_arr h' a' [] /\ abs_arr a' [] = a_clear (abs_arr a L) /\ step_frame h a h' a'.
Proof.
  intros H. pose proof (has_arr_send h a L H) as Hs. pose proof (has_arr_cap h a L H) as Hc. pose proof H as (I & Hm).
  destruct (a_clear_refines _ I) as (I' & _).
  unfold s_clear. destruct (sbeg a) as [b|] eqn:E.
  - destruct Hm as (Hb & _). set (r := (Z.to_nat (scap a) - length L)%nat) in *.
    pose proof (destroy_loop_ok L b [] (repeat None r) h Hb) as Hd. cbn [length app] in Hd.
    unfold bind. rewrite Hs, Hd.
    assert (Eabs : abs_arr (mk_sarr (Some b) 0 (scap a)) [] = a_clear (abs_arr a L)).
    { unfold a_clear, abs_arr. cbn [allocated cap sbeg scap]. rewrite E. reflexivity. }
    eexists _, _. split; [reflexivity|]. split; [|split; [exact Eabs|apply step_frame_inplace; [exact E|reflexivity]]].
    split; [rewrite Eabs; exact I'|]. cbn [sbeg send scap length]. split; [|reflexivity].
    rewrite (upd_block_same h b _ Hb). unfold blk_of. cbn [map app]. rewrite <- repeat_app. do 3 f_equal. unfold r. lia.
  - pose proof (has_arr_none h a L H E) as ->. exists h, a. split; [reflexivity|]. split; [exact H|]. split; [|apply step_frame_refl].
    unfold a_clear, abs_arr. cbn [allocated]. rewrite E. reflexivity.
Qed.

Lemma s_destruct_ok a h L :
    has_arr h a L ->
    exists h', s_destruct a h = Ok tt h' /\ forall a', sbeg a' = None -> step_frame h a h' a'.
Proof.
  intros H. pose proof (has_arr_send h a L H) as Hs. pose proof H as (I & Hm).
  unfold s_destruct. destruct (sbeg a) as [b|] eqn:E.
  - destruct Hm as (Hb & _). set (r := (Z.to_nat (scap a) - length L)%nat) in *.
    pose proof (destroy_loop_ok L b [] (repeat None r) h Hb) as Hd. cbn [length app] in Hd.
    unfold bind. rewrite Hs, Hd. unfold mem_free. rewrite (upd_block_same h b _ Hb). cbn [blive bcells].
    rewrite forallb_app, !forallb_is_none_repeat. cbn [andb]. rewrite upd_twice.
    eexists. split; [reflexivity|]. intros a' Ea'. split.
    + rewrite upd_length. lia.
    + intros b' _ Hn. apply nth_error_upd_other. congruence.
    + left. exact Ea'.
    + intros bb blk Hbb Hl _. destruct (Nat.eq_dec bb b) as [->|Hne].
      * rewrite (upd_block_same h b _ Hb) in Hbb. injection Hbb as <-. discriminate Hl.
      * rewrite nth_error_upd_other in Hbb by congruence. split; [eapply nth_error_lt; exact Hbb|congruence].
  - exists h. split; [reflexivity|]. intros a' Ea'. split; [lia|reflexivity|left; exact Ea'|].
    intros bb blk Hbb _ _. split; [eapply nth_error_lt; exact Hbb|congruence].
Qed.

Lemma s_copy_from_ok o a h Lo :
    has_arr h a [] -> has_arr h o Lo -> (forall b, sbeg o = Some b -> sbeg a <> Some b) ->
    exists h' a', s_copy_from o a h = Ok a' h' /\ has_arr h' a' Lo
                  /\ abs_arr a' Lo = a_copy_from (abs_arr o Lo) (abs_arr a []) /\ step_frame h a h' a'.
Proof.
  intros H Ho Hoth. pose proof H as (I & _). pose proof (has_arr_cap h o Lo Ho) as Hco.
  destruct (s_reserve_ok (scap o) a h [] H) as (h1 & a1 & Hres & H1 & Eabs1 & F1).
  destruct (after_reserve _ a [] a1 I Eabs1) as (Hn1 & _ & Hal1).
  pose proof (has_arr_send h1 a1 [] H1) as Hs1. cbn [length] in Hs1.
  assert (Ho1 : has_arr h1 o Lo).
  { eapply has_arr_frame; [|exact Ho]. intros b E. apply (sf_other _ _ _ _ F1); [eapply has_arr_lt; eassumption|apply Hoth; exact E]. }
  destruct (copy_tail_ok Lo (SPtr (sbeg o) 0) h1 a1 [] H1) as (h2 & Hc & H2 & F2).
  - cbn [length]. lia.
  - intros Hne. apply Hal1. destruct Lo; [congruence|cbn [length] in Hco; lia].
  - intros j Hj. apply (has_arr_reads h1 o Lo 0 j Ho1). exact Hj.
  - destruct (sbeg o) as [b'|] eqn:E; [|exact Logic.I]. intros E1. exfalso.
    apply (other_block_after h a h1 a1 b' F1); [eapply has_arr_lt; eassumption|apply Hoth; reflexivity|exact E1].
  - unfold s_copy_from, bind. rewrite Hres. rewrite (has_arr_send h o Lo Ho). rewrite Hs1 in Hc. rewrite Hc.
    rewrite Hs1 in H2, F2. cbn [app Nat.add] in H2, F2.
    eexists _, _. split; [reflexivity|]. split; [exact H2|]. split; [|eapply step_frame_trans; eassumption].
    unfold a_copy_from. change (cap (abs_arr o Lo)) with (scap o). rewrite <- Eabs1. reflexivity.
Qed.

Lemma s_find_ok v a h L : has_arr h a L -> find_loop (send a) (sbeg a) 0 v h = Ok (a_find_from v L 0) h.
Proof.
  intros H. pose proof (has_arr_send h a L H) as Hs. pose proof H as (_ & Hm). rewrite Hs.
  destruct (sbeg a) as [b|] eqn:E.
  - destruct Hm as (Hb & _). apply (find_loop_ok L v b [] _ h Hb).
  - rewrite (has_arr_none h a L H E). reflexivity.
Qed.

Lemma s_eq_ok a b h L Lb : has_arr h a L -> has_arr h b Lb -> s_eq a b h = Ok (a_eqb (abs_arr a L) (abs_arr b Lb)) h.
Proof.
  intros H Hb. unfold s_eq, a_eqb. rewrite !asize_abs. rewrite (has_arr_send _ _ _ H), (has_arr_send _ _ _ Hb).
  cbn [abs_arr items]. destruct (Nat.eqb (length L) (length Lb)) eqn:E.
  - apply Nat.eqb_eq in E. assert ((Z.of_nat (length L) =? Z.of_nat (length Lb)) = true) as -> by lia.
    destruct (sbeg a) as [b1|] eqn:E1.
    + destruct (sbeg b) as [b2|] eqn:E2.
      * destruct H as (_ & H). rewrite E1 in H. destruct H as (H1 & _).
        destruct Hb as (_ & Hb). rewrite E2 in Hb. destruct Hb as (H2 & _).
        apply (eq_loop_ok L Lb b1 b2 [] _ [] _ h E eq_refl H1 H2).
      * rewrite (has_arr_none _ _ _ Hb E2) in E. destruct L; [reflexivity|discriminate].
    + rewrite (has_arr_none _ _ _ H E1). reflexivity.
  - apply Nat.eqb_neq in E. assert ((Z.of_nat (length L) =? Z.of_nat (length Lb)) = false) as -> by lia. reflexivity.
Qed.
