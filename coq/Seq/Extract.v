From Coq Require Extraction ExtrOcamlBasic.
From Common Require Import Words.
From Seq Require Import SeqSpec SeqModel SeqArrayMemModel.
Extraction Language OCaml.
Extraction "model.ml" anchor lstep pstep astep lspec_fun aspec atext pspec linit ainit sinit
  lobs_res aobs_res key_full key_kv lget aget sget sort_vals sort_depth isort
  sstep swinit sabs live_blocks.
