(* List<T> and PoolList<T>, whole histories over several variables: every step of the model
   keeps the pool invariant of every variable and refines the step of the reference sequences
   (contents, order, size, rank designated by the returned iterator/reference). *)
From Coq Require Import ZArith List Bool Lia Sorting.Sorted Sorting.Permutation.
From Common Require Import ListAux.
From Seq Require Import SeqSpec SeqModel SeqSortProofs SeqSortPtrProofs SeqPoolProofs.
Import ListNotations.
Local Open Scope nat_scope.

Definition linv (w : lworld) : Prop := Forall nl_inv w.

Lemma map_upd {A B} (f : A -> B) i x l : map f (upd i x l) = upd i (f x) (map f l).
Proof. revert i; induction l as [|h t IH]; intros [|i]; cbn; auto. f_equal. apply IH. Qed.

Lemma labs_upd i l w : labs (upd i l w) = upd i (vals (nodes l)) (labs w).
Proof. unfold labs. apply (map_upd (fun l => vals (nodes l))). Qed.

Lemma labs_length w : length (labs w) = length w.
Proof. apply map_length. Qed.

Lemma sget_labs i w : sget i (labs w) = vals (nodes (lget i w)).
Proof. exact (map_nth (fun l => vals (nodes l)) w nl_empty i). Qed.

Lemma linv_init nv : linv (linit nv).
Proof. unfold linv, linit. induction nv as [|n IH]; cbn; constructor; [apply nl_inv_empty|exact IH]. Qed.

Lemma labs_init nv : labs (linit nv) = sinit nv.
Proof. unfold labs, linit, sinit. induction nv as [|n IH]; cbn; [reflexivity|]. f_equal. exact IH. Qed.

Lemma linv_get i w : linv w -> nl_inv (lget i w).
Proof.
  intros H. unfold lget. destruct (Nat.lt_ge_cases i (length w)) as [L|L].
  - eapply Forall_forall; [exact H|]. apply nth_In. exact L.
  - rewrite nth_overflow by exact L. apply nl_inv_empty.
Qed.

Lemma linv_upd i l w : linv w -> nl_inv l -> linv (upd i l w).
Proof.
  intros H Hl. revert i. induction H as [|x t Hx Ht IH]; intros [|i]; cbn; constructor; auto.
  apply IH.
Qed.

Lemma lget_upd_same i l w : i < length w -> lget i (upd i l w) = l.
Proof. apply nth_upd_same. Qed.

Lemma lget_upd_other i j l w : i <> j -> lget j (upd i l w) = lget j w.
Proof. apply nth_upd_other. Qed.

Lemma lsize_len w i : linv w -> lsize w i = length (nodes (lget i w)).
Proof. intros H. unfold lsize. apply (proj2 (linv_get i w H)). Qed.

Lemma ssize_labs w : linv w -> forall i, ssize (labs w) i = lsize w i.
Proof. intros H i. rewrite lsize_len by exact H. unfold ssize. rewrite sget_labs. apply vals_length. Qed.

Lemma lpre_ext sz1 sz2 nv op : (forall i, sz1 i = sz2 i) -> lpre sz1 nv op = lpre sz2 nv op.
Proof. intros E. destruct op; cbn [lpre]; rewrite ?E; reflexivity. Qed.

Lemma ppre_ext sz1 sz2 nv op : (forall i, sz1 i = sz2 i) -> ppre sz1 nv op = ppre sz2 nv op.
Proof. intros E. destruct op; cbn [ppre]; rewrite ?E; reflexivity. Qed.

Lemma lobs_it w i it : lobs_res w (MIt i it) = RIt (obs_it it (nodes (lget i w))).
Proof. destruct it; reflexivity. Qed.

Lemma ins_at_0 (x l : sseq) : ins_at 0 x l = x ++ l.
Proof. reflexivity. Qed.

Ltac bools :=
  repeat match goal with
  | H : _ && _ = true |- _ => apply andb_true_iff in H; destruct H
  | H : negb _ = true |- _ => apply negb_true_iff in H
  | H : Nat.ltb _ _ = true |- _ => apply Nat.ltb_lt in H
  | H : Nat.leb _ _ = true |- _ => apply Nat.leb_le in H
  | H : Nat.eqb _ _ = false |- _ => apply Nat.eqb_neq in H
  end.

(* the three removal forms share this *)
Lemma remove_step k i w l1 it :
    linv w -> i < length w -> k < length (nodes (lget i w)) -> nl_remove k (lget i w) = (l1, it) ->
    linv (upd i l1 w)
    /\ labs (upd i l1 w) = upd i (del_at k (sget i (labs w))) (labs w)
    /\ lobs_res (upd i l1 w) (MIt i it) = RIt k.
Proof.
  intros I Hi Hk E.
  destruct (nl_remove_refines _ _ _ _ (linv_get i w I) E Hk) as (I1 & Hv & Ho).
  split; [apply linv_upd; assumption|]. split.
  - rewrite labs_upd, sget_labs, Hv. reflexivity.
  - rewrite lobs_it, lget_upd_same by exact Hi. rewrite Ho. reflexivity.
Qed.

(* ------------------------------------------------------------------------------------- *)
(* List<T>                                                                                 *)
(* ------------------------------------------------------------------------------------- *)
Theorem lstep_refines key w op w' r : linv w -> lstep key w op = (w', r) ->
    linv w' /\ lspec key (labs w) op (labs w') (lobs_res w' r).
Proof.
  intros I H. unfold lstep in H.
  assert (Epre : lpre (ssize (labs w)) (length (labs w)) op = lpre (lsize w) (length w) op).
  { rewrite labs_length. apply lpre_ext. apply ssize_labs. exact I. }
  destruct (lpre (lsize w) (length w) op) eqn:Hpre; cbn [negb] in H.
  2:{ inversion H; subst w' r. split; [exact I|].
      destruct op; cbn [lspec]; unfold lspec_fun; rewrite ?Epre; cbn [negb lobs_res]; try reflexivity.
      split; reflexivity. }
  destruct op; cbn [lpre] in Hpre; bools; cbn [lspec]; unfold lspec_fun; rewrite Epre; cbn [negb];
    try rewrite (lsize_len w i I) in *.
  - (* LNew *)
    inversion H; subst w' r. split; [apply linv_upd; [exact I|apply nl_inv_empty]|].
    rewrite labs_upd. reflexivity.
  - (* LAppend *)
    destruct (nl_append v (lget i w)) as [l1 s] eqn:E. inversion H; subst w' r.
    destruct (nl_append_refines _ _ _ _ (linv_get i w I) E) as (I1 & Hv & Hr & _).
    split; [apply linv_upd; assumption|].
    rewrite labs_upd, sget_labs. cbn [lobs_res]. rewrite lget_upd_same by assumption. rewrite Hv, Hr. reflexivity.
  - (* LPrepend *)
    destruct (nl_insert 0 v (lget i w)) as [l1 s] eqn:E. inversion H; subst w' r.
    destruct (nl_insert_refines _ _ _ _ _ (linv_get i w I) E (Nat.le_0_l _)) as (I1 & Hv & Hr).
    split; [apply linv_upd; assumption|].
    rewrite labs_upd, sget_labs. cbn [lobs_res]. rewrite lget_upd_same by assumption. rewrite Hv, Hr. reflexivity.
  - (* LAppends *)
    inversion H; subst w' r.
    destruct (nl_append_all_refines vs (lget i w) (linv_get i w I)) as (I1 & Hv).
    split; [apply linv_upd; assumption|].
    rewrite labs_upd, sget_labs, Hv. reflexivity.
  - (* LInsert *)
    destruct (nl_insert k v (lget i w)) as [l1 s] eqn:E. inversion H; subst w' r.
    destruct (nl_insert_refines _ _ _ _ _ (linv_get i w I) E ltac:(assumption)) as (I1 & Hv & Hr).
    split; [apply linv_upd; assumption|].
    rewrite labs_upd, sget_labs. cbn [lobs_res]. rewrite lget_upd_same by assumption. rewrite Hv, Hr. reflexivity.
  - (* LInsertList *)
    destruct (nl_insert_list k (vals (nodes (lget j w))) (lget i w)) as [l1 it] eqn:E. inversion H; subst w' r.
    destruct (nl_insert_list_refines _ _ _ _ _ (linv_get i w I) E ltac:(assumption)) as (I1 & Hv & Hr).
    split; [apply linv_upd; assumption|].
    rewrite labs_upd, !sget_labs. rewrite lobs_it, lget_upd_same by assumption. rewrite Hv, Hr. reflexivity.
  - (* LAppendList *)
    inversion H; subst w' r.
    destruct (nl_insert_list (length (nodes (lget i w))) (vals (nodes (lget j w))) (lget i w)) as [l1 it] eqn:E.
    destruct (nl_insert_list_refines _ _ _ _ _ (linv_get i w I) E (le_n _)) as (I1 & Hv & _). cbn [fst].
    split; [apply linv_upd; assumption|].
    rewrite labs_upd, !sget_labs, Hv. rewrite <- (vals_length (nodes (lget i w))). rewrite ins_at_end. reflexivity.
  - (* LPrependList *)
    inversion H; subst w' r.
    destruct (nl_insert_list 0 (vals (nodes (lget j w))) (lget i w)) as [l1 it] eqn:E.
    destruct (nl_insert_list_refines _ _ _ _ _ (linv_get i w I) E (Nat.le_0_l _)) as (I1 & Hv & _). cbn [fst].
    split; [apply linv_upd; assumption|].
    rewrite labs_upd, !sget_labs, Hv. reflexivity.
  - (* LRemove *)
    destruct (nl_remove k (lget i w)) as [l1 it] eqn:E. inversion H; subst w' r.
    destruct (remove_step k i w l1 it I ltac:(assumption) ltac:(assumption) E) as (I1 & Ha & Ho).
    split; [exact I1|]. rewrite Ha, Ho. reflexivity.
  - (* LRemoveVal *)
    inversion H; subst w' r.
    destruct (nl_remove_val_refines v (lget i w) (linv_get i w I)) as (I1 & Hv).
    split; [apply linv_upd; assumption|].
    rewrite labs_upd, sget_labs, Hv. reflexivity.
  - (* LRemoveFront *)
    destruct (nl_remove 0 (lget i w)) as [l1 it] eqn:E. inversion H; subst w' r.
    destruct (remove_step 0 i w l1 it I ltac:(assumption) ltac:(assumption) E) as (I1 & Ha & Ho).
    split; [exact I1|]. rewrite Ha, Ho. rewrite del_at_0. reflexivity.
  - (* LRemoveBack *)
    destruct (nl_remove (pred (length (nodes (lget i w)))) (lget i w)) as [l1 it] eqn:E. inversion H; subst w' r.
    destruct (remove_step (pred (length (nodes (lget i w)))) i w l1 it I ltac:(assumption) ltac:(lia) E) as (I1 & Ha & Ho).
    split; [exact I1|]. rewrite Ha, Ho. rewrite sget_labs. rewrite <- (vals_length (nodes (lget i w))).
    rewrite del_at_last. reflexivity.
  - (* LFind *)
    inversion H; subst w' r. split; [exact I|].
    rewrite lobs_it, sget_labs. rewrite (nl_find_refines v _ (linv_get i w I)). reflexivity.
  - (* LClear *)
    inversion H; subst w' r.
    destruct (nl_clear_refines _ (linv_get i w I)) as (I1 & Hv).
    split; [apply linv_upd; assumption|]. rewrite labs_upd, Hv. reflexivity.
  - (* LSwap *)
    inversion H; subst w' r.
    split; [apply linv_upd; [apply linv_upd; [exact I|]|]; apply linv_get; exact I|].
    rewrite !labs_upd, !sget_labs. reflexivity.
  - (* LEq *)
    inversion H; subst w' r. split; [exact I|]. cbn [lobs_res]. rewrite !sget_labs.
    rewrite nl_eqb_refines by (apply linv_get; exact I). reflexivity.
  - (* LNe *)
    inversion H; subst w' r. split; [exact I|]. cbn [lobs_res]. rewrite !sget_labs.
    rewrite nl_eqb_refines by (apply linv_get; exact I). reflexivity.
  - (* LCopy *)
    inversion H; subst w' r.
    destruct (nl_append_all_refines (vals (nodes (lget j w))) nl_empty nl_inv_empty) as (I1 & Hv).
    split; [apply linv_upd; assumption|]. rewrite labs_upd, sget_labs, Hv. reflexivity.
  - (* LAssign *)
    destruct (Nat.eqb i j) eqn:Eij.
    { apply Nat.eqb_eq in Eij. subst j. inversion H; subst w' r. split; [exact I|].
      unfold sget. rewrite upd_nth_id. reflexivity. }
    inversion H; subst w' r.
    destruct (nl_clear_refines _ (linv_get i w I)) as (I0 & Hc).
    destruct (nl_append_all_refines (vals (nodes (lget j w))) _ I0) as (I1 & Hv).
    split; [apply linv_upd; assumption|]. rewrite labs_upd, sget_labs, Hv, Hc. reflexivity.
  - (* LSort *)
    inversion H; subst w' r.
    destruct (nl_sort_refines key _ (linv_get i w I)) as (I1 & Hv & _).
    split; [apply linv_upd; assumption|].
    split; [reflexivity|].
    exists (sort_vals key (vals (nodes (lget i w)))). split.
    + rewrite sget_labs. apply sort_vals_correct.
    + rewrite labs_upd, Hv. reflexivity.
Qed.

(* sort moves values only: every node stays in its slot, so iterators held across sort() keep
   designating the same position *)
Lemma lsort_keeps_nodes key l : nl_inv l -> slots (nodes (nl_sort key l)) = slots (nodes l).
Proof. intros I. apply (nl_sort_refines key l I). Qed.

(* whole histories *)
Definition lobs_trace (tr : list (lworld * mres)) : list (sstate * res) :=
  map (fun wr => (labs (fst wr), lobs_res (fst wr) (snd wr))) tr.

Lemma lrun_refines key ops : forall w, linv w ->
    lspec_run key (labs w) ops (lobs_trace (lrun key w ops))
    /\ Forall (fun wr => linv (fst wr)) (lrun key w ops).
Proof.
  induction ops as [|op t IH]; intros w I; cbn [lrun].
  - split; constructor.
  - destruct (lstep key w op) as [w1 r] eqn:E.
    destruct (lstep_refines key w op w1 r I E) as (I1 & S).
    destruct (IH w1 I1) as (R & F). split.
    + cbn [lobs_trace map fst snd]. econstructor; [exact S|exact R].
    + constructor; [exact I1|exact F].
Qed.

Theorem list_history_refines key nv ops :
    lspec_run key (sinit nv) ops (lobs_trace (lrun key (linit nv) ops)).
Proof. rewrite <- labs_init. apply lrun_refines. apply linv_init. Qed.

(* ------------------------------------------------------------------------------------- *)
(* PoolList<T>                                                                             *)
(* ------------------------------------------------------------------------------------- *)
Theorem pstep_refines w op w' r : linv w -> pstep w op = (w', r) ->
    linv w' /\ pspec (labs w) op = (labs w', lobs_res w' r).
Proof.
  intros I H. unfold pstep in H.
  assert (Epre : ppre (ssize (labs w)) (length (labs w)) op = ppre (lsize w) (length w) op).
  { rewrite labs_length. apply ppre_ext. apply ssize_labs. exact I. }
  unfold pspec. rewrite Epre.
  destruct (ppre (lsize w) (length w) op) eqn:Hpre; cbn [negb] in *.
  2:{ inversion H; subst w' r. split; [exact I|reflexivity]. }
  destruct op; cbn [ppre] in Hpre; bools; try rewrite (lsize_len w i I) in *.
  - (* PNew *)
    inversion H; subst w' r. split; [apply linv_upd; [exact I|apply nl_inv_empty]|].
    rewrite labs_upd. reflexivity.
  - (* PAppend *)
    destruct (nl_append v (lget i w)) as [l1 s] eqn:E. inversion H; subst w' r.
    destruct (nl_append_refines _ _ _ _ (linv_get i w I) E) as (I1 & Hv & Hr & _).
    split; [apply linv_upd; assumption|].
    rewrite labs_upd, sget_labs. cbn [lobs_res]. rewrite lget_upd_same by assumption. rewrite Hv, Hr. reflexivity.
  - (* PRemove *)
    destruct (nl_remove k (lget i w)) as [l1 it] eqn:E. inversion H; subst w' r.
    destruct (remove_step k i w l1 it I ltac:(assumption) ltac:(assumption) E) as (I1 & Ha & Ho).
    split; [exact I1|]. rewrite Ha, Ho. reflexivity.
  - (* PRemoveRef *)
    destruct (nl_remove k (lget i w)) as [l1 it] eqn:E. inversion H; subst w' r. cbn [fst].
    destruct (remove_step k i w l1 it I ltac:(assumption) ltac:(assumption) E) as (I1 & Ha & Ho).
    split; [exact I1|]. rewrite Ha. reflexivity.
  - (* PRemoveFront *)
    destruct (nl_remove 0 (lget i w)) as [l1 it] eqn:E. inversion H; subst w' r.
    destruct (remove_step 0 i w l1 it I ltac:(assumption) ltac:(assumption) E) as (I1 & Ha & Ho).
    split; [exact I1|]. rewrite Ha, Ho. rewrite del_at_0. reflexivity.
  - (* PRemoveBack *)
    destruct (nl_remove (pred (length (nodes (lget i w)))) (lget i w)) as [l1 it] eqn:E. inversion H; subst w' r.
    destruct (remove_step (pred (length (nodes (lget i w)))) i w l1 it I ltac:(assumption) ltac:(lia) E) as (I1 & Ha & Ho).
    split; [exact I1|]. rewrite Ha, Ho. rewrite sget_labs. rewrite <- (vals_length (nodes (lget i w))).
    rewrite del_at_last. reflexivity.
  - (* PClear *)
    inversion H; subst w' r.
    destruct (nl_clear_refines _ (linv_get i w I)) as (I1 & Hv).
    split; [apply linv_upd; assumption|]. rewrite labs_upd, Hv. reflexivity.
  - (* PSwap *)
    inversion H; subst w' r.
    split; [apply linv_upd; [apply linv_upd; [exact I|]|]; apply linv_get; exact I|].
    rewrite !labs_upd, !sget_labs. reflexivity.
  - (* PAppendN *)
    destruct (nl_append (ctor_val args) (lget i w)) as [l1 s] eqn:E. inversion H; subst w' r.
    destruct (nl_append_refines _ _ _ _ (linv_get i w I) E) as (I1 & Hv & Hr & _).
    split; [apply linv_upd; assumption|].
    rewrite labs_upd, sget_labs. cbn [lobs_res]. rewrite lget_upd_same by assumption. rewrite Hv, Hr. reflexivity.
Qed.

Lemma prun_refines ops : forall w, linv w ->
    pspec_run (labs w) ops = lobs_trace (prun w ops) /\ Forall (fun wr => linv (fst wr)) (prun w ops).
Proof.
  induction ops as [|op t IH]; intros w I; cbn [prun pspec_run].
  - split; [reflexivity|constructor].
  - destruct (pstep w op) as [w1 r] eqn:E.
    destruct (pstep_refines w op w1 r I E) as (I1 & S). rewrite S.
    destruct (IH w1 I1) as (R & F). split.
    + cbn [lobs_trace map fst snd]. f_equal. exact R.
    + constructor; [exact I1|exact F].
Qed.

Theorem poollist_history_refines nv ops :
    pspec_run (sinit nv) ops = lobs_trace (prun (linit nv) ops).
Proof. rewrite <- labs_init. apply prun_refines. apply linv_init. Qed.

(* ------------------------------------------------------------------------------------- *)
(* what the ranks of the reference object mean: rank k after an insertion at k is the       *)
(* inserted element, rank k after a removal at k is the successor of the removed one        *)
(* ------------------------------------------------------------------------------------- *)
Lemma ins_at_designates k (x : list Z) v (l : sseq) : k <= length l ->
    nth_error (ins_at k (v :: x) l) k = Some v.
Proof.
  intros Hk. unfold ins_at. rewrite nth_error_app2 by (rewrite firstn_length_le; lia).
  rewrite firstn_length_le by exact Hk. rewrite Nat.sub_diag. reflexivity.
Qed.

Lemma del_at_designates k (l : sseq) : k < length l ->
    nth_error (del_at k l) k = nth_error l (S k) /\ length (del_at k l) = pred (length l).
Proof.
  intros Hk. unfold del_at. split.
  - rewrite nth_error_app2 by (rewrite firstn_length_le; lia).
    rewrite firstn_length_le by lia. rewrite Nat.sub_diag.
    rewrite <- (firstn_skipn (S k) l) at 2. rewrite nth_error_app2 by (rewrite firstn_length_le; lia).
    rewrite firstn_length_le by lia. rewrite Nat.sub_diag. reflexivity.
  - rewrite app_length, firstn_length_le, skipn_length by lia. lia.
Qed.

Lemma append_designates (l : sseq) v : nth_error (l ++ [v]) (length l) = Some v.
Proof. rewrite nth_error_app2 by lia. rewrite Nat.sub_diag. reflexivity. Qed.

(* ------------------------------------------------------------------------------------- *)
(* PoolList::append(a, b, ...): the reference element ctor_val args names arity and          *)
(* arguments injectively on the domain of PAppendN, so "the appended element is T(a, b, ...)"*)
(* cannot be met by an element built from other arguments, a different order or arity        *)
(* ------------------------------------------------------------------------------------- *)
Definition digit_ok (a : Z) : bool := ((0 <=? a) && (a <? 8))%Z.
Definition digits (args : list Z) : Z := fold_right (fun a acc => a + 8 * acc)%Z 0%Z args.

Lemma digits_inj (a : list Z) : forall b, length a = length b ->
    forallb digit_ok a = true -> forallb digit_ok b = true -> digits a = digits b -> a = b.
Proof.
  induction a as [|x a IH]; intros [|y b] L Ha Hb E; try discriminate L; [reflexivity|].
  cbn [forallb] in Ha, Hb. apply andb_true_iff in Ha, Hb. destruct Ha as [Hx Ha], Hb as [Hy Hb].
  injection L as L. unfold digits in E. cbn [fold_right] in E. fold (digits a) in E. fold (digits b) in E.
  unfold digit_ok in Hx, Hy. apply andb_true_iff in Hx, Hy.
  assert (X : x = y /\ digits a = digits b) by lia.
  destruct X as [-> X]. f_equal. apply IH; assumption.
Qed.

Theorem ctor_val_injective a b :
    ctor_args_ok a = true -> ctor_args_ok b = true -> ctor_val a = ctor_val b -> a = b.
Proof.
  unfold ctor_args_ok, ctor_val. intros Ha Hb E. apply andb_true_iff in Ha, Hb.
  destruct Ha as [La Ha], Hb as [Lb Hb]. apply Nat.leb_le in La, Lb.
  fold (digits a) in E. fold (digits b) in E.
  assert (X : length a = length b /\ digits a = digits b) by lia.
  destruct X as [L X]. apply digits_inj; assumption.
Qed.
