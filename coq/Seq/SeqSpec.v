(* SPEC for property C03: the reference object is a plain sequence `list Z` per container
   variable.  This file does not look at the code: it says what every operation of the
   statement does to the reference sequence and which element a returned iterator/reference
   designates (as a rank: 0-based position in the sequence after the operation; rank = length
   means end()).  `List::sort` is specified relationally: any ascending permutation. *)
From Coq Require Import ZArith List Bool Sorting.Sorted Sorting.Permutation.
From Common Require Import ListAux.
Import ListNotations.
Local Open Scope Z_scope.

Definition sseq := list Z.
Definition sstate := list sseq.          (* one reference sequence per container variable *)

Inductive res :=
| RNone                                   (* void *)
| RSkip                                   (* precondition of the operation not met: not executed *)
| RIt (rank : nat)                        (* iterator: rank of the designated element, length = end() *)
| RRef (rank : nat)                       (* reference: rank of the designated element *)
| RBool (b : bool).

Definition sget (i : nat) (s : sstate) : sseq := nth i s [].

Definition ins_at (k : nat) (x l : sseq) : sseq := firstn k l ++ x ++ skipn k l.
Definition del_at (k : nat) (l : sseq) : sseq := firstn k l ++ skipn (S k) l.

(* rank of the first element equal to v, length l if there is none *)
Fixpoint index_of (v : Z) (l : sseq) : nat :=
  match l with
  | [] => O
  | x :: t => if x =? v then O else S (index_of v t)
  end.

Fixpoint seq_eqb (a b : sseq) : bool :=
  match a, b with
  | [], [] => true
  | x :: a', y :: b' => (x =? y) && seq_eqb a' b'
  | _, _ => false
  end.

(* ascending order under a key (the element type's operator<  is  key a < key b) *)
Definition key_le (key : Z -> Z) (a b : Z) : Prop := key a <= key b.
Definition ascending_permutation (key : Z -> Z) (l l' : sseq) : Prop :=
  Sorted (key_le key) l' /\ Permutation l l'.

(* an executable instance of the relation (insertion sort), used by the spec driver *)
Fixpoint isort_insert (key : Z -> Z) (x : Z) (l : sseq) : sseq :=
  match l with
  | [] => [x]
  | y :: t => if key x <? key y then x :: l else y :: isort_insert key x t
  end.
Fixpoint isort (key : Z -> Z) (l : sseq) : sseq :=
  match l with
  | [] => []
  | x :: t => isort_insert key x (isort key t)
  end.

(* ------------------------------------------------------------------------------------- *)
(* List<T>                                                                                 *)
(* ------------------------------------------------------------------------------------- *)
Inductive lop :=
| LNew (i : nat)                          (* destroy variable i, default-construct it *)
| LAppend (i : nat) (v : Z)               (* T& append(const T&) *)
| LPrepend (i : nat) (v : Z)              (* T& prepend(const T&) *)
| LAppends (i : nat) (vs : list Z)        (* append(v) for each v (bulk set-up) *)
| LInsert (i k : nat) (v : Z)             (* Iterator insert(position k, value) *)
| LInsertList (i k j : nat)               (* Iterator insert(position k, list j) *)
| LAppendList (i j : nat)                 (* void append(const List&) *)
| LPrependList (i j : nat)                (* void prepend(const List&) *)
| LRemove (i k : nat)                     (* Iterator remove(iterator at rank k) *)
| LRemoveVal (i : nat) (v : Z)            (* void remove(const T& value) *)
| LRemoveFront (i : nat)
| LRemoveBack (i : nat)
| LFind (i : nat) (v : Z)
| LClear (i : nat)
| LSwap (i j : nat)
| LEq (i j : nat)
| LNe (i j : nat)
| LCopy (i j : nat)                       (* destroy i, copy-construct it from j *)
| LAssign (i j : nat)                     (* i = j *)
| LSort (i : nat).

(* documented domain of the operations; sz i = current size of variable i, nv = #variables.
   The other list may be the list itself (j = i): insert / append / prepend then add a copy of the
   previous contents, assignment and swap leave it as it is (the formulas below read the state
   before the operation, so they say exactly that). *)
Definition lpre (sz : nat -> nat) (nv : nat) (op : lop) : bool :=
  match op with
  | LNew i | LAppend i _ | LPrepend i _ | LAppends i _ | LRemoveVal i _ | LFind i _ | LClear i | LSort i =>
      Nat.ltb i nv
  | LInsert i k _ => Nat.ltb i nv && Nat.leb k (sz i)
  | LInsertList i k j => Nat.ltb i nv && Nat.ltb j nv && Nat.leb k (sz i)
  | LAppendList i j | LPrependList i j | LSwap i j | LCopy i j | LAssign i j =>
      Nat.ltb i nv && Nat.ltb j nv
  | LRemove i k => Nat.ltb i nv && Nat.ltb k (sz i)
  | LRemoveFront i | LRemoveBack i => Nat.ltb i nv && Nat.ltb 0 (sz i)
  | LEq i j | LNe i j => Nat.ltb i nv && Nat.ltb j nv
  end.

Definition ssize (s : sstate) (i : nat) : nat := length (sget i s).

(* every operation except sort *)
Definition lspec_fun (key : Z -> Z) (s : sstate) (op : lop) : sstate * res :=
  if negb (lpre (ssize s) (length s) op) then (s, RSkip) else
  match op with
  | LNew i => (upd i [] s, RNone)
  | LAppend i v => (upd i (sget i s ++ [v]) s, RRef (length (sget i s)))
  | LPrepend i v => (upd i (v :: sget i s) s, RRef O)
  | LAppends i vs => (upd i (sget i s ++ vs) s, RNone)
  | LInsert i k v => (upd i (ins_at k [v] (sget i s)) s, RIt k)
  | LInsertList i k j => (upd i (ins_at k (sget j s) (sget i s)) s, RIt k)
  | LAppendList i j => (upd i (sget i s ++ sget j s) s, RNone)
  | LPrependList i j => (upd i (sget j s ++ sget i s) s, RNone)
  | LRemove i k => (upd i (del_at k (sget i s)) s, RIt k)
  | LRemoveVal i v =>
      let l := sget i s in let k := index_of v l in
      (upd i (if Nat.ltb k (length l) then del_at k l else l) s, RNone)
  | LRemoveFront i => (upd i (tl (sget i s)) s, RIt O)
  | LRemoveBack i => (upd i (removelast (sget i s)) s, RIt (pred (length (sget i s))))
  | LFind i v => (s, RIt (index_of v (sget i s)))
  | LClear i => (upd i [] s, RNone)
  | LSwap i j => (upd j (sget i s) (upd i (sget j s) s), RNone)
  | LEq i j => (s, RBool (seq_eqb (sget i s) (sget j s)))
  | LNe i j => (s, RBool (negb (seq_eqb (sget i s) (sget j s))))
  | LCopy i j => (upd i (sget j s) s, RNone)
  | LAssign i j => (upd i (sget j s) s, RNone)
  | LSort i => (upd i (isort key (sget i s)) s, RNone)
  end.

(* the specification proper: sort may leave ANY ascending permutation *)
Definition lspec (key : Z -> Z) (s : sstate) (op : lop) (s' : sstate) (r : res) : Prop :=
  match op with
  | LSort i =>
      if lpre (ssize s) (length s) op
      then r = RNone /\ exists l', ascending_permutation key (sget i s) l' /\ s' = upd i l' s
      else s' = s /\ r = RSkip
  | _ => lspec_fun key s op = (s', r)
  end.

(* a history: the spec relates the op list to the list of (state after the op, result) *)
Inductive lspec_run (key : Z -> Z) : sstate -> list lop -> list (sstate * res) -> Prop :=
| lrun_nil s : lspec_run key s [] []
| lrun_cons s op s1 r ops tr :
    lspec key s op s1 r -> lspec_run key s1 ops tr -> lspec_run key s (op :: ops) ((s1, r) :: tr).

(* ------------------------------------------------------------------------------------- *)
(* Array<T>                                                                                *)
(* ------------------------------------------------------------------------------------- *)
Inductive aop :=
| ANew (i : nat)
| ANewCap (i : nat) (n : Z)               (* Array(usize capacity) *)
| ACopy (i j : nat)
| AAssign (i j : nat)
| AReserve (i : nat) (n : Z)
| AResizeD (i : nat) (n : Z)              (* resize(n)  = resize(n, T()) *)
| AResize (i : nat) (n : Z) (v : Z)       (* resize(n, v), v a foreign object *)
| AAppend (i : nat) (v : Z)               (* T& append(const T&), v a foreign object *)
| AAppendArr (i j : nat)
| AAppendBuf (i : nat) (vs : list Z)      (* append(const T*, usize) from a foreign buffer *)
| ARemoveIdx (i : nat) (k : nat)          (* void remove(usize index); index >= size: outside the statement, see atext *)
| ARemoveIt (i : nat) (k : nat)           (* Iterator remove(const Iterator&) *)
| ARemoveFront (i : nat)
| ARemoveBack (i : nat)
| AFind (i : nat) (v : Z)
| AClear (i : nat)
| ASwap (i j : nat)
| AAppendOwn (i k : nat)                  (* append(a[k]): the argument is a reference to an element of the array itself *)
| AResizeOwn (i : nat) (n : Z) (k : nat)  (* resize(n, a[k]): likewise *)
| AAppendBufOwn (i off n : nat)           (* append(&a[off], n): the buffer is a range of the array's own storage *)
| AEq (i j : nat)                         (* bool operator==(const Array&) const *)
| ANe (i j : nat).

Definition apre (sz : nat -> nat) (nv : nat) (op : aop) : bool :=
  match op with
  | ANew i | AAppend i _ | AAppendBuf i _ | ARemoveIdx i _ | AFind i _ | AClear i => Nat.ltb i nv
  | ANewCap i n | AReserve i n | AResizeD i n | AResize i n _ => Nat.ltb i nv && (0 <=? n)
  | ACopy i j | AAssign i j | AAppendArr i j | ASwap i j => Nat.ltb i nv && Nat.ltb j nv   (* j = i allowed *)
  | ARemoveIt i k | AAppendOwn i k => Nat.ltb i nv && Nat.ltb k (sz i)
  | AResizeOwn i n k => Nat.ltb i nv && (0 <=? n) && Nat.ltb k (sz i)
  | AAppendBufOwn i off n => Nat.ltb i nv && Nat.leb (off + n) (sz i)
  | AEq i j | ANe i j => Nat.ltb i nv && Nat.ltb j nv
  | ARemoveFront i | ARemoveBack i => Nat.ltb i nv && Nat.ltb 0 (sz i)
  end.

Definition resized (n : nat) (v : Z) (l : sseq) : sseq :=
  if Nat.ltb n (length l) then firstn n l else l ++ repeat v (n - length l).

Definition aspec (s : sstate) (op : aop) : sstate * res :=
  if negb (apre (ssize s) (length s) op) then (s, RSkip) else
  match op with
  | ANew i | ANewCap i _ | AClear i => (upd i [] s, RNone)
  | ACopy i j | AAssign i j => (upd i (sget j s) s, RNone)
  | AReserve i _ => (s, RNone)
  | AResizeD i n => (upd i (resized (Z.to_nat n) 0 (sget i s)) s, RNone)
  | AResize i n v => (upd i (resized (Z.to_nat n) v (sget i s)) s, RNone)
  | AAppend i v => (upd i (sget i s ++ [v]) s, RRef (length (sget i s)))
  | AAppendArr i j => (upd i (sget i s ++ sget j s) s, RNone)
  | AAppendBuf i vs => (upd i (sget i s ++ vs) s, RNone)
  | ARemoveIdx i k => (upd i (if Nat.ltb k (length (sget i s)) then del_at k (sget i s) else sget i s) s, RNone)
  | ARemoveIt i k => (upd i (del_at k (sget i s)) s, RIt k)
  | ARemoveFront i => (upd i (tl (sget i s)) s, RIt O)
  | ARemoveBack i => (upd i (removelast (sget i s)) s, RIt (pred (length (sget i s))))
  | AFind i v => (s, RIt (index_of v (sget i s)))
  | ASwap i j => (upd j (sget i s) (upd i (sget j s) s), RNone)
  | AAppendOwn i k => (upd i (sget i s ++ [nth k (sget i s) 0]) s, RRef (length (sget i s)))
  | AResizeOwn i n k => (upd i (resized (Z.to_nat n) (nth k (sget i s) 0) (sget i s)) s, RNone)
  | AAppendBufOwn i off n => (upd i (sget i s ++ firstn n (skipn off (sget i s))) s, RNone)
  | AEq i j => (s, RBool (seq_eqb (sget i s) (sget j s)))
  | ANe i j => (s, RBool (negb (seq_eqb (sget i s) (sget j s))))
  end.

(* The calls the statement speaks about.  "Removal by index" of a reference sequence means an index of the
   sequence: remove(index) with index >= size() has no counterpart there (the iterator forms carry the same
   condition as a precondition, apre), and the statement leaves open what such a call does.  `aspec` above keeps
   the sequence as it is for it - that is what the code does (SeqModel.a_remove_idx, theorem
   array_remove_idx_beyond_size_is_noop), written down only so that a history can be followed beyond such a call; it
   is NOT part of the specification: `aspec_ok` demands nothing of the call, and the following operations are
   specified from whatever state it left.  The spec driver prints `open` for it and the check's judge stops
   judging the case there (the model keeps predicting it: correspondence only). *)
Definition atext (sz : nat -> nat) (nv : nat) (op : aop) : bool :=
  match op with
  | ARemoveIdx i k => negb (Nat.ltb i nv) || Nat.ltb k (sz i)
  | _ => true
  end.

Inductive aspec_ok : sstate -> list aop -> list (sstate * res) -> Prop :=
| aok_nil s : aspec_ok s [] []
| aok_cons s op s1 r ops tr :
    (atext (ssize s) (length s) op = true -> aspec s op = (s1, r)) ->
    aspec_ok s1 ops tr -> aspec_ok s (op :: ops) ((s1, r) :: tr).

Fixpoint aspec_run (s : sstate) (ops : list aop) : list (sstate * res) :=
  match ops with
  | [] => []
  | op :: t => let '(s1, r) := aspec s op in (s1, r) :: aspec_run s1 t
  end.

(* ------------------------------------------------------------------------------------- *)
(* PoolList<T>                                                                             *)
(* ------------------------------------------------------------------------------------- *)
Inductive pop :=
| PNew (i : nat)
| PAppend (i : nat) (v : Z)               (* T& append(A a): constructed in place from a *)
| PRemove (i k : nat)                     (* Iterator remove(iterator at rank k) *)
| PRemoveRef (i k : nat)                  (* void remove(const T&) with the element at rank k *)
| PRemoveFront (i : nat)
| PRemoveBack (i : nat)
| PClear (i : nat)
| PSwap (i j : nat)
| PAppendN (i : nat) (args : list Z).     (* T& append(A a, B b, ...) with 0..7 arguments: T(a, b, ...) constructed in place *)

(* The element T(a1, ..., an) of an element type whose n-argument constructors (n = 0..7) record what
   they were given: its value names the arity and the arguments in their order (injective for
   arguments 0..7, SeqListProofs.ctor_val_injective).  The harness's `Rec` prints exactly this. *)
Definition ctor_val (args : list Z) : Z :=
  Z.of_nat (length args) + 8 * fold_right (fun a acc => a + 8 * acc) 0 args.
Definition ctor_args_ok (args : list Z) : bool :=
  Nat.leb (length args) 7 && forallb (fun a => (0 <=? a) && (a <? 8)) args.

Definition ppre (sz : nat -> nat) (nv : nat) (op : pop) : bool :=
  match op with
  | PNew i | PAppend i _ | PClear i => Nat.ltb i nv
  | PRemove i k | PRemoveRef i k => Nat.ltb i nv && Nat.ltb k (sz i)
  | PRemoveFront i | PRemoveBack i => Nat.ltb i nv && Nat.ltb 0 (sz i)
  | PSwap i j => Nat.ltb i nv && Nat.ltb j nv
  | PAppendN i args => Nat.ltb i nv && ctor_args_ok args
  end.

Definition pspec (s : sstate) (op : pop) : sstate * res :=
  if negb (ppre (ssize s) (length s) op) then (s, RSkip) else
  match op with
  | PNew i | PClear i => (upd i [] s, RNone)
  | PAppend i v => (upd i (sget i s ++ [v]) s, RRef (length (sget i s)))
  | PRemove i k => (upd i (del_at k (sget i s)) s, RIt k)
  | PRemoveRef i k => (upd i (del_at k (sget i s)) s, RNone)
  | PRemoveFront i => (upd i (tl (sget i s)) s, RIt O)
  | PRemoveBack i => (upd i (removelast (sget i s)) s, RIt (pred (length (sget i s))))
  | PSwap i j => (upd j (sget i s) (upd i (sget j s) s), RNone)
  | PAppendN i args => (upd i (sget i s ++ [ctor_val args]) s, RRef (length (sget i s)))
  end.

Fixpoint pspec_run (s : sstate) (ops : list pop) : list (sstate * res) :=
  match ops with
  | [] => []
  | op :: t => let '(s1, r) := pspec s op in (s1, r) :: pspec_run s1 t
  end.

(* the variables of a case: nv empty sequences *)
Definition sinit (nv : nat) : sstate := repeat [] nv.
