(* Serialising then parsing is the identity (up to the representation of integers, [canon]).
   Layers: escape / unescape, integer printing / reading, tokens, then the recursive composite. *)
From Coq Require Import ZArith List Bool Lia.
Require Import ZifyBool.
From Json Require Import JsonSpec JsonModel JsonProofsBase JsonProofsTotal.
Import ListNotations.
Local Open Scope Z_scope.

(* ================= layer 1: appendEscapedString vs the string tokenizer ================= *)
Definition nulfree (s : list Z) : Prop := Forall (fun c => c <> 0) s.

Lemma str_ok_nulfree s : str_ok s = true -> nulfree s.
Proof.
  unfold str_ok, nulfree. rewrite forallb_forall, Forall_forall.
  intros H c Hc. specialize (H c Hc). lia.
Qed.

Lemma str_step_close f l r acc : str_loop (S f) l (34 :: r) acc = Ok (l, r, rev acc).
Proof. rewrite <- frev_eq. reflexivity. Qed.
Lemma str_step_quote f l r acc : str_loop (S f) l (92 :: 34 :: r) acc = str_loop f l r (34 :: acc).
Proof. reflexivity. Qed.
Lemma str_step_backslash f l r acc : str_loop (S f) l (92 :: 92 :: r) acc = str_loop f l r (92 :: acc).
Proof. reflexivity. Qed.
Lemma str_step_n f l r acc : str_loop (S f) l (92 :: 110 :: r) acc = str_loop f l r (10 :: acc).
Proof. reflexivity. Qed.
Lemma str_step_r f l r acc : str_loop (S f) l (92 :: 114 :: r) acc = str_loop f l r (13 :: acc).
Proof. reflexivity. Qed.
Lemma str_step_plain f l c r acc :
  c <> 0 -> c <> 13 -> c <> 10 -> c <> 92 -> c <> 34 ->
  str_loop (S f) l (c :: r) acc = str_loop f l r (c :: acc).
Proof.
  intros. cbn [str_loop peek adv].
  destruct (c =? 0) eqn:?; [lia|]. destruct (c =? 13) eqn:?; [lia|]. destruct (c =? 10) eqn:?; [lia|].
  destruct (c =? 92) eqn:?; [lia|]. destruct (c =? 34) eqn:?; [lia|]. reflexivity.
Qed.

(* unescape (escape s) = s for every NUL-free byte string; the line counter does not move *)
Lemma str_loop_escape s : forall f l rest acc, nulfree s -> (length s < f)%nat ->
  str_loop f l (escape s ++ 34 :: rest) acc = Ok (l, rest, rev acc ++ s).
Proof.
  induction s as [|c t IH]; intros f l rest acc NF Hf.
  - destruct f as [|f]; [cbn in Hf; lia|]. cbn [escape app]. rewrite str_step_close, app_nil_r. reflexivity.
  - destruct f as [|f]; [lia|]. cbn [length] in Hf.
    inversion NF as [|? ? Hc NFt]; subst.
    assert (R : forall x, rev (x :: acc) ++ t = rev acc ++ x :: t).
    { intros x. cbn [rev]. rewrite <- app_assoc. reflexivity. }
    cbn [escape]. destruct (c =? 0) eqn:E0; [lia|].
    destruct (c =? 34) eqn:E34.
    { assert (c = 34) by lia. subst c. cbn [app]. rewrite str_step_quote, IH, R; auto. lia. }
    destruct (c =? 92) eqn:E92.
    { assert (c = 92) by lia. subst c. cbn [app]. rewrite str_step_backslash, IH, R; auto. lia. }
    destruct (c =? 10) eqn:E10.
    { assert (c = 10) by lia. subst c. cbn [app]. rewrite str_step_n, IH, R; auto. lia. }
    destruct (c =? 13) eqn:E13.
    { assert (c = 13) by lia. subst c. cbn [app]. rewrite str_step_r, IH, R; auto. lia. }
    cbn [app]. rewrite str_step_plain, IH, R; auto; lia.
Qed.

Lemma escape_length s : (length s <= length (escape s))%nat.
Proof.
  induction s as [|c t IH]; [cbn; lia|]. cbn [escape].
  destruct (c =? 0); [lia|].
  destruct (c =? 34); [cbn [length]; lia|]. destruct (c =? 92); [cbn [length]; lia|].
  destruct (c =? 10); [cbn [length]; lia|]. destruct (c =? 13); cbn [length]; lia.
Qed.

(* ================= layer 2: printf("%d"/"%lld") vs atoll ================= *)
Definition dstep (a c : Z) : Z := 10 * a + (c - 48).
Definition all_digits (ds : list Z) : Prop := Forall (fun c => is_digit c = true) ds.

Lemma dec_digits_acc f : forall n acc, dec_digits f n acc = dec_digits f n [] ++ acc.
Proof.
  induction f as [|f IH]; intros n acc; [reflexivity|]. cbn [dec_digits].
  destruct (n <? 10); [reflexivity|].
  rewrite IH, (IH _ [_]), <- app_assoc. reflexivity.
Qed.

Lemma dec_digits_spec f : forall n, 0 <= n < 10 ^ Z.of_nat f -> (0 < f)%nat ->
  all_digits (dec_digits f n []) /\ fold_left dstep (dec_digits f n []) 0 = n /\ dec_digits f n [] <> [].
Proof.
  induction f as [|f IH]; intros n Hn Hf; [lia|].
  - cbn [dec_digits]. destruct (n <? 10) eqn:E.
    + repeat split; [|cbn [fold_left]; unfold dstep; lia|discriminate].
      constructor; [unfold is_digit; lia|constructor].
    + rewrite dec_digits_acc.
      assert (Hq : 0 <= n / 10 < 10 ^ Z.of_nat f).
      { rewrite Nat2Z.inj_succ, Z.pow_succ_r in Hn by lia. split; [apply Z.div_pos; lia|].
        apply Z.div_lt_upper_bound; lia. }
      assert (Hf' : (0 < f)%nat).
      { destruct f; [|lia]. cbn in Hq. assert (1 <= n / 10) by (apply Z.div_le_lower_bound; lia). lia. }
      destruct (IH _ Hq Hf') as (D & V & NE). repeat split.
      * apply Forall_app. split; [exact D|]. constructor; [|constructor].
        unfold is_digit. pose proof (Z.mod_pos_bound n 10 ltac:(lia)). lia.
      * rewrite fold_left_app, V. cbn [fold_left]. unfold dstep.
        pose proof (Z.div_mod n 10 ltac:(lia)). lia.
      * intros X. apply app_eq_nil in X. destruct X; discriminate.
Qed.

Lemma log2_fuel_ok n : 0 <= n -> n < 10 ^ Z.of_nat (S (Z.to_nat (Z.log2 n))).
Proof.
  intros Hn. rewrite Nat2Z.inj_succ, Z2Nat.id by apply Z.log2_nonneg.
  destruct (Z.eq_dec n 0) as [->|Hnz]; [cbn; lia|].
  pose proof (Z.log2_spec n ltac:(lia)) as [_ H2].
  eapply Z.lt_le_trans; [exact H2|].
  apply Z.pow_le_mono_l. pose proof (Z.log2_nonneg n). lia.
Qed.

Lemma digits_val_fold ds : forall a rest, all_digits ds ->
  digits_val (ds ++ rest) a = digits_val rest (fold_left dstep ds a).
Proof.
  induction ds as [|c t IH]; intros a rest D; [reflexivity|].
  inversion D as [|? ? Hc Dt]; subst. cbn [app digits_val fold_left]. rewrite Hc.
  apply IH, Dt.
Qed.

Definition numch (c : Z) : bool := (c =? 45) || is_digit c.

Lemma print_dec_shape z :
  (0 <= z -> all_digits (print_dec z) /\ fold_left dstep (print_dec z) 0 = z /\ print_dec z <> []) /\
  (z < 0 -> exists ds, print_dec z = 45 :: ds /\ all_digits ds /\ fold_left dstep ds 0 = - z /\ ds <> []).
Proof.
  unfold print_dec. split; intros Hz.
  - destruct (z <? 0) eqn:E; [lia|]. apply dec_digits_spec; [|lia]. split; [lia|]. apply log2_fuel_ok. lia.
  - destruct (z <? 0) eqn:E; [|lia]. eexists. split; [reflexivity|].
    apply dec_digits_spec; [|lia]. split; [lia|]. apply log2_fuel_ok. lia.
Qed.

(* atoll (printf z) for every integer: z, saturated at the int64 bounds *)
Lemma ref_atoll_print_dec_sat z : ref_atoll (print_dec z) = clamp64 z.
Proof.
  destruct (print_dec_shape z) as [P N]. destruct (Z_lt_le_dec z 0) as [Hz|Hz].
  - destruct (N Hz) as (ds & -> & D & V & _). unfold ref_atoll. cbn [Z.eqb Pos.eqb].
    rewrite <- (app_nil_r ds), digits_val_fold by exact D. cbn [digits_val]. rewrite V.
    f_equal. lia.
  - destruct (P Hz) as (D & V & NE). destruct (print_dec z) as [|c t] eqn:Ep; [congruence|].
    unfold ref_atoll. pose proof (Forall_inv D) as Hc. cbn beta in Hc.
    destruct (c =? 45) eqn:E1; [unfold is_digit in Hc; lia|].
    destruct (c =? 43) eqn:E2; [unfold is_digit in Hc; lia|].
    rewrite <- (app_nil_r (c :: t)), digits_val_fold by exact D. cbn [digits_val]. rewrite V.
    reflexivity.
Qed.

Lemma clamp64_id z : int64_min <= z <= int64_max -> clamp64 z = z.
Proof.
  intros R. unfold clamp64, int64_min, int64_max in *. destruct (z <? _) eqn:?; [lia|].
  destruct (_ <? z) eqn:?; lia.
Qed.

(* atoll (printf z) = z over the whole 64-bit range *)
Lemma ref_atoll_print_dec z : int64_min <= z <= int64_max -> ref_atoll (print_dec z) = z.
Proof. intros R. rewrite ref_atoll_print_dec_sat. apply clamp64_id, R. Qed.

Lemma print_dec_numch z : Forall (fun c => numch c = true) (print_dec z) /\ print_dec z <> [].
Proof.
  destruct (print_dec_shape z) as [P N]. destruct (Z_lt_le_dec z 0) as [Hz|Hz].
  - destruct (N Hz) as (ds & -> & D & _ & _). split; [|discriminate].
    constructor; [reflexivity|]. eapply Forall_impl; [|exact D]. intros c Hc. cbn beta in Hc. unfold numch. rewrite Hc. apply orb_true_r.
  - destruct (P Hz) as (D & _ & NE). split; [|exact NE].
    eapply Forall_impl; [|exact D]. intros c Hc. cbn beta in Hc. unfold numch. rewrite Hc. apply orb_true_r.
Qed.

(* the byte after a number ends the scan *)
Definition num_stop (rest : list Z) : Prop :=
  let c := peek rest in
  (c =? 69) || (c =? 101) || (c =? 45) || (c =? 43) || (c =? 46) || is_digit c = false.

Lemma num_loop_scan ds : forall f rest acc isd,
  Forall (fun c => numch c = true) ds -> num_stop rest -> (length ds < f)%nat ->
  num_loop f (ds ++ rest) acc isd = Ok (rest, rev acc ++ ds, isd).
Proof.
  induction ds as [|c t IH]; intros f rest acc isd D ST Hf.
  - destruct f as [|f]; [cbn in Hf; lia|]. cbn [app num_loop]. unfold num_stop in ST. cbn zeta in ST.
    destruct ((peek rest =? 69) || (peek rest =? 101) || (peek rest =? 45) || (peek rest =? 43)) eqn:E1; [lia|].
    destruct (peek rest =? 46) eqn:E2; [lia|].
    destruct (is_digit (peek rest)) eqn:E3; [lia|]. rewrite app_nil_r, frev_eq. reflexivity.
  - destruct f as [|f]; [lia|]. cbn [length] in Hf. inversion D as [|? ? Hc Dt]; subst.
    cbn [app]. rewrite num_loop_first by exact Hc. rewrite IH by (auto; lia).
    cbn [rev]. rewrite <- app_assoc. reflexivity.
Qed.

(* ================= layer 3: tokens ================= *)
Definition ws_only (w : list Z) : Prop := Forall (fun c => c = 9 \/ c = 10 \/ c = 32) w.
Fixpoint nlf (w : list Z) : Z :=
  match w with [] => 0 | c :: t => (if c =? 10 then 1 else 0) + nlf t end.

Lemma skip_ws w : forall f l r, ws_only w ->
  skip_space (length w + f) l (w ++ r) = skip_space f (l + nlf w) r.
Proof.
  induction w as [|c t IH]; intros f l r W.
  - cbn. f_equal. lia.
  - inversion W as [|? ? Hc Wt]; subst. cbn [length app Nat.add skip_space peek adv nlf].
    destruct (c =? 13) eqn:E13; [lia|]. destruct (c =? 10) eqn:E10.
    + rewrite IH by exact Wt. f_equal; lia.
    + destruct (is_space c) eqn:Es; [|unfold is_space in Es; lia].
      rewrite IH by exact Wt. f_equal; lia.
Qed.

Lemma rt_ws w l r : ws_only w ->
  read_token (mkPos l (w ++ r)) = read_token (mkPos (l + nlf w) r).
Proof.
  intros W. unfold read_token. cbn [p_line p_rest].
  rewrite app_length. replace (S (length w + length r)) with (length w + S (length r))%nat by lia.
  rewrite skip_ws by exact W. reflexivity.
Qed.

Lemma rt_nonspace l c t : is_space c = false ->
  read_token (mkPos l (c :: t)) = token_at l (c :: t).
Proof.
  intros H. unfold read_token. cbn [p_line p_rest length skip_space peek].
  unfold is_space in H.
  destruct (c =? 13) eqn:?; [lia|]. destruct (c =? 10) eqn:?; [lia|].
  unfold is_space. destruct (_ || _) eqn:?; [lia|]. reflexivity.
Qed.

Lemma rt_punct l c r : is_punct c = true ->
  read_token (mkPos l (c :: r)) = Ok (mkPos l r, (c, JNull)).
Proof.
  intros H. rewrite rt_nonspace by (unfold is_punct, is_space in *; lia).
  unfold token_at. cbn [peek adv]. destruct (c =? 0) eqn:?; [unfold is_punct in H; lia|].
  rewrite H. reflexivity.
Qed.

Lemma rt_string l s r : nulfree s ->
  read_token (mkPos l (esc_string s ++ r)) = Ok (mkPos l r, (34, JString s)).
Proof.
  intros NF. unfold esc_string. cbn [app]. rewrite <- app_assoc. cbn [app].
  rewrite rt_nonspace by reflexivity. unfold token_at. cbn [peek adv Z.eqb Pos.eqb is_punct orb].
  rewrite str_loop_escape; [reflexivity|exact NF|].
  rewrite app_length. pose proof (escape_length s). lia.
Qed.

Lemma rt_null l r : read_token (mkPos l (lit_null ++ r)) = Ok (mkPos l r, (110, JNull)).
Proof. cbn [lit_null app]. rewrite rt_nonspace by reflexivity. reflexivity. Qed.
Lemma rt_true l r : read_token (mkPos l (lit_true ++ r)) = Ok (mkPos l r, (116, JBool true)).
Proof. cbn [lit_true app]. rewrite rt_nonspace by reflexivity. reflexivity. Qed.
Lemma rt_false l r : read_token (mkPos l (lit_false ++ r)) = Ok (mkPos l r, (102, JBool false)).
Proof. cbn [lit_false app]. rewrite rt_nonspace by reflexivity. reflexivity. Qed.

Lemma rt_num_sat l z r : num_stop r ->
  read_token (mkPos l (print_dec z ++ r)) = Ok (mkPos l r, (35, classify_int (clamp64 z))).
Proof.
  intros ST. destruct (print_dec_numch z) as [D NE].
  destruct (print_dec z) as [|c t] eqn:Ep; [congruence|].
  inversion D as [|? ? Hc Dt]; subst. unfold numch in Hc.
  cbn [app]. rewrite rt_nonspace by (unfold is_space, is_digit in *; lia).
  unfold token_at. cbn [peek].
  destruct (c =? 0) eqn:?; [unfold is_digit in *; lia|].
  destruct (is_punct c) eqn:?; [unfold is_punct, is_digit in *; lia|].
  destruct (c =? 34) eqn:?; [unfold is_digit in *; lia|].
  destruct (c =? 116) eqn:?; [unfold is_digit in *; lia|].
  destruct (c =? 102) eqn:?; [unfold is_digit in *; lia|].
  destruct (c =? 110) eqn:?; [unfold is_digit in *; lia|].
  rewrite Hc. change (c :: t ++ r) with ((c :: t) ++ r).
  rewrite num_loop_scan; [|exact D|exact ST|rewrite app_length; cbn [length]; lia].
  cbn [bind rev app]. rewrite <- Ep, ref_atoll_print_dec_sat. reflexivity.
Qed.

Lemma rt_num l z r : int64_min <= z <= int64_max -> num_stop r ->
  read_token (mkPos l (print_dec z ++ r)) = Ok (mkPos l r, (35, classify_int z)).
Proof. intros R ST. rewrite rt_num_sat by exact ST. rewrite clamp64_id by exact R. reflexivity. Qed.

(* ================= layer 4: the recursive composite ================= *)
(* induction principle for the nested tree type *)
Section ValueInd.
  Variable P : value -> Prop.
  Hypothesis Hnull : P JNull.
  Hypothesis Hbool : forall b, P (JBool b).
  Hypothesis Hint : forall z, P (JInt z).
  Hypothesis Hint64 : forall z, P (JInt64 z).
  Hypothesis Hdouble : forall t, P (JDouble t).
  Hypothesis Hstring : forall s, P (JString s).
  Hypothesis Hlist : forall l, Forall P l -> P (JList l).
  Hypothesis Hmap : forall m, Forall (fun kx => P (snd kx)) m -> P (JMap m).
  Hypothesis Huint : forall z, P (JUInt z).
  Hypothesis Huint64 : forall z, P (JUInt64 z).
  Hypothesis Harray : forall l, Forall P l -> P (JArray l).
  Fixpoint value_ind2 (v : value) : P v :=
    match v with
    | JNull => Hnull
    | JBool b => Hbool b
    | JInt z => Hint z
    | JInt64 z => Hint64 z
    | JDouble t => Hdouble t
    | JString s => Hstring s
    | JList l => Hlist l ((fix go (l : list value) : Forall P l :=
                             match l with
                             | [] => Forall_nil _
                             | x :: t => Forall_cons x (value_ind2 x) (go t)
                             end) l)
    | JMap m => Hmap m ((fix go (m : list (list Z * value)) : Forall (fun kx => P (snd kx)) m :=
                           match m with
                           | [] => Forall_nil _
                           | kx :: t => Forall_cons kx (value_ind2 (snd kx)) (go t)
                           end) m)
    | JUInt z => Huint z
    | JUInt64 z => Huint64 z
    | JArray l => Harray l ((fix go (l : list value) : Forall P l :=
                               match l with
                               | [] => Forall_nil _
                               | x :: t => Forall_cons x (value_ind2 x) (go t)
                               end) l)
    end.
End ValueInd.

(* ---------- the class, in Prop form ---------- *)
Lemma bytes_eqb_eq a : forall b, bytes_eqb a b = true <-> a = b.
Proof.
  induction a as [|x a IH]; intros [|y b]; cbn [bytes_eqb]; split; intros H; try congruence; try discriminate.
  - apply andb_true_iff in H as [H1 H2]. apply Z.eqb_eq in H1. apply IH in H2. congruence.
  - injection H as -> ->. rewrite Z.eqb_refl. cbn. now apply IH.
Qed.

Lemma key_in_spec k m : key_in k m = true <-> In k (map fst m).
Proof.
  induction m as [|[k' x] t IH]; cbn [key_in map fst In]; [split; [discriminate|tauto]|].
  rewrite orb_true_iff, bytes_eqb_eq, IH. split; intros [H|H]; auto.
Qed.

Lemma in_class_list l : in_class (JList l) = true -> Forall (fun x => in_class x = true) l.
Proof.
  induction l as [|x t IH]; intros H; [constructor|].
  cbn [in_class] in H. apply andb_true_iff in H as [H1 H2]. constructor; [exact H1|]. apply IH. exact H2.
Qed.

Lemma in_class_map m : in_class (JMap m) = true ->
  Forall (fun kx => nulfree (fst kx) /\ in_class (snd kx) = true) m /\ NoDup (map fst m).
Proof.
  induction m as [|[k x] t IH]; intros H; [split; constructor|].
  cbn [in_class] in H. apply andb_true_iff in H as [H H4]. apply andb_true_iff in H as [H H3].
  apply andb_true_iff in H as [H1 H2]. destruct (IH H4) as [F N]. split.
  - constructor; [|exact F]. cbn [fst snd]. split; [now apply str_ok_nulfree|exact H2].
  - cbn [map fst]. constructor; [|exact N]. rewrite <- key_in_spec. destruct (key_in k t); [discriminate|congruence].
Qed.

(* the same for the extended class (unsigned integers and arrays allowed) *)
Lemma in_ext_list l : in_ext (JList l) = true -> Forall (fun x => in_ext x = true) l.
Proof.
  induction l as [|x t IH]; intros H; [constructor|].
  cbn [in_ext] in H. apply andb_true_iff in H as [H1 H2]. constructor; [exact H1|]. apply IH. exact H2.
Qed.

Lemma in_ext_array l : in_ext (JArray l) = true -> Forall (fun x => in_ext x = true) l.
Proof. exact (in_ext_list l). Qed.

Lemma in_ext_map m : in_ext (JMap m) = true ->
  Forall (fun kx => nulfree (fst kx) /\ in_ext (snd kx) = true) m /\ NoDup (map fst m).
Proof.
  induction m as [|[k x] t IH]; intros H; [split; constructor|].
  cbn [in_ext] in H. apply andb_true_iff in H as [H H4]. apply andb_true_iff in H as [H H3].
  apply andb_true_iff in H as [H1 H2]. destruct (IH H4) as [F N]. split.
  - constructor; [|exact F]. cbn [fst snd]. split; [now apply str_ok_nulfree|exact H2].
  - cbn [map fst]. constructor; [|exact N]. rewrite <- key_in_spec. destruct (key_in k t); [discriminate|congruence].
Qed.

(* ---------- shapes of the emitted text ---------- *)
Definition tabs (ind : list Z) : Prop := Forall (fun c => c = 9) ind.
Definition nind (ind : list Z) : list Z := ind ++ [9].     (* newIndentation *)

Lemma tabs_ws ind : tabs ind -> ws_only ind.
Proof. apply Forall_impl. intros c ->. auto. Qed.

Lemma ws_app a b : ws_only a -> ws_only b -> ws_only (a ++ b).
Proof. intros. apply Forall_app. split; assumption. Qed.

Lemma reassoc (w a b m z : list Z) : w ++ (a ++ b ++ m) ++ z = (w ++ a) ++ b ++ (m ++ z).
Proof. rewrite <- !app_assoc. reflexivity. Qed.

Lemma ws_lf : ws_only [10].
Proof. constructor; [right; left; reflexivity|constructor]. Qed.
Lemma ws_sp : ws_only [32].
Proof. constructor; [right; right; reflexivity|constructor]. Qed.
Lemma ws_lf_tabs ind : tabs ind -> ws_only (10 :: ind).
Proof. intros H. constructor; [right; left; reflexivity|apply tabs_ws; exact H]. Qed.

Lemma tabs_snoc ind : tabs ind -> tabs (nind ind).
Proof. intros H. apply Forall_app. split; [exact H|repeat constructor]. Qed.

Notation E ind := (fun x => emit x (nind ind)).

Lemma emit_list_cons x t ind :
  emit (JList (x :: t)) ind = 91 :: 10 :: emit_items (E ind) (nind ind) (x :: t) ++ 10 :: ind ++ [93].
Proof. reflexivity. Qed.

Lemma emit_map_cons kx t ind :
  emit (JMap (kx :: t)) ind = 123 :: 10 :: emit_members (E ind) (nind ind) (kx :: t) ++ 10 :: ind ++ [125].
Proof. reflexivity. Qed.

Lemma emit_array_cons x t ind : emit (JArray (x :: t)) ind = emit (JList (x :: t)) ind.
Proof. reflexivity. Qed.

Lemma emit_nonempty v ind : in_ext v = true -> (1 <= length (emit v ind))%nat.
Proof.
  destruct v; intros H; try discriminate.
  - cbn. lia.
  - destruct b; cbn; lia.
  - cbn [emit]. destruct (print_dec_numch z) as [_ NE]. destruct (print_dec z); [congruence|cbn; lia].
  - cbn [emit]. destruct (print_dec_numch z) as [_ NE]. destruct (print_dec z); [congruence|cbn; lia].
  - cbn. lia.
  - destruct l; [cbn; lia|rewrite emit_list_cons; cbn [length]; lia].
  - destruct m; [cbn; lia|rewrite emit_map_cons; cbn [length]; lia].
  - cbn [emit]. destruct (print_dec_numch z) as [_ NE]. destruct (print_dec z); [congruence|cbn; lia].
  - cbn [emit]. destruct (print_dec_numch z) as [_ NE]. destruct (print_dec z); [congruence|cbn; lia].
  - destruct l; [cbn; lia|rewrite emit_array_cons, emit_list_cons; cbn [length]; lia].
Qed.

(* ---------- bind bookkeeping ---------- *)
Lemma bind_assoc_pair {A B C D} (x : res (A * B)) (k1 : A -> B -> res C) (k2 : C -> res D) :
  bind x (fun '(a, b) => bind (k1 a b) k2) = bind (bind x (fun '(a, b) => k1 a b)) k2.
Proof. destruct x as [[a b]| | |]; reflexivity. Qed.

Lemma bind_ok_pair {A B C D} (x : res (A * B)) (c : C) (k2 : C * A * B -> res D) :
  bind (bind x (fun '(a, b) => Ok (c, a, b))) k2 = bind x (fun '(a, b) => k2 (c, a, b)).
Proof. destruct x as [[a b]| | |]; reflexivity. Qed.

(* the statement proved by induction on the tree *)
Definition RT (v : value) : Prop :=
  forall ind l rest f, in_ext v = true -> tabs ind -> num_stop rest ->
    (length (emit v ind) <= f)%nat ->
    exists l', bind (read_token (mkPos l (emit v ind ++ rest))) (fun '(p, t) => parse_value f p t)
             = bind (read_token (mkPos l' rest)) (fun '(p', t') => Ok (readback v, p', t')).

(* the first token of an emitted value is never a closing bracket (the loops go on) *)
Lemma first_token v ind l rest : in_ext v = true -> num_stop rest ->
  exists p t, read_token (mkPos l (emit v ind ++ rest)) = Ok (p, t) /\ fst t <> 93 /\ fst t <> 125.
Proof.
  intros C ST. destruct v; try discriminate.
  - cbn [emit]. rewrite rt_null. do 2 eexists. split; [reflexivity|cbn; lia].
  - destruct b; cbn [emit]; [rewrite rt_true|rewrite rt_false]; do 2 eexists; (split; [reflexivity|cbn; lia]).
  - cbn [emit]. rewrite rt_num_sat by exact ST.
    do 2 eexists. split; [reflexivity|cbn; lia].
  - cbn [emit]. rewrite rt_num_sat by exact ST.
    do 2 eexists. split; [reflexivity|cbn; lia].
  - cbn [emit]. rewrite rt_string by (apply str_ok_nulfree; exact C).
    do 2 eexists. split; [reflexivity|cbn; lia].
  - destruct l0.
    + cbn [emit app]. rewrite rt_punct by reflexivity. do 2 eexists. split; [reflexivity|cbn; lia].
    + rewrite emit_list_cons. cbn [app]. rewrite rt_punct by reflexivity.
      do 2 eexists. split; [reflexivity|cbn; lia].
  - destruct m.
    + cbn [emit app]. rewrite rt_punct by reflexivity. do 2 eexists. split; [reflexivity|cbn; lia].
    + rewrite emit_map_cons. cbn [app]. rewrite rt_punct by reflexivity.
      do 2 eexists. split; [reflexivity|cbn; lia].
  - cbn [emit]. rewrite rt_num_sat by exact ST.
    do 2 eexists. split; [reflexivity|cbn; lia].
  - cbn [emit]. rewrite rt_num_sat by exact ST.
    do 2 eexists. split; [reflexivity|cbn; lia].
  - destruct l0.
    + cbn [emit app]. rewrite rt_punct by reflexivity. do 2 eexists. split; [reflexivity|cbn; lia].
    + rewrite emit_array_cons, emit_list_cons. cbn [app]. rewrite rt_punct by reflexivity.
      do 2 eexists. split; [reflexivity|cbn; lia].
Qed.

Lemma num_stop_lf r : num_stop (10 :: r).
Proof. reflexivity. Qed.
Lemma num_stop_comma r : num_stop (44 :: r).
Proof. reflexivity. Qed.

Lemma scalar_case v k ind l rest f :
  read_token (mkPos l (emit v ind ++ rest)) = Ok (mkPos l rest, (k, readback v)) ->
  is_scalar_tok k = true -> (1 <= f)%nat ->
  exists l', bind (read_token (mkPos l (emit v ind ++ rest))) (fun '(p, t) => parse_value f p t)
           = bind (read_token (mkPos l' rest)) (fun '(p', t') => Ok (readback v, p', t')).
Proof.
  intros R K Hf. exists l. rewrite R. cbn [bind]. destruct f as [|f]; [lia|].
  cbn [parse_value fst snd]. rewrite K. reflexivity.
Qed.

(* ---------- parseArray over the emitted elements ---------- *)
Lemma arr_items ind rest : tabs ind -> forall xs, xs <> [] ->
  Forall (fun x => in_ext x = true /\ RT x) xs ->
  forall acc w l f, ws_only w ->
    (length (emit_items (E ind) (nind ind) xs) + 1 <= f)%nat ->
    exists l',
      bind (read_token (mkPos l (w ++ emit_items (E ind) (nind ind) xs ++ 10 :: ind ++ 93 :: rest)))
           (fun '(p, t) => arr_loop f p t acc)
      = bind (read_token (mkPos l' rest)) (fun '(p', t') => Ok (JList (rev acc ++ map readback xs), p', t')).
Proof.
  intros TI. assert (TN : tabs (nind ind)) by (apply tabs_snoc; exact TI).
  induction xs as [|x t IHt]; intros NE F acc w l f W Hf; [congruence|].
  inversion F as [|? ? [Cx RTx] Ft]; subst. clear F NE.
  cbn [emit_items] in *. rewrite reassoc.
  match goal with |- context[emit x (nind ind) ++ ?r] => set (R := r) end.
  assert (NSR : num_stop R) by (subst R; destruct t; reflexivity).
  rewrite rt_ws by (apply ws_app; [exact W|apply tabs_ws; exact TN]).
  set (ni := nind ind) in *. set (l1 := l + nlf (w ++ ni)).
  destruct (first_token x ni l1 R Cx NSR) as (p & t0 & RT0 & N93 & _).
  rewrite !app_length in Hf. cbn [length] in Hf.
  destruct f as [|f]; [lia|].
  destruct (RTx ni l1 R f Cx TN NSR ltac:(lia)) as (l2 & EQ). rewrite RT0 in EQ |- *. cbn [bind] in EQ |- *.
  cbn [arr_loop]. destruct (fst t0 =? 93) eqn:E93; [lia|]. rewrite EQ. clear EQ RT0.
  rewrite bind_ok_pair. subst R. destruct t as [|y t'].
  - (* last element: "\n" indentation "]" *)
    cbn [app]. change (10 :: ind ++ 93 :: rest) with ((10 :: ind) ++ 93 :: rest).
    rewrite rt_ws by (apply ws_lf_tabs; exact TI).
    rewrite rt_punct by reflexivity. cbn [bind fst snd Z.eqb Pos.eqb].
    eexists. cbn [map rev]. reflexivity.
  - (* ",\n" and the next element *)
    cbn [app]. rewrite rt_punct by reflexivity. cbn [bind fst snd Z.eqb Pos.eqb negb].
    destruct (IHt ltac:(discriminate) Ft (readback x :: acc) [10] l2 f ws_lf) as (l3 & EQ).
    { rewrite app_length in Hf. cbn [length] in Hf. lia. }
    exists l3. cbn [app] in EQ. rewrite EQ.
    cbn [map rev]. rewrite <- app_assoc. reflexivity.
Qed.

(* ---------- parseObject over the emitted members ---------- *)
Lemma map_upsert_fresh k v acc : ~ In k (map fst acc) -> map_upsert k v acc = acc ++ [(k, v)].
Proof.
  induction acc as [|[k' v'] t IH]; intros H; [reflexivity|].
  cbn [map_upsert]. destruct (bytes_eqb k k') eqn:Eb.
  - apply bytes_eqb_eq in Eb. subst. exfalso. apply H. left. reflexivity.
  - cbn [app]. f_equal. apply IH. intros X. apply H. right. exact X.
Qed.

Lemma reassoc2 (w a b c m z : list Z) :
  w ++ (a ++ b ++ [58; 32] ++ c ++ m) ++ z = (w ++ a) ++ b ++ 58 :: [32] ++ c ++ (m ++ z).
Proof. rewrite <- !app_assoc. reflexivity. Qed.

Definition canon_member (kx : list Z * value) : list Z * value := (fst kx, readback (snd kx)).

Lemma obj_items ind rest : tabs ind -> forall m, m <> [] ->
  Forall (fun kx => nulfree (fst kx) /\ in_ext (snd kx) = true /\ RT (snd kx)) m ->
  NoDup (map fst m) ->
  forall acc w l f, ws_only w ->
    (forall k, In k (map fst m) -> ~ In k (map fst acc)) ->
    (length (emit_members (E ind) (nind ind) m) + 1 <= f)%nat ->
    exists l',
      bind (read_token (mkPos l (w ++ emit_members (E ind) (nind ind) m ++ 10 :: ind ++ 125 :: rest)))
           (fun '(p, t) => obj_loop f p t acc)
      = bind (read_token (mkPos l' rest)) (fun '(p', t') => Ok (JMap (acc ++ map canon_member m), p', t')).
Proof.
  intros TI. assert (TN : tabs (nind ind)) by (apply tabs_snoc; exact TI).
  induction m as [|[k x] t IHt]; intros NE F ND acc w l f W FR Hf; [congruence|].
  inversion F as [|? ? (NFk & Cx & RTx) Ft]; subst. clear F NE. cbn [fst snd] in *.
  inversion ND as [|? ? NIk NDt]; subst. clear ND.
  cbn [emit_members fst snd] in *. rewrite reassoc2.
  match goal with |- context[emit x (nind ind) ++ ?r] => set (R := r) end.
  assert (NSR : num_stop R) by (subst R; destruct t; reflexivity).
  rewrite rt_ws by (apply ws_app; [exact W|apply tabs_ws; exact TN]).
  set (ni := nind ind) in *. set (l1 := l + nlf (w ++ ni)).
  rewrite rt_string by exact NFk. cbn [bind].
  rewrite !app_length in Hf. cbn [length] in Hf.
  destruct f as [|f]; [lia|].
  cbn [obj_loop fst snd key_of Z.eqb Pos.eqb negb].
  rewrite rt_punct by reflexivity. cbn [bind fst snd Z.eqb Pos.eqb negb].
  rewrite rt_ws by exact ws_sp.
  rewrite bind_assoc_pair.
  destruct (RTx ni (l1 + nlf [32]) R f Cx TN NSR ltac:(lia)) as (l2 & EQ). rewrite EQ. clear EQ.
  rewrite bind_ok_pair. subst R.
  assert (FRk : ~ In k (map fst acc)) by (apply FR; left; reflexivity).
  destruct t as [|[k' y] t'].
  - cbn [app]. change (10 :: ind ++ 125 :: rest) with ((10 :: ind) ++ 125 :: rest).
    rewrite rt_ws by (apply ws_lf_tabs; exact TI).
    rewrite rt_punct by reflexivity. cbn [bind fst snd Z.eqb Pos.eqb].
    eexists. rewrite map_upsert_fresh by exact FRk. reflexivity.
  - cbn [app]. rewrite rt_punct by reflexivity. cbn [bind fst snd Z.eqb Pos.eqb negb].
    rewrite map_upsert_fresh by exact FRk.
    destruct (IHt ltac:(discriminate) Ft NDt (acc ++ [(k, readback x)]) [10] l2 f ws_lf) as (l3 & EQ).
    { intros k2 Hk2. rewrite map_app, in_app_iff. cbn [map fst In]. intros [X|[X|[]]].
      - apply (FR k2); [right; exact Hk2|exact X].
      - subst k2. apply NIk. exact Hk2. }
    { rewrite app_length in Hf. cbn [length] in Hf. lia. }
    exists l3. cbn [app] in EQ. rewrite EQ. cbn [map]. rewrite <- app_assoc. reflexivity.
Qed.

(* ---------- every tree of the class ---------- *)
Lemma fits_same z : fits_int32 z = fits32 z.
Proof. reflexivity. Qed.

Lemma clamp64_sat63 z : 0 <= z -> clamp64 z = sat63 z.
Proof.
  intros Hz. unfold clamp64, sat63, int64_min, int64_max. destruct (z <? _) eqn:?; [lia|]. reflexivity.
Qed.

(* a bracketed sequence of emitted items: the text of the list case and of the array case *)
Lemma RT_items l : Forall RT l -> forall ind ln rest f,
  Forall (fun x => in_ext x = true) l -> tabs ind -> num_stop rest ->
  (length (emit (JList l) ind) <= f)%nat ->
  exists l', bind (read_token (mkPos ln (emit (JList l) ind ++ rest))) (fun '(p, t) => parse_value f p t)
           = bind (read_token (mkPos l' rest)) (fun '(p', t') => Ok (JList (map readback l), p', t')).
Proof.
  intros H ind ln rest f C TI ST Hf. destruct l as [|x t].
  - exists ln. cbn [emit app map]. rewrite rt_punct by reflexivity. cbn [bind].
    destruct f as [|[|f]]; [cbn in Hf; lia|cbn in Hf; lia|].
    cbn [parse_value fst snd is_scalar_tok Z.eqb Pos.eqb orb].
    rewrite rt_punct by reflexivity. cbn [bind arr_loop fst snd Z.eqb Pos.eqb rev]. reflexivity.
  - rewrite emit_list_cons in Hf |- *. cbn [app length] in Hf |- *.
    rewrite rt_punct by reflexivity. cbn [bind]. destruct f as [|f]; [lia|].
    cbn [parse_value fst snd is_scalar_tok Z.eqb Pos.eqb orb].
    rewrite <- app_assoc. cbn [app]. rewrite <- app_assoc. cbn [app].
    rewrite !app_length in Hf. cbn [length] in Hf.
    destruct (arr_items ind rest TI (x :: t) ltac:(discriminate)) with (acc := @nil value) (w := [10]) (l := ln) (f := f)
      as (l' & EQ).
    * rewrite Forall_forall in *. intros y Hy. split; [apply C|apply H]; exact Hy.
    * exact ws_lf.
    * lia.
    * exists l'. cbn [app] in EQ. rewrite EQ. reflexivity.
Qed.

Lemma RT_all v : RT v.
Proof.
  induction v using value_ind2; intros ind ln rest f C TI ST Hf;
    pose proof (emit_nonempty _ ind C) as Hne.
  - apply (scalar_case JNull 110); [apply rt_null|reflexivity|lia].
  - destruct b.
    + apply (scalar_case (JBool true) 116); [apply rt_true|reflexivity|lia].
    + apply (scalar_case (JBool false) 102); [apply rt_false|reflexivity|lia].
  - apply (scalar_case (JInt z) 35); [|reflexivity|lia].
    cbn [emit readback]. rewrite rt_num; [|cbn in C; unfold int64_min, int64_max; lia|exact ST].
    unfold classify_int. cbn [in_ext] in C. unfold fits_int32. rewrite C. reflexivity.
  - apply (scalar_case (JInt64 z) 35); [|reflexivity|lia].
    cbn [emit readback]. rewrite rt_num; [|cbn in C; unfold int64_min, int64_max; lia|exact ST].
    reflexivity.
  - discriminate.
  - apply (scalar_case (JString s) 34); [|reflexivity|lia].
    cbn [emit readback]. apply rt_string. apply str_ok_nulfree. exact C.
  - (* lists *)
    apply (RT_items l H ind ln rest f); [apply in_ext_list; exact C|exact TI|exact ST|exact Hf].
  - (* maps *)
    destruct m as [|kx t].
    + exists ln. cbn [emit app readback map]. rewrite rt_punct by reflexivity. cbn [bind].
      destruct f as [|[|f]]; [cbn in Hf; lia|cbn in Hf; lia|].
      cbn [parse_value fst snd is_scalar_tok Z.eqb Pos.eqb orb].
      rewrite rt_punct by reflexivity. cbn [bind obj_loop fst snd Z.eqb Pos.eqb]. reflexivity.
    + rewrite emit_map_cons in Hf |- *. cbn [app length] in Hf |- *.
      rewrite rt_punct by reflexivity. cbn [bind]. destruct f as [|f]; [lia|].
      cbn [parse_value fst snd is_scalar_tok Z.eqb Pos.eqb orb].
      rewrite <- app_assoc. cbn [app]. rewrite <- app_assoc. cbn [app].
      rewrite !app_length in Hf. cbn [length] in Hf.
      destruct (in_ext_map _ C) as [FC ND].
      destruct (obj_items ind rest TI (kx :: t) ltac:(discriminate)) with (acc := @nil (list Z * value)) (w := [10]) (l := ln) (f := f)
        as (l' & EQ).
      * rewrite Forall_forall in *. intros y Hy. destruct (FC y Hy). repeat split; auto.
      * exact ND.
      * exact ws_lf.
      * intros k _ [].
      * lia.
      * exists l'. cbn [app] in EQ. rewrite EQ. reflexivity.
  - (* unsigned 32 bit: below 2^32, so atoll does not saturate *)
    apply (scalar_case (JUInt z) 35); [|reflexivity|lia].
    cbn [emit readback]. rewrite rt_num; [|cbn in C; unfold int64_min, int64_max; lia|exact ST].
    reflexivity.
  - (* unsigned 64 bit: atoll saturates from 2^63 on *)
    apply (scalar_case (JUInt64 z) 35); [|reflexivity|lia].
    cbn [emit readback]. rewrite rt_num_sat by exact ST.
    rewrite clamp64_sat63 by (cbn in C; lia). reflexivity.
  - (* arrays: the text of a list *)
    assert (E : forall i, emit (JArray l) i = emit (JList l) i) by (intros i; destruct l; reflexivity).
    rewrite E in Hf |- *.
    apply (RT_items l H ind ln rest f); [apply in_ext_array; exact C|exact TI|exact ST|exact Hf].
Qed.

(* ---------- Json::parse (Json::toString v) ---------- *)
(* the extension: every tree of the extended class (unsigned integers, arrays) *)
Lemma parse_to_string_ext v : in_ext v = true -> parse (to_string v) = POk (readback v).
Proof.
  intros C. unfold parse, to_string.
  destruct (RT_all v [] 1 [10] (parse_fuel (emit v [] ++ [10])) C ltac:(constructor) (num_stop_lf [])) as (l' & EQ).
  { unfold parse_fuel. rewrite app_length. lia. }
  rewrite EQ. reflexivity.
Qed.

(* the class of the property lies inside the extended class, and there readback is canon *)
Lemma in_class_ext v : in_class v = true -> in_ext v = true /\ readback v = canon v.
Proof.
  induction v using value_ind2; intros C; try discriminate; try (split; [exact C|reflexivity]).
  - (* lists *)
    assert (G : (fix go (l : list value) : bool := match l with [] => true | x :: t => in_ext x && go t end) l = true
                /\ map readback l = map canon l).
    { induction H as [|x t Hx Ht IH]; [split; reflexivity|].
      cbn [in_class] in C. apply andb_true_iff in C as [C1 C2].
      destruct (Hx C1) as [E1 R1]. destruct (IH C2) as [E2 R2].
      split; [rewrite E1; exact E2|cbn [map]; rewrite R1, R2; reflexivity]. }
    destruct G as [G1 G2]. split; [exact G1|cbn [readback canon]; rewrite G2; reflexivity].
  - (* maps *)
    assert (G : (fix go (m : list (list Z * value)) : bool :=
                   match m with [] => true | (k, x) :: t => str_ok k && in_ext x && negb (key_in k t) && go t end) m = true
                /\ map (fun kx => (fst kx, readback (snd kx))) m = map (fun kx => (fst kx, canon (snd kx))) m).
    { induction H as [|[k x] t Hx Ht IH]; [split; reflexivity|].
      cbn [in_class] in C. apply andb_true_iff in C as [C C4]. apply andb_true_iff in C as [C C3].
      apply andb_true_iff in C as [C1 C2]. cbn [snd] in Hx.
      destruct (Hx C2) as [E1 R1]. destruct (IH C4) as [E2 R2].
      split; [rewrite C1, E1, C3; exact E2|cbn [map fst snd]; rewrite R1, R2; reflexivity]. }
    destruct G as [G1 G2]. split; [exact G1|cbn [readback canon]; rewrite G2; reflexivity].
Qed.

Lemma parse_to_string v : in_class v = true -> parse (to_string v) = POk (canon v).
Proof.
  intros C. destruct (in_class_ext v C) as [E R]. rewrite <- R. apply parse_to_string_ext, E.
Qed.

(* the tree read back is equal to the original (integers by value) *)
Lemma bytes_eqb_refl a : bytes_eqb a a = true.
Proof. now apply bytes_eqb_eq. Qed.

Lemma value_eq_canon v : value_eq v (canon v) = true.
Proof.
  induction v using value_ind2; cbn [canon value_eq int_of]; try reflexivity.
  - apply eqb_reflx.
  - apply Z.eqb_refl.
  - destruct (fits32 z); cbn [int_of]; apply Z.eqb_refl.
  - apply bytes_eqb_refl.
  - apply bytes_eqb_refl.
  - induction H as [|x t Hx Ht IH]; [reflexivity|]. cbn [map]. rewrite Hx. exact IH.
  - induction H as [|[k x] t Hx Ht IH]; [reflexivity|]. cbn [map fst snd] in *.
    rewrite bytes_eqb_refl, Hx. exact IH.
  - apply Z.eqb_refl.
  - apply Z.eqb_refl.
  - induction H as [|x t Hx Ht IH]; [reflexivity|]. cbn [map]. rewrite Hx. exact IH.
Qed.

Lemma parse_to_string_eq v : in_class v = true ->
  exists v', parse (to_string v) = POk v' /\ value_eq v v' = true.
Proof.
  intros C. exists (canon v). split; [now apply parse_to_string|apply value_eq_canon].
Qed.

(* trees whose 64-bit integers do not fit 32 bits come back identical *)
Fixpoint canonical (v : value) : bool :=
  match v with
  | JInt64 z => negb (fits32 z)
  | JList l => forallb canonical l
  | JMap m => forallb (fun kx => canonical (snd kx)) m
  | JArray l => forallb canonical l
  | _ => true
  end.

Lemma canon_canonical v : canonical v = true -> canon v = v.
Proof.
  induction v using value_ind2; cbn [canonical canon]; intros C; try reflexivity.
  - destruct (fits32 z); [discriminate|reflexivity].
  - f_equal. induction H as [|x t Hx Ht IH]; [reflexivity|]. cbn [forallb map] in *.
    apply andb_true_iff in C as [C1 C2]. rewrite Hx, IH; auto.
  - f_equal. induction H as [|[k x] t Hx Ht IH]; [reflexivity|]. cbn [forallb map fst snd] in *.
    apply andb_true_iff in C as [C1 C2]. rewrite Hx, IH; auto.
  - f_equal. induction H as [|x t Hx Ht IH]; [reflexivity|]. cbn [forallb map] in *.
    apply andb_true_iff in C as [C1 C2]. rewrite Hx, IH; auto.
Qed.

(* ---------- the extension, case by case ---------- *)
Lemma value_eq_array_list l l' : value_eq (JArray l) (JList l') = false.
Proof. reflexivity. Qed.

Lemma readback_uint z : in_ext (JUInt z) = true ->
  readback (JUInt z) = (if z <=? 2147483647 then JInt z else JInt64 z) /\
  value_eq (JUInt z) (readback (JUInt z)) = true.
Proof.
  intros C. cbn [in_ext] in C. cbn [readback]. unfold narrow, fits32.
  destruct (z <=? 2147483647) eqn:E.
  - replace (-2147483648 <=? z) with true by lia. cbn [andb]. split; [reflexivity|]. cbn. apply Z.eqb_refl.
  - rewrite andb_false_r. split; [reflexivity|]. cbn. apply Z.eqb_refl.
Qed.

Lemma readback_uint64_small z : 0 <= z <= 9223372036854775807 ->
  readback (JUInt64 z) = narrow z /\ value_eq (JUInt64 z) (readback (JUInt64 z)) = true.
Proof.
  intros R. cbn [readback]. unfold sat63. destruct (9223372036854775807 <? z) eqn:E; [lia|].
  split; [reflexivity|]. unfold narrow. destruct (fits32 z); cbn; apply Z.eqb_refl.
Qed.

Lemma readback_uint64_big z : 9223372036854775807 < z ->
  readback (JUInt64 z) = JInt64 9223372036854775807 /\ value_eq (JUInt64 z) (readback (JUInt64 z)) = false.
Proof.
  intros R. cbn [readback]. unfold sat63. destruct (9223372036854775807 <? z) eqn:E; [|lia].
  split; [reflexivity|]. cbn. lia.
Qed.
