(* Executable model of src/Document/Json.cpp (after the five repairs in fixes/C15), decision by
   decision.  No proofs in this file.

   Text = list of bytes (Z in 1..255) with an implicit NUL terminator: the cursor is the list of
   remaining bytes, [peek] of the empty remainder is the terminator (0) and [adv] beyond it is
   the out-of-bounds read ([OutOfBounds]).  Every `++pos.pos` of the code is an [adv], every
   `*pos.pos` a [peek].  Loops carry fuel; the tokenizer loops get S (length remaining). *)
From Coq Require Import ZArith List Bool Lia.
From Json Require Import JsonSpec.
Import ListNotations.
Local Open Scope Z_scope.

(* ---------- results ---------- *)
Inductive res (A : Type) : Type :=
| Ok (a : A)
| SyntaxErr (line : Z) (at_ : list Z) (msg : nat)    (* syntaxError(pos, msg): pos = (line, remaining bytes) *)
| OutOfBounds
| OutOfFuel.
Arguments Ok {A} a.
Arguments SyntaxErr {A} line at_ msg.
Arguments OutOfBounds {A}.
Arguments OutOfFuel {A}.

Definition bind {A B} (r : res A) (k : A -> res B) : res B :=
  match r with
  | Ok a => k a
  | SyntaxErr l p m => SyntaxErr l p m
  | OutOfBounds => OutOfBounds
  | OutOfFuel => OutOfFuel
  end.

(* list reversal in linear time (List.rev is quadratic); JsonProofsBase.frev_eq : frev l = rev l *)
Definition frev (l : list Z) : list Z := rev_append l [].

Definition peek (r : list Z) : Z := match r with [] => 0 | b :: _ => b end.
Definition adv {A} (r : list Z) (k : list Z -> res A) : res A :=
  match r with [] => OutOfBounds | _ :: t => k t end.

(* error messages of the code, by number (the driver prints the text) *)
Definition E_eof := 1%nat.          (* Unexpected end of file *)
Definition E_hexdigit := 2%nat.     (* Expected hexadecimal digit *)
Definition E_hexnumber := 3%nat.    (* Expected hexadecimal number *)
Definition E_surrogate := 4%nat.    (* Expected UTF-8 surrogate pair *)
Definition E_char := 5%nat.         (* Expected character *)
Definition E_quote := 7%nat.        (* Expected a double quote *)
Definition E_colon := 8%nat.        (* Expected ':' *)
Definition E_comma := 9%nat.        (* Expected ',' *)
Definition E_unexpected := 11%nat.  (* Unexpected character *)

(* ---------- character classes (String::isSpace / isDigit / isHexDigit, C locale) ---------- *)
Definition is_space (c : Z) : bool := ((9 <=? c) && (c <=? 13)) || (c =? 32).
Definition is_digit (c : Z) : bool := (48 <=? c) && (c <=? 57).
Definition is_hex (c : Z) : bool :=
  is_digit c || ((97 <=? c) && (c <=? 102)) || ((65 <=? c) && (c <=? 70)).
Definition hexval (c : Z) : Z :=
  if is_digit c then c - 48 else if (97 <=? c) then c - 87 else c - 55.

(* ---------- skipSpace ---------- *)
Fixpoint skip_space (fuel : nat) (line : Z) (r : list Z) : res (Z * list Z) :=
  match fuel with
  | O => OutOfFuel
  | S f =>
    let c := peek r in
    if c =? 13 then
      adv r (fun r1 => if peek r1 =? 10 then adv r1 (fun r2 => skip_space f (line + 1) r2)
                       else skip_space f (line + 1) r1)
    else if c =? 10 then adv r (fun r1 => skip_space f (line + 1) r1)
    else if is_space c then adv r (fun r1 => skip_space f line r1)
    else Ok (line, r)
  end.

(* ---------- Unicode::append (UTF-8 branch), bytes in reverse order onto acc ---------- *)
Definition utf8_rev (ch : Z) (acc : list Z) : list Z :=
  if ch <? 128 then ch :: acc
  else if ch <? 2048 then
    Z.lor (Z.land ch 63) 128 :: Z.lor (Z.shiftr ch 6) 192 :: acc
  else if ch <? 65536 then
    Z.lor (Z.land ch 63) 128 :: Z.lor (Z.land (Z.shiftr ch 6) 63) 128 :: Z.lor (Z.shiftr ch 12) 224 :: acc
  else if ch <? 1114112 then
    Z.lor (Z.land ch 63) 128 :: Z.lor (Z.land (Z.shiftr ch 6) 63) 128 ::
    Z.lor (Z.land (Z.shiftr ch 12) 63) 128 :: Z.lor (Z.shiftr ch 18) 240 :: acc
  else acc.

(* libc sscanf(k, "%x", &w): white space is skipped, an optional sign and an optional 0x / 0X prefix in front
   of a digit are accepted, then the longest run of hexadecimal digits is the number (strtoul: negated when
   signed, ULONG_MAX when it does not fit 64 bits; then stored into an unsigned int); without a digit
   nothing is assigned and the call does not return 1 (None).  Tied to libc by op xscan of the check. *)
Fixpoint scan_ws (k : list Z) : list Z :=
  match k with
  | c :: t => if is_space c then scan_ws t else k
  | [] => []
  end.
Fixpoint hex_run (k : list Z) (a : Z) (seen : bool) : option Z :=
  match k with
  | c :: t => if is_hex c then hex_run t (16 * a + hexval c) true else if seen then Some a else None
  | [] => if seen then Some a else None
  end.
Definition scan_prefix (k : list Z) : list Z :=
  match k with
  | z :: x :: h :: t => if (z =? 48) && ((x =? 120) || (x =? 88)) && is_hex h then h :: t else k
  | _ => k
  end.
Definition scanf_hex (k : list Z) : option Z :=
  let k1 := scan_ws k in
  let '(neg, k2) := match k1 with
                    | c :: t => if c =? 45 then (true, t) else if c =? 43 then (false, t) else (false, k1)
                    | [] => (false, k1)
                    end in
  match hex_run (scan_prefix k2) 0 false with
  | Some v => Some (if 18446744073709551615 <? v then 4294967295 else (if neg then - v else v) mod 4294967296)
  | None => None
  end.

(* `String k(4);` then four times: the byte at pos.pos is appended to k and stepped over if isHexDigit says
   yes, otherwise "Expected hexadecimal digit" ([k] reversed) *)
Fixpoint hexk (n : nat) (line : Z) (r : list Z) (k : list Z) : res (list Z * list Z) :=
  match n with
  | O => Ok (frev k, r)
  | S m =>
    let c := peek r in
    if is_hex c then adv r (fun r1 => hexk m line r1 (c :: k))
    else SyntaxErr line r E_hexdigit
  end.

(* ... then `if(k.scanf("%x", &w) != 1) return pos.pos -= 4, syntaxError(pos, "Expected hexadecimal number"), false;`
   (Json.cpp:135-136 and 152-153; after four advances pos.pos - 4 is the cursor [r] the digits started at) *)
Definition hex_quad (line : Z) (r : list Z) : res (Z * list Z) :=
  bind (hexk 4 line r []) (fun '(k, r') =>
    match scanf_hex k with
    | Some w => Ok (w, r')
    | None => SyntaxErr line r E_hexnumber
    end).

(* ---------- the string token: body after the opening quote ---------- *)
Fixpoint str_loop (fuel : nat) (line : Z) (r : list Z) (acc : list Z) : res (Z * list Z * list Z) :=
  match fuel with
  | O => OutOfFuel
  | S f =>
    let c := peek r in
    if c =? 0 then SyntaxErr line r E_eof
    else if c =? 13 then
      adv r (fun r1 => if peek r1 =? 10 then adv r1 (fun r2 => str_loop f (line + 1) r2 acc)
                       else str_loop f (line + 1) r1 acc)
    else if c =? 10 then adv r (fun r1 => str_loop f (line + 1) r1 acc)
    else if c =? 92 then
      adv r (fun r1 =>
        let e := peek r1 in
        if (e =? 34) || (e =? 92) || (e =? 47) then adv r1 (fun r2 => str_loop f line r2 (e :: acc))
        else if e =? 98 then adv r1 (fun r2 => str_loop f line r2 (8 :: acc))
        else if e =? 102 then adv r1 (fun r2 => str_loop f line r2 (12 :: acc))
        else if e =? 110 then adv r1 (fun r2 => str_loop f line r2 (10 :: acc))
        else if e =? 114 then adv r1 (fun r2 => str_loop f line r2 (13 :: acc))
        else if e =? 116 then adv r1 (fun r2 => str_loop f line r2 (9 :: acc))
        else if e =? 117 then
          adv r1 (fun r2 =>
            bind (hex_quad line r2) (fun '(w1, r3) =>
              if Z.land w1 64512 =? 55296 then
                (* high surrogate: a second \uXXXX must follow *)
                if negb (peek r3 =? 92) then SyntaxErr line r3 E_surrogate
                else adv r3 (fun r4 =>
                  if negb (peek r4 =? 117) then SyntaxErr line r3 E_surrogate
                  else adv r4 (fun r5 =>
                    bind (hex_quad line r5) (fun '(w2, r6) =>
                      if negb (Z.land w2 64512 =? 56320) then SyntaxErr line r3 E_surrogate  (* pos.pos -= 6 *)
                      else str_loop f line r6
                             (utf8_rev (Z.lor (Z.land w2 1023) (Z.shiftl (Z.land w1 1023) 10) + 65536) acc))))
              else str_loop f line r3 (utf8_rev w1 acc)))
        else if e =? 0 then SyntaxErr line r1 E_eof        (* repair 01: backslash before the terminator *)
        else str_loop f line r1 (92 :: acc))    (* repair 05: unknown escape: the backslash is kept, the next byte is
                                                   read by the loop like any other (a line break is counted) *)
    else if c =? 34 then adv r (fun r1 => Ok (line, r1, frev acc))
    else adv r (fun r1 => str_loop f line r1 (c :: acc))
  end.

(* ---------- literals: String::compare(pos, lit, n) == 0 (stops at the terminator) ---------- *)
Fixpoint cmp_lit (r lit : list Z) {struct lit} : bool :=
  match lit with
  | [] => true
  | c :: lt => match r with
               | [] => false
               | b :: t => if b =? c then cmp_lit t lt else false
               end
  end.
Definition lit_true := [116; 114; 117; 101].
Definition lit_false := [102; 97; 108; 115; 101].
Definition lit_null := [110; 117; 108; 108].

(* ---------- numbers ---------- *)
Fixpoint num_loop (fuel : nat) (r : list Z) (acc : list Z) (isd : bool) : res (list Z * list Z * bool) :=
  match fuel with
  | O => OutOfFuel
  | S f =>
    let c := peek r in
    if (c =? 69) || (c =? 101) || (c =? 45) || (c =? 43) then adv r (fun r1 => num_loop f r1 (c :: acc) isd)
    else if c =? 46 then adv r (fun r1 => num_loop f r1 (c :: acc) true)
    else if is_digit c then adv r (fun r1 => num_loop f r1 (c :: acc) isd)
    else Ok (r, frev acc, isd)
  end.

(* libc atoll on the scanned text: reference decimal reading (optional sign, leading digit run),
   saturating like glibc's strtoll *)
Fixpoint digits_val (l : list Z) (a : Z) : Z :=
  match l with
  | [] => a
  | c :: t => if is_digit c then digits_val t (10 * a + (c - 48)) else a
  end.
Definition int64_min := -9223372036854775808.
Definition int64_max := 9223372036854775807.
Definition clamp64 (z : Z) : Z := if z <? int64_min then int64_min else if int64_max <? z then int64_max else z.
Definition ref_atoll (n : list Z) : Z :=
  match n with
  | [] => 0
  | c :: t => if c =? 45 then clamp64 (- digits_val t 0)
              else if c =? 43 then clamp64 (digits_val t 0)
              else clamp64 (digits_val n 0)
  end.
Definition fits_int32 (z : Z) : bool := (-2147483648 <=? z) && (z <=? 2147483647).
Definition classify_int (z : Z) : value := if fits_int32 z then JInt z else JInt64 z.

(* ---------- readToken ---------- *)
Record pos := mkPos { p_line : Z; p_rest : list Z }.
Definition tok := (Z * value)%type.      (* token.token, token.value *)

Definition is_punct (c : Z) : bool :=
  (c =? 123) || (c =? 125) || (c =? 91) || (c =? 93) || (c =? 44) || (c =? 58).

(* the switch of readToken, after skipSpace has stopped at (l, r) *)
Definition token_at (l : Z) (r : list Z) : res (pos * tok) :=
  let c := peek r in
  if c =? 0 then Ok (mkPos l r, (0, JNull))
  else if is_punct c then adv r (fun r1 => Ok (mkPos l r1, (c, JNull)))
  else if c =? 34 then
    adv r (fun r1 => bind (str_loop (S (length r1)) l r1 [])
                          (fun '(l', r', s) => Ok (mkPos l' r', (34, JString s))))
  else if c =? 116 then
    if cmp_lit r lit_true then Ok (mkPos l (skipn 4 r), (116, JBool true)) else SyntaxErr l r E_char
  else if c =? 102 then
    if cmp_lit r lit_false then Ok (mkPos l (skipn 5 r), (102, JBool false)) else SyntaxErr l r E_char
  else if c =? 110 then
    if cmp_lit r lit_null then Ok (mkPos l (skipn 4 r), (110, JNull)) else SyntaxErr l r E_char
  else if (c =? 45) || is_digit c then
    bind (num_loop (S (length r)) r [] false) (fun '(r', n, isd) =>
      Ok (mkPos l r', (35, if isd then JDouble n else classify_int (ref_atoll n))))
  else SyntaxErr l r E_char.

Definition read_token (p : pos) : res (pos * tok) :=
  bind (skip_space (S (length (p_rest p))) (p_line p) (p_rest p)) (fun '(l, r) => token_at l r).

(* ---------- HashMap<String,Variant>::append: existing key keeps its place, value replaced ---------- *)
Fixpoint map_upsert (k : list Z) (v : value) (m : list (list Z * value)) : list (list Z * value) :=
  match m with
  | [] => [(k, v)]
  | (k', v') :: t => if bytes_eqb k k' then (k', v) :: t else (k', v') :: map_upsert k v t
  end.

Definition key_of (v : value) : list Z := match v with JString s => s | _ => [] end.

(* ---------- parseValue / parseArray / parseObject ---------- *)
Definition is_scalar_tok (k : Z) : bool := (k =? 34) || (k =? 35) || (k =? 116) || (k =? 102) || (k =? 110).

Fixpoint parse_value (fuel : nat) (p : pos) (t : tok) : res (value * pos * tok) :=
  match fuel with
  | O => OutOfFuel
  | S f =>
    let k := fst t in
    if is_scalar_tok k then bind (read_token p) (fun '(p', t') => Ok (snd t, p', t'))
    else if k =? 91 then bind (read_token p) (fun '(p1, t1) => arr_loop f p1 t1 [])
    else if k =? 123 then bind (read_token p) (fun '(p1, t1) => obj_loop f p1 t1 [])
    else SyntaxErr (p_line p) (p_rest p) E_unexpected
  end
with arr_loop (fuel : nat) (p : pos) (t : tok) (acc : list value) : res (value * pos * tok) :=
  match fuel with
  | O => OutOfFuel
  | S f =>
    if fst t =? 93 then bind (read_token p) (fun '(p', t') => Ok (JList (rev acc), p', t'))
    else bind (parse_value f p t) (fun '(v, p1, t1) =>
      if fst t1 =? 93 then bind (read_token p1) (fun '(p', t') => Ok (JList (rev (v :: acc)), p', t'))
      else if negb (fst t1 =? 44) then SyntaxErr (p_line p1) (p_rest p1) E_comma
      else bind (read_token p1) (fun '(p2, t2) => arr_loop f p2 t2 (v :: acc)))
  end
with obj_loop (fuel : nat) (p : pos) (t : tok) (acc : list (list Z * value)) : res (value * pos * tok) :=
  match fuel with
  | O => OutOfFuel
  | S f =>
    if fst t =? 125 then bind (read_token p) (fun '(p', t') => Ok (JMap acc, p', t'))
    else if negb (fst t =? 34) then SyntaxErr (p_line p) (p_rest p) E_quote
    else
      let key := key_of (snd t) in
      bind (read_token p) (fun '(p1, t1) =>
        if negb (fst t1 =? 58) then SyntaxErr (p_line p1) (p_rest p1) E_colon
        else bind (read_token p1) (fun '(p2, t2) =>
          bind (parse_value f p2 t2) (fun '(v, p3, t3) =>
            let acc' := map_upsert key v acc in
            if fst t3 =? 125 then bind (read_token p3) (fun '(p', t') => Ok (JMap acc', p', t'))
            else if negb (fst t3 =? 44) then SyntaxErr (p_line p3) (p_rest p3) E_comma
            else bind (read_token p3) (fun '(p4, t4) => obj_loop f p4 t4 acc'))))
  end.

(* ---------- syntaxError: the column ---------- *)
Definition is_break (c : Z) : bool := (c =? 10) || (c =? 13).
Fixpoint back_run (revpre : list Z) : nat :=
  match revpre with
  | [] => O
  | c :: t => if is_break c then O else S (back_run t)
  end.
Definition column (s at_ : list Z) : Z :=
  1 + Z.of_nat (back_run (frev (firstn (length s - length at_) s))).

Inductive parse_result :=
| POk (v : value)
| PErr (line col : Z) (msg : nat)
| POutOfBounds
| POutOfFuel.

Definition parse_fuel (s : list Z) : nat := 2 * length s + 3.

Definition parse (s : list Z) : parse_result :=
  match bind (read_token (mkPos 1 s)) (fun '(p, t) => parse_value (parse_fuel s) p t) with
  | Ok (v, _, _) => POk v
  | SyntaxErr l at_ m => PErr l (column s at_) m
  | OutOfBounds => POutOfBounds
  | OutOfFuel => POutOfFuel
  end.

(* ---------- the Parser object and the target Variant across calls ----------
   Json::Parser keeps a Private object alive between calls: pos.line and the three error fields survive
   a call, `start`, `pos.pos` and `token` are assigned before they are read.  The target of parse is
   a Variant the caller owns: parseArray / parseObject obtain their container by result.toList() /
   result.toMap(), which *keep* what a list / map target already holds; parseValue assigns scalars. *)
Record parser := mkParser { o_line : Z; o_err : option (Z * Z * nat) }.   (* pos.line; errorLine, errorColumn, errorString *)

Definition list_of (v : value) : list value := match v with JList l => l | _ => [] end.            (* Variant::toList() *)
Definition map_of (v : value) : list (list Z * value) := match v with JMap m => m | _ => [] end.   (* Variant::toMap() *)

(* parseValue(result) on a target that may hold something (nested targets are always fresh Variants) *)
Definition parse_value_into (tgt : value) (fuel : nat) (p : pos) (t : tok) : res (value * pos * tok) :=
  match fuel with
  | O => OutOfFuel
  | S f =>
    let k := fst t in
    if is_scalar_tok k then bind (read_token p) (fun '(p', t') => Ok (snd t, p', t'))
    else if k =? 91 then bind (read_token p) (fun '(p1, t1) => arr_loop f p1 t1 (rev (list_of tgt)))
    else if k =? 123 then bind (read_token p) (fun '(p1, t1) => obj_loop f p1 t1 (map_of tgt))
    else SyntaxErr (p_line p) (p_rest p) E_unexpected
  end.

(* Json::Private::parse(data, result) on an object with history [o] and a target holding [tgt];
   [clear] = the statement `result.clear();` of repair 06 is present *)
Definition parse_obj (clear : bool) (o : parser) (tgt : value) (s : list Z) : parser * parse_result :=
  let o1 := mkParser 1 (o_err o) in                         (* start = data; pos.line = 1; pos.pos = start; *)
  let tgt1 := if clear then JNull else tgt in               (* result.clear();   (repair 06) *)
  match bind (read_token (mkPos (o_line o1) s)) (fun '(p, t) => parse_value_into tgt1 (parse_fuel s) p t) with
  | Ok (v, p, _) => (mkParser (p_line p) (o_err o1), POk v)          (* the error fields keep their old content *)
  | SyntaxErr l at_ m => (mkParser l (Some (l, column s at_, m)), PErr l (column s at_) m)
  | OutOfBounds => (o1, POutOfBounds)
  | OutOfFuel => (o1, POutOfFuel)
  end.

Definition parse_with (o : parser) (tgt : value) (s : list Z) : parser * parse_result := parse_obj true o tgt s.

(* the static wrappers Json::parse(data, result): a fresh Private per call (its pos.line is indeterminate
   before the assignment: any number) *)
Definition static_parse (garbage : Z) (tgt : value) (s : list Z) : parse_result :=
  snd (parse_with (mkParser garbage None) tgt s).

(* ---------- serialiser ---------- *)
(* printf("%d"/"%lld"): reference decimal printing *)
Fixpoint dec_digits (fuel : nat) (n : Z) (acc : list Z) : list Z :=
  match fuel with
  | O => acc
  | S f => if n <? 10 then (48 + n) :: acc else dec_digits f (n / 10) ((48 + n mod 10) :: acc)
  end.
Definition print_dec (z : Z) : list Z :=
  if z <? 0 then 45 :: dec_digits (S (Z.to_nat (Z.log2 (- z)))) (- z) []
  else dec_digits (S (Z.to_nat (Z.log2 z))) z [].

(* appendEscapedString: strpbrk stops at an embedded NUL, the rest is then copied raw *)
Fixpoint escape (s : list Z) : list Z :=
  match s with
  | [] => []
  | c :: t =>
    if c =? 0 then s
    else if c =? 34 then 92 :: 34 :: escape t
    else if c =? 92 then 92 :: 92 :: escape t
    else if c =? 10 then 92 :: 110 :: escape t     (* repair 02 *)
    else if c =? 13 then 92 :: 114 :: escape t     (* repair 02 *)
    else c :: escape t
  end.
Definition esc_string (s : list Z) : list Z := 34 :: escape s ++ [34].

(* the element / member loops of appendVariant: indentation, the item, ",\n" between items *)
Section EmitItems.
  Variable E : value -> list Z.        (* appendVariant(item, newIndentation, result) *)
  Variable ni : list Z.                (* newIndentation *)
  Fixpoint emit_items (l : list value) : list Z :=
    match l with
    | [] => []
    | x :: t => ni ++ E x ++ match t with [] => [] | _ => [44; 10] ++ emit_items t end
    end.
  Fixpoint emit_members (m : list (list Z * value)) : list Z :=
    match m with
    | [] => []
    | kx :: t => ni ++ esc_string (fst kx) ++ [58; 32] ++ E (snd kx) ++
                 match t with [] => [] | _ => [44; 10] ++ emit_members t end
    end.
End EmitItems.

Fixpoint emit (v : value) (ind : list Z) : list Z :=
  match v with
  | JNull => lit_null
  | JBool b => if b then lit_true else lit_false
  | JInt z => print_dec z
  | JInt64 z => print_dec z
  | JDouble t => t
  | JString s => esc_string s
  | JList l =>
    match l with
    | [] => [91; 93]
    | _ => [91; 10] ++ emit_items (fun x => emit x (ind ++ [9])) (ind ++ [9]) l ++ [10] ++ ind ++ [93]
    end
  | JMap m =>
    match m with
    | [] => [123; 125]
    | _ => [123; 10] ++ emit_members (fun x => emit x (ind ++ [9])) (ind ++ [9]) m ++ [10] ++ ind ++ [125]
    end
  | JUInt z => print_dec z            (* data.toString() = String::fromUInt:   printf("%u")   *)
  | JUInt64 z => print_dec z          (* data.toString() = String::fromUInt64: printf("%llu") *)
  | JArray l =>                       (* case Variant::arrayType (Json.cpp:476-497): the text of the list case *)
    match l with
    | [] => [91; 93]
    | _ => [91; 10] ++ emit_items (fun x => emit x (ind ++ [9])) (ind ++ [9]) l ++ [10] ++ ind ++ [93]
    end
  end.

Definition to_string (v : value) : list Z := emit v [] ++ [10].

(* ---------- the text of a C string inside a buffer: bytes before the first NUL ---------- *)
Fixpoint cstr (s : list Z) : list Z :=
  match s with
  | [] => []
  | c :: t => if c =? 0 then [] else c :: cstr t
  end.

(* ---------- stripComments (the state machine as written, after repairs 03 and 04) ---------- *)
(* String::findOneOf(src, set) = strpbrk: the remainder from the first byte in the set, or None *)
Fixpoint find_one_of (set : list Z) (r : list Z) : option (list Z) :=
  match r with
  | [] => None
  | c :: t => if existsb (Z.eqb c) set then Some r else find_one_of set t
  end.

(* the copy loop of a string literal, entered after the opening quote has been copied;
   returns the remainder after the literal and the output (reversed) *)
Fixpoint strip_string (r : list Z) (out : list Z) : list Z * list Z :=
  match r with
  | [] => ([], out)
  | c :: t =>
    if c =? 92 then
      match t with
      | [] => strip_string t (c :: out)                  (* src[1] == 0: plain copy of the backslash *)
      | e :: t' => strip_string t' (e :: c :: out)       (* repair 04: copy the escaped byte, stay in the literal *)
      end
    else if c =? 34 then (t, c :: out)
    else strip_string t (c :: out)
  end.

(* inside a block comment, after the opening two bytes *)
Fixpoint strip_block (fuel : nat) (r : list Z) (out : list Z) : option (list Z) * list Z :=
  match fuel with
  | O => (None, out)
  | S f =>
    match find_one_of [13; 10; 42] r with
    | None => (None, out)                                 (* goto done *)
    | Some [] => (None, out)
    | Some (c :: t) =>
      if (c =? 42) && (peek t =? 47) then (Some (tl t), out)
      else if c =? 42 then strip_block f t out            (* repair 03: a lone star is not copied *)
      else strip_block f t (c :: out)
    end
  end.

Fixpoint strip_main (fuel : nat) (r : list Z) (out : list Z) : list Z :=
  match fuel with
  | O => out
  | S f =>
    match r with
    | [] => out
    | c :: t =>
      if (c =? 47) && (peek t =? 47) then
        match find_one_of [13; 10] r with
        | Some e => strip_main f e out
        | None => out
        end
      else if (c =? 47) && (peek t =? 42) then
        match strip_block (S (length t)) (tl t) out with
        | (Some r', out') => strip_main f r' out'
        | (None, out') => out'
        end
      else if negb (c =? 34) then strip_main f t (c :: out)
      else let '(r', out') := strip_string t (c :: out) in strip_main f r' out'
    end
  end.

(* `const char* src = data` is read as a C string: the machine stops at the first 0 byte of the String
   (Json.cpp:524 `if (!*src) break;`, strpbrk), whatever data.length() says *)
Definition strip_comments (s : list Z) : list Z := frev (strip_main (S (length s)) (cstr s) []).

(* ---------- stripComments once more, with every memory access checked ----------
   src: r = the bytes before the terminator that are still ahead; src[k] is inside the buffer iff
   k <= length r (index length r is the terminator).  dest: `String result(data.length())` owns
   cap + 1 bytes (cap = data.length()); [out] = the bytes written so far (reversed) and w their number, so
   `*(dest++) = b` writes index w.  Anything else is OutOfBounds. *)
(* *src: the byte at the cursor (the terminator when nothing is left) is always inside the buffer *)
Definition rd0 {A} (r : list Z) (f : Z -> res A) : res A := f (peek r).
(* src[1]: inside the buffer iff the byte at the cursor is not the terminator *)
Definition rd1 {A} (r : list Z) (f : Z -> res A) : res A :=
  match r with [] => OutOfBounds | _ :: t => f (peek t) end.
(* `*(dest++) = b` with w bytes written so far: index w must be one of the cap + 1 bytes *)
Definition wr {A} (cap w : Z) (out : list Z) (b : Z) (f : Z -> list Z -> res A) : res A :=
  if w <=? cap then f (w + 1) (b :: out) else OutOfBounds.

(* the copy loop of a string literal (entered after the opening quote has been copied) *)
Fixpoint strip_string_chk (cap w : Z) (r : list Z) (out : list Z) : res (list Z * Z * list Z) :=
  match r with
  | [] => rd0 r (fun _ => Ok ([], w, out))                 (* *src == 0: break *)
  | c :: t =>
    rd0 r (fun c0 =>
      if c0 =? 92 then
        rd1 r (fun e =>                                    (* src[1] *)
          match t with
          | [] => wr cap w out c (fun w1 out1 => strip_string_chk cap w1 t out1)
          | e' :: t' => wr cap w out c (fun w1 out1 => wr cap w1 out1 e' (fun w2 out2 => strip_string_chk cap w2 t' out2))
          end)
      else if c0 =? 34 then wr cap w out c (fun w1 out1 => Ok (t, w1, out1))
      else wr cap w out c (fun w1 out1 => strip_string_chk cap w1 t out1))
  end.

Fixpoint strip_block_chk (cap : Z) (fuel : nat) (w : Z) (r : list Z) (out : list Z) : res (option (list Z) * Z * list Z) :=
  match fuel with
  | O => OutOfFuel
  | S f =>
    match find_one_of [13; 10; 42] r with                  (* strpbrk stops at the terminator *)
    | None => Ok (None, w, out)
    | Some [] => Ok (None, w, out)
    | Some (c :: t) =>
      rd0 (c :: t) (fun _ =>
        if c =? 42 then
          rd1 (c :: t) (fun d =>                           (* end[1] *)
            if d =? 47 then Ok (Some (tl t), w, out)
            else strip_block_chk cap f w t out)
        else wr cap w out c (fun w1 out1 => strip_block_chk cap f w1 t out1))
    end
  end.

Fixpoint strip_main_chk (cap : Z) (fuel : nat) (w : Z) (r : list Z) (out : list Z) : res (Z * list Z) :=
  match fuel with
  | O => OutOfFuel
  | S f =>
    rd0 r (fun c =>
      match r with
      | [] => Ok (w, out)
      | _ :: t =>
        if c =? 47 then
          rd1 r (fun d =>                                  (* src[1] *)
            if d =? 47 then
              match find_one_of [13; 10] r with
              | Some e => strip_main_chk cap f w e out
              | None => Ok (w, out)
              end
            else if d =? 42 then
              match t with
              | [] => OutOfBounds                          (* src += 2 would leave the buffer: d = '*' excludes it *)
              | _ :: t2 =>
                bind (strip_block_chk cap (S (length t)) w t2 out) (fun '(r', w', out') =>
                  match r' with
                  | Some r2 => strip_main_chk cap f w' r2 out'
                  | None => Ok (w', out')
                  end)
              end
            else wr cap w out c (fun w1 out1 => strip_main_chk cap f w1 t out1))
        else if negb (c =? 34) then wr cap w out c (fun w1 out1 => strip_main_chk cap f w1 t out1)
        else wr cap w out c (fun w1 out1 =>
               bind (strip_string_chk cap w1 t out1) (fun '(r', w', out') => strip_main_chk cap f w' r' out'))
      end)
  end.

(* `*dest = 0` is the last write; then resize(dest - destBuffer) *)
Definition strip_comments_chk (s : list Z) : res (list Z) :=
  let cap := Z.of_nat (length s) in
  bind (strip_main_chk cap (S (length s)) 0 (cstr s) [])
       (fun '(w, out) => wr cap w out 0 (fun _ _ => Ok (frev out))).
