(* Equality of trees (JsonSpec.value_eq: integers by value, everything else structurally) is identity of
   the trees with the width and signedness of their integers wiped out (JsonSpec.blind). *)
From Coq Require Import ZArith List Bool Lia.
Require Import ZifyBool.
From Json Require Import JsonSpec JsonModel JsonProofsBase JsonProofsTotal JsonProofsRound.
Import ListNotations.
Local Open Scope Z_scope.

Lemma list_case (l : list value) :
  Forall (fun x => forall w, value_eq x w = true <-> blind x = blind w) l ->
  forall l',
    (fix go (x y : list value) : bool :=
       match x, y with
       | [], [] => true
       | a :: x', b :: y' => value_eq a b && go x' y'
       | _, _ => false
       end) l l' = true <-> map blind l = map blind l'.
Proof.
  induction 1 as [|x t Hx _ IH]; intros [|y t']; cbn [map]; split; intros E; try reflexivity; try discriminate.
  - apply andb_true_iff in E as [E1 E2]. apply Hx in E1. apply IH in E2. rewrite E1, E2. reflexivity.
  - injection E as E1 E2. apply andb_true_iff. split; [apply Hx; exact E1|apply IH; exact E2].
Qed.

Lemma map_case (m : list (list Z * value)) :
  Forall (fun kx => forall w, value_eq (snd kx) w = true <-> blind (snd kx) = blind w) m ->
  forall m',
    (fix go (x y : list (list Z * value)) : bool :=
       match x, y with
       | [], [] => true
       | (ka, a) :: x', (kb, b) :: y' => bytes_eqb ka kb && value_eq a b && go x' y'
       | _, _ => false
       end) m m' = true
    <-> map (fun kx => (fst kx, blind (snd kx))) m = map (fun kx => (fst kx, blind (snd kx))) m'.
Proof.
  induction 1 as [|[ka a] t Hx _ IH]; intros [|[kb b] t']; cbn [map fst snd] in *; split; intros E;
    try reflexivity; try discriminate.
  - apply andb_true_iff in E as [E12 E3]. apply andb_true_iff in E12 as [E1 E2].
    apply bytes_eqb_eq in E1. apply Hx in E2. apply IH in E3. rewrite E1, E2, E3. reflexivity.
  - injection E as E1 E2 E3. rewrite !andb_true_iff. repeat split.
    + apply bytes_eqb_eq. exact E1.
    + apply Hx. exact E2.
    + apply IH. exact E3.
Qed.

Lemma value_eq_iff_blind v : forall w, value_eq v w = true <-> blind v = blind w.
Proof.
  induction v using value_ind2; intros w.
  - destruct w; cbn [value_eq blind]; split; intros E; try reflexivity; discriminate.
  - destruct w; cbn [value_eq blind]; split; intros E; try discriminate.
    + apply eqb_prop in E. subst. reflexivity.
    + injection E as ->. apply eqb_reflx.
  - destruct w; cbn [value_eq blind int_of]; split; intros E; try discriminate;
      try (apply Z.eqb_eq in E; subst; reflexivity); injection E as ->; apply Z.eqb_refl.
  - destruct w; cbn [value_eq blind int_of]; split; intros E; try discriminate;
      try (apply Z.eqb_eq in E; subst; reflexivity); injection E as ->; apply Z.eqb_refl.
  - destruct w; cbn [value_eq blind]; split; intros E; try discriminate.
    + apply bytes_eqb_eq in E. subst. reflexivity.
    + injection E as ->. apply bytes_eqb_refl.
  - destruct w; cbn [value_eq blind]; split; intros E; try discriminate.
    + apply bytes_eqb_eq in E. subst. reflexivity.
    + injection E as ->. apply bytes_eqb_refl.
  - destruct w as [| | | | | |l'| | | |]; cbn [value_eq blind]; try (split; intros E; discriminate).
    pose proof (list_case l H l') as G. split; intros E.
    + f_equal. apply G. exact E.
    + apply G. injection E as E. exact E.
  - destruct w as [| | | | | | |m'| | |]; cbn [value_eq blind]; try (split; intros E; discriminate).
    pose proof (map_case m H m') as G. split; intros E.
    + f_equal. apply G. exact E.
    + apply G. injection E as E. exact E.
  - destruct w; cbn [value_eq blind int_of]; split; intros E; try discriminate;
      try (apply Z.eqb_eq in E; subst; reflexivity); injection E as ->; apply Z.eqb_refl.
  - destruct w; cbn [value_eq blind int_of]; split; intros E; try discriminate;
      try (apply Z.eqb_eq in E; subst; reflexivity); injection E as ->; apply Z.eqb_refl.
  - destruct w as [| | | | | | | | | |l']; cbn [value_eq blind]; try (split; intros E; discriminate).
    pose proof (list_case l H l') as G. split; intros E.
    + f_equal. apply G. exact E.
    + apply G. injection E as E. exact E.
Qed.

(* what the check compares: the tree read back against canon v, both wiped *)
Lemma equal_tree_iff_blind_canon v w : value_eq v w = true <-> blind (canon v) = blind w.
Proof.
  rewrite value_eq_iff_blind.
  assert (B : blind (canon v) = blind v).
  { symmetry. apply value_eq_iff_blind. apply value_eq_canon. }
  rewrite B. reflexivity.
Qed.
