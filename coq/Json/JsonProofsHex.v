(* The two `k.scanf("%x", &w) != 1` tests of readToken (Json.cpp:135-136, 152-153).
   [k] holds four bytes each accepted by String::isHexDigit, so the libc conversion (JsonModel.scanf_hex:
   white space, sign, 0x prefix, digit run) always finds a number: the two "Expected hexadecimal number"
   returns are dead code.  The rest of the development works with the positional reader [hexn]. *)
From Coq Require Import ZArith List Bool Lia.
Require Import ZifyBool.
From Json Require Import JsonSpec JsonModel JsonProofsBase.
Import ListNotations.
Local Open Scope Z_scope.

(* four guarded hex digits read as a positional number (what the model used before scanf was modelled) *)
Fixpoint hexn (n : nat) (line : Z) (r : list Z) (w : Z) : res (Z * list Z) :=
  match n with
  | O => Ok (w, r)
  | S m =>
    let c := peek r in
    if is_hex c then adv r (fun r1 => hexn m line r1 (16 * w + hexval c))
    else SyntaxErr line r E_hexdigit
  end.

Definition hexstep (a c : Z) : Z := 16 * a + hexval c.
Definition all_hex (ds : list Z) : Prop := Forall (fun c => is_hex c = true) ds.

Lemma hexval_range c : is_hex c = true -> 0 <= hexval c < 16.
Proof.
  unfold is_hex, hexval, is_digit. intros H.
  destruct ((48 <=? c) && (c <=? 57)) eqn:?; [lia|]. destruct (97 <=? c) eqn:?; lia.
Qed.

Lemma hex_not_space c : is_hex c = true -> is_space c = false /\ c <> 45 /\ c <> 43 /\ c <> 120 /\ c <> 88.
Proof. unfold is_hex, is_digit, is_space. lia. Qed.

Lemma hex_run_all ds : forall a, all_hex ds -> hex_run ds a true = Some (fold_left hexstep ds a).
Proof.
  induction ds as [|c t IH]; intros a H; [reflexivity|].
  inversion H as [|? ? Hc Ht]; subst. cbn [hex_run fold_left]. rewrite Hc. apply IH, Ht.
Qed.

(* sscanf("%x") on a non-empty run of hexadecimal digits whose value fits 32 bits: the positional value *)
Lemma scanf_hex_digits ds : all_hex ds -> ds <> [] -> 0 <= fold_left hexstep ds 0 < 4294967296 ->
  scanf_hex ds = Some (fold_left hexstep ds 0).
Proof.
  intros H NE R. destruct ds as [|c t]; [congruence|].
  inversion H as [|? ? Hc Ht]; subst.
  destruct (hex_not_space c Hc) as (S1 & S2 & S3 & _).
  unfold scanf_hex. cbn [scan_ws]. rewrite S1.
  destruct (c =? 45) eqn:E1; [lia|]. destruct (c =? 43) eqn:E2; [lia|].
  assert (P : scan_prefix (c :: t) = c :: t).
  { unfold scan_prefix. destruct t as [|x [|h t']]; try reflexivity.
    inversion Ht as [|? ? Hx _]; subst. destruct (hex_not_space x Hx) as (_ & _ & _ & X1 & X2).
    destruct ((c =? 48) && ((x =? 120) || (x =? 88)) && is_hex h) eqn:E; [lia|reflexivity]. }
  rewrite P. cbn [hex_run]. rewrite Hc.
  rewrite hex_run_all by exact Ht. cbn [fold_left] in R.
  change (16 * 0 + hexval c) with (hexstep 0 c).
  destruct (18446744073709551615 <? fold_left hexstep t (hexstep 0 c)) eqn:E; [lia|].
  rewrite Z.mod_small by exact R. reflexivity.
Qed.

Lemma hex4_scan k : length k = 4%nat -> all_hex k -> scanf_hex k = Some (fold_left hexstep k 0).
Proof.
  intros L H. destruct k as [|a [|b [|c [|d [|e t]]]]]; try discriminate. clear L.
  apply scanf_hex_digits; [exact H|discriminate|].
  inversion H as [|? ? Ha H1]; subst. inversion H1 as [|? ? Hb H2]; subst.
  inversion H2 as [|? ? Hc H3]; subst. inversion H3 as [|? ? Hd _]; subst.
  apply hexval_range in Ha, Hb, Hc, Hd. cbn [fold_left]. unfold hexstep. lia.
Qed.

(* the digit collector and the positional reader walk the text in the same way *)
Lemma hexk_hexn n : forall l r k w,
  match hexk n l r k with
  | Ok (k', r') => exists ds, length ds = n /\ all_hex ds /\ k' = rev k ++ ds /\
                              hexn n l r w = Ok (fold_left hexstep ds w, r')
  | SyntaxErr a b c => hexn n l r w = SyntaxErr a b c
  | OutOfBounds => hexn n l r w = OutOfBounds
  | OutOfFuel => False
  end.
Proof.
  induction n as [|n IH]; intros l r k w.
  - cbn [hexk hexn]. exists []. rewrite frev_eq, app_nil_r. repeat split. constructor.
  - cbn [hexk hexn]. destruct (is_hex (peek r)) eqn:Eh; [|reflexivity].
    destruct r as [|c t]; [cbn in Eh; discriminate|]. cbn [peek adv] in *.
    specialize (IH l t (c :: k) (16 * w + hexval c)).
    destruct (hexk n l t (c :: k)) as [[k' r']| | |]; try exact IH.
    destruct IH as (ds & L & A & -> & E). exists (c :: ds). cbn [length fold_left rev].
    split; [lia|]. split; [constructor; assumption|]. split; [rewrite <- app_assoc; reflexivity|exact E].
Qed.

Lemma hex_quad_eq l r : hex_quad l r = hexn 4 l r 0.
Proof.
  unfold hex_quad. pose proof (hexk_hexn 4 l r [] 0) as H.
  destruct (hexk 4 l r []) as [[k' r']| | |]; cbn [bind]; try (symmetry; exact H); [|contradiction].
  destruct H as (ds & L & A & -> & ->). cbn [rev app]. rewrite hex4_scan by assumption. reflexivity.
Qed.

(* ---------- "Expected hexadecimal number" is never reported ---------- *)
Definition nohex {A} (x : res A) : Prop :=
  match x with SyntaxErr _ _ m => m <> E_hexnumber | _ => True end.

Lemma nohex_bind {A B} (x : res A) (k : A -> res B) :
  nohex x -> (forall a, nohex (k a)) -> nohex (bind x k).
Proof. destruct x; cbn; auto. Qed.

Ltac nh_step :=
  match goal with
  | |- nohex (if ?b then _ else _) => destruct b
  | |- nohex (adv ?r _) => destruct r; cbn [adv peek]
  | |- nohex (Ok _) => exact I
  | |- nohex (SyntaxErr _ _ _) => cbn; discriminate
  | |- nohex OutOfBounds => exact I
  | |- nohex OutOfFuel => exact I
  end.

Lemma hexn_nohex n : forall l r w, nohex (hexn n l r w).
Proof.
  induction n as [|n IH]; intros l r w; cbn [hexn]; [exact I|].
  repeat first [apply IH | nh_step].
Qed.

Lemma hex_quad_nohex l r : nohex (hex_quad l r).
Proof. rewrite hex_quad_eq. apply hexn_nohex. Qed.

Lemma skip_space_nohex f : forall l r, nohex (skip_space f l r).
Proof.
  induction f as [|f IH]; intros l r; cbn [skip_space]; [exact I|].
  repeat first [apply IH | nh_step].
Qed.

Lemma str_loop_nohex f : forall l r acc, nohex (str_loop f l r acc).
Proof.
  induction f as [|f IH]; intros l r acc; cbn [str_loop]; [exact I|].
  repeat first [apply IH | nh_step
               | apply nohex_bind; [apply hex_quad_nohex|intros [? ?]]].
Qed.

Lemma num_loop_nohex f : forall r acc isd, nohex (num_loop f r acc isd).
Proof.
  induction f as [|f IH]; intros r acc isd; cbn [num_loop]; [exact I|].
  repeat first [apply IH | nh_step].
Qed.

Lemma token_at_nohex l r : nohex (token_at l r).
Proof.
  unfold token_at.
  repeat first [nh_step
               | apply nohex_bind; [apply str_loop_nohex|intros [[? ?] ?]]
               | apply nohex_bind; [apply num_loop_nohex|intros [[? ?] ?]]].
Qed.

Lemma read_token_nohex p : nohex (read_token p).
Proof.
  unfold read_token. apply nohex_bind; [apply skip_space_nohex|]. intros [l r]. apply token_at_nohex.
Qed.

Ltac nh_tok := apply nohex_bind; [apply read_token_nohex|intros [? ?]].

Lemma parser_nohex f :
  (forall p t, nohex (parse_value f p t)) /\
  (forall p t acc, nohex (arr_loop f p t acc)) /\
  (forall p t acc, nohex (obj_loop f p t acc)).
Proof.
  induction f as [|f (IHv & IHa & IHo)]; [repeat split; intros; exact I|].
  split; [|split].
  - intros p t. cbn [parse_value].
    repeat first [apply IHa | apply IHo | nh_step | nh_tok].
  - intros p t acc. cbn [arr_loop].
    repeat first [apply IHa | nh_step | nh_tok | apply nohex_bind; [apply IHv|intros [[? ?] ?]]].
  - intros p t acc. cbn [obj_loop].
    repeat first [apply IHo | nh_step | nh_tok | apply nohex_bind; [apply IHv|intros [[? ?] ?]]].
Qed.

Lemma parse_never_hexnumber s l c : parse s <> PErr l c E_hexnumber.
Proof.
  unfold parse.
  assert (N : nohex (bind (read_token (mkPos 1 s)) (fun '(p, t) => parse_value (parse_fuel s) p t))).
  { nh_tok. apply (proj1 (parser_nohex _)). }
  destruct (bind _ _) as [[[v p] t]|le at_ m| |]; try discriminate.
  cbn in N. intros H. injection H as _ _ H. contradiction.
Qed.
