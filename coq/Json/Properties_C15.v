(* Property C15 - only statements closed by `exact`, each followed by Print Assumptions, and
   non-vacuity Examples.

   Clauses of the property  ->  theorems (all about JsonModel, the mirror of src/Document/Json.cpp)

   "Json::parse terminates for every NUL-terminated byte string"
        -> parse_terminates          (explicit fuel 2*length+3 for the recursive descent, length+1 for
                                      every tokenizer loop; never exhausted; no depth hypothesis needed
                                      in the model - the C++ stack at depth 1000 is exercised by the check)
   "reads nothing beyond the terminator"
        -> parse_reads_in_bounds     (every `++pos.pos` is a checked advance; none steps past the terminator)
   "either yields a value or reports failure with a line and column that lie inside the text"
        -> parse_error_position_inside_text (+ position_inside_range, line_counts_breaks_before_offset,
                                      position_insideb_sound for the executable form used on the
                                      implementation's answers)
   "parsing the text produced by Json::toString yields an equal tree" (null, booleans, 32/64-bit
    integers, NUL-free strings, lists, string-keyed maps)
        -> parse_toString_equal_tree (the clause as the text says it: an EQUAL tree - integers by value, as
           Variant::operator== compares them; a JSON text carries no width, and the code itself returns intType
           for int64 5: ex_int64_small), equal_tree_is_identity_up_to_integer_width (value_eq v w iff the trees
           with the width of their integers wiped out are identical - the comparison the check makes between the
           implementation's tree and canon v), parse_toString_roundtrip (the precise statement about the MODEL:
           the tree read back is canon v), parse_toString_identical_when_canonical
           layers: unescape_escape_inverse, atoll_printf_inverse
   "Json::stripComments removes exactly the // and /* */ comments outside string literals and leaves
    every other byte and every line break unchanged"
        -> stripComments_is_reference (+ stripComments_keeps_every_line_break,
                                         stripComments_identity_without_slash); the text of a String is
           what precedes its first 0 byte (cstr), as for the code which reads the String as a C string
        -> stripComments_is_the_comment_grammar (the same said as a grammar: a text cut into plain bytes,
           string literals, line comments up to the line break, block comments - JsonSpec.strips; o is the
           text without its comments IFF stripComments returns o), from stripComments_follows_comment_grammar
           (soundness), comment_grammar_cuts_every_text (completeness: every text has a cut, unterminated
           literals and comments included) and comment_grammar_is_deterministic
        -> stripComments_memory_safe, stripComments_never_longer (the raw `*(dest++)` writes into
           `String result(data.length())` and the reads src[1] / end[1] stay inside their buffers)

   One Parser object for several texts, a target that already holds a value, the static wrappers
   (the property speaks of Json::parse as a function of the text):
        -> parser_reuse_is_fresh_parse, parser_history_is_fresh_parses, second_parse_error_inside_second_text,
           parser_error_fields, static_parse_is_parse; parse_without_clear_keeps_target_content records
           what the code did before repair 06 (`result.clear()`)

   Beyond the property text (the tokenizer layer: escapes, \u, surrogate pairs -> UTF-8; statements about the
   model only - the check does not claim a failing input when the implementation decodes a literal that
   toString never writes differently):
        -> string_token_is_rfc8259, parse_string_literal_rfc8259, unicode_append_is_rfc3629,
           parse_value_fuel_from_any_state

   EXTENSION beyond the class of the property (the property names null, booleans, signed integers,
   strings, lists, maps; Json::toString also writes unsigned integers and arrays - Json.cpp:420-423, 476-497):
        -> ext_parse_toString_readback (every tree that may also hold uint / uint64 / Array<Variant>:
           parse (toString v) = readback v), ext_class_contains_property_class (on the class of the
           property this is parse_toString_roundtrip), ext_array_comes_back_as_list (and Variant's ==
           does not call the two equal), ext_uint_comes_back_signed_and_equal,
           ext_uint64_comes_back_equal_below_2p63, ext_uint64_saturates_from_2p63 (NOT equal),
           ext_atoll_printf_saturates

   Dead code (Json.cpp:135-136, 152-153 `if(k.scanf("%x", &w) != 1) return ... "Expected hexadecimal number"`):
        -> hex4_scan_never_fails (sscanf %x = JsonModel.scanf_hex on four bytes accepted by isHexDigit
           always converts, to the positional value), hex_quad_is_positional_value,
           parse_never_reports_hexadecimal_number (no text makes parse report that message)

   Modelled as reference functions (libc): printf("%d"/"%lld"/"%u"/"%llu") = print_dec, atoll = ref_atoll,
   sscanf("%x") = scanf_hex (white space, sign, 0x prefix, digit run), strpbrk = find_one_of.  Doubles
   are outside the property (kept as opaque text).  *)
From Coq Require Import ZArith List Bool.
From Json Require Import JsonSpec JsonModel JsonProofsBase JsonProofsHex JsonProofsTotal JsonProofsStrip JsonProofsGrammar JsonProofsRound JsonProofsEq JsonProofsRfc JsonProofsReuse.
Import ListNotations.
Local Open Scope Z_scope.

(* ---- totality ---- *)
Theorem parse_terminates : forall s : list Z, parse s <> POutOfFuel.
Proof. exact parse_total. Qed.
Print Assumptions parse_terminates.

(* ---- bounds ---- *)
Theorem parse_reads_in_bounds : forall s : list Z, parse s <> POutOfBounds.
Proof. exact parse_in_bounds. Qed.
Print Assumptions parse_reads_in_bounds.

(* ---- error position ---- *)
Theorem parse_error_position_inside_text :
  forall s line col msg, parse s = PErr line col msg -> position_inside s line col.
Proof. exact parse_error_position. Qed.
Print Assumptions parse_error_position_inside_text.

Theorem position_inside_range :
  forall s line col, position_inside s line col -> 1 <= line <= 1 + nbreaks s /\ 1 <= col.
Proof. exact JsonProofsTotal.position_inside_range. Qed.
Print Assumptions position_inside_range.

Theorem line_counts_breaks_before_offset :
  forall pre post, cuts_crlf pre post = false -> nbreaks (pre ++ post) = nbreaks pre + nbreaks post.
Proof. exact nbreaks_app. Qed.
Print Assumptions line_counts_breaks_before_offset.

Theorem position_insideb_sound :
  forall s line col, position_insideb s line col = true -> position_inside s line col.
Proof. exact JsonProofsTotal.position_insideb_sound. Qed.
Print Assumptions position_insideb_sound.

(* ---- round trip ---- *)
Theorem unescape_escape_inverse :
  forall s f l rest acc, nulfree s -> (length s < f)%nat ->
    str_loop f l (escape s ++ 34 :: rest) acc = Ok (l, rest, rev acc ++ s).
Proof. exact str_loop_escape. Qed.
Print Assumptions unescape_escape_inverse.

Theorem atoll_printf_inverse :
  forall z, int64_min <= z <= int64_max -> ref_atoll (print_dec z) = z.
Proof. exact ref_atoll_print_dec. Qed.
Print Assumptions atoll_printf_inverse.

Theorem parse_toString_roundtrip :
  forall v, in_class v = true -> parse (to_string v) = POk (canon v).
Proof. exact parse_to_string. Qed.
Print Assumptions parse_toString_roundtrip.

Theorem parse_toString_equal_tree :
  forall v, in_class v = true -> exists v', parse (to_string v) = POk v' /\ value_eq v v' = true.
Proof. exact parse_to_string_eq. Qed.
Print Assumptions parse_toString_equal_tree.

(* "equal": two trees are equal iff they are identical once the width and signedness of every integer is
   wiped out; the tree w the implementation reads back is judged by  blind (canon v) = blind w *)
Theorem equal_tree_is_identity_up_to_integer_width :
  forall v w, (value_eq v w = true <-> blind v = blind w) /\ (value_eq v w = true <-> blind (canon v) = blind w).
Proof. exact (fun v w => conj (value_eq_iff_blind v w) (equal_tree_iff_blind_canon v w)). Qed.
Print Assumptions equal_tree_is_identity_up_to_integer_width.

Theorem parse_toString_identical_when_canonical :
  forall v, canonical v = true -> canon v = v.
Proof. exact canon_canonical. Qed.
Print Assumptions parse_toString_identical_when_canonical.

(* ---- EXTENSION beyond the class of the property: unsigned integers and arrays through toString and parse ---- *)
Theorem ext_parse_toString_readback :
  forall v, in_ext v = true -> parse (to_string v) = POk (readback v).
Proof. exact parse_to_string_ext. Qed.
Print Assumptions ext_parse_toString_readback.

Theorem ext_class_contains_property_class :
  forall v, in_class v = true -> in_ext v = true /\ readback v = canon v.
Proof. exact in_class_ext. Qed.
Print Assumptions ext_class_contains_property_class.

Theorem ext_array_comes_back_as_list :
  forall l, readback (JArray l) = JList (map readback l) /\ value_eq (JArray l) (readback (JArray l)) = false.
Proof. exact (fun l => conj eq_refl (value_eq_array_list l (map readback l))). Qed.
Print Assumptions ext_array_comes_back_as_list.

Theorem ext_uint_comes_back_signed_and_equal :
  forall z, in_ext (JUInt z) = true ->
    readback (JUInt z) = (if z <=? 2147483647 then JInt z else JInt64 z) /\
    value_eq (JUInt z) (readback (JUInt z)) = true.
Proof. exact readback_uint. Qed.
Print Assumptions ext_uint_comes_back_signed_and_equal.

Theorem ext_uint64_comes_back_equal_below_2p63 :
  forall z, 0 <= z <= 9223372036854775807 ->
    readback (JUInt64 z) = narrow z /\ value_eq (JUInt64 z) (readback (JUInt64 z)) = true.
Proof. exact readback_uint64_small. Qed.
Print Assumptions ext_uint64_comes_back_equal_below_2p63.

Theorem ext_uint64_saturates_from_2p63 :
  forall z, 9223372036854775807 < z ->
    readback (JUInt64 z) = JInt64 9223372036854775807 /\ value_eq (JUInt64 z) (readback (JUInt64 z)) = false.
Proof. exact readback_uint64_big. Qed.
Print Assumptions ext_uint64_saturates_from_2p63.

Theorem ext_atoll_printf_saturates : forall z, ref_atoll (print_dec z) = clamp64 z.
Proof. exact ref_atoll_print_dec_sat. Qed.
Print Assumptions ext_atoll_printf_saturates.

(* ---- the two `k.scanf("%x", &w) != 1` tests of readToken are never true ---- *)
Theorem hex4_scan_never_fails :
  forall k, length k = 4%nat -> Forall (fun c => is_hex c = true) k ->
    scanf_hex k = Some (fold_left (fun a c => 16 * a + hexval c) k 0).
Proof. exact hex4_scan. Qed.
Print Assumptions hex4_scan_never_fails.

Theorem hex_quad_is_positional_value : forall l r, hex_quad l r = hexn 4 l r 0.
Proof. exact hex_quad_eq. Qed.
Print Assumptions hex_quad_is_positional_value.

Theorem parse_never_reports_hexadecimal_number :
  forall s l c, parse s <> PErr l c E_hexnumber.
Proof. exact parse_never_hexnumber. Qed.
Print Assumptions parse_never_reports_hexadecimal_number.

(* ---- the string tokenizer against RFC 8259 / RFC 3629 (JsonSpec.ref_string, JsonSpec.utf8) ---- *)
Theorem string_token_is_rfc8259 :
  forall s v f l rest acc, ref_string s = Some v -> (length s < f)%nat ->
    str_loop f l (s ++ 34 :: rest) acc = Ok (l, rest, rev acc ++ v).
Proof. exact str_loop_rfc_any. Qed.
Print Assumptions string_token_is_rfc8259.

Theorem parse_string_literal_rfc8259 :
  forall s v, ref_string s = Some v -> parse (34 :: s ++ [34]) = POk (JString v).
Proof. exact parse_string_rfc. Qed.
Print Assumptions parse_string_literal_rfc8259.

Theorem unicode_append_is_rfc3629 :
  forall ch acc, 0 <= ch < 1114112 -> utf8_rev ch acc = rev (utf8 ch) ++ acc.
Proof. exact utf8_all. Qed.
Print Assumptions unicode_append_is_rfc3629.

Theorem parse_value_fuel_from_any_state :
  forall f p t, (2 * (length (p_rest p) + 1) + 1 <= f)%nat ->
    parse_value f p t <> OutOfFuel /\ parse_value f p t <> OutOfBounds.
Proof. exact parse_value_fuel. Qed.
Print Assumptions parse_value_fuel_from_any_state.

(* ---- one Parser object, several texts; a target that holds a value; the static wrappers ---- *)
Theorem parser_reuse_is_fresh_parse :
  forall (o : parser) (target : value) (s : list Z), snd (parse_with o target s) = parse s.
Proof. exact parse_with_result. Qed.
Print Assumptions parser_reuse_is_fresh_parse.

Theorem parser_history_is_fresh_parses :
  forall (calls : list (value * list Z)) (o : parser), run_parses o calls = map (fun c => parse (snd c)) calls.
Proof. exact run_parses_fresh. Qed.
Print Assumptions parser_history_is_fresh_parses.

Theorem second_parse_error_inside_second_text :
  forall o tgt1 s1 tgt2 s2 l c m,
    snd (parse_with (fst (parse_with o tgt1 s1)) tgt2 s2) = PErr l c m -> position_inside s2 l c.
Proof. exact JsonProofsReuse.second_parse_error_inside_second_text. Qed.
Print Assumptions second_parse_error_inside_second_text.

Theorem parser_error_fields :
  forall o tgt s,
    match parse s with
    | PErr l c m => o_err (fst (parse_with o tgt s)) = Some (l, c, m)
    | _ => o_err (fst (parse_with o tgt s)) = o_err o
    end.
Proof. exact parse_with_error_fields. Qed.
Print Assumptions parser_error_fields.

Theorem static_parse_is_parse : forall garbage target s, static_parse garbage target s = parse s.
Proof. exact static_parse_result. Qed.
Print Assumptions static_parse_is_parse.

Theorem parse_without_clear_keeps_target_content :
  snd (parse_obj false (mkParser 0 None) (JList [JInt 0]) [91; 49; 93]) = POk (JList [JInt 0; JInt 1]) /\
  parse [91; 49; 93] = POk (JList [JInt 1]).
Proof. exact JsonProofsReuse.parse_without_clear_keeps_target_content. Qed.
Print Assumptions parse_without_clear_keeps_target_content.

(* ---- stripComments ---- *)
Theorem stripComments_is_reference : forall s : list Z, strip_comments s = reference_strip (cstr s).
Proof. exact strip_comments_is_reference. Qed.
Print Assumptions stripComments_is_reference.

Theorem stripComments_is_reference_nulfree : forall s : list Z, ~ In 0 s -> strip_comments s = reference_strip s.
Proof. exact strip_comments_is_reference_nulfree. Qed.
Print Assumptions stripComments_is_reference_nulfree.

Theorem stripComments_keeps_every_line_break :
  forall s : list Z, filter brk (strip_comments s) = filter brk (cstr s).
Proof. exact strip_keeps_line_breaks. Qed.
Print Assumptions stripComments_keeps_every_line_break.

Theorem stripComments_identity_without_slash :
  forall s : list Z, ~ In 47 s -> strip_comments s = cstr s.
Proof. exact strip_no_slash_identity. Qed.
Print Assumptions stripComments_identity_without_slash.

Theorem stripComments_follows_comment_grammar : forall s o : list Z, strips (cstr s) o -> strip_comments s = o.
Proof. exact strip_comments_follows_grammar. Qed.
Print Assumptions stripComments_follows_comment_grammar.

(* completeness of the grammar: every text has a cut, and what the cut leaves is the reference machine's answer *)
Theorem comment_grammar_cuts_every_text : forall s : list Z, strips s (reference_strip s).
Proof. exact strips_complete. Qed.
Print Assumptions comment_grammar_cuts_every_text.

Theorem comment_grammar_is_deterministic : forall s o1 o2 : list Z, strips s o1 -> strips s o2 -> o1 = o2.
Proof. exact strips_deterministic. Qed.
Print Assumptions comment_grammar_is_deterministic.

Theorem stripComments_is_the_comment_grammar : forall s o : list Z, strips (cstr s) o <-> strip_comments s = o.
Proof. exact strip_comments_iff_grammar. Qed.
Print Assumptions stripComments_is_the_comment_grammar.

Theorem stripComments_memory_safe : forall s : list Z, strip_comments_chk s = Ok (strip_comments s).
Proof. exact strip_comments_chk_ok. Qed.
Print Assumptions stripComments_memory_safe.

Theorem stripComments_never_longer :
  forall s : list Z, (length (strip_comments s) <= length (cstr s) <= length s)%nat.
Proof. exact (fun s => conj (strip_comments_length s) (cstr_length s)). Qed.
Print Assumptions stripComments_never_longer.

(* ---- non-vacuity ---- *)
(* an object with key a holding the list of 1 and a string with the escapes for LF and U+00E9:
   the string is x LF C3 A9 *)
Example ex_parse_value :
  parse [123;34;97;34;58;91;49;44;34;120;92;110;92;117;48;48;101;57;34;93;125]
  = POk (JMap [([97], JList [JInt 1; JString [120; 10; 195; 169]])]).
Proof. vm_compute. reflexivity. Qed.

(* a surrogate pair 😀 becomes the four UTF-8 bytes of U+1F600 *)
Example ex_parse_surrogates :
  parse [34;92;117;100;56;51;100;92;117;100;101;48;48;34] = POk (JString [240; 159; 152; 128]).
Proof. vm_compute. reflexivity. Qed.

(* the reference value of the literal with the escaped surrogate pair D83D DE00 and a simple escape *)
Example ex_ref_string :
  ref_string [92;117;100;56;51;100;92;117;100;101;48;48;92;110;195;169] = Some [240; 159; 152; 128; 10; 195; 169].
Proof. vm_compute. reflexivity. Qed.

(* [1 2]  : error after the second token, line 1 column 5; the position is inside the text *)
Example ex_parse_error : parse [91;49;32;50;93] = PErr 1 5 E_comma.
Proof. vm_compute. reflexivity. Qed.
Example ex_error_inside : position_insideb [91;49;32;50;93] 1 5 = true.
Proof. vm_compute. reflexivity. Qed.

(* a list whose first string holds a backslash followed by a raw LF, then 1 2 without a comma: the raw
   line break is counted, the error is on line 2 column 7 (repair 05) *)
Example ex_parse_error_line2 :
  parse [91;34;97;92;10;34;44;32;49;32;50;93] = PErr 2 7 E_comma.
Proof. vm_compute. reflexivity. Qed.

(* a backslash directly before the terminator (repair 01), a truncated \u escape *)
Example ex_truncated : parse [34;92] = PErr 1 3 E_eof /\ parse [34;92;117;49;50] = PErr 1 6 E_hexdigit.
Proof. vm_compute. split; reflexivity. Qed.

(* a tree of the class with quotes, backslashes, control characters, non-ASCII bytes, both integer
   widths, nested list and map; it comes back as its canonical form, here the tree itself *)
Definition ex_tree : value :=
  JMap [([107; 34; 92], JList [JNull; JBool true; JInt (-2147483648); JInt64 9223372036854775807;
                              JString [34; 92; 10; 13; 1; 255; 195; 169]; JList []; JMap []]);
        ([], JInt64 (-9223372036854775808))].
Example ex_tree_in_class : in_class ex_tree = true.
Proof. vm_compute. reflexivity. Qed.
Example ex_tree_roundtrip : parse (to_string ex_tree) = POk ex_tree /\ canonical ex_tree = true.
Proof. vm_compute. split; reflexivity. Qed.
Example ex_int64_small : parse (to_string (JInt64 5)) = POk (JInt 5) /\ value_eq (JInt64 5) (JInt 5) = true.
Proof. vm_compute. split; reflexivity. Qed.

(* EXTENSION: an array holding unsigned integers at the boundaries, nested in a map: the array comes back
   as a list, 2^31 and 2^32-1 as int64, 2^64-1 as the largest int64 *)
Definition ex_ext_tree : value :=
  JMap [([97], JArray [JUInt 7; JUInt 2147483648; JUInt 4294967295; JUInt64 9223372036854775807;
                      JUInt64 18446744073709551615; JArray []; JList [JUInt64 5]])].
Example ex_ext_in_class : in_ext ex_ext_tree = true /\ in_class ex_ext_tree = false.
Proof. vm_compute. split; reflexivity. Qed.
Example ex_ext_roundtrip :
  parse (to_string ex_ext_tree)
  = POk (JMap [([97], JList [JInt 7; JInt64 2147483648; JInt64 4294967295; JInt64 9223372036854775807;
                           JInt64 9223372036854775807; JList []; JList [JInt 5]])]).
Proof. vm_compute. reflexivity. Qed.
(* sscanf %x as modelled does fail on other texts (no digit), accepts sign and prefix; on four hex digits
   it is the positional value: 00e9 -> 233, FFFF -> 65535 *)
Example ex_scanf_hex :
  scanf_hex [120; 121] = None /\ scanf_hex [] = None /\ scanf_hex [32; 45] = None /\
  scanf_hex [32; 48; 120; 49; 70; 122] = Some 31 /\ scanf_hex [45; 49] = Some 4294967295 /\
  scanf_hex [48; 48; 101; 57] = Some 233 /\ scanf_hex [70; 70; 70; 70] = Some 65535 /\
  scanf_hex [49; 48; 48; 48; 48; 48; 48; 48; 49] = Some 1.
Proof. vm_compute. repeat (split; [reflexivity|]). reflexivity. Qed.
Example ex_hex_quad : hex_quad 1 [48; 48; 101; 57; 34] = Ok (233, [34]) /\
                      hex_quad 1 [48; 48; 103] = SyntaxErr 1 [103] E_hexdigit.
Proof. vm_compute. split; reflexivity. Qed.

(* a, a block comment holding a lone star, b, a string literal holding two slashes, a line comment, LF, d:
   both comments go, the literal and the line break stay *)
Example ex_strip :
  strip_comments [97;47;42;32;120;32;42;32;121;32;42;47;98;32;34;47;47;34;32;47;47;32;99;10;100]
  = [97;98;32;34;47;47;34;32;10;100].
Proof. vm_compute. reflexivity. Qed.
(* a literal x, escaped quote, two slashes, y, then a line comment: the escaped quote does not end the
   literal (repair 04) *)
Example ex_strip_escape :
  strip_comments [34;120;92;34;47;47;121;34;32;47;47;32;99] = [34;120;92;34;47;47;121;34;32].
Proof. vm_compute. reflexivity. Qed.

(* a String with an embedded 0 byte: the code reads it as a C string, so does the model *)
Example ex_strip_nul : strip_comments [97;47;47;98;10;99;0;47;47;100] = [97;10;99]
                       /\ strip_comments_chk [97;47;47;98;10;99;0;47;47;100] = Ok [97;10;99].
Proof. vm_compute. split; reflexivity. Qed.
(* the checked machine does report an access outside the buffers: a destination one byte too small *)
Example ex_strip_chk_detects : strip_main_chk 1 9 0 [97;98;99] [] = OutOfBounds.
Proof. vm_compute. reflexivity. Qed.
(* one Parser object: a text that fails on line 3, then a text that fails on line 1 *)
Example ex_parse_twice :
  run_parses (mkParser 77 None) [(JNull, [10;10;91;49;32;50]); (JList [JInt 0], [120]); (JMap [([97], JNull)], [123;125])]
  = [PErr 3 5 E_comma; PErr 1 1 E_char; POk (JMap [])].
Proof. vm_compute. reflexivity. Qed.

(* a, a block comment x, a literal holding two slashes, a line comment c, LF, d  -  cut by the grammar *)
Example ex_strips :
  strips [97; 47;42;120;42;47; 34;47;47;34; 47;47;99; 10; 100] [97; 34;47;47;34; 10; 100].
Proof.
  apply st_plain; [discriminate|discriminate|].
  apply (st_block [120] (34 :: 47 :: 47 :: 34 :: 47 :: 47 :: 99 :: 10 :: [100]) (34 :: 47 :: 47 :: 34 :: 10 :: [100]) eq_refl).
  apply (st_string [47; 47] (47 :: 47 :: 99 :: 10 :: [100]) (10 :: [100])).
  { apply lb_plain; [discriminate|discriminate|]. apply lb_plain; [discriminate|discriminate|]. apply lb_nil. }
  apply (st_line [99] (10 :: [100]) (10 :: [100]) eq_refl (or_intror eq_refl)).
  apply st_plain; [discriminate|discriminate|].
  apply st_plain; [discriminate|discriminate|]. apply st_nil.
Qed.

(* completeness at work on texts that end inside a literal / inside a block comment / right behind a slash,
   and on a line comment that a lone CR ends *)
Example ex_grammar_open_pieces :
  strips [34; 97; 92] [34; 97; 92] /\ strips [47; 42; 120; 10; 42] [10] /\ strips [97; 47] [97; 47]
  /\ strips [47; 47; 120; 13; 121] [13; 121].
Proof.
  exact (conj (comment_grammar_cuts_every_text [34; 97; 92]) (conj (comment_grammar_cuts_every_text [47; 42; 120; 10; 42])
        (conj (comment_grammar_cuts_every_text [97; 47]) (comment_grammar_cuts_every_text [47; 47; 120; 13; 121])))).
Qed.

(* 2147483647 read back as a 64-bit integer is an equal tree; read back as the string "2147483647" it is not
   (although Variant::operator== would convert) *)
Example ex_equal_up_to_width :
  blind (canon (JList [JInt 2147483647])) = blind (JList [JInt64 2147483647])
  /\ value_eq (JList [JInt 2147483647]) (JList [JInt64 2147483647]) = true
  /\ blind (canon (JInt 5)) <> blind (JString [53]).
Proof. split; [reflexivity|]. split; [reflexivity|discriminate]. Qed.
