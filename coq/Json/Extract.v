From Coq Require Extraction ExtrOcamlBasic.
From Common Require Import Words.
From Json Require Import JsonSpec JsonModel.
Extraction Language OCaml.
Extraction "model.ml" anchor parse to_string strip_comments strip_comments_chk parse_with parse_obj static_parse cstr value_eq in_class canon position_insideb reference_strip ref_string in_ext readback scanf_hex.
