(* The grammar of comments and literals (JsonSpec.strips) cuts EVERY text: together with strips_sound
   (JsonProofsStrip) the grammar determines the stripped text of every input, and it is the one the
   reference machine - hence stripComments - produces. *)
From Coq Require Import ZArith List Bool Lia.
Require Import ZifyBool.
From Json Require Import JsonSpec JsonModel JsonProofsBase JsonProofsStrip.
Import ListNotations.
Local Open Scope Z_scope.

(* behind an opening quote: a body and its closing quote, or a literal the end of the text cuts short *)
Lemma lit_split : forall n t, (length t <= n)%nat ->
  (exists l s, t = l ++ 34 :: s /\ lit_body l) \/ lit_open t.
Proof.
  induction n as [|n IH]; intros t Hn.
  - destruct t; [right; constructor|cbn [length] in Hn; lia].
  - destruct t as [|c t]; [right; constructor|].
    cbn [length] in Hn.
    destruct (Z.eq_dec c 34) as [->|N34].
    { left. exists [], t. split; [reflexivity|constructor]. }
    destruct (Z.eq_dec c 92) as [->|N92].
    { destruct t as [|e t]; [right; apply lo_bs|].
      cbn [length] in Hn.
      destruct (IH t ltac:(lia)) as [(l & s & -> & Hl)|Ho].
      - left. exists (92 :: e :: l), s. split; [reflexivity|apply lb_esc; exact Hl].
      - right. apply lo_esc. exact Ho. }
    destruct (IH t ltac:(lia)) as [(l & s & -> & Hl)|Ho].
    + left. exists (c :: l), s. split; [reflexivity|apply lb_plain; assumption].
    + right. apply lo_plain; assumption.
Qed.

(* behind "//": the bytes up to the first line break byte (or the end) *)
Lemma line_split t :
  exists b s, t = b ++ s /\ no_break b = true /\ (s = [] \/ brk (hd0 s) = true).
Proof.
  induction t as [|c t (b & s & E & Hb & Hs)].
  - exists [], []. repeat split. left. reflexivity.
  - destruct (brk c) eqn:Ec.
    + exists [], (c :: t). split; [reflexivity|]. split; [reflexivity|]. right. exact Ec.
    + exists (c :: b), s. split; [cbn [app]; rewrite <- E; reflexivity|]. split; [|exact Hs].
      unfold no_break in *. cbn [forallb]. rewrite Ec, Hb. reflexivity.
Qed.

(* behind the opening of a block comment: a body without star-slash and the closing star-slash, or no
   star-slash up to the end *)
Lemma block_split t :
  (exists b s, t = b ++ 42 :: 47 :: s /\ no_close b = true) \/ no_close t = true.
Proof.
  induction t as [|c t IH].
  - right. reflexivity.
  - destruct ((c =? 42) && (hd0 t =? 47)) eqn:Ec.
    + left. assert (c = 42) by lia. subst c.
      destruct t as [|d s]; [cbn [hd0] in Ec; lia|]. cbn [hd0] in Ec. assert (d = 47) by lia. subst d.
      exists [], s. split; reflexivity.
    + destruct IH as [(b & s & -> & Hb)|Ht].
      * left. exists (c :: b), s. split; [reflexivity|].
        cbn [no_close]. rewrite Hb.
        assert (H : (c =? 42) && (hd0 b =? 47) = false).
        { destruct b as [|x b']; [cbn [hd0]; lia|]. cbn [app hd0] in Ec |- *. exact Ec. }
        rewrite H. reflexivity.
      * right. cbn [no_close]. rewrite Ec, Ht. reflexivity.
Qed.

Lemma strips_total : forall n s, (length s <= n)%nat -> exists o, strips s o.
Proof.
  induction n as [|n IH]; intros s Hn.
  - destruct s; [exists []; constructor|cbn [length] in Hn; lia].
  - destruct s as [|c t]; [exists []; constructor|].
    cbn [length] in Hn.
    destruct (Z.eq_dec c 34) as [->|N34].
    { destruct (lit_split (length t) t (le_n _)) as [(l & s & -> & Hl)|Ho].
      - rewrite app_length in Hn. cbn [length] in Hn.
        destruct (IH s ltac:(lia)) as [o Hso].
        exists (34 :: l ++ 34 :: o). apply st_string; assumption.
      - exists (34 :: t). apply st_string_open. exact Ho. }
    destruct (Z.eq_dec c 47) as [->|N47].
    { destruct t as [|d t'].
      - exists [47]. apply st_plain; [lia|cbn [hd0]; lia|constructor].
      - cbn [length] in Hn.
        destruct (Z.eq_dec d 47) as [->|D47].
        + destruct (line_split t') as (b & s & -> & Hb & Hs).
          rewrite app_length in Hn.
          destruct (IH s ltac:(lia)) as [o Hso].
          exists o. apply st_line; assumption.
        + destruct (Z.eq_dec d 42) as [->|D42].
          * destruct (block_split t') as [(b & s & -> & Hb)|Hb].
            -- rewrite app_length in Hn. cbn [length] in Hn.
               destruct (IH s ltac:(lia)) as [o Hso].
               exists (filter brk b ++ o). apply st_block; assumption.
            -- exists (filter brk t'). apply st_block_open. exact Hb.
          * destruct (IH (d :: t') ltac:(cbn [length]; lia)) as [o Hso].
            exists (47 :: o). apply st_plain; [lia|cbn [hd0]; intros _; split; assumption|exact Hso]. }
    destruct (IH t ltac:(lia)) as [o Hso].
    exists (c :: o). apply st_plain; [exact N34|intros E; contradiction|exact Hso].
Qed.

(* completeness: the grammar cuts every text, and what it leaves is what the reference machine leaves *)
Lemma strips_complete s : strips s (reference_strip s).
Proof.
  destruct (strips_total (length s) s (le_n _)) as [o Ho].
  rewrite (strips_sound s o Ho). exact Ho.
Qed.

Lemma strips_deterministic s o1 o2 : strips s o1 -> strips s o2 -> o1 = o2.
Proof. intros H1 H2. rewrite <- (strips_sound s o1 H1). apply strips_sound. exact H2. Qed.

(* stripComments is exactly the grammar: o is the text without its comments iff the code returns o *)
Lemma strip_comments_iff_grammar s o : strips (cstr s) o <-> strip_comments s = o.
Proof.
  split.
  - apply strip_comments_follows_grammar.
  - intros <-. rewrite strip_comments_is_reference. apply strips_complete.
Qed.
