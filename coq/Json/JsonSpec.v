(* Reference objects of property C15.  Nothing here looks at the code.
   - the value trees the property speaks about, their equality, the class that must round-trip;
   - what "a line and column inside the text" means;
   - what stripping comments means (a five state reference machine). *)
From Coq Require Import ZArith List Bool Lia.
Import ListNotations.
Local Open Scope Z_scope.

Inductive value : Type :=
| JNull
| JBool (b : bool)
| JInt (z : Z)                (* Variant intType   (32 bit signed) *)
| JInt64 (z : Z)              (* Variant int64Type (64 bit signed) *)
| JDouble (text : list Z)     (* outside the property; the scanned text is kept opaque *)
| JString (s : list Z)
| JList (l : list value)
| JMap (m : list (list Z * value)).   (* insertion ordered, keys unique (HashMap) *)

Fixpoint bytes_eqb (a b : list Z) : bool :=
  match a, b with
  | [], [] => true
  | x :: a', y :: b' => (x =? y) && bytes_eqb a' b'
  | _, _ => false
  end.

(* equality of trees: integers compare by value whatever their width, everything else
   structurally, maps in insertion order (HashMap::operator==) *)
Fixpoint value_eq (a b : value) : bool :=
  match a, b with
  | JNull, JNull => true
  | JBool x, JBool y => Bool.eqb x y
  | JInt x, JInt y => x =? y
  | JInt x, JInt64 y => x =? y
  | JInt64 x, JInt y => x =? y
  | JInt64 x, JInt64 y => x =? y
  | JDouble x, JDouble y => bytes_eqb x y
  | JString x, JString y => bytes_eqb x y
  | JList x, JList y =>
    (fix go (x y : list value) : bool :=
       match x, y with
       | [], [] => true
       | a :: x', b :: y' => value_eq a b && go x' y'
       | _, _ => false
       end) x y
  | JMap x, JMap y =>
    (fix go (x y : list (list Z * value)) : bool :=
       match x, y with
       | [], [] => true
       | (ka, a) :: x', (kb, b) :: y' => bytes_eqb ka kb && value_eq a b && go x' y'
       | _, _ => false
       end) x y
  | _, _ => false
  end.

(* the class of the property: null, booleans, 32/64-bit signed integers, NUL-free byte strings,
   lists, string-keyed maps (keys NUL-free and pairwise different) *)
Definition str_ok (s : list Z) : bool := forallb (fun c => (0 <? c) && (c <? 256)) s.
Fixpoint key_in (k : list Z) (m : list (list Z * value)) : bool :=
  match m with
  | [] => false
  | (k', _) :: t => bytes_eqb k k' || key_in k t
  end.
Fixpoint in_class (v : value) : bool :=
  match v with
  | JNull => true
  | JBool _ => true
  | JInt z => (-2147483648 <=? z) && (z <=? 2147483647)
  | JInt64 z => (-9223372036854775808 <=? z) && (z <=? 9223372036854775807)
  | JDouble _ => false
  | JString s => str_ok s
  | JList l => (fix go (l : list value) : bool := match l with [] => true | x :: t => in_class x && go t end) l
  | JMap m =>
    (fix go (m : list (list Z * value)) : bool :=
       match m with
       | [] => true
       | (k, x) :: t => str_ok k && in_class x && negb (key_in k t) && go t
       end) m
  end.

(* ---- positions ---- *)
(* number of line breaks of a text: LF, CR, or the pair CR LF counted once *)
Fixpoint nbreaks (s : list Z) : Z :=
  match s with
  | [] => 0
  | c :: t =>
    if c =? 10 then 1 + nbreaks t
    else if c =? 13 then match t with
                         | 10 :: _ => nbreaks t
                         | _ => 1 + nbreaks t
                         end
    else nbreaks t
  end.

Definition brk (c : Z) : bool := (c =? 10) || (c =? 13).
Fixpoint run (s : list Z) : list Z :=          (* maximal prefix without a line break byte *)
  match s with
  | [] => []
  | c :: t => if brk c then [] else c :: run t
  end.
(* the line of the text around offset k: the break-free run ending at k and the one starting there *)
Definition line_around (s : list Z) (k : nat) : list Z :=
  rev (run (rev (firstn k s))) ++ run (skipn k s).

(* (line, column) lies inside the text: the line number does not exceed the number of lines, and
   there is an offset in the text (0 .. length, the terminator included) whose distance from the
   start of its line is column - 1 *)
Definition position_inside (s : list Z) (line col : Z) : Prop :=
  1 <= line <= 1 + nbreaks s /\
  exists k, (k <= length s)%nat /\ col = 1 + Z.of_nat (length (run (rev (firstn k s)))) /\
            1 <= col <= Z.of_nat (length (line_around s k)) + 1.

(* executable form for the check: one pass over the text, [cur] = distance from the line start *)
Fixpoint col_search (s : list Z) (cur want : Z) : bool :=
  (cur =? want) ||
  match s with
  | [] => false
  | c :: t => col_search t (if brk c then 0 else cur + 1) want
  end.
Definition position_insideb (s : list Z) (line col : Z) : bool :=
  (1 <=? line) && (line <=? 1 + nbreaks s) && col_search s 0 (col - 1).

(* ---- stripping comments: reference machine ---- *)
Inductive smode := Normal | InString | InEscape | LineComment | BlockComment.

(* one byte at a time with one byte of look-ahead; returns the bytes kept *)
Fixpoint reference_strip_from (m : smode) (s : list Z) : list Z :=
  match s with
  | [] => []
  | c :: t =>
    match m with
    | Normal =>
      if c =? 34 then c :: reference_strip_from InString t
      else if c =? 47 then
        match t with
        | 47 :: t' => reference_strip_from LineComment t'
        | 42 :: t' => reference_strip_from BlockComment t'
        | _ => c :: reference_strip_from Normal t
        end
      else c :: reference_strip_from Normal t
    | InString =>
      if c =? 92 then c :: reference_strip_from InEscape t
      else if c =? 34 then c :: reference_strip_from Normal t
      else c :: reference_strip_from InString t
    | InEscape => c :: reference_strip_from InString t
    | LineComment =>
      if brk c then c :: reference_strip_from Normal t     (* the line break ends the comment and is kept *)
      else reference_strip_from LineComment t
    | BlockComment =>
      if c =? 42 then
        match t with
        | 47 :: t' => reference_strip_from Normal t'
        | _ => reference_strip_from BlockComment t
        end
      else if brk c then c :: reference_strip_from BlockComment t   (* line breaks are kept *)
      else reference_strip_from BlockComment t
    end
  end.
Definition reference_strip (s : list Z) : list Z := reference_strip_from Normal s.
