(* Reference objects of property C15.  Nothing here looks at the code.
   - the value trees the property speaks about, their equality, the class that must round-trip;
   - what "a line and column inside the text" means (the coordinates of an offset of the text);
   - what stripping comments means (a five state reference machine). *)
From Coq Require Import ZArith List Bool Lia.
Import ListNotations.
Local Open Scope Z_scope.

Inductive value : Type :=
| JNull
| JBool (b : bool)
| JInt (z : Z)                (* Variant intType   (32 bit signed) *)
| JInt64 (z : Z)              (* Variant int64Type (64 bit signed) *)
| JDouble (text : list Z)     (* outside the property; the scanned text is kept opaque *)
| JString (s : list Z)
| JList (l : list value)
| JMap (m : list (list Z * value))    (* insertion ordered, keys unique (HashMap) *)
(* the remaining Variant types: outside the class of the property, but Json::toString writes them *)
| JUInt (z : Z)               (* Variant uintType   (32 bit unsigned) *)
| JUInt64 (z : Z)             (* Variant uint64Type (64 bit unsigned) *)
| JArray (l : list value).    (* Variant arrayType  (Array<Variant>) *)

Fixpoint bytes_eqb (a b : list Z) : bool :=
  match a, b with
  | [], [] => true
  | x :: a', y :: b' => (x =? y) && bytes_eqb a' b'
  | _, _ => false
  end.

(* equality of trees: integers compare by value whatever their width and signedness, everything else
   structurally, maps in insertion order (HashMap::operator==); an array is not equal to a list
   (Variant::operator== compares the type of containers first) *)
Definition int_of (v : value) : option Z :=
  match v with JInt z | JInt64 z | JUInt z | JUInt64 z => Some z | _ => None end.
Fixpoint value_eq (a b : value) : bool :=
  match a, b with
  | JNull, JNull => true
  | JBool x, JBool y => Bool.eqb x y
  | JInt x, _ | JInt64 x, _ | JUInt x, _ | JUInt64 x, _ =>
    match int_of b with Some y => x =? y | None => false end
  | JDouble x, JDouble y => bytes_eqb x y
  | JString x, JString y => bytes_eqb x y
  | JList x, JList y =>
    (fix go (x y : list value) : bool :=
       match x, y with
       | [], [] => true
       | a :: x', b :: y' => value_eq a b && go x' y'
       | _, _ => false
       end) x y
  | JArray x, JArray y =>
    (fix go (x y : list value) : bool :=
       match x, y with
       | [], [] => true
       | a :: x', b :: y' => value_eq a b && go x' y'
       | _, _ => false
       end) x y
  | JMap x, JMap y =>
    (fix go (x y : list (list Z * value)) : bool :=
       match x, y with
       | [], [] => true
       | (ka, a) :: x', (kb, b) :: y' => bytes_eqb ka kb && value_eq a b && go x' y'
       | _, _ => false
       end) x y
  | _, _ => false
  end.

(* the class of the property: null, booleans, 32/64-bit signed integers, NUL-free byte strings,
   lists, string-keyed maps (keys NUL-free and pairwise different) *)
Definition str_ok (s : list Z) : bool := forallb (fun c => (0 <? c) && (c <? 256)) s.
Fixpoint key_in (k : list Z) (m : list (list Z * value)) : bool :=
  match m with
  | [] => false
  | (k', _) :: t => bytes_eqb k k' || key_in k t
  end.
Fixpoint in_class (v : value) : bool :=
  match v with
  | JNull => true
  | JBool _ => true
  | JInt z => (-2147483648 <=? z) && (z <=? 2147483647)
  | JInt64 z => (-9223372036854775808 <=? z) && (z <=? 9223372036854775807)
  | JDouble _ => false
  | JString s => str_ok s
  | JList l => (fix go (l : list value) : bool := match l with [] => true | x :: t => in_class x && go t end) l
  | JMap m =>
    (fix go (m : list (list Z * value)) : bool :=
       match m with
       | [] => true
       | (k, x) :: t => str_ok k && in_class x && negb (key_in k t) && go t
       end) m
  | JUInt _ | JUInt64 _ | JArray _ => false
  end.

(* the representative of a tree that a parser yields: a 64-bit integer that fits 32 bits is a 32-bit
   integer (value_eq does not distinguish them), everything else unchanged *)
Definition fits32 (z : Z) : bool := (-2147483648 <=? z) && (z <=? 2147483647).
Fixpoint canon (v : value) : value :=
  match v with
  | JInt64 z => if fits32 z then JInt z else JInt64 z
  | JList l => JList (map canon l)
  | JMap m => JMap (map (fun kx => (fst kx, canon (snd kx))) m)
  | JArray l => JArray (map canon l)
  | _ => v
  end.

(* ---- extension beyond the class of the property: what Json::toString followed by Json::parse does to
        the Variant types the property does not name (unsigned integers, arrays).  The parser knows no
        unsigned type and no array type: a number is read by atoll (saturating at the int64 bounds) and
        stored as int when it fits 32 bits, else as int64; a bracketed sequence is stored as a list. ---- *)
Fixpoint in_ext (v : value) : bool :=
  match v with
  | JNull => true
  | JBool _ => true
  | JInt z => (-2147483648 <=? z) && (z <=? 2147483647)
  | JInt64 z => (-9223372036854775808 <=? z) && (z <=? 9223372036854775807)
  | JDouble _ => false
  | JString s => str_ok s
  | JList l => (fix go (l : list value) : bool := match l with [] => true | x :: t => in_ext x && go t end) l
  | JMap m =>
    (fix go (m : list (list Z * value)) : bool :=
       match m with
       | [] => true
       | (k, x) :: t => str_ok k && in_ext x && negb (key_in k t) && go t
       end) m
  | JUInt z => (0 <=? z) && (z <=? 4294967295)
  | JUInt64 z => (0 <=? z) && (z <=? 18446744073709551615)
  | JArray l => (fix go (l : list value) : bool := match l with [] => true | x :: t => in_ext x && go t end) l
  end.

Definition sat63 (z : Z) : Z := if 9223372036854775807 <? z then 9223372036854775807 else z.
Definition narrow (z : Z) : value := if fits32 z then JInt z else JInt64 z.
(* the tree that comes back *)
Fixpoint readback (v : value) : value :=
  match v with
  | JInt64 z => narrow z
  | JUInt z => narrow z                    (* below 2^31: int, else int64; equal by value *)
  | JUInt64 z => narrow (sat63 z)          (* 2^63 and above: int64 9223372036854775807 - NOT equal by value *)
  | JList l => JList (map readback l)
  | JArray l => JList (map readback l)     (* a list, which Variant::operator== does not call equal to an array *)
  | JMap m => JMap (map (fun kx => (fst kx, readback (snd kx))) m)
  | _ => v
  end.

(* ---- positions ---- *)
Definition hd0 (s : list Z) : Z := match s with [] => 0 | b :: _ => b end.

(* number of line breaks of a text: LF, CR, or the pair CR LF counted once *)
Fixpoint nbreaks (s : list Z) : Z :=
  match s with
  | [] => 0
  | c :: t =>
    if c =? 10 then 1 + nbreaks t
    else if c =? 13 then (if hd0 t =? 10 then nbreaks t else 1 + nbreaks t)
    else nbreaks t
  end.

Definition brk (c : Z) : bool := (c =? 10) || (c =? 13).
Fixpoint run (s : list Z) : list Z :=          (* maximal prefix without a line break byte *)
  match s with
  | [] => []
  | c :: t => if brk c then [] else c :: run t
  end.

(* the split  pre | post  of a text cuts a CR LF pair *)
Definition cuts_crlf (pre post : list Z) : bool := (hd0 (rev pre) =? 13) && (hd0 post =? 10).

(* (line, column) lies inside the text: they are the coordinates of an offset of the text (0 .. length,
   the terminator's place included):  text = pre ++ post,
     line   = 1 + the line breaks of the text that are complete before the offset
              (= 1 + nbreaks pre unless the offset cuts a CR LF pair: JsonProofsBase.nbreaks_app),
     column = 1 + the distance from the offset back to the start of its line. *)
Definition position_inside (s : list Z) (line col : Z) : Prop :=
  exists pre post, s = pre ++ post /\
    line = 1 + (nbreaks s - nbreaks post) /\
    col = 1 + Z.of_nat (length (run (rev pre))).

(* executable form for the check: one pass over the text; [cur] = distance from the line start,
   [total] = nbreaks of the whole text *)
Fixpoint pos_search (total : Z) (post : list Z) (cur line col : Z) : bool :=
  ((col =? cur + 1) && (line =? 1 + (total - nbreaks post))) ||
  match post with
  | [] => false
  | c :: t => pos_search total t (if brk c then 0 else cur + 1) line col
  end.
Definition position_insideb (s : list Z) (line col : Z) : bool := pos_search (nbreaks s) s 0 line col.

(* ---- stripping comments: reference machine ---- *)
Inductive smode := Normal | InString | InEscape | LineComment | BlockComment.

(* one byte at a time with one byte of look-ahead; returns the bytes kept *)
Fixpoint reference_strip_from (m : smode) (s : list Z) : list Z :=
  match s with
  | [] => []
  | c :: t =>
    match m with
    | Normal =>
      if c =? 34 then c :: reference_strip_from InString t
      else if c =? 47 then
        match t with
        | [] => c :: reference_strip_from Normal t
        | d :: t' =>
          if d =? 47 then reference_strip_from LineComment t'
          else if d =? 42 then reference_strip_from BlockComment t'
          else c :: reference_strip_from Normal t
        end
      else c :: reference_strip_from Normal t
    | InString =>
      if c =? 92 then c :: reference_strip_from InEscape t
      else if c =? 34 then c :: reference_strip_from Normal t
      else c :: reference_strip_from InString t
    | InEscape => c :: reference_strip_from InString t
    | LineComment =>
      if brk c then c :: reference_strip_from Normal t     (* the line break ends the comment and is kept *)
      else reference_strip_from LineComment t
    | BlockComment =>
      if c =? 42 then
        match t with
        | [] => reference_strip_from BlockComment t
        | d :: t' =>
          if d =? 47 then reference_strip_from Normal t'
          else reference_strip_from BlockComment t
        end
      else if brk c then c :: reference_strip_from BlockComment t   (* line breaks are kept *)
      else reference_strip_from BlockComment t
    end
  end.
Definition reference_strip (s : list Z) : list Z := reference_strip_from Normal s.

(* ---- stripping comments, said as a grammar: a text is a sequence of plain bytes, string literals,
        line comments and block comments; [strips s o]: o is s without its comments.  (The reference
        machine above is the executable form; JsonProofsStrip.strips_sound relates the two.) ---- *)
(* the inside of a literal up to its closing quote: bytes other than quote and backslash, or a backslash
   and the byte it escapes *)
Inductive lit_body : list Z -> Prop :=
| lb_nil : lit_body []
| lb_plain : forall c t, c <> 34 -> c <> 92 -> lit_body t -> lit_body (c :: t)
| lb_esc : forall e t, lit_body t -> lit_body (92 :: e :: t).
(* ... of a literal that the end of the text cuts short (possibly right behind a backslash) *)
Inductive lit_open : list Z -> Prop :=
| lo_nil : lit_open []
| lo_bs : lit_open [92]
| lo_plain : forall c t, c <> 34 -> c <> 92 -> lit_open t -> lit_open (c :: t)
| lo_esc : forall e t, lit_open t -> lit_open (92 :: e :: t).
(* a block comment body: no star-slash inside *)
Fixpoint no_close (b : list Z) : bool :=
  match b with
  | [] => true
  | c :: t => negb ((c =? 42) && (hd0 t =? 47)) && no_close t
  end.
Definition no_break (b : list Z) : bool := forallb (fun c => negb (brk c)) b.

Inductive strips : list Z -> list Z -> Prop :=
| st_nil : strips [] []
| st_plain : forall c s o, c <> 34 -> (c = 47 -> hd0 s <> 47 /\ hd0 s <> 42) -> strips s o -> strips (c :: s) (c :: o)
| st_string : forall l s o, lit_body l -> strips s o -> strips (34 :: l ++ 34 :: s) (34 :: l ++ 34 :: o)
| st_string_open : forall l, lit_open l -> strips (34 :: l) (34 :: l)
| st_line : forall b s o, no_break b = true -> (s = [] \/ brk (hd0 s) = true) -> strips s o ->
    strips (47 :: 47 :: b ++ s) o                                   (* up to, not including, the line break *)
| st_block : forall b s o, no_close b = true -> strips s o ->
    strips (47 :: 42 :: b ++ 42 :: 47 :: s) (filter brk b ++ o)     (* its line breaks stay *)
| st_block_open : forall b, no_close b = true -> strips (47 :: 42 :: b) (filter brk b).

(* ---- what a string literal denotes: RFC 8259 section 7 with the code points written as UTF-8
        (RFC 3629); [s] is the text between the quotes.  None = the literal is not valid JSON
        (raw control character, unknown or truncated escape, unpaired surrogate): not judged. ---- *)
Definition hexv (c : Z) : option Z :=
  if (48 <=? c) && (c <=? 57) then Some (c - 48)
  else if (97 <=? c) && (c <=? 102) then Some (c - 87)
  else if (65 <=? c) && (c <=? 70) then Some (c - 55)
  else None.
Definition hex4 (a b c d : Z) : option Z :=
  match hexv a, hexv b, hexv c, hexv d with
  | Some x, Some y, Some z, Some w => Some (4096 * x + 256 * y + 16 * z + w)
  | _, _, _, _ => None
  end.
Definition utf8 (cp : Z) : list Z :=
  if cp <? 128 then [cp]
  else if cp <? 2048 then [192 + cp / 64; 128 + cp mod 64]
  else if cp <? 65536 then [224 + cp / 4096; 128 + (cp / 64) mod 64; 128 + cp mod 64]
  else [240 + cp / 262144; 128 + (cp / 4096) mod 64; 128 + (cp / 64) mod 64; 128 + cp mod 64].
Definition simple_escape (e : Z) : option Z :=
  if (e =? 34) || (e =? 92) || (e =? 47) then Some e
  else if e =? 98 then Some 8 else if e =? 102 then Some 12 else if e =? 110 then Some 10
  else if e =? 114 then Some 13 else if e =? 116 then Some 9 else None.

Fixpoint ref_string (s : list Z) : option (list Z) :=
  match s with
  | [] => Some []
  | c :: t =>
    if c =? 92 then
      match t with
      | [] => None
      | e :: t1 =>
        if e =? 117 then
          match t1 with
          | a :: b :: c2 :: d :: t2 =>
            match hex4 a b c2 d with
            | None => None
            | Some w =>
              if (55296 <=? w) && (w <=? 56319) then        (* high surrogate: a low one must follow *)
                match t2 with
                | b1 :: u1 :: a' :: b' :: c' :: d' :: t3 =>
                  if (b1 =? 92) && (u1 =? 117) then
                    match hex4 a' b' c' d' with
                    | Some w2 =>
                      if (56320 <=? w2) && (w2 <=? 57343)
                      then option_map (app (utf8 (65536 + 1024 * (w - 55296) + (w2 - 56320)))) (ref_string t3)
                      else None
                    | None => None
                    end
                  else None
                | _ => None
                end
              else if (56320 <=? w) && (w <=? 57343) then None
              else option_map (app (utf8 w)) (ref_string t2)
            end
          | _ => None
          end
        else match simple_escape e with
             | Some x => option_map (cons x) (ref_string t1)
             | None => None
             end
      end
    else if (c <? 32) || (c =? 34) then None
    else option_map (cons c) (ref_string t)
  end.

(* ---- a tree with the width and the signedness of its integers wiped out: two trees are equal (value_eq)
        iff their wiped forms are identical (JsonProofsEq.value_eq_iff_blind).  This is the comparison the
        check makes between the tree the implementation reads back and canon v: the property asks for an
        equal tree, not for a width. ---- *)
Fixpoint blind (v : value) : value :=
  match v with
  | JInt z | JInt64 z | JUInt z | JUInt64 z => JInt64 z
  | JList l => JList (map blind l)
  | JMap m => JMap (map (fun kx => (fst kx, blind (snd kx))) m)
  | JArray l => JArray (map blind l)
  | _ => v
  end.
