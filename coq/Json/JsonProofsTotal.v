(* Totality (fuel), bounds safety (checked reads) and error positions of the tokenizer and the
   recursive-descent parser, carried by one predicate [good] (JsonProofsBase). *)
From Coq Require Import ZArith List Bool Lia.
Require Import ZifyBool.
From Json Require Import JsonSpec JsonModel JsonProofsBase JsonProofsHex.
Import ListNotations.
Local Open Scope Z_scope.

Ltac split_if :=
  lazymatch goal with |- good _ _ _ (if ?b then _ else _) => destruct b eqn:? end.
Ltac eqb_subst :=
  repeat match goal with
         | H : (?c =? ?k) = true |- _ => apply Z.eqb_eq in H; subst c
         end.

(* ---------- skipSpace ---------- *)
Lemma skip_shift l r l1 r1 (x : res (Z * list Z)) :
  moved l r l1 r1 -> good l1 r1 (fun a => moved l1 r1 (fst a) (snd a)) x ->
  good l r (fun a => moved l r (fst a) (snd a)) x.
Proof.
  intros M G. eapply good_shift; [exact M|exact G|].
  intros a Ha. eapply moved_trans; eauto.
Qed.

Lemma skip_space_good f : forall l r, (length r < f)%nat ->
  good l r (fun a => moved l r (fst a) (snd a)) (skip_space f l r).
Proof.
  induction f as [|f IH]; intros l r Hf; [lia|].
  cbn [skip_space]. destruct r as [|c t].
  - cbn. apply moved_refl.
  - cbn [peek adv length] in *. split_if.
    + eqb_subst. destruct t as [|d t'].
      * cbn [peek]. cbn [Z.eqb]. eapply skip_shift; [apply moved_cr; cbn; lia|apply IH; cbn; lia].
      * cbn [peek adv length] in *. split_if.
        -- eqb_subst. eapply skip_shift; [apply moved_crlf|apply IH; lia].
        -- eapply skip_shift; [apply moved_cr; cbn; lia|apply IH; cbn [length]; lia].
    + split_if.
      * eqb_subst. eapply skip_shift; [apply moved_lf|apply IH; lia].
      * split_if.
        -- eapply skip_shift; [apply moved_plain; lia|apply IH; lia].
        -- cbn. apply moved_refl.
Qed.

(* ---------- four hex digits ---------- *)
Lemma hexn_good n : forall l r w,
  good l r (fun a => moved l r l (snd a) /\ (length (snd a) + n = length r)%nat) (hexn n l r w).
Proof.
  induction n as [|n IH]; intros l r w.
  - cbn. split; [apply moved_refl|lia].
  - cbn [hexn]. destruct r as [|c t].
    + cbn. apply moved_refl.
    + cbn [peek adv]. split_if.
      * pose proof (is_hex_nz _ Heqb) as (? & ? & ?).
        eapply good_shift; [apply moved_plain; lia|apply IH|].
        intros a [M L]. split; [|cbn [length]; lia].
        eapply moved_trans; [apply moved_plain; lia|exact M].
      * cbn. apply moved_refl.
Qed.

Lemma hex_quad_good l r :
  good l r (fun a => moved l r l (snd a) /\ (length (snd a) + 4 = length r)%nat) (hex_quad l r).
Proof. rewrite hex_quad_eq. apply hexn_good. Qed.

(* ---------- the string token ---------- *)
Definition str_post (l : Z) (r : list Z) (a : Z * list Z * list Z) : Prop :=
  moved l r (fst (fst a)) (snd (fst a)) /\ (length (snd (fst a)) < length r)%nat.

Lemma str_post_shift l r l1 r1 a :
  moved l r l1 r1 -> str_post l1 r1 a -> str_post l r a.
Proof.
  intros M [M1 L1]. split; [eapply moved_trans; eauto|].
  apply moved_length in M. lia.
Qed.

Lemma str_loop_good f : forall l r acc, (length r < f)%nat ->
  good l r (str_post l r) (str_loop f l r acc).
Proof.
  induction f as [|f IH]; intros l r acc Hf; [lia|].
  assert (STEP : forall l1 r1 acc1, moved l r l1 r1 -> (length r1 < length r)%nat ->
                 good l r (str_post l r) (str_loop f l1 r1 acc1)).
  { intros l1 r1 acc1 M L. eapply good_shift; [exact M|apply IH; lia|].
    intros a Ha. eapply str_post_shift; eauto. }
  cbn [str_loop]. destruct r as [|c t].
  - cbn. apply moved_refl.
  - cbn [peek adv length] in *. split_if; [cbn; apply moved_refl|].
    split_if.
    { (* CR *) eqb_subst. destruct t as [|d t'].
      - cbn [peek]. cbn [Z.eqb]. apply STEP; [apply moved_cr; cbn; lia|cbn; lia].
      - cbn [peek adv]. split_if.
        + eqb_subst. apply STEP; [apply moved_crlf|cbn; lia].
        + apply STEP; [apply moved_cr; cbn; lia|cbn; lia]. }
    split_if.
    { (* LF *) eqb_subst. apply STEP; [apply moved_lf|lia]. }
    split_if.
    { (* backslash *) eqb_subst.
      assert (M1 : moved l (92 :: t) l t) by (apply moved_plain; lia).
      destruct t as [|e t2].
      - cbn. exact M1.
      - cbn [peek adv length] in *.
        assert (M2 : e <> 10 -> e <> 13 -> moved l (92 :: e :: t2) l t2).
        { intros. eapply moved_trans; [exact M1|apply moved_plain; lia]. }
        split_if; [apply STEP; [apply M2; lia|lia]|].
        split_if; [apply STEP; [apply M2; lia|lia]|].
        split_if; [apply STEP; [apply M2; lia|lia]|].
        split_if; [apply STEP; [apply M2; lia|lia]|].
        split_if; [apply STEP; [apply M2; lia|lia]|].
        split_if; [apply STEP; [apply M2; lia|lia]|].
        split_if.
        { (* \u *)
          eqb_subst. specialize (M2 ltac:(lia) ltac:(lia)).
          eapply good_bind.
          { eapply good_shift; [exact M2|apply hex_quad_good|]. intros a Ha. exact Ha. }
          intros [w1 r3] [M3 L3]. cbn [fst snd] in *.
          assert (M3' : moved l (92 :: 117 :: t2) l r3) by (eapply moved_trans; [exact M2|exact M3]).
          split_if.
          - (* high surrogate *)
            destruct r3 as [|c3 r4].
            + cbn. exact M3'.
            + cbn [peek adv]. split_if; [cbn; exact M3'|].
              destruct r4 as [|c4 r5].
              * cbn. exact M3'.
              * cbn [peek adv]. split_if; [cbn; exact M3'|].
                assert (c3 = 92) by lia. assert (c4 = 117) by lia. subst c3 c4.
                assert (M5 : moved l (92 :: 117 :: t2) l r5).
                { eapply moved_trans; [exact M3'|].
                  eapply moved_trans; apply moved_plain; lia. }
                eapply good_bind.
                { eapply good_shift; [exact M5|apply hex_quad_good|]. intros a Ha. exact Ha. }
                intros [w2 r6] [M6 L6]. cbn [fst snd length] in *.
                split_if; [cbn; exact M3'|].
                apply STEP; [eapply moved_trans; eauto|lia].
          - apply STEP; [exact M3'|lia]. }
        split_if; [cbn; exact M1|].
        apply STEP; [exact M1|cbn [length]; lia]. }
    split_if.
    { (* closing quote *) eqb_subst. cbn. split; cbn [fst snd length]; [apply moved_plain; lia|lia]. }
    apply STEP; [apply moved_plain; lia|lia].
Qed.

(* ---------- numbers ---------- *)
Lemma num_loop_good f : forall l r acc isd, (length r < f)%nat ->
  good l r (fun a => moved l r l (fst (fst a))) (num_loop f r acc isd).
Proof.
  induction f as [|f IH]; intros l r acc isd Hf; [lia|].
  assert (STEP : forall c t acc1 isd1, r = c :: t -> c <> 10 -> c <> 13 ->
                 good l r (fun a => moved l r l (fst (fst a))) (num_loop f t acc1 isd1)).
  { intros c t acc1 isd1 -> ? ?. cbn [length] in Hf.
    eapply good_shift; [apply moved_plain; lia|apply (IH l); lia|].
    intros a Ha. eapply moved_trans; [apply moved_plain; lia|exact Ha]. }
  cbn [num_loop]. destruct r as [|c t].
  - cbn. apply moved_refl.
  - cbn [peek adv]. split_if; [eapply STEP; [reflexivity|lia|lia]|].
    split_if; [eapply STEP; [reflexivity|lia|lia]|].
    split_if; [pose proof (is_digit_nz _ Heqb1); eapply STEP; [reflexivity|lia|lia]|].
    cbn. apply moved_refl.
Qed.

Lemma num_loop_first f c t acc isd :
  (c =? 45) || is_digit c = true ->
  num_loop (S f) (c :: t) acc isd = num_loop f t (c :: acc) isd.
Proof.
  intros H. cbn [num_loop peek adv].
  destruct ((c =? 69) || (c =? 101) || (c =? 45) || (c =? 43)) eqn:E1; [reflexivity|].
  destruct (c =? 46) eqn:E2; [unfold is_digit in H; lia|].
  destruct (is_digit c) eqn:E3; [reflexivity|lia].
Qed.

(* ---------- literals ---------- *)
Lemma cmp_lit_skip lit : forall r, cmp_lit r lit = true -> r = lit ++ skipn (length lit) r.
Proof.
  induction lit as [|c lt IH]; intros r H; [reflexivity|].
  destruct r as [|b t]; [discriminate|]. cbn [cmp_lit] in H.
  destruct (b =? c) eqn:E; [|discriminate]. apply Z.eqb_eq in E. subst b.
  cbn [length skipn app]. f_equal. now apply IH.
Qed.

Lemma moved_lit l lit r :
  forallb (fun c => negb (brk c)) lit = true -> moved l (lit ++ r) l r.
Proof.
  induction lit as [|c lt IH]; intros H; [apply moved_refl|].
  cbn [forallb] in H. apply andb_true_iff in H as [Hc H]. unfold brk in Hc.
  eapply moved_trans; [apply moved_plain; lia|apply IH, H].
Qed.

(* ---------- readToken ---------- *)
Definition tw (t : tok) : nat := if fst t =? 0 then 0%nat else 1%nat.
Definition msr (p : pos) (t : tok) : nat := (length (p_rest p) + tw t)%nat.

Definition tok_post (p : pos) (a : pos * tok) : Prop :=
  moved (p_line p) (p_rest p) (p_line (fst a)) (p_rest (fst a)) /\
  (msr (fst a) (snd a) <= length (p_rest p))%nat.

Lemma lit_branch l r lit k v :
  cmp_lit r lit = true -> forallb (fun c => negb (brk c)) lit = true -> lit <> [] -> k <> 0 ->
  good l r (fun a : pos * tok => moved l r (p_line (fst a)) (p_rest (fst a)) /\
                                 (msr (fst a) (snd a) <= length r)%nat)
       (Ok (mkPos l (skipn (length lit) r), (k, v))).
Proof.
  intros C NB NE K. apply cmp_lit_skip in C. remember (skipn (length lit) r) as rs.
  cbn. unfold msr, tw. cbn [fst snd p_rest p_line]. split.
  - rewrite C. now apply moved_lit.
  - rewrite C. rewrite app_length. destruct lit; [congruence|]. cbn [length].
    destruct (k =? 0) eqn:E; lia.
Qed.

Lemma read_token_good p : good (p_line p) (p_rest p) (tok_post p) (read_token p).
Proof.
  destruct p as [l0 r0]. unfold read_token, token_at. cbn [p_line p_rest].
  eapply good_bind; [apply skip_space_good; lia|].
  intros [l r] M. cbn [fst snd] in M.
  assert (SH : forall x, good l r (fun a => moved l r (p_line (fst a)) (p_rest (fst a)) /\
                                           (msr (fst a) (snd a) <= length r)%nat) x ->
               good l0 r0 (tok_post (mkPos l0 r0)) x).
  { intros x G. eapply good_shift; [exact M|exact G|].
    intros a [Ma La]. split; cbn [p_line p_rest]; [eapply moved_trans; eauto|].
    apply moved_length in M. lia. }
  apply SH. clear SH M.
  destruct r as [|c t].
  - cbn. split; [apply moved_refl|cbn; lia].
  - cbn [peek adv]. split_if.
    { cbn. unfold msr, tw. cbn. split; [apply moved_refl|lia]. }
    split_if.
    { cbn. unfold msr, tw. cbn [fst snd p_rest p_line length]. rewrite Heqb.
      unfold is_punct in Heqb0. split; [apply moved_plain; lia|lia]. }
    split_if.
    { eqb_subst.
      eapply good_bind.
      { eapply good_shift; [apply (moved_plain l 34 t); lia|apply str_loop_good; lia|].
        intros a Ha. exact Ha. }
      intros [[l' r'] s] [Ma La]. cbn [fst snd] in *. cbn. unfold msr, tw. cbn [fst snd p_rest p_line length].
      split; [eapply moved_trans; [apply moved_plain; lia|exact Ma]|cbn; lia]. }
    split_if.
    { split_if; [|cbn; apply moved_refl].
      change 4%nat with (length lit_true).
      apply lit_branch; [assumption|reflexivity|discriminate|lia]. }
    split_if.
    { split_if; [|cbn; apply moved_refl].
      change 5%nat with (length lit_false).
      apply lit_branch; [assumption|reflexivity|discriminate|lia]. }
    split_if.
    { split_if; [|cbn; apply moved_refl].
      change 4%nat with (length lit_null).
      apply lit_branch; [assumption|reflexivity|discriminate|lia]. }
    split_if; [|cbn; apply moved_refl].
    cbn [length]. rewrite num_loop_first by exact Heqb5.
    assert (M1 : moved l (c :: t) l t).
    { apply moved_plain; unfold is_digit in Heqb5; lia. }
    eapply good_bind.
    { eapply good_shift; [exact M1|apply (num_loop_good _ l); lia|]. intros a Ha; exact Ha. }
    intros [[r' n] isd] Ma. cbn [fst snd] in Ma. cbn.
    unfold msr, tw. cbn [fst snd p_rest p_line]. split; [eapply moved_trans; eauto|].
    apply moved_length in Ma. cbn [length]. cbn. lia.
Qed.

(* ---------- parseValue / parseArray / parseObject ---------- *)
Definition pv_post (p : pos) (t : tok) (a : value * pos * tok) : Prop :=
  moved (p_line p) (p_rest p) (p_line (snd (fst a))) (p_rest (snd (fst a))) /\
  (msr (snd (fst a)) (snd a) < msr p t)%nat.

Notation goodp p := (good (p_line p) (p_rest p)).
Notation movedp p q := (moved (p_line p) (p_rest p) (p_line q) (p_rest q)).

Lemma tw_nz t : fst t <> 0 -> tw t = 1%nat.
Proof. unfold tw. intros H. destruct (fst t =? 0) eqn:E; [lia|reflexivity]. Qed.

Lemma next_tok {B} p (Q : B -> Prop) p1 t1 (K : pos * tok -> res B) :
  movedp p p1 -> fst t1 <> 0 ->
  (forall p' t', movedp p p' -> (msr p' t' < msr p1 t1)%nat -> goodp p Q (K (p', t'))) ->
  goodp p Q (bind (read_token p1) K).
Proof.
  intros M NZ H. eapply good_bind.
  { eapply good_shift; [exact M|apply read_token_good|]. intros a Ha. exact Ha. }
  intros [p' t'] [M' L']. cbn [fst snd] in *. apply H.
  - eapply moved_trans; eauto.
  - unfold msr at 2. rewrite (tw_nz _ NZ). lia.
Qed.

Lemma pv_shift p t p1 t1 x :
  movedp p p1 -> (msr p1 t1 <= msr p t)%nat ->
  goodp p1 (pv_post p1 t1) x -> goodp p (pv_post p t) x.
Proof.
  intros M L G. eapply good_shift; [exact M|exact G|].
  intros a [Ma La]. split; [eapply moved_trans; eauto|lia].
Qed.

Lemma parser_good f :
  (forall p t, (2 * msr p t + 1 <= f)%nat -> goodp p (pv_post p t) (parse_value f p t)) /\
  (forall p t acc, (2 * msr p t + 2 <= f)%nat -> goodp p (pv_post p t) (arr_loop f p t acc)) /\
  (forall p t acc, (2 * msr p t + 2 <= f)%nat -> goodp p (pv_post p t) (obj_loop f p t acc)).
Proof.
  induction f as [|f (IHv & IHa & IHo)]; [repeat split; intros; lia|].
  repeat split.
  - (* parseValue *)
    intros p t Hf. cbn [parse_value].
    destruct (is_scalar_tok (fst t)) eqn:Esc.
    { apply (next_tok p _ p t); [apply moved_refl|unfold is_scalar_tok in Esc; lia|].
      intros p' t' M L. cbn [good]. unfold pv_post. cbn [fst snd]. split; [assumption|lia]. }
    destruct (fst t =? 91) eqn:E91.
    { apply (next_tok p _ p t); [apply moved_refl|lia|].
      intros p1 t1 M L. eapply pv_shift; [exact M| |apply IHa]; lia. }
    destruct (fst t =? 123) eqn:E123.
    { apply (next_tok p _ p t); [apply moved_refl|lia|].
      intros p1 t1 M L. eapply pv_shift; [exact M| |apply IHo]; lia. }
    cbn. apply moved_refl.
  - (* parseArray loop *)
    intros p t acc Hf. cbn [arr_loop].
    destruct (fst t =? 93) eqn:E93.
    { apply (next_tok p _ p t); [apply moved_refl|lia|].
      intros p' t' M L. cbn [good]. unfold pv_post. cbn [fst snd]. split; [assumption|lia]. }
    eapply good_bind; [apply IHv; lia|].
    intros [[v p1] t1] [M1 L1]. cbn [fst snd] in *.
    destruct (fst t1 =? 93) eqn:E93'.
    { apply (next_tok p _ p1 t1); [exact M1|lia|].
      intros p' t' M L. cbn [good]. unfold pv_post. cbn [fst snd]. split; [assumption|lia]. }
    destruct (negb (fst t1 =? 44)) eqn:E44.
    { cbn. exact M1. }
    apply (next_tok p _ p1 t1); [exact M1|lia|].
    intros p2 t2 M2 L2. eapply pv_shift; [exact M2| |apply IHa]; lia.
  - (* parseObject loop *)
    intros p t acc Hf. cbn [obj_loop].
    destruct (fst t =? 125) eqn:E125.
    { apply (next_tok p _ p t); [apply moved_refl|lia|].
      intros p' t' M L. cbn [good]. unfold pv_post. cbn [fst snd]. split; [assumption|lia]. }
    destruct (negb (fst t =? 34)) eqn:E34.
    { cbn. apply moved_refl. }
    apply (next_tok p _ p t); [apply moved_refl|lia|].
    intros p1 t1 M1 L1.
    destruct (negb (fst t1 =? 58)) eqn:E58.
    { cbn. exact M1. }
    apply (next_tok p _ p1 t1); [exact M1|lia|].
    intros p2 t2 M2 L2.
    eapply (good_bind _ _ (fun a => movedp p (snd (fst a)) /\ (msr (snd (fst a)) (snd a) < msr p2 t2)%nat)).
    { eapply good_shift; [exact M2|apply IHv; lia|].
      intros a [Ma La]. split; [eapply moved_trans; eauto|exact La]. }
    intros [[v p3] t3] [M3' L3]. cbn [fst snd] in *.
    destruct (fst t3 =? 125) eqn:E125'.
    { apply (next_tok p _ p3 t3); [exact M3'|lia|].
      intros p' t' M L. cbn [good]. unfold pv_post. cbn [fst snd]. split; [assumption|lia]. }
    destruct (negb (fst t3 =? 44)) eqn:E44.
    { cbn. exact M3'. }
    apply (next_tok p _ p3 t3); [exact M3'|lia|].
    intros p4 t4 M4 L4. eapply pv_shift; [exact M4| |apply IHo]; lia.
Qed.

(* ---------- parse ---------- *)
Lemma parse_good s :
  good 1 s (fun _ : value * pos * tok => True)
       (bind (read_token (mkPos 1 s)) (fun '(p, t) => parse_value (parse_fuel s) p t)).
Proof.
  eapply good_bind; [apply (read_token_good (mkPos 1 s))|].
  intros [p t] [M L]. cbn [fst snd p_line p_rest] in *.
  eapply good_shift; [exact M|apply (proj1 (parser_good (parse_fuel s)))|auto].
  unfold parse_fuel. lia.
Qed.

Lemma parse_total s : parse s <> POutOfFuel.
Proof.
  unfold parse. pose proof (parse_good s) as G.
  destruct (bind _ _) as [[[v p] t]| | |]; cbn in G; try discriminate; contradiction.
Qed.

Lemma parse_in_bounds s : parse s <> POutOfBounds.
Proof.
  unfold parse. pose proof (parse_good s) as G.
  destruct (bind _ _) as [[[v p] t]| | |]; cbn in G; try discriminate; contradiction.
Qed.

Lemma parse_error_position s line col msg :
  parse s = PErr line col msg -> position_inside s line col.
Proof.
  unfold parse. pose proof (parse_good s) as G.
  destruct (bind _ _) as [[[v p] t]|le at_ m| |]; cbn in G; try discriminate; try contradiction.
  intros H. injection H as <- <- <-. destruct G as [[pre ->] E].
  exists pre, at_. split; [reflexivity|]. split; [lia|].
  unfold column. rewrite frev_eq, app_length.
  replace (length pre + length at_ - length at_)%nat with (length pre) by lia.
  rewrite firstn_app, Nat.sub_diag, firstn_all. cbn [firstn]. rewrite app_nil_r.
  now rewrite back_run_run.
Qed.

(* line and column are at least 1 and the line does not exceed the number of lines of the text *)
Lemma position_inside_range s line col :
  position_inside s line col -> 1 <= line <= 1 + nbreaks s /\ 1 <= col.
Proof.
  intros (pre & post & -> & -> & ->).
  pose proof (nbreaks_nonneg post). pose proof (nbreaks_nonneg pre).
  split; [|lia]. split; [|lia].
  (* nbreaks post <= nbreaks (pre ++ post) *)
  assert (forall a b, nbreaks b <= nbreaks (a ++ b)).
  { induction a as [|c a IH]; intros b; [cbn; lia|].
    change ((c :: a) ++ b) with (c :: (a ++ b)). rewrite nbreaks_cons.
    specialize (IH b). destruct (c =? 10); [lia|]. destruct (c =? 13); [|lia].
    destruct a as [|d a'].
    - cbn [app] in *. destruct (hd0 b =? 10); lia.
    - cbn [app hd0] in *. destruct (d =? 10) eqn:Ed; [|lia]. lia. }
  specialize (H1 pre post). lia.
Qed.

(* the executable form used by the check on the implementation's answers is sound *)
Lemma pos_search_sound total pre post line col :
  pos_search total post (Z.of_nat (length (run (rev pre)))) line col = true ->
  exists pre' post', pre ++ post = pre' ++ post' /\
    line = 1 + (total - nbreaks post') /\ col = 1 + Z.of_nat (length (run (rev pre'))).
Proof.
  revert pre. induction post as [|c t IH]; intros pre H; cbn [pos_search] in H.
  - rewrite orb_false_r in H. exists pre, []. repeat split; lia.
  - apply orb_true_iff in H as [H|H].
    + exists pre, (c :: t). repeat split; lia.
    + specialize (IH (pre ++ [c])).
      rewrite rev_app_distr in IH. cbn [rev app run] in IH.
      destruct (brk c) eqn:Eb.
      * cbn [length] in IH. destruct (IH H) as (pre' & post' & E & ? & ?).
        exists pre', post'. rewrite <- E, <- app_assoc. repeat split; auto.
      * cbn [length] in IH. rewrite Nat2Z.inj_succ in IH.
        replace (Z.succ (Z.of_nat (length (run (rev pre))))) with (Z.of_nat (length (run (rev pre))) + 1) in IH by lia.
        destruct (IH H) as (pre' & post' & E & ? & ?).
        exists pre', post'. rewrite <- E, <- app_assoc. repeat split; auto.
Qed.

Lemma position_insideb_sound s line col :
  position_insideb s line col = true -> position_inside s line col.
Proof.
  unfold position_insideb. intros H.
  destruct (pos_search_sound (nbreaks s) [] s line col H) as (pre & post & E & ? & ?).
  exists pre, post. cbn [app] in E. auto.
Qed.
