(* stripComments (the state machine of the code: findOneOf scans, block loop, string copy loop)
   equals the reference machine of JsonSpec for every input. *)
From Coq Require Import ZArith List Bool Lia.
Require Import ZifyBool.
From Json Require Import JsonSpec JsonModel JsonProofsBase.
Import ListNotations.
Local Open Scope Z_scope.

Notation ref := reference_strip_from.

(* one step equations of the reference machine *)
Lemma ref_normal_plain c t :
  c <> 34 -> (c = 47 -> hd0 t <> 47 /\ hd0 t <> 42) -> ref Normal (c :: t) = c :: ref Normal t.
Proof.
  intros H1 H2. cbn [reference_strip_from].
  destruct (c =? 34) eqn:E1; [lia|]. destruct (c =? 47) eqn:E2; [|reflexivity].
  destruct t as [|d t']; [reflexivity|]. cbn [hd0] in H2.
  destruct (d =? 47) eqn:E3; [lia|]. destruct (d =? 42) eqn:E4; [lia|]. reflexivity.
Qed.

Lemma ref_block_star t : hd0 t <> 47 -> ref BlockComment (42 :: t) = ref BlockComment t.
Proof.
  intros H. cbn [reference_strip_from]. cbn [Z.eqb Pos.eqb].
  destruct t as [|d t']; [reflexivity|]. cbn [hd0] in H. destruct (d =? 47) eqn:E; [lia|reflexivity].
Qed.

(* // comment: findOneOf(src, "\r\n") *)
Lemma line_comment_scan x :
  match find_one_of [13; 10] x with
  | None => ref LineComment x = []
  | Some e => ref LineComment x = ref Normal e /\ (length e <= length x)%nat
  end.
Proof.
  induction x as [|c t IH]; [reflexivity|].
  cbn [find_one_of existsb]. destruct ((c =? 13) || ((c =? 10) || false)) eqn:E.
  - split; [|lia]. cbn [reference_strip_from]. unfold brk.
    destruct ((c =? 10) || (c =? 13)) eqn:E'; [|lia].
    destruct (c =? 34) eqn:E1; [lia|]. destruct (c =? 47) eqn:E2; [lia|]. reflexivity.
  - cbn [reference_strip_from]. unfold brk. destruct ((c =? 10) || (c =? 13)) eqn:E'; [lia|].
    destruct (find_one_of [13; 10] t) as [e|]; [|exact IH].
    destruct IH as [IH1 IH2]. split; [exact IH1|cbn [length]; lia].
Qed.

(* inside a block comment: findOneOf(src, "\r\n*") *)
Lemma block_scan x :
  match find_one_of [13; 10; 42] x with
  | None => ref BlockComment x = []
  | Some e => ref BlockComment x = ref BlockComment e /\ (length e <= length x)%nat /\
              exists c t, e = c :: t /\ (c = 13 \/ c = 10 \/ c = 42)
  end.
Proof.
  induction x as [|c t IH]; [reflexivity|].
  cbn [find_one_of existsb]. destruct ((c =? 13) || ((c =? 10) || ((c =? 42) || false))) eqn:E.
  - split; [reflexivity|]. split; [lia|]. exists c, t. split; [reflexivity|lia].
  - assert (R : ref BlockComment (c :: t) = ref BlockComment t).
    { cbn [reference_strip_from]. destruct (c =? 42) eqn:E1; [lia|]. unfold brk.
      destruct ((c =? 10) || (c =? 13)) eqn:E2; [lia|reflexivity]. }
    rewrite R. destruct (find_one_of [13; 10; 42] t) as [e|]; [|exact IH].
    destruct IH as (IH1 & IH2 & IH3). split; [exact IH1|]. split; [cbn [length]; lia|exact IH3].
Qed.

Lemma strip_block_ref fb : forall x out, (length x < fb)%nat ->
  match strip_block fb x out with
  | (Some r', out') => rev (ref BlockComment x) ++ out = rev (ref Normal r') ++ out' /\
                       (length r' <= length x)%nat
  | (None, out') => out' = rev (ref BlockComment x) ++ out
  end.
Proof.
  induction fb as [|f IH]; intros x out Hf; [lia|].
  cbn [strip_block]. pose proof (block_scan x) as S.
  destruct (find_one_of [13; 10; 42] x) as [e|]; [|rewrite S; reflexivity].
  destruct S as (S1 & S2 & c & t & -> & Hc). rewrite S1. cbn [length] in S2.
  destruct ((c =? 42) && (peek t =? 47)) eqn:E1.
  - assert (c = 42) by lia. subst c. destruct t as [|d t']; [cbn in E1; lia|].
    cbn [peek] in E1. assert (d = 47) by lia. subst d. cbn [tl].
    split; [reflexivity|cbn [length] in *; lia].
  - destruct (c =? 42) eqn:E2.
    + assert (c = 42) by lia. subst c. rewrite ref_block_star by (rewrite <- peek_hd0; lia).
      specialize (IH t out ltac:(lia)).
      destruct (strip_block f t out) as [[r'|] out']; [|exact IH].
      destruct IH as [IH1 IH2]. split; [exact IH1|lia].
    + assert (R : ref BlockComment (c :: t) = c :: ref BlockComment t).
      { cbn [reference_strip_from]. rewrite E2. unfold brk.
        destruct ((c =? 10) || (c =? 13)) eqn:E3; [reflexivity|lia]. }
      rewrite R. cbn [rev]. rewrite <- app_assoc. cbn [app].
      specialize (IH t (c :: out) ltac:(lia)).
      destruct (strip_block f t (c :: out)) as [[r'|] out']; [|exact IH].
      destruct IH as [IH1 IH2]. split; [exact IH1|lia].
Qed.

(* the copy loop of a string literal *)
Lemma strip_string_ref n : forall x out, (length x <= n)%nat ->
  rev (ref InString x) ++ out = rev (ref Normal (fst (strip_string x out))) ++ snd (strip_string x out) /\
  (length (fst (strip_string x out)) <= length x)%nat.
Proof.
  induction n as [|n IH]; intros x out Hn.
  - destruct x; [cbn; split; [reflexivity|cbn [length fst snd]; lia]|cbn [length] in Hn; lia].
  - destruct x as [|c t]; [cbn; split; [reflexivity|cbn [length fst snd]; lia]|].
    cbn [length] in Hn. cbn [strip_string reference_strip_from].
    destruct (c =? 92) eqn:E1.
    + destruct t as [|e t'].
      * cbn. split; [reflexivity|cbn [length fst snd]; lia].
      * cbn [reference_strip_from length] in *.
        destruct n as [|n']; [lia|].
        assert (IH' : forall x out, (length x <= n')%nat ->
          rev (ref InString x) ++ out = rev (ref Normal (fst (strip_string x out))) ++ snd (strip_string x out) /\
          (length (fst (strip_string x out)) <= length x)%nat).
        { intros. apply IH. lia. }
        destruct (IH' t' (e :: c :: out) ltac:(lia)) as [I1 I2].
        split; [|cbn [length fst snd] in *; lia]. rewrite <- I1. cbn [rev]. rewrite <- !app_assoc. reflexivity.
    + destruct (c =? 34) eqn:E2.
      * cbn [fst snd]. split; [|cbn [length fst snd] in *; lia]. cbn [rev]. rewrite <- app_assoc. reflexivity.
      * destruct (IH t (c :: out) ltac:(lia)) as [I1 I2].
        split; [|cbn [length fst snd] in *; lia]. rewrite <- I1. cbn [rev]. rewrite <- app_assoc. reflexivity.
Qed.

Lemma strip_main_ref f : forall r out, (length r < f)%nat ->
  strip_main f r out = rev (ref Normal r) ++ out.
Proof.
  induction f as [|f IH]; intros r out Hf; [lia|].
  cbn [strip_main]. destruct r as [|c t]; [reflexivity|]. cbn [length] in Hf.
  destruct ((c =? 47) && (peek t =? 47)) eqn:E1.
  { assert (c = 47) by lia. subst c. destruct t as [|d t']; [cbn in E1; lia|].
    cbn [peek] in E1. assert (d = 47) by lia. subst d.
    change (find_one_of [13; 10] (47 :: 47 :: t')) with (find_one_of [13; 10] t').
    change (ref Normal (47 :: 47 :: t')) with (ref LineComment t').
    pose proof (line_comment_scan t') as S.
    destruct (find_one_of [13; 10] t') as [e|]; [|rewrite S; reflexivity].
    destruct S as [S1 S2]. rewrite S1. apply IH. cbn [length] in Hf. lia. }
  destruct ((c =? 47) && (peek t =? 42)) eqn:E2.
  { assert (c = 47) by lia. subst c. destruct t as [|d t']; [cbn in E2; lia|].
    cbn [peek] in E2. assert (d = 42) by lia. subst d. cbn [tl].
    change (ref Normal (47 :: 42 :: t')) with (ref BlockComment t').
    pose proof (strip_block_ref (S (length (42 :: t'))) t' out ltac:(cbn [length]; lia)) as B.
    destruct (strip_block (S (length (42 :: t'))) t' out) as [[r'|] out']; [|exact B].
    destruct B as [B1 B2]. rewrite B1. apply IH. cbn [length] in Hf. lia. }
  destruct (negb (c =? 34)) eqn:E3.
  { rewrite ref_normal_plain.
    - cbn [rev]. rewrite <- app_assoc. apply IH. lia.
    - lia.
    - intros ->. rewrite <- peek_hd0. lia. }
  assert (c = 34) by lia. subst c.
  pose proof (strip_string_ref (length t) t (34 :: out) ltac:(lia)) as [S1 S2].
  destruct (strip_string t (34 :: out)) as [r' out']. cbn [fst snd] in *.
  change (ref Normal (34 :: t)) with (34 :: ref InString t).
  cbn [rev]. rewrite <- app_assoc. cbn [app]. rewrite S1. apply IH. lia.
Qed.

(* ---------- the C string inside a String ---------- *)
Lemma cstr_length s : (length (cstr s) <= length s)%nat.
Proof. induction s as [|c t IH]; [cbn; lia|]. cbn [cstr]. destruct (c =? 0); cbn [length]; lia. Qed.

Lemma cstr_nulfree s : ~ In 0 s -> cstr s = s.
Proof.
  induction s as [|c t IH]; intros H; [reflexivity|]. cbn [cstr].
  destruct (c =? 0) eqn:E; [exfalso; apply H; left; lia|]. f_equal. apply IH. intros X. apply H. right. exact X.
Qed.

Lemma cstr_no_nul s : ~ In 0 (cstr s).
Proof.
  induction s as [|c t IH]; [intros []|]. cbn [cstr]. destruct (c =? 0) eqn:E; [intros []|].
  intros [X|X]; [lia|exact (IH X)].
Qed.

(* the bytes before the first 0 byte: s = cstr s, or s = cstr s ++ 0 :: rest *)
Lemma cstr_prefix s : s = cstr s \/ exists rest, s = cstr s ++ 0 :: rest.
Proof.
  induction s as [|c t IH]; [left; reflexivity|]. cbn [cstr]. destruct (c =? 0) eqn:E.
  - right. exists t. assert (c = 0) by lia. subst c. reflexivity.
  - destruct IH as [IH|[rest IH]]; [left; cbn [app]; congruence|right; exists rest; cbn [app]; congruence].
Qed.

Lemma strip_comments_is_reference s : strip_comments s = reference_strip (cstr s).
Proof.
  unfold strip_comments, reference_strip. rewrite frev_eq, strip_main_ref by (pose proof (cstr_length s); lia).
  rewrite app_nil_r. apply rev_involutive.
Qed.

Lemma strip_comments_is_reference_nulfree s : ~ In 0 s -> strip_comments s = reference_strip s.
Proof. intros H. rewrite strip_comments_is_reference, cstr_nulfree by exact H. reflexivity. Qed.

(* ---------- what the reference keeps ---------- *)
(* every line break byte of the input is kept, in order (whatever the mode) *)
Lemma ref_keeps_breaks n : forall m s, (length s <= n)%nat ->
  filter brk (ref m s) = filter brk s.
Proof.
  induction n as [|n IH]; intros m s Hn.
  - destruct s; [destruct m; reflexivity|cbn [length] in Hn; lia].
  - destruct s as [|c t]; [destruct m; reflexivity|]. cbn [length] in Hn.
    assert (IHt : forall m', filter brk (ref m' t) = filter brk t) by (intros; apply IH; lia).
    assert (KEEP : forall m', filter brk (c :: ref m' t) = filter brk (c :: t)).
    { intros m'. cbn [filter]. rewrite IHt. reflexivity. }
    assert (DROP : forall m', brk c = false -> filter brk (ref m' t) = filter brk (c :: t)).
    { intros m' Hc. cbn [filter]. rewrite Hc. apply IHt. }
    destruct m; cbn [reference_strip_from].
    + destruct (c =? 34) eqn:E1; [apply KEEP|]. destruct (c =? 47) eqn:E2; [|apply KEEP].
      destruct t as [|d t']; [apply KEEP|].
      assert (IH2 : forall m', brk d = false -> filter brk (ref m' t') = filter brk (c :: d :: t')).
      { intros m' Bd. cbn [filter]. rewrite Bd.
        assert (Bc : brk c = false) by (unfold brk; lia). rewrite Bc.
        apply IH. cbn [length] in Hn. lia. }
      destruct (d =? 47) eqn:E3.
      * apply IH2. unfold brk. lia.
      * destruct (d =? 42) eqn:E4; [apply IH2; unfold brk; lia|apply KEEP].
    + destruct (c =? 92); [apply KEEP|]. destruct (c =? 34); apply KEEP.
    + apply KEEP.
    + destruct (brk c) eqn:B; [apply KEEP|now apply DROP].
    + destruct (c =? 42) eqn:E1.
      * assert (Bc : brk c = false) by (unfold brk; lia).
        destruct t as [|d t']; [now apply DROP|].
        destruct (d =? 47) eqn:E2; [|now apply DROP].
        cbn [filter]. rewrite Bc. assert (Bd : brk d = false) by (unfold brk; lia). rewrite Bd.
        apply IH. cbn [length] in Hn. lia.
      * destruct (brk c) eqn:B; [apply KEEP|now apply DROP].
Qed.

Lemma strip_keeps_line_breaks s : filter brk (strip_comments s) = filter brk (cstr s).
Proof.
  rewrite strip_comments_is_reference. apply (ref_keeps_breaks (length (cstr s))). lia.
Qed.

(* a text without any slash has no comment: nothing is removed *)
Lemma ref_no_slash m s :
  ~ In 47 s -> m <> LineComment -> m <> BlockComment -> ref m s = s.
Proof.
  revert m. induction s as [|c t IH]; intros m H M1 M2; [destruct m; reflexivity|].
  assert (c <> 47) by (intros ->; apply H; left; reflexivity).
  assert (Ht : ~ In 47 t) by (intros X; apply H; right; exact X).
  destruct m; try congruence; cbn [reference_strip_from].
  - destruct (c =? 34); [f_equal; apply IH; auto; discriminate|].
    destruct (c =? 47) eqn:E; [lia|]. f_equal. apply IH; auto.
  - destruct (c =? 92); [f_equal; apply IH; auto; discriminate|].
    destruct (c =? 34); f_equal; apply IH; auto; discriminate.
  - f_equal. apply IH; auto; discriminate.
Qed.

Lemma in_cstr c s : In c (cstr s) -> In c s.
Proof.
  induction s as [|d t IH]; [intros []|]. cbn [cstr]. destruct (d =? 0); [intros []|].
  intros [X|X]; [left; exact X|right; exact (IH X)].
Qed.

Lemma strip_no_slash_identity s : ~ In 47 s -> strip_comments s = cstr s.
Proof.
  intros H. rewrite strip_comments_is_reference. apply ref_no_slash; [|discriminate|discriminate].
  intros X. apply H. apply in_cstr. exact X.
Qed.

(* ---------- memory safety of the machine as written: every read and write is inside its buffer ---------- *)
(* w is the number of bytes written, and what is written plus what is still ahead fits the destination *)
Definition fits (cap w : Z) (out r : list Z) : Prop :=
  w = Z.of_nat (length out) /\ w + Z.of_nat (length r) <= cap.

Lemma strip_string_chk_ok cap n : forall r w out, (length r <= n)%nat -> fits cap w out r ->
  strip_string_chk cap w r out =
    Ok (fst (strip_string r out), Z.of_nat (length (snd (strip_string r out))), snd (strip_string r out)) /\
  (length (snd (strip_string r out)) + length (fst (strip_string r out)) <= length out + length r)%nat.
Proof.
  unfold fits. induction n as [|n IH]; intros r w out Hn [Hw Hc].
  - destruct r; [|cbn [length] in Hn; lia]. cbn. subst w. split; [reflexivity|lia].
  - destruct r as [|c t]; [cbn; subst w; split; [reflexivity|lia]|].
    cbn [length] in Hn, Hc. cbn [strip_string_chk strip_string]. unfold rd0, rd1. cbn [peek].
    destruct (c =? 92) eqn:E1.
    + destruct t as [|e t'].
      * unfold wr. destruct (w <=? cap) eqn:W; [|lia].
        cbn [strip_string_chk strip_string peek fst snd length]. unfold rd0. subst w.
        split; [f_equal; f_equal; f_equal; lia|lia].
      * unfold wr. cbn [length] in *.
        destruct (w <=? cap) eqn:W; [|lia].
        destruct (w + 1 <=? cap) eqn:W2; [|lia].
        destruct n as [|n']; [lia|].
        assert (IH' : forall r w out, (length r <= n')%nat -> w = Z.of_nat (length out) /\ w + Z.of_nat (length r) <= cap ->
          strip_string_chk cap w r out =
            Ok (fst (strip_string r out), Z.of_nat (length (snd (strip_string r out))), snd (strip_string r out)) /\
          (length (snd (strip_string r out)) + length (fst (strip_string r out)) <= length out + length r)%nat).
        { intros. apply IH; [lia|assumption]. }
        destruct (IH' t' (w + 1 + 1) (e :: c :: out) ltac:(lia) ltac:(cbn [length]; lia)) as [I1 I2].
        split; [exact I1|cbn [length] in *; lia].
    + destruct (c =? 34) eqn:E2.
      * unfold wr. destruct (w <=? cap) eqn:W; [|lia]. cbn [fst snd length]. subst w.
        split; [f_equal; f_equal; f_equal; lia|lia].
      * unfold wr. destruct (w <=? cap) eqn:W; [|lia].
        destruct (IH t (w + 1) (c :: out) ltac:(lia) ltac:(cbn [length]; lia)) as [I1 I2].
        split; [exact I1|cbn [length] in *; lia].
Qed.

Lemma strip_block_chk_ok cap fb : forall r w out, (length r < fb)%nat -> fits cap w out r ->
  strip_block_chk cap fb w r out =
    Ok (fst (strip_block fb r out), Z.of_nat (length (snd (strip_block fb r out))), snd (strip_block fb r out)) /\
  match strip_block fb r out with
  | (Some r', out') => (length out' + length r' <= length out + length r)%nat /\ (length r' <= length r)%nat
  | (None, out') => (length out' <= length out + length r)%nat
  end.
Proof.
  unfold fits. induction fb as [|f IH]; intros r w out Hf [Hw Hc]; [lia|].
  cbn [strip_block_chk strip_block]. pose proof (block_scan r) as S.
  destruct (find_one_of [13; 10; 42] r) as [e|]; [|cbn [fst snd]; subst w; split; [reflexivity|lia]].
  destruct S as (_ & S2 & c & t & -> & Hc'). cbn [length] in S2.
  unfold rd0, rd1. cbn [peek].
  destruct (c =? 42) eqn:E2.
  - assert (c = 42) by lia. subst c. cbn [Z.eqb Pos.eqb andb].
    destruct (peek t =? 47) eqn:E3.
    + cbn [fst snd]. subst w. split; [reflexivity|]. destruct t as [|d t']; [cbn in E3; lia|]. cbn [tl length] in *. lia.
    + destruct (IH t w out ltac:(lia) ltac:(lia)) as [I1 I2]. split; [exact I1|].
      destruct (strip_block f t out) as [[r'|] out']; lia.
  - cbn [andb].
    unfold wr. destruct (w <=? cap) eqn:W; [|lia].
    destruct (IH t (w + 1) (c :: out) ltac:(lia) ltac:(cbn [length]; lia)) as [I1 I2]. split; [exact I1|].
    destruct (strip_block f t (c :: out)) as [[r'|] out']; cbn [length] in *; lia.
Qed.

Lemma strip_main_chk_ok cap f : forall r w out, (length r < f)%nat -> fits cap w out r ->
  strip_main_chk cap f w r out = Ok (Z.of_nat (length (strip_main f r out)), strip_main f r out) /\
  (length (strip_main f r out) <= length out + length r)%nat.
Proof.
  unfold fits. induction f as [|f IH]; intros r w out Hf [Hw Hc]; [lia|].
  cbn [strip_main_chk strip_main]. unfold rd0 at 1.
  destruct r as [|c t]; [subst w; split; [reflexivity|lia]|]. cbn [length] in Hf, Hc. cbn [peek].
  destruct (c =? 47) eqn:E0.
  - assert (c = 47) by lia. subst c. cbn [Z.eqb Pos.eqb andb].
    unfold rd1.
    destruct (peek t =? 47) eqn:E1.
    + destruct t as [|d t']; [cbn in E1; lia|]. cbn [peek] in E1. assert (d = 47) by lia. subst d.
      change (find_one_of [13; 10] (47 :: 47 :: t')) with (find_one_of [13; 10] t').
      pose proof (line_comment_scan t') as S.
      destruct (find_one_of [13; 10] t') as [e|]; [|subst w; split; [reflexivity|lia]].
      destruct S as [_ S2]. cbn [length] in *.
      destruct (IH e w out ltac:(lia) ltac:(lia)) as [I1 I2]. split; [exact I1|lia].
    + destruct (peek t =? 42) eqn:E2.
      * destruct t as [|d t2]; [cbn in E2; lia|]. cbn [tl length] in *.
        destruct (strip_block_chk_ok cap (S (S (length t2))) t2 w out ltac:(lia) ltac:(unfold fits; lia)) as [B1 B2].
        rewrite B1. cbn [bind].
        destruct (strip_block (S (S (length t2))) t2 out) as [[r'|] out']; cbn [fst snd]; [|split; [reflexivity|lia]].
        destruct B2 as [B2 B3].
        destruct (IH r' (Z.of_nat (length out')) out' ltac:(lia) ltac:(lia)) as [I1 I2]. split; [exact I1|lia].
      * cbn [negb]. unfold wr. destruct (w <=? cap) eqn:W; [|lia].
        destruct (IH t (w + 1) (47 :: out) ltac:(lia) ltac:(cbn [length]; lia)) as [I1 I2].
        split; [exact I1|cbn [length] in *; lia].
  - cbn [andb]. destruct (negb (c =? 34)) eqn:E3.
    + unfold wr. destruct (w <=? cap) eqn:W; [|lia].
      destruct (IH t (w + 1) (c :: out) ltac:(lia) ltac:(cbn [length]; lia)) as [I1 I2].
      split; [exact I1|cbn [length] in *; lia].
    + unfold wr. destruct (w <=? cap) eqn:W; [|lia].
      destruct (strip_string_chk_ok cap (length t) t (w + 1) (c :: out) ltac:(lia) ltac:(unfold fits; cbn [length]; lia)) as [S1 S2].
      pose proof (strip_string_ref (length t) t (c :: out) ltac:(lia)) as [_ S3].
      rewrite S1. cbn [bind]. destruct (strip_string t (c :: out)) as [r' out']. cbn [fst snd length] in *.
      destruct (IH r' (Z.of_nat (length out')) out' ltac:(lia) ltac:(lia)) as [I1 I2]. split; [exact I1|lia].
Qed.

Lemma strip_comments_length s : (length (strip_comments s) <= length (cstr s))%nat.
Proof.
  unfold strip_comments. rewrite frev_eq, rev_length.
  pose proof (cstr_length s).
  destruct (strip_main_chk_ok (Z.of_nat (length s)) (S (length s)) (cstr s) 0 [] ltac:(lia) ltac:(unfold fits; cbn [length]; lia)) as [_ L].
  cbn [length] in L. lia.
Qed.

Lemma strip_comments_chk_ok s : strip_comments_chk s = Ok (strip_comments s).
Proof.
  unfold strip_comments_chk, strip_comments. pose proof (cstr_length s).
  destruct (strip_main_chk_ok (Z.of_nat (length s)) (S (length s)) (cstr s) 0 [] ltac:(lia) ltac:(unfold fits; cbn [length]; lia)) as [E L].
  rewrite E. cbn [bind]. unfold wr. cbn [length] in L.
  destruct (Z.of_nat (length (strip_main (S (length s)) (cstr s) [])) <=? Z.of_nat (length s)) eqn:W; [reflexivity|lia].
Qed.

(* ---------- the reference machine against the grammar of JsonSpec.strips ---------- *)
Lemma ref_instring_lit l : lit_body l -> forall s, ref InString (l ++ 34 :: s) = l ++ 34 :: ref Normal s.
Proof.
  induction 1 as [|c t H1 H2 _ IH|e t _ IH]; intros s.
  - reflexivity.
  - cbn [app reference_strip_from]. destruct (c =? 92) eqn:E1; [lia|]. destruct (c =? 34) eqn:E2; [lia|].
    rewrite IH. reflexivity.
  - cbn [app reference_strip_from Z.eqb Pos.eqb]. rewrite IH. reflexivity.
Qed.

Lemma ref_instring_open l : lit_open l -> ref InString l = l.
Proof.
  induction 1 as [| |c t H1 H2 _ IH|e t _ IH].
  - reflexivity.
  - reflexivity.
  - cbn [reference_strip_from]. destruct (c =? 92) eqn:E1; [lia|]. destruct (c =? 34) eqn:E2; [lia|].
    rewrite IH. reflexivity.
  - cbn [reference_strip_from Z.eqb Pos.eqb]. rewrite IH. reflexivity.
Qed.

Lemma ref_line b : no_break b = true -> forall s, (s = [] \/ brk (hd0 s) = true) ->
  ref LineComment (b ++ s) = ref Normal s.
Proof.
  induction b as [|c t IH]; intros Hb s Hs.
  - cbn [app]. destruct Hs as [->|Hs]; [reflexivity|].
    destruct s as [|c t]; [reflexivity|]. cbn [hd0] in Hs. cbn [reference_strip_from]. rewrite Hs.
    unfold brk in Hs. destruct (c =? 34) eqn:E1; [lia|]. destruct (c =? 47) eqn:E2; [lia|]. reflexivity.
  - cbn [no_break forallb] in Hb. apply andb_prop in Hb. destruct Hb as [Hc Ht].
    cbn [app reference_strip_from]. destruct (brk c); [discriminate|]. apply IH; assumption.
Qed.

Lemma hd0_app_close t s : hd0 t <> 47 -> hd0 (t ++ 42 :: 47 :: s) <> 47.
Proof. destruct t; cbn [app hd0]; lia. Qed.

Lemma ref_block b : no_close b = true -> forall s, ref BlockComment (b ++ 42 :: 47 :: s) = filter brk b ++ ref Normal s.
Proof.
  induction b as [|c t IH]; intros Hb s.
  - reflexivity.
  - cbn [no_close] in Hb. apply andb_prop in Hb. destruct Hb as [Hc Ht]. cbn [app].
    destruct (c =? 42) eqn:E.
    + assert (c = 42) by lia. subst c. assert (H47 : hd0 t <> 47) by lia.
      rewrite ref_block_star by (apply hd0_app_close; exact H47).
      rewrite IH by exact Ht. reflexivity.
    + cbn [reference_strip_from]. rewrite E. cbn [filter]. destruct (brk c); cbn [app]; rewrite IH by exact Ht; reflexivity.
Qed.

Lemma ref_block_open b : no_close b = true -> ref BlockComment b = filter brk b.
Proof.
  induction b as [|c t IH]; intros Hb; [reflexivity|].
  cbn [no_close] in Hb. apply andb_prop in Hb. destruct Hb as [Hc Ht].
  destruct (c =? 42) eqn:E.
  - assert (c = 42) by lia. subst c. rewrite ref_block_star by lia. rewrite IH by exact Ht. reflexivity.
  - cbn [reference_strip_from]. rewrite E. cbn [filter]. destruct (brk c); rewrite IH by exact Ht; reflexivity.
Qed.

Lemma strips_sound s o : strips s o -> reference_strip s = o.
Proof.
  unfold reference_strip. induction 1 as [|c s o H1 H2 _ IH|l s o Hl _ IH|l Hl|b s o Hb Hs _ IH|b s o Hb _ IH|b Hb].
  - reflexivity.
  - rewrite ref_normal_plain by assumption. rewrite IH. reflexivity.
  - change (ref Normal (34 :: l ++ 34 :: s)) with (34 :: ref InString (l ++ 34 :: s)).
    rewrite ref_instring_lit by exact Hl. rewrite IH. reflexivity.
  - change (ref Normal (34 :: l)) with (34 :: ref InString l). rewrite ref_instring_open by exact Hl. reflexivity.
  - change (ref Normal (47 :: 47 :: b ++ s)) with (ref LineComment (b ++ s)).
    rewrite ref_line by assumption. exact IH.
  - change (ref Normal (47 :: 42 :: b ++ 42 :: 47 :: s)) with (ref BlockComment (b ++ 42 :: 47 :: s)).
    rewrite ref_block by exact Hb. rewrite IH. reflexivity.
  - change (ref Normal (47 :: 42 :: b)) with (ref BlockComment b). apply ref_block_open. exact Hb.
Qed.

Lemma strip_comments_follows_grammar s o : strips (cstr s) o -> strip_comments s = o.
Proof. intros H. rewrite strip_comments_is_reference. apply strips_sound. exact H. Qed.
