(* stripComments (the state machine of the code: findOneOf scans, block loop, string copy loop)
   equals the reference machine of JsonSpec for every input. *)
From Coq Require Import ZArith List Bool Lia.
Require Import ZifyBool.
From Json Require Import JsonSpec JsonModel JsonProofsBase.
Import ListNotations.
Local Open Scope Z_scope.

Notation ref := reference_strip_from.

(* one step equations of the reference machine *)
Lemma ref_normal_plain c t :
  c <> 34 -> (c = 47 -> hd0 t <> 47 /\ hd0 t <> 42) -> ref Normal (c :: t) = c :: ref Normal t.
Proof.
  intros H1 H2. cbn [reference_strip_from].
  destruct (c =? 34) eqn:E1; [lia|]. destruct (c =? 47) eqn:E2; [|reflexivity].
  destruct t as [|d t']; [reflexivity|]. cbn [hd0] in H2.
  destruct (d =? 47) eqn:E3; [lia|]. destruct (d =? 42) eqn:E4; [lia|]. reflexivity.
Qed.

Lemma ref_block_star t : hd0 t <> 47 -> ref BlockComment (42 :: t) = ref BlockComment t.
Proof.
  intros H. cbn [reference_strip_from]. cbn [Z.eqb Pos.eqb].
  destruct t as [|d t']; [reflexivity|]. cbn [hd0] in H. destruct (d =? 47) eqn:E; [lia|reflexivity].
Qed.

(* // comment: findOneOf(src, "\r\n") *)
Lemma line_comment_scan x :
  match find_one_of [13; 10] x with
  | None => ref LineComment x = []
  | Some e => ref LineComment x = ref Normal e /\ (length e <= length x)%nat
  end.
Proof.
  induction x as [|c t IH]; [reflexivity|].
  cbn [find_one_of existsb]. destruct ((c =? 13) || ((c =? 10) || false)) eqn:E.
  - split; [|lia]. cbn [reference_strip_from]. unfold brk.
    destruct ((c =? 10) || (c =? 13)) eqn:E'; [|lia].
    destruct (c =? 34) eqn:E1; [lia|]. destruct (c =? 47) eqn:E2; [lia|]. reflexivity.
  - cbn [reference_strip_from]. unfold brk. destruct ((c =? 10) || (c =? 13)) eqn:E'; [lia|].
    destruct (find_one_of [13; 10] t) as [e|]; [|exact IH].
    destruct IH as [IH1 IH2]. split; [exact IH1|cbn [length]; lia].
Qed.

(* inside a block comment: findOneOf(src, "\r\n*") *)
Lemma block_scan x :
  match find_one_of [13; 10; 42] x with
  | None => ref BlockComment x = []
  | Some e => ref BlockComment x = ref BlockComment e /\ (length e <= length x)%nat /\
              exists c t, e = c :: t /\ (c = 13 \/ c = 10 \/ c = 42)
  end.
Proof.
  induction x as [|c t IH]; [reflexivity|].
  cbn [find_one_of existsb]. destruct ((c =? 13) || ((c =? 10) || ((c =? 42) || false))) eqn:E.
  - split; [reflexivity|]. split; [lia|]. exists c, t. split; [reflexivity|lia].
  - assert (R : ref BlockComment (c :: t) = ref BlockComment t).
    { cbn [reference_strip_from]. destruct (c =? 42) eqn:E1; [lia|]. unfold brk.
      destruct ((c =? 10) || (c =? 13)) eqn:E2; [lia|reflexivity]. }
    rewrite R. destruct (find_one_of [13; 10; 42] t) as [e|]; [|exact IH].
    destruct IH as (IH1 & IH2 & IH3). split; [exact IH1|]. split; [cbn [length]; lia|exact IH3].
Qed.

Lemma strip_block_ref fb : forall x out, (length x < fb)%nat ->
  match strip_block fb x out with
  | (Some r', out') => rev (ref BlockComment x) ++ out = rev (ref Normal r') ++ out' /\
                       (length r' <= length x)%nat
  | (None, out') => out' = rev (ref BlockComment x) ++ out
  end.
Proof.
  induction fb as [|f IH]; intros x out Hf; [lia|].
  cbn [strip_block]. pose proof (block_scan x) as S.
  destruct (find_one_of [13; 10; 42] x) as [e|]; [|rewrite S; reflexivity].
  destruct S as (S1 & S2 & c & t & -> & Hc). rewrite S1. cbn [length] in S2.
  destruct ((c =? 42) && (peek t =? 47)) eqn:E1.
  - assert (c = 42) by lia. subst c. destruct t as [|d t']; [cbn in E1; lia|].
    cbn [peek] in E1. assert (d = 47) by lia. subst d. cbn [tl].
    split; [reflexivity|cbn [length] in *; lia].
  - destruct (c =? 42) eqn:E2.
    + assert (c = 42) by lia. subst c. rewrite ref_block_star by (rewrite <- peek_hd0; lia).
      specialize (IH t out ltac:(lia)).
      destruct (strip_block f t out) as [[r'|] out']; [|exact IH].
      destruct IH as [IH1 IH2]. split; [exact IH1|lia].
    + assert (R : ref BlockComment (c :: t) = c :: ref BlockComment t).
      { cbn [reference_strip_from]. rewrite E2. unfold brk.
        destruct ((c =? 10) || (c =? 13)) eqn:E3; [reflexivity|lia]. }
      rewrite R. cbn [rev]. rewrite <- app_assoc. cbn [app].
      specialize (IH t (c :: out) ltac:(lia)).
      destruct (strip_block f t (c :: out)) as [[r'|] out']; [|exact IH].
      destruct IH as [IH1 IH2]. split; [exact IH1|lia].
Qed.

(* the copy loop of a string literal *)
Lemma strip_string_ref n : forall x out, (length x <= n)%nat ->
  rev (ref InString x) ++ out = rev (ref Normal (fst (strip_string x out))) ++ snd (strip_string x out) /\
  (length (fst (strip_string x out)) <= length x)%nat.
Proof.
  induction n as [|n IH]; intros x out Hn.
  - destruct x; [cbn; split; [reflexivity|cbn [length fst snd]; lia]|cbn [length] in Hn; lia].
  - destruct x as [|c t]; [cbn; split; [reflexivity|cbn [length fst snd]; lia]|].
    cbn [length] in Hn. cbn [strip_string reference_strip_from].
    destruct (c =? 92) eqn:E1.
    + destruct t as [|e t'].
      * cbn. split; [reflexivity|cbn [length fst snd]; lia].
      * cbn [reference_strip_from length] in *.
        destruct n as [|n']; [lia|].
        assert (IH' : forall x out, (length x <= n')%nat ->
          rev (ref InString x) ++ out = rev (ref Normal (fst (strip_string x out))) ++ snd (strip_string x out) /\
          (length (fst (strip_string x out)) <= length x)%nat).
        { intros. apply IH. lia. }
        destruct (IH' t' (e :: c :: out) ltac:(lia)) as [I1 I2].
        split; [|cbn [length fst snd] in *; lia]. rewrite <- I1. cbn [rev]. rewrite <- !app_assoc. reflexivity.
    + destruct (c =? 34) eqn:E2.
      * cbn [fst snd]. split; [|cbn [length fst snd] in *; lia]. cbn [rev]. rewrite <- app_assoc. reflexivity.
      * destruct (IH t (c :: out) ltac:(lia)) as [I1 I2].
        split; [|cbn [length fst snd] in *; lia]. rewrite <- I1. cbn [rev]. rewrite <- app_assoc. reflexivity.
Qed.

Lemma strip_main_ref f : forall r out, (length r < f)%nat ->
  strip_main f r out = rev (ref Normal r) ++ out.
Proof.
  induction f as [|f IH]; intros r out Hf; [lia|].
  cbn [strip_main]. destruct r as [|c t]; [reflexivity|]. cbn [length] in Hf.
  destruct ((c =? 47) && (peek t =? 47)) eqn:E1.
  { assert (c = 47) by lia. subst c. destruct t as [|d t']; [cbn in E1; lia|].
    cbn [peek] in E1. assert (d = 47) by lia. subst d.
    change (find_one_of [13; 10] (47 :: 47 :: t')) with (find_one_of [13; 10] t').
    change (ref Normal (47 :: 47 :: t')) with (ref LineComment t').
    pose proof (line_comment_scan t') as S.
    destruct (find_one_of [13; 10] t') as [e|]; [|rewrite S; reflexivity].
    destruct S as [S1 S2]. rewrite S1. apply IH. cbn [length] in Hf. lia. }
  destruct ((c =? 47) && (peek t =? 42)) eqn:E2.
  { assert (c = 47) by lia. subst c. destruct t as [|d t']; [cbn in E2; lia|].
    cbn [peek] in E2. assert (d = 42) by lia. subst d. cbn [tl].
    change (ref Normal (47 :: 42 :: t')) with (ref BlockComment t').
    pose proof (strip_block_ref (S (length (42 :: t'))) t' out ltac:(cbn [length]; lia)) as B.
    destruct (strip_block (S (length (42 :: t'))) t' out) as [[r'|] out']; [|exact B].
    destruct B as [B1 B2]. rewrite B1. apply IH. cbn [length] in Hf. lia. }
  destruct (negb (c =? 34)) eqn:E3.
  { rewrite ref_normal_plain.
    - cbn [rev]. rewrite <- app_assoc. apply IH. lia.
    - lia.
    - intros ->. rewrite <- peek_hd0. lia. }
  assert (c = 34) by lia. subst c.
  pose proof (strip_string_ref (length t) t (34 :: out) ltac:(lia)) as [S1 S2].
  destruct (strip_string t (34 :: out)) as [r' out']. cbn [fst snd] in *.
  change (ref Normal (34 :: t)) with (34 :: ref InString t).
  cbn [rev]. rewrite <- app_assoc. cbn [app]. rewrite S1. apply IH. lia.
Qed.

Lemma strip_comments_is_reference s : strip_comments s = reference_strip s.
Proof.
  unfold strip_comments, reference_strip. rewrite strip_main_ref by lia.
  rewrite app_nil_r. apply rev_involutive.
Qed.

(* ---------- what the reference keeps ---------- *)
(* every line break byte of the input is kept, in order (whatever the mode) *)
Lemma ref_keeps_breaks n : forall m s, (length s <= n)%nat ->
  filter brk (ref m s) = filter brk s.
Proof.
  induction n as [|n IH]; intros m s Hn.
  - destruct s; [destruct m; reflexivity|cbn [length] in Hn; lia].
  - destruct s as [|c t]; [destruct m; reflexivity|]. cbn [length] in Hn.
    assert (IHt : forall m', filter brk (ref m' t) = filter brk t) by (intros; apply IH; lia).
    assert (KEEP : forall m', filter brk (c :: ref m' t) = filter brk (c :: t)).
    { intros m'. cbn [filter]. rewrite IHt. reflexivity. }
    assert (DROP : forall m', brk c = false -> filter brk (ref m' t) = filter brk (c :: t)).
    { intros m' Hc. cbn [filter]. rewrite Hc. apply IHt. }
    destruct m; cbn [reference_strip_from].
    + destruct (c =? 34) eqn:E1; [apply KEEP|]. destruct (c =? 47) eqn:E2; [|apply KEEP].
      destruct t as [|d t']; [apply KEEP|].
      assert (IH2 : forall m', brk d = false -> filter brk (ref m' t') = filter brk (c :: d :: t')).
      { intros m' Bd. cbn [filter]. rewrite Bd.
        assert (Bc : brk c = false) by (unfold brk; lia). rewrite Bc.
        apply IH. cbn [length] in Hn. lia. }
      destruct (d =? 47) eqn:E3.
      * apply IH2. unfold brk. lia.
      * destruct (d =? 42) eqn:E4; [apply IH2; unfold brk; lia|apply KEEP].
    + destruct (c =? 92); [apply KEEP|]. destruct (c =? 34); apply KEEP.
    + apply KEEP.
    + destruct (brk c) eqn:B; [apply KEEP|now apply DROP].
    + destruct (c =? 42) eqn:E1.
      * assert (Bc : brk c = false) by (unfold brk; lia).
        destruct t as [|d t']; [now apply DROP|].
        destruct (d =? 47) eqn:E2; [|now apply DROP].
        cbn [filter]. rewrite Bc. assert (Bd : brk d = false) by (unfold brk; lia). rewrite Bd.
        apply IH. cbn [length] in Hn. lia.
      * destruct (brk c) eqn:B; [apply KEEP|now apply DROP].
Qed.

Lemma strip_keeps_line_breaks s : filter brk (strip_comments s) = filter brk s.
Proof.
  rewrite strip_comments_is_reference. apply (ref_keeps_breaks (length s)). lia.
Qed.

(* a text without any slash has no comment: nothing is removed *)
Lemma ref_no_slash m s :
  ~ In 47 s -> m <> LineComment -> m <> BlockComment -> ref m s = s.
Proof.
  revert m. induction s as [|c t IH]; intros m H M1 M2; [destruct m; reflexivity|].
  assert (c <> 47) by (intros ->; apply H; left; reflexivity).
  assert (Ht : ~ In 47 t) by (intros X; apply H; right; exact X).
  destruct m; try congruence; cbn [reference_strip_from].
  - destruct (c =? 34); [f_equal; apply IH; auto; discriminate|].
    destruct (c =? 47) eqn:E; [lia|]. f_equal. apply IH; auto.
  - destruct (c =? 92); [f_equal; apply IH; auto; discriminate|].
    destruct (c =? 34); f_equal; apply IH; auto; discriminate.
  - f_equal. apply IH; auto; discriminate.
Qed.

Lemma strip_no_slash_identity s : ~ In 47 s -> strip_comments s = s.
Proof.
  intros H. rewrite strip_comments_is_reference. apply ref_no_slash; [exact H|discriminate|discriminate].
Qed.
