(* One Parser object used for several texts, a target Variant that already holds something, the static
   wrappers: the answer of parse is a function of the text alone (after repair 06). *)
From Coq Require Import ZArith List Bool Lia.
From Json Require Import JsonSpec JsonModel JsonProofsBase JsonProofsTotal.
Import ListNotations.
Local Open Scope Z_scope.

Lemma parse_value_into_null f p t : parse_value_into JNull f p t = parse_value f p t.
Proof. destruct f; reflexivity. Qed.

Lemma parse_with_result o tgt s : snd (parse_with o tgt s) = parse s.
Proof.
  unfold parse_with, parse_obj, parse. cbn [o_line].
  destruct (read_token (mkPos 1 s)) as [[p t]| | |]; cbn [bind]; [|reflexivity..].
  rewrite parse_value_into_null.
  destruct (parse_value (parse_fuel s) p t) as [[[v p'] t']| | |]; reflexivity.
Qed.

(* the error fields after the call: this call's error, or what they held before *)
Lemma parse_with_error_fields o tgt s :
  match parse s with
  | PErr l c m => o_err (fst (parse_with o tgt s)) = Some (l, c, m)
  | _ => o_err (fst (parse_with o tgt s)) = o_err o
  end.
Proof.
  unfold parse_with, parse_obj, parse. cbn [o_line].
  destruct (read_token (mkPos 1 s)) as [[p t]| | |]; cbn [bind]; [|reflexivity..].
  rewrite parse_value_into_null.
  destruct (parse_value (parse_fuel s) p t) as [[[v p'] t']| | |]; reflexivity.
Qed.

(* a whole history of calls on one object, each into a target with arbitrary content *)
Fixpoint run_parses (o : parser) (calls : list (value * list Z)) : list parse_result :=
  match calls with
  | [] => []
  | (tgt, s) :: rest => snd (parse_with o tgt s) :: run_parses (fst (parse_with o tgt s)) rest
  end.

Lemma run_parses_fresh calls : forall o, run_parses o calls = map (fun c => parse (snd c)) calls.
Proof.
  induction calls as [|[tgt s] rest IH]; intros o; [reflexivity|].
  cbn [run_parses map snd]. rewrite parse_with_result, IH. reflexivity.
Qed.

Lemma second_parse_error_inside_second_text o tgt1 s1 tgt2 s2 l c m :
  snd (parse_with (fst (parse_with o tgt1 s1)) tgt2 s2) = PErr l c m -> position_inside s2 l c.
Proof. rewrite parse_with_result. apply parse_error_position. Qed.

Lemma static_parse_result g tgt s : static_parse g tgt s = parse s.
Proof. apply parse_with_result. Qed.

(* without `result.clear()` the previous content of a list target stays in front of the parsed items:
   target [0], text [1]  gives  [0, 1] *)
Lemma parse_without_clear_keeps_target_content :
  snd (parse_obj false (mkParser 0 None) (JList [JInt 0]) [91; 49; 93]) = POk (JList [JInt 0; JInt 1]) /\
  parse [91; 49; 93] = POk (JList [JInt 1]).
Proof. split; vm_compute; reflexivity. Qed.
