(* The string tokenizer yields what RFC 8259 says for every valid string literal
   (JsonSpec.ref_string: simple escapes, \uXXXX, UTF-16 surrogate pairs, code points as UTF-8).
   The bit arithmetic of the code (masks, shifts, or) is compared with the arithmetic reference
   (div, mod, +) by exhaustive evaluation over the finite ranges involved. *)
From Coq Require Import ZArith List Bool Lia.
Require Import ZifyBool.
From Json Require Import JsonSpec JsonModel JsonProofsBase JsonProofsHex JsonProofsTotal JsonProofsRound.
Import ListNotations.
Local Open Scope Z_scope.
Ltac Zify.zify_post_hook ::= Z.div_mod_to_equations.

(* ---------- sweeping base .. base + 2^bits - 1 ---------- *)
Fixpoint forall_below (bits : nat) (base : Z) (P : Z -> bool) : bool :=
  match bits with
  | O => P base
  | S b => forall_below b base P && forall_below b (base + 2 ^ Z.of_nat b) P
  end.

Lemma forall_below_sound bits : forall base P, forall_below bits base P = true ->
  forall w, base <= w < base + 2 ^ Z.of_nat bits -> P w = true.
Proof.
  induction bits as [|b IH]; intros base P H w Hw.
  - cbn in *. assert (w = base) by lia. subst. exact H.
  - cbn [forall_below] in H. apply andb_true_iff in H as [H1 H2].
    rewrite Nat2Z.inj_succ, Z.pow_succ_r in Hw by lia.
    destruct (Z_lt_le_dec w (base + 2 ^ Z.of_nat b)).
    + apply (IH base); [exact H1|lia].
    + apply (IH (base + 2 ^ Z.of_nat b)); [exact H2|lia].
Qed.

(* ---------- the facts about the bit arithmetic ---------- *)
Lemma high_surrogate_mask w : 0 <= w < 65536 ->
  (Z.land w 64512 =? 55296) = ((55296 <=? w) && (w <=? 56319)).
Proof.
  intros Hw.
  assert (F : forall_below 16 0 (fun w => Bool.eqb (Z.land w 64512 =? 55296) ((55296 <=? w) && (w <=? 56319))) = true)
    by (vm_compute; reflexivity).
  apply eqb_prop. apply (forall_below_sound _ _ _ F). cbn. lia.
Qed.

Lemma low_surrogate_mask w : 0 <= w < 65536 ->
  (Z.land w 64512 =? 56320) = ((56320 <=? w) && (w <=? 57343)).
Proof.
  intros Hw.
  assert (F : forall_below 16 0 (fun w => Bool.eqb (Z.land w 64512 =? 56320) ((56320 <=? w) && (w <=? 57343))) = true)
    by (vm_compute; reflexivity).
  apply eqb_prop. apply (forall_below_sound _ _ _ F). cbn. lia.
Qed.

Lemma utf8_rev_acc ch acc : utf8_rev ch acc = utf8_rev ch [] ++ acc.
Proof.
  unfold utf8_rev. destruct (ch <? 128); [reflexivity|]. destruct (ch <? 2048); [reflexivity|].
  destruct (ch <? 65536); [reflexivity|]. destruct (ch <? 1114112); reflexivity.
Qed.

(* or-ing disjoint bit fields is adding them *)
Lemma lor_add a b k : 0 <= k -> 0 <= a < 2 ^ k -> Z.lor a (b * 2 ^ k) = a + b * 2 ^ k.
Proof.
  intros Hk Ha.
  assert (L : Z.land a (b * 2 ^ k) = 0).
  { apply Z.bits_inj'. intros n Hn. rewrite Z.land_spec, Z.bits_0.
    destruct (Z_lt_le_dec n k).
    - rewrite <- Z.shiftl_mul_pow2 by lia. rewrite Z.shiftl_spec_low by lia. apply andb_false_r.
    - rewrite <- (Z.mod_small a (2 ^ k)) by lia. rewrite Z.mod_pow2_bits_high by lia. reflexivity. }
  rewrite <- Z.lxor_lor, <- Z.add_nocarry_lxor by exact L. reflexivity.
Qed.

Lemma cont_byte x : Z.lor (Z.land x 63) 128 = 128 + x mod 64.
Proof.
  change 63 with (Z.ones 6). rewrite Z.land_ones by lia. change (2 ^ 6) with 64.
  change 128 with (1 * 2 ^ 7) at 1. rewrite lor_add; [lia|lia|].
  change (2 ^ 7) with 128. pose proof (Z.mod_pos_bound x 64 ltac:(lia)). lia.
Qed.

Lemma lead_byte x m k tag : 0 <= k -> 0 <= x < 2 ^ k -> tag = m * 2 ^ k -> Z.lor x tag = tag + x.
Proof. intros Hk Hx ->. rewrite lor_add by assumption. lia. Qed.

(* Unicode::append = RFC 3629 *)
Lemma utf8_all ch acc : 0 <= ch < 1114112 -> utf8_rev ch acc = rev (utf8 ch) ++ acc.
Proof.
  intros Hc. rewrite utf8_rev_acc. f_equal. unfold utf8_rev, utf8.
  rewrite !cont_byte, !Z.shiftr_div_pow2 by lia.
  change (2 ^ 6) with 64. change (2 ^ 12) with 4096. change (2 ^ 18) with 262144.
  destruct (ch <? 128) eqn:E1; [reflexivity|].
  destruct (ch <? 2048) eqn:E2.
  { cbn [rev app]. rewrite (lead_byte _ 3 6) by (try reflexivity; change (2 ^ 6) with 64; lia). reflexivity. }
  destruct (ch <? 65536) eqn:E3.
  { cbn [rev app]. rewrite (lead_byte _ 7 5) by (try reflexivity; change (2 ^ 5) with 32; lia). reflexivity. }
  destruct (ch <? 1114112) eqn:E4; [|lia].
  cbn [rev app]. rewrite (lead_byte _ 15 4) by (try reflexivity; change (2 ^ 4) with 16; lia). reflexivity.
Qed.

Lemma utf8_bmp w acc : 0 <= w < 65536 -> utf8_rev w acc = rev (utf8 w) ++ acc.
Proof. intros. apply utf8_all. lia. Qed.

(* the surrogate pair arithmetic of the code = RFC 2781 *)
Lemma utf8_pair w1 w2 acc : 55296 <= w1 <= 56319 -> 56320 <= w2 <= 57343 ->
  utf8_rev (Z.lor (Z.land w2 1023) (Z.shiftl (Z.land w1 1023) 10) + 65536) acc
  = rev (utf8 (65536 + 1024 * (w1 - 55296) + (w2 - 56320))) ++ acc.
Proof.
  intros H1 H2. change 1023 with (Z.ones 10). rewrite !Z.land_ones, Z.shiftl_mul_pow2 by lia.
  rewrite lor_add by (try lia; apply Z.mod_pos_bound; lia).
  change (2 ^ 10) with 1024.
  replace (w2 mod 1024 + w1 mod 1024 * 1024 + 65536) with (65536 + 1024 * (w1 - 55296) + (w2 - 56320)) by lia.
  apply utf8_all. lia.
Qed.

(* ---------- four hex digits ---------- *)
Lemma hexv_hex c x : hexv c = Some x -> is_hex c = true /\ hexval c = x /\ 0 <= x < 16.
Proof.
  unfold hexv, is_hex, hexval, is_digit.
  destruct ((48 <=? c) && (c <=? 57)) eqn:E1; [intros [= <-]; repeat split; lia|].
  destruct ((97 <=? c) && (c <=? 102)) eqn:E2.
  { intros [= <-]. repeat split; try lia. destruct (97 <=? c) eqn:?; lia. }
  destruct ((65 <=? c) && (c <=? 70)) eqn:E3; [|discriminate].
  intros [= <-]. repeat split; try lia. destruct (97 <=? c) eqn:?; lia.
Qed.

Lemma hexn_hex4 l a b c d r w : hex4 a b c d = Some w ->
  hex_quad l (a :: b :: c :: d :: r) = Ok (w, r) /\ 0 <= w < 65536.
Proof.
  unfold hex4. destruct (hexv a) as [x|] eqn:Ea; [|discriminate].
  destruct (hexv b) as [y|] eqn:Eb; [|discriminate]. destruct (hexv c) as [z|] eqn:Ec; [|discriminate].
  destruct (hexv d) as [u|] eqn:Ed; [|discriminate]. intros H.
  assert (W : 4096 * x + 256 * y + 16 * z + u = w) by congruence. clear H. subst w.
  apply hexv_hex in Ea as (Ha & Va & Ra). apply hexv_hex in Eb as (Hb & Vb & Rb).
  apply hexv_hex in Ec as (Hc & Vc & Rc). apply hexv_hex in Ed as (Hd & Vd & Rd).
  split; [|lia]. rewrite hex_quad_eq. cbn [hexn peek adv]. rewrite Ha, Hb, Hc, Hd, Va, Vb, Vc, Vd. do 2 f_equal. lia.
Qed.

(* ---------- one step of the tokenizer per construct ---------- *)
Lemma str_step_simple f l e x r acc : simple_escape e = Some x ->
  str_loop (S f) l (92 :: e :: r) acc = str_loop f l r (x :: acc).
Proof.
  unfold simple_escape. intros H. cbn [str_loop peek adv Z.eqb Pos.eqb].
  destruct ((e =? 34) || (e =? 92) || (e =? 47)) eqn:E1; [injection H as <-; reflexivity|].
  destruct (e =? 98) eqn:E2; [injection H as <-; reflexivity|].
  destruct (e =? 102) eqn:E3; [injection H as <-; reflexivity|].
  destruct (e =? 110) eqn:E4; [injection H as <-; reflexivity|].
  destruct (e =? 114) eqn:E5; [injection H as <-; reflexivity|].
  destruct (e =? 116) eqn:E6; [injection H as <-; reflexivity|discriminate].
Qed.

Lemma str_step_u f l a b c d w r acc : hex4 a b c d = Some w ->
  (55296 <=? w) && (w <=? 56319) = false ->
  str_loop (S f) l (92 :: 117 :: a :: b :: c :: d :: r) acc = str_loop f l r (rev (utf8 w) ++ acc).
Proof.
  intros H NS. destruct (hexn_hex4 l a b c d r w H) as [HX R].
  cbn [str_loop peek adv Z.eqb Pos.eqb orb]. rewrite HX. cbn [bind].
  rewrite high_surrogate_mask, NS by exact R. rewrite utf8_bmp by exact R. reflexivity.
Qed.

Lemma str_step_pair f l a b c d a' b' c' d' w w2 r acc :
  hex4 a b c d = Some w -> (55296 <=? w) && (w <=? 56319) = true ->
  hex4 a' b' c' d' = Some w2 -> (56320 <=? w2) && (w2 <=? 57343) = true ->
  str_loop (S f) l (92 :: 117 :: a :: b :: c :: d :: 92 :: 117 :: a' :: b' :: c' :: d' :: r) acc
  = str_loop f l r (rev (utf8 (65536 + 1024 * (w - 55296) + (w2 - 56320))) ++ acc).
Proof.
  intros H HS H2 LS.
  destruct (hexn_hex4 l a b c d (92 :: 117 :: a' :: b' :: c' :: d' :: r) w H) as [HX R].
  destruct (hexn_hex4 l a' b' c' d' r w2 H2) as [HX2 R2].
  cbn [str_loop peek adv Z.eqb Pos.eqb orb]. rewrite HX. cbn [bind].
  rewrite high_surrogate_mask, HS by exact R. cbn [peek adv Z.eqb Pos.eqb negb].
  rewrite HX2. cbn [bind]. rewrite low_surrogate_mask, LS by exact R2. cbn [negb].
  rewrite utf8_pair by lia. reflexivity.
Qed.

(* ---------- every valid literal ---------- *)
Lemma rev_acc_app (x acc v : list Z) : rev (rev x ++ acc) ++ v = rev acc ++ x ++ v.
Proof. rewrite rev_app_distr, rev_involutive, <- app_assoc. reflexivity. Qed.

Lemma str_loop_rfc n : forall s v f l rest acc, (length s <= n)%nat ->
  ref_string s = Some v -> (length s < f)%nat ->
  str_loop f l (s ++ 34 :: rest) acc = Ok (l, rest, rev acc ++ v).
Proof.
  induction n as [|n IH]; intros s v f l rest acc Hn H Hf.
  - destruct s; [|cbn [length] in Hn; lia]. cbn in H. injection H as <-.
    destruct f as [|f]; [cbn in Hf; lia|]. cbn [app]. rewrite str_step_close, app_nil_r. reflexivity.
  - destruct s as [|c t].
    { cbn in H. injection H as <-. destruct f as [|f]; [cbn in Hf; lia|].
      cbn [app]. rewrite str_step_close, app_nil_r. reflexivity. }
    cbn [length] in Hn, Hf. destruct f as [|f]; [lia|].
    cbn [ref_string] in H. destruct (c =? 92) eqn:E92.
    + assert (c = 92) by lia. subst c. destruct t as [|e t1]; [discriminate|].
      destruct (e =? 117) eqn:E117.
      * assert (e = 117) by lia. subst e.
        destruct t1 as [|a [|b [|c2 [|d t2]]]]; try discriminate.
        destruct (hex4 a b c2 d) as [w|] eqn:EH; [|discriminate].
        destruct ((55296 <=? w) && (w <=? 56319)) eqn:ES.
        -- destruct t2 as [|b1 [|u1 [|a' [|b' [|c' [|d' t3]]]]]]; try discriminate.
           destruct ((b1 =? 92) && (u1 =? 117)) eqn:EB; [|discriminate].
           assert (b1 = 92) by lia. assert (u1 = 117) by lia. subst b1 u1.
           destruct (hex4 a' b' c' d') as [w2|] eqn:EH2; [|discriminate].
           destruct ((56320 <=? w2) && (w2 <=? 57343)) eqn:ES2; [|discriminate].
           destruct (ref_string t3) as [v3|] eqn:E3; [|discriminate]. cbn [option_map] in H.
           pose proof (str_step_pair f l a b c2 d a' b' c' d' w w2 (t3 ++ 34 :: rest) acc EH ES EH2 ES2) as ST.
           remember (utf8 (65536 + 1024 * (w - 55296) + (w2 - 56320))) as u eqn:Eu.
           injection H as <-. cbn [app] in ST |- *. rewrite ST.
           rewrite (IH t3 v3) by (auto; cbn [length] in *; lia). rewrite rev_acc_app. reflexivity.
        -- destruct ((56320 <=? w) && (w <=? 57343)) eqn:ES2; [discriminate|].
           destruct (ref_string t2) as [v2|] eqn:E2; [|discriminate]. cbn [option_map] in H.
           pose proof (str_step_u f l a b c2 d w (t2 ++ 34 :: rest) acc EH ES) as ST.
           remember (utf8 w) as u eqn:Eu.
           injection H as <-. cbn [app] in ST |- *. rewrite ST.
           rewrite (IH t2 v2) by (auto; cbn [length] in *; lia). rewrite rev_acc_app. reflexivity.
      * destruct (simple_escape e) as [x|] eqn:EX; [|discriminate].
        destruct (ref_string t1) as [v1|] eqn:E1; [|discriminate]. cbn [option_map] in H. injection H as <-.
        cbn [app]. rewrite (str_step_simple _ _ _ x) by exact EX.
        rewrite (IH t1 v1) by (auto; cbn [length] in *; lia).
        cbn [rev]. rewrite <- app_assoc. reflexivity.
    + destruct ((c <? 32) || (c =? 34)) eqn:EC; [discriminate|].
      destruct (ref_string t) as [v1|] eqn:E1; [|discriminate]. cbn [option_map] in H. injection H as <-.
      cbn [app]. rewrite str_step_plain by lia. rewrite (IH t v1) by (auto; lia).
      cbn [rev]. rewrite <- app_assoc. reflexivity.
Qed.

(* the token: a quote, a valid literal, a quote *)
Lemma rt_string_rfc l s v r : ref_string s = Some v ->
  read_token (mkPos l (34 :: s ++ 34 :: r)) = Ok (mkPos l r, (34, JString v)).
Proof.
  intros H. rewrite rt_nonspace by reflexivity. unfold token_at. cbn [peek adv Z.eqb Pos.eqb is_punct orb].
  rewrite (str_loop_rfc (length s) s v _ l r []); [reflexivity|lia|exact H|rewrite app_length; lia].
Qed.

(* the whole document "literal" *)
Lemma parse_string_rfc s v : ref_string s = Some v -> parse (34 :: s ++ [34]) = POk (JString v).
Proof.
  intros H. unfold parse. rewrite (rt_string_rfc 1 s v []) by exact H. cbn [bind].
  unfold parse_fuel. cbn [Nat.add parse_value fst snd is_scalar_tok Z.eqb Pos.eqb orb]. reflexivity.
Qed.

(* ---------- explicit fuel for the recursive descent from any parser state ---------- *)
Lemma parse_value_fuel f p t : (2 * (length (p_rest p) + 1) + 1 <= f)%nat ->
  parse_value f p t <> OutOfFuel /\ parse_value f p t <> OutOfBounds.
Proof.
  intros Hf. pose proof (proj1 (parser_good f) p t) as G.
  assert (M : (msr p t <= length (p_rest p) + 1)%nat) by (unfold msr, tw; destruct (fst t =? 0); lia).
  specialize (G ltac:(lia)). destruct (parse_value f p t); cbn in G; split; try discriminate; contradiction.
Qed.

Lemma str_loop_rfc_any s v f l rest acc :
  ref_string s = Some v -> (length s < f)%nat ->
  str_loop f l (s ++ 34 :: rest) acc = Ok (l, rest, rev acc ++ v).
Proof. intros H Hf. apply (str_loop_rfc (length s)); [lia|exact H|exact Hf]. Qed.
