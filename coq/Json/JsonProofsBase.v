(* Common lemmas for the proofs about the Json model: suffixes, line-break counting, the [good]
   predicate that carries totality, bounds safety and the error position through the tokenizer
   and the parser in one induction. *)
From Coq Require Import ZArith List Bool Lia.
Require Import ZifyBool.
From Json Require Import JsonSpec JsonModel.
Import ListNotations.
Local Open Scope Z_scope.

(* ---------- suffixes ---------- *)
Definition suffix (r' r : list Z) : Prop := exists pre, r = pre ++ r'.

Lemma suffix_refl r : suffix r r.
Proof. exists []. reflexivity. Qed.

Lemma suffix_cons c t : suffix t (c :: t).
Proof. exists [c]. reflexivity. Qed.

Lemma suffix_trans a b c : suffix a b -> suffix b c -> suffix a c.
Proof.
  intros [p Hp] [q Hq]. exists (q ++ p). subst. now rewrite app_assoc.
Qed.

Lemma suffix_length r' r : suffix r' r -> (length r' <= length r)%nat.
Proof. intros [p ->]. rewrite app_length. lia. Qed.

(* ---------- line breaks ---------- *)
Lemma frev_eq l : frev l = rev l.
Proof. unfold frev. symmetry. apply rev_alt. Qed.

Lemma peek_hd0 r : peek r = hd0 r.
Proof. reflexivity. Qed.

Lemma nbreaks_nonneg s : 0 <= nbreaks s.
Proof.
  induction s as [|c t IH]; cbn [nbreaks]; [lia|].
  destruct (c =? 10); [lia|]. destruct (c =? 13); [|lia]. destruct (hd0 t =? 10); lia.
Qed.

Lemma nbreaks_plain c t : c <> 10 -> c <> 13 -> nbreaks (c :: t) = nbreaks t.
Proof.
  intros H1 H2. cbn [nbreaks].
  destruct (c =? 10) eqn:E1; [lia|]. destruct (c =? 13) eqn:E2; [lia|]. reflexivity.
Qed.

Lemma nbreaks_lf t : nbreaks (10 :: t) = 1 + nbreaks t.
Proof. reflexivity. Qed.

Lemma nbreaks_crlf t : nbreaks (13 :: 10 :: t) = 1 + nbreaks t.
Proof. reflexivity. Qed.

Lemma nbreaks_cr t : hd0 t <> 10 -> nbreaks (13 :: t) = 1 + nbreaks t.
Proof.
  intros H. cbn [nbreaks]. cbn. destruct (hd0 t =? 10) eqn:E; [lia|reflexivity].
Qed.

(* the natural reading of [position_inside]: line breaks before the offset, unless the offset cuts a CR LF pair *)
Lemma nbreaks_cons c t :
  nbreaks (c :: t) = if c =? 10 then 1 + nbreaks t
                     else if c =? 13 then (if hd0 t =? 10 then nbreaks t else 1 + nbreaks t)
                     else nbreaks t.
Proof. reflexivity. Qed.

Lemma nbreaks_app pre post :
  cuts_crlf pre post = false -> nbreaks (pre ++ post) = nbreaks pre + nbreaks post.
Proof.
  unfold cuts_crlf. induction pre as [|c p IH]; intros H; [reflexivity|].
  assert (Hp : p <> [] -> (hd0 (rev p) =? 13) && (hd0 post =? 10) = false).
  { intros Hne. cbn [rev] in H. destruct (rev p) as [|x xs] eqn:Er.
    - apply (f_equal (@rev Z)) in Er. rewrite rev_involutive in Er. now subst.
    - exact H. }
  change ((c :: p) ++ post) with (c :: (p ++ post)).
  rewrite (nbreaks_cons c (p ++ post)), (nbreaks_cons c p).
  destruct p as [|d p'].
  - cbn [app hd0 nbreaks rev] in *.
    destruct (c =? 10) eqn:E10; [lia|]. destruct (c =? 13) eqn:E13; [|lia].
    cbn in H. rewrite H. cbn. lia.
  - rewrite IH by (apply Hp; discriminate). cbn [app hd0].
    destruct (c =? 10); [lia|]. destruct (c =? 13); [|lia]. destruct (d =? 10); lia.
Qed.

(* ---------- the cursor moved from (l, r) to (l', r') ---------- *)
Definition moved (l : Z) (r : list Z) (l' : Z) (r' : list Z) : Prop :=
  suffix r' r /\ l' + nbreaks r' = l + nbreaks r.

Lemma moved_refl l r : moved l r l r.
Proof. split; [apply suffix_refl|reflexivity]. Qed.

Lemma moved_trans l r l1 r1 l2 r2 : moved l r l1 r1 -> moved l1 r1 l2 r2 -> moved l r l2 r2.
Proof.
  intros [S1 E1] [S2 E2]. split; [eapply suffix_trans; eauto|lia].
Qed.

Lemma moved_plain l c t : c <> 10 -> c <> 13 -> moved l (c :: t) l t.
Proof. intros. split; [apply suffix_cons|]. rewrite nbreaks_plain; auto. Qed.

Lemma moved_lf l t : moved l (10 :: t) (l + 1) t.
Proof. split; [apply suffix_cons|]. rewrite nbreaks_lf. lia. Qed.

Lemma moved_crlf l t : moved l (13 :: 10 :: t) (l + 1) t.
Proof.
  split; [eapply suffix_trans; apply suffix_cons|]. rewrite nbreaks_crlf. lia.
Qed.

Lemma moved_cr l t : hd0 t <> 10 -> moved l (13 :: t) (l + 1) t.
Proof. intros. split; [apply suffix_cons|]. rewrite nbreaks_cr; auto. lia. Qed.

Lemma moved_length l r l' r' : moved l r l' r' -> (length r' <= length r)%nat.
Proof. intros [S _]. now apply suffix_length. Qed.

(* ---------- good results ---------- *)
(* relative to a start cursor (l, r): not out of bounds, not out of fuel, an error position is a
   cursor reached from the start, a value satisfies P *)
Definition good {A} (l : Z) (r : list Z) (P : A -> Prop) (x : res A) : Prop :=
  match x with
  | Ok a => P a
  | SyntaxErr le at_ _ => moved l r le at_
  | OutOfBounds => False
  | OutOfFuel => False
  end.

Lemma good_bind {A B} l r (P : A -> Prop) (Q : B -> Prop) (x : res A) (k : A -> res B) :
  good l r P x -> (forall a, P a -> good l r Q (k a)) -> good l r Q (bind x k).
Proof. destruct x; cbn; auto. Qed.

Lemma good_shift {A} l r l1 r1 (P Q : A -> Prop) (x : res A) :
  moved l r l1 r1 -> good l1 r1 P x -> (forall a, P a -> Q a) -> good l r Q x.
Proof.
  intros M G I. destruct x; cbn in *; auto. eapply moved_trans; eauto.
Qed.

Lemma good_weaken {A} l r (P Q : A -> Prop) (x : res A) :
  good l r P x -> (forall a, P a -> Q a) -> good l r Q x.
Proof. intros G I. destruct x; cbn in *; auto. Qed.

(* ---------- character classes ---------- *)
Lemma is_space_nz c : is_space c = true -> c <> 0.
Proof. unfold is_space. lia. Qed.

Lemma is_digit_nz c : is_digit c = true -> c <> 0 /\ c <> 10 /\ c <> 13.
Proof. unfold is_digit. lia. Qed.

Lemma is_hex_nz c : is_hex c = true -> c <> 0 /\ c <> 10 /\ c <> 13.
Proof. unfold is_hex, is_digit. lia. Qed.

Lemma back_run_run l : back_run l = length (run l).
Proof.
  induction l as [|c t IH]; [reflexivity|]. cbn [back_run run]. unfold is_break, brk.
  destruct ((c =? 10) || (c =? 13)); cbn; congruence.
Qed.
