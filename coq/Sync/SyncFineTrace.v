(* SyncFineTrace.v - the six history predicates of SyncSpec.v do not distinguish histories that differ by commuting
   independent events, and they are closed under taking a suffix (an earlier moment of the same history): the
   trace theorems of the coarse machine hold literally of every fine-reachable history *)
From Coq Require Import ZArith List Bool Arith Lia.
From Coq Require Import ZifyBool ZifyNat ZifyN.
From Sync Require Import Sched SyncSpec SyncModel SyncArith SyncInv SyncTrace SyncSignal SyncTimed SyncMonitor SyncTheorems
  SyncFine SyncFineLocal SyncFineSim SyncFineInv SyncFineMain SyncFineCor.
Import ListNotations.
Local Open Scope Z_scope.

Lemma indep_parts a b : indep a b ->
  ev_tid a <> ev_tid b /\ (deferred a = true \/ deferred b = true) /\
  (sig_class a = false \/ sig_class b = false) /\ (mon_class a = false \/ mon_class b = false).
Proof.
  unfold indep, indepb. intros H. apply andb_prop in H as [H H4]. apply andb_prop in H as [H H3]. apply andb_prop in H as [H1 H2].
  repeat split.
  - apply negb_true_iff, Nat.eqb_neq in H1. exact H1.
  - apply orb_prop in H2. exact H2.
  - apply negb_true_iff, andb_false_iff in H3. exact H3.
  - apply negb_true_iff, andb_false_iff in H4. exact H4.
Qed.

(* ---- timed_ok: a conjunction over the events ---- *)
Definition timed_chk (e : event) : bool :=
  match e with
  | EvTimedFalse _ c start nowv => match timeout_of c with Some ms => start + ms * 1000000 <=? nowv | None => false end
  | _ => true
  end.
Lemma timed_ok_cons e r : timed_ok (e :: r) = timed_chk e && timed_ok r.
Proof. destruct e; reflexivity. Qed.

Lemma timed_ok_tr_eq l l' : tr_eq l l' -> timed_ok l = timed_ok l'.
Proof.
  induction 1 as [l|a b l Hab|a l l' H IH|l1 l2 l3 H1 IH1 H2 IH2]; auto.
  - rewrite !timed_ok_cons. rewrite !andb_assoc, (andb_comm (timed_chk a)). reflexivity.
  - rewrite !timed_ok_cons, IH. reflexivity.
  - congruence.
Qed.

(* ---- join_ok: deferred events are neither joins nor exits ---- *)
Lemma deferred_join e r : deferred e = true -> (forall c, exited (e :: r) c = exited r c) /\ join_ok (e :: r) = join_ok r.
Proof. destruct e; cbn; try discriminate; auto. Qed.

Definition join_chk (e : event) (r : list event) : bool :=
  match e with EvJoin _ c v => match exited r c with Some v' => v =? v' | None => false end | _ => true end.
Lemma join_ok_cons e r : join_ok (e :: r) = join_chk e r && join_ok r.
Proof. destruct e; reflexivity. Qed.
Lemma exited_ext e r r' : (forall c, exited r c = exited r' c) -> forall c, exited (e :: r) c = exited (e :: r') c.
Proof. intros H c. destruct e; cbn; auto. destruct (Nat.eqb t c); auto. Qed.
Lemma join_chk_ext e r r' : (forall c, exited r c = exited r' c) -> join_chk e r = join_chk e r'.
Proof. intros H. destruct e; cbn; auto. rewrite H. reflexivity. Qed.

Lemma join_ok_tr_eq l l' : tr_eq l l' -> (forall c, exited l c = exited l' c) /\ join_ok l = join_ok l'.
Proof.
  induction 1 as [l|a b l Hab|a l l' H [IH1 IH2]|l1 l2 l3 H1 [IH1 IH1'] H2 [IH2 IH2']]; auto.
  - apply indep_parts in Hab as (_ & [Hd|Hd] & _).
    + destruct (deferred_join a (b :: l) Hd) as [E1 E2]. destruct (deferred_join a l Hd) as [E3 E4]. split.
      * intros c. rewrite E1. apply exited_ext. intros c'. now rewrite E3.
      * rewrite E2, (join_ok_cons b (a :: l)), E4, (join_ok_cons b l). f_equal. apply join_chk_ext. intros c. now rewrite E3.
    + destruct (deferred_join b (a :: l) Hd) as [E1 E2]. destruct (deferred_join b l Hd) as [E3 E4]. split.
      * intros c. rewrite E1. symmetry. apply exited_ext. intros c'. now rewrite E3.
      * rewrite E2, (join_ok_cons a (b :: l)), E4, (join_ok_cons a l). f_equal. symmetry. apply join_chk_ext. intros c. now rewrite E3.
  - split; [now apply exited_ext|]. rewrite !join_ok_cons, IH2. f_equal. now apply join_chk_ext.
  - split; [intros c; now rewrite IH1|congruence].
Qed.

(* ---- sig_ok: of two independent events at most one is of the Signal class ---- *)
Lemma sig_transparent s0 e r : sig_class e = false -> sig_state s0 (e :: r) = sig_state s0 r /\ sig_ok s0 (e :: r) = sig_ok s0 r.
Proof.
  destruct e; cbn; try discriminate; auto. intros H. assert (is_sig_wait c = false) by (destruct c; cbn in *; congruence).
  rewrite H0. auto.
Qed.
Definition sig_chk (e : event) (st : bool) : bool :=
  match e with EvRet _ c v => if is_sig_wait c && (v =? 1) then st else true | _ => true end.
Lemma sig_ok_cons s0 e r : sig_ok s0 (e :: r) = sig_chk e (sig_state s0 r) && sig_ok s0 r.
Proof. destruct e; reflexivity. Qed.
Lemma sig_state_ext s0 e r r' : sig_state s0 r = sig_state s0 r' -> sig_state s0 (e :: r) = sig_state s0 (e :: r').
Proof. destruct e; cbn; auto. Qed.

Lemma sig_ok_tr_eq s0 l l' : tr_eq l l' -> sig_state s0 l = sig_state s0 l' /\ sig_ok s0 l = sig_ok s0 l'.
Proof.
  induction 1 as [l|a b l Hab|a l l' H [IH1 IH2]|l1 l2 l3 H1 [IH1 IH1'] H2 [IH2 IH2']]; auto.
  - apply indep_parts in Hab as (_ & _ & [Hs|Hs] & _).
    + destruct (sig_transparent s0 a (b :: l) Hs) as [E1 E2]. destruct (sig_transparent s0 a l Hs) as [E3 E4]. split.
      * rewrite E1. apply sig_state_ext. now rewrite E3.
      * rewrite E2, (sig_ok_cons s0 b (a :: l)), E3, E4, (sig_ok_cons s0 b l). reflexivity.
    + destruct (sig_transparent s0 b (a :: l) Hs) as [E1 E2]. destruct (sig_transparent s0 b l Hs) as [E3 E4]. split.
      * rewrite E1. symmetry. apply sig_state_ext. now rewrite E3.
      * rewrite E2, (sig_ok_cons s0 a (b :: l)), E3, E4, (sig_ok_cons s0 a l). reflexivity.
  - split; [now apply sig_state_ext|]. rewrite !sig_ok_cons, IH1, IH2. reflexivity.
  - split; congruence.
Qed.

Ltac leb_cases := repeat match goal with |- context [?x <=? ?y] => destruct (Z.leb_spec x y) end; cbn [andb]; try reflexivity; try lia.

(* ---- mon_ok ---- *)
Definition mw (e : event) : Z := match e with EvRet _ c v => if is_mon_wait c && (v =? 1) then 1 else 0 | _ => 0 end.
Definition msz (e : event) : Z := match e with EvMonSet _ => 1 | _ => 0 end.
Lemma mon_waits_cons e r : mon_waits (e :: r) = mw e + mon_waits r.
Proof. destruct e; reflexivity. Qed.
Lemma mon_sets_cons e r : mon_sets (e :: r) = msz e + mon_sets r.
Proof. destruct e; cbn [mon_sets msz]; lia. Qed.
Lemma mon_ok_cons e r : mon_ok (e :: r) = (mw e + mon_waits r <=? msz e + mon_sets r) && mon_ok r.
Proof. cbn [mon_ok]. rewrite mon_waits_cons, mon_sets_cons. reflexivity. Qed.
Lemma mon_ok_head l : mon_ok l = true -> (mon_waits l <=? mon_sets l) = true.
Proof. destruct l as [|e r]; [reflexivity|]. cbn [mon_ok]. intros H. apply andb_prop in H. tauto. Qed.
Lemma mon_transparent e : mon_class e = false -> mw e = 0 /\ msz e = 0.
Proof. destruct e; cbn; try discriminate; auto. intros ->. auto. Qed.

Lemma mon_ok_tr_eq l l' : tr_eq l l' -> mon_waits l = mon_waits l' /\ mon_sets l = mon_sets l' /\ mon_ok l = mon_ok l'.
Proof.
  induction 1 as [l|a b l Hab|a l l' H (IH1 & IH2 & IH3)|l1 l2 l3 H1 (A1 & A2 & A3) H2 (B1 & B2 & B3)]; auto.
  - split; [rewrite !mon_waits_cons; lia|split; [rewrite !mon_sets_cons; lia|]].
    rewrite (mon_ok_cons a), (mon_ok_cons b (a :: l)), (mon_ok_cons b l), (mon_ok_cons a l), !mon_waits_cons, !mon_sets_cons.
    destruct (mon_ok l) eqn:E; [apply mon_ok_head in E|rewrite !andb_false_r; reflexivity].
    apply Z.leb_le in E.
    apply indep_parts in Hab as (_ & _ & _ & [Hm|Hm]); apply mon_transparent in Hm as [-> ->]; leb_cases.
  - split; [rewrite !mon_waits_cons; lia|split; [rewrite !mon_sets_cons; lia|]]. rewrite !mon_ok_cons, IH1, IH2, IH3. reflexivity.
  - repeat split; congruence.
Qed.

(* ---- sem_ok ---- *)
Definition sw (e : event) : Z := match e with EvRet _ c v => if is_sem_wait_call c && (v =? 1) then 1 else 0 | _ => 0 end.
Definition ssz (e : event) : Z := match e with EvRet _ SemSignal _ => 1 | _ => 0 end.
Lemma sem_waits_cons e r : sem_waits (e :: r) = sw e + sem_waits r.
Proof. destruct e; reflexivity. Qed.
Lemma sem_signals_cons e r : sem_signals (e :: r) = ssz e + sem_signals r.
Proof. destruct e; cbn [sem_signals ssz]; try lia. destruct c; lia. Qed.
Lemma sem_ok_cons v0 e r : sem_ok v0 (e :: r) = (sw e + sem_waits r <=? v0 + (ssz e + sem_signals r)) && sem_ok v0 r.
Proof. cbn [sem_ok]. rewrite sem_waits_cons, sem_signals_cons. reflexivity. Qed.
Lemma sem_ok_head v0 l : 0 <= v0 -> sem_ok v0 l = true -> (sem_waits l <=? v0 + sem_signals l) = true.
Proof. intros Hv. destruct l as [|e r]; [cbn; lia|]. cbn [sem_ok]. intros H. apply andb_prop in H. tauto. Qed.
Lemma sem_transparent e : deferred e = true -> sw e = 0 /\ ssz e = 0.
Proof. destruct e; cbn; try discriminate; auto. destruct c; cbn; try discriminate; auto. Qed.

Lemma sem_ok_tr_eq v0 l l' : 0 <= v0 -> tr_eq l l' ->
  sem_waits l = sem_waits l' /\ sem_signals l = sem_signals l' /\ sem_ok v0 l = sem_ok v0 l'.
Proof.
  intros Hv. induction 1 as [l|a b l Hab|a l l' H (IH1 & IH2 & IH3)|l1 l2 l3 H1 (A1 & A2 & A3) H2 (B1 & B2 & B3)]; auto.
  - split; [rewrite !sem_waits_cons; lia|split; [rewrite !sem_signals_cons; lia|]].
    rewrite (sem_ok_cons v0 a), (sem_ok_cons v0 b (a :: l)), (sem_ok_cons v0 b l), (sem_ok_cons v0 a l), !sem_waits_cons, !sem_signals_cons.
    destruct (sem_ok v0 l) eqn:E; [apply (sem_ok_head v0 l Hv) in E|rewrite !andb_false_r; reflexivity].
    apply Z.leb_le in E.
    apply indep_parts in Hab as (_ & [Hm|Hm] & _); apply sem_transparent in Hm as [-> ->]; leb_cases.
  - split; [rewrite !sem_waits_cons; lia|split; [rewrite !sem_signals_cons; lia|]]. rewrite !sem_ok_cons, IH1, IH2, IH3. reflexivity.
  - repeat split; congruence.
Qed.

(* ---- mtx_ok ---- *)
Definition hupd (e : event) (u : tid) (h : nat) : nat :=
  match e with
  | EvRet t MtxLock _ => if Nat.eqb t u then S h else h
  | EvRet t MtxTryLock v => if Nat.eqb t u && (v =? 1) then S h else h
  | EvRet t MtxUnlock _ => if Nat.eqb t u then Nat.pred h else h
  | _ => h
  end.
Lemma held_cons e r u : held (e :: r) u = hupd e u (held r u).
Proof. destruct e; try reflexivity; destruct c; reflexivity. Qed.
Definition mtx_f (e : event) (r : list event) (u : tid) : bool := Nat.eqb u (ev_tid e) || Nat.eqb (held r u) 0.
Lemma mtx_ok_cons e r : mtx_ok (e :: r) = (if acquires e then forallb (mtx_f e r) (map ev_tid r) else true) && mtx_ok r.
Proof. reflexivity. Qed.
Lemma mtx_transparent e : deferred e = true -> acquires e = false /\ forall u h, hupd e u h = h.
Proof. destruct e; cbn; try discriminate; auto. destruct c; cbn; try discriminate; auto. Qed.

Lemma held_in l u : held l u <> O -> In u (map ev_tid l).
Proof.
  induction l as [|e r IH]; [cbn; congruence|]. cbn [map]. intros H.
  destruct (Nat.eq_dec (ev_tid e) u) as [E|E]; [left; exact E|right]. apply IH. intros X. apply H.
  rewrite held_cons, X. apply Nat.eqb_neq in E.
  destruct e; cbn [hupd ev_tid] in *; try reflexivity. destruct c; rewrite ?E; reflexivity.
Qed.

Lemma forallb_mem {A} (g : A -> bool) L L' : (forall x, In x L <-> In x L') -> forallb g L = forallb g L'.
Proof.
  intros H. destruct (forallb g L) eqn:E1, (forallb g L') eqn:E2; auto.
  - rewrite forallb_forall in E1. assert (forallb g L' = true) by (apply forallb_forall; intros x Hx; apply E1, H, Hx). congruence.
  - rewrite forallb_forall in E2. assert (forallb g L = true) by (apply forallb_forall; intros x Hx; apply E2, H, Hx). congruence.
Qed.
Lemma forallb_ext' {A} (g g' : A -> bool) L : (forall x, g x = g' x) -> forallb g L = forallb g' L.
Proof. intros H. induction L; cbn; auto. rewrite H, IHL. reflexivity. Qed.
Lemma forallb_extra {A} (g : A -> bool) x L : (g x = false -> In x L) -> g x && forallb g L = forallb g L.
Proof.
  intros H. destruct (g x) eqn:E; [reflexivity|]. cbn. symmetry. destruct (forallb g L) eqn:E2; auto.
  rewrite forallb_forall in E2. rewrite (E2 x (H eq_refl)) in E. discriminate.
Qed.

Lemma mtx_ok_tr_eq l l' : tr_eq l l' ->
  (forall u, held l u = held l' u) /\ (forall u, In u (map ev_tid l) <-> In u (map ev_tid l')) /\ mtx_ok l = mtx_ok l'.
Proof.
  induction 1 as [l|a b l Hab|a l l' H (IH1 & IH2 & IH3)|l1 l2 l3 H1 (A1 & A2 & A3) H2 (B1 & B2 & B3)].
  - repeat split; auto.
  - assert (Hsw : forall a b, deferred a = true ->
              (forall u, held (a :: b :: l) u = held (b :: a :: l) u) /\ mtx_ok (a :: b :: l) = mtx_ok (b :: a :: l)).
    { intros x y Hd. destruct (mtx_transparent x Hd) as [Hacq Hh]. split.
      - intros u. rewrite !held_cons, !Hh. reflexivity.
      - rewrite (mtx_ok_cons x), Hacq, (mtx_ok_cons y (x :: l)), (mtx_ok_cons x l), Hacq, (mtx_ok_cons y l). cbn [andb]. f_equal.
        destruct (acquires y); [|reflexivity]. cbn [map forallb].
        rewrite (forallb_ext' (mtx_f y (x :: l)) (mtx_f y l)) by (intros u; unfold mtx_f; now rewrite held_cons, Hh).
        assert (E : mtx_f y (x :: l) (ev_tid x) = mtx_f y l (ev_tid x)) by (unfold mtx_f; now rewrite held_cons, Hh). rewrite E.
        symmetry. apply forallb_extra. unfold mtx_f. intros X. apply orb_false_elim in X as [_ X]. apply held_in. apply Nat.eqb_neq in X. exact X. }
    split; [|split].
    + apply indep_parts in Hab as (_ & [Hd|Hd] & _); [apply (Hsw a b Hd)|intros u; symmetry; apply (Hsw b a Hd)].
    + intros u. cbn [map In]. tauto.
    + apply indep_parts in Hab as (_ & [Hd|Hd] & _); [apply (Hsw a b Hd)|symmetry; apply (Hsw b a Hd)].
  - split; [|split].
    + intros u. rewrite !held_cons, IH1. reflexivity.
    + intros u. cbn [map In]. rewrite IH2. tauto.
    + rewrite !mtx_ok_cons, IH3. f_equal. destruct (acquires a); [|reflexivity].
      rewrite (forallb_ext' (mtx_f a l) (mtx_f a l')) by (intros u; unfold mtx_f; now rewrite IH1). now apply forallb_mem.
  - split; [|split].
    + intros u. now rewrite A1.
    + intros u. rewrite A2. apply B2.
    + congruence.
Qed.

(* ---- all six together ---- *)
Lemma all_ok_tr_eq s0 v0 l l' : 0 <= v0 -> tr_eq l l' -> all_ok s0 v0 l = all_ok s0 v0 l'.
Proof.
  intros Hv H. unfold all_ok.
  destruct (sig_ok_tr_eq s0 l l' H) as [_ ->]. destruct (mon_ok_tr_eq l l' H) as (_ & _ & ->).
  destruct (sem_ok_tr_eq v0 l l' Hv H) as (_ & _ & ->). destruct (mtx_ok_tr_eq l l' H) as (_ & _ & ->).
  rewrite (timed_ok_tr_eq l l' H). destruct (join_ok_tr_eq l l' H) as [_ ->]. reflexivity.
Qed.

Definition all_true (s0 : bool) (v0 : Z) (l : list event) : Prop := all_ok s0 v0 l = [true; true; true; true; true; true].

(* an earlier moment of a good history is good *)
Lemma all_true_tail s0 v0 e r : all_true s0 v0 (e :: r) -> all_true s0 v0 r.
Proof.
  unfold all_true, all_ok. rewrite sig_ok_cons, mon_ok_cons, sem_ok_cons, mtx_ok_cons, timed_ok_cons, join_ok_cons.
  intros H. injection H as A B C D E F.
  apply andb_prop in A as [_ ->]. apply andb_prop in B as [_ ->]. apply andb_prop in C as [_ ->].
  apply andb_prop in D as [_ D']. apply andb_prop in E as [_ ->]. apply andb_prop in F as [_ ->].
  rewrite D'. reflexivity.
Qed.

Lemma all_true_suffix s0 v0 evs r : all_true s0 v0 (evs ++ r) -> all_true s0 v0 r.
Proof. induction evs as [|e evs IH]; cbn [app]; auto. intros H. apply IH. eapply all_true_tail; eauto. Qed.

Lemma coarse_all_true scripts results started s0 v0 sched : 0 <= v0 -> all_true s0 v0 (trace (reach scripts results started s0 v0 sched)).
Proof.
  intros Hv. unfold all_true, all_ok.
  destruct (signal_wait_true_only_if_set_l scripts results started s0 v0 sched Hv) as [-> _].
  destruct (monitor_waits_le_sets_l scripts results started s0 v0 sched Hv) as [-> _].
  destruct (semaphore_conserved_l scripts results started s0 v0 sched Hv) as [-> _].
  rewrite (mutex_history_exclusive_l scripts results started s0 v0 sched Hv), (timed_wait_false_only_after_timeout_l scripts results started s0 v0 sched Hv),
    (join_returns_result_after_finish_l scripts results started s0 v0 sched Hv). reflexivity.
Qed.

(* the six history predicates hold of the history of EVERY fine-reachable state (quiescent or not) in which no
   thread has unlocked the monitor while another thread owned it *)
Lemma fine_all_ok_l scripts results started s0 v0 fsched : 0 <= v0 ->
  let fw := freach scripts results started s0 v0 fsched in
  foreign_unlock fw = false -> all_ok s0 v0 (trace (base fw)) = [true; true; true; true; true; true].
Proof.
  intros Hv fw Hfu.
  destruct (fine_completes_l scripts results started s0 v0 fsched Hfu) as (moves & sched & _ & _ & _ & (evs & He) & _ & Ht).
  fold fw in He, Ht. apply (all_true_suffix s0 v0 evs). rewrite <- He. unfold all_true.
  rewrite <- (all_ok_tr_eq s0 v0 _ _ Hv Ht). now apply coarse_all_true.
Qed.

(* without the hypothesis the Monitor clause fails at fine granularity: one set(), two successful waits *)
Lemma fine_monitor_race_witness :
  let fw := freach race_scripts res100 (fun _ => true) false 0 race_sched in
  foreign_unlock fw = true /\ mon_sets (trace (base fw)) = 1 /\ mon_waits (trace (base fw)) = 2 /\
  mon_ok (trace (base fw)) = false /\
  trace (base fw) = [EvRet 1%nat MonWait 1; EvRet 0%nat MonWait 1; EvRet 3%nat MonUnlock 0; EvExit 2%nat 102;
                     EvRet 2%nat MonSet 0; EvMonSet 2%nat; EvRet 1%nat MonLock 0; EvRet 0%nat MonLock 0].
Proof. vm_compute. repeat split; reflexivity. Qed.
