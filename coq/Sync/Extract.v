From Coq Require Extraction ExtrOcamlBasic.
From Coq Require Import ZArith.
From Common Require Import Words.
From Sync Require Import Sched SyncSpec SyncModel.
Extraction Language OCaml.
Extraction "model.ml" anchor init step enabled pending dl_total dl_valid dl_bad deadline spec_deadline all_ok Z.add Z.mul.
