(* SyncFineLive.v - the STATE theorems ("no waiter stays blocked ...", "set releases ...") read on the fine machine.
   The coarse theorems are about `enabled` in coarse states.  A fine state fw in which some thread stands in front of
   an access is not a coarse state (the thread's pc is still at the lock / condition wait it has passed, so
   `enabled (base fw) t` is even false for it); its COMPLETION c (complete_of fw c: the pending accesses performed,
   reached by at most 3 moves of the pending threads themselves, fine_completes) agrees with a coarse-reachable state
   on everything `enabled` and the theorems' premises look at.  Hence every bad configuration of c names an enabled
   thread of c. *)
From Coq Require Import ZArith List Bool Arith Lia.
From Sync Require Import Sched SyncSpec SyncModel SyncArith SyncInv SyncTrace SyncSignal SyncMonitor SyncTheorems
  SyncFine SyncFineLocal SyncFineSim SyncFineInv SyncFineMain SyncFineMark.
Import ListNotations.
Local Open Scope Z_scope.

Lemma enabled_agree w c t : agree w c -> enabled w t = enabled c t.
Proof. intros (A & _ & _ & _ & _ & F). unfold enabled. now rewrite A, (F t). Qed.

(* one move from two agreeing worlds: agreeing worlds again, and the same new events *)
Lemma step_agree w c mv : agree w c ->
  agree (step w mv) (step c mv) /\ exists eu, trace (step w mv) = eu ++ trace w /\ trace (step c mv) = eu ++ trace c.
Proof.
  intros Ha. apply relK_agree in Ha.
  destruct (step_local None KNone w c mv Ha) as (A & _ & _ & _ & eu & E1 & E2 & _).
  - now left.
  - intros t X. discriminate X.
  - intros u _ X. congruence.
  - congruence.
  - split; [now apply relK_agree|]. exists eu. auto.
Qed.

Section FineLive.
Variables (scripts : tid -> list libcall) (results : tid -> Z) (started : tid -> bool) (s0 : bool) (v0 : Z) (fsched : list move).
Hypothesis Hv0 : 0 <= v0.
Let fw := freach scripts results started s0 v0 fsched.

Lemma fine_no_stuck_l : foreign_unlock fw = false ->
  exists c, complete_of fw c /\
    (* Signal: no waiter stays blocked while it remains set *)
    (forall u, sigf c = true -> blocked_on SC (st (ps c) u) = true ->
       exists v, pc (tc c v) = SigSetBcast /\ enabled c v = true) /\
    (* Signal: set releases all current waiters *)
    (forall t, pc (tc c t) = SigSetBcast -> forall u, blocked_on SC (st (ps (step c (Run t))) u) = false) /\
    (forall t, pc (tc c t) = SigSetBcast \/ pc (tc c t) = SigSetUnlock ->
       m_owner (mtx (ps c) SM) = Some t /\ enabled c t = true) /\
    (* Semaphore: no waiter stays blocked while the count is positive *)
    (forall t, 0 < sem (ps c) XS -> (pc (tc c t) = SemWaitP \/ exists d, pc (tc c t) = SemWaitTP d) -> enabled c t = true) /\
    (* Mutex: re-entrant for its owner, tryLock never blocks *)
    (forall t, m_owner (mtx (ps c) XM) = Some t -> pc (tc c t) = MtxLockP -> enabled c t = true) /\
    (forall t, pc (tc c t) = MtxTryP \/ pc (tc c t) = MonTryP -> enabled c t = true) /\
    (* Monitor: a set() issued after a waiter has taken the monitor releases a waiter.  mark c u = the flag was written
       while u was blocked in its current wait; in c the write of a setter standing at its access has been performed *)
    (forall u, monf c = true -> blocked_on MC (st (ps c) u) = true -> mark c u = true ->
       exists v, ((pc (tc c v) = MonSetUnlock \/ pc (tc c v) = MonSetSignal) /\ enabled c v = true) \/
                 (exists rc dl dl', st (ps c) v = TWoken MM rc dl /\ pc (tc c v) = MonWaitCond dl' /\
                                    (is_free (mtx (ps c) MM) = true -> enabled c v = true))) /\
    (* Monitor: a woken waiter that finds the flag up consumes it and returns true, whatever its return code *)
    (forall v rc dl dl', st (ps c) v = TWoken MM rc dl -> pc (tc c v) = MonWaitCond dl' -> is_free (mtx (ps c) MM) = true ->
       monf c = true ->
       monf (step c (Run v)) = false /\ exists cl, trace (step c (Run v)) = EvRet v cl 1 :: trace c /\ is_mon_wait cl = true).
Proof.
  intros Hfu.
  destruct (fine_simulation_mark scripts results started s0 v0 fsched Hfu) as (sched & (so & mo & Ps & Pm & Ha & _) & HI).
  fold fw in Ps, Pm, Ha, HI.
  set (c := comp (base fw) so mo) in *.
  assert (Hc : complete_of fw c) by (exists so, mo; auto).
  set (w := reach scripts results started s0 v0 sched) in *.
  pose proof Ha as (A & B & C & D & E & F).
  exists c. split; [exact Hc|]. repeat split.
  - intros u Hs Hb. rewrite <- B in Hs. rewrite <- A in Hb.
    destruct (signal_no_waiter_blocked_while_set_l scripts results started s0 v0 sched Hv0 u Hs Hb) as (v & Hp & He).
    exists v. fold w in Hp, He. rewrite <- (F v), <- (enabled_agree w c v Ha). auto.
  - intros t Hp u. rewrite <- (F t) in Hp.
    destruct (step_agree w c (Run t) Ha) as ((A' & _) & _). rewrite <- A'.
    apply (signal_set_releases_all_waiters_l scripts results started s0 v0 sched Hv0 t Hp u).
  - rewrite <- A. apply (signal_set_broadcasts_under_mutex_l scripts results started s0 v0 sched Hv0 t). fold w. rewrite (F t). assumption.
  - rewrite <- (enabled_agree w c t Ha). apply (signal_set_broadcasts_under_mutex_l scripts results started s0 v0 sched Hv0 t). fold w. rewrite (F t). assumption.
  - intros t Hs Hp. rewrite <- A in Hs. rewrite <- (F t) in Hp. rewrite <- (enabled_agree w c t Ha).
    apply (semaphore_no_waiter_blocked_while_positive_l scripts results started s0 v0 sched Hv0 t Hs Hp).
  - intros t Ho Hp. rewrite <- A in Ho. rewrite <- (F t) in Hp. rewrite <- (enabled_agree w c t Ha).
    apply (mutex_reentrant_l scripts results started s0 v0 sched Hv0 t Ho Hp).
  - intros t Hp. rewrite <- (F t) in Hp. rewrite <- (enabled_agree w c t Ha).
    apply (trylock_enabled_l scripts results started s0 v0 sched Hv0 t Hp).
  - intros u Hm Hb Hk. rewrite <- C in Hm. rewrite <- A in Hb.
    pose proof (mark_comp_le fw w so mo Ps Pm HI u Hk) as Hkw.
    destruct (monitor_set_releases_a_waiter_l scripts results started s0 v0 sched Hv0 u Hm Hb Hkw) as (v & Hv).
    exists v. fold w in Hv. rewrite <- A, <- (F v), <- (enabled_agree w c v Ha). exact Hv.
  - rewrite <- A, <- (F v), <- C in *.
    destruct (monitor_woken_waiter_returns_true_l scripts results started s0 v0 sched Hv0 v rc dl dl') as (M1 & _); auto.
    destruct (step_agree w c (Run v) Ha) as ((_ & _ & C' & _) & _). now rewrite <- C'.
  - rewrite <- A, <- (F v), <- C in *.
    destruct (monitor_woken_waiter_returns_true_l scripts results started s0 v0 sched Hv0 v rc dl dl') as (_ & cl & M2 & M3); auto.
    destruct (step_agree w c (Run v) Ha) as (_ & eu & E1 & E2).
    exists cl. split; [|exact M3]. fold w in M2. rewrite M2 in E1.
    change (EvRet v cl 1 :: trace w) with ([EvRet v cl 1] ++ trace w) in E1. apply app_inv_tail in E1. subst eu. exact E2.
Qed.

End FineLive.
