(* SyncFineLocal.v - (1) histories up to commuting independent events; (2) LOCALITY of the coarse step:
   a move that does not touch the flag of class K treats two worlds that differ only in that flag, in the
   thread context of one (non-moving) thread, in the history and in the ghost marks alike, leaves those
   differences alone and emits the same events in both.  With no distinguished thread and K = KNone this says
   that [step] respects [agree] (the ghost [mark] and the history are never read). *)
From Coq Require Import ZArith List Bool Arith Lia.
From Sync Require Import Sched SyncSpec SyncModel SyncArith SyncInv SyncFine.
Import ListNotations.
Local Open Scope Z_scope.

Ltac wsimpl :=
  cbn [ps sigf monf occ handle tc trace mark set_ps set_sigf set_monf set_occ set_handle set_tc emit set_marks
       goto finish finish_false finish_false_at with_pc pc script cur tstart result
       mtx cnd sem st now set_mtx set_cnd set_sem set_st set_sts set_now prim_exit] in *.
Ltac upd_simpl := repeat (progress (rewrite ?upd_same in *; rewrite ?upd_other in * by congruence)).
Ltac dif := repeat match goal with |- context [if ?b then _ else _] => destruct b eqn:? end.

(* ---------------- tr_eq ---------------- *)
Lemma indep_sym a b : indep a b -> indep b a.
Proof.
  unfold indep, indepb. rewrite (Nat.eqb_sym (ev_tid b)), (orb_comm (deferred b)),
    (andb_comm (sig_class b)), (andb_comm (mon_class b)). auto.
Qed.

Lemma tr_eq_sym l l' : tr_eq l l' -> tr_eq l' l.
Proof.
  induction 1.
  - apply tr_refl.
  - apply tr_swap. now apply indep_sym.
  - now apply tr_cons.
  - eapply tr_trans; eauto.
Qed.

Lemma tr_eq_app_l p l l' : tr_eq l l' -> tr_eq (p ++ l) (p ++ l').
Proof. intros H. induction p; cbn; auto. now apply tr_cons. Qed.

Lemma tr_eq_move a l r : Forall (indep a) l -> tr_eq (a :: l ++ r) (l ++ a :: r).
Proof.
  induction 1 as [|b l Hab Hl IH]; cbn; [apply tr_refl|].
  eapply tr_trans; [apply tr_swap; exact Hab|]. apply tr_cons. exact IH.
Qed.

Definition all_indep (eu et : list event) : Prop := Forall (fun a => Forall (indep a) et) eu.

Lemma tr_eq_blocks eu et r : all_indep eu et -> tr_eq (eu ++ et ++ r) (et ++ eu ++ r).
Proof.
  induction 1 as [|a eu Ha Heu IH]; cbn; [apply tr_refl|].
  eapply tr_trans; [apply tr_cons; exact IH|]. now apply tr_eq_move.
Qed.

Lemma tr_eq_length l l' : tr_eq l l' -> length l = length l'.
Proof. induction 1; cbn; congruence. Qed.

(* ---------------- agree ---------------- *)
Lemma agree_refl w : agree w w.
Proof. unfold agree. repeat split; auto. Qed.
Lemma agree_sym w c : agree w c -> agree c w.
Proof. unfold agree. intros (A & B & C & D & E & F). repeat split; auto. Qed.
Lemma agree_trans a b c : agree a b -> agree b c -> agree a c.
Proof.
  unfold agree. intros (A & B & C & D & E & F) (A' & B' & C' & D' & E' & F').
  repeat split; try congruence.
Qed.

(* agreement + histories equal up to independent swaps *)
Definition sim (w c : world) : Prop := agree w c /\ tr_eq (trace w) (trace c).
Lemma sim_refl w : sim w w.
Proof. split; [apply agree_refl|apply tr_refl]. Qed.
Lemma sim_sym w c : sim w c -> sim c w.
Proof. intros [A B]. split; [now apply agree_sym|now apply tr_eq_sym]. Qed.
Lemma sim_trans a b c : sim a b -> sim b c -> sim a c.
Proof. intros [A B] [A' B']. split; [eapply agree_trans; eauto|eapply tr_trans; eauto]. Qed.

(* ---------------- locality ---------------- *)
Definition relK (ot : option tid) (K : fclass) (x y : world) : Prop :=
  ps x = ps y /\ occ x = occ y /\ handle x = handle y /\
  (forall v, ot <> Some v -> tc x v = tc y v) /\
  (K <> KSig -> sigf x = sigf y) /\ (K <> KMon -> monf x = monf y).

Lemma relK_agree x y : relK None KNone x y <-> agree x y.
Proof.
  unfold relK, agree. split.
  - intros (A & B & C & D & E & F). repeat split; auto; try (apply E; discriminate); try (apply F; discriminate).
    intros t. apply D. discriminate.
  - intros (A & B & C & D & E & F). repeat split; auto.
Qed.

(* does the thread-local code after the return of the call pending at p read / write the flag of class K,
   or emit an event of that class *)
Definition touches (K : fclass) (p : pcT) : bool :=
  match K, p with
  | KSig, (SigSetLock | SigResetLock | SigWaitLock _ | SigWaitCond _ | SigSetUnlock | SigResetUnlock | SigWaitUnlock _) => true
  | KMon, (MonWaitCond _ | MonSetLock) => true
  | _, _ => false
  end.

(* an event of thread u that is not of class K *)
Definition ev_ok (u : tid) (K : fclass) (e : event) : Prop :=
  ev_tid e = u /\ (K = KSig -> sig_class e = false) /\ (K = KMon -> mon_class e = false).

(* what the locality lemmas conclude about one move of thread u (or of nobody: u irrelevant) *)
Definition local_concl (ot : option tid) (K : fclass) (u : tid) (x y x' y' : world) : Prop :=
  relK ot K x' y' /\
  (forall t, t <> u -> tc x' t = tc x t /\ tc y' t = tc y t) /\
  (K = KSig -> sigf x' = sigf x /\ sigf y' = sigf y) /\
  (K = KMon -> monf x' = monf x /\ monf y' = monf y) /\
  exists eu, trace x' = eu ++ trace x /\ trace y' = eu ++ trace y /\ Forall (ev_ok u K) eu.

Ltac ev_done := repeat (apply Forall_cons; [unfold ev_ok; cbn; (split; [reflexivity|split; intros; try discriminate; try congruence])|]); try apply Forall_nil.
Ltac give_events :=
  first [ exists []; split; [reflexivity|split; [reflexivity|]]
        | eexists [_]; split; [reflexivity|split; [reflexivity|]]
        | eexists [_; _]; split; [reflexivity|split; [reflexivity|]] ].

Ltac relK_fields Htc u :=
  repeat split; auto;
  try (intros v Hv; unfold upd; destruct (Nat.eqb v u); [reflexivity|apply Htc; exact Hv]).

Ltac lc_split := unfold local_concl; split; [|split; [|split; [|split]]].

Lemma no_change_local ot K u x y : relK ot K x y -> local_concl ot K u x y x y.
Proof.
  intros H. lc_split; auto. exists []. repeat split; auto.
Qed.

Lemma set_ps_local ot K u x y p' : relK ot K x y -> local_concl ot K u x y (set_ps x p') (set_ps y p').
Proof.
  intros (A & B & C & D & E & F). lc_split; unfold relK; wsimpl; auto.
  - repeat split; auto.
  - exists []. repeat split; auto.
Qed.

Ltac ar_case rw D u :=
  cbn [after_return]; rw; dif;
  (lc_split;
  [ unfold relK; wsimpl; rw; repeat split; auto; try (intros; congruence);
    try (intros v Hv; unfold upd; destruct (Nat.eqb v u); [reflexivity|apply D; exact Hv])
  | intros t0 Ht0; wsimpl; rewrite ?upd_other by exact Ht0; split; reflexivity
  | intros HK; try discriminate HK; split; reflexivity
  | intros HK; try discriminate HK; split; reflexivity
  | wsimpl; rw; give_events; ev_done ]).

Ltac cur_done H1 :=
  repeat match goal with H : _ /\ _ |- _ => destruct H | H : exists _, _ |- _ => destruct H end;
  try match goal with H : cur _ = _ |- _ => rewrite H; reflexivity end;
  try (destruct (cur _); try discriminate; reflexivity).

Lemma after_return_local ot K x y u p r : relK ot K x y -> ot <> Some u -> touches K p = false ->
  (K <> KNone -> pc_ok p (cur (tc x u)) (tstart (tc x u))) ->
  local_concl ot K u x y (after_return x u p r) (after_return y u p r).
Proof.
  intros (A & B & C & D & E & F) Hu Ht H1.
  pose proof (D u Hu) as Du.
  destruct K.
  - assert (Es : sigf x = sigf y) by (apply E; discriminate).
    assert (Em : monf x = monf y) by (apply F; discriminate).
    destruct p; ar_case ltac:(rewrite <- ?A, <- ?B, <- ?C, <- ?Du, <- ?Es, <- ?Em) D u.
  - assert (Em : monf x = monf y) by (apply F; discriminate).
    specialize (H1 ltac:(discriminate)).
    destruct p; try discriminate Ht; try destruct dl; try destruct r0; cbn [pc_ok] in H1;
      ar_case ltac:(rewrite <- ?A, <- ?B, <- ?C, <- ?Du, <- ?Em) D u.
    all: cur_done H1.
  - assert (Es : sigf x = sigf y) by (apply E; discriminate).
    specialize (H1 ltac:(discriminate)).
    destruct p; try discriminate Ht; try destruct dl; try destruct r0; cbn [pc_ok] in H1;
      ar_case ltac:(rewrite <- ?A, <- ?B, <- ?C, <- ?Du, <- ?Es) D u.
    all: cur_done H1.
Qed.

Lemma begin_op_local ot K x y u op rest : relK ot K x y -> ot <> Some u ->
  local_concl ot K u x y (begin_op x u op rest) (begin_op y u op rest).
Proof.
  intros (A & B & C & D & E & F) Hu.
  pose proof (D u Hu) as Du.
  destruct op; cbn [begin_op]; rewrite <- ?A, <- ?B, <- ?C, <- ?Du; dif;
  (lc_split;
  [ unfold relK; wsimpl; rewrite ?upd_same; rewrite <- ?A, <- ?B, <- ?C, <- ?Du; repeat split; auto;
    try (intros v Hv; unfold upd; destruct (Nat.eqb v u); [reflexivity|apply D; exact Hv])
  | intros t0 Ht0; wsimpl; rewrite ?upd_other by exact Ht0; split; reflexivity
  | intros HK; split; reflexivity
  | intros HK; split; reflexivity
  | wsimpl; rewrite ?upd_same; rewrite <- ?A, <- ?B, <- ?C, <- ?Du; wsimpl; give_events; ev_done ]).
Qed.

(* ---- the thread standing in front of its access owns the guarding mutex: nobody else's call touches the flag ---- *)
Definition owner_of (K : fclass) (p : prim_state) (t : tid) : Prop :=
  match K with
  | KNone => True
  | KSig => m_owner (mtx p SM) = Some t
  | KMon => m_owner (mtx p MM) = Some t
  end.

Lemma no_touch K p t u q p' r :
  K = KNone \/ (owner_of K p t /\ t <> u) ->
  prim_step p u (pending q) = Return p' r ->
  st_pc_ok (st p u) q -> (K = KSig -> pending q <> PUnlock SM) ->
  touches K q = false.
Proof.
  intros [->|[Ho Htu]] Hp Hs Hnu; [destruct q; reflexivity|].
  destruct K; [destruct q; reflexivity| |]; cbn [owner_of] in Ho;
    destruct q; cbn [touches]; try reflexivity; exfalso;
    try (apply (Hnu eq_refl); reflexivity); prim_inv Hp;
    try match goal with H : _ \/ _ |- _ => destruct H as [[Hx _]|(Hx & _)]; congruence end;
    try (unfold owned_by in *; rewrite Ho in *;
         match goal with H : (_ =? _)%nat = true |- _ => apply Nat.eqb_eq in H; congruence end).
  all: match goal with H : st _ _ = TWoken _ _ _ |- _ => rewrite H in Hs; cbn in Hs; destruct Hs as (c0 & Hs); inversion Hs; subst end.
  all: unfold is_free in *; rewrite Ho in *; discriminate.
Qed.

Lemma touches_sem K p : is_sem_wait p = true -> touches K p = false.
Proof. destruct K, p; cbn; auto; discriminate. Qed.

Definition ev_ok2 (ot : option tid) (K : fclass) (e : event) : Prop :=
  (forall t, ot = Some t -> ev_tid e <> t) /\ (K = KSig -> sig_class e = false) /\ (K = KMon -> mon_class e = false).

Definition local_concl2 (ot : option tid) (K : fclass) (x y x' y' : world) : Prop :=
  relK ot K x' y' /\
  (forall t, ot = Some t -> tc x' t = tc x t /\ tc y' t = tc y t) /\
  (K = KSig -> sigf x' = sigf x /\ sigf y' = sigf y) /\
  (K = KMon -> monf x' = monf x /\ monf y' = monf y) /\
  exists eu, trace x' = eu ++ trace x /\ trace y' = eu ++ trace y /\ Forall (ev_ok2 ot K) eu.

Lemma local_concl_2 ot K u x y x' y' : ot <> Some u -> local_concl ot K u x y x' y' -> local_concl2 ot K x y x' y'.
Proof.
  intros Hu (A & B & C & D & eu & E1 & E2 & E3). unfold local_concl2. split; [exact A|]. split; [|split; [exact C|split; [exact D|]]].
  - intros t Ht. apply B. congruence.
  - exists eu. split; [exact E1|split; [exact E2|]]. eapply Forall_impl; [|exact E3].
    intros e (H1 & H2 & H3). split; [|split; auto]. intros t Ht. congruence.
Qed.

Lemma occ_clear_mark w w' t : occ (clear_mark_on_block w w' t) = occ w'.
Proof. unfold clear_mark_on_block. destruct (_ && _); reflexivity. Qed.
Lemma handle_clear_mark w w' t : handle (clear_mark_on_block w w' t) = handle w'.
Proof. unfold clear_mark_on_block. destruct (_ && _); reflexivity. Qed.

Lemma clear_mark_local ot K x y x' y' u v :
  local_concl2 ot K x y x' y' -> local_concl2 ot K x y (clear_mark_on_block x x' u) (clear_mark_on_block y y' v).
Proof.
  unfold local_concl2, relK.
  rewrite !ps_clear_mark, !occ_clear_mark, !handle_clear_mark, !tc_clear_mark, !sigf_clear_mark, !monf_clear_mark, !trace_clear_mark.
  auto.
Qed.

Lemma step_run_shape w t :
  step_run w t =
  if negb (runnable (st (ps w) t)) then w else
  if match pc (tc w t) with Idle => true | _ => false end then
    match script (tc w t) with
    | [] => emit (set_ps w (prim_exit (ps w) t (result (tc w t)))) (EvExit t (result (tc w t)))
    | op :: rest => begin_op w t op rest
    end
  else
    match prim_step (ps w) t (pending (pc (tc w t))) with
    | Blocked => w
    | Progress p' => set_ps w p'
    | Return p' r => after_return (set_ps w p') t (pc (tc w t)) r
    end.
Proof. unfold step_run. destruct (negb _); [reflexivity|]. destruct (pc (tc w t)); reflexivity. Qed.

Lemma exit_local ot K u x y p' v : relK ot K x y -> local_concl ot K u x y (emit (set_ps x p') (EvExit u v)) (emit (set_ps y p') (EvExit u v)).
Proof.
  intros (A & B & C & D & E & F). lc_split; unfold relK; wsimpl; auto.
  - repeat split; auto.
  - give_events. ev_done.
Qed.

Definition pend_ok (x y : world) (t : tid) : Prop :=
  st (ps x) t = TRun /\ is_sem_wait (pc (tc x t)) = false /\ is_sem_wait (pc (tc y t)) = false.

Lemma step_local ot K x y mv :
  relK ot K x y ->
  (K = KNone \/ exists t, ot = Some t) ->
  (forall t, ot = Some t -> pend_ok x y t /\ mv <> Run t /\ owner_of K (ps x) t) ->
  (forall u, mv = Run u -> K <> KNone -> st_pc_ok (st (ps x) u) (pc (tc x u)) /\ (K = KSig -> pending (pc (tc x u)) <> PUnlock SM)) ->
  (K <> KNone -> I1 x) ->
  local_concl2 ot K x y (step x mv) (step y mv).
Proof.
  intros HR HK Hpend Hmov H1.
  pose proof HR as (A & B & C & D & E & F).
  assert (Hnc : local_concl2 ot K x y x y).
  { destruct ot as [t|]; [apply (local_concl_2 _ _ (S t))|apply (local_concl_2 _ _ O)]; try (intros X; inversion X; lia); try discriminate;
      now apply no_change_local. }
  assert (Hown : forall u, ot <> Some u -> K = KNone \/ exists t, owner_of K (ps x) t /\ t <> u).
  { intros u Hu. destruct HK as [HK|(t & Ht)]; [left; exact HK|right]. exists t. split; [apply Hpend; exact Ht|congruence]. }
  destruct mv as [u|u|u|u|n|c]; cbn [step].
  - assert (Hu : ot <> Some u) by (intros Ht; destruct (Hpend u Ht) as (_ & Hne & _); congruence).
    pose proof (D u Hu) as Du. specialize (Hmov u eq_refl).
    apply clear_mark_local. apply (local_concl_2 _ K u); [exact Hu|].
    rewrite !step_run_shape. rewrite <- A, <- Du.
    destruct (negb _); [now apply no_change_local|].
    destruct (match pc (tc x u) with Idle => true | _ => false end) eqn:Hidle.
    + destruct (script (tc x u)); [now apply exit_local|now apply begin_op_local].
    + destruct (prim_step (ps x) u (pending (pc (tc x u)))) as [|p'|p' r] eqn:Hp.
      * now apply no_change_local.
      * now apply set_ps_local.
      * assert (HR' : relK ot K (set_ps x p') (set_ps y p')) by (unfold relK; wsimpl; repeat split; auto).
        pose proof (after_return_local ot K (set_ps x p') (set_ps y p') u (pc (tc x u)) r HR' Hu) as Har.
        wsimpl. destruct Har as (R1 & R2 & R3 & R4 & eu & R5 & R6 & R7).
        -- destruct (Hown u Hu) as [->|(t & Ho & Htu)]; [destruct (pc (tc x u)); reflexivity|].
           destruct K; [destruct (pc (tc x u)); reflexivity| |]; (destruct Hmov as [Hs Hnu]; [discriminate|]; eapply no_touch; eauto).
        -- intros HKn. apply (H1 HKn u).
        -- lc_split; auto. exists eu. auto.
  - destruct (st (ps x) u) eqn:Hst; rewrite <- A, Hst; try exact Hnc.
    + destruct ot as [t|]; [destruct (Nat.eq_dec t u) as [->|Hn]|].
      * destruct (Hpend u eq_refl) as ((_ & S1 & S2) & _). rewrite S1, S2. exact Hnc.
      * assert (Hu : Some t <> Some u) by congruence. rewrite <- (D u Hu).
        destruct (is_sem_wait (pc (tc x u))) eqn:Hsw; [|exact Hnc].
        apply (local_concl_2 _ K u); [exact Hu|]. apply after_return_local; auto; [now apply touches_sem|].
        intros HKn. apply (H1 HKn u).
      * assert (Hu : None <> Some u) by discriminate. rewrite <- (D u Hu).
        destruct (is_sem_wait (pc (tc x u))) eqn:Hsw; [|exact Hnc].
        apply (local_concl_2 _ K u); [exact Hu|]. apply after_return_local; auto; [now apply touches_sem|].
        intros HKn. apply (H1 HKn u).
    + destruct ot as [t|]; [apply (local_concl_2 _ _ (S t))|apply (local_concl_2 _ _ O)]; try (intros X; inversion X; lia); try discriminate;
        now apply set_ps_local.
  - destruct (st (ps x) u) eqn:Hst; rewrite <- A, Hst; try exact Hnc.
    + assert (Hcase : ot = Some u \/ ot <> Some u) by (destruct ot as [t|]; [destruct (Nat.eq_dec t u) as [->|Hn]; [left; reflexivity|right; intros X; inversion X; contradiction]|right; discriminate]).
      destruct Hcase as [Hu|Hu].
      * destruct (Hpend u Hu) as ((_ & S1 & S2) & _).
        destruct (pc (tc x u)); try discriminate S1; destruct (pc (tc y u)); try discriminate S2; exact Hnc.
      * rewrite <- (D u Hu). destruct (pc (tc x u)) eqn:Hpc; try exact Hnc.
        destruct (_ && _); [|exact Hnc].
        apply (local_concl_2 _ K u); [exact Hu|]. apply after_return_local; auto; [now apply touches_sem|].
        intros HKn. pose proof (H1 HKn u) as X. rewrite Hpc in X. exact X.
    + destruct ot as [t|]; [apply (local_concl_2 _ _ (S t))|apply (local_concl_2 _ _ O)]; try (intros X; inversion X; lia); try discriminate;
        now apply set_ps_local.
  - rewrite <- A. destruct ot as [t|]; [apply (local_concl_2 _ _ (S t))|apply (local_concl_2 _ _ O)]; try (intros X; inversion X; lia); try discriminate;
      now apply set_ps_local.
  - rewrite <- A. destruct ot as [t|]; [apply (local_concl_2 _ _ (S t))|apply (local_concl_2 _ _ O)]; try (intros X; inversion X; lia); try discriminate;
      now apply set_ps_local.
  - rewrite <- A. destruct ot as [t|]; [apply (local_concl_2 _ _ (S t))|apply (local_concl_2 _ _ O)]; try (intros X; inversion X; lia); try discriminate;
      now apply set_ps_local.
Qed.
