(* SyncSpec.v - the property text of C11 as predicates over the history of library calls.
   It does not look at the code: it only knows the vocabulary of calls and events.
   Histories are lists of events, NEWEST FIRST. *)
From Coq Require Import ZArith List Bool Arith.
Import ListNotations.
Local Open Scope Z_scope.

Definition tid := nat.

Inductive libcall :=
| SigSet | SigReset | SigWait | SigWaitT (ms : Z)
| MonLock | MonTryLock | MonUnlock | MonWait | MonWaitT (ms : Z) | MonSet
| MtxLock | MtxTryLock | MtxUnlock
| SemSignal | SemWait | SemWaitT (ms : Z) | SemTryWait
| ThStart (c : tid) | ThJoin (c : tid)
| ThStartF (c : tid)      (* Thread::start whose pthread_create FAILS (EAGAIN: transient lack of resources) - the failing outcome is an input of the scenario *)
| CsEnter | CsLeave.

Inductive event :=
| EvRet (t : tid) (c : libcall) (v : Z)                    (* library call returned v (void = 0, bool = 0/1) *)
| EvSigWrite (t : tid) (b : bool)                          (* Signal: flag := b (set / reset took effect) *)
| EvMonSet (t : tid)                                       (* Monitor: set took effect *)
| EvTimedFalse (t : tid) (c : libcall) (start nowv : Z)    (* a timed wait that read the clock at `start` returns false at `nowv` (ns) *)
| EvJoin (t c : tid) (v : Z)                               (* join of thread c returned v *)
| EvExit (t : tid) (v : Z).                                (* thread function of t returned v *)

(* ---- Signal: a manual-reset event ---- *)
Definition is_sig_wait (c : libcall) : bool := match c with SigWait | SigWaitT _ => true | _ => false end.

(* the state of the event after the history: the last set/reset that took effect, else the constructor argument *)
Fixpoint sig_state (s0 : bool) (tr : list event) : bool :=
  match tr with
  | [] => s0
  | EvSigWrite _ b :: _ => b
  | _ :: r => sig_state s0 r
  end.

(* "a wait returns true only if the signal was set since its last reset" *)
Fixpoint sig_ok (s0 : bool) (tr : list event) : bool :=
  match tr with
  | [] => true
  | EvRet _ c v :: r => (if is_sig_wait c && (v =? 1) then sig_state s0 r else true) && sig_ok s0 r
  | _ :: r => sig_ok s0 r
  end.

(* ---- Monitor ---- *)
Definition is_mon_wait (c : libcall) : bool := match c with MonWait | MonWaitT _ => true | _ => false end.
Fixpoint mon_waits (tr : list event) : Z :=
  match tr with
  | [] => 0
  | EvRet _ c v :: r => (if is_mon_wait c && (v =? 1) then 1 else 0) + mon_waits r
  | _ :: r => mon_waits r
  end.
Fixpoint mon_sets (tr : list event) : Z :=
  match tr with
  | [] => 0
  | EvMonSet _ :: r => 1 + mon_sets r
  | _ :: r => mon_sets r
  end.
(* "successful Monitor waits never outnumber set() calls", at every moment *)
Fixpoint mon_ok (tr : list event) : bool :=
  match tr with
  | [] => true
  | _ :: r => (mon_waits tr <=? mon_sets tr) && mon_ok r
  end.

(* ---- Semaphore ---- *)
Definition is_sem_wait_call (c : libcall) : bool := match c with SemWait | SemWaitT _ | SemTryWait => true | _ => false end.
Fixpoint sem_waits (tr : list event) : Z :=
  match tr with
  | [] => 0
  | EvRet _ c v :: r => (if is_sem_wait_call c && (v =? 1) then 1 else 0) + sem_waits r
  | _ :: r => sem_waits r
  end.
Fixpoint sem_signals (tr : list event) : Z :=
  match tr with
  | [] => 0
  | EvRet _ SemSignal _ :: r => 1 + sem_signals r
  | _ :: r => sem_signals r
  end.
(* "successful waits never exceed the initial value plus signals", at every moment *)
Fixpoint sem_ok (v0 : Z) (tr : list event) : bool :=
  match tr with
  | [] => true
  | _ :: r => (sem_waits tr <=? v0 + sem_signals tr) && sem_ok v0 r
  end.

(* ---- Mutex: how many times thread t currently holds it, from the returns of lock/tryLock/unlock ---- *)
Fixpoint held (tr : list event) (t : tid) : nat :=
  match tr with
  | [] => O
  | EvRet u MtxLock _ :: r => if Nat.eqb u t then S (held r t) else held r t
  | EvRet u MtxTryLock v :: r => if Nat.eqb u t && (v =? 1) then S (held r t) else held r t
  | EvRet u MtxUnlock _ :: r => if Nat.eqb u t then Nat.pred (held r t) else held r t
  | _ :: r => held r t
  end.
Definition ev_tid (e : event) : tid :=
  match e with EvRet t _ _ | EvSigWrite t _ | EvMonSet t | EvTimedFalse t _ _ _ | EvJoin t _ _ | EvExit t _ => t end.
Definition acquires (e : event) : bool :=
  match e with EvRet _ MtxLock _ => true | EvRet _ MtxTryLock v => v =? 1 | _ => false end.
(* "admits one thread at a time (re-entrantly for its owner)": whenever a lock/tryLock succeeds,
   no OTHER thread holds the mutex *)
Fixpoint mtx_ok (tr : list event) : bool :=
  match tr with
  | [] => true
  | e :: r => (if acquires e then forallb (fun u => Nat.eqb u (ev_tid e) || Nat.eqb (held r u) 0) (map ev_tid r) else true)
              && mtx_ok r
  end.

(* ---- timed waits: "return false only after their timeout has expired" ---- *)
Definition timeout_of (c : libcall) : option Z :=
  match c with SigWaitT ms | MonWaitT ms | SemWaitT ms => Some ms | _ => None end.
Fixpoint timed_ok (tr : list event) : bool :=
  match tr with
  | [] => true
  | EvTimedFalse _ c start nowv :: r =>
      match timeout_of c with Some ms => start + ms * 1000000 <=? nowv | None => false end && timed_ok r
  | _ :: r => timed_ok r
  end.

(* ---- Thread::join "returns the thread function's result after it has finished" ---- *)
Fixpoint exited (tr : list event) (c : tid) : option Z :=
  match tr with
  | [] => None
  | EvExit u v :: r => if Nat.eqb u c then Some v else exited r c
  | _ :: r => exited r c
  end.
Fixpoint join_ok (tr : list event) : bool :=
  match tr with
  | [] => true
  | EvJoin _ c v :: r => match exited r c with Some v' => v =? v' | None => false end && join_ok r
  | _ :: r => join_ok r
  end.

(* the deadline a timed wait must use: start + timeout, as a normalised (sec, nsec) pair *)
Definition spec_deadline (s ns t : Z) : Z * Z :=
  let total := s * 1000000000 + ns + t * 1000000 in (total / 1000000000, total mod 1000000000).

Definition all_ok (s0 : bool) (v0 : Z) (tr : list event) : list bool :=
  [sig_ok s0 tr; mon_ok tr; sem_ok v0 tr; mtx_ok tr; timed_ok tr; join_ok tr].
