(* SyncInv.v - structural lemmas about [step] and the base invariants of the model *)
From Coq Require Import ZArith List Bool Arith Lia.
From Coq Require Import ZifyBool ZifyNat ZifyN.
From Sync Require Import Sched SyncSpec SyncModel SyncArith.
Import ListNotations.
Ltac Zify.zify_post_hook ::= Z.div_mod_to_equations.
Local Open Scope Z_scope.

Lemma run_inv (P : world -> Prop) :
  (forall w mv, P w -> P (step w mv)) -> forall sched w, P w -> P (run w sched).
Proof.
  intros Hs sched. unfold run. induction sched as [|mv sched IH]; intros w Hw; cbn [fold_left]; auto.
Qed.

Lemma run_app w s1 s2 : run w (s1 ++ s2) = run (run w s1) s2.
Proof. unfold run. apply fold_left_app. Qed.

Lemma upd_same {A} (f : nat -> A) k v : upd f k v k = v.
Proof. unfold upd. now rewrite Nat.eqb_refl. Qed.
Lemma upd_other {A} (f : nat -> A) k v x : x <> k -> upd f k v x = f x.
Proof. unfold upd. intros H. destruct (Nat.eqb_spec x k); congruence. Qed.

Ltac wsimpl :=
  cbn [ps sigf monf occ handle tc trace mark set_ps set_sigf set_monf set_occ set_handle set_tc emit set_marks
       goto finish finish_false with_pc pc script cur tstart result
       mtx cnd sem st now set_mtx set_cnd set_sem set_st set_sts set_now prim_exit] in *.

(* ---- the shape of a Run move ---- *)
Inductive run_case (w : world) (t : tid) : world -> Prop :=
| RcNone : run_case w t w
| RcExit : runnable (st (ps w) t) = true -> pc (tc w t) = Idle -> script (tc w t) = [] ->
    run_case w t (emit (set_ps w (prim_exit (ps w) t (result (tc w t)))) (EvExit t (result (tc w t))))
| RcBegin op rest : runnable (st (ps w) t) = true -> pc (tc w t) = Idle -> script (tc w t) = op :: rest ->
    run_case w t (begin_op w t op rest)
| RcProgress p' : runnable (st (ps w) t) = true -> pc (tc w t) <> Idle ->
    prim_step (ps w) t (pending (pc (tc w t))) = Progress p' -> run_case w t (set_ps w p')
| RcReturn p' r : runnable (st (ps w) t) = true -> pc (tc w t) <> Idle ->
    prim_step (ps w) t (pending (pc (tc w t))) = Return p' r ->
    run_case w t (after_return (set_ps w p') t (pc (tc w t)) r).

Lemma step_run_case w t : run_case w t (step_run w t).
Proof.
  unfold step_run. destruct (runnable (st (ps w) t)) eqn:Hr; cbn [negb]; [|constructor].
  destruct (pc (tc w t)) eqn:Hpc.
  1:{ destruct (script (tc w t)) eqn:Hs; [apply RcExit|eapply RcBegin]; eauto. }
  all: destruct (prim_step (ps w) t _) eqn:Hp; [constructor| |];
    rewrite <- Hpc in *; try (apply RcProgress; auto; congruence); try (apply RcReturn; auto; congruence).
Qed.

(* ---- I1 : the program counter of a thread belongs to the library call it is executing;
        a timed wait carries the deadline computed from the clock value it read ---- *)
Definition dl_of (ts : Z) (c : libcall) (d : dlT) : Prop :=
  exists ms, timeout_of c = Some ms /\ d = deadline_at ts ms.

Definition pc_ok (p : pcT) (c : libcall) (ts : Z) : Prop :=
  match p with
  | Idle => True
  | SigSetLock | SigSetUnlock | SigSetBcast => c = SigSet
  | SigResetLock | SigResetUnlock => c = SigReset
  | SigWaitLock None | SigWaitCond None => c = SigWait
  | SigWaitLock (Some d) | SigWaitCond (Some d) => (exists ms, c = SigWaitT ms) /\ dl_of ts c d
  | SigWaitUnlock true => is_sig_wait c = true
  | SigWaitUnlock false => exists ms, c = SigWaitT ms
  | MonLockP => c = MonLock
  | MonTryP => c = MonTryLock
  | MonUnlockP => c = MonUnlock
  | MonWaitCond None => c = MonWait
  | MonWaitCond (Some d) => (exists ms, c = MonWaitT ms) /\ dl_of ts c d
  | MonSetLock | MonSetUnlock | MonSetSignal => c = MonSet
  | MtxLockP => c = MtxLock
  | MtxTryP => c = MtxTryLock
  | MtxUnlockP => c = MtxUnlock
  | SemPostP => c = SemSignal
  | SemWaitP => c = SemWait
  | SemTryP => c = SemTryWait
  | SemWaitTP d => (exists ms, c = SemWaitT ms) /\ dl_of ts c d
  | ThStartP ch | ThStartRet ch => c = ThStart ch
  | ThJoinP ch => c = ThJoin ch
  end.

Definition I1 (w : world) : Prop := forall t, pc_ok (pc (tc w t)) (cur (tc w t)) (tstart (tc w t)).

Ltac upd_simpl := repeat (progress (rewrite ?upd_same in *; rewrite ?upd_other in * by congruence)).
Ltac upd_cases u t := destruct (Nat.eq_dec u t) as [->|?]; upd_simpl.

Lemma I1_begin w t op rest : I1 w -> I1 (begin_op w t op rest).
Proof.
  intros H u. unfold begin_op.
  destruct op; wsimpl; try destruct (handle w c); wsimpl; upd_cases u t; wsimpl; auto; try apply H;
    cbn [pc_ok]; auto;
    try (split; [eexists; reflexivity | eexists; split; [reflexivity|reflexivity]]).
Qed.

Lemma I1_after w t r : I1 w -> I1 (after_return w t (pc (tc w t)) r).
Proof.
  intros H u. pose proof (H t) as Ht. pose proof (H u) as Hu.
  destruct (pc (tc w t)) eqn:Hpc; cbn [after_return]; wsimpl;
    repeat match goal with
    | |- context [if ?b then _ else _] => destruct b eqn:?
    end; wsimpl; upd_cases u t; wsimpl; auto; try rewrite ?Hpc in *; cbn [pc_ok] in *; auto;
    try (destruct dl; cbn [pc_ok timed andb] in *; intuition (eauto; try congruence));
    repeat match goal with H : exists _, _ |- _ => destruct H end;
    match goal with H : cur _ = _ |- _ => rewrite H end; reflexivity.
Qed.

Lemma tc_clear_mark w w' t : tc (clear_mark_on_block w w' t) = tc w'.
Proof. unfold clear_mark_on_block. destruct (_ && _); reflexivity. Qed.
Lemma ps_clear_mark w w' t : ps (clear_mark_on_block w w' t) = ps w'.
Proof. unfold clear_mark_on_block. destruct (_ && _); reflexivity. Qed.
Lemma trace_clear_mark w w' t : trace (clear_mark_on_block w w' t) = trace w'.
Proof. unfold clear_mark_on_block. destruct (_ && _); reflexivity. Qed.
Lemma sigf_clear_mark w w' t : sigf (clear_mark_on_block w w' t) = sigf w'.
Proof. unfold clear_mark_on_block. destruct (_ && _); reflexivity. Qed.
Lemma monf_clear_mark w w' t : monf (clear_mark_on_block w w' t) = monf w'.
Proof. unfold clear_mark_on_block. destruct (_ && _); reflexivity. Qed.

Lemma I1_tc w w' : tc w' = tc w -> I1 w -> I1 w'.
Proof. intros E H t. rewrite E. apply H. Qed.

Lemma I1_step w mv : I1 w -> I1 (step w mv).
Proof.
  intros H. destruct mv as [t|t|t|t|n|c]; cbn [step].
  - apply (I1_tc (step_run w t)); [apply tc_clear_mark|].
    destruct (step_run_case w t).
    + auto.
    + apply (I1_tc w); [reflexivity|auto].
    + now apply I1_begin.
    + apply (I1_tc w); [reflexivity|auto].
    + apply (I1_after (set_ps w p') t r). apply (I1_tc w); [reflexivity|auto].
  - destruct (st (ps w) t); auto; try (apply (I1_tc w); [reflexivity|auto]; fail).
    destruct (is_sem_wait (pc (tc w t))); auto. now apply I1_after.
  - destruct (st (ps w) t); auto; try (apply (I1_tc w); [reflexivity|auto]; fail).
    destruct (pc (tc w t)) eqn:Hpc; auto. destruct (_ && _); auto.
    rewrite <- Hpc. now apply I1_after.
  - apply (I1_tc w); [reflexivity|auto].
  - apply (I1_tc w); [reflexivity|auto].
  - apply (I1_tc w); [reflexivity|auto].
Qed.


(* ---- frame facts ---- *)
Lemma ps_after_return w t p r : ps (after_return w t p r) = ps w.
Proof.
  destruct p; cbn [after_return]; wsimpl;
    repeat match goal with |- context [if ?b then _ else _] => destruct b end; reflexivity.
Qed.
Lemma ps_begin_op w t op rest : ps (begin_op w t op rest) = ps w.
Proof. destruct op; cbn [begin_op]; wsimpl; try destruct (handle w c); reflexivity. Qed.

(* the TimeoutSteal move either does nothing or turns the return code of a woken timed waiter into ETIMEDOUT *)
Lemma steal_shape p t : prim_timeout_steal p t = p \/
  exists m rc d, st p t = TWoken m rc (Some d) /\ dl_expired d (now p) = true /\
                 prim_timeout_steal p t = set_st p t (TWoken m ETIMEDOUT (Some d)).
Proof.
  unfold prim_timeout_steal. destruct (st p t) eqn:Hst; auto. destruct dl as [d|]; auto.
  destruct (dl_expired d (now p)) eqn:He; auto. right. eauto 10.
Qed.

(* ---- how one primitive step changes the primitive state ---- *)
Definition st_evolves (a b : tstat) : Prop :=
  a = b \/ (exists c m dl, a = TCondBlocked c m dl /\ b = TWoken m 0 dl) \/ (a = TNotStarted /\ b = TRun).

Definition outcome_state (o : outcome) : option prim_state :=
  match o with Blocked => None | Progress p => Some p | Return p _ => Some p end.

Lemma wake_evolves s : st_evolves s (wake 0 s).
Proof. destruct s; cbn; [left; auto| left; auto| |left; auto|left; auto|left; auto]. right; left; eauto. Qed.

Ltac inv_outcome H := cbn [outcome_state] in H; inversion H; subst; clear H.

Lemma acquire_some p m t p' : acquire p m t = Some p' ->
  exists k, p' = set_mtx p m {| m_rec := m_rec (mtx p m); m_owner := Some t; m_cnt := k |} /\
  (m_owner (mtx p m) = None /\ k = 1%nat \/
   m_owner (mtx p m) = Some t /\ m_rec (mtx p m) = true /\ k = S (m_cnt (mtx p m))).
Proof.
  unfold acquire. destruct (m_owner (mtx p m)) as [o|] eqn:Ho.
  - destruct (Nat.eqb_spec o t) as [->|]; cbn [andb]; [|discriminate].
    destruct (m_rec (mtx p m)) eqn:Hr; [|discriminate]. intros E; inversion E; subst. eexists; split; [reflexivity|]. right; auto.
  - intros E; inversion E; subst. eexists; split; [reflexivity|]. left; auto.
Qed.

Lemma prim_step_st_other p t c p' u : outcome_state (prim_step p t c) = Some p' -> u <> t -> st p t <> TNotStarted ->
  st_evolves (st p u) (st p' u).
Proof.
  intros H Hu Hns. destruct c; cbn [prim_step] in H.
  - inv_outcome H. left; auto.
  - destruct (acquire p m t) eqn:Ha; inv_outcome H. apply acquire_some in Ha as (k & -> & _). left; reflexivity.
  - destruct (acquire p m t) eqn:Ha; inv_outcome H; [|left; auto]. apply acquire_some in Ha as (k & -> & _). left; reflexivity.
  - destruct (owned_by (mtx p m) t); [|destruct (m_rec (mtx p m))]; inv_outcome H; [|left; auto|left; reflexivity].
    unfold release. destruct (m_cnt (mtx p m)) as [|[|k]]; left; reflexivity.
  - destruct (st p t) eqn:Hst; try discriminate.
    + destruct (negb _); [inv_outcome H; wsimpl; rewrite upd_other by auto; left; auto|].
      destruct (dl_bad dl); inv_outcome H; wsimpl; [left; auto|]. rewrite upd_other by auto. left; reflexivity.
    + destruct (is_free _); inv_outcome H. wsimpl. rewrite upd_other by auto. left; reflexivity.
  - destruct (find _ _) as [v|] eqn:Hf; inv_outcome H; [|left; auto]. wsimpl.
    destruct (Nat.eq_dec u v) as [->|]; [rewrite upd_same; apply wake_evolves | rewrite upd_other by auto; left; reflexivity].
  - inv_outcome H. wsimpl. destruct (blocked_on c (st p u)); [apply wake_evolves|left; auto].
  - destruct (0 <? sem p s); [inv_outcome H; left; reflexivity|]. destruct (dl_bad dl); inv_outcome H. left; auto.
  - destruct (0 <? sem p s); inv_outcome H; left; reflexivity.
  - inv_outcome H; left; reflexivity.
  - destruct (st p child) eqn:Hc; inv_outcome H; try (left; reflexivity). wsimpl.
    destruct (Nat.eq_dec u child) as [->|]; [rewrite upd_same; right; right; auto | rewrite upd_other by auto; left; auto].
  - destruct (st p child); inv_outcome H. left; auto.
Qed.

(* the calling thread itself *)
Definition self_ok (p : prim_state) (t : tid) (c : prim_call) : Prop :=
  st p t = TRun \/ exists c' m rc dl, st p t = TWoken m rc dl /\ c = PCondWait c' m dl.

Lemma find_blocked_some c p q v : find (fun u => blocked_on c (st p u)) q = Some v -> blocked_on c (st p v) = true /\ In v q.
Proof. intros H. apply find_some in H. tauto. Qed.

Lemma prim_step_st_self_return p t c p' r : prim_step p t c = Return p' r -> self_ok p t c -> st p' t = TRun.
Proof.
  intros H Hs. destruct c; cbn [prim_step] in H;
    try (destruct Hs as [Hs|(c' & m' & rc & dl' & Hs & Hc)]; [|discriminate Hc]).
  - inversion H; subst; auto.
  - destruct (acquire p m t) eqn:Ha; inversion H; subst. apply acquire_some in Ha as (k & -> & _). exact Hs.
  - destruct (acquire p m t) eqn:Ha; inversion H; subst; auto. apply acquire_some in Ha as (k & -> & _). exact Hs.
  - destruct (owned_by (mtx p m) t); [|destruct (m_rec (mtx p m))]; inversion H; subst; auto.
    unfold release. destruct (m_cnt (mtx p m)) as [|[|k]]; exact Hs.
  - destruct Hs as [Hs|(c' & m' & rc & dl' & Hs & Hc)]; rewrite Hs in H.
    + destruct (negb _); [discriminate|]. destruct (dl_bad dl); inversion H; subst; auto.
    + destruct (is_free _); inversion H; subst. wsimpl. apply upd_same.
  - destruct (find _ _) as [v|] eqn:Hf; inversion H; subst; auto. wsimpl.
    apply find_blocked_some in Hf as [Hb _].
    destruct (Nat.eq_dec t v) as [<-|]; [rewrite Hs in Hb; discriminate | rewrite upd_other by auto; auto].
  - inversion H; subst. wsimpl. rewrite Hs. reflexivity.
  - destruct (0 <? sem p s); [inversion H; subst; exact Hs|]. destruct (dl_bad dl); inversion H; subst; auto.
  - destruct (0 <? sem p s); inversion H; subst; exact Hs.
  - inversion H; subst; exact Hs.
  - destruct (st p child) eqn:Hc; inversion H; subst; auto. wsimpl.
    destruct (Nat.eq_dec t child) as [<-|]; [congruence | rewrite upd_other by auto; auto].
  - destruct (st p child); inversion H; subst; auto.
Qed.

Lemma prim_step_progress p t c p' : prim_step p t c = Progress p' ->
  exists c' m dl, c = PCondWait c' m dl /\ st p t = TRun /\
    (owned_by (mtx p m) t = false /\ p' = set_st p t TFault \/
     owned_by (mtx p m) t = true /\ dl_bad dl = false /\
     p' = set_st (set_cnd (release_all p m) c' (cnd p c' ++ [t])) t (TCondBlocked c' m dl)).
Proof.
  intros H. destruct c; cbn [prim_step] in H;
    repeat match goal with H : context [match ?x with _ => _ end] |- _ => destruct x eqn:?; try discriminate end;
    try discriminate.
  all: inversion H; subst; do 3 eexists; split; [reflexivity|]; split; auto.
  - left. split; auto. destruct (owned_by _ _); auto; discriminate.
  - right. destruct (owned_by _ _); [auto|discriminate].
Qed.

Lemma tc_after_return_other w t p r u : u <> t -> tc (after_return w t p r) u = tc w u.
Proof.
  intros Hu. destruct p; cbn [after_return]; wsimpl;
    repeat match goal with |- context [if ?b then _ else _] => destruct b end; wsimpl; upd_simpl; reflexivity.
Qed.
Lemma tc_begin_op_other w t op rest u : u <> t -> tc (begin_op w t op rest) u = tc w u.
Proof.
  intros Hu. destruct op; cbn [begin_op]; wsimpl; try destruct (handle w c); wsimpl; upd_simpl; reflexivity.
Qed.

(* ---- I2 : a thread inside a condition wait is at the program point of that wait ---- *)
Definition st_pc_ok (s : tstat) (p : pcT) : Prop :=
  match s with
  | TCondBlocked c m dl => pending p = PCondWait c m dl
  | TWoken m rc dl => exists c, pending p = PCondWait c m dl
  | TNotStarted | TDone _ => p = Idle
  | TFault => exists c m dl, pending p = PCondWait c m dl
  | TRun => True
  end.
Definition I2 (w : world) : Prop := forall t, st_pc_ok (st (ps w) t) (pc (tc w t)).

Lemma st_pc_ok_evolves a b p : st_evolves a b -> st_pc_ok a p -> st_pc_ok b p.
Proof.
  intros [->|[(c & m & dl & -> & ->)|[-> ->]]]; cbn; eauto.
Qed.

Lemma I2_self_ok w t : I2 w -> runnable (st (ps w) t) = true -> self_ok (ps w) t (pending (pc (tc w t))).
Proof.
  intros H Hr. specialize (H t). unfold self_ok. destruct (st (ps w) t); try discriminate; auto.
  right. cbn in H. destruct H as (c & H). rewrite H. eauto 10.
Qed.

Lemma runnable_not_ns s : runnable s = true -> s <> TNotStarted.
Proof. destruct s; cbn; congruence. Qed.

Lemma I2_step w mv : I2 w -> I2 (step w mv).
Proof.
  intros H. destruct mv as [t|t|t|t|n|c]; cbn [step].
  - intros u. rewrite tc_clear_mark, ps_clear_mark.
    destruct (step_run_case w t) as [|Hr Hpc Hs|op rest Hr Hpc Hs|p' Hr Hpc Hp|p' r Hr Hpc Hp].
    + apply H.
    + wsimpl. upd_cases u t; [exact Hpc|apply H].
    + rewrite ps_begin_op. destruct (Nat.eq_dec u t) as [->|Hu]; [|rewrite tc_begin_op_other by auto; apply H].
      pose proof (I2_self_ok w t H Hr) as [Hst|(c' & m & rc & dl & _ & Hc)]; [rewrite Hst; exact I|].
      rewrite Hpc in Hc. discriminate.
    + wsimpl. destruct (Nat.eq_dec u t) as [->|Hu].
      * apply prim_step_progress in Hp as (c' & m & dl & Hc & Hst & [[_ ->]|(_ & _ & ->)]); wsimpl; upd_simpl; cbn; eauto.
      * eapply st_pc_ok_evolves; [|apply H]. eapply prim_step_st_other; eauto; [rewrite Hp; reflexivity|now apply runnable_not_ns].
    + rewrite ps_after_return. wsimpl. destruct (Nat.eq_dec u t) as [->|Hu].
      * erewrite prim_step_st_self_return; eauto; [exact I|now apply I2_self_ok].
      * rewrite tc_after_return_other by auto. wsimpl.
        eapply st_pc_ok_evolves; [|apply H]. eapply prim_step_st_other; eauto; [rewrite Hp; reflexivity|now apply runnable_not_ns].
  - intros u. pose proof (H t) as Ht. destruct (st (ps w) t) eqn:Hst; try apply H.
    + destruct (is_sem_wait (pc (tc w t))) eqn:Hsw; [|apply H]. rewrite ps_after_return.
      destruct (Nat.eq_dec u t) as [->|Hu]; [rewrite Hst; exact I|rewrite tc_after_return_other by auto; apply H].
    + wsimpl. unfold prim_spurious. rewrite Hst. wsimpl. upd_cases u t; [cbn in *; eauto|apply H].
  - intros u. pose proof (H t) as Ht. destruct (st (ps w) t) eqn:Hst; try apply H.
    + destruct (pc (tc w t)) eqn:Hpc; try apply H. destruct (_ && _); [|apply H]. rewrite ps_after_return.
      destruct (Nat.eq_dec u t) as [->|Hu]; [rewrite Hst; exact I|rewrite tc_after_return_other by auto; apply H].
    + wsimpl. unfold prim_timeout. rewrite Hst. destruct dl as [d|]; [|apply H]. destruct (dl_expired d _); [|apply H].
      wsimpl. upd_cases u t; [cbn in *; eauto|apply H].
  - intros u. pose proof (H t) as Ht. wsimpl. unfold prim_timeout_steal.
    destruct (st (ps w) t) eqn:Hst; try apply H. destruct dl as [d|]; [|apply H]. destruct (dl_expired d _); [|apply H].
    wsimpl. upd_cases u t; [cbn in *; eauto|apply H].
  - intros u. apply H.
  - intros u. wsimpl. unfold prim_rotate. destruct (cnd (ps w) c); apply H.
Qed.

(* ---- inversion of a returning primitive call, one lemma per call ---- *)
Lemma lock_ret p t m p' r : prim_step p t (PLock m) = Return p' r ->
  r = 0 /\ exists k, p' = set_mtx p m {| m_rec := m_rec (mtx p m); m_owner := Some t; m_cnt := k |} /\
  (m_owner (mtx p m) = None /\ k = 1%nat \/ m_owner (mtx p m) = Some t /\ m_rec (mtx p m) = true /\ k = S (m_cnt (mtx p m))).
Proof. cbn. destruct (acquire p m t) eqn:Ha; intros H; inversion H; subst. split; auto. now apply acquire_some. Qed.

Lemma trylock_ret p t m p' r : prim_step p t (PTryLock m) = Return p' r ->
  (r = 0 /\ exists k, p' = set_mtx p m {| m_rec := m_rec (mtx p m); m_owner := Some t; m_cnt := k |} /\
    (m_owner (mtx p m) = None /\ k = 1%nat \/ m_owner (mtx p m) = Some t /\ m_rec (mtx p m) = true /\ k = S (m_cnt (mtx p m))))
  \/ (r = EBUSY /\ p' = p /\ acquire p m t = None).
Proof. cbn. destruct (acquire p m t) eqn:Ha; intros H; inversion H; subst; [left|right; auto]. split; auto. now apply acquire_some. Qed.

Lemma unlock_ret p t m p' r : prim_step p t (PUnlock m) = Return p' r ->
  (owned_by (mtx p m) t = true /\ r = 0 /\ p' = release p m) \/
  (owned_by (mtx p m) t = false /\ m_rec (mtx p m) = true /\ r = EPERM /\ p' = p) \/
  (owned_by (mtx p m) t = false /\ m_rec (mtx p m) = false /\ r = 0 /\ p' = release_all p m).
Proof. cbn. destruct (owned_by (mtx p m) t); [|destruct (m_rec (mtx p m))]; intros H; inversion H; subst; auto 10. Qed.

Lemma condwait_ret p t c m dl p' r : prim_step p t (PCondWait c m dl) = Return p' r ->
  (st p t = TRun /\ owned_by (mtx p m) t = true /\ dl_bad dl = true /\ r = EINVAL /\ p' = p) \/
  (exists m' dl', st p t = TWoken m' r dl' /\ is_free (mtx p m') = true /\
     p' = set_st (set_mtx p m' {| m_rec := m_rec (mtx p m'); m_owner := Some t; m_cnt := 1 |}) t TRun).
Proof.
  cbn. destruct (st p t) eqn:Hs; try discriminate.
  - destruct (owned_by (mtx p m) t); cbn [negb]; [|discriminate]. destruct (dl_bad dl); intros H; inversion H; subst. left; auto.
  - destruct (is_free _) eqn:Hf; intros H; inversion H; subst. right. eauto.
Qed.

Lemma signal_ret p t c p' r : prim_step p t (PSignal c) = Return p' r ->
  r = 0 /\ mtx p' = mtx p /\ sem p' = sem p /\ now p' = now p /\
  (p' = p /\ (forall u, In u (cnd p c) -> blocked_on c (st p u) = false) \/
   exists v, blocked_on c (st p v) = true /\ In v (cnd p c) /\ p' = set_st (set_cnd p c (remove_tid v (cnd p c))) v (wake 0 (st p v))).
Proof.
  cbn. destruct (find _ _) as [v|] eqn:Hf; intros H; inversion H; subst; repeat split; auto.
  - right. apply find_blocked_some in Hf as [? ?]. eauto.
  - left. split; auto. intros u Hu. eapply find_none in Hf; eauto.
Qed.

Lemma bcast_ret p t c p' r : prim_step p t (PBroadcast c) = Return p' r ->
  r = 0 /\ p' = set_sts (set_cnd p c []) (fun u => if blocked_on c (st p u) then wake 0 (st p u) else st p u).
Proof. cbn. intros H; inversion H; auto. Qed.

Lemma semwait_ret p t s dl p' r : prim_step p t (PSemWait s dl) = Return p' r ->
  (0 < sem p s /\ r = 0 /\ p' = set_sem p s (sem p s - 1)) \/ (sem p s <= 0 /\ dl_bad dl = true /\ r = EINVAL /\ p' = p).
Proof.
  cbn. destruct (0 <? sem p s) eqn:Hs; [intros H; inversion H; subst; left; repeat split; auto; lia|].
  destruct (dl_bad dl); intros H; inversion H; subst. right; repeat split; auto; lia.
Qed.

Lemma semtry_ret p t s p' r : prim_step p t (PSemTry s) = Return p' r ->
  (0 < sem p s /\ r = 0 /\ p' = set_sem p s (sem p s - 1)) \/ (sem p s <= 0 /\ r = EAGAIN /\ p' = p).
Proof. cbn. destruct (0 <? sem p s) eqn:Hs; intros H; inversion H; subst; [left|right]; repeat split; auto; lia. Qed.

Lemma sempost_ret p t s p' r : prim_step p t (PSemPost s) = Return p' r -> r = 0 /\ p' = set_sem p s (sem p s + 1).
Proof. cbn. intros H; inversion H; auto. Qed.

Lemma create_ret p t ch p' r : prim_step p t (PCreate ch) = Return p' r ->
  (st p ch = TNotStarted /\ r = 0 /\ p' = set_st p ch TRun) \/ (st p ch <> TNotStarted /\ r = EAGAIN /\ p' = p).
Proof. cbn. destruct (st p ch) eqn:Hs; intros H; inversion H; subst; auto; right; repeat split; congruence. Qed.

Lemma join_ret p t ch p' r : prim_step p t (PJoin ch) = Return p' r -> st p ch = TDone r /\ p' = p.
Proof. cbn. destruct (st p ch) eqn:Hs; intros H; inversion H; subst; auto. Qed.

Lemma yield_ret p t p' r : prim_step p t PYield = Return p' r -> r = 0 /\ p' = p.
Proof. cbn. intros H; inversion H; auto. Qed.

Ltac prim_inv H :=
  cbn [pending] in H;
  match type of H with
  | prim_step _ _ PYield = Return _ _ => apply yield_ret in H as [? ?]
  | prim_step _ _ (PLock _) = Return _ _ => apply lock_ret in H as (? & ? & ? & ?)
  | prim_step _ _ (PTryLock _) = Return _ _ => apply trylock_ret in H as [(? & ? & ? & ?)|(? & ? & ?)]
  | prim_step _ _ (PUnlock _) = Return _ _ => apply unlock_ret in H as [(? & ? & ?)|[(? & ? & ? & ?)|(? & ? & ? & ?)]]
  | prim_step _ _ (PCondWait _ _ _) = Return _ _ => apply condwait_ret in H as [(? & ? & ? & ? & ?)|(? & ? & ? & ? & ?)]
  | prim_step _ _ (PSignal _) = Return _ _ => apply signal_ret in H as (? & ? & ? & ? & ?)
  | prim_step _ _ (PBroadcast _) = Return _ _ => apply bcast_ret in H as (? & ?)
  | prim_step _ _ (PSemWait _ _) = Return _ _ => apply semwait_ret in H as [(? & ? & ?)|(? & ? & ? & ?)]
  | prim_step _ _ (PSemTry _) = Return _ _ => apply semtry_ret in H as [(? & ? & ?)|(? & ? & ?)]
  | prim_step _ _ (PSemPost _) = Return _ _ => apply sempost_ret in H as (? & ?)
  | prim_step _ _ (PCreate _) = Return _ _ => apply create_ret in H as [(? & ? & ?)|(? & ? & ?)]
  | prim_step _ _ (PJoin _) = Return _ _ => apply join_ret in H as (? & ?)
  end.

(* what I1 says about the mover, with the call made concrete *)
Ltac use_I1 H1 t Hpc :=
  let X := fresh "Hcur" in
  pose proof (H1 t) as X; rewrite Hpc in X; cbn [pc_ok] in X.

Lemma sem_release p m : sem (release p m) = sem p.
Proof. unfold release. destruct (m_cnt (mtx p m)) as [|[|k]]; reflexivity. Qed.
Lemma st_release p m : st (release p m) = st p.
Proof. unfold release. destruct (m_cnt (mtx p m)) as [|[|k]]; reflexivity. Qed.
Lemma cnd_release p m : cnd (release p m) = cnd p.
Proof. unfold release. destruct (m_cnt (mtx p m)) as [|[|k]]; reflexivity. Qed.
Lemma now_release p m : now (release p m) = now p.
Proof. unfold release. destruct (m_cnt (mtx p m)) as [|[|k]]; reflexivity. Qed.
Lemma mtx_release_other p m m' : m' <> m -> mtx (release p m) m' = mtx p m'.
Proof. intros H. unfold release. destruct (m_cnt (mtx p m)) as [|[|k]]; wsimpl; now rewrite upd_other. Qed.

(* a primitive step of thread t never touches a mutex that another thread owns - except the unlock of a
   default-type mutex, which glibc does not owner-check *)
Lemma prim_step_foreign_owner p t c p' m u : outcome_state (prim_step p t c) = Some p' ->
  m_owner (mtx p m) = Some u -> u <> t -> (c <> PUnlock m \/ m_rec (mtx p m) = true) -> mtx p' m = mtx p m.
Proof.
  intros H Ho Hu Hnu. destruct c; cbn [prim_step] in H.
  - inv_outcome H; auto.
  - destruct (acquire p m0 t) eqn:Ha; inv_outcome H. apply acquire_some in Ha as (k & -> & Hc). wsimpl.
    destruct (Nat.eq_dec m m0) as [->|]; [|now rewrite upd_other].
    destruct Hc as [[Hc _]|(Hc & _)]; congruence.
  - destruct (acquire p m0 t) eqn:Ha; inv_outcome H; auto. apply acquire_some in Ha as (k & -> & Hc). wsimpl.
    destruct (Nat.eq_dec m m0) as [->|]; [|now rewrite upd_other].
    destruct Hc as [[Hc _]|(Hc & _)]; congruence.
  - destruct (owned_by (mtx p m0) t) eqn:Hob.
    + inv_outcome H. destruct (Nat.eq_dec m m0) as [->|]; [|now apply mtx_release_other].
      unfold owned_by in Hob. rewrite Ho in Hob. apply Nat.eqb_eq in Hob. congruence.
    + destruct (m_rec (mtx p m0)) eqn:Hrec; inv_outcome H; auto. unfold release_all. wsimpl.
      destruct (Nat.eq_dec m m0) as [->|]; [|now rewrite upd_other].
      destruct Hnu as [Hnu|Hnu]; congruence.
  - destruct (st p t) eqn:Hst; try discriminate.
    + destruct (owned_by (mtx p m0) t) eqn:Hob; cbn [negb] in H; [|inv_outcome H; reflexivity].
      destruct (dl_bad dl); inv_outcome H; auto. unfold release_all. wsimpl.
      destruct (Nat.eq_dec m m0) as [->|]; [|now rewrite upd_other].
      unfold owned_by in Hob. rewrite Ho in Hob. apply Nat.eqb_eq in Hob. congruence.
    + destruct (is_free (mtx p m1)) eqn:Hf; inv_outcome H. wsimpl.
      destruct (Nat.eq_dec m m1) as [->|]; [|now rewrite upd_other].
      unfold is_free in Hf. rewrite Ho in Hf. discriminate.
  - destruct (find _ _); inv_outcome H; reflexivity.
  - inv_outcome H; reflexivity.
  - destruct (0 <? sem p s); [inv_outcome H; reflexivity|]. destruct (dl_bad dl); inv_outcome H; reflexivity.
  - destruct (0 <? sem p s); inv_outcome H; reflexivity.
  - inv_outcome H; reflexivity.
  - destruct (st p child); inv_outcome H; reflexivity.
  - destruct (st p child); inv_outcome H; reflexivity.
Qed.

Lemma sigf_begin_op w t op rest : sigf (begin_op w t op rest) = sigf w.
Proof. destruct op; cbn [begin_op]; wsimpl; try destruct (handle w c); reflexivity. Qed.
