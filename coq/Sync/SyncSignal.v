(* SyncSignal.v - Signal is a manual-reset event: the flag is only touched by the owner of the internal
   mutex; wait returns true only if set since the last reset; no waiter blocked while set without a
   pending broadcast *)
From Coq Require Import ZArith List Bool Arith Lia.
From Coq Require Import ZifyBool ZifyNat ZifyN.
From Sync Require Import Sched SyncSpec SyncModel SyncArith SyncInv SyncTrace.
Import ListNotations.
Ltac Zify.zify_post_hook ::= Z.div_mod_to_equations.
Local Open Scope Z_scope.

Ltac wsimpl :=
  cbn [ps sigf monf occ handle tc trace mark set_ps set_sigf set_monf set_occ set_handle set_tc emit set_marks
       goto finish finish_false with_pc pc script cur tstart result
       mtx cnd sem st now set_mtx set_cnd set_sem set_st set_sts set_now prim_exit] in *.
Ltac upd_simpl := repeat (progress (rewrite ?upd_same in *; rewrite ?upd_other in * by congruence)).
Ltac dif := repeat match goal with |- context [if ?b then _ else _] => destruct b eqn:? end.
Ltac ex_cur := repeat match goal with
                      | H : exists _, _ |- _ => destruct H
                      | H : _ /\ _ |- _ => destruct H end;
               try match goal with H : cur _ = _ |- _ => rewrite H in * end;
               try match goal with H : is_sig_wait (cur ?x) = true |- _ => destruct (cur x); try discriminate H end.
Ltac consts := unfold EPERM, EINTR, EAGAIN, EBUSY, EINVAL, ETIMEDOUT in *; cbn [Z.eqb Pos.eqb b2z negb andb orb] in *.

Definition sig_local (w : world) (t : tid) : Prop :=
  match pc (tc w t) with
  | SigSetBcast | SigSetUnlock | SigResetUnlock => m_owner (mtx (ps w) SM) = Some t
  | SigWaitUnlock b => m_owner (mtx (ps w) SM) = Some t /\ (b = true -> sigf w = true)
  | SigWaitCond _ => st (ps w) t = TRun -> m_owner (mtx (ps w) SM) = Some t /\ sigf w = false
  | _ => True
  end.

Definition SigInv (s0 : bool) (w : world) : Prop :=
  sig_state s0 (trace w) = sigf w /\ sig_ok s0 (trace w) = true /\ forall t, sig_local w t.

(* preservation of sig_local for a thread that does not move *)
Lemma sig_local_frame w w' u :
  tc w' u = tc w u ->
  (forall o, m_owner (mtx (ps w) SM) = Some o -> o = u -> mtx (ps w') SM = mtx (ps w) SM) ->
  (m_owner (mtx (ps w) SM) = Some u -> sigf w' = sigf w) ->
  (st (ps w') u = TRun -> st (ps w) u = TRun \/ pc (tc w u) = Idle) ->
  sig_local w u -> sig_local w' u.
Proof.
  unfold sig_local. intros Htc Hm Hf Hst H. rewrite Htc.
  destruct (pc (tc w u)) eqn:Hpc; auto.
  - rewrite (Hm u); auto.
  - rewrite (Hm u); auto.
  - rewrite (Hm u); auto.
  - intros Hs. destruct (Hst Hs) as [Hs'|]; [|discriminate]. destruct (H Hs') as [Ho Hsf]. rewrite (Hm u), Hf; auto.
  - destruct H as [Ho Hb]. rewrite (Hm u), Hf; auto.
Qed.

Lemma st_evolves_run a b p : st_evolves a b -> st_pc_ok a p -> b = TRun -> a = TRun \/ p = Idle.
Proof. intros [->|[(c & m & dl & -> & ->)|[-> ->]]] Hp Hb; auto; discriminate. Qed.

Lemma sigf_after_return_foreign w t p' r u :
  prim_step (ps w) t (pending (pc (tc w t))) = Return p' r -> u <> t ->
  m_owner (mtx (ps w) SM) = Some u ->
  sigf (after_return (set_ps w p') t (pc (tc w t)) r) = sigf w.
Proof.
  intros Hp Hu Ho.
  destruct (pc (tc w t)) eqn:Hpc; cbn [after_return]; wsimpl; dif; wsimpl; try congruence;
    prim_inv Hp; unfold SM in *.
    all: match goal with H : _ \/ _ |- _ => destruct H as [[Hx _]|(Hx & _)]; congruence end.
Qed.

(* the internal mutex of Signal is only ever unlocked by its owner (so the owner-blind unlock of a default-type
   mutex never frees somebody else's hold on it) *)
Lemma sig_unlock_owned w t : sig_local w t -> pending (pc (tc w t)) = PUnlock SM -> m_owner (mtx (ps w) SM) = Some t.
Proof.
  unfold sig_local. destruct (pc (tc w t)); cbn [pending]; intros H E; try discriminate E; try exact H; try (inversion E; fail).
  destruct H; auto.
Qed.

Lemma sig_local_other_return w t p' r u : I2 w ->
  runnable (st (ps w) t) = true ->
  prim_step (ps w) t (pending (pc (tc w t))) = Return p' r -> u <> t -> sig_local w t ->
  sig_local w u -> sig_local (after_return (set_ps w p') t (pc (tc w t)) r) u.
Proof.
  intros H2 Hr Hp Hu Ht H. apply sig_local_frame with (w := w); auto.
  - rewrite tc_after_return_other by auto. reflexivity.
  - intros o Ho ->. rewrite ps_after_return. wsimpl.
    apply (prim_step_foreign_owner (ps w) t (pending (pc (tc w t))) p' SM u); auto; [rewrite Hp; reflexivity|].
    left. intros E. apply sig_unlock_owned in E; auto. congruence.
  - intros Ho. eapply sigf_after_return_foreign; eauto.
  - rewrite ps_after_return. wsimpl. intros Hs. eapply st_evolves_run; [|apply H2|exact Hs].
    eapply prim_step_st_other; eauto; [rewrite Hp; reflexivity|now apply runnable_not_ns].
Qed.

Ltac sig_fin Hok Hst := cbn [sig_ok sig_state is_sig_wait is_mon_wait andb b2z]; rewrite ?Hok, ?Hst; consts; try tauto.

Lemma SigInv_step s0 w mv : I1 w -> I2 w -> SigInv s0 w -> SigInv s0 (step w mv).
Proof.
  intros H1 H2 (Hst & Hok & HL). unfold SigInv.
  destruct mv as [t|t|t|t|n|c]; cbn [step].
  - rewrite trace_clear_mark, sigf_clear_mark.
    assert (Hcm : forall w', (forall u, sig_local w' u) -> forall u, sig_local (clear_mark_on_block w w' t) u).
    { intros w' H u. unfold sig_local. rewrite tc_clear_mark, ps_clear_mark, sigf_clear_mark. apply H. }
    destruct (step_run_case w t) as [|Hr Hpc Hs|op rest Hr Hpc Hs|p' Hr Hpc Hp|p' r Hr Hpc Hp].
    + repeat split; auto.
    + wsimpl. sig_fin Hok Hst. repeat split; auto. apply Hcm. intros u.
      apply sig_local_frame with (w := w); auto. wsimpl. intros Hs'. destruct (Nat.eq_dec u t) as [->|]; upd_simpl; [intros; discriminate|auto].
    + rewrite sigf_begin_op. split; [|split].
      * destruct op; cbn [begin_op]; wsimpl; try destruct (handle w c); wsimpl; upd_simpl; wsimpl; sig_fin Hok Hst.
      * destruct op; cbn [begin_op]; wsimpl; try destruct (handle w c); wsimpl; upd_simpl; wsimpl; sig_fin Hok Hst.
      * apply Hcm. intros u. destruct (Nat.eq_dec u t) as [->|Hu].
        -- unfold sig_local. destruct op; cbn [begin_op]; wsimpl; try destruct (handle w c); wsimpl; upd_simpl; wsimpl; auto.
        -- apply sig_local_frame with (w := w); auto; try (rewrite ?ps_begin_op; auto; fail).
           ++ now apply tc_begin_op_other.
           ++ intros _. apply sigf_begin_op.
    + wsimpl. repeat split; auto. apply Hcm. intros u. destruct (Nat.eq_dec u t) as [->|Hu].
      * unfold sig_local. wsimpl.
        apply prim_step_progress in Hp as (c' & m & dl & Hc & Hst' & [[_ ->]|(_ & _ & ->)]); wsimpl; upd_simpl;
          destruct (pc (tc w t)); try discriminate Hc; auto; intros; discriminate.
      * apply sig_local_frame with (w := w); auto; wsimpl.
        -- intros o Ho ->. apply (prim_step_foreign_owner (ps w) t (pending (pc (tc w t))) p' SM u); auto; [rewrite Hp; reflexivity|].
           left. destruct (prim_step_progress _ _ _ _ Hp) as (c' & m' & dl' & -> & _). discriminate.
        -- intros Hs. eapply st_evolves_run; [|apply H2|exact Hs].
           eapply prim_step_st_other; eauto; [rewrite Hp; reflexivity|now apply runnable_not_ns].
    + assert (Hself : st p' t = TRun) by (eapply prim_step_st_self_return; eauto; now apply I2_self_ok).
      split; [|split].
      3:{ apply Hcm. intros u. destruct (Nat.eq_dec u t) as [->|Hu]; [|apply sig_local_other_return; auto].
          pose proof (H2 t) as H2t. unfold sig_local. rewrite ps_after_return. wsimpl.
          destruct (pc (tc w t)) eqn:Hpc'; try congruence; prim_inv Hp; subst;
            cbn [after_return]; wsimpl; consts; dif; wsimpl; upd_simpl; wsimpl; auto;
            try match goal with H : st _ _ = TWoken _ _ _ |- _ => rewrite H in H2t; cbn in H2t; destruct H2t as (? & H2t); inversion H2t; subst end;
            unfold SM in *; wsimpl; upd_simpl; cbn [m_owner]; auto;
            try (unfold owned_by in *; destruct (m_owner (mtx (ps w) 0)) as [o|]; [|discriminate];
                 match goal with H : (o =? t)%nat = true |- _ => apply Nat.eqb_eq in H; subst o end; auto);
            try (split; [auto|intros; congruence]); try (intros; split; auto; congruence); try (split; auto; discriminate);
            pose proof (HL t) as HLt; unfold sig_local in HLt; rewrite Hpc' in HLt; exact HLt. }
      all: destruct (pc (tc w t)) eqn:Hpc'; try congruence; use_I1 H1 t Hpc'; pose proof (HL t) as HLt; unfold sig_local in HLt; rewrite Hpc' in HLt;
        cbn [after_return]; wsimpl; consts; dif; wsimpl; try destruct dl; cbn [pc_ok] in *; ex_cur; wsimpl; sig_fin Hok Hst.
      all: try congruence.
      all: match goal with H : true = true -> sigf _ = true |- _ => rewrite H by reflexivity end; reflexivity.
  - destruct (st (ps w) t) eqn:Hst'; try (repeat split; auto; fail).
    + destruct (is_sem_wait (pc (tc w t))) eqn:Hsw; [|repeat split; auto].
      assert (Hloc : forall u, sig_local (after_return w t (pc (tc w t)) EINTR) u).
      { intros u. destruct (Nat.eq_dec u t) as [->|Hu].
        - unfold sig_local. destruct (pc (tc w t)) eqn:Hpc'; try discriminate; cbn [after_return]; wsimpl; consts; upd_simpl; wsimpl; auto.
          rewrite Hpc'. auto.
        - apply sig_local_frame with (w := w); auto; rewrite ?ps_after_return; auto.
          + now apply tc_after_return_other.
          + intros _. destruct (pc (tc w t)) eqn:Hpc'; try discriminate; cbn [after_return]; wsimpl; consts; reflexivity. }
      split; [|split]; auto;
        destruct (pc (tc w t)) eqn:Hpc'; try discriminate; use_I1 H1 t Hpc'; cbn [after_return]; wsimpl; consts; ex_cur; sig_fin Hok Hst.
    + wsimpl. repeat split; auto. intros u. apply sig_local_frame with (w := w); auto; wsimpl;
        unfold prim_spurious; rewrite Hst'; wsimpl; auto; destruct (Nat.eq_dec u t) as [->|]; upd_simpl; try (intros; discriminate); auto.
  - destruct (st (ps w) t) eqn:Hst'; try (repeat split; auto; fail).
    + destruct (pc (tc w t)) eqn:Hpc'; try (repeat split; auto; fail). destruct (_ && _); [|repeat split; auto].
      split; [|split].
      3:{ intros u. destruct (Nat.eq_dec u t) as [->|Hu].
          - unfold sig_local. cbn [after_return]; wsimpl; consts; wsimpl; upd_simpl; wsimpl; auto.
          - apply sig_local_frame with (w := w); auto; rewrite ?ps_after_return; auto.
            now apply tc_after_return_other. }
      all: use_I1 H1 t Hpc'; cbn [after_return]; wsimpl; consts; wsimpl; ex_cur; sig_fin Hok Hst.
    + wsimpl. repeat split; auto. intros u. apply sig_local_frame with (w := w); auto; wsimpl;
        unfold prim_timeout; rewrite Hst'; destruct dl as [d|]; auto; destruct (dl_expired d _); auto;
        wsimpl; auto; destruct (Nat.eq_dec u t) as [->|]; upd_simpl; try (intros; discriminate); auto.
  - wsimpl. repeat split; auto. intros u. apply sig_local_frame with (w := w); auto; wsimpl;
      destruct (steal_shape (ps w) t) as [->|(m & rc & d & Hs & _ & ->)]; wsimpl; auto;
      destruct (Nat.eq_dec u t) as [->|]; upd_simpl; try (intros; discriminate); auto.
  - wsimpl. repeat split; auto.
  - wsimpl. repeat split; auto. intros u. apply sig_local_frame with (w := w); auto; wsimpl;
      unfold prim_rotate; destruct (cnd (ps w) c); auto.
Qed.

(* ---- no waiter stays blocked while the signal is set: a blocked waiter and a set flag imply that
        some thread is between the flag write and the broadcast of Signal::set, i.e. AT the broadcast
        (set = lock; flag; broadcast; unlock: nobody can block on the condition between the broadcast and
        the unlock, because blocking needs the mutex the setter still holds) ---- *)
Definition pending_bcast (w : world) : Prop :=
  exists v, pc (tc w v) = SigSetBcast.
Definition SigLive (w : world) : Prop :=
  sigf w = true -> forall u, blocked_on SC (st (ps w) u) = true -> pending_bcast w.

Lemma blocked_evolves c a b : st_evolves a b -> blocked_on c b = true -> blocked_on c a = true.
Proof. intros [->|[(c' & m & dl & -> & ->)|[-> ->]]]; cbn; auto; discriminate. Qed.

Lemma pending_bcast_frame w w' t : (forall v, v <> t -> tc w' v = tc w v) ->
  (pc (tc w t) <> SigSetBcast \/ pc (tc w' t) = SigSetBcast) ->
  pending_bcast w -> pending_bcast w'.
Proof.
  intros Hf Ht (v & Hv). destruct (Nat.eq_dec v t) as [->|Hn].
  - destruct Ht as [Ha|Ht]; [tauto|]. exists t; auto.
  - exists v. rewrite Hf; auto.
Qed.

Lemma SigLive_step s0 w mv : I2 w -> SigInv s0 w -> SigLive w -> SigLive (step w mv).
Proof.
  intros H2 (_ & _ & HL) HS. unfold SigLive.
  destruct mv as [t|t|t|t|n|c]; cbn [step].
  - rewrite sigf_clear_mark, ps_clear_mark.
    assert (Hcm : forall w', pending_bcast w' -> pending_bcast (clear_mark_on_block w w' t)).
    { intros w' (v & Hv). exists v. now rewrite tc_clear_mark. }
    destruct (step_run_case w t) as [|Hr Hpc Hs|op rest Hr Hpc Hs|p' Hr Hpc Hp|p' r Hr Hpc Hp].
    + intros Hf u Hu. apply Hcm. eauto.
    + wsimpl. intros Hf u Hu. apply Hcm. destruct (Nat.eq_dec u t) as [->|]; upd_simpl; [discriminate|].
      eapply pending_bcast_frame with (t := t) (w := w); [reflexivity|left; rewrite Hpc; discriminate|eapply HS; eauto].
    + rewrite sigf_begin_op, ps_begin_op. intros Hf u Hu. apply Hcm.
      eapply pending_bcast_frame with (t := t) (w := w); [intros; now apply tc_begin_op_other|left; rewrite Hpc; discriminate|eapply HS; eauto].
    + wsimpl. intros Hf u Hu. apply Hcm. destruct (Nat.eq_dec u t) as [->|Hn].
      * exfalso. pose proof (HL t) as HLt. unfold sig_local in HLt.
        apply prim_step_progress in Hp as (c' & m & dl & Hc & Hst' & [[_ ->]|(_ & _ & ->)]); wsimpl; upd_simpl; [discriminate|].
        cbn in Hu. apply Nat.eqb_eq in Hu. subst c'.
        destruct (pc (tc w t)); try discriminate Hc. destruct (HLt Hst') as [_ HF]. congruence.
      * eapply pending_bcast_frame with (t := t) (w := w); [reflexivity| |eapply HS; eauto].
        -- left. apply prim_step_progress in Hp as (c' & m & dl & Hc & _). destruct (pc (tc w t)); try discriminate Hc; discriminate.
        -- eapply blocked_evolves; [|exact Hu]. eapply prim_step_st_other; eauto; [rewrite Hp; reflexivity|now apply runnable_not_ns].
    + rewrite ps_after_return. wsimpl. intros Hf u Hu. apply Hcm.
      assert (Hself : st p' t = TRun) by (eapply prim_step_st_self_return; eauto; now apply I2_self_ok).
      destruct (Nat.eq_dec u t) as [->|Hn]; [rewrite Hself in Hu; discriminate|].
      assert (Hb : blocked_on SC (st (ps w) u) = true).
      { eapply blocked_evolves; [|exact Hu]. eapply prim_step_st_other; eauto; [rewrite Hp; reflexivity|now apply runnable_not_ns]. }
      assert (Hframe : forall v, v <> t -> tc (after_return (set_ps w p') t (pc (tc w t)) r) v = tc w v)
        by (intros; rewrite tc_after_return_other by auto; reflexivity).
      destruct (pc (tc w t)) eqn:Hpc'; try congruence;
        try (exists t; cbn [after_return]; wsimpl; upd_simpl; wsimpl; auto; fail);
        try (prim_inv Hp; subst p'; wsimpl; rewrite Hb in Hu; destruct (st (ps w) u); discriminate);
        (eapply pending_bcast_frame with (t := t) (w := w); [exact Hframe|left; rewrite Hpc'; discriminate|]);
        revert Hf; cbn [after_return]; wsimpl; dif; wsimpl; intros Hf; try discriminate Hf; eauto.
  - destruct (st (ps w) t) eqn:Hst'; try exact HS.
    + destruct (is_sem_wait (pc (tc w t))) eqn:Hsw; [|exact HS]. rewrite ps_after_return. intros Hf u Hu.
      assert (Hf' : sigf w = true) by (revert Hf; destruct (pc (tc w t)); try discriminate; cbn [after_return]; wsimpl; consts; auto).
      eapply pending_bcast_frame with (t := t) (w := w); [intros; now apply tc_after_return_other| |apply (HS Hf' u Hu)].
      left. destruct (pc (tc w t)); try discriminate; discriminate.
    + wsimpl. intros Hf u Hu. eapply pending_bcast_frame with (t := t) (w := w); [reflexivity|left|apply (HS Hf u)].
      * pose proof (H2 t) as H2t. rewrite Hst' in H2t. cbn in H2t. destruct (pc (tc w t)); try discriminate; discriminate.
      * revert Hu. unfold prim_spurious. rewrite Hst'. wsimpl. destruct (Nat.eq_dec u t) as [->|]; upd_simpl; cbn; intros; try discriminate; auto.
  - destruct (st (ps w) t) eqn:Hst'; try exact HS.
    + destruct (pc (tc w t)) eqn:Hpc'; try exact HS. destruct (_ && _); [|exact HS]. rewrite ps_after_return. intros Hf u Hu.
      assert (Hf' : sigf w = true) by (revert Hf; cbn [after_return]; wsimpl; consts; auto).
      eapply pending_bcast_frame with (t := t) (w := w); [intros; now apply tc_after_return_other| |apply (HS Hf' u Hu)].
      left. rewrite Hpc'. discriminate.
    + wsimpl. intros Hf u Hu. eapply pending_bcast_frame with (t := t) (w := w); [reflexivity|left|apply (HS Hf u)].
      * pose proof (H2 t) as H2t. rewrite Hst' in H2t. cbn in H2t. destruct (pc (tc w t)); try discriminate; discriminate.
      * revert Hu. unfold prim_timeout. rewrite Hst'. destruct dl as [d|]; auto. destruct (dl_expired d _); auto.
        wsimpl. destruct (Nat.eq_dec u t) as [->|]; upd_simpl; cbn; intros; try discriminate; auto.
  - wsimpl. intros Hf u Hu. destruct (HS Hf u) as (v & Hv); [|exists v; exact Hv].
    revert Hu. destruct (steal_shape (ps w) t) as [->|(m & rc & d & Hs & _ & ->)]; auto.
    wsimpl. destruct (Nat.eq_dec u t) as [->|]; upd_simpl; cbn; intros; try discriminate; auto.
  - exact HS.
  - wsimpl. intros Hf u Hu. apply (HS Hf u). revert Hu. unfold prim_rotate. destruct (cnd (ps w) c); auto.
Qed.
