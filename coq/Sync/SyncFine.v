(* SyncFine.v - the FINE-GRAINED machine: every plain read / write of Signal::signaled and of
   Monitor::signaled is a scheduler move of its own.  Definitions only, no proofs in this file.

   The coarse machine (SyncModel.v) runs, per [Run t] move, one primitive call of thread t AND the
   thread-local code after it ([after_return]).  Here the thread-local code is cut in front of every
   access to one of the two shared plain variables: a thread whose primitive call returned at such a
   point only installs the new primitive state and remembers in [fp t] which access it is about to
   perform; the access itself is the thread's next [Run t] move, and any moves of other threads (and
   of the clock) may fall in between.  Monitor::wait's `if(signaled) { signaled = false; ...` is two
   accesses, hence two moves (FMonRead, FMonClear).

   SM and MM are default-type mutexes (Sched.v): an unlock by a non-owner succeeds and frees the mutex.
   SM is private to Signal; MM is locked / unlocked by the client (Monitor::lock / tryLock / unlock).
   The sticky ghost flag [foreign_unlock] records that some thread performed pthread_mutex_unlock on
   MM while ANOTHER thread owned it (a violation of the client contract of Monitor, undefined
   behaviour in POSIX terms).  It is not read by the machine. *)
From Coq Require Import ZArith List Bool Arith.
From Sync Require Import Sched SyncSpec SyncModel.
Import ListNotations.
Local Open Scope Z_scope.

(* the thread-local program counter between a primitive call and the access that follows it *)
Inductive fpc :=
| FNone
| FSigWrite (b : bool) (next : pcT)      (* Signal: about to do `signaled = b`, then continue at next *)
| FSigRead (dl : option dlT)             (* Signal::wait: about to read `signaled` *)
| FMonRead (dl : option dlT) (r nowv : Z)(* Monitor::wait: cond wait returned r when the clock showed nowv; about to read `signaled` *)
| FMonClear                              (* Monitor::wait: read true; about to do `signaled = false` *)
| FMonWrite.                             (* Monitor::set: about to do `signaled = true` *)

Inductive fclass := KNone | KSig | KMon.
Definition fclass_of (f : fpc) : fclass :=
  match f with
  | FNone => KNone
  | FSigWrite _ _ | FSigRead _ => KSig
  | FMonRead _ _ _ | FMonClear | FMonWrite => KMon
  end.

(* which access follows the return (value r, clock nowv) of the primitive call pending at p *)
Definition access_point (p : pcT) (r nowv : Z) : fpc :=
  match p with
  | SigSetLock => FSigWrite true SigSetBcast
  | SigResetLock => FSigWrite false SigResetUnlock
  | SigWaitLock dl => FSigRead dl
  | SigWaitCond dl => if timed dl && negb (r =? 0) then FNone else FSigRead dl
  | MonWaitCond dl => FMonRead dl r nowv
  | MonSetLock => FMonWrite
  | _ => FNone
  end.

Definition finish_false_at (w : world) (t : tid) (nowv : Z) : world :=
  finish (emit w (EvTimedFalse t (cur (tc w t)) (tstart (tc w t)) nowv)) t 0.

(* one access: the new world and what the thread does next *)
Definition faccess (w : world) (t : tid) (f : fpc) : world * fpc :=
  match f with
  | FNone => (w, FNone)
  | FSigWrite b next => (goto (emit (set_sigf w b) (EvSigWrite t b)) t next, FNone)
  | FSigRead dl => (if sigf w then goto w t (SigWaitUnlock true) else goto w t (SigWaitCond dl), FNone)
  | FMonRead dl r nowv =>
      if monf w then (w, FMonClear)
      else if timed dl && negb (r =? 0) then (finish_false_at w t nowv, FNone)
      else (goto w t (MonWaitCond dl), FNone)
  | FMonClear => (finish (set_monf w false) t 1, FNone)
  | FMonWrite =>
      (goto (set_marks (emit (set_monf w true) (EvMonSet t))
                       (fun u => mark w u || blocked_on MC (st (ps w) u))) t MonSetUnlock, FNone)
  end.

(* the pending accesses of thread t run to the end of its thread-local code (one or two accesses) *)
Definition cw (w : world) (t : tid) (f : fpc) : world :=
  match f with
  | FMonRead dl r nowv => if monf w then finish (set_monf w false) t 1 else fst (faccess w t f)
  | _ => fst (faccess w t f)
  end.

Record fworld := { base : world; fp : tid -> fpc; foreign_unlock : bool }.

Definition is_fnone (f : fpc) : bool := match f with FNone => true | _ => false end.

(* thread t's pending primitive call returns at an access point: new primitive state and the access *)
Definition fine_ret (w : world) (t : tid) : option (prim_state * fpc) :=
  if runnable (st (ps w) t) then
    match prim_step (ps w) t (pending (pc (tc w t))) with
    | Return p' r =>
        let f := access_point (pc (tc w t)) r (now p') in
        if is_fnone f then None else Some (p', f)
    | _ => None
    end
  else None.

(* thread t is about to perform pthread_mutex_unlock(MM) while another thread owns MM *)
Definition is_foreign_unlock (w : world) (t : tid) : bool :=
  runnable (st (ps w) t) &&
  match pc (tc w t) with
  | MonUnlockP | MonSetUnlock =>
      match m_owner (mtx (ps w) MM) with Some u => negb (Nat.eqb u t) | None => false end
  | _ => false
  end.

Definition frun (fw : fworld) (t : tid) : fworld :=
  let w := base fw in
  match fp fw t with
  | FNone =>
      match fine_ret w t with
      | Some (p', f) =>
          {| base := clear_mark_on_block w (set_ps w p') t; fp := upd (fp fw) t f; foreign_unlock := foreign_unlock fw |}
      | None =>
          {| base := step w (Run t); fp := fp fw; foreign_unlock := foreign_unlock fw || is_foreign_unlock w t |}
      end
  | f =>
      {| base := fst (faccess w t f); fp := upd (fp fw) t (snd (faccess w t f)); foreign_unlock := foreign_unlock fw |}
  end.

Definition fstep (fw : fworld) (mv : move) : fworld :=
  match mv with
  | Run t => frun fw t
  | _ => {| base := step (base fw) mv; fp := fp fw; foreign_unlock := foreign_unlock fw |}
  end.

Definition frun_all (fw : fworld) (sched : list move) : fworld := fold_left fstep sched fw.

Definition finit (scripts : tid -> list libcall) (results : tid -> Z) (started : tid -> bool) (sig0 : bool) (sem0 : Z) : fworld :=
  {| base := init scripts results started sig0 sem0; fp := fun _ => FNone; foreign_unlock := false |}.

Definition freach scripts results started s0 v0 (fsched : list move) : fworld :=
  frun_all (finit scripts results started s0 v0) fsched.

(* ---- histories up to commuting independent events ---- *)
Definition sig_call (c : libcall) : bool :=
  match c with SigSet | SigReset | SigWait | SigWaitT _ => true | _ => false end.
Definition sig_class (e : event) : bool :=
  match e with
  | EvSigWrite _ _ => true
  | EvRet _ c _ | EvTimedFalse _ c _ _ => sig_call c
  | _ => false
  end.
Definition mon_class (e : event) : bool :=
  match e with
  | EvMonSet _ => true
  | EvRet _ c _ | EvTimedFalse _ c _ _ => is_mon_wait c
  | _ => false
  end.
(* the events a fine access can emit *)
Definition deferred (e : event) : bool :=
  match e with
  | EvSigWrite _ _ | EvMonSet _ => true
  | EvRet _ c _ | EvTimedFalse _ c _ _ => is_mon_wait c
  | _ => false
  end.
(* NOTE on the reach of [indep] (second audit, F6): an event emitted by a deferred access (EvMonSet, EvSigWrite, the return
   of a Monitor wait) commutes with ANY event of another thread outside its own class - also with EvRet u MonLock /
   MonUnlock.  The six history predicates of SyncSpec.v do not relate set() to the order of lock / unlock returns, so they
   are invariant (SyncFineTrace.v).  A history predicate that did ("a set() issued AFTER a waiter has taken the monitor"
   as a predicate over the history) would NOT be tr_eq-invariant and could not be transferred this way; that clause is a
   state theorem here (monitor_set_releases_a_waiter, on the fine machine: fine_no_stuck through the ghost mark). *)
Definition indepb (a b : event) : bool :=
  negb (Nat.eqb (ev_tid a) (ev_tid b)) && (deferred a || deferred b) &&
  negb (sig_class a && sig_class b) && negb (mon_class a && mon_class b).
Definition indep (a b : event) : Prop := indepb a b = true.

Inductive tr_eq : list event -> list event -> Prop :=
| tr_refl l : tr_eq l l
| tr_swap a b l : indep a b -> tr_eq (a :: b :: l) (b :: a :: l)
| tr_cons a l l' : tr_eq l l' -> tr_eq (a :: l) (a :: l')
| tr_trans l1 l2 l3 : tr_eq l1 l2 -> tr_eq l2 l3 -> tr_eq l1 l3.

(* ---- agreement of two coarse worlds on everything but the history and the write-only ghost [mark] ---- *)
Definition agree (w c : world) : Prop :=
  ps w = ps c /\ sigf w = sigf c /\ monf w = monf c /\ occ w = occ c /\ handle w = handle c /\
  forall t, tc w t = tc c t.

(* ---- completion: the coarse world in which the pending accesses have been performed ---- *)
Definition cwo (w : world) (o : option (tid * fpc)) : world :=
  match o with Some (t, f) => cw w t f | None => w end.
Definition comp (w : world) (so mo : option (tid * fpc)) : world := cwo (cwo w so) mo.

(* so / mo name exactly the thread (if any) standing in front of a Signal / Monitor access *)
Definition pend_spec (fw : fworld) (K : fclass) (o : option (tid * fpc)) : Prop :=
  match o with
  | None => forall t, fclass_of (fp fw t) <> K
  | Some (t, f) => fp fw t = f /\ fclass_of f = K /\ forall u, u <> t -> fclass_of (fp fw u) <> K
  end.
Definition complete_of (fw : fworld) (c : world) : Prop :=
  exists so mo, pend_spec fw KSig so /\ pend_spec fw KMon mo /\ c = comp (base fw) so mo.

Definition quiescent (fw : fworld) : Prop := forall t, fp fw t = FNone.

(* ---- the witness that the Monitor half needs the client contract: threads 0 and 1 are waiters (lock; wait), thread 2
   calls set(), thread 3 calls Monitor::unlock without owning the monitor.  Waiter 0 is woken by the signal, waiter 1
   spuriously; waiter 0 re-acquires MM (its cond wait returns: access pending), thread 3's unlock frees MM although
   waiter 0 owns it, waiter 1 re-acquires MM too; both read the flag (true), both clear it, both return true ---- *)
Definition race_scripts (t : tid) : list libcall :=
  match t with
  | O => [MonLock; MonWait] | S O => [MonLock; MonWait] | S (S O) => [MonSet] | S (S (S O)) => [MonUnlock]
  | _ => []
  end.
Definition race_sched : list move :=
  repeat (Run 0%nat) 4 ++ repeat (Run 1%nat) 4 ++ repeat (Run 2%nat) 6 ++ [Spurious 1%nat] ++ [Run 0%nat] ++
  repeat (Run 3%nat) 2 ++ [Run 1%nat; Run 0%nat; Run 1%nat; Run 0%nat; Run 1%nat].
