(* Properties_C11.v - C11 "Mutex, Semaphore, Signal, Monitor and Thread keep their contracts".

   Every theorem is about  w = reach scripts results started sig0 sem0 sched  =  the state of the model
   (SyncModel.v: libnstd's five classes as programs of primitive calls, on Sched.v: pthread mutex /
   condition variable / POSIX semaphore / create / join) after ANY list of scheduler moves
   (Run t | Spurious t | Timeout t | TimeoutSteal t | Clock n | Rotate c), for any number of threads, any
   scripts of library calls, any results of the thread functions, any initial signal state and any initial semaphore value >= 0.  [trace w] is the
   history of library-call returns (newest first); SyncSpec.v translates the property text into
   predicates over that history.  TimeoutSteal is the POSIX-permitted race in which a pthread_cond_timedwait
   reports ETIMEDOUT although a signal / broadcast has already been directed at it (the wake-up is consumed).

   clause of the property                                             theorem                                    about
   ----------------------------------------------------------------------------------------------------------------------------
   Mutex admits one thread at a time                                   mutex_history_exclusive, mutex_one_holder   [P]
   ... re-entrantly for its owner                                      mutex_reentrant                             [P]
   tryLock never blocks                                                trylock_never_blocks, trylock_enabled       [P]
   tryLock succeeds when the mutex is free (iff free or own)           trylock_succeeds_iff                        [P]
   Semaphore: successful waits <= initial + signals                    semaphore_conserved                         [P]
   no waiter stays blocked while the count is positive                 semaphore_no_waiter_blocked_while_positive  [P]
   Signal: wait true only if set since last reset                      signal_wait_true_only_if_set                [L]
   no waiter stays blocked while it remains set                        signal_no_waiter_blocked_while_set          [L]
   set releases all current waiters                                    signal_set_releases_all_waiters,            [L]
                                                                       signal_set_broadcasts_under_mutex,
                                                                       signal_set_unlock_is_last
   successful Monitor waits never outnumber set() calls                monitor_waits_le_sets                       [L]
   a set() after a waiter took the monitor releases a waiter           monitor_set_releases_a_waiter,              [L]
                                                                       monitor_woken_waiter_returns_true,
                                                                       monitor_set_releases_a_waiter_refuted_before_repair
   timed waits return false only after their timeout has expired       timed_wait_false_only_after_timeout,        [L]
                                                                       deadline_exact, deadline_is_spec
   Thread::join returns the function's result after it has finished    join_returns_result_after_finish,           [P]
                                                                       thread_result
   ... also when a start() failed before (pthread_create EAGAIN;       failed_start_changes_nothing,               [L]
     round 6: script op ThStartF): the object stays unstarted, the     start_after_failed_start_succeeds,
     retry succeeds, a handle exists only for a created thread         handle_only_for_created_thread
   GRANULARITY of the model (not a clause of the property; round 4)    fine_signal_accesses_under_mutex,           [G]
     one move = one primitive call + the thread-local code after it    fine_monitor_accesses_under_mutex,
     is no restriction: the fine machine (SyncFine.v) makes every      fine_access_exclusive, fine_flag_stable,
     read / write of the two `signaled` flags a move of its own        fine_granularity_adds_no_behaviours,
                                                                       fine_quiescent_is_coarse, fine_completes,
                                                                       fine_all_ok, fine_monitor_race_under_foreign_unlock,
     the STATE clauses ("no waiter stays blocked ...", "set releases    fine_no_stuck (round 5)
     ...") read on the completed fine state

   [L] = a theorem about libnstd's own logic (flag handling, loops, deadline arithmetic) running on the modelled
         primitives.
   [P] = a PROPERTY OF THE MODELLED PRIMITIVE as the wrapper uses it: Mutex / Semaphore / Thread add no logic of
         their own beyond the recursive attribute, the EINTR retry loop and the stored handle, so these
         theorems restate (trylock_never_blocks literally) or follow in a few steps from the rules of
         Sched.v for pthread_mutex_* (recursive) / sem_* / pthread_create / pthread_join; what they add is
         that the wrapper reaches those rules with the right arguments in every reachable state.

   [G] = about the FINE machine of SyncFine.v, in which a thread whose pthread_mutex_lock / pthread_cond_wait returned in
         front of an access to Signal::signaled or Monitor::signaled only installs the new primitive state; the access
         (a read, a write; Monitor::wait's test-and-clear is two) is the thread's next move, and moves of other threads and
         of the clock may fall in between.  Proved: such a thread owns the guarding mutex (Signal: always; Monitor: unless
         some thread called Monitor::unlock while ANOTHER thread owned the monitor - the sticky ghost flag foreign_unlock;
         MM is a default-type mutex that the client locks and unlocks, glibc does not owner-check it), so at most one thread
         per flag stands in front of an access and no move of another thread changes the flag; every fine run is matched
         by a coarse run (reach) whose state agrees with the COMPLETION of the fine state (pending accesses performed) on all
         fields but the write-only ghost `mark`, and whose history equals the completed fine history up to swapping adjacent
         INDEPENDENT events (different threads, at least one of them emitted by a deferred access, not both of the Signal
         class, not both of the Monitor-flag class).  Equality of histories is false: ex_fine_log_differs.  The six history
         predicates of SyncSpec.v do not see such swaps and are suffix-closed, hence fine_all_ok: they hold of the history of
         every fine-reachable state with foreign_unlock = false.  The hypothesis is necessary for the Monitor half:
         fine_monitor_race_under_foreign_unlock (one set(), two waits return true).  So the [L] theorems about Monitor
         above, stated "for any scripts" at coarse granularity, are at fine granularity theorems about clients that never
         unlock a monitor they do not own (Monitor::wait without owning the monitor is a TFault in Sched.v already).
         The STATE theorems (absence of stuck states) cannot be read on `base fw` of a fine state in which a thread stands in
         front of an access: its pc is still at the lock / condition wait it has passed, so `enabled (base fw) t` is even
         false for it (ex_fine_no_stuck_premise).  fine_no_stuck (round 5) states them of the COMPLETION c of the fine state
         (the pending accesses performed; reached by at most 3 moves of the pending threads themselves: fine_completes):
         all of signal_no_waiter_blocked_while_set, signal_set_releases_all_waiters, signal_set_broadcasts_under_mutex,
         semaphore_no_waiter_blocked_while_positive, mutex_reentrant, trylock_enabled, monitor_set_releases_a_waiter and
         monitor_woken_waiter_returns_true hold of c.  For monitor_set_releases_a_waiter the ghost `mark` had to be carried
         across the simulation (SyncFineMark.v): every mark of c is a mark of the matching coarse state - not conversely,
         the coarse machine marks at the return of set()'s lock, the fine machine at the later write, and a waiter may have
         been woken in between; under foreign_unlock = false nobody can BLOCK on the monitor's condition between the two
         points because the setter owns the monitor.
         Thread::start (round 5): pthread_create and the creator's code after it are two moves (ThStartP / ThStartRet), the
         child may run in between (ex_join_child_first_mid, ex_join_child_first_history).  Thread::func (written by the creator before pthread_create, read
         by the child's routine) and Thread::thread are NOT in the fine machine: their accesses are ordered by pthread_create
         / pthread_join themselves; that the library writes func before the create is checked by the tie only (a child
         scheduled first crashes on the unwritten callee), not by a theorem.

   "stays blocked" is stated as absence of stuck states: whenever the bad configuration holds, a named
   thread has an enabled step that ends it (the schedulers of the model are arbitrary, so no fairness
   is assumed or needed for these statements).
   The OS primitives themselves are modelled (Sched.v) - trusted base, see level_note of checks/C11.py.

   Program order of Signal::set (round 3): the code is lock; signaled = true; broadcast; unlock (fixes/C10/04: the
   broadcast moved in front of the unlock, so that set() touches nothing of the Signal once a waiter can own the
   mutex).  The two Signal liveness theorems were stated for the old order lock; flag; unlock; broadcast and are
   restated, none weaker: signal_no_waiter_blocked_while_set named "a setter between the flag write and the
   broadcast" as pc = SigSetUnlock or SigSetBcast; that window is now the single point SigSetBcast.
   signal_set_releases_all_waiters holds at the broadcast step as before; the woken waiters then need the mutex,
   which the setter holds until its unlock, an enabled step (signal_set_broadcasts_under_mutex) after which set()
   returns without another primitive call (signal_set_unlock_is_last).

   History of the Monitor clause: with TimeoutSteal in the primitive model, Monitor::wait(timeout) as it stood
   (return false on a non-zero return code without looking at the flag) refutes monitor_set_releases_a_waiter:
   W1 lock, wait();  W2 lock, wait(10);  S set(): the signal is consumed by the timing-out W2, which returns false
   and leaves the flag up; W1 stays blocked and no thread is left to release it (corpus/C11/stolen-wakeup.ops,
   fixes/C11/01-monitor-timedwait-stolen-wakeup.patch).  The model mirrors the repaired code (flag first, then the
   return code); ex_monitor_stolen_signal below runs that schedule. *)
From Coq Require Import ZArith List Bool Arith.
From Sync Require Import Sched SyncSpec SyncModel SyncArith SyncInv SyncTrace SyncSignal SyncTimed SyncMonitor SyncTheorems SyncUnrepaired.
From Sync Require Import SyncFine SyncFineLocal SyncFineSim SyncFineInv SyncFineMain SyncFineCor SyncFineTrace SyncFineMark SyncFineLive.
Import ListNotations.
Local Open Scope Z_scope.

(* ---------------- Mutex ---------------- *)
Theorem mutex_history_exclusive : forall scripts results started s0 v0 sched, 0 <= v0 ->
  mtx_ok (trace (reach scripts results started s0 v0 sched)) = true.
Proof. exact mutex_history_exclusive_l. Qed.
Print Assumptions mutex_history_exclusive.

Theorem mutex_one_holder : forall scripts results started s0 v0 sched, 0 <= v0 -> forall u v,
  (held (trace (reach scripts results started s0 v0 sched)) u > 0)%nat ->
  (held (trace (reach scripts results started s0 v0 sched)) v > 0)%nat -> u = v.
Proof. exact mutex_one_holder_l. Qed.
Print Assumptions mutex_one_holder.

Theorem mutex_reentrant : forall scripts results started s0 v0 sched, 0 <= v0 -> forall t,
  let w := reach scripts results started s0 v0 sched in
  m_owner (mtx (ps w) XM) = Some t -> pc (tc w t) = MtxLockP -> enabled w t = true.
Proof. exact mutex_reentrant_l. Qed.
Print Assumptions mutex_reentrant.

Theorem trylock_never_blocks : forall p t m, prim_step p t (PTryLock m) <> Blocked.
Proof. exact trylock_never_blocks_l. Qed.
Print Assumptions trylock_never_blocks.

Theorem trylock_enabled : forall scripts results started s0 v0 sched, 0 <= v0 -> forall t,
  let w := reach scripts results started s0 v0 sched in
  pc (tc w t) = MtxTryP \/ pc (tc w t) = MonTryP -> enabled w t = true.
Proof. exact trylock_enabled_l. Qed.
Print Assumptions trylock_enabled.

Theorem trylock_succeeds_iff : forall scripts results started s0 v0 sched, 0 <= v0 -> forall t,
  let w := reach scripts results started s0 v0 sched in
  pc (tc w t) = MtxTryP ->
  forall p' r, prim_step (ps w) t (pending (pc (tc w t))) = Return p' r ->
  (r = 0 <-> (m_owner (mtx (ps w) XM) = None \/ m_owner (mtx (ps w) XM) = Some t)).
Proof. exact trylock_succeeds_iff_l. Qed.
Print Assumptions trylock_succeeds_iff.

(* ---------------- Semaphore ---------------- *)
Theorem semaphore_conserved : forall scripts results started s0 v0 sched, 0 <= v0 ->
  let w := reach scripts results started s0 v0 sched in
  sem_ok v0 (trace w) = true /\ sem_waits (trace w) + sem (ps w) XS = v0 + sem_signals (trace w) /\ 0 <= sem (ps w) XS.
Proof. exact semaphore_conserved_l. Qed.
Print Assumptions semaphore_conserved.

Theorem semaphore_no_waiter_blocked_while_positive : forall scripts results started s0 v0 sched, 0 <= v0 -> forall t,
  let w := reach scripts results started s0 v0 sched in
  0 < sem (ps w) XS -> (pc (tc w t) = SemWaitP \/ exists d, pc (tc w t) = SemWaitTP d) -> enabled w t = true.
Proof. exact semaphore_no_waiter_blocked_while_positive_l. Qed.
Print Assumptions semaphore_no_waiter_blocked_while_positive.

(* ---------------- Signal ---------------- *)
Theorem signal_wait_true_only_if_set : forall scripts results started s0 v0 sched, 0 <= v0 ->
  let w := reach scripts results started s0 v0 sched in
  sig_ok s0 (trace w) = true /\ sig_state s0 (trace w) = sigf w.
Proof. exact signal_wait_true_only_if_set_l. Qed.
Print Assumptions signal_wait_true_only_if_set.

Theorem signal_no_waiter_blocked_while_set : forall scripts results started s0 v0 sched, 0 <= v0 -> forall u,
  let w := reach scripts results started s0 v0 sched in
  sigf w = true -> blocked_on SC (st (ps w) u) = true ->
  exists v, pc (tc w v) = SigSetBcast /\ enabled w v = true.
Proof. exact signal_no_waiter_blocked_while_set_l. Qed.
Print Assumptions signal_no_waiter_blocked_while_set.

Theorem signal_set_releases_all_waiters : forall scripts results started s0 v0 sched, 0 <= v0 -> forall t,
  let w := reach scripts results started s0 v0 sched in
  pc (tc w t) = SigSetBcast -> forall u, blocked_on SC (st (ps (step w (Run t))) u) = false.
Proof. exact signal_set_releases_all_waiters_l. Qed.
Print Assumptions signal_set_releases_all_waiters.

(* the setter owns the internal mutex at its broadcast and until its unlock; both steps are enabled *)
Theorem signal_set_broadcasts_under_mutex : forall scripts results started s0 v0 sched, 0 <= v0 -> forall t,
  let w := reach scripts results started s0 v0 sched in
  pc (tc w t) = SigSetBcast \/ pc (tc w t) = SigSetUnlock ->
  m_owner (mtx (ps w) SM) = Some t /\ enabled w t = true.
Proof. exact signal_set_broadcasts_under_mutex_l. Qed.
Print Assumptions signal_set_broadcasts_under_mutex.

(* the unlock is the last primitive call of set(): the step that performs it returns from the library call *)
Theorem signal_set_unlock_is_last : forall scripts results started s0 v0 sched, 0 <= v0 -> forall t,
  let w := reach scripts results started s0 v0 sched in
  pc (tc w t) = SigSetUnlock ->
  let w' := step w (Run t) in
  pc (tc w' t) = Idle /\ trace w' = EvRet t SigSet 0 :: trace w.
Proof. exact signal_set_unlock_is_last_l. Qed.
Print Assumptions signal_set_unlock_is_last.

(* ---------------- Monitor ---------------- *)
Theorem monitor_waits_le_sets : forall scripts results started s0 v0 sched, 0 <= v0 ->
  let w := reach scripts results started s0 v0 sched in
  mon_ok (trace w) = true /\ mon_waits (trace w) + b2z (monf w) <= mon_sets (trace w).
Proof. exact monitor_waits_le_sets_l. Qed.
Print Assumptions monitor_waits_le_sets.

Theorem monitor_set_releases_a_waiter : forall scripts results started s0 v0 sched, 0 <= v0 -> forall u,
  let w := reach scripts results started s0 v0 sched in
  monf w = true -> blocked_on MC (st (ps w) u) = true -> mark w u = true ->
  exists v, ((pc (tc w v) = MonSetUnlock \/ pc (tc w v) = MonSetSignal) /\ enabled w v = true) \/
            (exists rc dl dl', st (ps w) v = TWoken MM rc dl /\ pc (tc w v) = MonWaitCond dl' /\
                               (is_free (mtx (ps w) MM) = true -> enabled w v = true)).
Proof. exact monitor_set_releases_a_waiter_l. Qed.
Print Assumptions monitor_set_releases_a_waiter.

(* for every return code rc of the condition wait - 0 or ETIMEDOUT (a timed-out waiter may have consumed the signal) *)
Theorem monitor_woken_waiter_returns_true : forall scripts results started s0 v0 sched, 0 <= v0 -> forall v rc dl dl',
  let w := reach scripts results started s0 v0 sched in
  st (ps w) v = TWoken MM rc dl -> pc (tc w v) = MonWaitCond dl' -> is_free (mtx (ps w) MM) = true -> monf w = true ->
  let w' := step w (Run v) in
  monf w' = false /\ exists c, trace w' = EvRet v c 1 :: trace w /\ is_mon_wait c = true.
Proof. exact monitor_woken_waiter_returns_true_l. Qed.
Print Assumptions monitor_woken_waiter_returns_true.

(* the same clause is FALSE of Monitor::wait(timeout) as it stood before fixes/C11/01 (SyncUnrepaired.v: identical model
   except that the timed wait returns false on a non-zero return code before it looks at the flag): after the schedule
   W1 blocks, W2 blocks, rotate, set(), clock to W2's deadline, TimeoutSteal W2, W2 and the setter run to their end -
   the flag is up, W1 is blocked and marked, W2 has returned false, and no thread is inside set() or woken *)
Theorem monitor_set_releases_a_waiter_refuted_before_repair :
  let w := run_unrepaired (init steal_scripts res100 (fun _ => true) false 0) steal_schedule in
  monf w = true /\ blocked_on MC (st (ps w) 0%nat) = true /\ mark w 0%nat = true /\
  hd_error (trace w) = Some (EvExit 2%nat 102) /\
  In (EvRet 1%nat (MonWaitT 10) 0) (trace w) /\
  forall v, pc (tc w v) <> MonSetLock /\ pc (tc w v) <> MonSetUnlock /\ pc (tc w v) <> MonSetSignal /\
            (forall m rc dl, st (ps w) v <> TWoken m rc dl) /\
            (v <> 0%nat -> script (tc w v) = [] /\ (st (ps w) v = TRun \/ exists x, st (ps w) v = TDone x)).
Proof. exact unrepaired_loses_wakeup. Qed.
Print Assumptions monitor_set_releases_a_waiter_refuted_before_repair.

(* ---------------- timed waits ---------------- *)
Theorem timed_wait_false_only_after_timeout : forall scripts results started s0 v0 sched, 0 <= v0 ->
  timed_ok (trace (reach scripts results started s0 v0 sched)) = true.
Proof. exact timed_wait_false_only_after_timeout_l. Qed.
Print Assumptions timed_wait_false_only_after_timeout.

Theorem deadline_exact : forall s ns t, 0 <= t -> 0 <= ns < NS ->
  0 <= snd (deadline s ns t) < NS /\
  fst (deadline s ns t) * NS + snd (deadline s ns t) = s * NS + ns + t * 1000000 /\
  0 <= ns + Z.rem t 1000 * 1000000 < 2 * NS.
Proof. exact deadline_exact_lemma. Qed.
Print Assumptions deadline_exact.

Theorem deadline_is_spec : forall s ns t, 0 <= t -> 0 <= ns < NS -> deadline s ns t = spec_deadline s ns t.
Proof. exact deadline_is_spec_lemma. Qed.
Print Assumptions deadline_is_spec.

(* ---------------- Thread ---------------- *)
Theorem join_returns_result_after_finish : forall scripts results started s0 v0 sched, 0 <= v0 ->
  join_ok (trace (reach scripts results started s0 v0 sched)) = true.
Proof. exact join_returns_result_after_finish_l. Qed.
Print Assumptions join_returns_result_after_finish.

Theorem thread_result : forall scripts results started s0 v0 sched, 0 <= v0 -> forall t v,
  let w := reach scripts results started s0 v0 sched in
  st (ps w) t = TDone v -> exited (trace w) t = Some v.
Proof. exact thread_result_l. Qed.
Print Assumptions thread_result.

(* round 6: Thread::start whose pthread_create FAILS (script op ThStartF c; the failing outcome is an input of the scenario, and
   every theorem of this file is stated for any scripts, hence also for scripts with failing starts).  For ANY world: the move in
   which a runnable thread executes such a start() changes nothing but that thread's own position in its script and the history
   (start returned false): no primitive, no flag, no occupancy, NO HANDLE, no ghost mark, no other thread - the Thread object stays
   unstarted.  Because nothing another thread can see changes, the moment at which the create fails is immaterial and the
   failing start needs no scheduler move of its own. *)
Theorem failed_start_changes_nothing : forall w t c rest,
  runnable (st (ps w) t) = true -> pc (tc w t) = Idle -> script (tc w t) = ThStartF c :: rest ->
  let w' := step w (Run t) in
  ps w' = ps w /\ sigf w' = sigf w /\ monf w' = monf w /\ occ w' = occ w /\ handle w' = handle w /\ mark w' = mark w /\
  (forall u, u <> t -> tc w' u = tc w u) /\
  pc (tc w' t) = Idle /\ script (tc w' t) = rest /\ trace w' = EvRet t (ThStartF c) 0 :: trace w.
Proof. exact failed_start_changes_nothing_l. Qed.
Print Assumptions failed_start_changes_nothing.

(* ... and the retry on the same Thread object succeeds (any world in which the object has no thread and the child was never
   created): the failing start, then the prologue of the second start, its pthread_create and the return to the creator leave the
   handle stored and the child running; the history shows start = false, then start = true *)
Theorem start_after_failed_start_succeeds : forall w t c rest,
  st (ps w) t = TRun -> pc (tc w t) = Idle -> script (tc w t) = ThStartF c :: ThStart c :: rest ->
  handle w c = false -> st (ps w) c = TNotStarted ->
  let w' := run w [Run t; Run t; Run t; Run t] in
  handle w' c = true /\ st (ps w') c = TRun /\ pc (tc w' t) = Idle /\ script (tc w' t) = rest /\
  trace w' = EvRet t (ThStart c) 1 :: EvRet t (ThStartF c) 0 :: trace w.
Proof. exact start_after_failed_start_succeeds_l. Qed.
Print Assumptions start_after_failed_start_succeeds.

(* the handle stored in a Thread object is non-null only if pthread_create SUCCEEDED for it: in every reachable state - any
   scripts (incl. failing starts), any schedule - a Thread object with a handle has a child that was created (running, blocked
   or finished), never a thread that does not exist; join therefore never waits for / reads the result of a thread function
   that never ran.  (A start() that let pthread_create write into the member and kept what a FAILED create left there breaks
   exactly this: seeded/C11-v2.) *)
Theorem handle_only_for_created_thread : forall scripts results started s0 v0 sched c,
  let w := reach scripts results started s0 v0 sched in
  handle w c = true -> st (ps w) c <> TNotStarted.
Proof. exact handle_only_for_created_thread_l. Qed.
Print Assumptions handle_only_for_created_thread.

(* ---------------- granularity: the fine machine (SyncFine.v) ---------------- *)
(* a thread standing in front of an access to Signal::signaled owns the Signal's mutex and is running - any scripts *)
Theorem fine_signal_accesses_under_mutex : forall scripts results started s0 v0 fsched t,
  let fw := freach scripts results started s0 v0 fsched in
  fclass_of (fp fw t) = KSig -> m_owner (mtx (ps (base fw)) SM) = Some t /\ st (ps (base fw)) t = TRun.
Proof. exact fine_signal_accesses_under_mutex_l. Qed.
Print Assumptions fine_signal_accesses_under_mutex.

(* the same for Monitor::signaled, for clients that never unlock a monitor another thread owns *)
Theorem fine_monitor_accesses_under_mutex : forall scripts results started s0 v0 fsched t,
  let fw := freach scripts results started s0 v0 fsched in
  fclass_of (fp fw t) = KMon -> foreign_unlock fw = false ->
  m_owner (mtx (ps (base fw)) MM) = Some t /\ st (ps (base fw)) t = TRun.
Proof. exact fine_monitor_accesses_under_mutex_l. Qed.
Print Assumptions fine_monitor_accesses_under_mutex.

Theorem fine_access_exclusive : forall scripts results started s0 v0 fsched t u,
  let fw := freach scripts results started s0 v0 fsched in
  (fclass_of (fp fw t) = KSig -> fclass_of (fp fw u) = KSig -> t = u) /\
  (foreign_unlock fw = false -> fclass_of (fp fw t) = KMon -> fclass_of (fp fw u) = KMon -> t = u).
Proof. exact fine_access_exclusive_l. Qed.
Print Assumptions fine_access_exclusive.

(* while t stands in front of its access, no move other than t's own changes the flag *)
Theorem fine_flag_stable : forall scripts results started s0 v0 fsched t mv,
  let fw := freach scripts results started s0 v0 fsched in
  mv <> Run t ->
  (fclass_of (fp fw t) = KSig -> sigf (base (fstep fw mv)) = sigf (base fw)) /\
  (fclass_of (fp fw t) = KMon -> foreign_unlock (fstep fw mv) = false -> monf (base (fstep fw mv)) = monf (base fw)).
Proof. exact fine_flag_stable_l. Qed.
Print Assumptions fine_flag_stable.

(* MAIN: every fine run is matched by a coarse run; c = the fine state with its pending accesses performed *)
Theorem fine_granularity_adds_no_behaviours : forall scripts results started s0 v0 fsched,
  let fw := freach scripts results started s0 v0 fsched in
  foreign_unlock fw = false ->
  exists sched c, let w := reach scripts results started s0 v0 sched in
    complete_of fw c /\ agree w c /\ tr_eq (trace w) (trace c).
Proof. exact fine_granularity_adds_no_behaviours_l. Qed.
Print Assumptions fine_granularity_adds_no_behaviours.

Theorem fine_quiescent_is_coarse : forall scripts results started s0 v0 fsched,
  let fw := freach scripts results started s0 v0 fsched in
  foreign_unlock fw = false -> quiescent fw ->
  exists sched, let w := reach scripts results started s0 v0 sched in agree w (base fw) /\ tr_eq (trace w) (trace (base fw)).
Proof. exact fine_quiescent_is_coarse_l. Qed.
Print Assumptions fine_quiescent_is_coarse.

(* every fine state becomes quiescent by running its pending threads: at most 3 moves, the history only grows *)
Theorem fine_completes : forall scripts results started s0 v0 fsched,
  let fw := freach scripts results started s0 v0 fsched in
  foreign_unlock fw = false ->
  exists moves sched, (length moves <= 3)%nat /\
    let fw2 := frun_all fw moves in let w := reach scripts results started s0 v0 sched in
    quiescent fw2 /\ foreign_unlock fw2 = false /\ (exists evs, trace (base fw2) = evs ++ trace (base fw)) /\
    agree w (base fw2) /\ tr_eq (trace w) (trace (base fw2)).
Proof. exact fine_completes_l. Qed.
Print Assumptions fine_completes.

(* the six history predicates, literally, of every fine-reachable history *)
Theorem fine_all_ok : forall scripts results started s0 v0 fsched, 0 <= v0 ->
  let fw := freach scripts results started s0 v0 fsched in
  foreign_unlock fw = false -> all_ok s0 v0 (trace (base fw)) = [true; true; true; true; true; true].
Proof. exact fine_all_ok_l. Qed.
Print Assumptions fine_all_ok.

(* the STATE clauses of the property on the fine machine: c = the fine state with its pending accesses performed; every bad
   configuration of c names an enabled thread of c (Signal, Semaphore, Mutex, Monitor) *)
Theorem fine_no_stuck : forall scripts results started s0 v0 fsched, 0 <= v0 ->
  let fw := freach scripts results started s0 v0 fsched in
  foreign_unlock fw = false ->
  exists c, complete_of fw c /\
    (forall u, sigf c = true -> blocked_on SC (st (ps c) u) = true ->
       exists v, pc (tc c v) = SigSetBcast /\ enabled c v = true) /\
    (forall t, pc (tc c t) = SigSetBcast -> forall u, blocked_on SC (st (ps (step c (Run t))) u) = false) /\
    (forall t, pc (tc c t) = SigSetBcast \/ pc (tc c t) = SigSetUnlock ->
       m_owner (mtx (ps c) SM) = Some t /\ enabled c t = true) /\
    (forall t, 0 < sem (ps c) XS -> (pc (tc c t) = SemWaitP \/ exists d, pc (tc c t) = SemWaitTP d) -> enabled c t = true) /\
    (forall t, m_owner (mtx (ps c) XM) = Some t -> pc (tc c t) = MtxLockP -> enabled c t = true) /\
    (forall t, pc (tc c t) = MtxTryP \/ pc (tc c t) = MonTryP -> enabled c t = true) /\
    (forall u, monf c = true -> blocked_on MC (st (ps c) u) = true -> mark c u = true ->
       exists v, ((pc (tc c v) = MonSetUnlock \/ pc (tc c v) = MonSetSignal) /\ enabled c v = true) \/
                 (exists rc dl dl', st (ps c) v = TWoken MM rc dl /\ pc (tc c v) = MonWaitCond dl' /\
                                    (is_free (mtx (ps c) MM) = true -> enabled c v = true))) /\
    (forall v rc dl dl', st (ps c) v = TWoken MM rc dl -> pc (tc c v) = MonWaitCond dl' -> is_free (mtx (ps c) MM) = true ->
       monf c = true ->
       monf (step c (Run v)) = false /\ exists cl, trace (step c (Run v)) = EvRet v cl 1 :: trace c /\ is_mon_wait cl = true).
Proof. exact fine_no_stuck_l. Qed.
Print Assumptions fine_no_stuck.

(* the hypothesis foreign_unlock = false is necessary for the Monitor half *)
Theorem fine_monitor_race_under_foreign_unlock :
  let fw := freach race_scripts res100 (fun _ => true) false 0 race_sched in
  foreign_unlock fw = true /\ mon_sets (trace (base fw)) = 1 /\ mon_waits (trace (base fw)) = 2 /\
  mon_ok (trace (base fw)) = false /\
  trace (base fw) = [EvRet 1%nat MonWait 1; EvRet 0%nat MonWait 1; EvRet 3%nat MonUnlock 0; EvExit 2%nat 102;
                     EvRet 2%nat MonSet 0; EvMonSet 2%nat; EvRet 1%nat MonLock 0; EvRet 0%nat MonLock 0].
Proof. exact fine_monitor_race_witness. Qed.
Print Assumptions fine_monitor_race_under_foreign_unlock.

(* ================= non-vacuity: concrete schedules that meet the hypotheses / exercise the events ================= *)
Definition all_started (_ : tid) := true.
Definition only0 (t : tid) := Nat.eqb t 0%nat.
Definition runs (t : tid) (n : nat) : list move := repeat (Run t) n.
Definition sc3 (a b c : list libcall) (t : tid) : list libcall :=
  match t with O => a | S O => b | S (S O) => c | _ => [] end.

(* Signal: two waiters blocked, the setter has written the flag and not yet broadcast (it stands at the broadcast,
   holding the mutex): the premises of signal_no_waiter_blocked_while_set, signal_set_releases_all_waiters and
   signal_set_broadcasts_under_mutex hold; one step later nobody is blocked on the condition, both waiters are woken
   and wait for the mutex the setter still owns at its unlock (premise of signal_set_unlock_is_last); afterwards both
   waits return true *)
Definition sig_sc := sc3 [SigWait] [SigSet] [SigWait].
Definition sig_mid := reach sig_sc res100 all_started false 0 (runs 0%nat 3%nat ++ runs 2%nat 3%nat ++ runs 1%nat 2%nat).
Example ex_signal_blocked_while_set :
  (sigf sig_mid, blocked_on SC (st (ps sig_mid) 0%nat), blocked_on SC (st (ps sig_mid) 2%nat), pc (tc sig_mid 1%nat),
   m_owner (mtx (ps sig_mid) SM))
  = (true, true, true, SigSetBcast, Some 1%nat).
Proof. vm_compute. reflexivity. Qed.
Example ex_signal_waits_return_true :
  trace (reach sig_sc res100 all_started false 0 (runs 0%nat 3%nat ++ runs 2%nat 3%nat ++ runs 1%nat 4%nat ++ runs 0%nat 2%nat ++ runs 2%nat 2%nat))
  = [EvRet 2%nat SigWait 1; EvRet 0%nat SigWait 1; EvRet 1%nat SigSet 0; EvSigWrite 1%nat true].
Proof. vm_compute. reflexivity. Qed.
Definition sig_woken := reach sig_sc res100 all_started false 0 (runs 0%nat 3%nat ++ runs 2%nat 3%nat ++ runs 1%nat 3%nat).
Example ex_signal_unlock_point :
  (pc (tc sig_woken 1%nat), m_owner (mtx (ps sig_woken) SM), st (ps sig_woken) 0%nat, st (ps sig_woken) 2%nat,
   enabled sig_woken 0%nat, enabled sig_woken 1%nat)
  = (SigSetUnlock, Some 1%nat, TWoken SM 0 None, TWoken SM 0 None, false, true).
Proof. vm_compute. reflexivity. Qed.

(* Monitor: a waiter took the monitor and blocked, then set() wrote the flag: premise of
   monitor_set_releases_a_waiter; after the signal the waiter is woken with rc = 0 and the lock is free:
   premise of monitor_woken_waiter_returns_true; at the end one successful wait, one set *)
Definition mon_sc := sc3 [MonLock; MonWait; MonUnlock] [MonSet] [].
Definition mon_mid := reach mon_sc res100 all_started false 0 (runs 0%nat 4%nat ++ runs 1%nat 2%nat).
Example ex_monitor_marked_waiter :
  (monf mon_mid, blocked_on MC (st (ps mon_mid) 0%nat), mark mon_mid 0%nat, pc (tc mon_mid 1%nat)) = (true, true, true, MonSetUnlock).
Proof. vm_compute. reflexivity. Qed.
Definition mon_woken := reach mon_sc res100 all_started false 0 (runs 0%nat 4%nat ++ runs 1%nat 4%nat).
Example ex_monitor_woken :
  (monf mon_woken, st (ps mon_woken) 0%nat, pc (tc mon_woken 0%nat), is_free (mtx (ps mon_woken) MM))
  = (true, TWoken MM 0 None, MonWaitCond None, true).
Proof. vm_compute. reflexivity. Qed.
Example ex_monitor_history :
  trace (reach mon_sc res100 all_started false 0 (runs 0%nat 4%nat ++ runs 1%nat 4%nat ++ runs 0%nat 3%nat))
  = [EvRet 0%nat MonUnlock 0; EvRet 0%nat MonWait 1; EvRet 1%nat MonSet 0; EvMonSet 1%nat; EvRet 0%nat MonLock 0].
Proof. vm_compute. reflexivity. Qed.

(* the stolen wake-up: W1 = thread 0 waits untimed, W2 = thread 1 waits 10 ms, thread 2 calls set(); the condition
   queue is rotated so that the signal goes to W2, whose timeout fires at the same moment (TimeoutSteal): W2 is
   woken with ETIMEDOUT, the flag is up and W1 is still blocked and marked - the premise of
   monitor_set_releases_a_waiter with the timed-out W2 as the witness; W2 then consumes the flag and returns true *)
Definition steal_sc := sc3 [MonLock; MonWait; MonUnlock] [MonLock; MonWaitT 10; MonUnlock] [MonSet].
Definition steal_sched := runs 0%nat 4%nat ++ runs 1%nat 4%nat ++ [Rotate MC] ++ runs 2%nat 4%nat ++ [Clock 10000000; TimeoutSteal 1%nat].
Definition steal_mid := reach steal_sc res100 all_started false 0 steal_sched.
Example ex_monitor_stolen_signal_premise :
  (monf steal_mid, blocked_on MC (st (ps steal_mid) 0%nat), mark steal_mid 0%nat, st (ps steal_mid) 1%nat, pc (tc steal_mid 1%nat))
  = (true, true, true, TWoken MM ETIMEDOUT (Some (0, 10000000)), MonWaitCond (Some (0, 10000000))).
Proof. vm_compute. reflexivity. Qed.
Example ex_monitor_stolen_signal :
  trace (reach steal_sc res100 all_started false 0 (steal_sched ++ runs 1%nat 1%nat))
  = [EvRet 1%nat (MonWaitT 10) 1; EvRet 2%nat MonSet 0; EvMonSet 2%nat; EvRet 1%nat MonLock 0; EvRet 0%nat MonLock 0].
Proof. vm_compute. reflexivity. Qed.
(* without the steal the same timed waiter times out before set() and returns false: false still means "timed out, flag down" *)
Example ex_monitor_timeout_false :
  trace (reach steal_sc res100 all_started false 0 (runs 1%nat 4%nat ++ [Clock 10000000; Timeout 1%nat] ++ runs 1%nat 1%nat))
  = [EvRet 1%nat (MonWaitT 10) 0; EvTimedFalse 1%nat (MonWaitT 10) 0 10000000; EvRet 1%nat MonLock 0].
Proof. vm_compute. reflexivity. Qed.

(* Mutex: thread 0 holds it twice (re-entrant), thread 1's tryLock fails and its lock is not enabled *)
Definition mtx_sc := sc3 [MtxLock; MtxLock; MtxUnlock] [MtxTryLock; MtxLock] [].
Definition mtx_mid := reach mtx_sc res100 all_started false 0 (runs 0%nat 4%nat ++ runs 1%nat 3%nat).
Example ex_mutex_held_twice :
  (trace mtx_mid, held (trace mtx_mid) 0%nat, m_owner (mtx (ps mtx_mid) XM), pc (tc mtx_mid 1%nat), enabled mtx_mid 1%nat)
  = ([EvRet 1%nat MtxTryLock 0; EvRet 0%nat MtxLock 0; EvRet 0%nat MtxLock 0], 2%nat, Some 0%nat, MtxLockP, false).
Proof. vm_compute. reflexivity. Qed.
Definition mtx_re := reach mtx_sc res100 all_started false 0 (runs 0%nat 3%nat).
Example ex_mutex_reentrant_premise : (m_owner (mtx (ps mtx_re) XM), pc (tc mtx_re 0%nat), enabled mtx_re 0%nat) = (Some 0%nat, MtxLockP, true).
Proof. vm_compute. reflexivity. Qed.
Example ex_trylock_point : pc (tc (reach mtx_sc res100 all_started false 0 (runs 0%nat 4%nat ++ runs 1%nat 1%nat)) 1%nat) = MtxTryP.
Proof. vm_compute. reflexivity. Qed.

(* Semaphore: initial value 1; one wait, one signal, a timed waiter with the count positive is enabled *)
Definition sem_sc := sc3 [SemWait; SemWaitT 5] [SemSignal] [SemTryWait].
Definition sem_mid := reach sem_sc res100 all_started false 1 (runs 0%nat 3%nat ++ runs 1%nat 2%nat).
Example ex_semaphore_positive_waiter :
  (trace sem_mid, sem (ps sem_mid) XS, pc (tc sem_mid 0%nat), enabled sem_mid 0%nat)
  = ([EvRet 1%nat SemSignal 0; EvRet 0%nat SemWait 1], 1, SemWaitTP (0, 5000000), true).
Proof. vm_compute. reflexivity. Qed.
Example ex_semaphore_history :
  trace (reach sem_sc res100 all_started false 1 (runs 0%nat 3%nat ++ runs 1%nat 2%nat ++ runs 0%nat 1%nat ++ runs 2%nat 2%nat))
  = [EvRet 2%nat SemTryWait 0; EvRet 0%nat (SemWaitT 5) 1; EvRet 1%nat SemSignal 0; EvRet 0%nat SemWait 1].
Proof. vm_compute. reflexivity. Qed.

(* timed waits of all three classes return false: a timeout move one nanosecond early is a no-op, at the
   deadline it fires; the clock starts at ...999999999 ns so that the nanosecond field carries *)
Definition tmo_sc := sc3 [SigWaitT 10] [MonLock; MonWaitT 1] [SemWaitT 2].
Example ex_timed_false_events :
  trace (reach tmo_sc res100 all_started false 0
    ([Clock 1999999999] ++ runs 0%nat 3%nat ++ runs 1%nat 4%nat ++ runs 2%nat 1%nat ++
     [Timeout 0%nat; Clock 2000999999; Timeout 1%nat; Timeout 2%nat; Clock 2001999999; Timeout 2%nat; Clock 2010000000; Timeout 0%nat] ++
     runs 0%nat 2%nat ++ runs 1%nat 1%nat))
  = [EvRet 1%nat (MonWaitT 1) 0; EvTimedFalse 1%nat (MonWaitT 1) 1999999999 2010000000;
     EvRet 0%nat (SigWaitT 10) 0; EvTimedFalse 0%nat (SigWaitT 10) 1999999999 2010000000;
     EvRet 2%nat (SemWaitT 2) 0; EvTimedFalse 2%nat (SemWaitT 2) 1999999999 2001999999;
     EvRet 1%nat MonLock 0].
Proof. vm_compute. reflexivity. Qed.
Example ex_deadline_carry : deadline 1 999999999 1001 = (3, 999999) /\ spec_deadline 1 999999999 1001 = (3, 999999).
Proof. vm_compute. split; reflexivity. Qed.

(* Thread: start, the thread function returns 101, join returns 101 *)
Definition join_sc := sc3 [ThStart 1%nat; ThJoin 1%nat] [CsEnter] [].
Example ex_join_history :
  trace (reach join_sc res100 only0 false 0 (runs 0%nat 4%nat ++ runs 1%nat 2%nat ++ runs 0%nat 1%nat))
  = [EvRet 0%nat (ThJoin 1%nat) 101; EvJoin 0%nat 1%nat 101; EvExit 1%nat 101; EvRet 1%nat CsEnter 1; EvRet 0%nat (ThStart 1%nat) 1].
Proof. vm_compute. reflexivity. Qed.
(* the child runs FIRST: pthread_create has succeeded, the creator stands at ThStartRet (start() has not returned, the
   handle is not stored yet), the child runs to its end, only then start() returns; the result is any value the script
   gives (here above 2^31 with a zero low byte) *)
Definition res_big (t : tid) : Z := match t with S O => 4000000256 | _ => 7 end.
Definition join_child_first := reach join_sc res_big only0 false 0 (runs 0%nat 2%nat ++ runs 1%nat 2%nat).
Example ex_join_child_first_mid :
  (pc (tc join_child_first 0%nat), handle join_child_first 1%nat, st (ps join_child_first) 1%nat, enabled join_child_first 0%nat)
  = (ThStartRet 1%nat, false, TDone 4000000256, true).
Proof. vm_compute. reflexivity. Qed.
Example ex_join_child_first_history :
  trace (reach join_sc res_big only0 false 0 (runs 0%nat 2%nat ++ runs 1%nat 2%nat ++ runs 0%nat 3%nat))
  = [EvRet 0%nat (ThJoin 1%nat) 4000000256; EvJoin 0%nat 1%nat 4000000256; EvRet 0%nat (ThStart 1%nat) 1;
     EvExit 1%nat 4000000256; EvRet 1%nat CsEnter 1].
Proof. vm_compute. reflexivity. Qed.

(* round 6: the first start() fails in pthread_create (ThStartF), the retry on the same Thread object succeeds, the thread
   function returns 101 and join returns 101 *)
Definition retry_sc := sc3 [ThStartF 1%nat; ThStart 1%nat; ThJoin 1%nat] [CsEnter] [].
Example ex_retry_after_failed_start :
  trace (reach retry_sc res100 only0 false 0 (runs 0%nat 5%nat ++ runs 1%nat 2%nat ++ runs 0%nat 1%nat))
  = [EvRet 0%nat (ThJoin 1%nat) 101; EvJoin 0%nat 1%nat 101; EvExit 1%nat 101; EvRet 1%nat CsEnter 1;
     EvRet 0%nat (ThStart 1%nat) 1; EvRet 0%nat (ThStartF 1%nat) 0].
Proof. vm_compute. reflexivity. Qed.
(* after the failing start alone: no handle, the child was never created, the join of the unstarted object returns at once *)
Example ex_failed_start_leaves_unstarted :
  let w := reach (sc3 [ThStartF 1%nat; ThJoin 1%nat] [] []) res100 only0 false 0 (runs 0%nat 1%nat) in
  (handle w 1%nat, st (ps w) 1%nat, trace (step w (Run 0%nat)))
  = (false, TNotStarted, [EvRet 0%nat (ThJoin 1%nat) 0; EvRet 0%nat (ThStartF 1%nat) 0]).
Proof. vm_compute. reflexivity. Qed.

(* ---------------- fine machine ---------------- *)
(* Signal: the setter's lock returned, its write is pending (FSigWrite) and it owns SM; meanwhile waiter 0 runs into the
   lock (not enabled), the clock advances, a spurious move and thread 2's first step happen; nothing is logged yet and
   the flag is still down: premises of fine_signal_accesses_under_mutex / fine_flag_stable *)
Definition fine_sig_sched := runs 1%nat 2%nat ++ runs 0%nat 2%nat ++ [Clock 5; Spurious 0%nat] ++ runs 2%nat 1%nat.
Definition fine_sig_mid := freach sig_sc res100 all_started false 0 fine_sig_sched.
Example ex_fine_signal_pending :
  (fp fine_sig_mid 1%nat, m_owner (mtx (ps (base fine_sig_mid)) SM), pc (tc (base fine_sig_mid) 0%nat), enabled (base fine_sig_mid) 0%nat,
   sigf (base fine_sig_mid), trace (base fine_sig_mid), now (ps (base fine_sig_mid)), foreign_unlock fine_sig_mid)
  = (FSigWrite true SigSetBcast, Some 1%nat, SigWaitLock None, false, false, [], 5, false).
Proof. vm_compute. reflexivity. Qed.
(* the fine run continued to the end, and the coarse run of fine_granularity_adds_no_behaviours: the same moves minus the
   access moves (here the histories are even equal) *)
Example ex_fine_signal_history :
  trace (base (freach sig_sc res100 all_started false 0 (fine_sig_sched ++ runs 1%nat 3%nat ++ runs 0%nat 3%nat ++ runs 2%nat 3%nat)))
  = [EvRet 2%nat SigWait 1; EvRet 0%nat SigWait 1; EvRet 1%nat SigSet 0; EvSigWrite 1%nat true]
  /\ trace (reach sig_sc res100 all_started false 0 (fine_sig_sched ++ runs 1%nat 2%nat ++ runs 0%nat 2%nat ++ runs 2%nat 2%nat))
  = [EvRet 2%nat SigWait 1; EvRet 0%nat SigWait 1; EvRet 1%nat SigSet 0; EvSigWrite 1%nat true].
Proof. vm_compute. split; reflexivity. Qed.

(* equality of histories is FALSE: thread 0 = Monitor::set locks MM (write pending), thread 1's tryLock fails, then thread 0
   writes.  The fine history has the failed tryLock BEFORE the flag write; in the coarse machine the tryLock can fail only
   after thread 0's lock move, which has already logged EvMonSet.  The two histories differ by one swap of independent events *)
Definition try_sc := sc3 [MonSet] [MonTryLock] [].
Definition fine_try_mid := freach try_sc res100 all_started false 0 (runs 0%nat 2%nat ++ runs 1%nat 2%nat).
Example ex_fine_monitor_pending :
  (fp fine_try_mid 0%nat, m_owner (mtx (ps (base fine_try_mid)) MM), monf (base fine_try_mid), trace (base fine_try_mid), foreign_unlock fine_try_mid)
  = (FMonWrite, Some 0%nat, false, [EvRet 1%nat MonTryLock 0], false).
Proof. vm_compute. reflexivity. Qed.
Example ex_fine_log_differs :
  trace (base (freach try_sc res100 all_started false 0 (runs 0%nat 2%nat ++ runs 1%nat 2%nat ++ runs 0%nat 1%nat))) = [EvMonSet 0%nat; EvRet 1%nat MonTryLock 0]
  /\ trace (reach try_sc res100 all_started false 0 (runs 0%nat 2%nat ++ runs 1%nat 2%nat)) = [EvRet 1%nat MonTryLock 0; EvMonSet 0%nat].
Proof. vm_compute. split; reflexivity. Qed.
Example ex_fine_log_swap : tr_eq [EvRet 1%nat MonTryLock 0; EvMonSet 0%nat] [EvMonSet 0%nat; EvRet 1%nat MonTryLock 0].
Proof. apply tr_swap. vm_compute. reflexivity. Qed.

(* the clock value of a timed Monitor wait is the one at the return of the condition wait, not at the (later) flag read:
   the wait times out at 1 ms, the clock advances to 7 ms before the thread reads the flag; both machines log 1000000 *)
Definition tmo1_sc := sc3 [MonLock; MonWaitT 1] [] [].
Definition fine_tmo_sched := runs 0%nat 4%nat ++ [Clock 1000000; Timeout 0%nat] ++ runs 0%nat 1%nat ++ [Clock 7000000].
Example ex_fine_timed_pending :
  (fp (freach tmo1_sc res100 all_started false 0 fine_tmo_sched) 0%nat, now (ps (base (freach tmo1_sc res100 all_started false 0 fine_tmo_sched))))
  = (FMonRead (Some (0, 1000000)) ETIMEDOUT 1000000, 7000000).
Proof. vm_compute. reflexivity. Qed.
Example ex_fine_timed_history :
  trace (base (freach tmo1_sc res100 all_started false 0 (fine_tmo_sched ++ runs 0%nat 1%nat)))
  = [EvRet 0%nat (MonWaitT 1) 0; EvTimedFalse 0%nat (MonWaitT 1) 0 1000000; EvRet 0%nat MonLock 0]
  /\ trace (reach tmo1_sc res100 all_started false 0 fine_tmo_sched)
  = [EvRet 0%nat (MonWaitT 1) 0; EvTimedFalse 0%nat (MonWaitT 1) 0 1000000; EvRet 0%nat MonLock 0].
Proof. vm_compute. split; reflexivity. Qed.

(* two pending accesses at once (one per flag); fine_completes: two more moves make the state quiescent, the history grows;
   the coarse history differs by swaps only *)
Definition two_sc := sc3 [SigSet] [MonSet] [MonTryLock].
Definition fine_two := freach two_sc res100 all_started false 0 (runs 0%nat 2%nat ++ runs 1%nat 2%nat ++ runs 2%nat 2%nat).
Example ex_fine_two_pending :
  (fp fine_two 0%nat, fp fine_two 1%nat, trace (base fine_two), trace (base (frun_all fine_two [Run 1%nat; Run 0%nat])),
   trace (reach two_sc res100 all_started false 0 (runs 0%nat 2%nat ++ runs 1%nat 2%nat ++ runs 2%nat 2%nat)))
  = (FSigWrite true SigSetBcast, FMonWrite, [EvRet 2%nat MonTryLock 0],
     [EvSigWrite 0%nat true; EvMonSet 1%nat; EvRet 2%nat MonTryLock 0],
     [EvRet 2%nat MonTryLock 0; EvMonSet 1%nat; EvSigWrite 0%nat true]).
Proof. vm_compute. reflexivity. Qed.
Example ex_fine_all_ok :
  all_ok false 0 (trace (base (frun_all fine_two [Run 1%nat; Run 0%nat]))) = [true; true; true; true; true; true].
Proof. vm_compute. reflexivity. Qed.
(* fine_no_stuck: the waiter (thread 0) is blocked, the setter's lock has returned and its write is pending.  On `base fw` the
   flag is down, nobody is marked and the setter is not even enabled (its pc is still at the lock of the non-recursive MM it
   owns); in the completion c the flag is up, the waiter is blocked and marked - the premise of the Monitor clause - and the
   setter stands at its enabled unlock *)
Definition fine_set_mid := freach mon_sc res100 all_started false 0 (runs 0%nat 4%nat ++ runs 1%nat 2%nat).
Example ex_fine_no_stuck_premise :
  (fp fine_set_mid 1%nat, monf (base fine_set_mid), mark (base fine_set_mid) 0%nat, enabled (base fine_set_mid) 1%nat,
   foreign_unlock fine_set_mid,
   let c := cw (base fine_set_mid) 1%nat FMonWrite in
   (monf c, blocked_on MC (st (ps c) 0%nat), mark c 0%nat, pc (tc c 1%nat), enabled c 1%nat))
  = (FMonWrite, false, false, false, false, (true, true, true, MonSetUnlock, true)).
Proof. vm_compute. reflexivity. Qed.
Example ex_fine_no_stuck_complete : complete_of fine_set_mid (cw (base fine_set_mid) 1%nat FMonWrite).
Proof.
  exists None, (Some (1%nat, FMonWrite)). split; [|split]; [| |unfold comp; cbn [cwo]; reflexivity].
  - intros t. destruct t as [|[|t]]; vm_compute; discriminate.
  - split; [vm_compute; reflexivity|split; [reflexivity|]]. intros u Hu. destruct u as [|[|u]]; [|exfalso; apply Hu; reflexivity|]; vm_compute; discriminate.
Qed.

(* the race of fine_monitor_race_under_foreign_unlock at the moment both waiters stand in front of their read: two threads
   at a Monitor access, the second owns MM, the first does not any more *)
Definition race_mid := freach race_scripts res100 all_started false 0 (firstn 19 race_sched).
Example ex_fine_race_two_at_access :
  (fp race_mid 0%nat, fp race_mid 1%nat, m_owner (mtx (ps (base race_mid)) MM), foreign_unlock race_mid)
  = (FMonRead None 0 0, FMonRead None 0 0, Some 1%nat, true).
Proof. vm_compute. reflexivity. Qed.
