(* placeholder while the pipeline is brought up; replaced by the real property file *)
From Coq Require Import ZArith List.
From Sync Require Import Sched SyncSpec SyncModel.
Theorem trylock_never_blocks_stub : forall p t m, prim_step p t (PTryLock m) <> Blocked.
Proof. intros p t m; cbn; destruct (acquire p m t); discriminate. Qed.
Print Assumptions trylock_never_blocks_stub.
