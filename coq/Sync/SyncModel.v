(* SyncModel.v - libnstd's Signal / Monitor / Mutex / Semaphore / Thread (POSIX paths) as little
   programs of primitive calls in exactly the order of src/Signal.cpp, Monitor.cpp, Mutex.cpp,
   Semaphore.cpp, Thread.cpp, running on Sched.v.  One object of each class; n threads, each
   running a finite script of library calls.  No proofs in this file.

   Granularity: a [Run t] move performs thread t's pending primitive call (if it can complete)
   and the thread-local code that follows it up to the next primitive call.  The only shared
   plain variables (Signal::signaled, Monitor::signaled) are touched exclusively in the move
   that acquired the guarding mutex (after pthread_mutex_lock / pthread_cond_wait returned), so
   splitting those accesses into moves of their own adds no behaviours.  This is PROVED (round 4):
   SyncFine.v defines the fine machine in which every read / write of the two flags is a move of its
   own; SyncFineInv.v proves that a thread in front of such an access owns the guarding mutex
   (fine_signal_accesses_under_mutex; fine_monitor_accesses_under_mutex under the client contract
   "nobody unlocks a monitor another thread owns" = foreign_unlock = false, MM being a default-type
   mutex the client locks and unlocks); SyncFineMain.v proves the simulation
   (fine_granularity_adds_no_behaviours: trace inclusion up to commuting independent events, state
   agreement with the completed fine state); SyncFineTrace.v transfers the six history predicates
   (fine_all_ok).  Statements in Properties_C11.v, rows [G]. *)
From Coq Require Import ZArith List Bool Arith.
From Sync Require Import Sched SyncSpec.
Import ListNotations.
Local Open Scope Z_scope.

(* indices of the primitives inside the one object of each class *)
Definition SM := 0%nat.   (* Signal's mutex *)
Definition SC := 0%nat.   (* Signal's condition *)
Definition MM := 1%nat.   (* Monitor's mutex *)
Definition MC := 1%nat.   (* Monitor's condition *)
Definition XM := 2%nat.   (* Mutex (recursive attribute) *)
Definition XS := 0%nat.   (* Semaphore *)

(* ts.tv_nsec += (timeout % 1000) * 1000000; ts.tv_sec += timeout / 1000 + ts.tv_nsec / 1000000000;
   ts.tv_nsec %= 1000000000;   with C's truncating / and %  (Signal.cpp:80-82, Monitor.cpp:114-116,
   Semaphore.cpp:64-66) *)
Definition deadline (s ns t : Z) : dlT :=
  let ns1 := ns + Z.rem t 1000 * 1000000 in
  (s + Z.quot t 1000 + Z.quot ns1 NS, Z.rem ns1 NS).

Definition deadline_at (nowv ms : Z) : dlT := deadline (nowv / NS) (nowv mod NS) ms.

Inductive pcT :=
| Idle
| SigSetLock | SigSetUnlock | SigSetBcast
| SigResetLock | SigResetUnlock
| SigWaitLock (dl : option dlT) | SigWaitCond (dl : option dlT) | SigWaitUnlock (r : bool)
| MonLockP | MonTryP | MonUnlockP | MonWaitCond (dl : option dlT)
| MonSetLock | MonSetUnlock | MonSetSignal
| MtxLockP | MtxTryP | MtxUnlockP
| SemPostP | SemWaitP | SemTryP | SemWaitTP (dl : dlT)
| ThStartP (c : tid) | ThStartRet (c : tid) | ThJoinP (c : tid).

Definition pending (p : pcT) : prim_call :=
  match p with
  | Idle | ThStartRet _ => PYield
  | SigSetLock | SigResetLock | SigWaitLock _ => PLock SM
  | SigSetUnlock | SigResetUnlock | SigWaitUnlock _ => PUnlock SM
  | SigSetBcast => PBroadcast SC
  | SigWaitCond dl => PCondWait SC SM dl
  | MonLockP | MonSetLock => PLock MM
  | MonTryP => PTryLock MM
  | MonUnlockP | MonSetUnlock => PUnlock MM
  | MonWaitCond dl => PCondWait MC MM dl
  | MonSetSignal => PSignal MC
  | MtxLockP => PLock XM
  | MtxTryP => PTryLock XM
  | MtxUnlockP => PUnlock XM
  | SemPostP => PSemPost XS
  | SemWaitP => PSemWait XS None
  | SemTryP => PSemTry XS
  | SemWaitTP d => PSemWait XS (Some d)
  | ThStartP c => PCreate c
  | ThJoinP c => PJoin c
  end.

Record tctx := { pc : pcT; script : list libcall; cur : libcall; tstart : Z; result : Z }.

Record world := {
  ps : prim_state;
  sigf : bool;                (* Signal::signaled *)
  monf : bool;                (* Monitor::signaled *)
  occ : Z;                    (* critical-section occupancy counter of the scenario threads *)
  handle : tid -> bool;       (* Thread object c : its `thread` member is non-null *)
  tc : tid -> tctx;
  trace : list event;         (* newest first *)
  mark : tid -> bool          (* ghost: Monitor::set wrote the flag while this thread was blocked in its current wait *)
}.

Definition set_ps w x := {| ps := x; sigf := sigf w; monf := monf w; occ := occ w; handle := handle w; tc := tc w; trace := trace w; mark := mark w |}.
Definition set_sigf w x := {| ps := ps w; sigf := x; monf := monf w; occ := occ w; handle := handle w; tc := tc w; trace := trace w; mark := mark w |}.
Definition set_monf w x := {| ps := ps w; sigf := sigf w; monf := x; occ := occ w; handle := handle w; tc := tc w; trace := trace w; mark := mark w |}.
Definition set_occ w x := {| ps := ps w; sigf := sigf w; monf := monf w; occ := x; handle := handle w; tc := tc w; trace := trace w; mark := mark w |}.
Definition set_handle w c x := {| ps := ps w; sigf := sigf w; monf := monf w; occ := occ w; handle := upd (handle w) c x; tc := tc w; trace := trace w; mark := mark w |}.
Definition set_tc w t x := {| ps := ps w; sigf := sigf w; monf := monf w; occ := occ w; handle := handle w; tc := upd (tc w) t x; trace := trace w; mark := mark w |}.
Definition emit w e := {| ps := ps w; sigf := sigf w; monf := monf w; occ := occ w; handle := handle w; tc := tc w; trace := e :: trace w; mark := mark w |}.
Definition set_marks w f := {| ps := ps w; sigf := sigf w; monf := monf w; occ := occ w; handle := handle w; tc := tc w; trace := trace w; mark := f |}.

Definition with_pc (c : tctx) (p : pcT) : tctx :=
  {| pc := p; script := script c; cur := cur c; tstart := tstart c; result := result c |}.
Definition goto w t p := set_tc w t (with_pc (tc w t) p).

Definition finish w t (v : Z) : world :=
  goto (emit w (EvRet t (cur (tc w t)) v)) t Idle.

Definition finish_false w t : world :=
  finish (emit w (EvTimedFalse t (cur (tc w t)) (tstart (tc w t)) (now (ps w)))) t 0.

Definition b2z (b : bool) : Z := if b then 1 else 0.
Definition timed (dl : option dlT) : bool := match dl with Some _ => true | None => false end.

(* thread-local code after primitive call [pending p] returned r *)
Definition after_return (w : world) (t : tid) (p : pcT) (r : Z) : world :=
  match p with
  | Idle => w
  (* Signal::set : lock; signaled = true; broadcast; unlock  - the waiters are woken while the mutex is still held
     (fixes/C10/04): a waiter that sees the flag may destroy the Signal as soon as it owns the mutex, so set() touches
     nothing of the Signal after its unlock *)
  | SigSetLock => goto (emit (set_sigf w true) (EvSigWrite t true)) t SigSetBcast
  | SigSetBcast => goto w t SigSetUnlock
  | SigSetUnlock => finish w t 0
  (* Signal::reset : lock; signaled = false; unlock *)
  | SigResetLock => goto (emit (set_sigf w false) (EvSigWrite t false)) t SigResetUnlock
  | SigResetUnlock => finish w t 0
  (* Signal::wait : lock; for(;;) { if(signaled) { unlock; return true; } cond_(timed)wait; [if rc != 0 { unlock; return false; }] } *)
  | SigWaitLock dl => if sigf w then goto w t (SigWaitUnlock true) else goto w t (SigWaitCond dl)
  | SigWaitCond dl =>
      if timed dl && negb (r =? 0) then goto w t (SigWaitUnlock false)
      else if sigf w then goto w t (SigWaitUnlock true) else goto w t (SigWaitCond dl)
  | SigWaitUnlock b => if b then finish w t 1 else finish_false w t
  (* Monitor *)
  | MonLockP => finish w t 0
  | MonTryP => finish w t (b2z (r =? 0))
  | MonUnlockP => finish w t 0
  (* Monitor::wait : for(;;) { rc = cond_(timed)wait; if(signaled) { signaled = false; return true; } [if rc != 0 return false;] }
     the flag is looked at whatever the return code of the timed wait (a timed-out waiter may have consumed the signal) *)
  | MonWaitCond dl =>
      if monf w then finish (set_monf w false) t 1
      else if timed dl && negb (r =? 0) then finish_false w t
      else goto w t (MonWaitCond dl)
  (* Monitor::set : lock; signaled = true; unlock; signal *)
  | MonSetLock =>
      goto (set_marks (emit (set_monf w true) (EvMonSet t))
                      (fun u => mark w u || blocked_on MC (st (ps w) u))) t MonSetUnlock
  | MonSetUnlock => goto w t MonSetSignal
  | MonSetSignal => finish w t 0
  (* Mutex *)
  | MtxLockP => finish w t 0
  | MtxTryP => finish w t (b2z (r =? 0))
  | MtxUnlockP => finish w t 0
  (* Semaphore *)
  | SemPostP => finish w t 0
  | SemWaitP => finish w t (b2z (r =? 0))
  | SemTryP => finish w t (b2z (r =? 0))
  | SemWaitTP d =>
      if r =? 0 then finish w t 1
      else if r =? EINTR then w               (* errno == EINTR: continue *)
      else finish_false w t
  (* Thread *)
  (* Thread::start : pthread_create; [the new thread may run from here on]; this->thread = handle; return true.
     ThStartRet is the point between the return of pthread_create and the creator's code after it (pending call
     PYield, always enabled): the child can be scheduled first *)
  | ThStartP c => if r =? 0 then goto w t (ThStartRet c) else finish w t 0
  | ThStartRet c => finish (set_handle w c true) t 1
  | ThJoinP c => finish (emit (set_handle w c false) (EvJoin t c r)) t r
  end.

(* the thread-local prologue of a library call, up to its first primitive call *)
Definition begin_op (w : world) (t : tid) (op : libcall) (rest : list libcall) : world :=
  let c := tc w t in
  let w1 := set_tc w t {| pc := Idle; script := rest; cur := op; tstart := now (ps w); result := result c |} in
  let dl ms := Some (deadline_at (now (ps w)) ms) in
  match op with
  | SigSet => goto w1 t SigSetLock
  | SigReset => goto w1 t SigResetLock
  | SigWait => goto w1 t (SigWaitLock None)
  | SigWaitT ms => goto w1 t (SigWaitLock (dl ms))
  | MonLock => goto w1 t MonLockP
  | MonTryLock => goto w1 t MonTryP
  | MonUnlock => goto w1 t MonUnlockP
  | MonWait => goto w1 t (MonWaitCond None)
  | MonWaitT ms => goto w1 t (MonWaitCond (dl ms))
  | MonSet => goto w1 t MonSetLock
  | MtxLock => goto w1 t MtxLockP
  | MtxTryLock => goto w1 t MtxTryP
  | MtxUnlock => goto w1 t MtxUnlockP
  | SemSignal => goto w1 t SemPostP
  | SemWait => goto w1 t SemWaitP
  | SemWaitT ms => goto w1 t (SemWaitTP (deadline_at (now (ps w)) ms))
  | SemTryWait => goto w1 t SemTryP
  | ThStart c => if handle w c then finish w1 t 0 else goto w1 t (ThStartP c)
  | ThJoin c => if handle w c then goto w1 t (ThJoinP c) else finish w1 t 0
  (* Thread::start, pthread_create fails: start() returns false (also when it is refused before the create because the object
     already has a thread); the thread-local handle `pthread_t thread` is not committed, nothing shared is touched.  The failing
     create creates nothing and changes nothing any other thread can see, so it needs no move of its own. *)
  | ThStartF c => finish w1 t 0
  | CsEnter => finish (set_occ w1 (occ w + 1)) t (occ w + 1)
  | CsLeave => finish (set_occ w1 (occ w - 1)) t (occ w - 1)
  end.

Definition step_run (w : world) (t : tid) : world :=
  if negb (runnable (st (ps w) t)) then w else
  let c := tc w t in
  match pc c with
  | Idle =>
      match script c with
      | [] => emit (set_ps w (prim_exit (ps w) t (result c))) (EvExit t (result c))
      | op :: rest => begin_op w t op rest
      end
  | p =>
      match prim_step (ps w) t (pending p) with
      | Blocked => w
      | Progress p' => set_ps w p'
      | Return p' r => after_return (set_ps w p') t p r
      end
  end.

(* the mark of a waiter is cleared when it (re-)enters the condition wait: a Monitor waiter that
   loops back after finding the flag consumed starts a new blocking period *)
Definition clear_mark_on_block (w w' : world) (t : tid) : world :=
  if negb (blocked_on MC (st (ps w) t)) && blocked_on MC (st (ps w') t)
  then set_marks w' (upd (mark w') t false) else w'.

Definition is_sem_wait (p : pcT) : bool :=
  match p with SemWaitP | SemWaitTP _ => true | _ => false end.

Definition step (w : world) (mv : move) : world :=
  match mv with
  | Run t => clear_mark_on_block w (step_run w t) t
  | Spurious t =>
      match st (ps w) t with
      | TCondBlocked _ _ _ => set_ps w (prim_spurious (ps w) t)
      | TRun => if is_sem_wait (pc (tc w t)) then after_return w t (pc (tc w t)) EINTR else w
      | _ => w
      end
  | Timeout t =>
      match st (ps w) t with
      | TCondBlocked _ _ _ => set_ps w (prim_timeout (ps w) t)
      | TRun =>
          match pc (tc w t) with
          | SemWaitTP d => if dl_valid d && dl_expired d (now (ps w))
                           then after_return w t (SemWaitTP d) ETIMEDOUT else w
          | _ => w
          end
      | _ => w
      end
  | TimeoutSteal t => set_ps w (prim_timeout_steal (ps w) t)
  | Clock n => set_ps w (prim_clock (ps w) n)
  | Rotate c => set_ps w (prim_rotate (ps w) c)
  end.

Definition run (w : world) (sched : list move) : world := fold_left step sched w.

Definition enabled (w : world) (t : tid) : bool :=
  prim_enabled (ps w) t (pending (pc (tc w t))).

(* scripts : what each thread runs; results t : the value thread t's function returns; started t : thread t is running from the beginning (otherwise
   it has to be started with ThStart); sig0 / sem0 : constructor arguments *)
(* the results of the standard scenarios: thread t's function returns 100 + t *)
Definition res100 (t : tid) : Z := 100 + Z.of_nat t.

Definition init (scripts : tid -> list libcall) (results : tid -> Z) (started : tid -> bool) (sig0 : bool) (sem0 : Z) : world :=
  {| ps := {| mtx := fun m => mk_mutex (Nat.eqb m XM);
              cnd := fun _ => [];
              sem := fun _ => sem0;
              st := fun t => if started t then TRun else TNotStarted;
              now := 0 |};
     sigf := sig0; monf := false; occ := 0;
     handle := fun _ => false;
     tc := fun t => {| pc := Idle; script := scripts t; cur := CsLeave; tstart := 0; result := results t |};
     trace := []; mark := fun _ => false |}.
