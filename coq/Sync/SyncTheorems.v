(* SyncTheorems.v - the invariants hold in every state reachable by any schedule; the statements of C11 *)
From Coq Require Import ZArith List Bool Arith Lia.
From Coq Require Import ZifyBool ZifyNat ZifyN.
From Sync Require Import Sched SyncSpec SyncModel SyncArith SyncInv SyncTrace SyncSignal SyncTimed SyncMonitor.
Import ListNotations.
Local Open Scope Z_scope.

Ltac wsimpl :=
  cbn [ps sigf monf occ handle tc trace mark set_ps set_sigf set_monf set_occ set_handle set_tc emit set_marks
       goto finish finish_false with_pc pc script cur tstart result
       mtx cnd sem st now set_mtx set_cnd set_sem set_st set_sts set_now prim_exit] in *.

(* the recursive attribute of a mutex never changes *)
Lemma prim_step_rec p t c p' m : outcome_state (prim_step p t c) = Some p' -> m_rec (mtx p' m) = m_rec (mtx p m).
Proof.
  intros H. destruct c; cbn [prim_step] in H.
  - inv_o H; auto.
  - destruct (acquire p m0 t) eqn:Ha; inv_o H. apply acquire_some in Ha as (k & -> & _). wsimpl.
    destruct (Nat.eq_dec m m0) as [->|]; [rewrite upd_same|rewrite upd_other by auto]; reflexivity.
  - destruct (acquire p m0 t) eqn:Ha; inv_o H; auto. apply acquire_some in Ha as (k & -> & _). wsimpl.
    destruct (Nat.eq_dec m m0) as [->|]; [rewrite upd_same|rewrite upd_other by auto]; reflexivity.
  - destruct (owned_by (mtx p m0) t); [|destruct (m_rec (mtx p m0))]; inv_o H; auto.
    + unfold release. destruct (m_cnt (mtx p m0)) as [|[|k]]; wsimpl;
        (destruct (Nat.eq_dec m m0) as [->|]; [rewrite upd_same|rewrite upd_other by auto]; reflexivity).
    + unfold release_all. wsimpl. destruct (Nat.eq_dec m m0) as [->|]; [rewrite upd_same|rewrite upd_other by auto]; reflexivity.
  - destruct (st p t) eqn:Hst; try discriminate.
    + destruct (negb _); [inv_o H; reflexivity|]. destruct (dl_bad dl); inv_o H; auto. unfold release_all. wsimpl.
      destruct (Nat.eq_dec m m0) as [->|]; [rewrite upd_same|rewrite upd_other by auto]; reflexivity.
    + destruct (is_free _); inv_o H. wsimpl.
      destruct (Nat.eq_dec m m1) as [->|]; [rewrite upd_same|rewrite upd_other by auto]; reflexivity.
  - destruct (find _ _); inv_o H; reflexivity.
  - inv_o H; reflexivity.
  - destruct (0 <? sem p s); [inv_o H; reflexivity|]. destruct (dl_bad dl); inv_o H; reflexivity.
  - destruct (0 <? sem p s); inv_o H; reflexivity.
  - inv_o H; reflexivity.
  - destruct (st p child); inv_o H; reflexivity.
  - destruct (st p child); inv_o H; reflexivity.
Qed.

Definition RecInv (w : world) : Prop := m_rec (mtx (ps w) XM) = true.

Lemma RecInv_step w mv : RecInv w -> RecInv (step w mv).
Proof.
  unfold RecInv. intros H. destruct mv as [t|t|t|t|n|c]; cbn [step].
  - rewrite ps_clear_mark.
    destruct (step_run_case w t) as [|Hr Hpc Hs|op rest Hr Hpc Hs|p' Hr Hpc Hp|p' r Hr Hpc Hp]; auto.
    + rewrite ps_begin_op; auto.
    + wsimpl. erewrite prim_step_rec; eauto. rewrite Hp; reflexivity.
    + rewrite ps_after_return. wsimpl. erewrite prim_step_rec; eauto. rewrite Hp; reflexivity.
  - destruct (st (ps w) t) eqn:Hst; auto.
    + destruct (is_sem_wait _); [rewrite ps_after_return|]; auto.
    + wsimpl. unfold prim_spurious. rewrite Hst. auto.
  - destruct (st (ps w) t) eqn:Hst; auto.
    + destruct (pc (tc w t)); auto. destruct (_ && _); [rewrite ps_after_return|]; auto.
    + wsimpl. unfold prim_timeout. rewrite Hst. destruct dl; auto. destruct (dl_expired _ _); auto.
  - wsimpl. destruct (steal_shape (ps w) t) as [->|(m & rc & d & _ & _ & ->)]; auto.
  - auto.
  - wsimpl. unfold prim_rotate. destruct (cnd (ps w) c); auto.
Qed.

(* ---- all invariants together ---- *)
Record AllInv (s0 : bool) (v0 : Z) (w : world) : Prop := {
  ai1 : I1 w; ai2 : I2 w; ai3 : I3 w; ai_rec : RecInv w;
  ai_sem : SemInv v0 w; ai_mon : MonInv w; ai_join : JoinInv w; ai_mtx : MtxInv w;
  ai_sig : SigInv s0 w; ai_siglive : SigLive w; ai_timed : TimedInv w; ai_monlive : MonLive w }.

Lemma AllInv_step s0 v0 w mv : AllInv s0 v0 w -> AllInv s0 v0 (step w mv).
Proof.
  intros [H1 H2 H3 Hr Hs Hm Hj Hx Hg Hgl Ht Hml]. constructor.
  - now apply I1_step.
  - now apply I2_step.
  - now apply I3_step.
  - now apply RecInv_step.
  - now apply SemInv_step.
  - now apply MonInv_step.
  - now apply JoinInv_step.
  - apply MtxInv_step; auto.
  - now apply SigInv_step.
  - eapply SigLive_step; eauto.
  - now apply TimedInv_step.
  - now apply MonLive_step.
Qed.

Lemma AllInv_init scripts results started s0 v0 : 0 <= v0 -> AllInv s0 v0 (init scripts results started s0 v0).
Proof.
  intros Hv. constructor; unfold init.
  - intros t. cbn. exact I.
  - intros t. cbn. destruct (started t); cbn; auto.
  - intros c u. cbn. destruct (started u); cbn; discriminate.
  - reflexivity.
  - unfold SemInv. cbn. repeat split; lia.
  - unfold MonInv. cbn. split; [lia|reflexivity].
  - unfold JoinInv. cbn. split; auto. intros u. destruct (started u); reflexivity.
  - unfold MtxInv. cbn. split; auto.
  - unfold SigInv. cbn. repeat split; auto.
  - intros Hf u Hb. cbn in Hb. destruct (started u); discriminate.
  - unfold TimedInv. cbn. split; [lia|split; [reflexivity|]]. intros t. unfold timed_local. cbn.
    split; [lia|split; [destruct (started t); exact I|discriminate]].
  - intros Hf. cbn in Hf. discriminate.
Qed.

Definition reach (scripts : tid -> list libcall) (results : tid -> Z) (started : tid -> bool) (s0 : bool) (v0 : Z) (sched : list move) : world :=
  run (init scripts results started s0 v0) sched.

Lemma AllInv_reach scripts results started s0 v0 sched : 0 <= v0 -> AllInv s0 v0 (reach scripts results started s0 v0 sched).
Proof.
  intros Hv. unfold reach. apply run_inv.
  - intros w mv. apply AllInv_step.
  - now apply AllInv_init.
Qed.

Section Statements.
Variables (scripts : tid -> list libcall) (results : tid -> Z) (started : tid -> bool) (s0 : bool) (v0 : Z) (sched : list move).
Hypothesis Hv0 : 0 <= v0.
Let w := reach scripts results started s0 v0 sched.
Let HA : AllInv s0 v0 w := AllInv_reach scripts results started s0 v0 sched Hv0.

(* a thread that is at a program point whose pending call is not a condition wait is running *)
Lemma running_at (t : tid) : pc (tc w t) <> Idle -> (forall c m dl, pending (pc (tc w t)) <> PCondWait c m dl) -> st (ps w) t = TRun.
Proof.
  intros Hp Hc. pose proof (ai2 _ _ _ HA t) as H. destruct (st (ps w) t); cbn in H; auto; try congruence.
  - destruct H as (c & H). exfalso. eapply Hc; eauto.
  - destruct H as (c & m & dl & H). exfalso. eapply Hc; eauto.
Qed.

(* ---------------- Mutex ---------------- *)
Lemma mutex_history_exclusive_l : mtx_ok (trace w) = true.
Proof. apply (ai_mtx _ _ _ HA). Qed.

Lemma mutex_one_holder_l u v : (held (trace w) u > 0)%nat -> (held (trace w) v > 0)%nat -> u = v.
Proof.
  destruct (ai_mtx _ _ _ HA) as [H _]. rewrite (H u), (H v). unfold held_spec.
  destruct (m_owner (mtx (ps w) XM)) as [o|]; [|lia].
  destruct (Nat.eqb_spec o u), (Nat.eqb_spec o v); try lia; congruence.
Qed.

Lemma mutex_reentrant_l t : m_owner (mtx (ps w) XM) = Some t -> pc (tc w t) = MtxLockP -> enabled w t = true.
Proof.
  intros Ho Hp. unfold enabled, prim_enabled. rewrite Hp. cbn [pending].
  rewrite (running_at t); [|rewrite Hp; discriminate|rewrite Hp; cbn; discriminate]. cbn [runnable andb].
  cbn [prim_step]. unfold acquire. rewrite Ho, Nat.eqb_refl. rewrite (ai_rec _ _ _ HA). reflexivity.
Qed.

Lemma trylock_never_blocks_l p t m : prim_step p t (PTryLock m) <> Blocked.
Proof. cbn. destruct (acquire p m t); discriminate. Qed.

Lemma trylock_enabled_l t : pc (tc w t) = MtxTryP \/ pc (tc w t) = MonTryP -> enabled w t = true.
Proof.
  intros Hp. unfold enabled, prim_enabled.
  rewrite (running_at t); [|destruct Hp as [-> | ->]; discriminate|destruct Hp as [-> | ->]; cbn; discriminate].
  cbn [runnable andb]. destruct Hp as [-> | ->]; cbn [pending prim_step]; destruct (acquire _ _ _); reflexivity.
Qed.

(* Mutex::tryLock returns true exactly when the mutex is free or already owned by the caller *)
Lemma trylock_succeeds_iff_l t : pc (tc w t) = MtxTryP ->
  forall p' r, prim_step (ps w) t (pending (pc (tc w t))) = Return p' r ->
  (r = 0 <-> (m_owner (mtx (ps w) XM) = None \/ m_owner (mtx (ps w) XM) = Some t)).
Proof.
  intros Hp p' r. rewrite Hp. cbn [pending prim_step]. unfold acquire.
  pose proof (ai_rec _ _ _ HA) as Hr. unfold RecInv in Hr.
  destruct (m_owner (mtx (ps w) XM)) as [o|] eqn:Ho.
  - rewrite Hr. destruct (Nat.eqb_spec o t) as [->|Hn]; cbn [andb]; intros E; inversion E; subst.
    + split; auto.
    + split; [discriminate|]. intros [H|H]; congruence.
  - intros E; inversion E. split; auto.
Qed.

(* ---------------- Semaphore ---------------- *)
Lemma semaphore_conserved_l :
  sem_ok v0 (trace w) = true /\ sem_waits (trace w) + sem (ps w) XS = v0 + sem_signals (trace w) /\ 0 <= sem (ps w) XS.
Proof. destruct (ai_sem _ _ _ HA) as (A & B & C). auto. Qed.

Lemma semaphore_no_waiter_blocked_while_positive_l t :
  0 < sem (ps w) XS -> (pc (tc w t) = SemWaitP \/ exists d, pc (tc w t) = SemWaitTP d) -> enabled w t = true.
Proof.
  intros Hs Hp. unfold enabled, prim_enabled.
  rewrite (running_at t); [|destruct Hp as [-> |(d & ->)]; discriminate|destruct Hp as [-> |(d & ->)]; cbn; discriminate].
  cbn [runnable andb]. destruct Hp as [-> |(d & ->)]; cbn [pending prim_step];
    (destruct (0 <? sem (ps w) XS) eqn:E; [reflexivity|lia]).
Qed.

(* ---------------- Signal ---------------- *)
Lemma signal_wait_true_only_if_set_l : sig_ok s0 (trace w) = true /\ sig_state s0 (trace w) = sigf w.
Proof. destruct (ai_sig _ _ _ HA) as (A & B & _). auto. Qed.

Lemma set_steps_enabled v :
  pc (tc w v) = SigSetUnlock \/ pc (tc w v) = SigSetBcast \/ pc (tc w v) = MonSetUnlock \/ pc (tc w v) = MonSetSignal ->
  enabled w v = true.
Proof.
  intros Hp. unfold enabled, prim_enabled.
  rewrite (running_at v); [|destruct Hp as [-> |[-> |[-> | ->]]]; discriminate|destruct Hp as [-> |[-> |[-> | ->]]]; cbn; discriminate].
  cbn [runnable andb]. destruct Hp as [-> |[-> |[-> | ->]]]; cbn [pending prim_step];
    try (destruct (owned_by _ _); [|destruct (m_rec _)]; reflexivity); try reflexivity. destruct (find _ _); reflexivity.
Qed.

(* Signal::set = lock; flag := true; broadcast; unlock.  A blocked waiter with the flag up means that a setter stands AT
   its broadcast (it wrote the flag and has not yet woken the waiters), and that broadcast is enabled.  Between the
   broadcast and the unlock nobody is blocked on the condition: see signal_set_releases_all_waiters_l *)
Lemma signal_no_waiter_blocked_while_set_l u :
  sigf w = true -> blocked_on SC (st (ps w) u) = true ->
  exists v, pc (tc w v) = SigSetBcast /\ enabled w v = true.
Proof.
  intros Hf Hb. destruct (ai_siglive _ _ _ HA Hf u Hb) as (v & Hv). exists v. split; auto.
  apply set_steps_enabled. tauto.
Qed.

(* the setter holds the internal mutex from the flag write to its unlock - in particular while it broadcasts - and
   both steps are enabled (the woken waiters cannot leave their wait before that unlock) *)
Lemma signal_set_broadcasts_under_mutex_l t :
  pc (tc w t) = SigSetBcast \/ pc (tc w t) = SigSetUnlock ->
  m_owner (mtx (ps w) SM) = Some t /\ enabled w t = true.
Proof.
  intros Hp. split.
  - destruct (ai_sig _ _ _ HA) as (_ & _ & HL). specialize (HL t). unfold sig_local in HL.
    destruct Hp as [Hp|Hp]; rewrite Hp in HL; exact HL.
  - apply set_steps_enabled. tauto.
Qed.

(* the unlock is the last thing set() does: the step that performs it returns from the library call *)
Lemma signal_set_unlock_is_last_l t : pc (tc w t) = SigSetUnlock ->
  let w' := step w (Run t) in
  pc (tc w' t) = Idle /\ trace w' = EvRet t SigSet 0 :: trace w.
Proof.
  intros Hp. cbn [step]. rewrite tc_clear_mark, trace_clear_mark. unfold step_run.
  rewrite (running_at t); [|rewrite Hp; discriminate|rewrite Hp; cbn; discriminate]. cbn [runnable negb].
  pose proof (ai1 _ _ _ HA t) as H1. rewrite Hp in H1. cbn [pc_ok] in H1.
  rewrite Hp. cbn [pending prim_step].
  destruct (owned_by _ _); [|destruct (m_rec _)]; cbn [after_return]; wsimpl; rewrite upd_same, H1; split; reflexivity.
Qed.

(* the broadcast of Signal::set leaves no thread blocked on the signal (the woken waiters then need the mutex, which the
   setter releases in its next and last step: signal_set_broadcasts_under_mutex_l, signal_set_unlock_is_last_l) *)
Lemma signal_set_releases_all_waiters_l t : pc (tc w t) = SigSetBcast ->
  forall u, blocked_on SC (st (ps (step w (Run t))) u) = false.
Proof.
  intros Hp u. cbn [step]. rewrite ps_clear_mark. unfold step_run.
  rewrite (running_at t); [|rewrite Hp; discriminate|rewrite Hp; cbn; discriminate]. cbn [runnable negb].
  rewrite Hp. cbn [pending prim_step]. rewrite ps_after_return. wsimpl.
  destruct (blocked_on SC (st (ps w) u)) eqn:Hb; [apply blocked_wake|exact Hb].
Qed.

(* ---------------- Monitor ---------------- *)
Lemma monitor_waits_le_sets_l : mon_ok (trace w) = true /\ mon_waits (trace w) + b2z (monf w) <= mon_sets (trace w).
Proof. destruct (ai_mon _ _ _ HA) as (A & B). auto. Qed.

Lemma monitor_set_releases_a_waiter_l u :
  monf w = true -> blocked_on MC (st (ps w) u) = true -> mark w u = true ->
  exists v, ((pc (tc w v) = MonSetUnlock \/ pc (tc w v) = MonSetSignal) /\ enabled w v = true) \/
            (exists rc dl dl', st (ps w) v = TWoken MM rc dl /\ pc (tc w v) = MonWaitCond dl' /\
                               (is_free (mtx (ps w) MM) = true -> enabled w v = true)).
Proof.
  intros Hf Hb Hm. destruct (ai_monlive _ _ _ HA Hf u Hb Hm) as (v & Hv). exists v.
  destruct Hv as [Hv|[Hv|(rc & dl & dl' & Hs & Hp)]].
  - left. split; auto. apply set_steps_enabled; tauto.
  - left. split; auto. apply set_steps_enabled; tauto.
  - right. exists rc, dl, dl'. repeat split; auto. intros Hfree. unfold enabled, prim_enabled. rewrite Hs, Hp. cbn [runnable andb pending prim_step].
    rewrite Hs, Hfree. reflexivity.
Qed.

(* the woken waiter of the previous lemma consumes the flag and returns true when it runs - whatever the return
   code of its (timed) condition wait: a timed-out waiter that consumed the signal does not lose it *)
Lemma monitor_woken_waiter_returns_true_l v rc dl dl' :
  st (ps w) v = TWoken MM rc dl -> pc (tc w v) = MonWaitCond dl' -> is_free (mtx (ps w) MM) = true -> monf w = true ->
  let w' := step w (Run v) in
  monf w' = false /\ exists c, trace w' = EvRet v c 1 :: trace w /\ is_mon_wait c = true.
Proof.
  intros Hs Hp Hfree Hf. cbn [step]. rewrite monf_clear_mark, trace_clear_mark. unfold step_run.
  rewrite Hs. cbn [runnable negb]. rewrite Hp. cbn [pending prim_step]. rewrite Hs, Hfree.
  cbn [after_return]. wsimpl. rewrite Hf. wsimpl. split; auto.
  eexists; split; [reflexivity|]. pose proof (ai1 _ _ _ HA v) as H1. rewrite Hp in H1. cbn in H1.
  destruct dl' as [d|]; [destruct H1 as ((ms & ->) & _)|rewrite H1]; reflexivity.
Qed.

(* ---------------- timed waits ---------------- *)
Lemma timed_wait_false_only_after_timeout_l : timed_ok (trace w) = true.
Proof. apply (ai_timed _ _ _ HA). Qed.

(* ---------------- Thread ---------------- *)
Lemma join_returns_result_after_finish_l : join_ok (trace w) = true.
Proof. apply (ai_join _ _ _ HA). Qed.

Lemma thread_result_l t v : st (ps w) t = TDone v -> exited (trace w) t = Some v.
Proof. intros H. destruct (ai_join _ _ _ HA) as [Hd _]. specialize (Hd t). rewrite H in Hd. exact Hd. Qed.

End Statements.

(* ---------------- Thread::start whose pthread_create fails (round 6) ---------------- *)
(* for ANY world (reachable or not): the move in which a runnable thread executes start() with a failing pthread_create
   changes nothing but that thread's own position in its script and the history - no primitive, no flag, no handle, no
   other thread; in particular the Thread object stays unstarted *)
Lemma failed_start_changes_nothing_l w t c rest :
  runnable (st (ps w) t) = true -> pc (tc w t) = Idle -> script (tc w t) = ThStartF c :: rest ->
  let w' := step w (Run t) in
  ps w' = ps w /\ sigf w' = sigf w /\ monf w' = monf w /\ occ w' = occ w /\ handle w' = handle w /\ mark w' = mark w /\
  (forall u, u <> t -> tc w' u = tc w u) /\
  pc (tc w' t) = Idle /\ script (tc w' t) = rest /\ trace w' = EvRet t (ThStartF c) 0 :: trace w.
Proof.
  intros Hr Hp Hs. cbn [step]. unfold clear_mark_on_block, step_run. rewrite Hr. cbn [negb]. rewrite Hp, Hs.
  cbn [begin_op]. wsimpl. destruct (blocked_on MC (st (ps w) t)); cbn [negb andb]; wsimpl; rewrite ?upd_same;
    repeat split; auto; intros u Hu; rewrite upd_other by auto; rewrite ?upd_other by auto; reflexivity.
Qed.

(* ... and the retry on the same Thread object succeeds: four moves of the same thread (the failing start, the prologue of the
   second start, its pthread_create, the return to the creator) leave the handle stored and the child running *)
(* one move of a thread in state TRun that does not end blocked on MC: the mark bookkeeping is the identity *)
Lemma step_run_trun w t : st (ps w) t = TRun -> st (ps (step_run w t)) t = TRun -> step w (Run t) = step_run w t.
Proof.
  intros H H'. cbn [step]. unfold clear_mark_on_block. rewrite H'. cbn [blocked_on]. rewrite andb_false_r. reflexivity.
Qed.

Lemma m1 w t c rest : st (ps w) t = TRun -> pc (tc w t) = Idle -> script (tc w t) = ThStartF c :: rest ->
  step_run w t = finish (set_tc w t {| pc := Idle; script := rest; cur := ThStartF c; tstart := now (ps w); result := result (tc w t) |}) t 0.
Proof. intros Ht Hp Hs. unfold step_run. rewrite Ht. cbn [runnable negb]. rewrite Hp, Hs. reflexivity. Qed.

Lemma mvB w t c rest : st (ps w) t = TRun -> pc (tc w t) = Idle -> script (tc w t) = ThStart c :: rest -> handle w c = false ->
  let w' := step w (Run t) in
  ps w' = ps w /\ handle w' = handle w /\ pc (tc w' t) = ThStartP c /\ script (tc w' t) = rest /\ cur (tc w' t) = ThStart c /\ trace w' = trace w.
Proof.
  intros Ht Hp Hs Hh.
  assert (E : step_run w t = goto (set_tc w t {| pc := Idle; script := rest; cur := ThStart c; tstart := now (ps w); result := result (tc w t) |}) t (ThStartP c)).
  { unfold step_run. rewrite Ht. cbn [runnable negb]. rewrite Hp, Hs. cbn [begin_op]. wsimpl. rewrite Hh. reflexivity. }
  cbv zeta. rewrite step_run_trun; auto; rewrite E; wsimpl; rewrite ?upd_same; auto; try (repeat split; reflexivity).
Qed.

Lemma mvC w t c : st (ps w) t = TRun -> pc (tc w t) = ThStartP c -> st (ps w) c = TNotStarted -> t <> c ->
  let w' := step w (Run t) in
  st (ps w') c = TRun /\ st (ps w') t = TRun /\ handle w' = handle w /\ pc (tc w' t) = ThStartRet c /\
  script (tc w' t) = script (tc w t) /\ cur (tc w' t) = cur (tc w t) /\ trace w' = trace w.
Proof.
  intros Ht Hp Hc Htc.
  assert (E : step_run w t = goto (set_ps w (set_st (ps w) c TRun)) t (ThStartRet c)).
  { unfold step_run. rewrite Ht. cbn [runnable negb]. rewrite Hp. cbn [pending prim_step]. rewrite Hc. reflexivity. }
  cbv zeta. rewrite step_run_trun; auto; rewrite E; wsimpl; rewrite ?upd_same; auto.
  - rewrite upd_other by auto. repeat split; auto.
  - rewrite upd_other by auto. auto.
Qed.

Lemma mvD w t c : st (ps w) t = TRun -> pc (tc w t) = ThStartRet c ->
  let w' := step w (Run t) in
  ps w' = ps w /\ handle w' c = true /\ pc (tc w' t) = Idle /\ script (tc w' t) = script (tc w t) /\
  trace w' = EvRet t (cur (tc w t)) 1 :: trace w.
Proof.
  intros Ht Hp.
  assert (E : step_run w t = finish (set_handle w c true) t 1).
  { unfold step_run. rewrite Ht. cbn [runnable negb]. rewrite Hp. reflexivity. }
  cbv zeta. rewrite step_run_trun; auto; rewrite E; wsimpl; rewrite ?upd_same; auto; try (repeat split; reflexivity).
Qed.

Lemma start_after_failed_start_succeeds_l w t c rest :
  st (ps w) t = TRun -> pc (tc w t) = Idle -> script (tc w t) = ThStartF c :: ThStart c :: rest ->
  handle w c = false -> st (ps w) c = TNotStarted ->
  let w' := run w [Run t; Run t; Run t; Run t] in
  handle w' c = true /\ st (ps w') c = TRun /\ pc (tc w' t) = Idle /\ script (tc w' t) = rest /\
  trace w' = EvRet t (ThStart c) 1 :: EvRet t (ThStartF c) 0 :: trace w.
Proof.
  intros Ht Hp Hs Hh Hc.
  assert (Htc : t <> c) by (intros ->; congruence).
  cbn [run fold_left].
  destruct (failed_start_changes_nothing_l w t c (ThStart c :: rest)) as (A1 & _ & _ & _ & A5 & _ & _ & A8 & A9 & A10);
    [rewrite Ht; reflexivity|auto|auto|].
  set (w1 := step w (Run t)) in *.
  destruct (mvB w1 t c rest) as (B1 & B2 & B3 & B4 & B5 & B6); [rewrite A1; auto|auto|auto|rewrite A5; auto|].
  set (w2 := step w1 (Run t)) in *.
  destruct (mvC w2 t c) as (C1 & C2 & C3 & C4 & C5 & C6 & C7); [rewrite B1, A1; auto|auto|rewrite B1, A1; auto|auto|].
  set (w3 := step w2 (Run t)) in *.
  destruct (mvD w3 t c) as (D1 & D2 & D3 & D4 & D5); auto.
  set (w4 := step w3 (Run t)) in *.
  repeat split; auto.
  - rewrite D1. auto.
  - rewrite D4, C5. auto.
  - rewrite D5, C6, B5, C7, B6, A10. reflexivity.
Qed.

(* ---------------- the handle of a Thread object (round 6) ---------------- *)
(* a thread that has been created never becomes TNotStarted again *)
Lemma wake_ns rc s : s <> TNotStarted -> wake rc s <> TNotStarted.
Proof. destruct s; cbn; congruence. Qed.

Lemma prim_step_ns p t c p' u : outcome_state (prim_step p t c) = Some p' -> st p u <> TNotStarted -> st p' u <> TNotStarted.
Proof.
  intros H Hu. destruct c; cbn [prim_step] in H.
  - inv_o H. auto.
  - destruct (acquire p m t) eqn:Ha; inv_o H. apply acquire_some in Ha as (k & -> & _). auto.
  - destruct (acquire p m t) eqn:Ha; inv_o H; auto. apply acquire_some in Ha as (k & -> & _). auto.
  - destruct (owned_by (mtx p m) t); [|destruct (m_rec (mtx p m))]; inv_o H; auto.
    unfold release. destruct (m_cnt (mtx p m)) as [|[|k]]; auto.
  - destruct (st p t) eqn:Hst; try discriminate.
    + destruct (negb _); [inv_o H; wsimpl; unfold upd; destruct (Nat.eqb u t); congruence|].
      destruct (dl_bad dl); inv_o H; unfold release_all; wsimpl; auto. unfold upd; destruct (Nat.eqb u t); congruence.
    + destruct (is_free _); inv_o H. wsimpl. unfold upd; destruct (Nat.eqb u t); congruence.
  - destruct (find _ _) as [v|] eqn:Hf; inv_o H; auto. wsimpl.
    unfold upd. destruct (Nat.eqb_spec u v) as [->|]; auto. apply wake_ns. 
    apply find_blocked_some in Hf as [Hb _]. destruct (st p v); cbn in Hb; congruence.
  - inv_o H. wsimpl. destruct (blocked_on c (st p u)); auto. now apply wake_ns.
  - destruct (0 <? sem p s); [inv_o H; auto|]. destruct (dl_bad dl); inv_o H. auto.
  - destruct (0 <? sem p s); inv_o H; auto.
  - inv_o H; auto.
  - destruct (st p child) eqn:Hc; inv_o H; auto. wsimpl. unfold upd. destruct (Nat.eqb u child); congruence.
  - destruct (st p child); inv_o H. auto.
Qed.

Lemma upd_ns (f : tid -> tstat) k v u : f u <> TNotStarted -> v <> TNotStarted -> upd f k v u <> TNotStarted.
Proof. intros. unfold upd. destruct (Nat.eqb u k); auto. Qed.

Lemma step_ns w mv u : st (ps w) u <> TNotStarted -> st (ps (step w mv)) u <> TNotStarted.
Proof.
  intros H. destruct mv as [t|t|t|t|n|c]; cbn [step].
  - rewrite ps_clear_mark. destruct (step_run_case w t) as [|Hr Hpc Hs|op rest Hr Hpc Hs|p' Hr Hpc Hp|p' r Hr Hpc Hp].
    + auto.
    + wsimpl. apply upd_ns; congruence.
    + rewrite ps_begin_op. auto.
    + wsimpl. eapply prim_step_ns; eauto. rewrite Hp. reflexivity.
    + rewrite ps_after_return. wsimpl. eapply prim_step_ns; eauto. rewrite Hp. reflexivity.
  - destruct (st (ps w) t) eqn:Hst; auto.
    + destruct (is_sem_wait _); auto; try (rewrite ps_after_return; auto).
    + wsimpl. unfold prim_spurious. rewrite Hst. wsimpl. apply upd_ns; congruence.
  - destruct (st (ps w) t) eqn:Hst; auto.
    + destruct (pc (tc w t)); auto. destruct (_ && _); auto; try (rewrite ps_after_return; auto).
    + wsimpl. unfold prim_timeout. rewrite Hst. destruct dl; auto. destruct (dl_expired _ _); auto. wsimpl. apply upd_ns; congruence.
  - wsimpl. unfold prim_timeout_steal. destruct (st (ps w) t) eqn:Hst; auto. destruct dl; auto. destruct (dl_expired _ _); auto.
    wsimpl. apply upd_ns; congruence.
  - auto.
  - wsimpl. unfold prim_rotate. destruct (cnd (ps w) c); auto.
Qed.

Lemma handle_begin_op w t op rest : handle (begin_op w t op rest) = handle w.
Proof. destruct op; cbn [begin_op]; wsimpl; try destruct (handle w c); reflexivity. Qed.

Lemma begin_pc w t op rest u c : pc (tc (begin_op w t op rest) u) = ThStartRet c -> u <> t /\ pc (tc w u) = ThStartRet c.
Proof.
  destruct (Nat.eq_dec u t) as [->|Hu]; [|rewrite tc_begin_op_other by auto; auto].
  destruct op; cbn [begin_op]; wsimpl; try destruct (handle w c0); wsimpl; rewrite ?upd_same; cbn; discriminate.
Qed.

Lemma ar_pc w t r u c : pc (tc (after_return w t (pc (tc w t)) r) u) = ThStartRet c ->
  (u <> t /\ pc (tc w u) = ThStartRet c) \/ (u = t /\ pc (tc w t) = ThStartP c /\ r = 0).
Proof.
  destruct (Nat.eq_dec u t) as [->|Hu]; [|rewrite tc_after_return_other by auto; auto].
  destruct (pc (tc w t)) eqn:Hpc; cbn [after_return];
    repeat match goal with |- context [if ?b then _ else _] => destruct b eqn:? end;
    wsimpl; rewrite ?upd_same; cbn [pc]; try discriminate; try congruence.
  intros E. inversion E; subst. right. repeat split; auto. now apply Z.eqb_eq.
Qed.

Lemma ar_handle w t r c : handle (after_return w t (pc (tc w t)) r) c = true -> handle w c = true \/ pc (tc w t) = ThStartRet c.
Proof.
  destruct (pc (tc w t)) eqn:Hpc; cbn [after_return];
    repeat match goal with |- context [if ?b then _ else _] => destruct b eqn:? end;
    wsimpl; auto; unfold upd; destruct (Nat.eqb_spec c c0) as [->|]; auto; discriminate.
Qed.

(* the handle of a Thread object is non-null only if the child has been created (pthread_create succeeded): a handle never
   refers to a thread that does not exist *)
Definition HInv (w : world) : Prop :=
  (forall c, handle w c = true -> st (ps w) c <> TNotStarted) /\
  (forall t c, pc (tc w t) = ThStartRet c -> st (ps w) c <> TNotStarted).

Lemma HInv_same w w' : handle w' = handle w -> tc w' = tc w -> (forall u, st (ps w) u <> TNotStarted -> st (ps w') u <> TNotStarted) -> HInv w -> HInv w'.
Proof. intros E1 E2 E3 [A B]. split; [intros c; rewrite E1; auto|intros t c; rewrite E2; eauto]. Qed.

Lemma handle_clear_mark w w' t : handle (clear_mark_on_block w w' t) = handle w'.
Proof. unfold clear_mark_on_block. destruct (_ && _); reflexivity. Qed.

Lemma step_handle w mv c : handle (step w mv) c = true -> handle w c = true \/ exists t, pc (tc w t) = ThStartRet c.
Proof.
  destruct mv as [t|t|t|t|n|k]; cbn [step]; auto.
  - rewrite handle_clear_mark. destruct (step_run_case w t) as [|Hr Hpc Hs|op rest Hr Hpc Hs|p' Hr Hpc Hp|p' r Hr Hpc Hp]; auto.
    + rewrite handle_begin_op. auto.
    + intros Hh. apply (ar_handle (set_ps w p') t r c) in Hh as [Hh|Hh]; eauto.
  - destruct (st (ps w) t); auto. destruct (is_sem_wait _); auto. intros Hh. apply ar_handle in Hh as [Hh|Hh]; eauto.
  - destruct (st (ps w) t); auto. destruct (pc (tc w t)) eqn:Hpc; auto. destruct (_ && _); auto.
Qed.

Lemma step_pc w mv u c : pc (tc (step w mv) u) = ThStartRet c -> pc (tc w u) = ThStartRet c \/ st (ps (step w mv)) c <> TNotStarted.
Proof.
  destruct mv as [t|t|t|t|n|k]; cbn [step]; auto.
  - rewrite tc_clear_mark, ps_clear_mark.
    destruct (step_run_case w t) as [|Hr Hpc Hs|op rest Hr Hpc Hs|p' Hr Hpc Hp|p' r Hr Hpc Hp]; auto.
    + intros Hq. apply begin_pc in Hq as [_ Hq]. auto.
    + intros Hq. apply (ar_pc (set_ps w p') t r u c) in Hq as [[_ Hq]|(-> & Hq & ->)]; auto.
      right. rewrite ps_after_return. wsimpl. rewrite Hq in Hp. cbn [pending] in Hp.
      apply create_ret in Hp as [(_ & _ & ->)|(_ & E & _)]; [wsimpl; rewrite upd_same; discriminate|discriminate].
  - destruct (st (ps w) t); auto. destruct (is_sem_wait _) eqn:Hsw; auto. intros Hq.
    apply ar_pc in Hq as [[_ Hq]|(-> & Hq & _)]; auto. rewrite Hq in Hsw. discriminate.
  - destruct (st (ps w) t); auto. destruct (pc (tc w t)) eqn:Hpc; auto. destruct (_ && _); auto. rewrite <- Hpc. intros Hq.
    apply ar_pc in Hq as [[_ Hq]|(-> & Hq & _)]; auto. rewrite Hq in Hpc. discriminate.
Qed.

Lemma HInv_step w mv : HInv w -> HInv (step w mv).
Proof.
  intros [A B]. pose proof (step_ns w mv) as N. split.
  - intros c Hh. apply step_handle in Hh as [Hh|[t Hq]]; eauto.
  - intros u c Hq. apply step_pc in Hq as [Hq|Hq]; eauto.
Qed.

Lemma HInv_init scripts results started s0 v0 : HInv (init scripts results started s0 v0).
Proof. split; cbn; intros; discriminate. Qed.

Lemma handle_only_for_created_thread_l scripts results started s0 v0 sched c :
  handle (reach scripts results started s0 v0 sched) c = true -> st (ps (reach scripts results started s0 v0 sched)) c <> TNotStarted.
Proof.
  assert (H : HInv (reach scripts results started s0 v0 sched)).
  { unfold reach. apply run_inv; [intros; now apply HInv_step|apply HInv_init]. }
  apply H.
Qed.
