(* SyncFineMark.v - the ghost [mark] across the simulation of SyncFineMain.v.
   [mark w u] = "Monitor::set wrote the flag while u was blocked in its current wait" is the premise of the coarse
   theorem monitor_set_releases_a_waiter.  The state agreement of the simulation leaves it out (it is write-only).
   Here: along the matching of a fine run by a coarse run, every mark of the completed fine state is a mark of the
   coarse state (the converse is false: the coarse machine marks at the return of set()'s lock, the fine machine at
   the later write, and a waiter may have been woken in between).  Under foreign_unlock = false nobody can BLOCK on the
   monitor's condition between the two points, because the setter owns the monitor. *)
From Coq Require Import ZArith List Bool Arith Lia.
From Sync Require Import Sched SyncSpec SyncModel SyncArith SyncInv SyncTrace SyncSignal SyncMonitor SyncTheorems
  SyncFine SyncFineLocal SyncFineSim SyncFineInv SyncFineMain.
Import ListNotations.
Local Open Scope Z_scope.

(* ---------------- primitives: who can become blocked on a condition ---------------- *)
Lemma blocked_upd (f : tid -> tstat) k v c u :
  blocked_on c (upd f k v u) = true -> (u = k /\ blocked_on c v = true) \/ (u <> k /\ blocked_on c (f u) = true).
Proof. unfold upd. destruct (Nat.eqb_spec u k) as [->|]; auto. Qed.

Lemma blocked_wake_inv c rc s : blocked_on c (wake rc s) = true -> False.
Proof. destruct s; cbn; discriminate. Qed.

Lemma return_blocks_nobody p t c p' r cc u : prim_step p t c = Return p' r ->
  blocked_on cc (st p' u) = true -> blocked_on cc (st p u) = true.
Proof.
  destruct c; cbn [prim_step];
    repeat match goal with |- context [match ?x with _ => _ end] => destruct x eqn:? end;
    intros H; inversion H; subst; clear H; cbn [st set_st set_mtx set_cnd set_sem set_sts release release_all]; auto;
    try (unfold acquire in *; repeat match goal with H : context [match ?x with _ => _ end] |- _ => destruct x eqn:?; try discriminate end;
         match goal with H : Some _ = Some _ |- _ => inversion H; subst; clear H end; cbn [st set_mtx]; auto; fail);
    try (unfold release; destruct (m_cnt _) as [|[|?]]; cbn [st set_mtx]; auto; fail).
  all: try (intros Hb; apply blocked_upd in Hb as [[-> Hb]|[_ Hb]]; auto; try discriminate Hb; exfalso; eapply blocked_wake_inv; eauto; fail).
  - intros Hb. destruct (blocked_on c (st p u)) eqn:E; [exfalso; eapply blocked_wake_inv; eauto|exact Hb].
Qed.

Lemma progress_blocks p t c p' cc u : prim_step p t c = Progress p' -> blocked_on cc (st p' u) = true ->
  blocked_on cc (st p u) = true \/ (u = t /\ exists m dl, c = PCondWait cc m dl /\ owned_by (mtx p m) t = true).
Proof.
  intros H Hb. apply prim_step_progress in H as (c' & m & dl & -> & Hs & [(Ho & ->)|(Ho & Hd & ->)]); cbn [st set_st set_cnd release_all set_mtx] in Hb.
  - apply blocked_upd in Hb as [[-> Hb]|[_ Hb]]; [discriminate Hb|auto].
  - apply blocked_upd in Hb as [[-> Hb]|[_ Hb]]; [|auto]. right. split; auto. cbn in Hb. apply Nat.eqb_eq in Hb. subst c'. eauto.
Qed.

Lemma spurious_blocks p t cc u : blocked_on cc (st (prim_spurious p t) u) = true -> blocked_on cc (st p u) = true.
Proof.
  unfold prim_spurious. destruct (st p t) eqn:E; auto. cbn [st set_st set_cnd]. intros Hb.
  apply blocked_upd in Hb as [[-> Hb]|[_ Hb]]; [discriminate Hb|auto].
Qed.
Lemma timeout_blocks p t cc u : blocked_on cc (st (prim_timeout p t) u) = true -> blocked_on cc (st p u) = true.
Proof.
  unfold prim_timeout. destruct (st p t) eqn:E; auto. destruct dl; auto. destruct (dl_expired _ _); auto. cbn [st set_st set_cnd]. intros Hb.
  apply blocked_upd in Hb as [[-> Hb]|[_ Hb]]; [discriminate Hb|auto].
Qed.
Lemma steal_blocks p t cc u : blocked_on cc (st (prim_timeout_steal p t) u) = true -> blocked_on cc (st p u) = true.
Proof.
  unfold prim_timeout_steal. destruct (st p t) eqn:E; auto. destruct dl; auto. destruct (dl_expired _ _); auto. cbn [st set_st]. intros Hb.
  apply blocked_upd in Hb as [[-> Hb]|[_ Hb]]; [discriminate Hb|auto].
Qed.
Lemma rotate_st p c : st (prim_rotate p c) = st p.
Proof. unfold prim_rotate. destruct (cnd p c); reflexivity. Qed.

(* ---------------- one coarse move: who becomes blocked on the monitor's condition ---------------- *)
Lemma step_blocks x mv u : blocked_on MC (st (ps (step x mv)) u) = true ->
  blocked_on MC (st (ps x) u) = true \/
  (mv = Run u /\ exists m dl, pending (pc (tc x u)) = PCondWait MC m dl /\ owned_by (mtx (ps x) m) u = true).
Proof.
  destruct mv as [t|t|t|t|n|c]; cbn [step].
  - rewrite ps_clear_mark, step_run_shape. destruct (negb _); auto.
    destruct (match pc (tc x t) with Idle => true | _ => false end).
    + destruct (script (tc x t)); [|rewrite ps_begin_op; auto]. wsimpl. intros Hb.
      apply blocked_upd in Hb as [[-> Hb]|[_ Hb]]; [discriminate Hb|auto].
    + destruct (prim_step (ps x) t (pending (pc (tc x t)))) as [|p'|p' r] eqn:Hp; auto.
      * wsimpl. intros Hb. destruct (progress_blocks _ _ _ _ _ _ Hp Hb) as [?|(-> & m & dl & E & Ho)]; auto. right. split; auto. eauto.
      * rewrite ps_after_return. wsimpl. intros Hb. left. eapply return_blocks_nobody; eauto.
  - destruct (st (ps x) t); auto.
    + destruct (is_sem_wait _); auto. rewrite ps_after_return. auto.
    + wsimpl. intros Hb. left. eapply spurious_blocks; eauto.
  - destruct (st (ps x) t) eqn:Hst; auto.
    + destruct (pc (tc x t)); auto. destruct (_ && _); auto; rewrite ps_after_return; auto.
    + wsimpl. intros Hb. left. eapply timeout_blocks; eauto.
  - wsimpl. intros Hb. left. eapply steal_blocks; eauto.
  - wsimpl. auto.
  - wsimpl. rewrite rotate_st. auto.
Qed.

(* ---------------- one coarse move: what happens to the marks ---------------- *)
Lemma mark_after_return x t p r : p <> MonSetLock -> mark (after_return x t p r) = mark x.
Proof. intros Hp. destruct p; try congruence; cbn [after_return]; wsimpl; dif; reflexivity. Qed.

Lemma mark_after_set x t r u : mark (after_return x t MonSetLock r) u = mark x u || blocked_on MC (st (ps x) u).
Proof. reflexivity. Qed.

Lemma pcT_eq_MonSetLock p : p = MonSetLock \/ p <> MonSetLock.
Proof. destruct p; try (right; discriminate). left; reflexivity. Qed.

Lemma mark_after_return_mono x t p r u : mark x u = true -> mark (after_return x t p r) u = true.
Proof.
  intros H. destruct (pcT_eq_MonSetLock p) as [->|Hp]; [rewrite mark_after_set, H; reflexivity|rewrite mark_after_return; auto].
Qed.

Lemma mark_begin_op x t op rest : mark (begin_op x t op rest) = mark x.
Proof. destruct op; cbn [begin_op]; wsimpl; try destruct (handle x c); reflexivity. Qed.

Lemma mark_clear_le x x' t u : mark (clear_mark_on_block x x' t) u = true -> mark x' u = true.
Proof.
  unfold clear_mark_on_block. destruct (_ && _); auto. cbn [mark set_marks]. unfold upd. destruct (Nat.eqb u t); [discriminate|auto].
Qed.

(* the mark of u survives unless u itself has just become blocked *)
Definition not_newly (x x' : world) (mv : move) (u : tid) : Prop :=
  blocked_on MC (st (ps x) u) = true \/ blocked_on MC (st (ps x') u) = false \/ mv <> Run u.

Lemma mark_clear_keep x x' t u : mark x' u = true -> not_newly x x' (Run t) u -> mark (clear_mark_on_block x x' t) u = true.
Proof.
  intros H Hn. unfold clear_mark_on_block. destruct (negb _ && _) eqn:E; auto. cbn [mark set_marks]. unfold upd.
  destruct (Nat.eqb_spec u t) as [->|]; auto. apply andb_true_iff in E as [E1 E2]. apply negb_true_iff in E1.
  destruct Hn as [Hn|[Hn|Hn]]; congruence.
Qed.

Lemma mark_clear_newly x x' t u : mark (clear_mark_on_block x x' t) u = true -> not_newly x x' (Run t) u.
Proof.
  unfold clear_mark_on_block, not_newly. destruct (Nat.eq_dec u t) as [->|Hn]; [|intros _; right; right; congruence].
  destruct (blocked_on MC (st (ps x) t)); [auto|]. destruct (blocked_on MC (st (ps x') t)); [|auto].
  cbn [negb andb mark set_marks]. rewrite upd_same. discriminate.
Qed.

Lemma mark_step_run_mono x t u : mark x u = true -> mark (step_run x t) u = true.
Proof.
  intros H. rewrite step_run_shape. destruct (negb _); auto.
  destruct (match pc (tc x t) with Idle => true | _ => false end).
  - destruct (script (tc x t)); [exact H|now rewrite mark_begin_op].
  - destruct (prim_step _ _ _); auto. now apply mark_after_return_mono.
Qed.

(* marks only grow, except that a thread which becomes blocked starts unmarked *)
Lemma mark_step_mono x mv u : mark x u = true -> not_newly x (step x mv) mv u -> mark (step x mv) u = true.
Proof.
  intros H Hn. destruct mv as [t|t|t|t|n|c]; cbn [step] in *.
  - apply mark_clear_keep; [now apply mark_step_run_mono|]. unfold not_newly in *. rewrite ps_clear_mark in Hn. exact Hn.
  - destruct (st (ps x) t); auto. destruct (is_sem_wait _); auto. now apply mark_after_return_mono.
  - destruct (st (ps x) t); auto. destruct (pc (tc x t)); auto. destruct (_ && _); auto; now apply mark_after_return_mono.
  - exact H.
  - exact H.
  - exact H.
Qed.

Lemma mark_step_newly x mv u : mark (step x mv) u = true -> not_newly x (step x mv) mv u.
Proof.
  destruct mv as [t|t|t|t|n|c]; try (intros _; right; right; discriminate).
  cbn [step]. intros H. apply mark_clear_newly in H. unfold not_newly in *. rewrite ps_clear_mark. exact H.
Qed.

(* no move of the list is the return of Monitor::set's lock *)
Definition no_set_ret (x : world) (mv : move) : Prop :=
  forall t, mv = Run t -> runnable (st (ps x) t) = true ->
  forall p' r, prim_step (ps x) t (pending (pc (tc x t))) = Return p' r -> pc (tc x t) <> MonSetLock.

Lemma is_sem_wait_not_set p : is_sem_wait p = true -> p <> MonSetLock.
Proof. destruct p; cbn; congruence. Qed.

Lemma mark_step_le x mv u : no_set_ret x mv -> mark (step x mv) u = true -> mark x u = true.
Proof.
  intros Hns. destruct mv as [t|t|t|t|n|c]; cbn [step]; auto.
  - intros H. apply mark_clear_le in H. revert H. rewrite step_run_shape.
    destruct (negb (runnable (st (ps x) t))) eqn:Hr; auto. apply negb_false_iff in Hr.
    destruct (match pc (tc x t) with Idle => true | _ => false end).
    + destruct (script (tc x t)); [auto|now rewrite mark_begin_op].
    + destruct (prim_step _ _ _) as [|p'|p' r] eqn:Hp; auto.
      rewrite mark_after_return; [auto|]. eapply Hns; eauto.
  - destruct (st (ps x) t); auto. destruct (is_sem_wait _) eqn:E; auto. rewrite mark_after_return; auto. now apply is_sem_wait_not_set.
  - destruct (st (ps x) t); auto. destruct (pc (tc x t)) eqn:E; auto. destruct (_ && _); auto; rewrite mark_after_return; auto; discriminate.
Qed.

(* ---------------- the invariant carried along the simulation ---------------- *)
Definition Inv_mark (fw : fworld) (w : world) : Prop :=
  (forall u, mark (base fw) u = true -> mark w u = true) /\
  (forall m u, fp fw m = FMonWrite -> blocked_on MC (st (ps (base fw)) u) = true -> mark w u = true).

Lemma ps_cwo x o : ps (cwo x o) = ps x.
Proof. destruct o as [[t f]|]; cbn [cwo]; [apply ps_cw|reflexivity]. Qed.
Lemma ps_comp b so mo : ps (comp b so mo) = ps b.
Proof. unfold comp. now rewrite !ps_cwo. Qed.

Lemma tc_cwo_other fw K x o t : pend_spec fw K o -> K <> KNone -> fp fw t = FNone -> tc (cwo x o) t = tc x t.
Proof.
  destruct o as [[s f]|]; cbn [cwo pend_spec]; auto. intros (Hf & Hk & _) HK Ht. rewrite tc_cw.
  destruct (Nat.eqb_spec t s) as [->|]; auto. exfalso. rewrite Ht in Hf. subst f. cbn in Hk. congruence.
Qed.

Lemma R_ps fw w : R fw w -> ps w = ps (base fw).
Proof. intros (so & mo & _ & _ & (A & _) & _). rewrite A. apply ps_comp. Qed.

Lemma R_tc fw w t : R fw w -> fp fw t = FNone -> tc w t = tc (base fw) t.
Proof.
  intros (so & mo & Ps & Pm & (_ & _ & _ & _ & _ & F) & _) Ht. rewrite F. unfold comp.
  rewrite (tc_cwo_other fw KMon _ mo t Pm), (tc_cwo_other fw KSig _ so t Ps); auto; discriminate.
Qed.

Lemma pending_condwait_MC p c m dl : pending p = PCondWait c m dl -> c = MC -> m = MM.
Proof. destruct p; cbn [pending]; intros H; inversion H; subst; auto; intros X; discriminate X. Qed.

Lemma access_point_write p r n : access_point p r n = FMonWrite -> p = MonSetLock.
Proof. destruct p; cbn [access_point]; try discriminate; auto. destruct (_ && _); discriminate. Qed.

Lemma mon_owner fw m : FInv fw -> foreign_unlock fw = false -> fp fw m = FMonWrite -> m_owner (mtx (ps (base fw)) MM) = Some m.
Proof. intros (_ & _ & HL) Hfu Hf. destruct (HL m) as (_ & _ & L3). apply L3; auto. rewrite Hf. reflexivity. Qed.

(* a coarse move of a thread that is not at an access point (and whose call does not return at one), or a scheduler move *)
Lemma coarse_mark fw fw' w mv : FInv fw -> foreign_unlock fw = false ->
  base fw' = step (base fw) mv -> fp fw' = fp fw ->
  (forall t, mv = Run t -> fp fw t = FNone /\ fine_ret (base fw) t = None) ->
  R fw w -> R fw' (step w mv) -> Inv_mark fw w -> Inv_mark fw' (step w mv).
Proof.
  intros HF Hfu Hb Hfp Hmv HR HR' (I1 & I2).
  pose proof (R_ps _ _ HR) as Epw. pose proof (R_ps _ _ HR') as Eps'. rewrite Hb in Eps'.
  assert (Hns : no_set_ret (base fw) mv).
  { intros t -> Hr p' r Hp Hpc. destruct (Hmv t eq_refl) as [_ Hfr]. unfold fine_ret in Hfr. rewrite Hr, Hp, Hpc in Hfr. discriminate Hfr. }
  split.
  - intros u Hm. rewrite Hb in Hm. apply mark_step_mono.
    + apply I1. eapply mark_step_le; eauto.
    + pose proof (mark_step_newly _ _ _ Hm) as Hn. unfold not_newly in *. rewrite Eps', Epw. exact Hn.
  - intros m u Hfm Hbl. rewrite Hfp in Hfm. rewrite Hb in Hbl.
    destruct (step_blocks _ _ _ Hbl) as [Hbb|(-> & m' & dl & Hpend & Hown)].
    + apply mark_step_mono; [eapply I2; eauto|]. left. rewrite Epw. exact Hbb.
    + exfalso. pose proof (pending_condwait_MC _ _ _ _ Hpend eq_refl) as ->.
      unfold owned_by in Hown. rewrite (mon_owner fw m HF Hfu Hfm) in Hown. apply Nat.eqb_eq in Hown. subst m.
      destruct (Hmv u eq_refl) as [Hf _]. congruence.
Qed.

(* an access move *)
Lemma ps_faccess b t f : ps (fst (faccess b t f)) = ps b.
Proof. destruct f; cbn [faccess fst]; dif; cbn [fst]; unfold finish_false_at; wsimpl; reflexivity. Qed.
Lemma mark_faccess b t f : f <> FMonWrite -> mark (fst (faccess b t f)) = mark b.
Proof. intros H. destruct f; try congruence; cbn [faccess fst]; dif; cbn [fst]; unfold finish_false_at; wsimpl; reflexivity. Qed.
Lemma snd_faccess_not_write b t f : snd (faccess b t f) <> FMonWrite.
Proof. destruct f; cbn [faccess snd]; dif; cbn [snd]; discriminate. Qed.

Lemma access_mark fw w t : fp fw t <> FNone -> Inv_mark fw w -> Inv_mark (frun fw t) w.
Proof.
  intros Hne (I1 & I2). rewrite frun_access by exact Hne. split; cbn [base fp].
  - intros u Hm. destruct (fp fw t) eqn:Hf; try (rewrite mark_faccess in Hm by discriminate; auto; fail).
    cbn [faccess fst] in Hm. wsimpl. apply orb_true_iff in Hm as [Hm|Hm]; [auto|eapply I2; eauto].
  - intros m u Hfm Hbl. rewrite ps_faccess in Hbl. destruct (Nat.eq_dec m t) as [->|Hn].
    + rewrite upd_same in Hfm. exfalso. eapply snd_faccess_not_write; eauto.
    + rewrite upd_other in Hfm by exact Hn. eapply I2; eauto.
Qed.

(* a primitive call returns at an access point: the coarse machine performs the access at once *)
Lemma ret_mark fw w t p' f : fp fw t = FNone -> fine_ret (base fw) t = Some (p', f) ->
  R fw w -> Inv_mark fw w -> Inv_mark (frun fw t) (step w (Run t)).
Proof.
  intros Hf Hfr HR (I1 & I2). rewrite (frun_ret fw t p' f Hf Hfr).
  apply fine_ret_some in Hfr as (Hr & r & Hp & -> & Hnn).
  pose proof (R_ps _ _ HR) as Epw. pose proof (R_tc _ _ t HR Hf) as Etc.
  set (b := base fw) in *.
  set (w1 := after_return (set_ps w p') t (pc (tc b t)) r).
  assert (Ew : step w (Run t) = clear_mark_on_block w w1 t).
  { cbn [step]. rewrite step_run_shape, Epw, Etc, Hr, (access_not_idle _ _ _ Hnn), Hp. reflexivity. }
  assert (K : forall u, mark w1 u = true -> mark (step w (Run t)) u = true).
  { intros u Hm. rewrite Ew. apply mark_clear_keep; auto. unfold not_newly, w1. rewrite ps_after_return. wsimpl.
    destruct (blocked_on MC (st p' u)) eqn:E; [left|right; left; reflexivity].
    rewrite Epw. eapply return_blocks_nobody; eauto. }
  assert (K1 : forall u, mark w u = true -> mark w1 u = true).
  { intros u Hm. unfold w1. apply mark_after_return_mono. exact Hm. }
  split; cbn [base fp].
  - intros u Hm. apply mark_clear_le in Hm. apply K, K1, I1. exact Hm.
  - intros m u Hfm Hbl. rewrite ps_clear_mark in Hbl. wsimpl. destruct (Nat.eq_dec m t) as [->|Hn].
    + rewrite upd_same in Hfm. apply access_point_write in Hfm. apply K. unfold w1. rewrite Hfm, mark_after_set. wsimpl.
      rewrite Hbl. apply orb_true_r.
    + rewrite upd_other in Hfm by exact Hn. apply K, K1. eapply I2; eauto. eapply return_blocks_nobody; eauto.
Qed.

Lemma sim_fstep_mark fw w mv : FInv fw -> foreign_unlock (fstep fw mv) = false -> R fw w -> Inv_mark fw w ->
  (R (fstep fw mv) w /\ Inv_mark (fstep fw mv) w) \/ (R (fstep fw mv) (step w mv) /\ Inv_mark (fstep fw mv) (step w mv)).
Proof.
  intros HF Hfu' HR HI. pose proof (foreign_unlock_fstep fw mv Hfu') as Hfu.
  assert (Hnr : (forall t, mv <> Run t) -> R (fstep fw mv) (step w mv) /\ Inv_mark (fstep fw mv) (step w mv)).
  { intros Hmv. rewrite fstep_nonrun by exact Hmv.
    assert (HR' : R (with_base fw (step (base fw) mv)) (step w mv)).
    { apply (sim_coarse fw _ w mv HF Hfu); auto. intros t X. exfalso. eapply Hmv; eauto. }
    split; [exact HR'|]. apply (coarse_mark fw _ w mv HF Hfu); auto. intros t X. exfalso. eapply Hmv; eauto. }
  destruct mv as [t|t|t|t|n|c]; try (right; apply Hnr; intros; discriminate).
  cbn [fstep]. destruct (fp fw t) eqn:Hf;
    try (left; split; [apply sim_access; auto; congruence|apply access_mark; auto; congruence]).
  right. destruct (fine_ret (base fw) t) as [[p' f]|] eqn:Hfr.
  - split; [eapply sim_ret; eauto|eapply ret_mark; eauto].
  - rewrite (frun_coarse fw t Hf Hfr).
    assert (HR' : R {| base := step (base fw) (Run t); fp := fp fw; foreign_unlock := foreign_unlock fw || is_foreign_unlock (base fw) t |} (step w (Run t))).
    { apply (sim_coarse fw _ w (Run t) HF Hfu); auto. intros t' X. inversion X; subst. exact Hf. }
    split; [exact HR'|]. apply (coarse_mark fw _ w (Run t) HF Hfu); auto. intros t' X. inversion X; subst. auto.
Qed.

Lemma Inv_mark_init scripts results started s0 v0 : Inv_mark (finit scripts results started s0 v0) (init scripts results started s0 v0).
Proof. split; [auto|]. intros m u X. discriminate X. Qed.

Lemma fine_simulation_mark scripts results started s0 v0 fsched :
  foreign_unlock (freach scripts results started s0 v0 fsched) = false ->
  exists sched, R (freach scripts results started s0 v0 fsched) (reach scripts results started s0 v0 sched) /\
                Inv_mark (freach scripts results started s0 v0 fsched) (reach scripts results started s0 v0 sched).
Proof.
  induction fsched as [|mv fsched IH] using rev_ind.
  - intros _. exists []. split; [apply R_init|apply Inv_mark_init].
  - unfold freach in *. rewrite frun_all_snoc. intros Hfu.
    destruct (IH (foreign_unlock_fstep _ _ Hfu)) as (sched & HR & HI).
    destruct (sim_fstep_mark _ _ mv (FInv_freach scripts results started s0 v0 fsched) Hfu HR HI) as [H|H].
    + exists sched. exact H.
    + exists (sched ++ [mv]). unfold reach in *. rewrite run_app. exact H.
Qed.

(* the marks of the completed fine state are marks of the matching coarse state *)
Lemma mark_cw x t f u : mark (cw x t f) u = true -> mark x u = true \/ (f = FMonWrite /\ blocked_on MC (st (ps x) u) = true).
Proof.
  destruct f; cbn [cw faccess fst]; dif; cbn [fst]; unfold finish_false_at; wsimpl; auto.
  intros H. apply orb_true_iff in H as [H|H]; auto.
Qed.

Lemma mark_comp_le fw w so mo : pend_spec fw KSig so -> pend_spec fw KMon mo -> Inv_mark fw w ->
  forall u, mark (comp (base fw) so mo) u = true -> mark w u = true.
Proof.
  intros Ps Pm (I1 & I2) u. unfold comp.
  assert (A : mark (cwo (base fw) so) u = true -> mark w u = true).
  { destruct so as [[s fs]|]; cbn [cwo]; auto. intros H. apply mark_cw in H as [H|[-> _]]; auto.
    destruct Ps as (_ & Hk & _). discriminate Hk. }
  destruct mo as [[m fm]|]; cbn [cwo]; auto. intros H. apply mark_cw in H as [H|[-> H]]; auto.
  rewrite ps_cwo in H. destruct Pm as (Hf & _ & _). eapply I2; eauto.
Qed.
