(* SyncFineMain.v - the simulation: every fine run is matched by a coarse run whose state agrees with the
   completion of the fine state and whose history equals the completed fine history up to commuting
   independent events *)
From Coq Require Import ZArith List Bool Arith Lia.
From Sync Require Import Sched SyncSpec SyncModel SyncArith SyncInv SyncTrace SyncSignal SyncMonitor SyncTheorems
  SyncFine SyncFineLocal SyncFineSim SyncFineInv.
Import ListNotations.
Local Open Scope Z_scope.

(* ---- the thread context after a completion ---- *)
Lemma cw_tc_ok sf mf c f : pc_at (pc c) f -> pc_ok (pc c) (cur c) (tstart c) ->
  pc_ok (pc (cw_tc sf mf c f)) (cur (cw_tc sf mf c f)) (tstart (cw_tc sf mf c f)).
Proof.
  intros Ha Hok. destruct f; cbn [cw_tc]; dif; cbn [pc cur tstart with_pc]; auto;
    (eapply pc_ok_next; [exact Ha| |exact Hok]); cbn [next_ok]; auto.
Qed.

Lemma cw_tc_not_sem sf mf c f : pc_at (pc c) f -> f <> FNone -> is_sem_wait (pc (cw_tc sf mf c f)) = false.
Proof.
  intros Ha Hf. destruct f; try congruence; cbn [cw_tc pc_at] in *; dif; cbn [pc with_pc]; try reflexivity;
    repeat match goal with H : _ \/ _ |- _ => destruct H | H : _ /\ _ |- _ => destruct H end; subst; reflexivity.
Qed.

Lemma I1_cw b s fs : I1 b -> pc_at (pc (tc b s)) fs -> I1 (cw b s fs).
Proof.
  intros H1 Ha v. rewrite tc_cw. destruct (Nat.eqb_spec v s) as [->|]; [|apply H1]. apply cw_tc_ok; auto.
Qed.

Lemma cur_ok_of b t f : I1 b -> pc_at (pc (tc b t)) f -> cur_ok (tc b t) f.
Proof.
  intros H1 Ha. pose proof (H1 t) as H. destruct f; cbn [cur_ok pc_at] in *; auto.
  - rewrite Ha in H. destruct dl; cbn [pc_ok] in H; [destruct H as ((ms & ->) & _)|rewrite H]; reflexivity.
  - destruct Ha as (dl & Ha). rewrite Ha in H. destruct dl; cbn [pc_ok] in H; [destruct H as ((ms & ->) & _)|rewrite H]; reflexivity.
Qed.

(* the ghost marks are invisible to [sim] *)
Lemma sim_clear_mark w w' t : sim (clear_mark_on_block w w' t) w'.
Proof.
  split; [|rewrite trace_clear_mark; apply tr_refl].
  unfold agree. rewrite ps_clear_mark, sigf_clear_mark, monf_clear_mark, occ_clear_mark, handle_clear_mark, tc_clear_mark. repeat split; auto.
Qed.

(* ---- what the invariant says about a pending thread ---- *)
Record pend_facts (b : world) (fu : bool) (t : tid) (f : fpc) : Prop := {
  pf_st : st (ps b) t = TRun;
  pf_at : pc_at (pc (tc b t)) f;
  pf_ne : f <> FNone;
  pf_own : fu = false -> owner_of (fclass_of f) (ps b) t }.

Lemma pend_facts_of fw t : FInv fw -> fp fw t <> FNone -> pend_facts (base fw) (foreign_unlock fw) t (fp fw t).
Proof.
  intros (_ & _ & HL) Hne. destruct (HL t) as (L1 & L2 & L3). destruct (L2 Hne) as [A B]. constructor; auto.
  intros Hfu. destruct (fclass_of (fp fw t)) eqn:Hk; cbn [owner_of]; auto. apply L1. left. exact Hk.
Qed.

Definition pend_guard (b : world) (mv : move) (o : option (tid * fpc)) : Prop :=
  match o with None => True | Some (t, f) => pend_facts b false t f /\ mv <> Run t end.

Lemma cwo_sim w c o : sim w c -> sim (cwo w o) (cwo c o).
Proof. destruct o as [[t f]|]; cbn [cwo]; auto. apply cw_sim. Qed.

Lemma step_cwo_commute x o mv :
  I1 x -> pend_guard x mv o ->
  (forall u, mv = Run u -> st_pc_ok (st (ps x) u) (pc (tc x u))) ->
  (forall u t f, mv = Run u -> o = Some (t, f) -> fclass_of f = KSig -> pending (pc (tc x u)) <> PUnlock SM) ->
  sim (step (cwo x o) mv) (cwo (step x mv) o).
Proof.
  intros H1 Hg H2 Hnu. destruct o as [[t f]|]; cbn [cwo]; [|apply sim_refl].
  destruct Hg as [[Hst Hat Hne Hown] Hmv].
  apply step_cw_commute; auto.
  - destruct f; cbn; congruence.
  - eapply pc_at_not_sem; eauto.
  - rewrite tc_cw, Nat.eqb_refl. now apply cw_tc_not_sem.
  - intros u Hu. split; [now apply H2|]. intros Hk. eapply Hnu; eauto.
  - now apply cur_ok_of.
Qed.

Lemma pend_facts_cw b s fs fu m fm : s <> m -> pend_facts b fu m fm -> pend_facts (cw b s fs) fu m fm.
Proof.
  intros Hn H. assert (E : Nat.eqb m s = false) by (apply Nat.eqb_neq; congruence).
  constructor; rewrite ?ps_cw, ?tc_cw, ?E; apply H.
Qed.

Lemma step_comp_commute b so mo mv :
  I1 b -> I2 b -> pend_guard b mv so -> pend_guard b mv mo ->
  (forall s fs, so = Some (s, fs) -> fclass_of fs = KSig) -> (forall m fm, mo = Some (m, fm) -> fclass_of fm = KMon) ->
  (forall s fs m fm, so = Some (s, fs) -> mo = Some (m, fm) -> s <> m) ->
  (forall u, mv = Run u -> so <> None -> pending (pc (tc b u)) <> PUnlock SM) ->
  sim (step (comp b so mo) mv) (comp (step b mv) so mo).
Proof.
  intros H1 H2 Gs Gm Ks Km Hsm Hnu. unfold comp.
  assert (A : sim (step (cwo b so) mv) (cwo (step b mv) so)).
  { apply step_cwo_commute; auto.
    intros u t f Hu Ho _. apply Hnu; auto. congruence. }
  eapply sim_trans; [|apply cwo_sim; exact A].
  destruct mo as [[m fm]|]; [|apply sim_refl].
  apply step_cwo_commute.
  - destruct so as [[s fs]|]; cbn [cwo]; auto. destruct Gs as [[? ? ? ?] _]. now apply I1_cw.
  - destruct so as [[s fs]|]; cbn [cwo pend_guard] in *; auto. destruct Gm as [Gm Hmv]. split; auto.
    apply pend_facts_cw; auto. eapply Hsm; eauto.
  - intros u Hu. destruct so as [[s fs]|]; cbn [cwo]; [|apply H2].
    destruct Gs as [_ Hmv]. assert (E : Nat.eqb u s = false) by (apply Nat.eqb_neq; congruence).
    rewrite ps_cw, tc_cw, E. apply H2.
  - intros u t f Hu Ho Hk. inversion Ho; subst. rewrite (Km _ _ eq_refl) in Hk. discriminate.
Qed.

(* ---- the simulation relation ---- *)
Definition R (fw : fworld) (w : world) : Prop :=
  exists so mo, pend_spec fw KSig so /\ pend_spec fw KMon mo /\ sim w (comp (base fw) so mo).

Lemma pend_spec_fp fw fw' K o : fp fw' = fp fw -> pend_spec fw K o -> pend_spec fw' K o.
Proof. unfold pend_spec. intros ->. auto. Qed.

Lemma pend_spec_hit fw K o t : pend_spec fw K o -> fclass_of (fp fw t) = K -> o = Some (t, fp fw t).
Proof.
  destruct o as [[s fs]|]; cbn [pend_spec].
  - intros (Hf & Hk & Ho) Ht. destruct (Nat.eq_dec t s) as [->|Hn]; [congruence|]. exfalso. eapply Ho; eauto.
  - intros Ho Ht. exfalso. eapply Ho; eauto.
Qed.

Lemma fclass_ne f K : fclass_of f = K -> K <> KNone -> f <> FNone.
Proof. intros H Hn ->. cbn in H. congruence. Qed.

Lemma guard_of fw K o mv : FInv fw -> foreign_unlock fw = false -> K <> KNone -> pend_spec fw K o ->
  (forall t, mv = Run t -> fp fw t = FNone) -> pend_guard (base fw) mv o.
Proof.
  intros HF Hfu HK Hp Hmv. destruct o as [[t f]|]; cbn [pend_guard pend_spec] in *; auto.
  destruct Hp as (Hf & Hk & _). assert (Hne : fp fw t <> FNone) by (rewrite Hf; eapply fclass_ne; eauto).
  split.
  - pose proof (pend_facts_of fw t HF Hne) as X. rewrite Hfu, Hf in X. exact X.
  - intros ->. rewrite (Hmv t eq_refl) in Hne. congruence.
Qed.

Lemma pend_distinct fw s fs m fm : pend_spec fw KSig (Some (s, fs)) -> pend_spec fw KMon (Some (m, fm)) -> s <> m.
Proof. cbn. intros (A & B & _) (C & D & _) ->. congruence. Qed.

(* a coarse move of a thread that is not at an access point, or a scheduler move *)
Lemma sim_coarse fw fw' w mv : FInv fw -> foreign_unlock fw = false ->
  base fw' = step (base fw) mv -> fp fw' = fp fw -> (forall t, mv = Run t -> fp fw t = FNone) ->
  R fw w -> R fw' (step w mv).
Proof.
  intros HF Hfu Hb Hfp Hmv (so & mo & Ps & Pm & Hsim).
  exists so, mo. split; [eapply pend_spec_fp; eauto|split; [eapply pend_spec_fp; eauto|]].
  eapply sim_trans; [apply step_sim; exact Hsim|]. rewrite Hb.
  pose proof HF as (H1 & H2 & HL).
  apply step_comp_commute; auto.
  - eapply guard_of; eauto. discriminate.
  - eapply guard_of; eauto. discriminate.
  - intros s fs ->. apply Ps.
  - intros m fm ->. apply Pm.
  - intros s fs m fm -> ->. eapply pend_distinct; eauto.
  - intros u -> Hso E. destruct so as [[s fs]|]; [|congruence]. clear Hso.
    apply unlock_pc_SM in E. destruct (HL u) as (L1 & _ & _). rewrite (Hmv u eq_refl) in L1.
    assert (Hou : m_owner (mtx (ps (base fw)) SM) = Some u) by (apply L1; right; split; auto).
    destruct Ps as (Hf & Hk & _). destruct (HL s) as (L1s & _ & _).
    assert (Hos : m_owner (mtx (ps (base fw)) SM) = Some s) by (apply L1s; left; congruence).
    assert (u = s) by congruence. subst u. rewrite (Hmv s eq_refl) in Hf. subst fs. discriminate Hk.
Qed.

(* ---- an access move: no coarse move ---- *)
Lemma faccess_sig b t f : fclass_of f = KSig -> faccess b t f = (cw b t f, FNone).
Proof. destruct f; cbn [fclass_of]; try discriminate; intros _; cbn [faccess cw fst]; [reflexivity|]. destruct (sigf b); reflexivity. Qed.

Lemma faccess_mon b t f : fclass_of f = KMon ->
  faccess b t f = (cw b t f, FNone) \/ (exists dl r n, f = FMonRead dl r n /\ monf b = true /\ faccess b t f = (b, FMonClear)).
Proof.
  destruct f; cbn [fclass_of]; try discriminate; intros _; cbn [faccess cw fst]; auto.
  destruct (monf b) eqn:E; [right; eauto 10|left]. destruct (_ && _); reflexivity.
Qed.

Definition with_fp (fw : fworld) (b : world) (t : tid) (f : fpc) : fworld :=
  {| base := b; fp := upd (fp fw) t f; foreign_unlock := foreign_unlock fw |}.

Lemma pend_spec_upd_other fw b t f' K o : pend_spec fw K o -> fclass_of (fp fw t) <> K -> fclass_of f' <> K ->
  pend_spec (with_fp fw b t f') K o.
Proof.
  destruct o as [[s fs]|]; cbn [pend_spec with_fp fp].
  - intros (Hf & Hk & Ho) H1 H2. assert (s <> t) by (intros ->; congruence). rewrite upd_other by auto. repeat split; auto.
    intros u Hu. destruct (Nat.eq_dec u t) as [->|]; [rewrite upd_same; auto|rewrite upd_other by auto; auto].
  - intros Ho H1 H2 u. destruct (Nat.eq_dec u t) as [->|]; [rewrite upd_same; auto|rewrite upd_other by auto; auto].
Qed.

Lemma pend_spec_upd_done fw b t f' K : pend_spec fw K (Some (t, fp fw t)) -> fclass_of f' <> K -> pend_spec (with_fp fw b t f') K None.
Proof.
  cbn [pend_spec with_fp fp]. intros (_ & _ & Ho) H2 u.
  destruct (Nat.eq_dec u t) as [->|]; [rewrite upd_same; auto|rewrite upd_other by auto; auto].
Qed.

Lemma pend_spec_upd_same fw b t f' K : pend_spec fw K (Some (t, fp fw t)) -> fclass_of f' = K -> pend_spec (with_fp fw b t f') K (Some (t, f')).
Proof.
  cbn [pend_spec with_fp fp]. intros (_ & _ & Ho) H2. rewrite upd_same. repeat split; auto.
  intros u Hu. rewrite upd_other by auto. auto.
Qed.

Lemma monf_cwo_sig b so : (forall s fs, so = Some (s, fs) -> fclass_of fs = KSig) -> monf (cwo b so) = monf b.
Proof.
  destruct so as [[s fs]|]; cbn [cwo]; auto. intros H. rewrite monf_cw. apply cw_monf_other. rewrite (H _ _ eq_refl). discriminate.
Qed.

Lemma sim_access fw w t : FInv fw -> fp fw t <> FNone -> R fw w -> R (frun fw t) w.
Proof.
  intros HF Hne (so & mo & Ps & Pm & Hsim). rewrite frun_access by exact Hne.
  pose proof HF as (H1 & H2 & HL).
  destruct (fclass_of (fp fw t)) eqn:Hk; [destruct (fp fw t); try congruence; discriminate Hk| |].
  - (* a Signal access *)
    pose proof (pend_spec_hit _ _ _ t Ps Hk) as ->.
    rewrite (faccess_sig _ _ _ Hk). cbn [fst snd].
    exists None, mo. split; [|split].
    + apply (pend_spec_upd_done fw _ t FNone KSig Ps). discriminate.
    + apply (pend_spec_upd_other fw _ t FNone KMon mo Pm); [congruence|discriminate].
    + exact Hsim.
  - (* a Monitor access *)
    pose proof (pend_spec_hit _ _ _ t Pm Hk) as ->.
    assert (Ks : forall s fs, so = Some (s, fs) -> fclass_of fs = KSig) by (intros s fs ->; apply Ps).
    destruct (faccess_mon (base fw) t _ Hk) as [E|(dl & r & n & Ef & Hm & E)]; rewrite E; cbn [fst snd].
    + exists so, None. split; [|split].
      * apply (pend_spec_upd_other fw _ t FNone KSig so Ps); [congruence|discriminate].
      * apply (pend_spec_upd_done fw _ t FNone KMon Pm). discriminate.
      * destruct so as [[s fs]|]; [|exact Hsim].
        eapply sim_trans; [exact Hsim|]. cbn [comp cwo].
        apply cw_cw_commute; [eapply pend_distinct; eauto|apply Ps|exact Hk|].
        destruct (HL t) as (_ & L2 & _). apply cur_ok_of; auto. apply L2. exact Hne.
    + exists so, (Some (t, FMonClear)). split; [|split].
      * apply (pend_spec_upd_other fw _ t FMonClear KSig so Ps); [congruence|discriminate].
      * apply (pend_spec_upd_same fw _ t FMonClear KMon Pm). reflexivity.
      * rewrite Ef in Hsim. unfold comp in *. cbn [cwo cw] in *. rewrite (monf_cwo_sig _ _ Ks), Hm in Hsim. exact Hsim.
Qed.

(* ---- a primitive call returns at an access point: the coarse machine makes the same move (and performs the access at once) ---- *)
Lemma pend_spec_upd_new fw b t f' K : pend_spec fw K None -> fclass_of f' = K -> pend_spec (with_fp fw b t f') K (Some (t, f')).
Proof.
  cbn [pend_spec with_fp fp]. intros Ho H2. rewrite upd_same. repeat split; auto. intros u Hu. rewrite upd_other by auto. auto.
Qed.

Lemma access_not_idle p r n : is_fnone (access_point p r n) = false -> match p with Idle => true | _ => false end = false.
Proof. destruct p; cbn; auto. Qed.

Lemma step_at_access b t p' r : runnable (st (ps b) t) = true ->
  prim_step (ps b) t (pending (pc (tc b t))) = Return p' r ->
  is_fnone (access_point (pc (tc b t)) r (now p')) = false ->
  sim (step b (Run t)) (cw (set_ps b p') t (access_point (pc (tc b t)) r (now p'))).
Proof.
  intros Hr Hp Hn. cbn [step]. eapply sim_trans; [apply sim_clear_mark|].
  rewrite step_run_shape, Hr, (access_not_idle _ _ _ Hn), Hp. cbn [negb].
  rewrite (after_return_is_cw (set_ps b p') t _ r) by exact Hn. apply sim_refl.
Qed.

Lemma sim_ret fw w t p' f : FInv fw -> foreign_unlock fw = false -> fp fw t = FNone -> fine_ret (base fw) t = Some (p', f) ->
  R fw w -> R (frun fw t) (step w (Run t)).
Proof.
  intros HF Hfu Hf Hfr HR.
  assert (HF' : FInv (frun fw t)) by (apply (FInv_fstep fw (Run t)); exact HF).
  pose proof (frun_ret fw t p' f Hf Hfr) as Efw.
  assert (Hmv : forall t', Run t = Run t' -> fp fw t' = FNone) by (intros t' X; inversion X; subst; exact Hf).
  (* first: the coarse move, commuted below the completions of the other pending threads *)
  pose proof (sim_coarse fw (with_base fw (step (base fw) (Run t))) w (Run t) HF Hfu eq_refl eq_refl Hmv HR) as (so & mo & Ps & Pm & Hsim).
  apply (pend_spec_fp _ fw) in Ps; [|reflexivity]. apply (pend_spec_fp _ fw) in Pm; [|reflexivity]. cbn [with_base base] in Hsim.
  apply fine_ret_some in Hfr as (Hr & r & Hp & -> & Hnn).
  set (f := access_point (pc (tc (base fw) t)) r (now p')) in *.
  set (b' := clear_mark_on_block (base fw) (set_ps (base fw) p') t) in *.
  assert (Hb : sim (step (base fw) (Run t)) (cw b' t f)).
  { eapply sim_trans; [apply step_at_access; eauto|]. apply cw_sim. apply sim_sym. apply sim_clear_mark. }
  assert (Hsim' : sim (step w (Run t)) (comp (cw b' t f) so mo)).
  { eapply sim_trans; [exact Hsim|]. unfold comp. apply cwo_sim, cwo_sim. exact Hb. }
  rewrite Efw. fold b'. change {| base := b'; fp := upd (fp fw) t f; foreign_unlock := foreign_unlock fw |} with (with_fp fw b' t f).
  assert (Hfn : fclass_of (fp fw t) = KNone) by (rewrite Hf; reflexivity).
  rewrite Efw in HF'. fold b' in HF'. change {| base := b'; fp := upd (fp fw) t f; foreign_unlock := foreign_unlock fw |} with (with_fp fw b' t f) in HF'.
  destruct HF' as (H1' & H2' & HL').
  assert (Hsame : forall K u fu0, fclass_of f = K -> K <> KNone -> fp fw u = fu0 -> fclass_of fu0 = K ->
                  owner_of K (ps b') t /\ owner_of K (ps b') u /\ u <> t).
  { intros K u fu0 Kf Kn Eu Ku. assert (Hut : u <> t) by (intros ->; congruence).
    destruct (HL' t) as (A1 & _ & A3). destruct (HL' u) as (B1 & _ & B3).
    cbn [with_fp base fp foreign_unlock] in *. rewrite upd_same in *. rewrite upd_other in * by exact Hut. rewrite Eu in *.
    destruct K; [congruence| |]; cbn [owner_of]; repeat split; auto.
    - apply A1. left. exact Kf.
    - apply B1. left. exact Ku. }
  destruct (fclass_of f) eqn:Kf; [destruct f; try discriminate Kf; discriminate Hnn| |].
  - (* Signal: nobody else is at a Signal access *)
    assert (so = None) as ->.
    { destruct so as [[s fs]|]; auto. exfalso. destruct Ps as (A & B & _).
      destruct (Hsame KSig s fs eq_refl ltac:(discriminate) A B) as (X & Y & Z). cbn [owner_of] in *. congruence. }
    exists (Some (t, f)), mo. split; [|split].
    + now apply pend_spec_upd_new.
    + apply pend_spec_upd_other; auto; congruence.
    + exact Hsim'.
  - assert (mo = None) as ->.
    { destruct mo as [[m fm]|]; auto. exfalso. destruct Pm as (A & B & _).
      destruct (Hsame KMon m fm eq_refl ltac:(discriminate) A B) as (X & Y & Z). cbn [owner_of] in *. congruence. }
    exists so, (Some (t, f)). split; [|split].
    + apply pend_spec_upd_other; auto; congruence.
    + now apply pend_spec_upd_new.
    + destruct so as [[s fs]|]; [|exact Hsim'].
      eapply sim_trans; [exact Hsim'|]. cbn [comp cwo]. apply sim_sym.
      destruct Ps as (A & B & _). assert (Hst : s <> t) by (intros ->; congruence).
      apply cw_cw_commute; auto.
      destruct (HL' t) as (_ & L2 & _). cbn [with_fp base fp] in L2. rewrite upd_same in L2.
      apply cur_ok_of; auto. apply L2. intros X. rewrite X in Kf. discriminate.
Qed.

(* ---- one fine move = zero or one coarse move ---- *)
Lemma sim_fstep fw w mv : FInv fw -> foreign_unlock (fstep fw mv) = false -> R fw w ->
  R (fstep fw mv) w \/ R (fstep fw mv) (step w mv).
Proof.
  intros HF Hfu' HR. pose proof (foreign_unlock_fstep fw mv Hfu') as Hfu.
  assert (Hnr : (forall t, mv <> Run t) -> R (fstep fw mv) (step w mv)).
  { intros Hmv. rewrite fstep_nonrun by exact Hmv.
    apply (sim_coarse fw _ w mv HF Hfu); auto. intros t X. exfalso. eapply Hmv; eauto. }
  destruct mv as [t|t|t|t|n|c]; try (right; apply Hnr; intros; discriminate).
  cbn [fstep]. destruct (fp fw t) eqn:Hf; try (left; apply sim_access; auto; congruence).
  right. destruct (fine_ret (base fw) t) as [[p' f]|] eqn:Hfr; [eapply sim_ret; eauto|].
  rewrite (frun_coarse fw t Hf Hfr).
  apply (sim_coarse fw _ w (Run t) HF Hfu); auto. intros t' X. inversion X; subst. exact Hf.
Qed.

Lemma R_init scripts results started s0 v0 : R (finit scripts results started s0 v0) (init scripts results started s0 v0).
Proof. exists None, None. split; [|split]; [intros t; discriminate|intros t; discriminate|apply sim_refl]. Qed.

Lemma fine_simulation scripts results started s0 v0 fsched :
  foreign_unlock (freach scripts results started s0 v0 fsched) = false ->
  exists sched, R (freach scripts results started s0 v0 fsched) (reach scripts results started s0 v0 sched).
Proof.
  induction fsched as [|mv fsched IH] using rev_ind.
  - intros _. exists []. apply R_init.
  - unfold freach in *. rewrite frun_all_snoc. intros Hfu.
    destruct (IH (foreign_unlock_fstep _ _ Hfu)) as (sched & HR).
    destruct (sim_fstep _ _ mv (FInv_freach scripts results started s0 v0 fsched) Hfu HR) as [H|H].
    + exists sched. exact H.
    + exists (sched ++ [mv]). unfold reach in *. rewrite run_app. exact H.
Qed.

Lemma fine_granularity_adds_no_behaviours_l scripts results started s0 v0 fsched :
  let fw := freach scripts results started s0 v0 fsched in
  foreign_unlock fw = false ->
  exists sched c, let w := reach scripts results started s0 v0 sched in
    complete_of fw c /\ agree w c /\ tr_eq (trace w) (trace c).
Proof.
  intros fw Hfu. destruct (fine_simulation scripts results started s0 v0 fsched Hfu) as (sched & so & mo & Ps & Pm & Ha & Ht).
  exists sched, (comp (base fw) so mo). split; [exists so, mo; auto|split; auto].
Qed.

Lemma fclass_none f : fclass_of f = KNone -> f = FNone.
Proof. destruct f; cbn; congruence. Qed.

Lemma quiescent_complete fw c : quiescent fw -> complete_of fw c -> c = base fw.
Proof.
  intros Hq (so & mo & Ps & Pm & ->).
  destruct so as [[s fs]|]; [destruct Ps as (A & B & _); rewrite (Hq s) in A; subst fs; discriminate B|].
  destruct mo as [[m fm]|]; [destruct Pm as (A & B & _); rewrite (Hq m) in A; subst fm; discriminate B|]. reflexivity.
Qed.

Lemma fine_quiescent_is_coarse_l scripts results started s0 v0 fsched :
  let fw := freach scripts results started s0 v0 fsched in
  foreign_unlock fw = false -> quiescent fw ->
  exists sched, let w := reach scripts results started s0 v0 sched in agree w (base fw) /\ tr_eq (trace w) (trace (base fw)).
Proof.
  intros fw Hfu Hq. destruct (fine_granularity_adds_no_behaviours_l scripts results started s0 v0 fsched Hfu) as (sched & c & Hc & Ha & Ht).
  apply (quiescent_complete _ _ Hq) in Hc. subst c. exists sched. auto.
Qed.
