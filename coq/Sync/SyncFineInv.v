(* SyncFineInv.v - the mutual-exclusion invariant of the fine machine: a thread standing in front of an access to
   Signal::signaled owns SM; a thread standing in front of an access to Monitor::signaled owns MM unless some
   thread has unlocked the monitor while another thread owned it (foreign_unlock) *)
From Coq Require Import ZArith List Bool Arith Lia.
From Sync Require Import Sched SyncSpec SyncModel SyncArith SyncInv SyncTrace SyncSignal SyncMonitor SyncFine SyncFineLocal SyncFineSim.
Import ListNotations.
Local Open Scope Z_scope.

Definition sig_owner_pc (p : pcT) : bool :=
  match p with SigSetBcast | SigSetUnlock | SigResetUnlock | SigWaitUnlock _ => true | _ => false end.
Definition is_sigwaitcond (p : pcT) : bool := match p with SigWaitCond _ => true | _ => false end.

(* the primitive call whose return put the thread in front of access f *)
Definition pc_at (p : pcT) (f : fpc) : Prop :=
  match f with
  | FNone => True
  | FSigWrite b next => (p = SigSetLock /\ b = true /\ next = SigSetBcast) \/ (p = SigResetLock /\ b = false /\ next = SigResetUnlock)
  | FSigRead dl => p = SigWaitLock dl \/ p = SigWaitCond dl
  | FMonRead dl _ _ => p = MonWaitCond dl
  | FMonClear => exists dl, p = MonWaitCond dl
  | FMonWrite => p = MonSetLock
  end.

Definition needs_SM (b : world) (f : fpc) (t : tid) : Prop :=
  fclass_of f = KSig \/
  (f = FNone /\ (sig_owner_pc (pc (tc b t)) = true \/ (is_sigwaitcond (pc (tc b t)) = true /\ st (ps b) t = TRun))).

Definition flocal (fw : fworld) (t : tid) : Prop :=
  (needs_SM (base fw) (fp fw t) t -> m_owner (mtx (ps (base fw)) SM) = Some t) /\
  (fp fw t <> FNone -> st (ps (base fw)) t = TRun /\ pc_at (pc (tc (base fw) t)) (fp fw t)) /\
  (fclass_of (fp fw t) = KMon -> foreign_unlock fw = false -> m_owner (mtx (ps (base fw)) MM) = Some t).

Definition FInv (fw : fworld) : Prop := I1 (base fw) /\ I2 (base fw) /\ forall t, flocal fw t.

(* a thread that does not move *)
Lemma flocal_frame fw fw' u :
  fp fw' u = fp fw u -> tc (base fw') u = tc (base fw) u ->
  (st (ps (base fw')) u = TRun -> st (ps (base fw)) u = TRun \/ pc (tc (base fw) u) = Idle) ->
  (st (ps (base fw)) u = TRun -> st (ps (base fw')) u = TRun) ->
  (m_owner (mtx (ps (base fw)) SM) = Some u -> mtx (ps (base fw')) SM = mtx (ps (base fw)) SM) ->
  (m_owner (mtx (ps (base fw)) MM) = Some u -> foreign_unlock fw' = false -> mtx (ps (base fw')) MM = mtx (ps (base fw)) MM) ->
  (foreign_unlock fw' = false -> foreign_unlock fw = false) ->
  flocal fw u -> flocal fw' u.
Proof.
  intros Hfp Htc Hst Hst' Hsm Hmm Hfu (L1 & L2 & L3). unfold flocal. rewrite Hfp, Htc. split; [|split].
  - intros Hn. assert (Hn' : needs_SM (base fw) (fp fw u) u).
    { destruct Hn as [Hn|(Hf & [Hn|(Hn & Hs)])]; [left; exact Hn|right; split; auto; left; rewrite <- Htc; exact Hn|].
      rewrite Htc in Hn. right. split; auto. right. split; auto.
      destruct (Hst Hs) as [Hs'|Hi]; [exact Hs'|]. rewrite Hi in Hn. discriminate. }
    specialize (L1 Hn'). rewrite (Hsm L1). exact L1.
  - intros Hf. destruct (L2 Hf) as [S1 S2]. split; [now apply Hst'|exact S2].
  - intros HK Hfu'. pose proof (L3 HK (Hfu Hfu')) as Ho. rewrite (Hmm Ho Hfu'). exact Ho.
Qed.

(* ---- scheduler moves other than Run ---- *)
Lemma nonrun_shape b mv : (forall t, mv <> Run t) ->
  (tc (step b mv) = tc b /\ mtx (ps (step b mv)) = mtx (ps b) /\ forall u, (st (ps (step b mv)) u = TRun <-> st (ps b) u = TRun)) \/
  (exists u r, st (ps b) u = TRun /\ is_sem_wait (pc (tc b u)) = true /\ step b mv = after_return b u (pc (tc b u)) r).
Proof.
  intros Hmv. destruct mv as [t|t|t|t|n|c]; cbn [step]; [exfalso; eapply Hmv; eauto| | | | |].
  - destruct (st (ps b) t) eqn:Hst; try (left; repeat split; auto; fail).
    + destruct (is_sem_wait (pc (tc b t))) eqn:Hs; [right; eauto 6|left; repeat split; auto].
    + left. wsimpl. unfold prim_spurious. rewrite Hst. wsimpl. repeat split; auto;
        destruct (Nat.eq_dec u t) as [->|]; upd_simpl; auto; rewrite ?Hst; intros; discriminate.
  - destruct (st (ps b) t) eqn:Hst; try (left; repeat split; auto; fail).
    + destruct (pc (tc b t)) eqn:Hpc; try (left; repeat split; auto; fail).
      destruct (_ && _); [|left; repeat split; auto]. right. exists t, ETIMEDOUT. rewrite Hpc. auto.
    + left. wsimpl. unfold prim_timeout. rewrite Hst. destruct dl as [d|]; [|repeat split; auto].
      destruct (dl_expired d _); [|repeat split; auto]. wsimpl. repeat split; auto;
        destruct (Nat.eq_dec u t) as [->|]; upd_simpl; auto; rewrite ?Hst; intros; discriminate.
  - left. wsimpl. destruct (steal_shape (ps b) t) as [->|(m & rc & d & Hs & _ & ->)]; [repeat split; auto|].
    wsimpl. repeat split; auto; destruct (Nat.eq_dec u t) as [->|]; upd_simpl; auto; rewrite ?Hs; intros; discriminate.
  - left. wsimpl. repeat split; auto.
  - left. wsimpl. unfold prim_rotate. destruct (cnd (ps b) c); wsimpl; repeat split; auto.
Qed.

Lemma sem_after_pc b v r : is_sem_wait (pc (tc b v)) = true ->
  pc (tc (after_return b v (pc (tc b v)) r) v) = Idle \/ pc (tc (after_return b v (pc (tc b v)) r) v) = pc (tc b v).
Proof.
  destruct (pc (tc b v)) eqn:Hpc; try discriminate; intros _; cbn [after_return]; wsimpl; dif; wsimpl; upd_simpl; wsimpl; auto.
Qed.

Lemma pc_at_not_sem p f : f <> FNone -> pc_at p f -> is_sem_wait p = false.
Proof.
  destruct f; cbn [pc_at]; try congruence; intros _ H;
    repeat match goal with H : _ \/ _ |- _ => destruct H | H : _ /\ _ |- _ => destruct H | H : exists _, _ |- _ => destruct H end; subst; reflexivity.
Qed.

Definition with_base (fw : fworld) (b : world) : fworld := {| base := b; fp := fp fw; foreign_unlock := foreign_unlock fw |}.

Lemma fstep_nonrun fw mv : (forall t, mv <> Run t) -> fstep fw mv = with_base fw (step (base fw) mv).
Proof. intros H. destruct mv; try reflexivity. exfalso. eapply H; eauto. Qed.

Lemma FInv_nonrun fw mv : (forall t, mv <> Run t) -> FInv fw -> FInv (fstep fw mv).
Proof.
  intros Hmv (H1 & H2 & HL). rewrite fstep_nonrun by exact Hmv. unfold FInv, with_base. cbn [base].
  split; [now apply I1_step|split; [now apply I2_step|]]. intros u.
  destruct (nonrun_shape (base fw) mv Hmv) as [(Htc & Hmtx & Hst)|(v & r & Hs & Hsw & E)].
  - apply flocal_frame with (fw := fw); cbn [base fp foreign_unlock]; auto; try (rewrite Htc; reflexivity); try (rewrite Hmtx; reflexivity).
    + intros X. left. now apply Hst.
    + intros X. now apply Hst.
  - rewrite E. destruct (Nat.eq_dec u v) as [->|Hn].
    + destruct (HL v) as (L1 & L2 & L3).
      assert (Hf : fp fw v = FNone).
      { destruct (fp fw v) eqn:Hf; auto; exfalso; (destruct L2 as [_ L2]; [discriminate|]);
          apply pc_at_not_sem in L2; try discriminate; congruence. }
      unfold flocal. cbn [base fp foreign_unlock]. rewrite Hf. split; [|split]; try (cbn; intros; congruence).
      intros [Hk|(_ & Hn)]; [discriminate Hk|]. exfalso.
      destruct (sem_after_pc (base fw) v r Hsw) as [Hp|Hp]; rewrite Hp in Hn.
      * destruct Hn as [Hn|[Hn _]]; discriminate.
      * destruct (pc (tc (base fw) v)); try discriminate Hsw; destruct Hn as [Hn|[Hn _]]; discriminate.
    + apply flocal_frame with (fw := fw); cbn [base fp foreign_unlock]; auto; rewrite ?ps_after_return; auto.
      now apply tc_after_return_other.
Qed.

(* ---- an access move ---- *)
Definition next_ok (f : fpc) (p' : pcT) : Prop :=
  match f with
  | FNone => False
  | FSigWrite _ next => p' = next
  | FSigRead dl => p' = SigWaitUnlock true \/ p' = SigWaitCond dl
  | FMonRead dl _ _ => p' = Idle \/ p' = MonWaitCond dl
  | FMonClear => p' = Idle
  | FMonWrite => p' = MonSetUnlock
  end.

Lemma faccess_shape b t f : f <> FNone ->
  exists w' f', faccess b t f = (w', f') /\ ps w' = ps b /\ (forall u, u <> t -> tc w' u = tc b u) /\
    ((f' = FNone /\ exists p', tc w' t = with_pc (tc b t) p' /\ next_ok f p') \/
     (f' = FMonClear /\ w' = b /\ exists dl r n, f = FMonRead dl r n)).
Proof.
  intros Hf. destruct f; [congruence|..]; cbn [faccess next_ok].
  - eexists _, _; split; [reflexivity|]; wsimpl. repeat split; auto; [intros; now rewrite upd_other|left; split; auto; eexists; rewrite upd_same; eauto].
  - destruct (sigf b); (eexists _, _; split; [reflexivity|]; wsimpl; repeat split; auto; [intros; now rewrite upd_other|left; split; auto; eexists; rewrite upd_same; eauto]).
  - destruct (monf b); [eexists _, _; split; [reflexivity|]; repeat split; auto; right; eauto 10|].
    destruct (_ && _); (eexists _, _; split; [reflexivity|]; wsimpl; repeat split; auto; [intros; now rewrite upd_other|left; split; auto; eexists; rewrite upd_same; eauto]).
  - eexists _, _; split; [reflexivity|]; wsimpl. repeat split; auto; [intros; now rewrite upd_other|left; split; auto; eexists; rewrite upd_same; eauto].
  - eexists _, _; split; [reflexivity|]; wsimpl. repeat split; auto; [intros; now rewrite upd_other|left; split; auto; eexists; rewrite upd_same; eauto].
Qed.

Lemma pc_ok_next p f p' c ts : pc_at p f -> next_ok f p' -> pc_ok p c ts -> pc_ok p' c ts.
Proof.
  destruct f; cbn [pc_at next_ok]; intros Ha Hn Hok; try contradiction;
    repeat match goal with H : _ \/ _ |- _ => destruct H | H : _ /\ _ |- _ => destruct H | H : exists _, _ |- _ => destruct H end; subst;
    cbn [pc_ok] in *; auto; try (destruct dl; cbn [pc_ok] in *; auto; subst; try reflexivity;
    repeat match goal with H : _ /\ _ |- _ => destruct H | H : exists _, _ |- _ => destruct H end; subst; reflexivity).
Qed.

Lemma next_needs_sig p f p' : pc_at p f -> next_ok f p' -> sig_owner_pc p' = true \/ is_sigwaitcond p' = true -> fclass_of f = KSig.
Proof.
  destruct f; cbn [pc_at next_ok fclass_of]; intros Ha Hn Hs; try contradiction; try reflexivity; exfalso;
    repeat match goal with H : _ \/ _ |- _ => destruct H | H : _ /\ _ |- _ => destruct H end; subst; discriminate.
Qed.

Lemma frun_access fw t : fp fw t <> FNone ->
  frun fw t = {| base := fst (faccess (base fw) t (fp fw t)); fp := upd (fp fw) t (snd (faccess (base fw) t (fp fw t)));
                 foreign_unlock := foreign_unlock fw |}.
Proof. intros H. unfold frun. destruct (fp fw t); [congruence|..]; reflexivity. Qed.

Lemma FInv_access fw t : fp fw t <> FNone -> FInv fw -> FInv (frun fw t).
Proof.
  intros Hne (H1 & H2 & HL). rewrite frun_access by exact Hne.
  destruct (HL t) as (L1 & L2 & L3). destruct (L2 Hne) as [Hst Hpc].
  destruct (faccess_shape (base fw) t (fp fw t) Hne) as (w' & f' & E & Eps & Etc & Hcase). rewrite E. cbn [fst snd].
  unfold FInv. cbn [base].
  assert (Hother : forall u, u <> t -> flocal {| base := w'; fp := upd (fp fw) t f'; foreign_unlock := foreign_unlock fw |} u).
  { intros u Hu. apply flocal_frame with (fw := fw); cbn [base fp foreign_unlock]; auto; rewrite ?Eps; auto. now apply upd_other. }
  destruct Hcase as [(-> & p' & Et & Hn)|(-> & -> & dl & r & n & Ef)].
  - split; [|split].
    + intros u. destruct (Nat.eq_dec u t) as [->|Hu]; [|rewrite Etc by exact Hu; apply H1].
      rewrite Et. cbn [pc cur tstart with_pc]. eapply pc_ok_next; eauto.
    + intros u. rewrite Eps. destruct (Nat.eq_dec u t) as [->|Hu]; [rewrite Hst; exact I|rewrite Etc by exact Hu; apply H2].
    + intros u. destruct (Nat.eq_dec u t) as [->|Hu]; [|now apply Hother].
      unfold flocal. cbn [base fp foreign_unlock]. rewrite upd_same, Eps, Et. cbn [pc with_pc].
      split; [|split; cbn; intros; congruence].
      intros [Hk|(_ & Hs)]; [discriminate Hk|]. apply L1. left.
      eapply next_needs_sig; eauto. destruct Hs as [Hs|[Hs _]]; rewrite Et in Hs; cbn [pc with_pc] in Hs; auto.
  - split; [exact H1|split; [exact H2|]].
    intros u. destruct (Nat.eq_dec u t) as [->|Hu]; [|now apply Hother].
    unfold flocal. cbn [base fp foreign_unlock]. rewrite upd_same. rewrite Ef in *. cbn [pc_at fclass_of] in *.
    split; [|split].
    + intros [Hk|(Hk & _)]; discriminate Hk.
    + intros _. split; eauto.
    + exact L3.
Qed.

(* ---- what a primitive step of t does to another thread ---- *)
Lemma prim_other b t p' u : I2 b -> runnable (st (ps b) t) = true ->
  outcome_state (prim_step (ps b) t (pending (pc (tc b t)))) = Some p' -> u <> t ->
  (st p' u = TRun -> st (ps b) u = TRun \/ pc (tc b u) = Idle) /\
  (st (ps b) u = TRun -> st p' u = TRun) /\
  (forall m, m_owner (mtx (ps b) m) = Some u -> pending (pc (tc b t)) <> PUnlock m -> mtx p' m = mtx (ps b) m).
Proof.
  intros H2 Hr Hp Hu.
  assert (Hev : st_evolves (st (ps b) u) (st p' u)) by (eapply prim_step_st_other; eauto; now apply runnable_not_ns).
  split; [|split].
  - intros Hs. eapply st_evolves_run; eauto.
  - intros Hs. destruct Hev as [E|[(c & m & dl & E & _)|[E _]]]; congruence.
  - intros m Ho Hne. eapply prim_step_foreign_owner; eauto.
Qed.

Lemma fine_ret_some b t p' f : fine_ret b t = Some (p', f) ->
  runnable (st (ps b) t) = true /\ exists r, prim_step (ps b) t (pending (pc (tc b t))) = Return p' r /\
    f = access_point (pc (tc b t)) r (now p') /\ is_fnone f = false.
Proof.
  unfold fine_ret. destruct (runnable _); [|discriminate]. destruct (prim_step _ _ _) as [| |q r]; try discriminate.
  destruct (is_fnone _) eqn:E; [discriminate|]. intros X. inversion X; subst. eauto.
Qed.

Lemma fine_ret_none b t p' r : fine_ret b t = None -> runnable (st (ps b) t) = true ->
  prim_step (ps b) t (pending (pc (tc b t))) = Return p' r -> is_fnone (access_point (pc (tc b t)) r (now p')) = true.
Proof.
  unfold fine_ret. intros H Hr Hp. rewrite Hr, Hp in H. destruct (is_fnone _); [reflexivity|discriminate].
Qed.

Lemma access_point_facts p r n : is_fnone (access_point p r n) = false ->
  pc_at p (access_point p r n) /\
  ((fclass_of (access_point p r n) = KSig /\ (pending p = PLock SM \/ exists dl, pending p = PCondWait SC SM dl)) \/
   (fclass_of (access_point p r n) = KMon /\ (pending p = PLock MM \/ exists dl, pending p = PCondWait MC MM dl))).
Proof.
  destruct p; cbn [access_point is_fnone]; try discriminate; try (destruct (timed dl && negb (r =? 0)); try discriminate);
    intros _; cbn [pc_at fclass_of pending]; split; eauto 10.
Qed.

Lemma lock_owner p t m p' r : prim_step p t (PLock m) = Return p' r -> m_owner (mtx p' m) = Some t.
Proof. intros H. apply lock_ret in H as (_ & k & -> & _). wsimpl. rewrite upd_same. reflexivity. Qed.

Lemma condwait_owner p t c m dl p' r q : prim_step p t (PCondWait c m dl) = Return p' r ->
  st_pc_ok (st p t) q -> pending q = PCondWait c m dl -> m_owner (mtx p' m) = Some t.
Proof.
  intros H Hs Hq. apply condwait_ret in H as [(_ & Ho & _ & _ & ->)|(m' & dl' & Hst & _ & ->)].
  - unfold owned_by in Ho. destruct (m_owner (mtx p m)) as [o|]; [|discriminate]. apply Nat.eqb_eq in Ho. now subst.
  - rewrite Hst in Hs. cbn in Hs. destruct Hs as (c0 & Hs). rewrite Hq in Hs. inversion Hs; subst. wsimpl. rewrite upd_same. reflexivity.
Qed.

(* ---- a primitive call returns at an access point ---- *)
Lemma frun_ret fw t p' f : fp fw t = FNone -> fine_ret (base fw) t = Some (p', f) ->
  frun fw t = {| base := clear_mark_on_block (base fw) (set_ps (base fw) p') t; fp := upd (fp fw) t f; foreign_unlock := foreign_unlock fw |}.
Proof. intros H1 H2. unfold frun. rewrite H1, H2. reflexivity. Qed.

Lemma FInv_ret fw t p' f : fp fw t = FNone -> fine_ret (base fw) t = Some (p', f) -> FInv fw -> FInv (frun fw t).
Proof.
  intros Hf Hfr (H1 & H2 & HL). rewrite (frun_ret fw t p' f Hf Hfr).
  apply fine_ret_some in Hfr as (Hr & r & Hp & -> & Hnn).
  destruct (access_point_facts _ _ _ Hnn) as [Hat Hcl].
  assert (Hself : st p' t = TRun) by (eapply prim_step_st_self_return; eauto; now apply I2_self_ok).
  assert (Hos : outcome_state (prim_step (ps (base fw)) t (pending (pc (tc (base fw) t)))) = Some p') by (rewrite Hp; reflexivity).
  unfold FInv. cbn [base]. split; [|split].
  - apply (I1_tc (base fw)); [now rewrite tc_clear_mark|exact H1].
  - intros u. rewrite ps_clear_mark, tc_clear_mark. wsimpl. destruct (Nat.eq_dec u t) as [->|Hu]; [rewrite Hself; exact I|].
    eapply st_pc_ok_evolves; [|apply H2]. eapply prim_step_st_other; eauto. now apply runnable_not_ns.
  - intros u. destruct (Nat.eq_dec u t) as [->|Hu].
    + unfold flocal. cbn [base fp foreign_unlock]. rewrite upd_same, ps_clear_mark, tc_clear_mark. wsimpl.
      assert (Hown : forall m c, (pending (pc (tc (base fw) t)) = PLock m \/ exists dl, pending (pc (tc (base fw) t)) = PCondWait c m dl) ->
                     m_owner (mtx p' m) = Some t).
      { intros m c [E|(dl & E)]; rewrite E in Hp; [eapply lock_owner; eauto|eapply condwait_owner; eauto; apply H2]. }
      split; [|split].
      * intros Hn. destruct Hcl as [(_ & Hc)|(Hk & _)]; [eapply Hown; eauto|].
        exfalso. destruct Hn as [Hn|(Hn & _)]; [congruence|rewrite Hn in Hnn; discriminate].
      * intros _. split; auto.
      * intros Hk _. destruct Hcl as [(Hk' & _)|(_ & Hc)]; [congruence|eapply Hown; eauto].
    + destruct (prim_other (base fw) t p' u H2 Hr Hos Hu) as (P1 & P2 & P3).
      apply flocal_frame with (fw := fw); cbn [base fp foreign_unlock]; rewrite ?ps_clear_mark, ?tc_clear_mark; wsimpl; auto.
      * now apply upd_other.
      * intros Ho. apply P3; auto. destruct Hcl as [(_ & [E|(dl & E)])|(_ & [E|(dl & E)])]; rewrite E; discriminate.
      * intros Ho _. apply P3; auto. destruct Hcl as [(_ & [E|(dl & E)])|(_ & [E|(dl & E)])]; rewrite E; discriminate.
Qed.

(* ---- a coarse Run move of a thread that is not at an access point ---- *)
Lemma after_return_sig_pc w t p r n : p <> Idle -> is_fnone (access_point p r n) = true -> pc (tc w t) = p ->
  sig_owner_pc (pc (tc (after_return w t p r) t)) = true \/ is_sigwaitcond (pc (tc (after_return w t p r) t)) = true ->
  p = SigSetBcast \/ exists dl, p = SigWaitCond dl.
Proof.
  intros Hi Hn Hp. destruct p; cbn [access_point is_fnone] in Hn; try discriminate Hn; try congruence; eauto;
    cbn [after_return]; wsimpl; dif; wsimpl; rewrite ?upd_same; cbn [pc with_pc]; rewrite ?Hp; cbn [sig_owner_pc is_sigwaitcond];
    intros [X|X]; discriminate X.
Qed.

Lemma frun_coarse fw t : fp fw t = FNone -> fine_ret (base fw) t = None ->
  frun fw t = {| base := step (base fw) (Run t); fp := fp fw; foreign_unlock := foreign_unlock fw || is_foreign_unlock (base fw) t |}.
Proof. intros H1 H2. unfold frun. rewrite H1, H2. reflexivity. Qed.

Lemma unlock_pc_SM p : pending p = PUnlock SM -> sig_owner_pc p = true.
Proof. destruct p; cbn; intros H; try discriminate H; try reflexivity; inversion H. Qed.

Lemma unlock_pc_MM p : pending p = PUnlock MM -> p = MonUnlockP \/ p = MonSetUnlock.
Proof. destruct p; cbn; intros H; try discriminate H; auto; inversion H. Qed.

Lemma flocal_ext fw fw' u : ps (base fw') = ps (base fw) -> tc (base fw') = tc (base fw) -> fp fw' = fp fw ->
  foreign_unlock fw' = foreign_unlock fw -> flocal fw u -> flocal fw' u.
Proof. unfold flocal, needs_SM. intros -> -> -> ->. auto. Qed.

Lemma begin_op_pc w t op rest : sig_owner_pc (pc (tc (begin_op w t op rest) t)) = false /\ is_sigwaitcond (pc (tc (begin_op w t op rest) t)) = false.
Proof. destruct op; cbn [begin_op]; wsimpl; try destruct (handle w c); wsimpl; rewrite ?upd_same; cbn; auto. Qed.

Lemma FInv_coarse fw t : fp fw t = FNone -> fine_ret (base fw) t = None -> FInv fw -> FInv (frun fw t).
Proof.
  intros Hf Hfr (H1 & H2 & HL). rewrite (frun_coarse fw t Hf Hfr).
  unfold FInv. cbn [base]. split; [now apply I1_step|split; [now apply I2_step|]]. intros u.
  set (fu' := foreign_unlock fw || is_foreign_unlock (base fw) t).
  assert (Hfu : fu' = false -> foreign_unlock fw = false) by (unfold fu'; intros X; apply orb_false_elim in X; tauto).
  cbn [step].
  apply flocal_ext with (fw := {| base := step_run (base fw) t; fp := fp fw; foreign_unlock := fu' |}); cbn [base fp foreign_unlock];
    [apply ps_clear_mark|apply tc_clear_mark|reflexivity|reflexivity|].
  (* the mover, when it ends at a program point that needs no mutex *)
  assert (Hme : forall w', (sig_owner_pc (pc (tc w' t)) = false /\ is_sigwaitcond (pc (tc w' t)) = false) \/
                           (is_sigwaitcond (pc (tc w' t)) = true /\ st (ps w') t <> TRun) ->
                flocal {| base := w'; fp := fp fw; foreign_unlock := fu' |} t).
  { intros w' Hw. unfold flocal. cbn [base fp foreign_unlock]. rewrite Hf. split; [|split]; try (cbn; intros; congruence).
    intros [Hk|(_ & [Hn|[Hn Hs]])]; [discriminate Hk| |]; destruct Hw as [[A B]|[A B]]; try congruence.
    destruct (pc (tc w' t)); discriminate. }
  destruct (step_run_case (base fw) t) as [|Hr Hpc Hs|op rest Hr Hpc Hs|p' Hr Hpc Hp|p' r Hr Hpc Hp].
  - apply flocal_frame with (fw := fw); cbn [base fp foreign_unlock]; auto.
  - destruct (Nat.eq_dec u t) as [->|Hu].
    + apply Hme. wsimpl. rewrite Hpc. auto.
    + apply flocal_frame with (fw := fw); cbn [base fp foreign_unlock]; wsimpl; auto; rewrite ?upd_other by exact Hu; auto.
  - destruct (Nat.eq_dec u t) as [->|Hu].
    + apply Hme. left. apply begin_op_pc.
    + apply flocal_frame with (fw := fw); cbn [base fp foreign_unlock]; rewrite ?ps_begin_op; auto. now apply tc_begin_op_other.
  - assert (Hos : outcome_state (prim_step (ps (base fw)) t (pending (pc (tc (base fw) t)))) = Some p') by (rewrite Hp; reflexivity).
    destruct (prim_step_progress _ _ _ _ Hp) as (c' & m & dl & Hc & Hst & Hcase).
    destruct (Nat.eq_dec u t) as [->|Hu].
    + apply Hme. wsimpl. apply cond_pc_shape in Hc as [(E & _)|(E & _)]; rewrite E; [right|left; auto].
      split; auto. destruct Hcase as [(_ & ->)|(_ & _ & ->)]; wsimpl; rewrite upd_same; discriminate.
    + destruct (prim_other (base fw) t p' u H2 Hr Hos Hu) as (P1 & P2 & P3).
      apply flocal_frame with (fw := fw); cbn [base fp foreign_unlock]; wsimpl; auto.
      * intros Ho. apply P3; auto. rewrite Hc. discriminate.
      * intros Ho _. apply P3; auto. rewrite Hc. discriminate.
  - assert (Hos : outcome_state (prim_step (ps (base fw)) t (pending (pc (tc (base fw) t)))) = Some p') by (rewrite Hp; reflexivity).
    pose proof (fine_ret_none _ _ _ _ Hfr Hr Hp) as Hnn.
    destruct (HL t) as (T1 & _ & _). rewrite Hf in T1.
    destruct (Nat.eq_dec u t) as [->|Hu].
    + unfold flocal. cbn [base fp foreign_unlock]. rewrite Hf, ps_after_return. wsimpl.
      split; [|split]; try (cbn; intros; congruence).
      intros [Hk|(_ & Hn)]; [discriminate Hk|].
      assert (Hn' : sig_owner_pc (pc (tc (after_return (set_ps (base fw) p') t (pc (tc (base fw) t)) r) t)) = true \/
                    is_sigwaitcond (pc (tc (after_return (set_ps (base fw) p') t (pc (tc (base fw) t)) r) t)) = true) by tauto.
      apply (after_return_sig_pc (set_ps (base fw) p') t _ r (now p') Hpc Hnn eq_refl) in Hn' as [E|(dl & E)].
      * rewrite E in Hp. prim_inv Hp. subst p'. wsimpl. apply T1. right. split; auto. left. rewrite E. reflexivity.
      * pose proof Hp as Hp'. rewrite E in Hp'. cbn [pending] in Hp'.
        apply (condwait_owner _ _ _ _ _ _ _ (pc (tc (base fw) t)) Hp'); [apply H2|rewrite E; reflexivity].
    + destruct (prim_other (base fw) t p' u H2 Hr Hos Hu) as (P1 & P2 & P3).
      apply flocal_frame with (fw := fw); cbn [base fp foreign_unlock]; rewrite ?ps_after_return; wsimpl; auto.
      * rewrite tc_after_return_other by exact Hu. reflexivity.
      * intros Ho. apply P3; auto. intros E. apply unlock_pc_SM in E.
        assert (X : m_owner (mtx (ps (base fw)) SM) = Some t) by (apply T1; right; split; auto).
        congruence.
      * intros Ho Hfu'. apply P3; auto. intros E. apply unlock_pc_MM in E.
        unfold fu' in Hfu'. apply orb_false_elim in Hfu' as [_ X]. unfold is_foreign_unlock in X. rewrite Hr, Ho in X.
        assert (Hut : Nat.eqb u t = false) by (now apply Nat.eqb_neq).
        destruct E as [E|E]; rewrite E, Hut in X; discriminate X.
Qed.

(* ---- the invariant holds in every fine-reachable state ---- *)
Lemma FInv_fstep fw mv : FInv fw -> FInv (fstep fw mv).
Proof.
  intros H. destruct mv as [t|t|t|t|n|c]; try (apply FInv_nonrun; [intros; discriminate|exact H]).
  cbn [fstep]. destruct (fp fw t) eqn:Hf; try (apply FInv_access; [congruence|exact H]).
  destruct (fine_ret (base fw) t) as [[p' f]|] eqn:Hfr; [eapply FInv_ret; eauto|now apply FInv_coarse].
Qed.

Lemma FInv_init scripts results started s0 v0 : FInv (finit scripts results started s0 v0).
Proof.
  unfold FInv, finit. cbn [base]. split; [|split].
  - intros t. cbn. exact I.
  - intros t. cbn. destruct (started t); cbn; auto.
  - intros t. unfold flocal, needs_SM. cbn. split; [|split]; try congruence.
    intros [X|(_ & [X|[X _]])]; discriminate X.
Qed.

Lemma frun_all_inv (P : fworld -> Prop) : (forall fw mv, P fw -> P (fstep fw mv)) -> forall sched fw, P fw -> P (frun_all fw sched).
Proof. intros Hs sched. unfold frun_all. induction sched as [|mv sched IH]; intros fw Hfw; cbn [fold_left]; auto. Qed.

Lemma FInv_freach scripts results started s0 v0 fsched : FInv (freach scripts results started s0 v0 fsched).
Proof. unfold freach. apply frun_all_inv; [intros; now apply FInv_fstep|apply FInv_init]. Qed.

(* foreign_unlock is sticky *)
Lemma foreign_unlock_fstep fw mv : foreign_unlock (fstep fw mv) = false -> foreign_unlock fw = false.
Proof.
  destruct mv as [t|t|t|t|n|c]; cbn [fstep foreign_unlock]; auto. unfold frun.
  destruct (fp fw t); cbn [foreign_unlock]; auto. destruct (fine_ret _ _) as [[p' f]|]; cbn [foreign_unlock]; auto.
  intros X. apply orb_false_elim in X. tauto.
Qed.

Lemma frun_all_snoc fw sched mv : frun_all fw (sched ++ [mv]) = fstep (frun_all fw sched) mv.
Proof. unfold frun_all. rewrite fold_left_app. reflexivity. Qed.

Lemma foreign_unlock_prefix fw s1 s2 : foreign_unlock (frun_all fw (s1 ++ s2)) = false -> foreign_unlock (frun_all fw s1) = false.
Proof.
  induction s2 as [|mv s2 IH] using rev_ind; [now rewrite app_nil_r|].
  rewrite app_assoc, frun_all_snoc. intros H. apply IH. eapply foreign_unlock_fstep; eauto.
Qed.

(* ---- statements ---- *)
Section FineStatements.
Variables (scripts : tid -> list libcall) (results : tid -> Z) (started : tid -> bool) (s0 : bool) (v0 : Z) (fsched : list move).
Let fw := freach scripts results started s0 v0 fsched.
Let HF : FInv fw := FInv_freach scripts results started s0 v0 fsched.

Lemma fine_signal_accesses_under_mutex_l t : fclass_of (fp fw t) = KSig ->
  m_owner (mtx (ps (base fw)) SM) = Some t /\ st (ps (base fw)) t = TRun.
Proof.
  intros Hk. destruct HF as (_ & _ & HL). destruct (HL t) as (L1 & L2 & _). split.
  - apply L1. left. exact Hk.
  - apply L2. intros X. rewrite X in Hk. discriminate.
Qed.

Lemma fine_monitor_accesses_under_mutex_l t : fclass_of (fp fw t) = KMon -> foreign_unlock fw = false ->
  m_owner (mtx (ps (base fw)) MM) = Some t /\ st (ps (base fw)) t = TRun.
Proof.
  intros Hk Hfu. destruct HF as (_ & _ & HL). destruct (HL t) as (_ & L2 & L3). split.
  - now apply L3.
  - apply L2. intros X. rewrite X in Hk. discriminate.
Qed.

Lemma fine_access_exclusive_l t u :
  (fclass_of (fp fw t) = KSig -> fclass_of (fp fw u) = KSig -> t = u) /\
  (foreign_unlock fw = false -> fclass_of (fp fw t) = KMon -> fclass_of (fp fw u) = KMon -> t = u).
Proof.
  split.
  - intros A B. apply fine_signal_accesses_under_mutex_l in A as [A _]. apply fine_signal_accesses_under_mutex_l in B as [B _]. congruence.
  - intros Hfu A B. apply fine_monitor_accesses_under_mutex_l in A as [A _]; auto. apply fine_monitor_accesses_under_mutex_l in B as [B _]; auto. congruence.
Qed.
End FineStatements.
