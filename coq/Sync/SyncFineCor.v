(* SyncFineCor.v - corollaries: the completion of a fine state is reached by running the (at most two) pending threads
   (at most three fine moves, the history only grows); while a thread stands in front of an access, no move of
   another thread changes the flag *)
From Coq Require Import ZArith List Bool Arith Lia.
From Sync Require Import Sched SyncSpec SyncModel SyncArith SyncInv SyncTrace SyncSignal SyncMonitor SyncTheorems
  SyncFine SyncFineLocal SyncFineSim SyncFineInv SyncFineMain.
Import ListNotations.
Local Open Scope Z_scope.

(* ---- running the pending accesses ---- *)
Lemma run_sig fw s : fclass_of (fp fw s) = KSig -> frun fw s = with_fp fw (cw (base fw) s (fp fw s)) s FNone.
Proof.
  intros Hk. rewrite frun_access by (intros X; rewrite X in Hk; discriminate). rewrite (faccess_sig _ _ _ Hk). reflexivity.
Qed.

Lemma run_mon fw m : fclass_of (fp fw m) = KMon ->
  exists moves, (length moves <= 2)%nat /\ base (frun_all fw moves) = cw (base fw) m (fp fw m) /\
    fp (frun_all fw moves) m = FNone /\ (forall u, u <> m -> fp (frun_all fw moves) u = fp fw u) /\
    foreign_unlock (frun_all fw moves) = foreign_unlock fw.
Proof.
  intros Hk. assert (Hne : fp fw m <> FNone) by (intros X; rewrite X in Hk; discriminate).
  destruct (faccess_mon (base fw) m _ Hk) as [E|(dl & r & n & Ef & Hm & E)].
  - exists [Run m]. unfold frun_all. cbn [fold_left fstep length]. rewrite frun_access by exact Hne. rewrite E. cbn [fst snd base fp foreign_unlock].
    repeat split; auto; [apply upd_same|intros; now apply upd_other].
  - exists [Run m; Run m]. unfold frun_all. cbn [fold_left fstep length]. rewrite (frun_access fw m) by exact Hne. rewrite E. cbn [fst snd].
    rewrite frun_access by (cbn [fp]; rewrite upd_same; discriminate). cbn [base fp foreign_unlock]. rewrite upd_same. cbn [faccess fst snd].
    repeat split; auto.
    + rewrite Ef. cbn [cw]. rewrite Hm. reflexivity.
    + apply upd_same.
    + intros u Hu. now rewrite !upd_other by exact Hu.
Qed.

Lemma frun_all_app fw s1 s2 : frun_all fw (s1 ++ s2) = frun_all (frun_all fw s1) s2.
Proof. unfold frun_all. apply fold_left_app. Qed.

Lemma trace_comp_grows b so mo : exists evs, trace (comp b so mo) = evs ++ trace b.
Proof.
  unfold comp. destruct so as [[s fs]|], mo as [[m fm]|]; cbn [cwo]; rewrite ?trace_cw.
  - rewrite app_assoc. eauto.
  - eauto.
  - eauto.
  - exists []. reflexivity.
Qed.

Lemma run_pending fw so mo : pend_spec fw KSig so -> pend_spec fw KMon mo ->
  exists moves, (length moves <= 3)%nat /\ base (frun_all fw moves) = comp (base fw) so mo /\ quiescent (frun_all fw moves) /\
    foreign_unlock (frun_all fw moves) = foreign_unlock fw.
Proof.
  intros Ps Pm.
  (* first the Signal access *)
  assert (Hs : exists sm, (length sm <= 1)%nat /\ base (frun_all fw sm) = cwo (base fw) so /\
               (forall u, fclass_of (fp (frun_all fw sm) u) <> KSig) /\
               (forall u, fclass_of (fp fw u) <> KSig -> fp (frun_all fw sm) u = fp fw u) /\
               (forall u, fclass_of (fp fw u) = KSig -> fp (frun_all fw sm) u = FNone) /\
               foreign_unlock (frun_all fw sm) = foreign_unlock fw).
  { destruct so as [[s fs]|]; cbn [pend_spec cwo] in *.
    - destruct Ps as (A & B & C). exists [Run s]. change (frun_all fw [Run s]) with (frun fw s).
      rewrite <- A in B. rewrite (run_sig fw s B), A. cbn [with_fp base fp foreign_unlock length].
      split; [lia|split; [reflexivity|split; [|split; [|split; [|reflexivity]]]]].
      + intros u. destruct (Nat.eq_dec u s) as [->|Hu]; [rewrite upd_same; discriminate|rewrite upd_other by auto; auto].
      + intros u Hu. destruct (Nat.eq_dec u s) as [->|Hn]; [congruence|now rewrite upd_other].
      + intros u Hu. destruct (Nat.eq_dec u s) as [->|Hn]; [apply upd_same|exfalso; eapply C; eauto].
    - exists []. cbn [length]. repeat split; auto. intros u Hu. exfalso. eapply Ps; eauto. }
  destruct Hs as (sm & Ls & B1 & N1 & F1 & G1 & U1).
  set (fw1 := frun_all fw sm) in *.
  assert (Pm1 : pend_spec fw1 KMon mo).
  { assert (Hx : forall u, fclass_of (fp fw1 u) = KMon -> fclass_of (fp fw u) = KMon).
    { intros u X. destruct (fclass_dec (fclass_of (fp fw u)) KSig) as [e|n]; [|rewrite F1 in X by exact n; exact X].
      rewrite (G1 u e) in X. discriminate X. }
    destruct mo as [[m fm]|]; cbn [pend_spec] in *.
    - destruct Pm as (A & B & C). repeat split; auto.
      + rewrite F1; auto. rewrite A, B. discriminate.
      + intros u Hu X. eapply C; eauto.
    - intros u X. eapply Pm; eauto. }
  (* then the Monitor access(es) *)
  destruct mo as [[m fm]|]; cbn [pend_spec] in Pm1.
  - destruct Pm1 as (A & B & C). rewrite <- A in B. destruct (run_mon fw1 m B) as (mm & Lm & Bm & Fm & Om & Um).
    exists (sm ++ mm). rewrite frun_all_app. fold fw1. rewrite app_length. split; [lia|]. unfold comp. cbn [cwo]. rewrite Bm, B1, A.
    repeat split; auto; [|congruence].
    intros u. destruct (Nat.eq_dec u m) as [->|Hu]; [exact Fm|]. rewrite Om by exact Hu. apply fclass_none.
    destruct (fclass_of (fp fw1 u)) eqn:X; auto; exfalso; [eapply N1|eapply C]; eauto.
  - exists sm. fold fw1. unfold comp. cbn [cwo]. split; [lia|]. repeat split; auto.
    intros u. apply fclass_none. destruct (fclass_of (fp fw1 u)) eqn:X; auto; exfalso; [eapply N1|eapply Pm1]; eauto.
Qed.

Lemma fine_completes_l scripts results started s0 v0 fsched :
  let fw := freach scripts results started s0 v0 fsched in
  foreign_unlock fw = false ->
  exists moves sched, (length moves <= 3)%nat /\
    let fw2 := frun_all fw moves in let w := reach scripts results started s0 v0 sched in
    quiescent fw2 /\ foreign_unlock fw2 = false /\ (exists evs, trace (base fw2) = evs ++ trace (base fw)) /\
    agree w (base fw2) /\ tr_eq (trace w) (trace (base fw2)).
Proof.
  intros fw Hfu. destruct (fine_simulation scripts results started s0 v0 fsched Hfu) as (sched & so & mo & Ps & Pm & Ha & Ht).
  destruct (run_pending _ so mo Ps Pm) as (moves & Hl & Hb & Hq & Hu).
  exists moves, sched. split; [exact Hl|]. cbn zeta. fold fw in Hb, Hq, Hu |- *. rewrite Hb, Hu.
  split; [exact Hq|split; [exact Hfu|split; [apply trace_comp_grows|split; [exact Ha|exact Ht]]]].
Qed.

(* ---- while a thread stands in front of an access, no move of another thread changes the flag ---- *)
Lemma sigf_faccess_other b u f : fclass_of f <> KSig -> sigf (fst (faccess b u f)) = sigf b.
Proof. destruct f; cbn [fclass_of faccess fst]; try congruence; intros _; wsimpl; dif; cbn [fst]; wsimpl; reflexivity. Qed.
Lemma monf_faccess_other b u f : fclass_of f <> KMon -> monf (fst (faccess b u f)) = monf b.
Proof. destruct f; cbn [fclass_of faccess fst]; try congruence; intros _; wsimpl; dif; cbn [fst]; wsimpl; reflexivity. Qed.

Lemma coarse_flag_frame fw t mv : FInv fw -> fp fw t <> FNone -> owner_of (fclass_of (fp fw t)) (ps (base fw)) t ->
  (forall u, mv = Run u -> fp fw u = FNone) ->
  (fclass_of (fp fw t) = KSig -> sigf (step (base fw) mv) = sigf (base fw)) /\
  (fclass_of (fp fw t) = KMon -> monf (step (base fw) mv) = monf (base fw)).
Proof.
  intros HF Hne Hown Hmv. pose proof HF as (H1 & H2 & HL).
  destruct (pend_facts_of fw t HF Hne) as [Hst Hat _ _].
  assert (HK : fclass_of (fp fw t) <> KNone) by (destruct (fp fw t); cbn; congruence).
  assert (Hrel : relK (Some t) (fclass_of (fp fw t)) (base fw) (base fw)) by (unfold relK; repeat split; auto).
  destruct (step_local (Some t) (fclass_of (fp fw t)) (base fw) (base fw) mv Hrel) as (_ & _ & Rs & Rm & _).
  - right; eauto.
  - intros t' X. inversion X; subst t'. assert (Hsw : is_sem_wait (pc (tc (base fw) t)) = false) by (eapply pc_at_not_sem; eauto).
    repeat split; auto; try (intros ->; rewrite (Hmv t eq_refl) in Hne; congruence).
  - intros u -> _. split; [apply H2|]. intros Hk E. apply unlock_pc_SM in E.
    destruct (HL u) as (L1 & _ & _). rewrite (Hmv u eq_refl) in L1.
    assert (Hou : m_owner (mtx (ps (base fw)) SM) = Some u) by (apply L1; right; split; auto).
    rewrite Hk in Hown. cbn [owner_of] in Hown. assert (u = t) by congruence. subst u. rewrite (Hmv t eq_refl) in Hne. congruence.
  - auto.
  - split; intros Hk; [apply (Rs Hk)|apply (Rm Hk)].
Qed.

Lemma FInv_excl fw t u : FInv fw ->
  (fclass_of (fp fw t) = KSig -> fclass_of (fp fw u) = KSig -> t = u) /\
  (foreign_unlock fw = false -> fclass_of (fp fw t) = KMon -> fclass_of (fp fw u) = KMon -> t = u).
Proof.
  intros (_ & _ & HL). destruct (HL t) as (A1 & _ & A3). destruct (HL u) as (B1 & _ & B3). split.
  - intros X Y. assert (m_owner (mtx (ps (base fw)) SM) = Some t) by (apply A1; left; exact X).
    assert (m_owner (mtx (ps (base fw)) SM) = Some u) by (apply B1; left; exact Y). congruence.
  - intros Hfu X Y. specialize (A3 X Hfu). specialize (B3 Y Hfu). congruence.
Qed.

Lemma fine_flag_frame fw t mv : FInv fw -> mv <> Run t ->
  (fclass_of (fp fw t) = KSig -> sigf (base (fstep fw mv)) = sigf (base fw)) /\
  (fclass_of (fp fw t) = KMon -> foreign_unlock (fstep fw mv) = false -> monf (base (fstep fw mv)) = monf (base fw)).
Proof.
  intros HF Hmv. pose proof HF as (H1 & H2 & HL).
  pose proof (FInv_fstep fw mv HF) as HF'.
  assert (Hne : fclass_of (fp fw t) <> KNone -> fp fw t <> FNone) by (intros X Y; rewrite Y in X; apply X; reflexivity).
  assert (Hown : fclass_of (fp fw t) = KSig \/ (fclass_of (fp fw t) = KMon /\ foreign_unlock (fstep fw mv) = false) ->
                 owner_of (fclass_of (fp fw t)) (ps (base fw)) t).
  { destruct (HL t) as (L1 & _ & L3). intros [Hk|[Hk Hfu]]; rewrite Hk; cbn [owner_of]; [apply L1; left; exact Hk|].
    apply L3; auto. eapply foreign_unlock_fstep; eauto. }
  assert (Hco : (forall u, mv = Run u -> fp fw u = FNone) -> base (fstep fw mv) = step (base fw) mv ->
          (fclass_of (fp fw t) = KSig -> sigf (base (fstep fw mv)) = sigf (base fw)) /\
          (fclass_of (fp fw t) = KMon -> foreign_unlock (fstep fw mv) = false -> monf (base (fstep fw mv)) = monf (base fw))).
  { intros Hu Hb. rewrite Hb. split.
    - intros Hk. apply (coarse_flag_frame fw t mv HF); auto; [apply Hne; congruence].
    - intros Hk Hfu. apply (coarse_flag_frame fw t mv HF); auto; [apply Hne; congruence]. }
  destruct mv as [u|u|u|u|n|c]; try (apply Hco; [intros; discriminate|reflexivity]).
  assert (Hut : u <> t) by congruence.
  cbn [fstep]. destruct (fclass_of (fp fw u)) eqn:Ku.
  - apply fclass_none in Ku. destruct (fine_ret (base fw) u) as [[p' f]|] eqn:Hfr.
    + rewrite (frun_ret fw u p' f Ku Hfr). cbn [base]. rewrite sigf_clear_mark, monf_clear_mark. split; reflexivity.
    + change (frun fw u) with (fstep fw (Run u)). apply Hco; [intros u' X; inversion X; subst; exact Ku|].
      cbn [fstep]. rewrite (frun_coarse fw u Ku Hfr). reflexivity.
  - rewrite frun_access by (intros X; rewrite X in Ku; discriminate). cbn [base foreign_unlock]. split.
    + intros Hk. exfalso. apply Hut. destruct (FInv_excl fw u t HF) as [X _]. auto.
    + intros _ _. apply monf_faccess_other. congruence.
  - rewrite frun_access by (intros X; rewrite X in Ku; discriminate). cbn [base foreign_unlock]. split.
    + intros _. apply sigf_faccess_other. congruence.
    + intros Hk Hfu. exfalso. apply Hut. destruct (FInv_excl fw u t HF) as [_ X]. auto.
Qed.

Section FineCorStatements.
Variables (scripts : tid -> list libcall) (results : tid -> Z) (started : tid -> bool) (s0 : bool) (v0 : Z) (fsched : list move).
Let fw := freach scripts results started s0 v0 fsched.

Lemma fine_flag_stable_l t mv : mv <> Run t ->
  (fclass_of (fp fw t) = KSig -> sigf (base (fstep fw mv)) = sigf (base fw)) /\
  (fclass_of (fp fw t) = KMon -> foreign_unlock (fstep fw mv) = false -> monf (base (fstep fw mv)) = monf (base fw)).
Proof. apply fine_flag_frame. apply FInv_freach. Qed.
End FineCorStatements.
