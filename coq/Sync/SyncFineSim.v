(* SyncFineSim.v - completions: the coarse thread-local code is the fine accesses run to their end; a completion
   commutes with every move that does not touch its flag (up to the order of independent events), and
   completions of different classes commute with each other *)
From Coq Require Import ZArith List Bool Arith Lia.
From Sync Require Import Sched SyncSpec SyncModel SyncArith SyncInv SyncFine SyncFineLocal.
Import ListNotations.
Local Open Scope Z_scope.

(* ---- the coarse after_return IS the completion of the access that follows the primitive call ---- *)
Lemma after_return_is_cw w t p r :
  is_fnone (access_point p r (now (ps w))) = false ->
  after_return w t p r = cw w t (access_point p r (now (ps w))).
Proof.
  intros H. destruct p; cbn [access_point is_fnone] in *; try discriminate H; cbn [after_return cw faccess fst]; try reflexivity.
  - destruct (timed dl && negb (r =? 0)); [discriminate H|reflexivity].
  - destruct (monf w); [reflexivity|]. destruct (timed dl && negb (r =? 0)); reflexivity.
Qed.

(* ---- the fields of a completion ---- *)
Definition cw_tc (sf mf : bool) (c : tctx) (f : fpc) : tctx :=
  match f with
  | FNone => c
  | FSigWrite _ next => with_pc c next
  | FSigRead dl => if sf then with_pc c (SigWaitUnlock true) else with_pc c (SigWaitCond dl)
  | FMonRead dl r _ => if mf then with_pc c Idle else if timed dl && negb (r =? 0) then with_pc c Idle else with_pc c (MonWaitCond dl)
  | FMonClear => with_pc c Idle
  | FMonWrite => with_pc c MonSetUnlock
  end.
Definition cw_sigf (sf : bool) (f : fpc) : bool := match f with FSigWrite b _ => b | _ => sf end.
Definition cw_monf (mf : bool) (f : fpc) : bool :=
  match f with FMonRead _ _ _ | FMonClear => false | FMonWrite => true | _ => mf end.
Definition cw_evs (mf : bool) (c : tctx) (t : tid) (f : fpc) : list event :=
  match f with
  | FSigWrite b _ => [EvSigWrite t b]
  | FMonRead dl r nowv =>
      if mf then [EvRet t (cur c) 1]
      else if timed dl && negb (r =? 0) then [EvRet t (cur c) 0; EvTimedFalse t (cur c) (tstart c) nowv] else []
  | FMonClear => [EvRet t (cur c) 1]
  | FMonWrite => [EvMonSet t]
  | _ => []
  end.

Ltac cw_unf := cbn [cw faccess fst]; wsimpl; dif; cbn [fst]; wsimpl.

Lemma ps_cw x t f : ps (cw x t f) = ps x.
Proof. destruct f; cw_unf; reflexivity. Qed.
Lemma occ_cw x t f : occ (cw x t f) = occ x.
Proof. destruct f; cw_unf; reflexivity. Qed.
Lemma handle_cw x t f : handle (cw x t f) = handle x.
Proof. destruct f; cw_unf; reflexivity. Qed.
Lemma sigf_cw x t f : sigf (cw x t f) = cw_sigf (sigf x) f.
Proof. destruct f; cw_unf; cbn [cw_sigf]; congruence. Qed.
Lemma monf_cw x t f : monf (cw x t f) = cw_monf (monf x) f.
Proof. destruct f; cw_unf; cbn [cw_monf]; congruence. Qed.
Lemma tc_cw x t f v : tc (cw x t f) v = if Nat.eqb v t then cw_tc (sigf x) (monf x) (tc x t) f else tc x v.
Proof.
  destruct (Nat.eqb_spec v t) as [->|Hn].
  - destruct f; cbn [cw faccess fst cw_tc]; wsimpl; try (destruct (sigf x)); try (destruct (monf x)); wsimpl; try (destruct (_ && _)); cbn [fst]; wsimpl;
      rewrite ?upd_same; wsimpl; reflexivity.
  - destruct f; cw_unf; rewrite ?upd_other by exact Hn; reflexivity.
Qed.
Lemma trace_cw x t f : trace (cw x t f) = cw_evs (monf x) (tc x t) t f ++ trace x.
Proof. destruct f; cbn [cw faccess fst cw_evs]; wsimpl; try (destruct (sigf x)); try (destruct (monf x)); wsimpl; try (destruct (_ && _)); cbn [fst]; wsimpl; reflexivity. Qed.

(* ---- step respects agreement (neither the history nor the ghost marks are ever read) ---- *)
Lemma step_sim w c mv : sim w c -> sim (step w mv) (step c mv).
Proof.
  intros [Ha Ht]. apply relK_agree in Ha.
  destruct (step_local None KNone w c mv Ha) as (R & _ & _ & _ & eu & E1 & E2 & _).
  - left; reflexivity.
  - intros t Hx; discriminate Hx.
  - intros u _ Hx. congruence.
  - intros Hx. congruence.
  - split; [now apply relK_agree|]. rewrite E1, E2. now apply tr_eq_app_l.
Qed.

(* ---- a completion respects agreement ---- *)
Lemma cw_sim w c t f : sim w c -> sim (cw w t f) (cw c t f).
Proof.
  intros [(A & B & C & D & E & F) Ht]. split.
  - unfold agree. rewrite !ps_cw, !occ_cw, !handle_cw, !sigf_cw, !monf_cw, A, B, C, D, E. repeat split; auto.
    intros v. rewrite !tc_cw, B, C, !F. reflexivity.
  - rewrite !trace_cw, C, F. now apply tr_eq_app_l.
Qed.

Lemma relK_cw x t f : relK (Some t) (fclass_of f) x (cw x t f).
Proof.
  unfold relK. rewrite ps_cw, occ_cw, handle_cw, sigf_cw, monf_cw. repeat split; auto.
  - intros v Hv. rewrite tc_cw. destruct (Nat.eqb_spec v t) as [->|]; [congruence|reflexivity].
  - destruct f; cbn; congruence.
  - destruct f; cbn; congruence.
Qed.

(* the events of a completion are deferred events of its thread and of its class *)
Definition cur_ok (c : tctx) (f : fpc) : Prop :=
  match f with FMonRead _ _ _ | FMonClear => is_mon_wait (cur c) = true | _ => True end.

Lemma mon_wait_not_sig c : is_mon_wait c = true -> sig_call c = false.
Proof. destruct c; cbn; congruence. Qed.

Lemma cw_evs_indep a mf c t f : ev_ok2 (Some t) (fclass_of f) a -> cur_ok c f -> Forall (indep a) (cw_evs mf c t f).
Proof.
  intros (Ht & Hs & Hm) Hc. specialize (Ht t eq_refl). apply Nat.eqb_neq in Ht.
  destruct f; cbn [cw_evs fclass_of cur_ok] in *; dif; repeat (apply Forall_cons; [|]); try apply Forall_nil;
    unfold indep, indepb; cbn [ev_tid deferred sig_class mon_class];
    rewrite Ht, ?Hc, ?(Hs eq_refl), ?(Hm eq_refl), ?(mon_wait_not_sig _ Hc), ?orb_true_r, ?andb_false_r; reflexivity.
Qed.

Lemma cw_evs_all_indep eu mf c t f : Forall (ev_ok2 (Some t) (fclass_of f)) eu -> cur_ok c f -> all_indep eu (cw_evs mf c t f).
Proof.
  intros H Hc. unfold all_indep. eapply Forall_impl; [|exact H]. intros a Ha. now apply cw_evs_indep.
Qed.

(* cw_tc / cw_evs only look at the flag of their own class *)
Lemma cw_tc_flags sf mf sf' mf' c f :
  (fclass_of f = KSig -> sf = sf') -> (fclass_of f = KMon -> mf = mf') -> cw_tc sf mf c f = cw_tc sf' mf' c f.
Proof. destruct f; cbn; intros H1 H2; try reflexivity; rewrite ?(H1 eq_refl), ?(H2 eq_refl); reflexivity. Qed.
Lemma cw_evs_flags mf mf' c t f : (fclass_of f = KMon -> mf = mf') -> cw_evs mf c t f = cw_evs mf' c t f.
Proof. destruct f; cbn; intros H2; try reflexivity; rewrite ?(H2 eq_refl); reflexivity. Qed.
Lemma cw_sigf_other sf f : fclass_of f <> KSig -> cw_sigf sf f = sf.
Proof. destruct f; cbn; congruence. Qed.
Lemma cw_monf_other mf f : fclass_of f <> KMon -> cw_monf mf f = mf.
Proof. destruct f; cbn; congruence. Qed.

Lemma fclass_dec (a b : fclass) : {a = b} + {a <> b}.
Proof. decide equality. Qed.

(* ---- a move that does not touch the flag commutes with the completion ---- *)
Lemma step_cw_commute x t f mv :
  fclass_of f <> KNone ->
  st (ps x) t = TRun -> is_sem_wait (pc (tc x t)) = false -> is_sem_wait (pc (tc (cw x t f) t)) = false ->
  mv <> Run t -> owner_of (fclass_of f) (ps x) t ->
  (forall u, mv = Run u -> st_pc_ok (st (ps x) u) (pc (tc x u)) /\ (fclass_of f = KSig -> pending (pc (tc x u)) <> PUnlock SM)) ->
  I1 x -> cur_ok (tc x t) f ->
  sim (step (cw x t f) mv) (cw (step x mv) t f).
Proof.
  intros HK Hst Hs1 Hs2 Hmv Hown Hmov H1 Hcur.
  destruct (step_local (Some t) (fclass_of f) x (cw x t f) mv (relK_cw x t f)) as (R & Rtc & Rs & Rm & eu & E1 & E2 & E3).
  - right. eauto.
  - intros t' Ht'. inversion Ht'; subst t'. repeat split; auto.
  - intros u Hu _. auto.
  - auto.
  - destruct R as (A & B & C & D & E & F). destruct (Rtc t eq_refl) as [T1 T2].
    split.
    + unfold agree. rewrite ps_cw, occ_cw, handle_cw, sigf_cw, monf_cw. repeat split; auto.
      * destruct (fclass_dec (fclass_of f) KSig) as [e|n].
        -- destruct (Rs e) as [S1 S2]. rewrite S1, S2. apply sigf_cw.
        -- rewrite cw_sigf_other by exact n. symmetry. now apply E.
      * destruct (fclass_dec (fclass_of f) KMon) as [e|n].
        -- destruct (Rm e) as [S1 S2]. rewrite S1, S2. apply monf_cw.
        -- rewrite cw_monf_other by exact n. symmetry. now apply F.
      * intros v. rewrite tc_cw. destruct (Nat.eqb_spec v t) as [->|Hn].
        -- rewrite T2, T1, tc_cw, Nat.eqb_refl. apply cw_tc_flags; intros e; symmetry; [apply (Rs e)|apply (Rm e)].
        -- symmetry. apply D. congruence.
    + rewrite E2, !trace_cw, E1, T1.
      rewrite (cw_evs_flags (monf (step x mv)) (monf x)) by (intros e; apply (Rm e)).
      apply tr_eq_blocks. now apply cw_evs_all_indep.
Qed.

(* ---- completions of different classes commute ---- *)
Lemma cw_evs_mon_ok2 s mf c m fm : s <> m -> fclass_of fm = KMon -> cur_ok c fm ->
  Forall (ev_ok2 (Some s) KSig) (cw_evs mf c m fm).
Proof.
  intros Hn HK Hc.
  destruct fm; try discriminate HK; cbn [cw_evs cur_ok] in *; dif; repeat (apply Forall_cons; [|]); try apply Forall_nil;
    (split; [intros t0 Ht0; inversion Ht0; subst; cbn; congruence|split; [intros _; cbn; auto using mon_wait_not_sig|intros Hx; discriminate Hx]]).
Qed.

Lemma cw_cw_commute x s fs m fm : s <> m -> fclass_of fs = KSig -> fclass_of fm = KMon -> cur_ok (tc x m) fm ->
  sim (cw (cw x s fs) m fm) (cw (cw x m fm) s fs).
Proof.
  intros Hn Ks Km Hc.
  assert (Hsm : Nat.eqb s m = false) by (now apply Nat.eqb_neq).
  assert (Hms : Nat.eqb m s = false) by (apply Nat.eqb_neq; congruence).
  assert (Ns : fclass_of fs <> KMon) by congruence. assert (Nm : fclass_of fm <> KSig) by congruence.
  split.
  - unfold agree. rewrite !ps_cw, !occ_cw, !handle_cw, !sigf_cw, !monf_cw.
    rewrite !(cw_sigf_other _ fm) by exact Nm. rewrite !(cw_monf_other _ fs) by exact Ns. repeat split; auto.
    intros v. rewrite !tc_cw, !sigf_cw, !monf_cw, Hms, Hsm, (cw_sigf_other _ fm), (cw_monf_other _ fs) by assumption.
    destruct (Nat.eqb v m) eqn:H1; destruct (Nat.eqb v s) eqn:H2; try reflexivity.
    + apply Nat.eqb_eq in H1, H2. congruence.
    + apply cw_tc_flags; congruence.
    + apply cw_tc_flags; congruence.
  - rewrite !trace_cw, !tc_cw, Hms, Hsm, !monf_cw.
    rewrite (cw_evs_flags (cw_monf (monf x) fs) (monf x) _ m fm) by (intros _; now apply cw_monf_other).
    rewrite (cw_evs_flags (cw_monf (monf x) fm) (monf x) _ s fs) by congruence.
    apply tr_eq_blocks. apply cw_evs_all_indep; [rewrite Ks; now apply cw_evs_mon_ok2|].
    destruct fs; try discriminate Ks; exact I.
Qed.
