(* SyncMonitor.v - a set() issued after a waiter has taken the monitor releases a waiter:
   while the flag is up and a waiter that was already blocked when the flag was written is still blocked,
   some thread is between the flag write and the signal of Monitor::set, or a waiter has been woken (rc = 0)
   and only needs the monitor lock to consume the flag *)
From Coq Require Import ZArith List Bool Arith Lia.
From Coq Require Import ZifyBool ZifyNat ZifyN.
From Sync Require Import Sched SyncSpec SyncModel SyncArith SyncInv SyncTrace.
Import ListNotations.
Local Open Scope Z_scope.

Ltac wsimpl :=
  cbn [ps sigf monf occ handle tc trace mark set_ps set_sigf set_monf set_occ set_handle set_tc emit set_marks
       goto finish finish_false with_pc pc script cur tstart result
       mtx cnd sem st now set_mtx set_cnd set_sem set_st set_sts set_now prim_exit] in *.
Ltac upd_simpl := repeat (progress (rewrite ?upd_same in *; rewrite ?upd_other in * by congruence)).
Ltac dif := repeat match goal with |- context [if ?b then _ else _] => destruct b eqn:? end.
Ltac consts := unfold EPERM, EINTR, EAGAIN, EBUSY, EINVAL, ETIMEDOUT in *; cbn [Z.eqb Pos.eqb b2z negb andb orb] in *.

Ltac inv_o H := cbn [outcome_state] in H; first [discriminate H | let E := fresh "E" in injection H as E; try subst].

(* ---- I3 : a thread blocked on a condition is in that condition's queue ---- *)
Definition queued (p : prim_state) : Prop := forall c u, blocked_on c (st p u) = true -> In u (cnd p c).
Definition I3 (w : world) : Prop := queued (ps w).

Lemma in_remove_tid v u q : u <> v -> In u q -> In u (remove_tid v q).
Proof. intros Hn Hi. unfold remove_tid. apply filter_In. split; auto. destruct (Nat.eqb_spec u v); [congruence|reflexivity]. Qed.

Lemma blocked_wake c s : blocked_on c (wake 0 s) = false.
Proof. destruct s; reflexivity. Qed.

Lemma prim_step_queued p t c p' : outcome_state (prim_step p t c) = Some p' -> runnable (st p t) = true ->
  queued p -> queued p'.
Proof.
  intros H Hr Hq c0 u Hb. destruct c; cbn [prim_step] in H.
  - inv_o H; auto.
  - destruct (acquire p m t) eqn:Ha; inv_o H. apply acquire_some in Ha as (k & -> & _). apply Hq, Hb.
  - destruct (acquire p m t) eqn:Ha; inv_o H; auto. apply acquire_some in Ha as (k & -> & _). apply Hq, Hb.
  - destruct (owned_by (mtx p m) t); [|destruct (m_rec (mtx p m))]; inv_o H; auto.
    + rewrite st_release in Hb. rewrite cnd_release. auto.
    + unfold release_all in *. wsimpl. auto.
  - destruct (st p t) eqn:Hst; try discriminate.
    + destruct (negb _).
      * inv_o H. wsimpl. destruct (Nat.eq_dec u t) as [->|]; upd_simpl; [discriminate|auto].
      * destruct (dl_bad dl); inv_o H; auto. unfold release_all in *. wsimpl.
        destruct (Nat.eq_dec u t) as [->|Hn]; upd_simpl.
        -- cbn in Hb. apply Nat.eqb_eq in Hb. subst c0. rewrite upd_same. apply in_or_app. right. left. reflexivity.
        -- destruct (Nat.eq_dec c0 c) as [->|]; upd_simpl; [apply in_or_app; left|]; auto.
    + destruct (is_free _); inv_o H. wsimpl. destruct (Nat.eq_dec u t) as [->|]; upd_simpl; [discriminate|auto].
  - destruct (find _ _) as [v|] eqn:Hf; inv_o H; auto. wsimpl.
    destruct (Nat.eq_dec u v) as [->|Hn]; upd_simpl; [rewrite blocked_wake in Hb; discriminate|].
    destruct (Nat.eq_dec c0 c) as [->|]; upd_simpl; auto. apply in_remove_tid; auto.
  - inv_o H. wsimpl. destruct (blocked_on c (st p u)) eqn:Hbu; [rewrite blocked_wake in Hb; discriminate|].
    destruct (Nat.eq_dec c0 c) as [->|]; upd_simpl; auto. congruence.
  - destruct (0 <? sem p s); [inv_o H; apply Hq, Hb|]. destruct (dl_bad dl); inv_o H; auto.
  - destruct (0 <? sem p s); inv_o H; auto; apply Hq, Hb.
  - inv_o H; apply Hq, Hb.
  - destruct (st p child) eqn:Hc; inv_o H; auto. wsimpl.
    destruct (Nat.eq_dec u child) as [->|]; upd_simpl; [discriminate|auto].
  - destruct (st p child); inv_o H; auto.
Qed.

Lemma I3_step w mv : I3 w -> I3 (step w mv).
Proof.
  intros H. unfold I3. destruct mv as [t|t|t|t|n|c]; cbn [step].
  - rewrite ps_clear_mark.
    destruct (step_run_case w t) as [|Hr Hpc Hs|op rest Hr Hpc Hs|p' Hr Hpc Hp|p' r Hr Hpc Hp].
    + exact H.
    + wsimpl. intros c0 u Hb. wsimpl. destruct (Nat.eq_dec u t) as [->|]; upd_simpl; [discriminate|apply H, Hb].
    + rewrite ps_begin_op. exact H.
    + wsimpl. eapply prim_step_queued; eauto. rewrite Hp; reflexivity.
    + rewrite ps_after_return. wsimpl. eapply prim_step_queued; eauto. rewrite Hp; reflexivity.
  - destruct (st (ps w) t) eqn:Hst; try exact H.
    + destruct (is_sem_wait _); [rewrite ps_after_return|]; exact H.
    + wsimpl. unfold prim_spurious. rewrite Hst. intros c0 u Hb. wsimpl.
      destruct (Nat.eq_dec u t) as [->|Hn]; upd_simpl; [discriminate|].
      destruct (Nat.eq_dec c0 c) as [->|]; upd_simpl; [apply in_remove_tid; auto|]; apply H, Hb.
  - destruct (st (ps w) t) eqn:Hst; try exact H.
    + destruct (pc (tc w t)); try exact H. destruct (_ && _); [rewrite ps_after_return|]; exact H.
    + wsimpl. unfold prim_timeout. rewrite Hst. destruct dl as [d|]; [|exact H]. destruct (dl_expired d _); [|exact H].
      intros c0 u Hb. wsimpl.
      destruct (Nat.eq_dec u t) as [->|Hn]; upd_simpl; [discriminate|].
      destruct (Nat.eq_dec c0 c) as [->|]; upd_simpl; [apply in_remove_tid; auto|]; apply H, Hb.
  - wsimpl. destruct (steal_shape (ps w) t) as [->|(m & rc & d & Hs & _ & ->)]; [exact H|].
    intros c0 u Hb. wsimpl. destruct (Nat.eq_dec u t) as [->|Hn]; upd_simpl; [discriminate|apply H, Hb].
  - exact H.
  - wsimpl. unfold prim_rotate. destruct (cnd (ps w) c) as [|h q] eqn:Hq; [exact H|].
    intros c0 u Hb. wsimpl. pose proof (H c0 u Hb) as Hi.
    destruct (Nat.eq_dec c0 c) as [->|]; upd_simpl; auto. rewrite Hq in Hi. apply in_or_app. destruct Hi as [<-|Hi]; [right; left; auto|left; auto].
Qed.

(* ---- liveness of Monitor::set ---- *)
Definition mon_release (w : world) : Prop :=
  exists v, pc (tc w v) = MonSetUnlock \/ pc (tc w v) = MonSetSignal \/
            (exists rc dl dl', st (ps w) v = TWoken MM rc dl /\ pc (tc w v) = MonWaitCond dl').
Definition MonLive (w : world) : Prop :=
  monf w = true -> forall u, blocked_on MC (st (ps w) u) = true -> mark w u = true -> mon_release w.

Lemma blocked_evolves c a b : st_evolves a b -> blocked_on c b = true -> blocked_on c a = true.
Proof. intros [->|[(c' & m & dl & -> & ->)|[-> ->]]]; cbn; auto; discriminate. Qed.

Lemma woken_evolves a b m rc dl : st_evolves a b -> a = TWoken m rc dl -> b = TWoken m rc dl.
Proof. intros [->|[(c' & m' & dl' & -> & ->)|[-> ->]]]; auto; discriminate. Qed.

(* the mover t is not itself the witness, every other thread keeps its program counter and a woken thread stays woken *)
Lemma mon_release_frame w w' t :
  (forall v, v <> t -> tc w' v = tc w v) ->
  (forall v, v <> t -> st_evolves (st (ps w) v) (st (ps w') v)) ->
  (pc (tc w t) <> MonSetUnlock /\ pc (tc w t) <> MonSetSignal /\
   (forall rc dl dl', ~ (st (ps w) t = TWoken MM rc dl /\ pc (tc w t) = MonWaitCond dl'))) ->
  mon_release w -> mon_release w'.
Proof.
  intros Htc Hst (Ha & Hb & Hc) (v & Hv). destruct (Nat.eq_dec v t) as [->|Hn].
  - exfalso. destruct Hv as [Hv|[Hv|(rc & dl & dl' & Hv)]]; [tauto|tauto|]. eapply Hc; eauto.
  - exists v. rewrite Htc by auto. destruct Hv as [Hv|[Hv|(rc & dl & dl' & Hs & Hp)]]; auto.
    right; right. exists rc, dl, dl'. split; auto. eapply woken_evolves; eauto.
Qed.

Lemma mark_after_return w t p r : p <> MonSetLock -> mark (after_return w t p r) = mark w.
Proof. intros Hp. destruct p; try congruence; cbn [after_return]; wsimpl; dif; reflexivity. Qed.
Lemma monf_after_return_other w t p r : (forall dl, p <> MonWaitCond dl) -> p <> MonSetLock -> monf (after_return w t p r) = monf w.
Proof. intros H H'. destruct p; try congruence; cbn [after_return]; wsimpl; dif; try reflexivity; exfalso; eapply H; eauto. Qed.
Lemma mark_begin_op w t op rest : mark (begin_op w t op rest) = mark w.
Proof. destruct op; cbn [begin_op]; wsimpl; try destruct (handle w c); reflexivity. Qed.

Lemma mark_clear_mark w w' t u : mark (clear_mark_on_block w w' t) u = true ->
  mark w' u = true /\ (u = t -> blocked_on MC (st (ps w') t) = true -> blocked_on MC (st (ps w) t) = true).
Proof.
  unfold clear_mark_on_block. destruct (blocked_on MC (st (ps w) t)) eqn:Hb; cbn [negb andb]; [auto|].
  destruct (blocked_on MC (st (ps w') t)) eqn:Hb'; wsimpl; [|split; auto; congruence].
  destruct (Nat.eq_dec u t) as [->|]; upd_simpl; [discriminate|]. intros; split; auto; congruence.
Qed.

Lemma mon_release_clear w w' t : mon_release w' -> mon_release (clear_mark_on_block w w' t).
Proof. intros (v & Hv). exists v. rewrite tc_clear_mark, ps_clear_mark. exact Hv. Qed.

Lemma cond_pc_shape p c m dl : pending p = PCondWait c m dl ->
  (p = SigWaitCond dl /\ c = SC /\ m = SM) \/ (p = MonWaitCond dl /\ c = MC /\ m = MM).
Proof. destruct p; cbn; intros H; inversion H; subst; auto. Qed.

Lemma MonLive_step w mv : I2 w -> I3 w -> MonLive w -> MonLive (step w mv).
Proof.
  intros H2 H3 HM. unfold MonLive.
  destruct mv as [t|t|t|t|n|c]; cbn [step].
  - rewrite monf_clear_mark, ps_clear_mark. intros Hf u Hu Hmk. apply mon_release_clear.
    apply mark_clear_mark in Hmk as [Hmk Hclr].
    destruct (step_run_case w t) as [|Hr Hpc Hs|op rest Hr Hpc Hs|p' Hr Hpc Hp|p' r Hr Hpc Hp].
    + eapply HM; eauto.
    + wsimpl. destruct (Nat.eq_dec u t) as [->|Hn]; upd_simpl; [discriminate|].
      eapply mon_release_frame with (t := t) (w := w); [reflexivity| |rewrite Hpc; repeat split; try discriminate; intros ? ? ? [_ ?]; discriminate|eapply HM; eauto].
      intros v Hv. wsimpl. upd_simpl. left; reflexivity.
    + rewrite ps_begin_op in *. rewrite monf_begin_op in Hf. rewrite mark_begin_op in Hmk.
      eapply mon_release_frame with (t := t) (w := w);
        [intros; now apply tc_begin_op_other|intros; rewrite ps_begin_op; left; reflexivity
        |rewrite Hpc; repeat split; try discriminate; intros ? ? ? [_ ?]; discriminate|eapply HM; eauto].
    + wsimpl. assert (Hst' : st (ps w) t = TRun) by (apply prim_step_progress in Hp as (? & ? & ? & _ & ? & _); auto).
      destruct (Nat.eq_dec u t) as [->|Hn].
      * specialize (Hclr eq_refl Hu). rewrite Hst' in Hclr. discriminate.
      * eapply mon_release_frame with (t := t) (w := w); [reflexivity| | |eapply HM; eauto].
        -- intros v Hv. wsimpl. eapply prim_step_st_other; eauto; [rewrite Hp; reflexivity|now apply runnable_not_ns].
        -- apply prim_step_progress in Hp as (c' & m & dl & Hc & _). apply cond_pc_shape in Hc as [(-> & _)|(-> & _)];
             repeat split; try discriminate; intros ? ? ? [E _]; rewrite Hst' in E; discriminate.
        -- eapply blocked_evolves; [|exact Hu]. eapply prim_step_st_other; eauto; [rewrite Hp; reflexivity|now apply runnable_not_ns].
    + rewrite ps_after_return in *. wsimpl.
      assert (Hself : st p' t = TRun) by (eapply prim_step_st_self_return; eauto; now apply I2_self_ok).
      destruct (Nat.eq_dec u t) as [->|Hn]; [rewrite Hself in Hu; discriminate|].
      assert (Hev : forall v, v <> t -> st_evolves (st (ps w) v) (st p' v)).
      { intros v Hv. eapply prim_step_st_other; eauto; [rewrite Hp; reflexivity|now apply runnable_not_ns]. }
      assert (Hb : blocked_on MC (st (ps w) u) = true) by (eapply blocked_evolves; [apply Hev; auto|exact Hu]).
      assert (Hframe : forall v, v <> t -> tc (after_return (set_ps w p') t (pc (tc w t)) r) v = tc w v)
        by (intros; rewrite tc_after_return_other by auto; reflexivity).
      assert (Hev' : forall v, v <> t -> st_evolves (st (ps w) v) (st (ps (after_return (set_ps w p') t (pc (tc w t)) r)) v))
        by (intros; rewrite ps_after_return; wsimpl; auto).
      destruct (pc (tc w t)) eqn:Hpc'; try congruence.
      (* the three program points of Monitor::set and the return from the wait are special; everything else is a frame *)
      all: try (exists t; cbn [after_return]; wsimpl; upd_simpl; wsimpl; auto; fail).
      all: try (eapply mon_release_frame with (t := t) (w := w);
                [exact Hframe|exact Hev'
                |rewrite Hpc'; repeat split; try discriminate; intros ? ? ? [_ ?]; discriminate
                |rewrite mark_after_return in Hmk by discriminate;
                 rewrite monf_after_return_other in Hf by (try discriminate; intros; discriminate); wsimpl; eapply HM; eauto]; fail).
      * (* MonWaitCond returns: the flag is down afterwards whatever the return code *)
        revert Hf. cbn [after_return]. wsimpl.
        destruct (monf w) eqn:Hmf; wsimpl; [intros Hf; discriminate|].
        destruct (timed dl && negb (r =? 0)); wsimpl; intros Hf; congruence.
      * (* MonSetSignal : the signal wakes a blocked waiter *)
        prim_inv Hp. match goal with H : _ \/ _ |- _ => destruct H as [[-> Hnone]|(x & Hbx & Hin & ->)] end.
        -- rewrite (Hnone u) in Hb; [discriminate|]. apply H3. exact Hb.
        -- exists x. assert (Hxt : x <> t) by (intros ->; apply I2_self_ok with (t := t) in H2; auto; destruct H2 as [E|(? & ? & ? & ? & E & _)]; rewrite E in Hbx; discriminate).
           rewrite Hframe by auto. rewrite ps_after_return. wsimpl. upd_simpl.
           pose proof (H2 x) as H2x. destruct (st (ps w) x) eqn:Hsx; try discriminate. cbn in Hbx. apply Nat.eqb_eq in Hbx. subst c.
           cbn in H2x. apply cond_pc_shape in H2x as [(_ & E & _)|(-> & _ & ->)]; [discriminate|].
           right; right. cbn. eauto.
  - destruct (st (ps w) t) eqn:Hst; try exact HM.
    + destruct (is_sem_wait (pc (tc w t))) eqn:Hsw; [|exact HM]. rewrite ps_after_return. intros Hf u Hu Hmk.
      assert (Hp : (forall dl, pc (tc w t) <> MonWaitCond dl) /\ pc (tc w t) <> MonSetLock) by (destruct (pc (tc w t)); try discriminate; split; intros; discriminate).
      rewrite mark_after_return in Hmk by tauto. rewrite monf_after_return_other in Hf by tauto.
      eapply mon_release_frame with (t := t) (w := w);
        [intros; now apply tc_after_return_other|intros; rewrite ps_after_return; left; reflexivity| |eapply HM; eauto].
      destruct (pc (tc w t)); try discriminate; repeat split; try discriminate; intros ? ? ? [_ ?]; discriminate.
    + wsimpl. intros Hf u Hu Hmk. pose proof (H2 t) as H2t. rewrite Hst in H2t. cbn in H2t.
      assert (Hun : u <> t /\ blocked_on MC (st (ps w) u) = true).
      { revert Hu. unfold prim_spurious. rewrite Hst. wsimpl. destruct (Nat.eq_dec u t) as [->|]; upd_simpl; cbn; intros; try discriminate; auto. }
      eapply mon_release_frame with (t := t) (w := w); [reflexivity| | |eapply HM; try exact Hmk; tauto].
      * intros v Hv. wsimpl. unfold prim_spurious. rewrite Hst. wsimpl. upd_simpl. left; reflexivity.
      * apply cond_pc_shape in H2t as [(-> & _)|(-> & _)]; repeat split; try discriminate; intros ? ? ? [E _]; rewrite Hst in E; discriminate.
  - destruct (st (ps w) t) eqn:Hst; try exact HM.
    + destruct (pc (tc w t)) eqn:Hpc'; try exact HM. destruct (_ && _); [|exact HM]. rewrite ps_after_return. intros Hf u Hu Hmk.
      rewrite mark_after_return in Hmk by discriminate. rewrite monf_after_return_other in Hf by (try discriminate; intros; discriminate).
      eapply mon_release_frame with (t := t) (w := w);
        [intros; now apply tc_after_return_other|intros; rewrite ps_after_return; left; reflexivity| |eapply HM; eauto].
      rewrite Hpc'. repeat split; try discriminate; intros ? ? ? [_ ?]; discriminate.
    + wsimpl. intros Hf u Hu Hmk. pose proof (H2 t) as H2t. rewrite Hst in H2t. cbn in H2t.
      assert (Hun : (forall v, v <> t -> st (prim_timeout (ps w) t) v = st (ps w) v) /\ blocked_on MC (st (ps w) u) = true).
      { revert Hu. unfold prim_timeout. rewrite Hst. destruct dl as [d|]; [|auto]. destruct (dl_expired d _); [|auto].
        wsimpl. split; [intros; now rewrite upd_other|]. revert Hu. destruct (Nat.eq_dec u t) as [->|]; upd_simpl; cbn; intros; try discriminate; auto. }
      eapply mon_release_frame with (t := t) (w := w); [reflexivity| | |eapply HM; try exact Hmk; tauto].
      * intros v Hv. wsimpl. destruct Hun as [Hun _]. rewrite Hun by auto. left; reflexivity.
      * apply cond_pc_shape in H2t as [(-> & _)|(-> & _)]; repeat split; try discriminate; intros ? ? ? [E _]; rewrite Hst in E; discriminate.
  - wsimpl. intros Hf u Hu Hmk.
    destruct (steal_shape (ps w) t) as [E|(m & rc & d & Hs & _ & E)]; rewrite E in *; [eapply HM; eauto|].
    assert (Hb : blocked_on MC (st (ps w) u) = true).
    { revert Hu. wsimpl. destruct (Nat.eq_dec u t) as [->|]; upd_simpl; [discriminate|auto]. }
    destruct (HM Hf u Hb Hmk) as (v & Hv). exists v. wsimpl.
    destruct Hv as [Hv|[Hv|(rc0 & dl & dl' & Hsv & Hp)]]; auto. right; right.
    destruct (Nat.eq_dec v t) as [->|]; upd_simpl; [|eauto].
    rewrite Hs in Hsv. inversion Hsv; subst. eauto.
  - exact HM.
  - wsimpl. intros Hf u Hu Hmk. destruct (HM Hf u) as (v & Hv); auto.
    + revert Hu. unfold prim_rotate. destruct (cnd (ps w) c); auto.
    + exists v. wsimpl. unfold prim_rotate. destruct (cnd (ps w) c); auto.
Qed.
