(* Sched.v - small-step rules of the POSIX primitives libnstd's synchronisation classes are
   written against: pthread mutex (plain / recursive), condition variable, counting semaphore,
   thread create / join / exit, and a scripted clock.  Executable, no proofs in this file.
   Reusable: a client supplies its own thread layer (what each thread calls next) and uses
   [prim_step] for a thread's pending call plus [prim_spurious] / [prim_timeout] / [prim_timeout_steal] / [prim_clock] /
   [prim_rotate] for the scheduler's own moves.

   Conventions
   * maps are total functions updated with [upd]; indices are nat;
   * return values are errno style: 0 = success, otherwise one of the constants below
     (sem_* return -1 and set errno in C; the model returns the errno value directly);
   * a deadline is the (tv_sec, tv_nsec) pair handed to the *timedwait call; it is valid iff
     0 <= tv_nsec < 10^9 (otherwise EINVAL, as glibc does), and it has expired iff
     tv_sec*10^9 + tv_nsec <= now (the scripted clock, in ns);
   * which waiter pthread_cond_signal wakes is unspecified by POSIX: the model wakes the first
     blocked thread of the condition's queue, and the scheduler may [Rotate] that queue at any
     time, so every choice is reachable;
   * a pthread_cond_timedwait whose deadline has passed may report ETIMEDOUT although a
     pthread_cond_signal / broadcast has already been directed at it and is thereby consumed (POSIX,
     pthread_cond_timedwait, "Timed Wait Semantics": the predicate must be re-evaluated whatever the
     return value): the scheduler move [TimeoutSteal] turns the return code of a woken timed waiter
     that has not yet re-acquired its mutex into ETIMEDOUT;
   * undefined behaviour (pthread_cond_wait on a mutex the caller does not own) stops the
     thread ([TFault]); unlocking a mutex one does not own returns EPERM and changes nothing for a
     recursive (or error-checking) mutex; a default-type mutex is not owner-checked by glibc: the
     unlock succeeds and the mutex becomes free whoever held it. *)
From Coq Require Import ZArith List Bool Arith.
Import ListNotations.
Local Open Scope Z_scope.

Definition tid := nat.  (* same as SyncSpec.tid *)
Definition EPERM := 1.  Definition EINTR := 4.  Definition EAGAIN := 11. Definition EBUSY := 16.
Definition EINVAL := 22. Definition ETIMEDOUT := 110.

Definition NS : Z := 1000000000.
Definition dlT := (Z * Z)%type.
Definition dl_valid (d : dlT) : bool := (0 <=? snd d) && (snd d <? NS).
Definition dl_total (d : dlT) : Z := fst d * NS + snd d.
Definition dl_expired (d : dlT) (now : Z) : bool := dl_total d <=? now.

Definition upd {A} (f : nat -> A) (k : nat) (v : A) : nat -> A :=
  fun x => if Nat.eqb x k then v else f x.

Record mutex := { m_rec : bool; m_owner : option tid; m_cnt : nat }.

Inductive tstat :=
| TNotStarted
| TRun                                              (* executing / able to issue its pending call *)
| TCondBlocked (c m : nat) (dl : option dlT)        (* inside cond_(timed)wait, mutex released *)
| TWoken (m : nat) (rc : Z) (dl : option dlT)       (* left the condition, must re-acquire m; rc = 0 | ETIMEDOUT *)
| TDone (v : Z)
| TFault.

Record prim_state := {
  mtx : nat -> mutex;
  cnd : nat -> list tid;
  sem : nat -> Z;
  st  : tid -> tstat;
  now : Z }.

Definition set_mtx p m x := {| mtx := upd (mtx p) m x; cnd := cnd p; sem := sem p; st := st p; now := now p |}.
Definition set_cnd p c q := {| mtx := mtx p; cnd := upd (cnd p) c q; sem := sem p; st := st p; now := now p |}.
Definition set_sem p s v := {| mtx := mtx p; cnd := cnd p; sem := upd (sem p) s v; st := st p; now := now p |}.
Definition set_st  p t x := {| mtx := mtx p; cnd := cnd p; sem := sem p; st := upd (st p) t x; now := now p |}.
Definition set_sts p f   := {| mtx := mtx p; cnd := cnd p; sem := sem p; st := f; now := now p |}.
Definition set_now p n   := {| mtx := mtx p; cnd := cnd p; sem := sem p; st := st p; now := n |}.

Inductive prim_call :=
| PYield
| PLock (m : nat) | PTryLock (m : nat) | PUnlock (m : nat)
| PCondWait (c m : nat) (dl : option dlT)
| PSignal (c : nat) | PBroadcast (c : nat)
| PSemWait (s : nat) (dl : option dlT) | PSemTry (s : nat) | PSemPost (s : nat)
| PCreate (child : tid) | PJoin (child : tid).

Inductive outcome :=
| Blocked                                  (* the call cannot complete in this state *)
| Progress (p : prim_state)                (* state changed, the call has not returned (cond wait entered) *)
| Return (p : prim_state) (r : Z).

Definition owned_by (x : mutex) (t : tid) : bool :=
  match m_owner x with Some o => Nat.eqb o t | None => false end.
Definition is_free (x : mutex) : bool :=
  match m_owner x with Some _ => false | None => true end.

Definition acquire (p : prim_state) (m : nat) (t : tid) : option prim_state :=
  let x := mtx p m in
  match m_owner x with
  | None => Some (set_mtx p m {| m_rec := m_rec x; m_owner := Some t; m_cnt := 1 |})
  | Some o => if Nat.eqb o t && m_rec x
              then Some (set_mtx p m {| m_rec := m_rec x; m_owner := Some t; m_cnt := S (m_cnt x) |})
              else None
  end.

Definition release (p : prim_state) (m : nat) : prim_state :=
  let x := mtx p m in
  match m_cnt x with
  | S (S k) => set_mtx p m {| m_rec := m_rec x; m_owner := m_owner x; m_cnt := S k |}
  | _ => set_mtx p m {| m_rec := m_rec x; m_owner := None; m_cnt := 0 |}
  end.

Definition release_all (p : prim_state) (m : nat) : prim_state :=
  set_mtx p m {| m_rec := m_rec (mtx p m); m_owner := None; m_cnt := 0 |}.

Definition blocked_on (c : nat) (s : tstat) : bool :=
  match s with TCondBlocked c' _ _ => Nat.eqb c' c | _ => false end.

Definition wake (rc : Z) (s : tstat) : tstat :=
  match s with TCondBlocked _ m dl => TWoken m rc dl | x => x end.

Definition remove_tid (t : tid) (q : list tid) : list tid := filter (fun x => negb (Nat.eqb x t)) q.

Definition dl_bad (dl : option dlT) : bool :=
  match dl with Some d => negb (dl_valid d) | None => false end.

Definition prim_step (p : prim_state) (t : tid) (c : prim_call) : outcome :=
  match c with
  | PYield => Return p 0
  | PLock m => match acquire p m t with Some p' => Return p' 0 | None => Blocked end
  | PTryLock m => match acquire p m t with Some p' => Return p' 0 | None => Return p EBUSY end
  | PUnlock m => if owned_by (mtx p m) t then Return (release p m) 0
                 else if m_rec (mtx p m) then Return p EPERM
                 else Return (release_all p m) 0
  | PCondWait c m dl =>
      match st p t with
      | TRun =>
          if negb (owned_by (mtx p m) t) then Progress (set_st p t TFault)
          else if dl_bad dl then Return p EINVAL
          else Progress (set_st (set_cnd (release_all p m) c (cnd p c ++ [t])) t (TCondBlocked c m dl))
      | TWoken m' rc _ =>
          if is_free (mtx p m')
          then Return (set_st (set_mtx p m' {| m_rec := m_rec (mtx p m'); m_owner := Some t; m_cnt := 1 |}) t TRun) rc
          else Blocked
      | _ => Blocked
      end
  | PSignal c =>
      match find (fun u => blocked_on c (st p u)) (cnd p c) with
      | Some u => Return (set_st (set_cnd p c (remove_tid u (cnd p c))) u (wake 0 (st p u))) 0
      | None => Return p 0
      end
  | PBroadcast c =>
      Return (set_sts (set_cnd p c []) (fun u => if blocked_on c (st p u) then wake 0 (st p u) else st p u)) 0
  | PSemWait s dl =>
      (* glibc order: take the semaphore if it is available, check abstime only before blocking *)
      if 0 <? sem p s then Return (set_sem p s (sem p s - 1)) 0
      else if dl_bad dl then Return p EINVAL else Blocked
  | PSemTry s => if 0 <? sem p s then Return (set_sem p s (sem p s - 1)) 0 else Return p EAGAIN
  | PSemPost s => Return (set_sem p s (sem p s + 1)) 0
  | PCreate ch =>
      match st p ch with
      | TNotStarted => Return (set_st p ch TRun) 0
      | _ => Return p EAGAIN
      end
  | PJoin ch => match st p ch with TDone v => Return p v | _ => Blocked end
  end.

(* scheduler moves on a thread blocked inside a condition wait *)
Definition prim_spurious (p : prim_state) (t : tid) : prim_state :=
  match st p t with
  | TCondBlocked c m dl => set_st (set_cnd p c (remove_tid t (cnd p c))) t (TWoken m 0 dl)
  | _ => p
  end.

Definition prim_timeout (p : prim_state) (t : tid) : prim_state :=
  match st p t with
  | TCondBlocked c m (Some d) =>
      if dl_expired d (now p) then set_st (set_cnd p c (remove_tid t (cnd p c))) t (TWoken m ETIMEDOUT (Some d)) else p
  | _ => p
  end.

(* the signal (or broadcast) reached a timed waiter whose deadline has passed: it reports the timeout *)
Definition prim_timeout_steal (p : prim_state) (t : tid) : prim_state :=
  match st p t with
  | TWoken m _ (Some d) =>
      if dl_expired d (now p) then set_st p t (TWoken m ETIMEDOUT (Some d)) else p
  | _ => p
  end.

Definition prim_clock (p : prim_state) (n : Z) : prim_state := set_now p (Z.max (now p) n).

Definition prim_rotate (p : prim_state) (c : nat) : prim_state :=
  match cnd p c with
  | [] => p
  | h :: q => set_cnd p c (q ++ [h])
  end.

Definition prim_exit (p : prim_state) (t : tid) (v : Z) : prim_state := set_st p t (TDone v).

Definition runnable (s : tstat) : bool :=
  match s with TRun | TWoken _ _ _ => true | _ => false end.

Definition prim_enabled (p : prim_state) (t : tid) (c : prim_call) : bool :=
  runnable (st p t) && match prim_step p t c with Blocked => false | _ => true end.

Inductive move := Run (t : tid) | Spurious (t : tid) | Timeout (t : tid) | TimeoutSteal (t : tid) | Clock (n : Z) | Rotate (c : nat).

Definition mk_mutex (r : bool) : mutex := {| m_rec := r; m_owner := None; m_cnt := 0 |}.
