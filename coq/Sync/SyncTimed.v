(* SyncTimed.v - a timed wait of Signal / Monitor / Semaphore returns false only after start + timeout *)
From Coq Require Import ZArith List Bool Arith Lia.
From Coq Require Import ZifyBool ZifyNat ZifyN.
From Sync Require Import Sched SyncSpec SyncModel SyncArith SyncInv SyncTrace.
Import ListNotations.
Ltac Zify.zify_post_hook ::= Z.div_mod_to_equations.
Local Open Scope Z_scope.

Ltac wsimpl :=
  cbn [ps sigf monf occ handle tc trace mark set_ps set_sigf set_monf set_occ set_handle set_tc emit set_marks
       goto finish finish_false with_pc pc script cur tstart result
       mtx cnd sem st now set_mtx set_cnd set_sem set_st set_sts set_now prim_exit] in *.
Ltac upd_simpl := repeat (progress (rewrite ?upd_same in *; rewrite ?upd_other in * by congruence)).
Ltac dif := repeat match goal with |- context [if ?b then _ else _] => destruct b eqn:? end.
Ltac ex_cur := repeat match goal with
                      | H : exists _, _ |- _ => destruct H
                      | H : _ /\ _ |- _ => destruct H end;
               try match goal with H : cur _ = _ |- _ => rewrite H in * end;
               try match goal with H : is_sig_wait (cur ?x) = true |- _ => destruct (cur x); try discriminate H end.
Ltac consts := unfold EPERM, EINTR, EAGAIN, EBUSY, EINVAL, ETIMEDOUT in *; cbn [Z.eqb Pos.eqb b2z negb andb orb] in *.

Lemma expired_ok ts ms nowv d : 0 <= ts <= nowv -> d = deadline_at ts ms ->
  (dl_valid d = false \/ dl_total d <= nowv) -> ts + ms * 1000000 <= nowv.
Proof.
  intros Hts -> H. destruct (Z_lt_le_dec ms 0) as [Hneg|Hpos]; [lia|].
  destruct (deadline_at_total ts ms) as [Hv Ht]; try lia.
  destruct H as [H|H]; [congruence|lia].
Qed.

Lemma prim_step_now p t c p' : outcome_state (prim_step p t c) = Some p' -> now p' = now p.
Proof.
  intros H. destruct c; cbn [prim_step] in H;
    repeat match goal with H : context [match ?x with _ => _ end] |- _ => destruct x eqn:?; try discriminate end;
    inv_outcome H; try reflexivity.
  - unfold acquire in *. repeat match goal with H : context [match ?x with _ => _ end] |- _ => destruct x eqn:?; try discriminate end;
      match goal with H : Some _ = Some _ |- _ => inversion H; subst end; reflexivity.
  - unfold acquire in *. repeat match goal with H : context [match ?x with _ => _ end] |- _ => destruct x eqn:?; try discriminate end;
      match goal with H : Some _ = Some _ |- _ => inversion H; subst end; reflexivity.
  - apply now_release.
Qed.

Lemma now_spurious p t : now (prim_spurious p t) = now p.
Proof. unfold prim_spurious. destruct (st p t); reflexivity. Qed.
Lemma now_timeout p t : now (prim_timeout p t) = now p.
Proof. unfold prim_timeout. destruct (st p t); try reflexivity. destruct dl; try reflexivity. destruct (dl_expired _ _); reflexivity. Qed.
Lemma now_rotate p c : now (prim_rotate p c) = now p.
Proof. unfold prim_rotate. destruct (cnd p c); reflexivity. Qed.

Definition woken_ok (nowv : Z) (s : tstat) : Prop :=
  match s with
  | TWoken _ rc dl => rc = 0 \/ (rc = ETIMEDOUT /\ exists d, dl = Some d /\ dl_total d <= nowv)
  | _ => True
  end.

Definition timed_local (w : world) (t : tid) : Prop :=
  0 <= tstart (tc w t) <= now (ps w) /\
  woken_ok (now (ps w)) (st (ps w) t) /\
  (pc (tc w t) = SigWaitUnlock false -> exists ms, cur (tc w t) = SigWaitT ms /\ tstart (tc w t) + ms * 1000000 <= now (ps w)).

Definition TimedInv (w : world) : Prop :=
  0 <= now (ps w) /\ timed_ok (trace w) = true /\ forall t, timed_local w t.

Lemma woken_ok_evolves n a b : st_evolves a b -> woken_ok n a -> woken_ok n b.
Proof. intros [->|[(c & m & dl & -> & ->)|[-> ->]]]; cbn; auto. Qed.

Lemma woken_ok_mono n n' s : n <= n' -> woken_ok n s -> woken_ok n' s.
Proof.
  intros Hn. destruct s; cbn; auto. intros [H|(H & d & Hd & Hle)]; [left; auto|right]. split; auto. exists d. split; auto. lia.
Qed.

Lemma timed_local_frame w w' u :
  tc w' u = tc w u -> now (ps w) <= now (ps w') ->
  woken_ok (now (ps w')) (st (ps w') u) ->
  timed_local w u -> timed_local w' u.
Proof.
  unfold timed_local. intros Htc Hn Hw (Ht & _ & Hp). rewrite Htc. split; [lia|]. split; auto.
  intros Hpc. destruct (Hp Hpc) as (ms & Hc & Hle). exists ms. split; auto. lia.
Qed.

Ltac timed_fin Hok := cbn [timed_ok timeout_of]; rewrite ?Hok; consts; try tauto.

Lemma TimedInv_step w mv : I1 w -> I2 w -> TimedInv w -> TimedInv (step w mv).
Proof.
  intros H1 H2 (Hn0 & Hok & HL). unfold TimedInv.
  destruct mv as [t|t|t|t|n|c]; cbn [step].
  - rewrite trace_clear_mark, ps_clear_mark.
    assert (Hcm : forall w', (forall u, timed_local w' u) -> forall u, timed_local (clear_mark_on_block w w' t) u).
    { intros w' H u. unfold timed_local. rewrite tc_clear_mark, ps_clear_mark. apply H. }
    destruct (step_run_case w t) as [|Hr Hpc Hs|op rest Hr Hpc Hs|p' Hr Hpc Hp|p' r Hr Hpc Hp].
    + split; [auto|split; [auto|]]. apply Hcm. exact HL.
    + wsimpl. timed_fin Hok. split; [auto|split; [auto|]]. apply Hcm. intros u. apply timed_local_frame with (w := w); auto; wsimpl; try lia.
      destruct (Nat.eq_dec u t) as [->|]; upd_simpl; [exact I|apply HL].
    + rewrite ps_begin_op. split; [|split]; auto.
      * destruct op; cbn [begin_op]; wsimpl; try destruct (handle w c); wsimpl; upd_simpl; wsimpl; timed_fin Hok.
      * apply Hcm. intros u. destruct (Nat.eq_dec u t) as [->|Hu].
        -- pose proof (HL t) as (Ht & Hw & _). unfold timed_local. rewrite ps_begin_op.
           destruct op; cbn [begin_op]; wsimpl; try destruct (handle w c); wsimpl; upd_simpl; wsimpl;
             (split; [lia|split; [exact Hw|intros; discriminate]]).
        -- apply timed_local_frame with (w := w); auto; rewrite ?ps_begin_op; try lia; [now apply tc_begin_op_other|apply HL].
    + wsimpl. assert (Hnow : now p' = now (ps w)) by (eapply prim_step_now; rewrite Hp; reflexivity).
      rewrite Hnow. split; [auto|split; [auto|]]. apply Hcm. intros u. apply timed_local_frame with (w := w); auto; wsimpl; rewrite ?Hnow; try lia.
      destruct (Nat.eq_dec u t) as [->|Hu].
      * apply prim_step_progress in Hp as (c' & m & dl & Hc & Hst' & [[_ ->]|(_ & _ & ->)]); wsimpl; upd_simpl; exact I.
      * eapply woken_ok_evolves; [|apply HL]. eapply prim_step_st_other; eauto; [rewrite Hp; reflexivity|now apply runnable_not_ns].
    + rewrite ps_after_return. wsimpl.
      assert (Hnow : now p' = now (ps w)) by (eapply prim_step_now; rewrite Hp; reflexivity).
      assert (Hself : st p' t = TRun) by (eapply prim_step_st_self_return; eauto; now apply I2_self_ok).
      rewrite Hnow. pose proof (HL t) as (Ht & Hw & Hfalse). pose proof (H2 t) as H2t.
      split; [auto|split].
      2:{ apply Hcm. intros u. destruct (Nat.eq_dec u t) as [->|Hu].
          - unfold timed_local. rewrite ps_after_return. wsimpl. rewrite Hnow, Hself.
            destruct (pc (tc w t)) eqn:Hpc'; try congruence; use_I1 H1 t Hpc';
              cbn [after_return]; wsimpl; consts; dif; wsimpl; upd_simpl; wsimpl;
              (split; [lia|split; [exact I|rewrite ?Hpc'; try (intros; discriminate)]]).
            (* SigWaitCond (timed) returned non-zero *)
            intros _. destruct dl as [d|]; [|discriminate]. cbn [pc_ok] in Hcur. destruct Hcur as ((ms & Hc) & (ms' & Hto & Hd)).
            rewrite Hc in Hto. cbn in Hto. inversion Hto; subst ms'. exists ms. split; auto.
            eapply expired_ok; [exact Ht|exact Hd|].
            prim_inv Hp.
            + left. cbn in H3. destruct (dl_valid d); [discriminate|reflexivity].
            + right. rewrite H in H2t, Hw. cbn in H2t, Hw. destruct H2t as (c0 & H2t). inversion H2t; subst.
              destruct Hw as [Hz|(_ & d' & Hd' & Hle)]; [subst r; cbn in Heqb; discriminate|]. inversion Hd'; subst. exact Hle.
          - apply timed_local_frame with (w := w); auto; rewrite ?ps_after_return; wsimpl; rewrite ?Hnow; try lia.
            + rewrite tc_after_return_other by auto. reflexivity.
            + eapply woken_ok_evolves; [|apply HL]. eapply prim_step_st_other; eauto; [rewrite Hp; reflexivity|now apply runnable_not_ns]. }
      destruct (pc (tc w t)) eqn:Hpc'; try congruence; use_I1 H1 t Hpc';
        cbn [after_return]; wsimpl; consts; dif; wsimpl; try destruct dl; cbn [pc_ok] in *; ex_cur; wsimpl; timed_fin Hok.
      * destruct (Hfalse eq_refl) as (ms & E & Hle). inversion E; subst. rewrite Hnow. lia.
      * destruct H0 as (ms' & Hto & Hd). cbn in Hto. inversion Hto; subst ms'. rewrite Hnow.
        assert (tstart (tc w t) + x * 1000000 <= now (ps w)); [|lia].
        eapply expired_ok; [split; eassumption|exact Hd|].
        prim_inv Hp.
        -- left. cbn in H6. destruct (dl_valid d); [discriminate|reflexivity].
        -- right. rewrite H0 in H2t, Hw. cbn in H2t, Hw. destruct H2t as (c0 & H2t). inversion H2t; subst.
           destruct Hw as [Hz|(_ & d' & Hd' & Hle)]; [subst r; cbn in Heqb; discriminate|]. inversion Hd'; subst. exact Hle.
      * destruct H0 as (ms' & Hto & Hd). cbn in Hto. inversion Hto; subst ms'. rewrite Hnow.
        assert (tstart (tc w t) + x * 1000000 <= now (ps w)); [|lia].
        eapply expired_ok; [split; eassumption|exact Hd|].
        prim_inv Hp; [subst r; discriminate|].
        left. cbn in H5. destruct (dl_valid (z, z0)); [discriminate|reflexivity].
  - destruct (st (ps w) t) eqn:Hst'; try (split; [auto|split; [auto|exact HL]]; fail).
    + destruct (is_sem_wait (pc (tc w t))) eqn:Hsw; [|split; [auto|split; [auto|exact HL]]]. rewrite ps_after_return.
      split; [auto|split].
      * destruct (pc (tc w t)) eqn:Hpc'; try discriminate; use_I1 H1 t Hpc'; cbn [after_return]; wsimpl; consts; ex_cur; timed_fin Hok.
      * intros u. pose proof (HL u) as HLu. destruct (Nat.eq_dec u t) as [->|Hu].
        -- unfold timed_local in *. rewrite ps_after_return.
           destruct (pc (tc w t)) eqn:Hpc'; try discriminate; cbn [after_return]; wsimpl; consts; upd_simpl; wsimpl; rewrite ?Hpc';
             (split; [tauto|split; [tauto|intros; discriminate]]).
        -- apply timed_local_frame with (w := w); auto; rewrite ?ps_after_return; try lia; [now apply tc_after_return_other|apply HLu].
    + wsimpl. rewrite now_spurious. split; [auto|split; [auto|]]. intros u. apply timed_local_frame with (w := w); auto; wsimpl; rewrite ?now_spurious; try lia.
      unfold prim_spurious. rewrite Hst'. wsimpl. destruct (Nat.eq_dec u t) as [->|]; upd_simpl; [cbn; auto|apply HL].
  - destruct (st (ps w) t) eqn:Hst'; try (split; [auto|split; [auto|exact HL]]; fail).
    + destruct (pc (tc w t)) eqn:Hpc'; try (split; [auto|split; [auto|exact HL]]; fail).
      destruct (dl_valid dl && dl_expired dl (now (ps w))) eqn:Hexp; [|split; [auto|split; [auto|exact HL]]].
      rewrite ps_after_return. split; [auto|split].
      * use_I1 H1 t Hpc'; cbn [after_return]; wsimpl; consts; wsimpl; ex_cur; wsimpl; timed_fin Hok.
        pose proof (HL t) as (Ht & _). destruct H0 as (ms' & Hto & Hd). cbn in Hto. inversion Hto; subst ms'.
        assert (tstart (tc w t) + x * 1000000 <= now (ps w)); [|lia].
        eapply expired_ok; [exact Ht|exact Hd|]. right. unfold dl_expired in Hexp. lia.
      * intros u. pose proof (HL u) as HLu. destruct (Nat.eq_dec u t) as [->|Hu].
        -- unfold timed_local in *. rewrite ps_after_return.
           cbn [after_return]; wsimpl; consts; wsimpl; upd_simpl; wsimpl; (split; [tauto|split; [tauto|intros; discriminate]]).
        -- apply timed_local_frame with (w := w); auto; rewrite ?ps_after_return; try lia; [now apply tc_after_return_other|apply HLu].
    + wsimpl. rewrite now_timeout. split; [auto|split; [auto|]]. intros u. apply timed_local_frame with (w := w); auto; wsimpl; rewrite ?now_timeout; try lia.
      unfold prim_timeout. rewrite Hst'. destruct dl as [d|]; [|apply HL]. destruct (dl_expired d (now (ps w))) eqn:Hexp; [|apply HL].
      wsimpl. destruct (Nat.eq_dec u t) as [->|]; upd_simpl; [|apply HL]. cbn. right. split; auto. exists d. split; auto.
      unfold dl_expired in Hexp. lia.
  - wsimpl.
    assert (Hnow : now (prim_timeout_steal (ps w) t) = now (ps w))
      by (destruct (steal_shape (ps w) t) as [->|(m & rc & d & _ & _ & ->)]; reflexivity).
    rewrite Hnow. split; [auto|split; [auto|]]. intros u. apply timed_local_frame with (w := w); auto; wsimpl; rewrite ?Hnow; try lia.
    destruct (steal_shape (ps w) t) as [->|(m & rc & d & Hs & Hexp & ->)]; [apply HL|].
    wsimpl. destruct (Nat.eq_dec u t) as [->|]; upd_simpl; [|apply HL]. cbn. right. split; auto. exists d. split; auto.
    unfold dl_expired in Hexp. lia.
  - wsimpl. unfold prim_clock. wsimpl. split; [lia|split; [auto|]]. intros u. apply timed_local_frame with (w := w); auto; wsimpl; try lia.
    eapply woken_ok_mono; [|apply HL]. lia.
  - wsimpl. rewrite now_rotate. split; [auto|split; [auto|]].
    intros u. apply timed_local_frame with (w := w); auto; wsimpl; rewrite ?now_rotate; try lia.
    unfold prim_rotate; destruct (cnd (ps w) c); wsimpl; apply HL.
Qed.
