(* SyncUnrepaired.v - Monitor::wait(timeout) as it stood before fixes/C11/01 (return false on a non-zero return
   code of pthread_cond_timedwait without looking at the flag), on the same primitives: the clause "a set() issued
   after a waiter has taken the monitor releases a waiter" is false of it once a timed-out waiter may have consumed
   the signal (TimeoutSteal).  Only the program point MonWaitCond differs from SyncModel.after_return. *)
From Coq Require Import ZArith List Bool Arith.
From Sync Require Import Sched SyncSpec SyncModel.
Import ListNotations.
Local Open Scope Z_scope.

Definition after_return_unrepaired (w : world) (t : tid) (p : pcT) (r : Z) : world :=
  match p with
  | MonWaitCond dl =>
      if timed dl && negb (r =? 0) then finish_false w t
      else if monf w then finish (set_monf w false) t 1 else goto w t (MonWaitCond dl)
  | _ => after_return w t p r
  end.

Definition step_run_unrepaired (w : world) (t : tid) : world :=
  if negb (runnable (st (ps w) t)) then w else
  let c := tc w t in
  match pc c with
  | Idle =>
      match script c with
      | [] => emit (set_ps w (prim_exit (ps w) t (result c))) (EvExit t (result c))
      | op :: rest => begin_op w t op rest
      end
  | p =>
      match prim_step (ps w) t (pending p) with
      | Blocked => w
      | Progress p' => set_ps w p'
      | Return p' r => after_return_unrepaired (set_ps w p') t p r
      end
  end.

Definition step_unrepaired (w : world) (mv : move) : world :=
  match mv with
  | Run t => clear_mark_on_block w (step_run_unrepaired w t) t
  | _ => step w mv
  end.

Definition run_unrepaired (w : world) (sched : list move) : world := fold_left step_unrepaired sched w.

(* W1 = thread 0: lock, wait();  W2 = thread 1: lock, wait(10);  thread 2: set() *)
Definition steal_scripts (t : tid) : list libcall :=
  match t with
  | O => [MonLock; MonWait; MonUnlock]
  | S O => [MonLock; MonWaitT 10; MonUnlock]
  | S (S O) => [MonSet]
  | _ => []
  end.
Definition steal_schedule : list move :=
  repeat (Run 0%nat) 4 ++ repeat (Run 1%nat) 4 ++ [Rotate MC] ++ repeat (Run 2%nat) 4 ++
  [Clock 10000000; TimeoutSteal 1%nat] ++ repeat (Run 1%nat) 3 ++ repeat (Run 2%nat) 1.

(* after the schedule: the flag is up, W1 is blocked and was blocked when set() wrote the flag, W2 has returned FALSE
   (after its timeout: that part of the contract holds) and nobody is left who could release W1: no thread is inside
   set(), no thread is woken; the other threads have finished or are idle *)
Lemma unrepaired_loses_wakeup :
  let w := run_unrepaired (init steal_scripts res100 (fun _ => true) false 0) steal_schedule in
  monf w = true /\ blocked_on MC (st (ps w) 0%nat) = true /\ mark w 0%nat = true /\
  hd_error (trace w) = Some (EvExit 2%nat 102) /\
  In (EvRet 1%nat (MonWaitT 10) 0) (trace w) /\
  forall v, pc (tc w v) <> MonSetLock /\ pc (tc w v) <> MonSetUnlock /\ pc (tc w v) <> MonSetSignal /\
            (forall m rc dl, st (ps w) v <> TWoken m rc dl) /\
            (v <> 0%nat -> script (tc w v) = [] /\ (st (ps w) v = TRun \/ exists x, st (ps w) v = TDone x)).
Proof.
  split; [vm_compute; reflexivity|]. split; [vm_compute; reflexivity|]. split; [vm_compute; reflexivity|].
  split; [vm_compute; reflexivity|]. split; [vm_compute; tauto|].
  intros v. destruct v as [|[|[|v]]]; vm_compute;
    (split; [discriminate|]); (split; [discriminate|]); (split; [discriminate|]); (split; [intros; discriminate|]);
    intros H; try congruence; split; eauto.
Qed.
