(* SyncArith.v - the deadline arithmetic shared by Signal::wait(t), Monitor::wait(t), Semaphore::wait(t) *)
From Coq Require Import ZArith List Bool Arith Lia.
From Coq Require Import ZifyBool ZifyNat ZifyN.
From Sync Require Import Sched SyncSpec SyncModel.
Ltac Zify.zify_post_hook ::= Z.div_mod_to_equations.
Local Open Scope Z_scope.

Lemma deadline_div_mod s ns t : 0 <= t -> 0 <= ns ->
  deadline s ns t = (s + t / 1000 + (ns + (t mod 1000) * 1000000) / NS, (ns + (t mod 1000) * 1000000) mod NS).
Proof.
  intros Ht Hns. unfold deadline, NS.
  rewrite (Z.rem_mod_nonneg t 1000) by lia.
  rewrite (Z.quot_div_nonneg t 1000) by lia.
  assert (H : 0 <= ns + t mod 1000 * 1000000) by lia.
  rewrite Z.quot_div_nonneg by lia. rewrite Z.rem_mod_nonneg by lia. reflexivity.
Qed.

(* the absolute time handed to the OS is exactly start + timeout, with a normalised nanosecond field,
   and no intermediate value leaves [0, 2*10^9) (so nothing overflows a long) *)
Lemma deadline_exact_lemma s ns t : 0 <= t -> 0 <= ns < NS ->
  0 <= snd (deadline s ns t) < NS /\
  fst (deadline s ns t) * NS + snd (deadline s ns t) = s * NS + ns + t * 1000000 /\
  0 <= ns + Z.rem t 1000 * 1000000 < 2 * NS.
Proof.
  intros Ht Hns. rewrite deadline_div_mod by lia.
  rewrite (Z.rem_mod_nonneg t 1000) by lia.
  unfold NS in *. cbn [fst snd]. lia.
Qed.

Lemma deadline_is_spec_lemma s ns t : 0 <= t -> 0 <= ns < NS -> deadline s ns t = spec_deadline s ns t.
Proof.
  intros Ht Hns. rewrite deadline_div_mod by lia. unfold spec_deadline, NS in *.
  f_equal; lia.
Qed.

Lemma deadline_at_total nowv ms : 0 <= nowv -> 0 <= ms ->
  dl_valid (deadline_at nowv ms) = true /\ dl_total (deadline_at nowv ms) = nowv + ms * 1000000.
Proof.
  intros Hn Hm. unfold deadline_at.
  assert (Hr : 0 <= nowv mod NS < NS) by (unfold NS; lia).
  destruct (deadline_exact_lemma (nowv / NS) (nowv mod NS) ms Hm Hr) as (Hv & Ht & _).
  split.
  - unfold dl_valid. lia.
  - unfold dl_total. rewrite Ht. unfold NS. lia.
Qed.

(* for every timeout (also a negative one) a deadline the OS accepts is never later than start + timeout:
   a wait that the OS ends with ETIMEDOUT when the deadline has passed ... *)
Lemma deadline_at_total_any nowv ms : 0 <= nowv ->
  dl_valid (deadline_at nowv ms) = true -> dl_total (deadline_at nowv ms) = nowv + ms * 1000000.
Proof.
  intros Hn Hv. unfold deadline_at, deadline, dl_valid, dl_total, NS in *. cbn [fst snd] in *.
  pose proof (Z.quot_rem' ms 1000) as Hq.
  pose proof (Z.quot_rem' (nowv mod 1000000000 + Z.rem ms 1000 * 1000000) 1000000000) as Hq2.
  lia.
Qed.
