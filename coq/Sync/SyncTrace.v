(* SyncTrace.v - history (trace) invariants: Semaphore conservation, Monitor counting, Mutex exclusion,
   Signal wait/set/reset, Thread::join *)
From Coq Require Import ZArith List Bool Arith Lia.
From Coq Require Import ZifyBool ZifyNat ZifyN.
From Sync Require Import Sched SyncSpec SyncModel SyncArith SyncInv.
Import ListNotations.
Ltac Zify.zify_post_hook ::= Z.div_mod_to_equations.
Local Open Scope Z_scope.

Ltac wsimpl :=
  cbn [ps sigf monf occ handle tc trace mark set_ps set_sigf set_monf set_occ set_handle set_tc emit set_marks
       goto finish finish_false with_pc pc script cur tstart result
       mtx cnd sem st now set_mtx set_cnd set_sem set_st set_sts set_now prim_exit] in *.
Ltac upd_simpl := repeat (progress (rewrite ?upd_same in *; rewrite ?upd_other in * by congruence)).
Ltac dif := repeat match goal with |- context [if ?b then _ else _] => destruct b eqn:? end.
Ltac ex_cur := repeat match goal with
                      | H : exists _, _ |- _ => destruct H
                      | H : _ /\ _ |- _ => destruct H end;
               try match goal with H : cur _ = _ |- _ => rewrite H in * end;
               try match goal with H : is_sig_wait (cur ?x) = true |- _ => destruct (cur x); try discriminate H end.
Ltac consts := unfold EPERM, EINTR, EAGAIN, EBUSY, EINVAL, ETIMEDOUT in *; cbn [Z.eqb Pos.eqb b2z negb andb orb] in *.

(* ---- Semaphore ---- *)
Definition SemInv (v0 : Z) (w : world) : Prop :=
  sem_waits (trace w) + sem (ps w) XS = v0 + sem_signals (trace w) /\ 0 <= sem (ps w) XS /\ sem_ok v0 (trace w) = true.

Lemma SemInv_step v0 w mv : I1 w -> SemInv v0 w -> SemInv v0 (step w mv).
Proof.
  intros H1 (HJ & Hp0 & Hok). unfold SemInv. destruct mv as [t|t|t|t|n|c]; cbn [step].
  - rewrite trace_clear_mark, ps_clear_mark.
    destruct (step_run_case w t) as [|Hr Hpc Hs|op rest Hr Hpc Hs|p' Hr Hpc Hp|p' r Hr Hpc Hp].
    + tauto.
    + wsimpl. cbn [sem_ok sem_waits sem_signals]; rewrite ?Hok. repeat repeat split; lia.
    + rewrite ps_begin_op. destruct op; cbn [begin_op]; wsimpl; try destruct (handle w c); wsimpl; upd_simpl; wsimpl;
        cbn [sem_ok sem_waits sem_signals is_sem_wait_call andb]; rewrite ?Hok; consts; try tauto; repeat split; lia.
    + wsimpl. apply prim_step_progress in Hp as (c' & m & dl & Hc & Hst & [[_ ->]|(_ & _ & ->)]); wsimpl; tauto.
    + rewrite ps_after_return. wsimpl.
      destruct (pc (tc w t)) eqn:Hpc'; try congruence; use_I1 H1 t Hpc'; prim_inv Hp; subst; unfold release_all in *;
        cbn [after_return]; wsimpl; consts; dif; wsimpl; try destruct dl; cbn [pc_ok] in *; ex_cur;
        cbn [sem_ok sem_waits sem_signals is_sem_wait_call is_sig_wait andb b2z]; rewrite ?Hok; unfold XS in *; upd_simpl;
        rewrite ?sem_release;
        try match goal with H : mtx ?a = mtx _ |- _ => try rewrite H; clear H end;
        try match goal with H : sem ?a = sem _ |- _ => rewrite H in * end;
        try match goal with H : _ \/ _ |- _ => destruct H as [[-> ?]|(? & ? & ? & ->)] end; wsimpl; consts;
        try (repeat split; lia).
  - destruct (st (ps w) t) eqn:Hst; try tauto.
    + destruct (is_sem_wait (pc (tc w t))) eqn:Hsw; [|tauto]. rewrite ps_after_return.
      destruct (pc (tc w t)) eqn:Hpc'; try discriminate; use_I1 H1 t Hpc'; cbn [after_return]; wsimpl; consts; ex_cur;
        cbn [sem_ok sem_waits sem_signals is_sem_wait_call andb]; rewrite ?Hok; consts; try tauto; try (repeat split; lia).
    + wsimpl. unfold prim_spurious. rewrite Hst. wsimpl. tauto.
  - destruct (st (ps w) t) eqn:Hst; try tauto.
    + destruct (pc (tc w t)) eqn:Hpc'; try tauto. destruct (_ && _); [|tauto]. rewrite ps_after_return.
      use_I1 H1 t Hpc'; cbn [after_return]; wsimpl; consts; wsimpl; ex_cur;
        cbn [sem_ok sem_waits sem_signals is_sem_wait_call andb]; rewrite ?Hok; consts; try tauto; repeat split; lia.
    + wsimpl. unfold prim_timeout. rewrite Hst. destruct dl as [d|]; [|tauto]. destruct (dl_expired d _); wsimpl; tauto.
  - wsimpl. destruct (steal_shape (ps w) t) as [->|(m & rc & d & _ & _ & ->)]; wsimpl; tauto.
  - wsimpl. tauto.
  - wsimpl. unfold prim_rotate. destruct (cnd (ps w) c); wsimpl; tauto.
Qed.

(* ---- Monitor ---- *)
Definition MonInv (w : world) : Prop :=
  mon_waits (trace w) + b2z (monf w) <= mon_sets (trace w) /\ mon_ok (trace w) = true.

Lemma monf_begin_op w t op rest : monf (begin_op w t op rest) = monf w.
Proof. destruct op; cbn [begin_op]; wsimpl; try destruct (handle w c); reflexivity. Qed.

Ltac mon_fin Hok := try match goal with H : monf ?w = _ |- context [monf ?w] => rewrite H end; cbn [mon_ok mon_waits mon_sets is_mon_wait is_sig_wait andb b2z]; rewrite ?Hok; consts; try tauto; try (repeat split; lia).

Lemma MonInv_step w mv : I1 w -> MonInv w -> MonInv (step w mv).
Proof.
  intros H1 (HJ & Hok). unfold MonInv.
  assert (Hb : 0 <= b2z (monf w) <= 1) by (destruct (monf w); cbn; lia).
  destruct mv as [t|t|t|t|n|c]; cbn [step].
  - rewrite trace_clear_mark, monf_clear_mark.
    destruct (step_run_case w t) as [|Hr Hpc Hs|op rest Hr Hpc Hs|p' Hr Hpc Hp|p' r Hr Hpc Hp].
    + tauto.
    + wsimpl. mon_fin Hok.
    + rewrite monf_begin_op. destruct op; cbn [begin_op]; wsimpl; try destruct (handle w c); wsimpl; upd_simpl; wsimpl; mon_fin Hok.
    + wsimpl. tauto.
    + clear Hp. destruct (pc (tc w t)) eqn:Hpc'; try congruence; use_I1 H1 t Hpc';
        cbn [after_return]; wsimpl; consts; dif; wsimpl; try destruct dl; cbn [pc_ok] in *; ex_cur; wsimpl; mon_fin Hok.
  - destruct (st (ps w) t) eqn:Hst; try tauto.
    destruct (is_sem_wait (pc (tc w t))) eqn:Hsw; [|tauto].
    destruct (pc (tc w t)) eqn:Hpc'; try discriminate; use_I1 H1 t Hpc'; cbn [after_return]; wsimpl; consts; ex_cur; mon_fin Hok.
  - destruct (st (ps w) t) eqn:Hst; try tauto.
    destruct (pc (tc w t)) eqn:Hpc'; try tauto. destruct (_ && _); [|tauto].
    use_I1 H1 t Hpc'; cbn [after_return]; wsimpl; consts; wsimpl; ex_cur; mon_fin Hok.
  - wsimpl. tauto.
  - wsimpl. tauto.
  - wsimpl. tauto.
Qed.

(* ---- Thread::join ---- *)
Definition done_ok (s : tstat) (e : option Z) : Prop :=
  match s with TDone v => e = Some v | _ => e = None end.
Definition JoinInv (w : world) : Prop :=
  (forall u, done_ok (st (ps w) u) (exited (trace w) u)) /\ join_ok (trace w) = true.

Lemma done_ok_evolves a b e : st_evolves a b -> done_ok a e -> done_ok b e.
Proof. intros [->|[(c & m & dl & -> & ->)|[-> ->]]]; cbn; auto. Qed.

Lemma done_ok_runnable s e : runnable s = true -> done_ok s e -> e = None.
Proof. destruct s; cbn; auto; discriminate. Qed.

Ltac join_fin Hok := cbn [join_ok exited]; rewrite ?Hok; consts; try tauto.

Lemma JoinInv_step w mv : I1 w -> I2 w -> JoinInv w -> JoinInv (step w mv).
Proof.
  intros H1 H2 (HJ & Hok). unfold JoinInv.
  destruct mv as [t|t|t|t|n|c]; cbn [step].
  - rewrite trace_clear_mark, ps_clear_mark.
    destruct (step_run_case w t) as [|Hr Hpc Hs|op rest Hr Hpc Hs|p' Hr Hpc Hp|p' r Hr Hpc Hp].
    + tauto.
    + wsimpl. cbn [join_ok exited]. split; auto. intros u. destruct (Nat.eqb_spec t u) as [->|Hu]; upd_simpl; cbn; auto.
    + rewrite ps_begin_op. destruct op; cbn [begin_op]; wsimpl; try destruct (handle w c); wsimpl; upd_simpl; wsimpl; join_fin Hok.
    + wsimpl. split; auto. intros u. destruct (Nat.eq_dec u t) as [->|Hu].
      * pose proof (done_ok_runnable _ _ Hr (HJ t)) as ->.
        apply prim_step_progress in Hp as (c' & m & dl & Hc & Hst & [[_ ->]|(_ & _ & ->)]); wsimpl; upd_simpl; cbn; auto.
      * eapply done_ok_evolves; [|apply HJ]. eapply prim_step_st_other; eauto; [rewrite Hp; reflexivity|now apply runnable_not_ns].
    + rewrite ps_after_return. wsimpl.
      assert (Hst : forall u, done_ok (st p' u) (exited (trace w) u)).
      { intros u. destruct (Nat.eq_dec u t) as [->|Hu].
        - pose proof (done_ok_runnable _ _ Hr (HJ t)) as ->.
          erewrite prim_step_st_self_return; eauto; [reflexivity|now apply I2_self_ok].
        - eapply done_ok_evolves; [|apply HJ]. eapply prim_step_st_other; eauto; [rewrite Hp; reflexivity|now apply runnable_not_ns]. }
      destruct (pc (tc w t)) eqn:Hpc'; try congruence;
        cbn [after_return]; wsimpl; consts; dif; wsimpl; join_fin Hok.
      prim_inv Hp. subst p'. pose proof (HJ c) as Hc. rewrite H in Hc. cbn in Hc. rewrite Hc, Z.eqb_refl. tauto.
  - destruct (st (ps w) t) eqn:Hst; try tauto.
    + destruct (is_sem_wait (pc (tc w t))) eqn:Hsw; [|tauto]. rewrite ps_after_return.
      destruct (pc (tc w t)) eqn:Hpc'; try discriminate; cbn [after_return]; wsimpl; consts; join_fin Hok.
    + wsimpl. split; auto. intros u. unfold prim_spurious. rewrite Hst. wsimpl. pose proof (HJ u) as Hu. pose proof (HJ t) as Ht.
      rewrite Hst in Ht. destruct (Nat.eq_dec u t) as [->|]; upd_simpl; auto.
  - destruct (st (ps w) t) eqn:Hst; try tauto.
    + destruct (pc (tc w t)) eqn:Hpc'; try tauto. destruct (_ && _); [|tauto]. rewrite ps_after_return.
      cbn [after_return]; wsimpl; consts; wsimpl; join_fin Hok.
    + wsimpl. split; auto. intros u. unfold prim_timeout. rewrite Hst. destruct dl as [d|]; [|apply HJ]. destruct (dl_expired d _); [|apply HJ].
      wsimpl. pose proof (HJ u) as Hu. pose proof (HJ t) as Ht.
      rewrite Hst in Ht. destruct (Nat.eq_dec u t) as [->|]; upd_simpl; auto.
  - wsimpl. split; auto. intros u. destruct (steal_shape (ps w) t) as [->|(m & rc & d & Hst & _ & ->)]; [apply HJ|].
    wsimpl. pose proof (HJ u) as Hu. pose proof (HJ t) as Ht.
    rewrite Hst in Ht. destruct (Nat.eq_dec u t) as [->|]; upd_simpl; auto.
  - wsimpl. tauto.
  - wsimpl. split; auto. intros u. unfold prim_rotate. destruct (cnd (ps w) c); apply HJ.
Qed.

(* ---- Mutex ---- *)
Definition held_spec (x : mutex) (u : tid) : nat :=
  match m_owner x with Some o => if Nat.eqb o u then m_cnt x else O | None => O end.
Definition MtxInv (w : world) : Prop :=
  (forall u, held (trace w) u = held_spec (mtx (ps w) XM) u) /\ mtx_ok (trace w) = true.

Lemma pending_cond_not_XM p c m dl : pending p = PCondWait c m dl -> m <> XM.
Proof. destruct p; cbn; intros H; inversion H; subst; discriminate. Qed.

Lemma forallb_true_intro {A} (f : A -> bool) l : (forall x, f x = true) -> forallb f l = true.
Proof. intros H. induction l; cbn; auto. rewrite H, IHl; auto. Qed.

Ltac mtx_fin Hok := cbn [mtx_ok held acquires ev_tid]; rewrite ?Hok; consts; try tauto.

Lemma MtxInv_step w mv : I1 w -> I2 w -> m_rec (mtx (ps w) XM) = true -> MtxInv w -> MtxInv (step w mv).
Proof.
  intros H1 H2 Hrec (HJ & Hok). unfold MtxInv.
  destruct mv as [t|t|t|t|n|c]; cbn [step].
  - rewrite trace_clear_mark, ps_clear_mark.
    destruct (step_run_case w t) as [|Hr Hpc Hs|op rest Hr Hpc Hs|p' Hr Hpc Hp|p' r Hr Hpc Hp].
    + tauto.
    + wsimpl. mtx_fin Hok.
    + rewrite ps_begin_op. destruct op; cbn [begin_op]; wsimpl; try destruct (handle w c); wsimpl; upd_simpl; wsimpl; mtx_fin Hok.
    + wsimpl. split; auto. intros u. rewrite HJ.
      apply prim_step_progress in Hp as (c' & m & dl & Hc & Hst & [[_ ->]|(_ & _ & ->)]); wsimpl; auto.
      apply pending_cond_not_XM in Hc. unfold release_all. wsimpl. rewrite upd_other by auto. reflexivity.
    + rewrite ps_after_return. wsimpl. pose proof (H2 t) as H2t.
      destruct (pc (tc w t)) eqn:Hpc'; try congruence; use_I1 H1 t Hpc'; prim_inv Hp; subst;
        cbn [after_return]; wsimpl; consts; dif; wsimpl; try destruct dl; cbn [pc_ok] in *; ex_cur; wsimpl;
        mtx_fin Hok;
        try match goal with H : st _ _ = TWoken _ _ _ |- _ => rewrite H in H2t; cbn in H2t; destruct H2t as (? & H2t); inversion H2t; subst end;
        unfold XM, SM, MM in *; wsimpl; upd_simpl; rewrite ?mtx_release_other by congruence;
        try match goal with H : mtx ?a = mtx _ |- _ => try rewrite H; clear H end;
        try match goal with H : _ \/ _ |- _ => destruct H as [[-> ?]|(? & ? & ? & ->)] end; wsimpl; upd_simpl;
        try tauto.
      all: rewrite ?andb_true_r, ?andb_false_r.
      1,2: (split;
        [ intros u; rewrite ?andb_true_r; rewrite HJ; unfold held_spec; cbn [m_owner m_cnt];
          destruct H3 as [[Ho ->]|(Ho & _ & ->)]; rewrite Ho; destruct (Nat.eqb_spec t u); auto
        | apply forallb_true_intro; intros u; rewrite HJ; unfold held_spec;
          destruct H3 as [[Ho _]|(Ho & _ & _)]; rewrite Ho; [apply orb_true_r|];
          rewrite (Nat.eqb_sym u t); destruct (Nat.eqb_spec t u); auto ]).
      * split; auto. intros u. rewrite andb_false_r. apply HJ.
      * split; auto. intros u. rewrite HJ. unfold owned_by in H. unfold held_spec, release.
        destruct (m_owner (mtx (ps w) 2)) as [o|] eqn:Ho; [|discriminate]. apply Nat.eqb_eq in H. subst o.
        destruct (m_cnt (mtx (ps w) 2)) as [|[|k]] eqn:Hk; wsimpl; upd_simpl; cbn [m_owner m_cnt]; rewrite ?Ho;
          destruct (Nat.eqb_spec t u); auto.
      * split; auto. intros u. rewrite HJ. unfold owned_by in H. unfold held_spec.
        destruct (m_owner (mtx (ps w) 2)) as [o|] eqn:Ho; [|destruct (t =? u)%nat; auto].
        destruct (Nat.eqb_spec t u) as [<-|]; auto. rewrite H. reflexivity.
      * congruence.
  - destruct (st (ps w) t) eqn:Hst; try tauto.
    + destruct (is_sem_wait (pc (tc w t))) eqn:Hsw; [|tauto]. rewrite ps_after_return.
      destruct (pc (tc w t)) eqn:Hpc'; try discriminate; use_I1 H1 t Hpc'; cbn [after_return]; wsimpl; consts; ex_cur; mtx_fin Hok.
    + wsimpl. unfold prim_spurious. rewrite Hst. wsimpl. tauto.
  - destruct (st (ps w) t) eqn:Hst; try tauto.
    + destruct (pc (tc w t)) eqn:Hpc'; try tauto. destruct (_ && _); [|tauto]. rewrite ps_after_return.
      use_I1 H1 t Hpc'; cbn [after_return]; wsimpl; consts; wsimpl; ex_cur; mtx_fin Hok.
    + wsimpl. unfold prim_timeout. rewrite Hst. destruct dl as [d|]; [|tauto]. destruct (dl_expired d _); wsimpl; tauto.
  - wsimpl. destruct (steal_shape (ps w) t) as [->|(m & rc & d & _ & _ & ->)]; wsimpl; tauto.
  - wsimpl. tauto.
  - wsimpl. unfold prim_rotate. destruct (cnd (ps w) c); wsimpl; tauto.
Qed.
