(* Lemmas about the kernel's path text (ptoks) and the path walk of FsModel. *)
From Coq Require Import ZArith List Bool Lia.
From Path Require Import PathSpec PathModel PathProofs FsSpec FsModel FsTree.
Import ListNotations.
Local Open Scope Z_scope.

(* ---- path texts ---------------------------------------------------------------------------------- *)

Definition slashfree (c : str) : Prop := forallb (fun b => negb (b =? 47)) c = true.
Definition pwf (c : str) : Prop := c <> [] /\ slashfree c.

Lemma split_slash_nonnil p : split_slash p <> [].
Proof.
  induction p as [|c t IH]; simpl; [discriminate|].
  destruct (c =? 47); [discriminate|]. destruct (split_slash t); [contradiction|discriminate].
Qed.

Lemma split_slash_app a b : split_slash (a ++ 47 :: b) = split_slash a ++ split_slash b.
Proof.
  induction a as [|c a IH]; simpl; [reflexivity|].
  destruct (c =? 47).
  - rewrite IH. reflexivity.
  - rewrite IH. destruct (split_slash a) as [|h r] eqn:E; [exfalso; eapply split_slash_nonnil; eauto|].
    reflexivity.
Qed.

Lemma split_slash_free a : slashfree a -> split_slash a = [a].
Proof.
  unfold slashfree. induction a as [|c a IH]; simpl; auto. intro H.
  apply andb_true_iff in H as [H1 H2]. destruct (c =? 47); [discriminate|]. rewrite (IH H2). reflexivity.
Qed.

Lemma ptoks_app a b : ptoks (a ++ 47 :: b) = ptoks a ++ ptoks b.
Proof. unfold ptoks. rewrite split_slash_app. apply filter_app. Qed.

Lemma ptoks_free a : slashfree a -> ptoks a = if nonempty a then [a] else [].
Proof. intro H. unfold ptoks. rewrite split_slash_free by auto. simpl. destruct (nonempty a); reflexivity. Qed.

Lemma split_slash_all_free p : Forall slashfree (split_slash p).
Proof.
  induction p as [|c t IH]; simpl.
  - constructor; [reflexivity|constructor].
  - destruct (c =? 47) eqn:E.
    + constructor; [reflexivity|exact IH].
    + destruct (split_slash t) as [|h r]; [constructor; [|constructor]|].
      * unfold slashfree; simpl. rewrite E. reflexivity.
      * inversion IH; subst. constructor; auto. unfold slashfree in *; simpl. rewrite E. simpl. auto.
Qed.

Lemma ptoks_wf p : Forall pwf (ptoks p).
Proof.
  unfold ptoks. pose proof (split_slash_all_free p) as H. induction H as [|x l Hx Hl IH]; simpl; [constructor|].
  destruct x as [|c x]; simpl; auto. constructor; auto. split; [discriminate|auto].
Qed.

Lemma ptoks_join cs : Forall pwf cs -> ptoks (join cs) = cs.
Proof.
  induction cs as [|c cs IH]; intro H; [reflexivity|].
  inversion H as [|? ? [Hc1 Hc2] Hcs]; subst.
  destruct cs as [|d cs].
  - simpl. rewrite ptoks_free by auto. destruct c; [contradiction|reflexivity].
  - change (join (c :: d :: cs)) with (c ++ 47 :: join (d :: cs)).
    rewrite ptoks_app. rewrite IH by auto. rewrite ptoks_free by auto.
    destruct c; [contradiction|reflexivity].
Qed.

Lemma name_ok_pwf c : name_ok c = true -> pwf c /\ str_eqb c DOT1 = false /\ str_eqb c DOTDOT = false.
Proof.
  unfold name_ok. intro H. apply andb_true_iff in H as [H H4]. apply andb_true_iff in H as [H H3].
  apply andb_true_iff in H as [H1 H2]. apply negb_true_iff in H2, H3.
  repeat split; auto. destruct c; [discriminate|discriminate].
Qed.

Lemma pwf_name_ok c : pwf c -> str_eqb c DOT1 = false -> str_eqb c DOTDOT = false -> name_ok c = true.
Proof.
  intros [H1 H2] H3 H4. unfold name_ok. rewrite H3, H4, H2. destruct c; [contradiction|reflexivity].
Qed.

Lemma first_is_slash_pwf c t : pwf c -> first_is_slash (c ++ t) = false.
Proof.
  intros [H1 H2]. destruct c as [|x c]; [contradiction|]. simpl.
  unfold slashfree in H2. simpl in H2. apply andb_true_iff in H2 as [H2 _]. apply negb_true_iff in H2. exact H2.
Qed.

Lemma join_first_pwf c cs : pwf c -> first_is_slash (join (c :: cs)) = false /\ join (c :: cs) <> [].
Proof.
  intro H. destruct cs as [|d cs].
  - simpl. split.
    + rewrite <- (app_nil_r c). apply first_is_slash_pwf; auto.
    + destruct H; auto.
  - change (join (c :: d :: cs)) with (c ++ 47 :: join (d :: cs)). split.
    + apply first_is_slash_pwf; auto.
    + destruct H as [H _]. destruct c; [contradiction|discriminate].
Qed.

(* ---- one step of the walk --------------------------------------------------------------------- *)

Inductive wnext :=
| Done (x : wres)
| Cont (L : nat) (cur : cpath) (cs : list str).

Definition wstep (L : nat) (r : node) (follow : bool) (cur : cpath) (c : str) (rest : list str) : wnext :=
  if str_eqb c DOT1 then
    match rest with [] => Done (WDir cur 1) | _ => Cont L cur rest end
  else if str_eqb c DOTDOT then
    match rest with [] => Done (WDir (removelast cur) 2) | _ => Cont L (removelast cur) rest end
  else
    match sget r (cur ++ [c]) with
    | None => match rest with [] => Done (WAt cur c None) | _ => Done (WErr ENOENT) end
    | Some SDir => match rest with [] => Done (WAt cur c (Some SDir)) | _ => Cont L (cur ++ [c]) rest end
    | Some SFile => match rest with [] => Done (WAt cur c (Some SFile)) | _ => Done (WErr ENOTDIR) end
    | Some (SLink t) =>
        match rest, follow with
        | [], false => Done (WAt cur c (Some (SLink t)))
        | _, _ =>
            match L with
            | O => Done (WErr ELOOP)
            | S l =>
                match t with
                | [] => Done (WErr ENOENT)
                | _ => Cont l (if first_is_slash t then [] else cur) (ptoks t ++ rest)
                end
            end
        end
    end.

Lemma walk_nil L r fl cur : walk L r fl cur [] = WDir cur 0.
Proof. destruct L; reflexivity. Qed.

Lemma walk_cons L r fl cur c rest :
  walk L r fl cur (c :: rest) =
  match wstep L r fl cur c rest with
  | Done x => x
  | Cont L' cur' cs' => walk L' r fl cur' cs'
  end.
Proof.
  unfold wstep. destruct L as [|l].
  - simpl. destruct (str_eqb c DOT1); [destruct rest; reflexivity|].
    destruct (str_eqb c DOTDOT); [destruct rest; reflexivity|].
    destruct (sget r (cur ++ [c])) as [[| |t]|]; try (destruct rest; reflexivity).
    destruct rest; destruct fl; reflexivity.
  - simpl. destruct (str_eqb c DOT1); [destruct rest; reflexivity|].
    destruct (str_eqb c DOTDOT); [destruct rest; reflexivity|].
    destruct (sget r (cur ++ [c])) as [[| |t]|]; try (destruct rest; reflexivity).
    destruct rest; destruct fl; destruct t; reflexivity.
Qed.

(* the continuation is smaller: same link budget and the rest of the text, or one link less *)
Lemma wstep_cont L r fl cur c rest L' cur' cs' :
  wstep L r fl cur c rest = Cont L' cur' cs' ->
  (L' = L /\ cs' = rest) \/ (L = S L').
Proof.
  unfold wstep.
  destruct (str_eqb c DOT1); [destruct rest; intro H; inversion H; auto|].
  destruct (str_eqb c DOTDOT); [destruct rest; intro H; inversion H; auto|].
  destruct (sget r (cur ++ [c])) as [[| |t]|]; try (destruct rest; intro H; inversion H; auto; fail).
  destruct rest; destruct fl; destruct L; try (intro H; inversion H; fail);
    destruct t; intro H; inversion H; auto.
Qed.

(* induction along the walk *)
Lemma walk_ind r fl (P : nat -> cpath -> list str -> Prop) :
  (forall L cur, P L cur []) ->
  (forall L cur c rest,
      (forall L' cur' cs', wstep L r fl cur c rest = Cont L' cur' cs' -> P L' cur' cs') ->
      P L cur (c :: rest)) ->
  forall L cur cs, P L cur cs.
Proof.
  intros Hnil Hcons. induction L as [L IHL] using lt_wf_ind.
  intros cur cs. revert cur. induction cs as [|c rest IHcs]; intro cur; [apply Hnil|].
  apply Hcons. intros L' cur' cs' E.
  destruct (wstep_cont _ _ _ _ _ _ _ _ _ E) as [[-> ->]| ->].
  - apply IHcs.
  - apply IHL. lia.
Qed.

(* ---- W1: descending through real directories by proper names ---------------------------------- *)

Lemma walk_descend L r fl names : forall cur rest,
  Forall (fun c => name_ok c = true) names -> rest <> [] ->
  (exists es, get r (cur ++ names) = Some (NDir es)) ->
  walk L r fl cur (names ++ rest) = walk L r fl (cur ++ names) rest.
Proof.
  induction names as [|c names IH]; intros cur rest Hn Hr Hg.
  - rewrite app_nil_r. reflexivity.
  - inversion Hn as [|? ? Hc Hn']; subst.
    destruct (name_ok_pwf c Hc) as (_ & D1 & D2).
    change ((c :: names) ++ rest) with (c :: (names ++ rest)).
    rewrite walk_cons. unfold wstep. rewrite D1, D2.
    destruct Hg as [es Hg].
    assert (S : sget r (cur ++ [c]) = Some SDir).
    { replace (cur ++ c :: names) with ((cur ++ [c]) ++ names) in Hg by (rewrite <- app_assoc; reflexivity).
      destruct names as [|d names'].
      - rewrite app_nil_r in Hg. unfold sget. rewrite Hg. reflexivity.
      - apply get_below_dir in Hg as [es' Hg]. unfold sget. rewrite Hg. reflexivity. }
    rewrite S.
    destruct (names ++ rest) as [|x y] eqn:E.
    { apply app_eq_nil in E as [_ E]. contradiction. }
    rewrite <- E. rewrite IH; auto.
    + rewrite <- app_assoc. reflexivity.
    + exists es. rewrite <- app_assoc. exact Hg.
Qed.

Lemma walk_last L r cur c : name_ok c = true -> walk L r false cur [c] = WAt cur c (sget r (cur ++ [c])).
Proof.
  intro Hc. destruct (name_ok_pwf c Hc) as (_ & D1 & D2).
  rewrite walk_cons. unfold wstep. rewrite D1, D2.
  destruct (sget r (cur ++ [c])) as [[| |t]|]; reflexivity.
Qed.

Lemma walk_last_follow L r cur c :
  name_ok c = true -> (forall t, sget r (cur ++ [c]) <> Some (SLink t)) ->
  walk L r true cur [c] = WAt cur c (sget r (cur ++ [c])).
Proof.
  intros Hc Hl. destruct (name_ok_pwf c Hc) as (_ & D1 & D2).
  rewrite walk_cons. unfold wstep. rewrite D1, D2.
  destruct (sget r (cur ++ [c])) as [[| |t]|]; try reflexivity. exfalso. eapply Hl. reflexivity.
Qed.

Lemma resolve_nonempty st fl path :
  path <> [] ->
  resolve st fl path = walk MAXLINKS (root st) fl (if first_is_slash path then [] else cwd st) (ptoks path).
Proof. destruct path; [contradiction|reflexivity]. Qed.

(* a relative text made of proper names, all but the last leading through real directories *)
Lemma resolve_plain st fl names c :
  Forall (fun c => name_ok c = true) (names ++ [c]) ->
  (exists es, get (root st) (cwd st ++ names) = Some (NDir es)) ->
  (fl = true -> forall t, sget (root st) (cwd st ++ names ++ [c]) <> Some (SLink t)) ->
  resolve st fl (join (names ++ [c])) = WAt (cwd st ++ names) c (sget (root st) (cwd st ++ names ++ [c])).
Proof.
  intros Hn Hg Hl.
  assert (Hp : Forall pwf (names ++ [c])).
  { eapply Forall_impl; [|exact Hn]. intros a Ha. apply name_ok_pwf in Ha. tauto. }
  pose proof Hn as Hn0. apply Forall_app in Hn0 as [Hn1 Hc]. inversion Hc as [|? ? Hc' _]; subst.
  destruct (names ++ [c]) as [|x y] eqn:E; [destruct names; discriminate|].
  inversion Hp as [|? ? Hx Hy]; subst.
  destruct (join_first_pwf x y Hx) as [F N].
  rewrite resolve_nonempty by auto. rewrite F.
  rewrite ptoks_join by (constructor; auto). rewrite <- E.
  rewrite walk_descend by (auto; discriminate).
  rewrite app_assoc.
  destruct fl.
  - apply walk_last_follow; auto. rewrite <- app_assoc. rewrite E. auto.
  - apply walk_last; auto.
Qed.
