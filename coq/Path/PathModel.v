(* PathModel — executable mirror of the path functions of src/File.cpp (POSIX and Windows
   share this code) after the repairs in fixes/C19/01..03.  Strings are byte lists; a C string
   cannot contain NUL, so String::compare is list equality here.  No proofs in this file. *)
From Coq Require Import ZArith List Bool.
From Path Require Import PathSpec.
Import ListNotations.
Local Open Scope Z_scope.

(* backward scan `for(pos = end-1; pos >= start; --pos) if(f(pos[0])) …`: the last position
   satisfying f, as (text before it, the character, text after it) *)
Fixpoint split_last (f : Z -> bool) (p : str) : option (str * Z * str) :=
  match p with
  | [] => None
  | c :: t => match split_last f t with
              | Some (a, s, b) => Some (c :: a, s, b)
              | None => if f c then Some ([], c, t) else None
              end
  end.

(* File::getDirectoryName *)
Definition getDirectoryName (file : str) : str :=
  match split_last is_sep file with
  | Some (a, _, _) => a                      (* file.substr(0, pos - start) *)
  | None => [46]                             (* "." *)
  end.

(* `result` / `resultLen` of getBaseName and getStem: the text after the last separator *)
Definition last_component (file : str) : str :=
  match split_last is_sep file with
  | Some (_, _, b) => b
  | None => file
  end.

(* File::getBaseName(file, extension) *)
Definition getBaseName (file ext : str) : str :=
  let r := last_component file in
  let rl := length r in
  let el := length ext in
  match ext with
  | [] => r
  | e0 :: _ =>
      if e0 =? 46 then
        if (el <=? rl)%nat && str_eqb (skipn (rl - el) r) ext then firstn (rl - el) r else r
      else
        if (el + 1 <=? rl)%nat && (nth (rl - (el + 1)) r 0 =? 46) && str_eqb (skipn (rl - el) r) ext
        then firstn (rl - (el + 1)) r else r
  end.

(* File::getStem(file, extension); repaired (fixes/C19/01): the dot is the LAST one of the
   last component, the same one getExtension uses *)
Definition getStem (file ext : str) : str :=
  match ext with
  | _ :: _ => getBaseName file ext
  | [] =>
      let r := last_component file in
      match split_last is_dot r with
      | Some (s, _, _) => s
      | None => r
      end
  end.

(* File::getExtension *)
Definition getExtension (file : str) : str :=
  match split_last is_dot (last_component file) with
  | Some (_, _, e) => e
  | None => []
  end.

(* ---- File::simplifyPath -------------------------------------------------------------------- *)

Fixpoint skip_seps (p : str) : str :=
  match p with
  | c :: t => if is_sep c then skip_seps t else p
  | [] => []
  end.

(* (chunk, rest) : chunk = longest separator-free prefix *)
Fixpoint scan_chunk (p : str) : str * str :=
  match p with
  | c :: t => if is_sep c then ([], p) else let (a, b) := scan_chunk t in (c :: a, b)
  | [] => ([], [])
  end.

(* body of the loop for one chunk: result' *)
Definition simp_chunk (startsWithSlash : bool) (result chunk : str) : str :=
  let push := (if nonempty result || startsWithSlash then result ++ [47] else result) ++ chunk in
  if str_eqb chunk DOTDOT && nonempty result then
    match split_last is_sep result with
    | Some (a, _, b) => if negb (str_eqb b DOTDOT) then a else push      (* result.resize(pos - data) *)
    | None => if negb (str_eqb result DOTDOT) then [] else push          (* pos < data: result.resize(0) *)
    end
  else if str_eqb chunk DOT1 then result
  else push.

Fixpoint simp_loop (fuel : nat) (startsWithSlash : bool) (p result : str) : str :=
  match fuel with
  | O => result
  | S f =>
      let (chunk, rest) := scan_chunk (skip_seps p) in
      match chunk with
      | [] => result                                   (* end == start: break *)
      | _ =>
          let result' := simp_chunk startsWithSlash result chunk in
          match rest with
          | [] => result'                              (* end >= startEnd: break *)
          | _ :: rest' => simp_loop f startsWithSlash rest' result'   (* start = end + 1 *)
          end
      end
  end.

Definition simplifyPath (path : str) : str :=
  let startsWithSlash := starts_with_sep path in
  let result := simp_loop (S (length path)) startsWithSlash path [] in
  (* repaired (fixes/C19/02): the root stays the root *)
  if negb (nonempty result) && startsWithSlash then [47] else result.

(* File::isAbsolutePath *)
Definition isAbsolutePath (path : str) : bool :=
  match path with
  | c0 :: t =>
      is_sep c0 ||
      match t with
      | c1 :: c2 :: _ => (c1 =? 58) && is_sep c2
      | _ => false
      end
  | [] => false
  end.

(* ---- File::getRelativePath -------------------------------------------------------------- *)

Definition is_slash (b : Z) : bool := b =? 47.
Definition prefix_eqb (pre s : str) : bool := str_eqb (firstn (length pre) s) pre.
Definition first_is_slash (s : str) : bool := match s with c :: _ => c =? 47 | [] => false end.
Definition UP : str := [46; 46; 47].                         (* "../" *)

Fixpoint rel_loop (fuel : nat) (simFrom simTo result : str) : str :=
  match fuel with
  | O => []
  | S f =>
      match simFrom with
      | [] => []                                             (* while(simFrom.length() > 0) *)
      | _ =>
          let sf1 := removelast simFrom in
          match split_last is_slash sf1 with
          | None =>
              (* repaired (fixes/C19/03): a relative `from` with no component in common *)
              if nonempty sf1 && negb (first_is_slash simTo) then result ++ simTo else []
          | Some (a, s, _) =>
              let sf2 := a ++ [s] in
              if prefix_eqb sf2 simTo then result ++ skipn (length sf2) simTo
              else rel_loop f sf2 simTo (result ++ UP)
          end
      end
  end.

(* "../" repeated; the number of '/' in a text *)
Fixpoint ups (m : nat) : str := match m with O => [] | S k => UP ++ ups k end.
Definition count_slash (s : str) : nat := length (filter is_slash s).

Definition getRelativePath (from to : str) : str :=
  let simFrom := simplifyPath from in
  let simTo := simplifyPath to in
  if str_eqb simFrom simTo then [46]
  else
    (* repaired (02/03): "" (current directory) and "/" (root) get no further separator *)
    let sf := if nonempty simFrom && negb (str_eqb simFrom [47]) then simFrom ++ [47] else simFrom in
    if prefix_eqb sf simTo then skipn (length sf) simTo
    else
      (* repaired (fixes/C19/11): `to` is a directory above `from` - one "../" for every component below it
         (the loop stepped over `to` and came back by its last name: wrong when that name is "..") *)
      let st := if nonempty simTo && negb (str_eqb simTo [47]) then simTo ++ [47] else simTo in
      if prefix_eqb st sf then ups (count_slash (skipn (length st) sf))
      else rel_loop (S (length sf)) sf simTo UP.
