(* File::open gives a handle that refines the byte buffer; File::rename and File::copy carry the
   bytes over intact; a failed copy leaves no new name behind. *)
From Coq Require Import ZArith List Bool Lia.
From Path Require Import PathSpec PathModel PathProofs FsSpec FsModel FsTree FsWalk FsDir FsCreate FsFile.
Import ListNotations.
Local Open Scope Z_scope.

(* what the walk reports in last position is what is there *)
Lemma walk_at_some r fl d nm k : forall L cur cs, walk L r fl cur cs = WAt d nm (Some k) -> sget r (d ++ [nm]) = Some k.
Proof.
  apply (walk_ind r fl (fun L cur cs => walk L r fl cur cs = WAt d nm (Some k) -> sget r (d ++ [nm]) = Some k)).
  - intros L cur. rewrite walk_nil. discriminate.
  - intros L cur c rest IH. rewrite walk_cons. unfold wstep in *.
    destruct (str_eqb c DOT1). { destruct rest; [discriminate|]. apply IH. reflexivity. }
    destruct (str_eqb c DOTDOT). { destruct rest; [discriminate|]. apply IH. reflexivity. }
    destruct (sget r (cur ++ [c])) as [[| |t]|] eqn:S.
    + destruct rest; [|discriminate]. intro H. inversion H; subst. exact S.
    + destruct rest; [|apply IH; reflexivity]. intro H. inversion H; subst. exact S.
    + destruct rest as [|x y].
      * destruct fl.
        -- destruct L; [discriminate|]. destruct t; [discriminate|]. apply IH. reflexivity.
        -- intro H. inversion H; subst. exact S.
      * destruct L; [discriminate|]. destruct t; [discriminate|]. apply IH. reflexivity.
    + destruct rest; discriminate.
Qed.

Lemma resolve_at_some st fl path d nm k : resolve st fl path = WAt d nm (Some k) -> sget (root st) (d ++ [nm]) = Some k.
Proof. unfold resolve. destruct path; [discriminate|]. apply walk_at_some. Qed.

Lemma resolve_at_none st fl path d nm : resolve st fl path = WAt d nm None -> get (root st) (d ++ [nm]) = None.
Proof. unfold resolve. destruct path; [discriminate|]. apply walk_at_none. Qed.

(* a walk that found something finds the same after a fresh leaf was added elsewhere *)
Section FreshOther.
  Variables (r : node) (d : cpath) (nm : str) (A : node) (fl : bool).
  Hypothesis Hnone : get r (d ++ [nm]) = None.
  Hypothesis Hpar : exists es, get r d = Some (NDir es).
  Hypothesis Hleaf : forall x q, get A (x :: q) = None.

  Lemma walk_fresh_other d1 n1 k : forall L cur cs,
    walk L r fl cur cs = WAt d1 n1 (Some k) -> walk L (upd r (d ++ [nm]) (Some A)) fl cur cs = WAt d1 n1 (Some k).
  Proof.
    set (r' := upd r (d ++ [nm]) (Some A)).
    apply (walk_ind r fl (fun L cur cs =>
             walk L r fl cur cs = WAt d1 n1 (Some k) -> walk L r' fl cur cs = WAt d1 n1 (Some k))).
    - intros L cur. rewrite walk_nil. discriminate.
    - intros L cur c rest IH. rewrite !walk_cons. unfold wstep in *.
      destruct (str_eqb c DOT1). { destruct rest; [discriminate|]. apply IH. reflexivity. }
      destruct (str_eqb c DOTDOT). { destruct rest; [discriminate|]. apply IH. reflexivity. }
      destruct (cpath_eq_dec (cur ++ [c]) (d ++ [nm])) as [E|N].
      + rewrite E. unfold sget at 1. rewrite Hnone. simpl option_map. cbv iota.
        destruct rest; discriminate.
      + unfold r'. rewrite (sget_fresh_other r d nm A Hnone Hpar Hleaf _ N).
        destruct (sget r (cur ++ [c])) as [[| |t]|]; try (destruct rest; auto; fail).
        destruct rest as [|x y]; [destruct fl; auto|]; (destruct L; auto; destruct t; auto).
  Qed.
  (* a walk that did not end at the fresh place and did not fail never looked at it *)
  Lemma walk_fresh_same R : forall L cur cs,
    walk L r fl cur cs = R -> (forall e, R <> WErr e) -> R <> WAt d nm None ->
    walk L (upd r (d ++ [nm]) (Some A)) fl cur cs = R.
  Proof.
    set (r' := upd r (d ++ [nm]) (Some A)).
    apply (walk_ind r fl (fun L cur cs =>
             walk L r fl cur cs = R -> (forall e, R <> WErr e) -> R <> WAt d nm None -> walk L r' fl cur cs = R)).
    - intros L cur. rewrite !walk_nil. auto.
    - intros L cur c rest IH. rewrite !walk_cons. unfold wstep in *.
      destruct (str_eqb c DOT1). { destruct rest; [auto|]. apply IH. reflexivity. }
      destruct (str_eqb c DOTDOT). { destruct rest; [auto|]. apply IH. reflexivity. }
      destruct (cpath_eq_dec (cur ++ [c]) (d ++ [nm])) as [E|N].
      + rewrite E. unfold sget at 1. rewrite Hnone. simpl option_map. cbv iota.
        apply app_inj_tail in E as [-> ->].
        destruct rest; intros <- H1 H2; exfalso; [apply H2; reflexivity|eapply H1; reflexivity].
      + unfold r'. rewrite (sget_fresh_other r d nm A Hnone Hpar Hleaf _ N).
        destruct (sget r (cur ++ [c])) as [[| |t]|]; try (destruct rest; auto; fail).
        destruct rest as [|x y]; [destruct fl; [|auto]|]; (destruct L; [auto|]; destruct t; [auto|]; apply IH; reflexivity).
  Qed.
End FreshOther.

(* ---- File::open ------------------------------------------------------------------------------------ *)

(* read+write open of an existing regular file: the handle starts on the file's bytes, at 0 or,
   with the append flag, at the end; nothing in the tree changes *)
Lemma open_rw_existing st h path fa fo d nm c :
  hfind (handles st) h = None ->
  resolve st true path = WAt d nm (Some SFile) -> get (root st) (d ++ [nm]) = Some (NFile c) ->
  exists st', f_open st h path true true fa fo = (st', true) /\
              rw_file st' h {| b_data := c; b_pos := if fa then length c else O |} /\
              root st' = root st /\ cwd st' = cwd st.
Proof.
  intros Hh R G. unfold f_open. rewrite Hh. cbn [andb]. unfold k_open.
  rewrite ?andb_false_r. cbn [negb]. rewrite R. rewrite ?andb_false_r. cbv iota.
  eexists. split; [reflexivity|]. split; [|split; reflexivity].
  unfold rw_file, set_handle. cbn [handles root]. rewrite hfind_hset_same. eexists. split; [reflexivity|].
  destruct fa.
  - unfold k_lseek, content_at. cbn [fd_path fd_pos fd_rd fd_wr fd_dir fst]. rewrite G.
    rewrite Z.add_0_r. destruct (Z.of_nat (length c) <? 0) eqn:C; [apply Z.ltb_lt in C; lia|].
    cbn [fst fd_path fd_pos fd_rd fd_wr fd_dir b_data b_pos]. rewrite Nat2Z.id.
    repeat split; auto. destruct d; discriminate.
  - cbn [fd_path fd_pos fd_rd fd_wr fd_dir b_data b_pos]. repeat split; auto. destruct d; discriminate.
Qed.

(* read+write open of a name that does not exist yet (without openFlag): an empty file appears,
   and only that *)
Lemma open_rw_fresh st h path fa d nm es :
  hfind (handles st) h = None ->
  resolve st true path = WAt d nm None -> get (root st) d = Some (NDir es) ->
  exists st', f_open st h path true true fa false = (st', true) /\
              rw_file st' h {| b_data := []; b_pos := O |} /\
              root st' = upd (root st) (d ++ [nm]) (Some (NFile [])) /\ cwd st' = cwd st.
Proof.
  intros Hh R G. unfold f_open. rewrite Hh. cbn [andb negb]. unfold k_open.
  cbn [andb negb]. rewrite R. unfold parent_is_dir, sget. rewrite G. cbn [option_map shallow andb].
  eexists. split; [reflexivity|]. split; [|split; reflexivity].
  assert (G' : get (upd (root st) (d ++ [nm]) (Some (NFile []))) (d ++ [nm]) = Some (NFile [])).
  { rewrite <- (app_nil_r (d ++ [nm])) at 2. erewrite get_upd_here by eauto. reflexivity. }
  unfold rw_file, set_handle, set_root. cbn [handles root]. rewrite hfind_hset_same. eexists. split; [reflexivity|].
  destruct fa.
  - unfold k_lseek, content_at. cbn [fd_path fd_pos fd_rd fd_wr fd_dir fst root]. rewrite G'.
    cbn [length Z.of_nat Z.add Z.ltb Z.compare fst fd_path fd_pos fd_rd fd_wr fd_dir b_data b_pos Z.to_nat].
    repeat split; auto. destruct d; discriminate.
  - cbn [fd_path fd_pos fd_rd fd_wr fd_dir b_data b_pos]. repeat split; auto. destruct d; discriminate.
Qed.

(* ---- rename ---------------------------------------------------------------------------------------- *)

Lemma cpath_eqb_true a b : cpath_eqb a b = true -> a = b.
Proof.
  unfold cpath_eqb. intro H. apply andb_true_iff in H as [H1 H2].
  apply is_prefix_true in H1 as [t ->]. apply is_prefix_true in H2 as [u E].
  rewrite <- app_assoc in E. rewrite <- (app_nil_r a) in E at 1. apply app_inv_head in E.
  symmetry in E. apply app_eq_nil in E as [-> _]. rewrite app_nil_r. reflexivity.
Qed.

Lemma is_prefix_false_neq a b : is_prefix a b = false -> a <> b.
Proof. intros H ->. rewrite is_prefix_refl in H. discriminate. Qed.

(* what is below a non-directory does not exist; so a directory is not below one *)
Lemma dir_not_below_nondir r p1 x d2 es :
  get r p1 = Some x -> (forall es', x <> NDir es') -> get r d2 = Some (NDir es) -> is_prefix p1 d2 = false.
Proof.
  intros G1 N G2. destruct (is_prefix p1 d2) eqn:P; auto.
  apply is_prefix_true in P as [t ->]. rewrite get_app, G1 in G2.
  destruct t as [|c t].
  - simpl in G2. inversion G2; subst. exfalso. eapply N. reflexivity.
  - destruct x; simpl in G2; try discriminate. exfalso. eapply N. reflexivity.
Qed.

(* the system call: on success the node that was at `from` is at `to`, whole *)
Lemma k_rename_moves st from to st' d1 n1 k1 :
  k_rename st from to = (st', None) -> resolve st false from = WAt d1 n1 (Some k1) ->
  exists x d2 n2 k2,
    get (root st) (d1 ++ [n1]) = Some x /\ resolve st false to = WAt d2 n2 k2 /\
    ((d1 ++ [n1] = d2 ++ [n2] /\ st' = st) \/
     (d1 ++ [n1] <> d2 ++ [n2] /\
      st' = set_root st (upd (upd (root st) (d1 ++ [n1]) None) (d2 ++ [n2]) (Some x)) /\
      get (root st') (d2 ++ [n2]) = Some x)).
Proof.
  intros K R1. pose proof (resolve_at_some _ _ _ _ _ _ R1) as S1.
  apply sget_some_get in S1 as (x & G1 & Sx).
  unfold k_rename in K. rewrite R1 in K.
  destruct (resolve st false to) as [e|d2 n2 k2|d0 dot0] eqn:R2; try discriminate.
  exists x, d2, n2, k2. split; auto. split; auto.
  unfold parent_is_dir in K. destruct (sget (root st) d2) as [[| |t]|] eqn:S2; try discriminate.
  cbn [negb] in K. apply sget_dir_get in S2 as [es2 G2].
  destruct (cpath_eqb (d1 ++ [n1]) (d2 ++ [n2])) eqn:E.
  { left. apply cpath_eqb_true in E. inversion K; subst. auto. }
  right.
  assert (NE : d1 ++ [n1] <> d2 ++ [n2]).
  { intro X. rewrite X in E. unfold cpath_eqb in E. rewrite is_prefix_refl in E. discriminate. }
  rewrite G1 in K.
  assert (MOVE : forall s, (set_root st (upd (upd (root st) (d1 ++ [n1]) None) (d2 ++ [n2]) (Some x)), @None errno) = (s, None) ->
                 is_prefix (d1 ++ [n1]) d2 = false ->
                 d1 ++ [n1] <> d2 ++ [n2] /\
                 s = set_root st (upd (upd (root st) (d1 ++ [n1]) None) (d2 ++ [n2]) (Some x)) /\
                 get (root s) (d2 ++ [n2]) = Some x).
  { intros s H P. inversion H; subst. split; auto. split; auto. cbn [root set_root].
    assert (S2' : sget (upd (root st) (d1 ++ [n1]) None) d2 = Some SDir).
    { rewrite sget_upd_other by (auto; destruct d1; discriminate). unfold sget. rewrite G2. reflexivity. }
    apply sget_dir_get in S2' as [es2' G2'].
    rewrite <- (app_nil_r (d2 ++ [n2])) at 2. erewrite get_upd_here by eauto. reflexivity. }
  destruct k1 as [| |t1].
  - assert (P' : is_prefix (d1 ++ [n1]) d2 = false).
    { eapply dir_not_below_nondir; eauto. intros es' X. subst x. discriminate. }
    destruct k2 as [[| |t2]|]; try discriminate; apply MOVE; auto.
  - (* a directory moves *)
    destruct (is_prefix (d1 ++ [n1]) (d2 ++ [n2])) eqn:P; [discriminate|].
    assert (P' : is_prefix (d1 ++ [n1]) d2 = false).
    { destruct (is_prefix (d1 ++ [n1]) d2) eqn:Q; auto. apply is_prefix_true in Q as [t ->].
      rewrite <- app_assoc, is_prefix_app in P. discriminate. }
    destruct k2 as [[| |t2]|]; try discriminate.
    + destruct (entries_at (root st) (d2 ++ [n2])); [|discriminate]. apply MOVE; auto.
    + apply MOVE; auto.
  - assert (P' : is_prefix (d1 ++ [n1]) d2 = false).
    { eapply dir_not_below_nondir; eauto. intros es' X. subst x. discriminate. }
    destruct k2 as [[| |t2]|]; try discriminate; apply MOVE; auto.
Qed.

(* File::rename, with or without failIfExists: on success `from` named something, and the tree
   afterwards is the tree before with that node, whole, taken out and put where `to` points;
   with failIfExists nothing was there *)
Lemma rename_exact st from to fie st' :
  f_rename st from to fie = (st', true) ->
  exists d1 n1 x d2 n2 k2,
    resolve st false from = WAt d1 n1 (Some (shallow x)) /\ get (root st) (d1 ++ [n1]) = Some x /\
    resolve st false to = WAt d2 n2 k2 /\ (fie = true -> k2 = None) /\
    ((d1 ++ [n1] = d2 ++ [n2] /\ st' = st) \/
     (d1 ++ [n1] <> d2 ++ [n2] /\
      st' = set_root st (upd (upd (root st) (d1 ++ [n1]) None) (d2 ++ [n2]) (Some x)) /\
      get (root st') (d2 ++ [n2]) = Some x)).
Proof.
  unfold f_rename. destruct fie.
  - destruct (k_lstat st from) as [k0|] eqn:LS; [|discriminate].
    destruct (k_open st to true false true true false) as [st1 [f|e]] eqn:O; [|discriminate].
    unfold k_open in O. simpl negb in O.
    destruct (resolve st false to) as [e0|d nm [[| |t]|]|d dot] eqn:R; try discriminate.
    simpl andb in O. unfold parent_is_dir in O.
    destruct (sget (root st) d) as [[| |t]|] eqn:S; try discriminate.
    inversion O; subst. clear O. apply sget_dir_get in S as [es G].
    pose proof (resolve_at_none _ _ _ _ _ R) as Gn.
    set (st1 := set_root st (upd (root st) (d ++ [nm]) (Some (NFile [])))).
    destruct (k_rename st1 from to) as [st2 [e|]] eqn:K; [discriminate|].
    intro H. inversion H; subst. clear H.
    (* `from` resolves in the tree with the placeholder as it did before *)
    assert (Rsame : resolve st1 false from = resolve st false from).
    { unfold k_lstat in LS. unfold resolve in *. destruct from as [|z from]; [discriminate|].
      cbn [root cwd st1 set_root].
      apply (walk_fresh_same (root st) d nm (NFile []) false Gn (ex_intro _ es G) (leaf_file [])); auto.
      - intros e X. rewrite X in LS. discriminate.
      - intro X. rewrite X in LS. discriminate. }
    assert (R2' : resolve st1 false to = WAt d nm (Some SFile)).
    { clear Rsame. unfold resolve in R |- *. destruct to; [discriminate R|]. cbn [root cwd st1 set_root].
      apply (walk_fresh (root st) d nm (NFile []) false Gn (ex_intro _ es G) (leaf_file []) (or_introl eq_refl)); auto. }
    destruct (resolve st1 false from) as [e1|d1 n1 [k1|]|d0 dot0] eqn:R1';
      try (unfold k_rename in K; rewrite R1' in K; discriminate).
    symmetry in Rsame. rename Rsame into R1.
    destruct (k_rename_moves st1 from to st' d1 n1 k1 K R1') as (x & d2 & n2 & k2 & G1 & R2 & C).
    rewrite R2' in R2. inversion R2; subst d2 n2 k2.
    pose proof (resolve_at_some _ _ _ _ _ _ R1) as S1. apply sget_some_get in S1 as (x0 & G0 & Sx0).
    assert (NE : d1 ++ [n1] <> d ++ [nm]) by (intro X; rewrite X in G0; congruence).
    assert (P1 : is_prefix (d ++ [nm]) (d1 ++ [n1]) = false).
    { destruct (is_prefix (d ++ [nm]) (d1 ++ [n1])) eqn:P1; auto.
      apply is_prefix_true in P1 as [t E]. rewrite E in G0. rewrite get_app, Gn in G0. discriminate. }
    assert (P2 : is_prefix (d1 ++ [n1]) (d ++ [nm]) = false).
    { destruct (is_prefix (d1 ++ [n1]) (d ++ [nm])) eqn:P2; auto.
      (* `from` is a directory above the placeholder: moving it into itself is refused *)
      exfalso. destruct C as [[C _]|(_ & _ & C)]; [contradiction|].
      apply is_prefix_true in P2 as [t E].
      unfold k_rename in K. rewrite R1', R2' in K. unfold parent_is_dir in K.
      assert (SD : sget (root st1) d = Some SDir).
      { cbn [root st1 set_root]. rewrite sget_upd_other.
        - unfold sget. rewrite G. reflexivity.
        - destruct d; discriminate.
        - destruct (is_prefix (d ++ [nm]) d) eqn:Q; auto. apply is_prefix_true in Q as [u Q].
          rewrite <- app_assoc in Q. rewrite <- (app_nil_r d) in Q at 1. apply app_inv_head in Q. discriminate. }
      rewrite SD in K. cbn [negb] in K.
      destruct (cpath_eqb (d1 ++ [n1]) (d ++ [nm])) eqn:CE; [apply cpath_eqb_true in CE; contradiction|].
      rewrite G1 in K.
      assert (KD : k1 = SDir).
      { destruct t as [|c t]; [rewrite app_nil_r in E; symmetry in E; contradiction|].
        pose proof G as G'.
        assert (PD : is_prefix (d1 ++ [n1]) d = true).
        { clear - E. revert E. generalize (d1 ++ [n1]) as a. intros a E.
          assert (exists u, d = a ++ u) as [u ->].
          { destruct (@exists_last _ (c :: t)) as (u & z & X); [discriminate|].
            rewrite X in E. rewrite app_assoc in E. apply app_inj_tail in E as [E _]. eauto. }
          apply is_prefix_app. }
        apply is_prefix_true in PD as [u ->]. rewrite get_app, G0 in G'.
        apply resolve_at_some in R1. unfold sget in R1. rewrite G0 in R1. simpl in R1. inversion R1.
        destruct x0; simpl in *; auto; destruct u; simpl in G'; try discriminate. }
      rewrite KD in K. rewrite E in K at 1. rewrite is_prefix_app in K. discriminate. }
    assert (X : x = x0).
    { cbn [root st1 set_root] in G1. rewrite get_upd_unrelated in G1 by auto. congruence. }
    subst x0. exists d1, n1, x, d, nm, None. rewrite Sx0. repeat split; auto.
    right. destruct C as [[C _]|(_ & C1 & C2)]; [contradiction|]. split; auto. split; auto.
    rewrite C1. unfold st1. rewrite set_root_twice. f_equal. cbn [root set_root].
    rewrite (upd_none_comm (d1 ++ [n1]) (root st) (d ++ [nm]) (Some (NFile []))) by auto.
    rewrite upd_upd_same. reflexivity.
  - destruct (k_rename st from to) as [st1 [e|]] eqn:K; [discriminate|].
    intro H. inversion H; subst.
    destruct (resolve st false from) as [e1|d1 n1 [k1|]|d0 dot0] eqn:R1;
      try (unfold k_rename in K; rewrite R1 in K; discriminate).
    destruct (k_rename_moves st from to st' d1 n1 k1 K R1) as (x & d2 & n2 & k2 & G1 & R2 & C).
    pose proof (resolve_at_some _ _ _ _ _ _ R1) as S1. unfold sget in S1. rewrite G1 in S1.
    simpl in S1. inversion S1; subst k1.
    exists d1, n1, x, d2, n2, k2. repeat split; auto. discriminate.
Qed.

(* the weaker, older reading: what `from` named is found at `to` *)
Lemma rename_moves st from to fie st' d1 n1 k1 :
  f_rename st from to fie = (st', true) -> resolve st false from = WAt d1 n1 (Some k1) ->
  exists x d2 n2 k2,
    get (root st) (d1 ++ [n1]) = Some x /\ resolve st false to = WAt d2 n2 k2 /\
    get (root st') (d2 ++ [n2]) = Some x /\ cwd st' = cwd st /\
    (fie = true -> k2 = None).
Proof.
  intros H R1. destruct (rename_exact _ _ _ _ _ H) as (d1' & n1' & x & d2 & n2 & k2 & R1' & G1 & R2 & F & C).
  rewrite R1 in R1'. inversion R1'; subst d1' n1' k1.
  exists x, d2, n2, k2. repeat split; auto.
  - destruct C as [[C ->]|(_ & _ & C)]; [rewrite <- C; exact G1|exact C].
  - destruct C as [[_ ->]|(_ & -> & _)]; reflexivity.
Qed.

(* a successful rename with failIfExists means the source existed: the repaired case
   rename(x, x, true) for a missing x *)
Lemma rename_missing_source_fails st from to fie :
  k_lstat st from = None -> exists st', f_rename st from to fie = (st', false).
Proof.
  intro L. destruct (f_rename st from to fie) as [st' [|]] eqn:H; [|eauto].
  destruct (rename_exact _ _ _ _ _ H) as (d1 & n1 & x & _ & _ & _ & R1 & _).
  unfold k_lstat in L. rewrite R1 in L. discriminate.
Qed.
