(* Directory::unlink: recursive removal takes away exactly the named tree. *)
From Coq Require Import ZArith List Bool Lia.
From Path Require Import PathSpec PathModel PathProofs FsSpec FsModel FsTree FsWalk.
Import ListNotations.
Local Open Scope Z_scope.

Definition names_ok (l : list str) : Prop := Forall (fun c => name_ok c = true) l.

Lemma set_root_root st : set_root st (root st) = st.
Proof. destruct st; reflexivity. Qed.

Lemma set_root_twice st a b : set_root (set_root st a) b = set_root st b.
Proof. reflexivity. Qed.

Lemma state_eq s st r : cwd s = cwd st -> handles s = handles st -> root s = r -> s = set_root st r.
Proof. destruct s, st; simpl; intros; subst; reflexivity. Qed.

(* resolution of a relative text of proper names below real directories, with d the parent *)
Lemma resolve_names st fl names c d :
  d = cwd st ++ names -> names_ok (names ++ [c]) ->
  (exists es, get (root st) d = Some (NDir es)) ->
  (fl = true -> forall t, sget (root st) (d ++ [c]) <> Some (SLink t)) ->
  resolve st fl (join (names ++ [c])) = WAt d c (sget (root st) (d ++ [c])).
Proof.
  intros -> Hn Hg Hl. rewrite resolve_plain; auto.
  - rewrite app_assoc. reflexivity.
  - intros F t. rewrite app_assoc. auto.
Qed.

Lemma join_child (names : list str) (nm : str) : names <> [] -> (join names ++ [47]) ++ nm = join (names ++ [nm]).
Proof. intro H. rewrite join_snoc by auto. rewrite <- app_assoc. reflexivity. Qed.

(* ---- heights ------------------------------------------------------------------------------------- *)

Lemma height_dir es : height (NDir es) = S (fold_right (fun kv m => Nat.max (height (snd kv)) m) O es).
Proof. simpl. f_equal. induction es as [|[k ch] t IH]; simpl; auto. Qed.

Lemma height_children es f : (height (NDir es) <= S f)%nat -> Forall (fun kv => (height (snd kv) <= f)%nat) es.
Proof.
  rewrite height_dir. intro H. apply le_S_n in H.
  induction es as [|[k ch] t IH]; simpl in *; constructor; simpl; try lia. apply IH. lia.
Qed.

Lemma height_lookup es c ch : lookup es c = Some ch -> (height ch < height (NDir es))%nat.
Proof.
  rewrite height_dir. induction es as [|[k w] t IH]; simpl; [discriminate|].
  destruct (str_eqb k c); intro H.
  - inversion H; subst. lia.
  - specialize (IH H). lia.
Qed.

Lemma height_get r p x : get r p = Some x -> (height x <= height r)%nat.
Proof.
  revert r; induction p as [|c p IH]; intros r H.
  - inversion H; subst. lia.
  - destruct r as [f|es|t]; simpl in H; try discriminate.
    destruct (lookup es c) as [ch|] eqn:L; [|discriminate].
    specialize (IH _ H). pose proof (height_lookup es c ch L). lia.
Qed.

Lemma wf_children es :
  wf_node (NDir es) = true -> Forall (fun kv => name_ok (fst kv) = true /\ wf_node (snd kv) = true) es.
Proof.
  rewrite wf_dir. intro H. apply andb_true_iff in H as [H H3]. apply andb_true_iff in H as [H1 _].
  induction es as [|[k ch] t IH]; constructor; simpl in *;
    apply andb_true_iff in H1 as [A1 A2]; apply andb_true_iff in H3 as [B1 B2]; auto.
Qed.

(* ---- the calls on a proper path --------------------------------------------------------------- *)

Section PlainDir.
  Variables (st : state) (names : list str) (c : str) (d : cpath).
  Hypothesis Hd : d = cwd st ++ names.
  Hypothesis Hn : names_ok (names ++ [c]).
  Hypothesis Hpar : exists pes, get (root st) d = Some (NDir pes).

  Lemma k_rmdir_dir es :
    get (root st) (d ++ [c]) = Some (NDir es) ->
    k_rmdir st (join (names ++ [c])) =
    match es with
    | [] => (set_root st (upd (root st) (d ++ [c]) None), None)
    | _ => (st, Some ENOTEMPTY)
    end.
  Proof.
    intro G. unfold k_rmdir. rewrite (resolve_names st false names c d) by (auto; discriminate).
    unfold sget, entries_at. rewrite G. simpl. destruct es; reflexivity.
  Qed.

  Lemma k_rmdir_notdir x :
    get (root st) (d ++ [c]) = Some x -> (forall es, x <> NDir es) ->
    k_rmdir st (join (names ++ [c])) = (st, Some ENOTDIR).
  Proof.
    intros G N. unfold k_rmdir. rewrite (resolve_names st false names c d) by (auto; discriminate).
    unfold sget. rewrite G. destruct x; simpl; try reflexivity. exfalso. eapply N. reflexivity.
  Qed.

  Lemma k_readdir_dir es :
    get (root st) (d ++ [c]) = Some (NDir es) ->
    k_readdir st (join (names ++ [c])) = inl (map (fun kv => (fst kv, shallow (snd kv))) es).
  Proof.
    intro G. unfold k_readdir. rewrite (resolve_names st true names c d); auto.
    - unfold sget, entries_at. rewrite G. reflexivity.
    - intros _ t. unfold sget. rewrite G. discriminate.
  Qed.

  Lemma k_unlink_nondir x :
    get (root st) (d ++ [c]) = Some x -> (forall es, x <> NDir es) ->
    k_unlink st (join (names ++ [c])) = (set_root st (upd (root st) (d ++ [c]) None), None).
  Proof.
    intros G N. unfold k_unlink. rewrite (resolve_names st false names c d) by (auto; discriminate).
    unfold sget. rewrite G. destruct x; simpl; try reflexivity. exfalso. eapply N. reflexivity.
  Qed.
End PlainDir.

(* ---- the recursion ------------------------------------------------------------------------------ *)

Definition unlink_ok (f : nat) : Prop :=
  forall st names c es,
    names_ok (names ++ [c]) ->
    get (root st) ((cwd st ++ names) ++ [c]) = Some (NDir es) ->
    wf_node (NDir es) = true -> (height (NDir es) <= f)%nat ->
    d_unlink f st (join (names ++ [c])) true
    = (set_root st (upd (root st) ((cwd st ++ names) ++ [c]) None), true).

Lemma unlink_loop f (IHf : unlink_ok f) st names c r cp :
  names_ok (names ++ [c]) -> cp = (cwd st ++ names) ++ [c] -> r = root st ->
  (exists pes, get r (cwd st ++ names) = Some (NDir pes)) ->
  forall rest s,
    cwd s = cwd st -> handles s = handles st -> root s = upd r cp (Some (NDir rest)) ->
    Forall (fun kv => name_ok (fst kv) = true /\ wf_node (snd kv) = true) rest ->
    Forall (fun kv => (height (snd kv) <= f)%nat) rest ->
    unlink_entries (fun s0 p => d_unlink f s0 p true) s (join (names ++ [c]) ++ [47])
                   (map (fun kv => (fst kv, shallow (snd kv))) rest)
    = (set_root st (upd r cp (Some (NDir []))), true).
Proof.
  intros Hn Hcp Hr [pes Hpar]. induction rest as [|[nm ch] rest IH]; intros s C Hh R W Hh'.
  - simpl. f_equal. apply state_eq; auto.
  - inversion W as [|? ? [Wn Wc] W']; subst. inversion Hh' as [|? ? Hc Hh'']; subst.
    simpl map. cbn [unlink_entries fst snd].
    assert (NE : names ++ [c] <> []) by (destruct names; discriminate).
    rewrite (join_child (names ++ [c]) nm NE).
    set (cp := (cwd st ++ names) ++ [c]) in *.
    assert (Gcp : get (root s) cp = Some (NDir ((nm, ch) :: rest))).
    { rewrite R. rewrite <- (app_nil_r cp) at 2. unfold cp. erewrite get_upd_here by eauto. reflexivity. }
    assert (Gch : get (root s) (cp ++ [nm]) = Some ch).
    { rewrite R. unfold cp. erewrite get_upd_here by eauto. rewrite get_cons. simpl. rewrite str_eqb_refl. reflexivity. }
    assert (Hn' : names_ok ((names ++ [c]) ++ [nm])).
    { apply Forall_app. split; auto. }
    assert (Hd' : cp = cwd s ++ (names ++ [c])).
    { unfold cp. rewrite C, app_assoc. reflexivity. }
    assert (NEW : upd (root s) (cp ++ [nm]) None = upd (root st) cp (Some (NDir rest))).
    { rewrite R. rewrite upd_upd_below by (unfold cp; try discriminate; destruct (cwd st ++ names); discriminate).
      rewrite upd_one. simpl. rewrite str_eqb_refl. reflexivity. }
    assert (CONT : unlink_entries (fun s0 p => d_unlink f s0 p true)
                     (set_root s (upd (root s) (cp ++ [nm]) None)) (join (names ++ [c]) ++ [47])
                     (map (fun kv => (fst kv, shallow (snd kv))) rest)
                   = (set_root st (upd (root st) cp (Some (NDir []))), true)).
    { rewrite NEW. apply IH; auto. }
    destruct ch as [fc|es'|t]; cbn [shallow]; cbv iota.
    + unfold f_unlink.
      rewrite (k_unlink_nondir s (names ++ [c]) nm cp Hd' Hn' (ex_intro _ _ Gcp) (NFile fc) Gch) by discriminate.
      cbn [is_none]. exact CONT.
    + rewrite IHf with (es := es'); auto.
      * rewrite <- Hd'. exact CONT.
      * rewrite <- Hd'. exact Gch.
    + unfold f_unlink.
      rewrite (k_unlink_nondir s (names ++ [c]) nm cp Hd' Hn' (ex_intro _ _ Gcp) (NLink t) Gch) by discriminate.
      cbn [is_none]. exact CONT.
Qed.

Lemma unlink_step f : unlink_ok f -> unlink_ok (S f).
Proof.
  intros IHf st names c es Hn G W Hh.
  set (d := cwd st ++ names) in *.
  destruct (get_below_dir (root st) d c [] (NDir es) G) as [pes Hpar].
  assert (Hd : d = cwd st ++ names) by reflexivity.
  cbn [d_unlink].
  rewrite (k_rmdir_dir st names c d Hd Hn (ex_intro _ pes Hpar) es G).
  destruct es as [|e es]; [reflexivity|].
  cbn [negb orb is_enotempty]. cbv iota.
  rewrite (k_readdir_dir st names c d Hd Hn (ex_intro _ pes Hpar) (e :: es) G).
  rewrite (unlink_loop f IHf st names c (root st) (d ++ [c]) Hn eq_refl eq_refl (ex_intro _ pes Hpar) (e :: es) st);
    auto.
  - (* the final rmdir, on the emptied directory *)
    set (s1 := set_root st (upd (root st) (d ++ [c]) (Some (NDir [])))).
    assert (G1 : get (root s1) (d ++ [c]) = Some (NDir [])).
    { unfold s1. cbn [root set_root]. rewrite <- (app_nil_r (d ++ [c])) at 2. erewrite get_upd_here by eauto. reflexivity. }
    assert (P1 : exists pes1, get (root s1) d = Some (NDir pes1)).
    { eapply get_below_dir with (b := []). exact G1. }
    rewrite (k_rmdir_dir s1 names c d Hd Hn P1 [] G1). cbn [is_none].
    unfold s1. cbn [root set_root]. rewrite upd_upd_same. reflexivity.
  - symmetry. apply upd_same. exact G.
  - apply wf_children. exact W.
  - apply height_children. exact Hh.
Qed.

Lemma unlink_zero : unlink_ok 0.
Proof.
  intros st names c es Hn G W Hh. rewrite height_dir in Hh. lia.
Qed.

Lemma unlink_all f : unlink_ok f.
Proof. induction f; [apply unlink_zero|apply unlink_step; auto]. Qed.

(* ---- the statements ------------------------------------------------------------------------------- *)

(* recursive unlink of a real directory named by proper names: true, and the tree is the old one
   with exactly that sub-tree cut out *)
Lemma unlink_removes_subtree st names c es fuel :
  names_ok (names ++ [c]) ->
  get (root st) ((cwd st ++ names) ++ [c]) = Some (NDir es) ->
  wf_node (root st) = true -> (height (root st) <= fuel)%nat ->
  d_unlink fuel st (join (names ++ [c])) true
  = (set_root st (upd (root st) ((cwd st ++ names) ++ [c]) None), true).
Proof.
  intros Hn G W Hf. apply unlink_all with (es := es); auto.
  - eapply wf_get; eauto.
  - pose proof (height_get _ _ _ G). lia.
Qed.

(* ... and what that means for every path *)
Lemma cut_out_spec r cp :
  wf_node r = true -> cp <> [] ->
  let r' := upd r cp None in
  (forall q, get r' (cp ++ q) = None) /\
  (forall q, is_prefix cp q = false -> sget r' q = sget r q) /\
  (forall q, is_prefix cp q = false -> is_prefix q cp = false -> get r' q = get r q).
Proof.
  intros W N. cbv zeta. repeat split.
  - intro q. apply get_upd_deleted; auto.
  - intros q H. apply sget_upd_other; auto.
  - intros q H1 H2. apply get_upd_unrelated; auto.
Qed.

(* a symbolic link is never followed: unlink of a link to a directory refuses and changes nothing *)
Lemma unlink_refuses_link st names c t fuel rec :
  names_ok (names ++ [c]) ->
  get (root st) ((cwd st ++ names) ++ [c]) = Some (NLink t) ->
  d_unlink fuel st (join (names ++ [c])) rec = (st, false).
Proof.
  intros Hn G.
  destruct (get_below_dir (root st) (cwd st ++ names) c [] _ G) as [pes Hpar].
  destruct fuel; cbn [d_unlink];
    rewrite (k_rmdir_notdir st names c (cwd st ++ names) eq_refl Hn (ex_intro _ pes Hpar) (NLink t) G) by discriminate;
    cbn [is_enotempty negb orb]; rewrite orb_true_r; reflexivity.
Qed.

(* without `recursive` a directory that is not empty stays *)
Lemma unlink_nonrecursive_keeps st names c e es fuel :
  names_ok (names ++ [c]) ->
  get (root st) ((cwd st ++ names) ++ [c]) = Some (NDir (e :: es)) ->
  d_unlink fuel st (join (names ++ [c])) false = (st, false).
Proof.
  intros Hn G.
  destruct (get_below_dir (root st) (cwd st ++ names) c [] _ G) as [pes Hpar].
  destruct fuel; cbn [d_unlink];
    rewrite (k_rmdir_dir st names c (cwd st ++ names) eq_refl Hn (ex_intro _ pes Hpar) (e :: es) G);
    reflexivity.
Qed.
