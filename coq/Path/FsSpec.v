(* FsSpec — the reference objects for the file / directory half of property C19.  They do not
   look at the code.

   (1) The file-system object itself: a tree of directories whose entries are files (byte
       contents), directories and symbolic links (target text), with the three tree primitives
       `get` (what is at a canonical path), `upd` (replace / insert / delete what is at a
       canonical path) and `sget` (the same without the children).  A canonical path is the list
       of names from the root; it contains no '.', '..' or link.
   (2) What a file handle is supposed to be: a byte sequence with a cursor (`buf`), on which
       write / seek / readAll / size have their textbook meaning.  "Files return exactly the
       bytes written" is refinement of the modelled File operations to this object. *)
From Coq Require Import ZArith List Bool.
From Path Require Import PathSpec.
Import ListNotations.
Local Open Scope Z_scope.

(* ---- the tree ---------------------------------------------------------------------------- *)

Inductive node :=
| NFile (content : list Z)
| NDir (entries : list (str * node))
| NLink (target : str).

Definition cpath := list str.

Fixpoint lookup (es : list (str * node)) (nm : str) : option node :=
  match es with
  | [] => None
  | (k, v) :: t => if str_eqb k nm then Some v else lookup t nm
  end.

(* replace / delete the first entry called nm, in place; append when there is none *)
Fixpoint set_entry (es : list (str * node)) (nm : str) (v : option node) : list (str * node) :=
  match es with
  | [] => match v with Some x => [(nm, x)] | None => [] end
  | (k, w) :: t =>
      if str_eqb k nm then match v with Some x => (k, x) :: t | None => t end
      else (k, w) :: set_entry t nm v
  end.

Fixpoint get (n : node) (p : cpath) : option node :=
  match p with
  | [] => Some n
  | c :: p' =>
      match n with
      | NDir es => match lookup es c with Some ch => get ch p' | None => None end
      | _ => None
      end
  end.

(* set what is at p (p <> []) to v; nothing happens when the parent of p is not a directory *)
Fixpoint upd (n : node) (p : cpath) (v : option node) : node :=
  match p with
  | [] => n
  | c :: p' =>
      match n with
      | NDir es =>
          match p' with
          | [] => NDir (set_entry es c v)
          | _ => match lookup es c with
                 | Some ch => NDir (set_entry es c (Some (upd ch p' v)))
                 | None => n
                 end
          end
      | _ => n
      end
  end.

Inductive snode := SFile | SDir | SLink (target : str).

Definition shallow (n : node) : snode :=
  match n with NFile _ => SFile | NDir _ => SDir | NLink t => SLink t end.

Definition sget (r : node) (q : cpath) : option snode := option_map shallow (get r q).

Fixpoint is_prefix (p q : cpath) : bool :=
  match p, q with
  | [], _ => true
  | a :: p', b :: q' => str_eqb a b && is_prefix p' q'
  | _ :: _, [] => false
  end.

(* a name as the kernel accepts it in a directory entry *)
Definition name_ok (c : str) : bool :=
  nonempty c && negb (str_eqb c DOT1) && negb (str_eqb c DOTDOT) && forallb (fun b => negb (b =? 47)) c.

Fixpoint names_nodup (l : list str) : bool :=
  match l with
  | [] => true
  | x :: t => negb (existsb (str_eqb x) t) && names_nodup t
  end.

(* well-formed tree: entry names are proper names and unique per directory *)
Fixpoint wf_node (n : node) : bool :=
  match n with
  | NDir es =>
      forallb (fun kv => name_ok (fst kv)) es && names_nodup (map fst es) &&
      forallb (fun kv => match kv with (_, ch) => wf_node ch end) es
  | _ => true
  end.

Fixpoint height (n : node) : nat :=
  match n with
  | NDir es => S (fold_right (fun kv m => match kv with (_, ch) => Nat.max (height ch) m end) O es)
  | _ => O
  end.

(* ---- the byte sequence with a cursor --------------------------------------------------------- *)

Record buf := { b_data : list Z; b_pos : nat }.

(* d placed at position pos of data; a gap is filled with zero bytes; writing nothing changes
   nothing (in particular it does not extend the file up to a cursor behind its end) *)
Definition overwrite_at (data : list Z) (pos : nat) (d : list Z) : list Z :=
  firstn pos data ++ repeat 0 (pos - length data) ++ d ++ skipn (pos + length d) data.

Definition overwrite (data : list Z) (pos : nat) (d : list Z) : list Z :=
  match d with
  | [] => data
  | _ => overwrite_at data pos d
  end.

Definition buf_write (b : buf) (d : list Z) : buf :=
  {| b_data := overwrite (b_data b) (b_pos b) d; b_pos := b_pos b + length d |}.

(* whence: 0 = start, 1 = current, 2 = end; answer -1 and no move when the target is negative *)
Definition buf_seek (b : buf) (off : Z) (whence : nat) : buf * Z :=
  let base := match whence with O => O | S O => b_pos b | _ => length (b_data b) end in
  let target := Z.of_nat base + off in
  if target <? 0 then (b, -1) else ({| b_data := b_data b; b_pos := Z.to_nat target |}, target).

(* everything from the cursor to the end; the cursor moves behind what was read *)
Definition buf_read_all (b : buf) : buf * list Z :=
  let d := skipn (b_pos b) (b_data b) in
  ({| b_data := b_data b; b_pos := b_pos b + length d |}, d).

Definition buf_read (b : buf) (n : nat) : buf * list Z :=
  let d := firstn n (skipn (b_pos b) (b_data b)) in
  ({| b_data := b_data b; b_pos := b_pos b + length d |}, d).

Definition buf_size (b : buf) : Z := Z.of_nat (length (b_data b)).

(* operations on one open handle *)
Inductive hop :=
| HWrite (d : list Z)
| HSeek (off : Z) (whence : nat)
| HReadAll
| HRead (n : nat)
| HSize
| HFlush.

Inductive hout :=
| OBool (b : bool)
| OInt (z : Z)
| OData (ok : bool) (d : list Z).

Definition buf_step (b : buf) (o : hop) : buf * hout :=
  match o with
  | HWrite d => (buf_write b d, OBool true)
  | HSeek off wh => let (b', z) := buf_seek b off wh in (b', OInt z)
  | HReadAll => let (b', d) := buf_read_all b in (b', OData true d)
  | HRead n => let (b', d) := buf_read b n in (b', OData true d)
  | HSize => (b, OInt (buf_size b))
  | HFlush => (b, OBool true)                    (* flushing changes no byte and no cursor *)
  end.

Fixpoint buf_run (b : buf) (os : list hop) : buf * list hout :=
  match os with
  | [] => (b, [])
  | o :: t => let (b1, x) := buf_step b o in let (b2, xs) := buf_run b1 t in (b2, x :: xs)
  end.

(* a handle opened for reading and / or writing: what the mode does not allow fails and changes nothing *)
Definition abuf_step (rd wr : bool) (b : buf) (o : hop) : buf * hout :=
  match o with
  | HWrite d => if wr then (buf_write b d, OBool true) else (b, OBool false)
  | HReadAll => if rd then let (b', d) := buf_read_all b in (b', OData true d) else (b, OData false [])
  | HRead n => if rd then let (b', d) := buf_read b n in (b', OData true d) else (b, OData false [])
  | HSeek off wh => let (b', z) := buf_seek b off wh in (b', OInt z)
  | HSize => (b, OInt (buf_size b))
  | HFlush => (b, OBool true)
  end.

Fixpoint abuf_run (rd wr : bool) (b : buf) (os : list hop) : buf * list hout :=
  match os with
  | [] => (b, [])
  | o :: t => let (b1, x) := abuf_step rd wr b o in let (b2, xs) := abuf_run rd wr b1 t in (b2, x :: xs)
  end.

(* ---- purge: a directory is removed together with the ancestors that this leaves empty -------------
   `rnames` are the names leading from `base` to the innermost ancestor, innermost first.  Going up,
   every ancestor that is an empty directory is removed; the first one that is not stops the climb.
   `base` itself (the directory the path text starts from) is never touched. *)
Fixpoint prune_up (r : node) (base : cpath) (rnames : list str) : node :=
  match rnames with
  | [] => r
  | _ :: up =>
      let p := base ++ rev rnames in
      match get r p with
      | Some (NDir []) => prune_up (upd r p None) base up
      | _ => r
      end
  end.

(* ---- wildcard patterns (fnmatch without flags, patterns of literal bytes, '*' and '?') ------------
   A pattern matches a name when the name can be cut into pieces, one per pattern byte: '?' takes
   exactly one byte, '*' any number (also none, also a leading '.'), any other byte itself. *)
Inductive matches : str -> str -> Prop :=
| m_nil : matches [] []
| m_star_none p s : matches p s -> matches (42 :: p) s
| m_star_more p x s : matches (42 :: p) s -> matches (42 :: p) (x :: s)
| m_any p x s : matches p s -> matches (63 :: p) (x :: s)
| m_lit c p s : c <> 42 -> c <> 63 -> matches p s -> matches (c :: p) (c :: s).
