(* Directory::unlink when a system call fails (fault oracle): whatever call fails, the operation
   reports failure, and what it has done by then is a series of removals inside the directory it
   was given; without a failing call it succeeds and the result is the exact cut. *)
From Coq Require Import ZArith List Bool Lia.
From Path Require Import PathSpec PathModel PathProofs FsSpec FsModel FsTree FsWalk FsDir.
Import ListNotations.
Local Open Scope Z_scope.

(* ---- removals at or below a place ------------------------------------------------------------------- *)

Inductive dels (cp : cpath) : node -> node -> Prop :=
| dels_refl r : dels cp r r
| dels_step r p r' : is_prefix cp p = true -> dels cp (upd r p None) r' -> dels cp r r'.

Lemma dels_trans cp a b c : dels cp a b -> dels cp b c -> dels cp a c.
Proof. intro H. induction H as [r|r p r' Hp H IH]; intro H2; auto. eapply dels_step; eauto. Qed.

Lemma dels_one cp r p : is_prefix cp p = true -> dels cp r (upd r p None).
Proof. intro H. eapply dels_step; eauto. apply dels_refl. Qed.

Lemma is_prefix_trans a : forall b c, is_prefix a b = true -> is_prefix b c = true -> is_prefix a c = true.
Proof.
  induction a as [|x a IH]; intros b c H1 H2; [reflexivity|].
  destruct b as [|y b]; [discriminate|]. destruct c as [|z c]; [discriminate|].
  simpl in *. apply andb_true_iff in H1 as [A1 A2]. apply andb_true_iff in H2 as [B1 B2].
  apply str_eqb_eq in A1. subst y. rewrite B1. simpl. eapply IH; eauto.
Qed.

Lemma dels_weaken cp cp' a b : is_prefix cp cp' = true -> dels cp' a b -> dels cp a b.
Proof.
  intros P H. induction H as [r|r p r' Hp H IH]; [apply dels_refl|].
  eapply dels_step; [|exact IH]. eapply is_prefix_trans; eauto.
Qed.

(* a prefix of cp ++ t is a prefix of cp, or has cp as a prefix *)
Lemma prefix_app_cases q : forall cp t, is_prefix q (cp ++ t) = true -> is_prefix q cp = true \/ is_prefix cp q = true.
Proof.
  induction q as [|x q IH]; intros cp t H; [left; reflexivity|].
  destruct cp as [|y cp]; [right; reflexivity|].
  simpl in H. apply andb_true_iff in H as [H1 H2]. simpl. rewrite H1. simpl.
  apply str_eqb_eq in H1. subst y. rewrite str_eqb_refl. simpl. eapply IH; eauto.
Qed.

(* what a series of removals at or below cp leaves alone *)
Lemma dels_spec cp r r' :
  wf_node r = true -> cp <> [] -> dels cp r r' ->
  wf_node r' = true /\
  (forall q, is_prefix cp q = false -> sget r' q = sget r q) /\
  (forall q, is_prefix cp q = false -> is_prefix q cp = false -> get r' q = get r q) /\
  (forall q, sget r' q = sget r q \/ sget r' q = None).
Proof.
  intros W N H. induction H as [r|r p r' Hp H IH].
  - split; [exact W|]. split; [reflexivity|]. split; [reflexivity|]. intro q. left. reflexivity.
  - destruct (is_prefix_true _ _ Hp) as [t Et].
    assert (Np : p <> []) by (subst p; destruct cp; [contradiction|discriminate]).
    assert (W1 : wf_node (upd r p None) = true).
    { apply wf_upd; [exact W|intros x E; discriminate|intros E; exfalso; apply E; reflexivity]. }
    destruct (IH W1) as (A & B & C & D).
    split; [exact A|]. split; [|split].
    + intros q Hq. rewrite B by auto. apply sget_upd_other; auto.
      destruct (is_prefix p q) eqn:E; auto.
      rewrite (is_prefix_trans _ _ _ Hp E) in Hq. discriminate.
    + intros q Hq1 Hq2. rewrite C by auto. apply get_upd_unrelated.
      * destruct (is_prefix p q) eqn:E; auto. rewrite (is_prefix_trans _ _ _ Hp E) in Hq1. discriminate.
      * destruct (is_prefix q p) eqn:E; auto. subst p.
        destruct (prefix_app_cases _ _ _ E) as [X|X]; congruence.
    + intro q. destruct (D q) as [E|E]; [|right; exact E].
      rewrite E. destruct (is_prefix p q) eqn:P.
      * right. destruct (is_prefix_true _ _ P) as [u ->]. unfold sget. rewrite get_upd_deleted by auto. reflexivity.
      * left. apply sget_upd_other; auto.
Qed.

(* ---- the oracle ------------------------------------------------------------------------------------------ *)

Lemma tick_cases o :
  (tick o = (true, None) /\ o <> None) \/ (exists o1, tick o = (false, o1) /\ (o = None -> o1 = None)).
Proof.
  destruct o as [[|n]|]; simpl.
  - left. split; [reflexivity|discriminate].
  - right. eexists. split; [reflexivity|discriminate].
  - right. eexists. split; [reflexivity|auto].
Qed.

Lemma name_ok_not_dots nm : name_ok nm = true -> is_dots nm = false.
Proof. intro H. destruct (name_ok_pwf nm H) as (_ & D1 & D2). unfold is_dots. rewrite D1, D2. reflexivity. Qed.

(* without a fault the oracle stays empty *)
Lemma d_unlink_o_none fu : forall st p r, snd (d_unlink_o fu None st p r) = None.
Proof.
  induction fu as [|fu IHfu]; intros st p r; cbn [d_unlink_o tick].
  - destruct (k_rmdir st p) as [st1 [e|]]; [|reflexivity].
    destruct (negb r || negb (is_enotempty e)); reflexivity.
  - destruct (k_rmdir st p) as [st1 [e|]]; [|reflexivity].
    destruct (negb r || negb (is_enotempty e)); [reflexivity|].
    destruct (k_opendir st p) as [ents|e']; [|reflexivity].
    assert (L : forall l s, snd (unlink_entries_o (fun o' s0 p0 => d_unlink_o fu o' s0 p0 true) None s (p ++ [47]) l) = None).
    { induction l as [|[nm0 k0] t0 IHt]; intro s; cbn [unlink_entries_o tick]; [reflexivity|].
      destruct (is_sdir k0 && is_dots nm0); [apply IHt|].
      assert (Y : snd (match k0 with SDir => d_unlink_o fu None s ((p ++ [47]) ++ nm0) true
                              | _ => f_unlink_o None s ((p ++ [47]) ++ nm0) end) = None).
      { destruct k0; [unfold f_unlink_o; cbn [tick]; destruct (f_unlink s ((p ++ [47]) ++ nm0)); reflexivity
                    |apply IHfu
                    |unfold f_unlink_o; cbn [tick]; destruct (f_unlink s ((p ++ [47]) ++ nm0)); reflexivity]. }
      destruct (match k0 with SDir => d_unlink_o fu None s ((p ++ [47]) ++ nm0) true
                         | _ => f_unlink_o None s ((p ++ [47]) ++ nm0) end) as [[sx okx] ox].
      cbn [snd] in Y. subst ox. destruct okx; [apply IHt|reflexivity]. }
    specialize (L ents st).
    destruct (unlink_entries_o (fun o' s0 p0 => d_unlink_o fu o' s0 p0 true) None st (p ++ [47]) ents) as [[s2 ok2] o3].
    cbn [snd] in L. subst o3. destruct ok2; [|reflexivity]. cbn [tick].
    destruct (k_rmdir s2 p); reflexivity.
Qed.

Lemma unlink_entries_o_none f l : forall s pre,
  snd (unlink_entries_o (fun o' s0 p0 => d_unlink_o f o' s0 p0 true) None s pre l) = None.
Proof.
  induction l as [|[nm0 k0] t0 IHt]; intros s pre; cbn [unlink_entries_o tick]; [reflexivity|].
  destruct (is_sdir k0 && is_dots nm0); [apply IHt|].
  assert (Y : snd (match k0 with SDir => d_unlink_o f None s (pre ++ nm0) true
                          | _ => f_unlink_o None s (pre ++ nm0) end) = None).
  { destruct k0; [unfold f_unlink_o; cbn [tick]; destruct (f_unlink s (pre ++ nm0)); reflexivity
                |apply d_unlink_o_none
                |unfold f_unlink_o; cbn [tick]; destruct (f_unlink s (pre ++ nm0)); reflexivity]. }
  destruct (match k0 with SDir => d_unlink_o f None s (pre ++ nm0) true
                     | _ => f_unlink_o None s (pre ++ nm0) end) as [[sx okx] ox].
  cbn [snd] in Y. subst ox. destruct okx; [apply IHt|reflexivity].
Qed.

(* ---- the recursion ----------------------------------------------------------------------------------------- *)

Definition unlink_ok_o (f : nat) : Prop :=
  forall o st names c es,
    names_ok (names ++ [c]) ->
    get (root st) ((cwd st ++ names) ++ [c]) = Some (NDir es) ->
    wf_node (NDir es) = true -> (height (NDir es) <= f)%nat ->
    exists st' b o', d_unlink_o f o st (join (names ++ [c])) true = (st', b, o') /\
      cwd st' = cwd st /\ handles st' = handles st /\
      dels ((cwd st ++ names) ++ [c]) (root st) (root st') /\
      (b = true -> root st' = upd (root st) ((cwd st ++ names) ++ [c]) None) /\
      (b = false -> o <> None).

Lemma unlink_loop_o f (IHf : unlink_ok_o f) st names c r cp :
  names_ok (names ++ [c]) -> cp = (cwd st ++ names) ++ [c] -> r = root st ->
  (exists pes, get r (cwd st ++ names) = Some (NDir pes)) ->
  forall rest o s,
    cwd s = cwd st -> handles s = handles st -> root s = upd r cp (Some (NDir rest)) ->
    Forall (fun kv => name_ok (fst kv) = true /\ wf_node (snd kv) = true) rest ->
    Forall (fun kv => (height (snd kv) <= f)%nat) rest ->
    exists s' ok o',
      unlink_entries_o (fun o' s0 p => d_unlink_o f o' s0 p true) o s (join (names ++ [c]) ++ [47])
                       (map (fun kv => (fst kv, shallow (snd kv))) rest) = (s', ok, o') /\
      cwd s' = cwd st /\ handles s' = handles st /\
      dels cp (root s) (root s') /\
      (ok = true -> root s' = upd r cp (Some (NDir []))) /\
      (ok = false -> o <> None).
Proof.
  intros Hn Hcp Hr [pes Hpar]. induction rest as [|[nm ch] rest IH]; intros o s C Hh R W Hh'.
  - cbn [map unlink_entries_o]. destruct (tick_cases o) as [[T No]|(o1 & T & To)]; rewrite T.
    + exists s, false, None. split; [reflexivity|]. split; [exact C|]. split; [exact Hh|]. split; [apply dels_refl|].
      split; [discriminate|intros _; exact No].
    + exists s, true, o1. split; [reflexivity|]. split; [exact C|]. split; [exact Hh|]. split; [apply dels_refl|].
      split; [intros _; exact R|discriminate].
  - inversion W as [|? ? [Wn Wc] W']; subst. inversion Hh' as [|? ? Hc Hh'']; subst.
    cbn [map unlink_entries_o fst snd].
    destruct (tick_cases o) as [[T No]|(o1 & T & To)]; rewrite T.
    { exists s, false, None. split; [reflexivity|]. split; [exact C|]. split; [exact Hh|]. split; [apply dels_refl|].
      split; [discriminate|intros _; exact No]. }
    rewrite (name_ok_not_dots nm Wn), andb_false_r.
    assert (NE : names ++ [c] <> []) by (destruct names; discriminate).
    rewrite (join_child (names ++ [c]) nm NE).
    set (cp := (cwd st ++ names) ++ [c]) in *.
    assert (Gcp : get (root s) cp = Some (NDir ((nm, ch) :: rest))).
    { rewrite R. rewrite <- (app_nil_r cp) at 2. unfold cp. erewrite get_upd_here by eauto. reflexivity. }
    assert (Gch : get (root s) (cp ++ [nm]) = Some ch).
    { rewrite R. unfold cp. erewrite get_upd_here by eauto. rewrite get_cons. simpl. rewrite str_eqb_refl. reflexivity. }
    assert (Hn' : names_ok ((names ++ [c]) ++ [nm])).
    { apply Forall_app. split; auto. }
    assert (Hd' : cp = cwd s ++ (names ++ [c])).
    { unfold cp. rewrite C, app_assoc. reflexivity. }
    assert (NEW : upd (root s) (cp ++ [nm]) None = upd (root st) cp (Some (NDir rest))).
    { rewrite R. rewrite upd_upd_below by (unfold cp; try discriminate; destruct (cwd st ++ names); discriminate).
      rewrite upd_one. simpl. rewrite str_eqb_refl. reflexivity. }
    assert (PFX : is_prefix cp (cp ++ [nm]) = true) by apply is_prefix_app.
    (* the rest of the loop, from the state in which this entry is gone *)
    assert (CONT : forall o2, (o = None -> o2 = None) ->
              exists s' ok o',
                unlink_entries_o (fun o' s0 p => d_unlink_o f o' s0 p true) o2
                  (set_root s (upd (root s) (cp ++ [nm]) None)) (join (names ++ [c]) ++ [47])
                  (map (fun kv => (fst kv, shallow (snd kv))) rest) = (s', ok, o') /\
                cwd s' = cwd st /\ handles s' = handles st /\
                dels cp (root s) (root s') /\
                (ok = true -> root s' = upd (root st) cp (Some (NDir []))) /\
                (ok = false -> o <> None)).
    { intros o2 To2.
      destruct (IH o2 (set_root s (upd (root s) (cp ++ [nm]) None))) as (s' & ok & o' & E & C' & H' & D' & X' & F'); auto.
      exists s', ok, o'. split; [exact E|]. split; [exact C'|]. split; [exact H'|]. split; [|split].
      - eapply dels_step; [exact PFX|]. exact D'.
      - exact X'.
      - intros Ek No. apply (F' Ek). auto. }
    destruct ch as [fc|es'|t]; cbn [shallow]; cbv iota.
    + unfold f_unlink_o. destruct (tick_cases o1) as [[T1 No1]|(o2 & T1 & To1)]; rewrite T1.
      { exists s, false, None. split; [reflexivity|]. split; [exact C|]. split; [exact Hh|]. split; [apply dels_refl|].
        split; [discriminate|intros _ E; apply No1; auto]. }
      unfold f_unlink.
      rewrite (k_unlink_nondir s (names ++ [c]) nm cp Hd' Hn' (ex_intro _ _ Gcp) (NFile fc) Gch) by discriminate.
      cbn [is_none]. apply CONT. auto.
    + destruct (IHf o1 s (names ++ [c]) nm es') as (s1 & b1 & o2 & E1 & C1 & H1 & D1 & X1 & F1); auto.
      { rewrite <- Hd'. exact Gch. }
      rewrite E1. rewrite <- Hd' in D1, X1. destruct b1.
      * assert (S1 : s1 = set_root s (upd (root s) (cp ++ [nm]) None)).
        { apply state_eq; auto. }
        rewrite S1. apply CONT. intro E. subst o. rewrite (To eq_refl) in E1.
        pose proof (d_unlink_o_none f s (join ((names ++ [c]) ++ [nm])) true) as G. rewrite E1 in G. exact G.
      * exists s1, false, o2. split; [reflexivity|]. split; [congruence|]. split; [congruence|]. split; [|split].
        -- eapply dels_weaken; [exact PFX|exact D1].
        -- discriminate.
        -- intros _ E. apply (F1 eq_refl). auto.
    + unfold f_unlink_o. destruct (tick_cases o1) as [[T1 No1]|(o2 & T1 & To1)]; rewrite T1.
      { exists s, false, None. split; [reflexivity|]. split; [exact C|]. split; [exact Hh|]. split; [apply dels_refl|].
        split; [discriminate|intros _ E; apply No1; auto]. }
      unfold f_unlink.
      rewrite (k_unlink_nondir s (names ++ [c]) nm cp Hd' Hn' (ex_intro _ _ Gcp) (NLink t) Gch) by discriminate.
      cbn [is_none]. apply CONT. auto.
Qed.

Lemma dots_skipped : is_sdir SDir && is_dots DOT1 = true /\ is_sdir SDir && is_dots DOTDOT = true.
Proof. split; reflexivity. Qed.

Lemma unlink_step_o f : unlink_ok_o f -> unlink_ok_o (S f).
Proof.
  intros IHf o st names c es Hn G W Hh.
  set (d := cwd st ++ names) in *.
  destruct (get_below_dir (root st) d c [] (NDir es) G) as [pes Hpar].
  assert (Hd : d = cwd st ++ names) by reflexivity.
  assert (FAIL : forall ox : faults, o <> None ->
            exists st' b o', (st, false, ox) = (st', b, o') /\ cwd st' = cwd st /\ handles st' = handles st /\
              dels (d ++ [c]) (root st) (root st') /\
              (b = true -> root st' = upd (root st) (d ++ [c]) None) /\ (b = false -> o <> None)).
  { intros ox No. exists st, false, ox. split; [reflexivity|]. split; [reflexivity|]. split; [reflexivity|].
    split; [apply dels_refl|]. split; [discriminate|intros _; exact No]. }
  cbn [d_unlink_o].
  destruct (tick_cases o) as [[T No]|(o1 & T & To)]; rewrite T.
  { cbn [is_enotempty negb orb]. apply FAIL. exact No. }
  rewrite (k_rmdir_dir st names c d Hd Hn (ex_intro _ pes Hpar) es G).
  destruct es as [|e es].
  { exists (set_root st (upd (root st) (d ++ [c]) None)), true, o1.
    split; [reflexivity|]. split; [reflexivity|]. split; [reflexivity|].
    split; [apply dels_one; apply is_prefix_refl|]. split; [reflexivity|discriminate]. }
  cbn [negb orb is_enotempty]. cbv iota.
  destruct (tick_cases o1) as [[T1 No1]|(o2 & T1 & To1)]; rewrite T1.
  { apply FAIL. intro E. apply No1. auto. }
  unfold k_opendir. rewrite (k_readdir_dir st names c d Hd Hn (ex_intro _ pes Hpar) (e :: es) G).
  (* "." and ".." *)
  cbn [unlink_entries_o].
  destruct (tick_cases o2) as [[T2 No2]|(o3 & T2 & To2)]; rewrite T2.
  { apply FAIL. intro E. apply No2. auto. }
  rewrite (proj1 dots_skipped).
  destruct (tick_cases o3) as [[T3 No3]|(o4 & T3 & To3)]; rewrite T3.
  { apply FAIL. intro E. apply No3. auto. }
  rewrite (proj2 dots_skipped).
  destruct (unlink_loop_o f IHf st names c (root st) (d ++ [c]) Hn eq_refl eq_refl (ex_intro _ pes Hpar) (e :: es) o4 st)
    as (s1 & ok & o5 & E & C1 & H1 & D1 & X1 & F1); auto.
  { symmetry. apply upd_same. exact G. }
  { apply wf_children. exact W. }
  { apply height_children. exact Hh. }
  rewrite E. destruct ok.
  - specialize (X1 eq_refl).
    destruct (tick_cases o5) as [[T5 No5]|(o6 & T5 & To5)]; rewrite T5.
    + exists s1, false, None. split; [reflexivity|]. split; [exact C1|]. split; [exact H1|]. split; [exact D1|].
      split; [discriminate|]. intros _ E0. subst o.
      (* the oracle was empty all along *)
      pose proof (To eq_refl) as ->. pose proof (To1 eq_refl) as ->. pose proof (To2 eq_refl) as ->.
      pose proof (To3 eq_refl) as ->.
      pose proof (unlink_entries_o_none f (map (fun kv => (fst kv, shallow (snd kv))) (e :: es)) st (join (names ++ [c]) ++ [47])) as L.
      rewrite E in L. cbn [snd] in L. subst o5. discriminate T5.
    + idtac.
      assert (G1 : get (root s1) (d ++ [c]) = Some (NDir [])).
      { rewrite X1. rewrite <- (app_nil_r (d ++ [c])) at 2. erewrite get_upd_here by eauto. reflexivity. }
      assert (P1 : exists pes1, get (root s1) d = Some (NDir pes1)).
      { eapply get_below_dir with (b := []). exact G1. }
      assert (Hd1 : d = cwd s1 ++ names) by (rewrite C1; reflexivity).
      rewrite (k_rmdir_dir s1 names c d Hd1 Hn P1 [] G1). cbn [is_none].
      exists (set_root s1 (upd (root s1) (d ++ [c]) None)), true, o6.
      split; [reflexivity|]. split; [exact C1|]. split; [exact H1|]. split; [|split; [|discriminate]].
      * eapply dels_trans; [exact D1|]. apply dels_one. apply is_prefix_refl.
      * intros _. cbn [root set_root]. rewrite X1. apply upd_upd_same.
  - exists s1, false, o5. split; [reflexivity|]. split; [exact C1|]. split; [exact H1|]. split; [exact D1|].
    split; [discriminate|]. intros _ E0. apply (F1 eq_refl). subst o.
    rewrite (To3 (To2 (To1 (To eq_refl)))). reflexivity.
Qed.

Lemma unlink_zero_o : unlink_ok_o 0.
Proof. intros o st names c es Hn G W Hh. rewrite height_dir in Hh. lia. Qed.

Lemma unlink_all_o f : unlink_ok_o f.
Proof. induction f; [apply unlink_zero_o|apply unlink_step_o; auto]. Qed.

(* ---- the statements ------------------------------------------------------------------------------------------ *)

(* recursive unlink of a real directory named by proper names, with any one system call failing
   (or none): the answer is true only if the tree afterwards is the exact cut, false only if a call
   did fail; in every case the tree afterwards is well-formed and differs from the one before by
   removals inside that directory only - nothing outside it is touched, nothing new appears *)
Lemma unlink_with_fault st names c es fuel o :
  names_ok (names ++ [c]) ->
  get (root st) ((cwd st ++ names) ++ [c]) = Some (NDir es) ->
  wf_node (root st) = true -> (height (root st) <= fuel)%nat ->
  exists st' b o', d_unlink_o fuel o st (join (names ++ [c])) true = (st', b, o') /\
    cwd st' = cwd st /\ handles st' = handles st /\
    (b = true -> st' = set_root st (upd (root st) ((cwd st ++ names) ++ [c]) None)) /\
    (b = false -> o <> None) /\
    wf_node (root st') = true /\
    (forall q, is_prefix ((cwd st ++ names) ++ [c]) q = false -> sget (root st') q = sget (root st) q) /\
    (forall q, is_prefix ((cwd st ++ names) ++ [c]) q = false -> is_prefix q ((cwd st ++ names) ++ [c]) = false ->
               get (root st') q = get (root st) q) /\
    (forall q, sget (root st') q = sget (root st) q \/ sget (root st') q = None).
Proof.
  intros Hn G W Hf.
  destruct (unlink_all_o fuel o st names c es) as (st' & b & o' & E & C & H & D & X & F); auto.
  { eapply wf_get; eauto. }
  { pose proof (height_get _ _ _ G). lia. }
  assert (N : (cwd st ++ names) ++ [c] <> []) by (destruct (cwd st ++ names); discriminate).
  destruct (dels_spec _ _ _ W N D) as (A1 & A2 & A3 & A4).
  exists st', b, o'. split; [exact E|]. split; [exact C|]. split; [exact H|]. split; [|split; [exact F|]].
  - intro Eb. apply state_eq; auto.
  - split; [exact A1|]. split; [exact A2|]. split; [exact A3|exact A4].
Qed.

(* a first rmdir that fails for another reason than "not empty": false, nothing is touched - for
   every path text, recursive or not *)
Lemma unlink_first_call_fails fuel st p r : d_unlink_o fuel (Some O) st p r = (st, false, None).
Proof. destruct fuel; cbn [d_unlink_o tick is_enotempty negb orb]; rewrite orb_true_r; reflexivity. Qed.

(* ---- a fault that is not consumed --------------------------------------------------------------------------- *)
(* The oracle that comes back says whether the failing call was reached: Some _ = the operation made fewer
   calls than the position of the fault, so no call failed.  Such a run is the fault-free run, exactly: the
   same tree, the same answer.  (This is what the property oracle of checks/C19.py relies on: when the
   harness reports that the armed fault was not consumed, the fault-free expectation applies.) *)

Lemma f_unlink_o_unconsumed o st p st' b n :
  f_unlink_o o st p = (st', b, Some n) -> f_unlink_o None st p = (st', b, None).
Proof.
  unfold f_unlink_o. destruct o as [[|k]|]; cbn [tick].
  - intro E. inversion E.
  - destruct (f_unlink st p) as [s1 b1]. intro E. inversion E. reflexivity.
  - destruct (f_unlink st p) as [s1 b1]. intro E. inversion E.
Qed.

Definition unconsumed_ok (f : nat) : Prop :=
  forall o st p r st' b n,
    d_unlink_o f o st p r = (st', b, Some n) -> d_unlink_o f None st p r = (st', b, None).

Lemma unlink_entries_o_unconsumed f (IHf : unconsumed_ok f) : forall l o s pre s' ok n,
  unlink_entries_o (fun o' s0 p0 => d_unlink_o f o' s0 p0 true) o s pre l = (s', ok, Some n) ->
  unlink_entries_o (fun o' s0 p0 => d_unlink_o f o' s0 p0 true) None s pre l = (s', ok, None).
Proof.
  induction l as [|[nm k] t IHt]; intros o s pre s' ok n E.
  - cbn [unlink_entries_o] in *. destruct o as [[|j]|]; cbn [tick] in *; inversion E. reflexivity.
  - destruct o as [[|j]|].
    + cbn [unlink_entries_o tick] in E. inversion E.
    + cbn [unlink_entries_o tick] in *.
      destruct (is_sdir k && is_dots nm); [eapply IHt; exact E|].
      assert (STEP : forall one : faults -> state * bool * faults,
                (forall s1 ok1 m, one (Some j) = (s1, ok1, Some m) -> one None = (s1, ok1, None)) ->
                (let '(st1, ok1, o2) := one (Some j) in
                 if ok1 then unlink_entries_o (fun o' s0 p0 => d_unlink_o f o' s0 p0 true) o2 st1 pre t else (st1, false, o2))
                = (s', ok, Some n) ->
                (let '(st1, ok1, o2) := one None in
                 if ok1 then unlink_entries_o (fun o' s0 p0 => d_unlink_o f o' s0 p0 true) o2 st1 pre t else (st1, false, o2))
                = (s', ok, None)).
      { intros one N E0. destruct (one (Some j)) as [[s1 ok1] o2] eqn:E1. destruct ok1.
        - destruct o2 as [m|].
          + rewrite (N s1 true m eq_refl). eapply IHt. exact E0.
          + pose proof (unlink_entries_o_none f t s1 pre) as X. rewrite E0 in X. discriminate X.
        - inversion E0. subst. rewrite (N s' false n eq_refl). reflexivity. }
      destruct k.
      * apply (STEP (fun ox => f_unlink_o ox s (pre ++ nm))); [|exact E].
        intros s1 ok1 m E1. eapply f_unlink_o_unconsumed; exact E1.
      * apply (STEP (fun ox => d_unlink_o f ox s (pre ++ nm) true)); [|exact E].
        intros s1 ok1 m E1. eapply IHf; exact E1.
      * apply (STEP (fun ox => f_unlink_o ox s (pre ++ nm))); [|exact E].
        intros s1 ok1 m E1. eapply f_unlink_o_unconsumed; exact E1.
    + pose proof (unlink_entries_o_none f ((nm, k) :: t) s pre) as X. rewrite E in X. discriminate X.
Qed.

Lemma unconsumed_all f : unconsumed_ok f.
Proof.
  induction f as [|f IHf]; intros o st p r st' b n E.
  - destruct o as [[|j]|].
    + rewrite unlink_first_call_fails in E. inversion E.
    + cbn [d_unlink_o tick] in *. destruct (k_rmdir st p) as [s1 [e|]].
      * destruct (negb r || negb (is_enotempty e)); inversion E; reflexivity.
      * inversion E. reflexivity.
    + pose proof (d_unlink_o_none 0 st p r) as X. rewrite E in X. discriminate X.
  - destruct o as [[|j]|].
    + rewrite unlink_first_call_fails in E. inversion E.
    + cbn [d_unlink_o tick] in *. destruct (k_rmdir st p) as [s1 [e|]]; [|inversion E; reflexivity].
      destruct (negb r || negb (is_enotempty e)); [inversion E; reflexivity|].
      destruct j as [|j]; cbn [tick] in *; [inversion E|].
      destruct (k_opendir st p) as [ents|e']; [|inversion E; reflexivity].
      destruct (unlink_entries_o (fun o' s0 p0 => d_unlink_o f o' s0 p0 true) (Some j) st (p ++ [47]) ents)
        as [[s2 ok2] o3] eqn:E2.
      destruct ok2.
      * destruct o3 as [[|m]|]; cbn [tick] in E.
        -- inversion E.
        -- rewrite (unlink_entries_o_unconsumed f IHf ents (Some j) st (p ++ [47]) s2 true (S m) E2).
           cbn [tick]. destruct (k_rmdir s2 p) as [s3 e3]. inversion E. reflexivity.
        -- destruct (k_rmdir s2 p) as [s3 e3]. inversion E.
      * inversion E. subst.
        rewrite (unlink_entries_o_unconsumed f IHf ents (Some j) st (p ++ [47]) st' false n E2). reflexivity.
    + pose proof (d_unlink_o_none (S f) st p r) as X. rewrite E in X. discriminate X.
Qed.

(* a fault that was not consumed leaves the fault-free run: every path text, recursive or not *)
Lemma unlink_unconsumed_fault fuel o st p r st' b n :
  d_unlink_o fuel o st p r = (st', b, Some n) -> d_unlink_o fuel None st p r = (st', b, None).
Proof. apply unconsumed_all. Qed.

(* hence, on the class of the unlink theorem: the answer false means that the fault was consumed - a call
   of the operation did fail - and a fault that was not consumed means true with the exact cut *)
Lemma unlink_false_means_consumed st names c es fuel o st' o' :
  names_ok (names ++ [c]) ->
  get (root st) ((cwd st ++ names) ++ [c]) = Some (NDir es) ->
  wf_node (root st) = true -> (height (root st) <= fuel)%nat ->
  d_unlink_o fuel o st (join (names ++ [c])) true = (st', false, o') ->
  o <> None /\ o' = None.
Proof.
  intros Hn G W Hf E.
  destruct (unlink_with_fault st names c es fuel o Hn G W Hf) as (s1 & b1 & o1 & E1 & _ & _ & _ & F & _).
  rewrite E in E1. inversion E1. subst. split; [apply F; reflexivity|].
  destruct o1 as [n|]; [|reflexivity]. exfalso.
  pose proof (unlink_unconsumed_fault _ _ _ _ _ _ _ _ E) as E0.
  destruct (unlink_with_fault st names c es fuel None Hn G W Hf) as (s2 & b2 & o2 & E2 & _ & _ & _ & F2 & _).
  rewrite E0 in E2. inversion E2. subst. apply (F2 eq_refl). reflexivity.
Qed.
