(* Every operation keeps the tree well-formed (proper, unique entry names): the hypothesis of the
   unlink theorem holds in every state that the operations can reach from the initial one. *)
From Coq Require Import ZArith List Bool Lia.
From Path Require Import PathSpec PathModel PathProofs FsSpec FsModel FsTree FsWalk FsDir FsCreate FsFile FsMove.
Import ListNotations.
Local Open Scope Z_scope.

Lemma walk_name_ok r fl d nm k : forall L cur cs,
  Forall pwf cs -> walk L r fl cur cs = WAt d nm k -> name_ok nm = true.
Proof.
  apply (walk_ind r fl (fun L cur cs => Forall pwf cs -> walk L r fl cur cs = WAt d nm k -> name_ok nm = true)).
  - intros L cur _. rewrite walk_nil. discriminate.
  - intros L cur c rest IH W. inversion W as [|? ? Wc Wr]; subst. rewrite walk_cons. unfold wstep in *.
    destruct (str_eqb c DOT1) eqn:D1. { destruct rest; [discriminate|]. apply IH; auto. }
    destruct (str_eqb c DOTDOT) eqn:D2. { destruct rest; [discriminate|]. apply IH; auto. }
    assert (OK : name_ok c = true) by (apply pwf_name_ok; auto).
    assert (LK : forall t l, Forall pwf (ptoks t ++ l) <-> Forall pwf l).
    { intros t l. split; intro H; [apply Forall_app in H; tauto|apply Forall_app; split; auto; apply ptoks_wf]. }
    destruct (sget r (cur ++ [c])) as [[| |t]|].
    + destruct rest; [|discriminate]. intro H. inversion H; subst. exact OK.
    + destruct rest; [|apply IH; auto]. intro H. inversion H; subst. exact OK.
    + destruct rest as [|x y].
      * destruct fl.
        -- destruct L; [discriminate|]. destruct t; [discriminate|]. apply IH; auto. apply LK. auto.
        -- intro H. inversion H; subst. exact OK.
      * destruct L; [discriminate|]. destruct t; [discriminate|]. apply IH; auto. apply LK. auto.
    + destruct rest; [|discriminate]. intro H. inversion H; subst. exact OK.
Qed.

Lemma resolve_name_ok st fl path d nm k : resolve st fl path = WAt d nm k -> name_ok nm = true.
Proof. unfold resolve. destruct path; [discriminate|]. apply walk_name_ok. apply ptoks_wf. Qed.

Definition wfs (st : state) : Prop := wf_node (root st) = true.

Lemma wf_insert st d nm v : wfs st -> name_ok nm = true -> (forall x, v = Some x -> wf_node x = true) ->
  wfs (set_root st (upd (root st) (d ++ [nm]) v)).
Proof.
  intros W N V. unfold wfs. cbn [root set_root]. apply wf_upd; auto; intros; rewrite last_last; exact N.
Qed.

Lemma wf_replace st p v : wfs st -> get (root st) p <> None -> (forall x, v = Some x -> wf_node x = true) ->
  wfs (set_root st (upd (root st) p v)).
Proof. intros W N V. unfold wfs. cbn [root set_root]. apply wf_upd; auto; intros _ G; contradiction. Qed.

Ltac wf_leaf := let x := fresh in let E := fresh in intros x E; inversion E; subst; reflexivity.

Lemma wf_k_open st path rd wr creat excl trunc : wfs st -> wfs (fst (k_open st path rd wr creat excl trunc)).
Proof.
  intro W. unfold k_open.
  destruct (resolve st (negb (creat && excl)) path) as [e|d nm [[| |t]|]|d dot] eqn:R; cbn [fst];
    repeat match goal with |- context [if ?c then _ else _] => destruct c end; cbn [fst]; auto;
    apply wf_insert; auto; try (eapply resolve_name_ok; eauto); wf_leaf.
Qed.

Lemma wf_k_write st f d : wfs st -> wfs (fst (fst (k_write st f d))).
Proof.
  intro W. unfold k_write. destruct (fd_dir f || negb (fd_wr f)); auto.
  destruct (get (root st) (fd_path f)) as [[c| |]|] eqn:G; auto. cbn [fst].
  apply wf_replace; auto; [congruence|wf_leaf].
Qed.

Lemma wf_k_sendfile st a b n x : wfs st -> wfs (fst (fst (fst (k_sendfile st a b n x)))).
Proof.
  intro W. unfold k_sendfile. destruct (fd_dir b || fd_dir a || negb (fd_rd b) || negb (fd_wr a)); auto.
  destruct x as [[|m]|]; auto;
    (destruct (get (root st) (fd_path a)) as [[c| |]|] eqn:G; auto; cbn [fst];
     apply wf_replace; auto; [congruence|wf_leaf]).
Qed.

Lemma wf_xfer_loop fuel : forall orc st a b left, wfs st -> wfs (fst (xfer_loop fuel orc st a b left)).
Proof.
  induction fuel as [|f IH]; intros orc st a b left W; destruct left; simpl; auto.
  pose proof (wf_k_sendfile st a b (S left) (hd_error orc) W) as W1.
  destruct (k_sendfile st a b (S left) (hd_error orc)) as [[[st1 a1] b1] [n|e]]; cbn [fst] in *; auto.
  destruct (Nat.eqb n 0); auto.
Qed.

Lemma wf_k_ftruncate0 st f : wfs st -> wfs (k_ftruncate0 st f).
Proof.
  intro W. unfold k_ftruncate0. destruct (get (root st) (fd_path f)) as [[c|es|t]|] eqn:G; auto.
  apply wf_replace; auto; [congruence|wf_leaf].
Qed.

Lemma wf_k_mknode st path n : wfs st -> wf_node n = true -> wfs (fst (k_mknode st path n)).
Proof.
  intros W N. unfold k_mknode. destruct (resolve st false path) as [e|d nm [k|]|d dot] eqn:R; auto.
  destruct (parent_is_dir st d); auto. cbn [fst]. apply wf_insert; auto.
  - eapply resolve_name_ok; eauto.
  - intros x E. inversion E; subst. auto.
Qed.

Lemma wf_k_symlink st t p : wfs st -> wfs (fst (k_symlink st t p)).
Proof. intro W. unfold k_symlink. destruct t; auto. apply wf_k_mknode; auto. Qed.

Lemma wf_delete st p : wfs st -> wfs (set_root st (upd (root st) p None)).
Proof. intro W. unfold wfs. cbn [root set_root]. apply wf_upd; auto; intros; try discriminate; congruence. Qed.

Lemma wf_k_unlink st p : wfs st -> wfs (fst (k_unlink st p)).
Proof.
  intro W. unfold k_unlink. destruct (resolve st false p) as [e|d nm [[| |t]|]|d dot]; auto; apply wf_delete; auto.
Qed.

Lemma wf_k_rmdir st p : wfs st -> wfs (fst (k_rmdir st p)).
Proof.
  intro W. unfold k_rmdir. destruct (resolve st false p) as [e|d nm [[| |t]|]|d [|[|dot]]]; auto.
  destruct (entries_at (root st) (d ++ [nm])); auto. apply wf_delete; auto.
Qed.

Lemma wf_k_rename st a b : wfs st -> wfs (fst (k_rename st a b)).
Proof.
  intro W. unfold k_rename.
  destruct (resolve st false a) as [e|d1 n1 [k1|]|d0 dot0]; auto.
  destruct (resolve st false b) as [e|d2 n2 k2|d0 dot0] eqn:R2; auto.
  destruct (negb (parent_is_dir st d2)); auto.
  destruct (cpath_eqb (d1 ++ [n1]) (d2 ++ [n2])); auto.
  assert (MV : wfs (fst match get (root st) (d1 ++ [n1]) with
                        | Some x => (set_root st (upd (upd (root st) (d1 ++ [n1]) None) (d2 ++ [n2]) (Some x)), @None errno)
                        | None => (st, Some ENOENT)
                        end)).
  { destruct (get (root st) (d1 ++ [n1])) as [x|] eqn:G; auto. cbn [fst].
    change (set_root st (upd (upd (root st) (d1 ++ [n1]) None) (d2 ++ [n2]) (Some x)))
      with (set_root (set_root st (upd (root st) (d1 ++ [n1]) None))
                     (upd (root (set_root st (upd (root st) (d1 ++ [n1]) None))) (d2 ++ [n2]) (Some x))).
    apply wf_insert.
    - apply wf_delete; auto.
    - eapply resolve_name_ok; eauto.
    - intros y E. inversion E; subst. eapply wf_get; eauto. }
  destruct k1 as [| |t1]; try destruct (is_prefix (d1 ++ [n1]) (d2 ++ [n2]));
    try destruct k2 as [[| |t2]|]; try destruct (entries_at (root st) (d2 ++ [n2])); auto.
Qed.

(* ---- the library ------------------------------------------------------------------------------------ *)

Lemma wfs_set_handle st h v : wfs st -> wfs (set_handle st h v).
Proof. auto. Qed.

Lemma wf_f_open st h p fr fw fa fo : wfs st -> wfs (fst (f_open st h p fr fw fa fo)).
Proof.
  intro W. unfold f_open. destruct (hfind (handles st) h); auto.
  destruct (if fr && fw then (true, true, negb fo, false)
            else if fw then (false, true, negb fo, negb fo && negb fa) else (true, false, false, false))
    as [[[rd wr] creat] trunc].
  pose proof (wf_k_open st p rd wr creat false trunc W) as W1.
  destruct (k_open st p rd wr creat false trunc) as [st1 [f|e]]; auto.
Qed.

Lemma f_size_root st h : root (fst (f_size st h)) = root st.
Proof.
  unfold f_size. destruct (hfind (handles st) h) as [f|]; auto.
  destruct (k_lseek st f 0 1) as [f1 cur]. destruct (cur <? 0); auto.
  destruct (k_lseek st f1 0 2) as [f2 size]. destruct (size <? 0); auto.
  destruct (cur =? size); auto. destruct (k_lseek st f2 cur 0) as [f3 back]. destruct (back <? 0); auto.
Qed.

Lemma f_read_root st h n : root (fst (f_read st h n)) = root st.
Proof. unfold f_read. destruct (hfind (handles st) h) as [f|]; auto. destruct (k_read st f n); auto. Qed.

Lemma wf_h_step st h o : wfs st -> wfs (fst (h_step st h o)).
Proof.
  intro W. unfold wfs in *. destruct o as [d|off wh| |n| |]; unfold h_step.
  6: { unfold f_flush. destruct (hfind (handles st) h); exact W. }
  - unfold f_write. destruct (hfind (handles st) h) as [f|]; auto.
    pose proof (wf_k_write st f d W) as W1. destruct (k_write st f d) as [[st1 f'] [n|e]]; auto.
  - unfold f_seek. destruct (hfind (handles st) h) as [f|]; auto. destruct (k_lseek st f off wh); auto.
  - unfold f_readAll. destruct (hfind (handles st) h) as [f0|]; [|exact W]. destruct (fd_dir f0); [exact W|].
    pose proof (f_size_root st h) as S. destruct (f_size st h) as [st1 size]. cbn [fst] in S.
    destruct (size <? 0); cbn [fst]; [congruence|].
    pose proof (f_read_root st1 h (Z.to_nat size)) as R. destruct (f_read st1 h (Z.to_nat size)) as [st2 [d|e]];
      cbn [fst] in *; congruence.
  - pose proof (f_read_root st h n) as R. destruct (f_read st h n) as [st2 [d|e]]; cbn [fst] in *; congruence.
  - pose proof (f_size_root st h) as S. destruct (f_size st h) as [st1 size]. cbn [fst] in *. congruence.
Qed.

Lemma wf_f_unlink st p : wfs st -> wfs (fst (f_unlink st p)).
Proof. intro W. unfold f_unlink. pose proof (wf_k_unlink st p W). destruct (k_unlink st p); auto. Qed.

Lemma wf_f_symlink st t p : wfs st -> wfs (fst (f_symlink st t p)).
Proof. intro W. unfold f_symlink. pose proof (wf_k_symlink st t p W). destruct (k_symlink st t p); auto. Qed.

Lemma wf_f_rename st a b fie : wfs st -> wfs (fst (f_rename st a b fie)).
Proof.
  intro W. unfold f_rename. destruct fie.
  - destruct (k_lstat st a); auto.
    pose proof (wf_k_open st b true false true true false W) as W1.
    destruct (k_open st b true false true true false) as [st1 [f|e]]; auto. cbn [fst] in W1.
    pose proof (wf_k_rename st1 a b W1) as W2. destruct (k_rename st1 a b) as [st2 [e|]]; auto.
    cbn [fst] in *. apply wf_k_unlink. auto.
  - pose proof (wf_k_rename st a b W) as W2. destruct (k_rename st a b) as [st2 e]; auto.
Qed.

Lemma wf_f_copy orc st a b fie : wfs st -> wfs (fst (f_copy_o orc st a b fie)).
Proof.
  intro W. unfold f_copy_o.
  pose proof (wf_k_open st a true false false false false W) as W1.
  destruct (k_open st a true false false false false) as [st1 [fs|e]]; auto. cbn [fst] in W1.
  destruct (fd_dir fs); auto. destruct (k_lseek st1 fs 0 2) as [fs1 size]. destruct (size <? 0); auto.
  destruct (k_lseek st1 fs1 0 0) as [fs2 z]. destruct (z <? 0); auto.
  assert (FIN : forall (st2 : state) (fd2 : fd) (created : bool), wfs st2 ->
            wfs (fst (let '(st3, ok) := if same_file fs2 fd2 then (st2, false)
                                        else xfer_loop (S (Z.to_nat size)) orc (k_ftruncate0 st2 fd2) fd2 fs2 (Z.to_nat size) in
                      if ok then (st3, true) else if created then (fst (k_unlink st3 b), false) else (st3, false)))).
  { intros st2 fd2 created W2.
    assert (W3 : wfs (fst (if same_file fs2 fd2 then (st2, false)
                           else xfer_loop (S (Z.to_nat size)) orc (k_ftruncate0 st2 fd2) fd2 fs2 (Z.to_nat size)))).
    { destruct (same_file fs2 fd2); auto. apply wf_xfer_loop. apply wf_k_ftruncate0. auto. }
    destruct (if same_file fs2 fd2 then (st2, false)
              else xfer_loop (S (Z.to_nat size)) orc (k_ftruncate0 st2 fd2) fd2 fs2 (Z.to_nat size)) as [st3 ok].
    cbn [fst] in W3. destruct ok; auto. destruct created; auto. cbn [fst]. apply wf_k_unlink. auto. }
  pose proof (wf_k_open st1 b false true true true false W1) as W2.
  destruct (k_open st1 b false true true true false) as [s [f|e]]; cbn [fst] in W2.
  - exact (FIN s f true W2).
  - destruct (is_eexist e && negb fie); auto.
    pose proof (wf_k_open s b false true true false false W2) as W4.
    destruct (k_open s b false true true false false) as [s' [f|e']]; cbn [fst] in W4; auto.
    exact (FIN s' f false W4).
Qed.

Lemma wf_d_create fuel : forall st p, wfs st -> wfs (fst (d_create fuel st p)).
Proof.
  induction fuel as [|f IH]; intros st p W; cbn [d_create]; auto.
  assert (X : wfs (fst (if negb (str_eqb (getDirectoryName p) DOT1) && nonempty (getDirectoryName p) &&
                           negb (d_exists st (getDirectoryName p))
                        then d_create f st (getDirectoryName p) else (st, true)))).
  { destruct (_ && _); auto. }
  destruct (if negb (str_eqb (getDirectoryName p) DOT1) && nonempty (getDirectoryName p) &&
               negb (d_exists st (getDirectoryName p))
            then d_create f st (getDirectoryName p) else (st, true)) as [st1 ok]. cbn [fst] in X.
  destruct ok; cbn [negb]; auto.
  pose proof (wf_k_mknode st1 p (NDir []) X eq_refl) as W2. unfold k_mkdir.
  destruct (k_mknode st1 p (NDir [])) as [st2 [e|]]; auto.
Qed.

Lemma wf_unlink_entries recur :
  (forall st p, wfs st -> wfs (fst (recur st p))) ->
  forall ents st prefix, wfs st -> wfs (fst (unlink_entries recur st prefix ents)).
Proof.
  intros R. induction ents as [|[nm k] t IH]; intros st prefix W; cbn [unlink_entries]; auto.
  assert (X : wfs (fst (match k with SDir => recur st (prefix ++ nm) | _ => f_unlink st (prefix ++ nm) end))).
  { destruct k; auto using wf_f_unlink. }
  destruct (match k with SDir => recur st (prefix ++ nm) | _ => f_unlink st (prefix ++ nm) end) as [st1 ok].
  cbn [fst] in X. destruct ok; auto.
Qed.

Lemma wf_d_unlink fuel : forall st p r, wfs st -> wfs (fst (d_unlink fuel st p r)).
Proof.
  induction fuel as [|f IH]; intros st p r W.
  - cbn [d_unlink]. pose proof (wf_k_rmdir st p W) as W1. destruct (k_rmdir st p) as [st1 [e|]]; auto.
    destruct (negb r || negb (is_enotempty e)); auto.
  - cbn [d_unlink]. pose proof (wf_k_rmdir st p W) as W1. destruct (k_rmdir st p) as [st1 [e|]]; auto.
    destruct (negb r || negb (is_enotempty e)); auto.
    destruct (k_readdir st p) as [ents|e']; auto.
    pose proof (wf_unlink_entries (fun s q => d_unlink f s q true) (fun s q => IH s q true) ents st (p ++ [47]) W) as W2.
    destruct (unlink_entries (fun s q => d_unlink f s q true) st (p ++ [47]) ents) as [st2 ok]. cbn [fst] in W2.
    destruct ok; auto.
    pose proof (wf_k_rmdir st2 p W2) as W3. destruct (k_rmdir st2 p) as [st3 e3]; auto.
Qed.

(* ---- round 3 ---------------------------------------------------------------------------------------- *)

Lemma wf_f_readAll st h : wfs st -> wfs (fst (f_readAll st h)).
Proof.
  intro W. pose proof (wf_h_step st h HReadAll W) as X. unfold h_step in X.
  destruct (f_readAll st h) as [st' [b d]]. exact X.
Qed.

Lemma wf_f_readAll_path st p : wfs st -> wfs (fst (f_readAll_path st p)).
Proof.
  intro W. unfold f_readAll_path.
  pose proof (wf_f_open st (fresh_handle st) p true false false false W) as W1.
  destruct (f_open st (fresh_handle st) p true false false false) as [st1 [|]]; cbn [fst] in *; auto.
  pose proof (wf_f_readAll st1 (fresh_handle st) W1) as W2.
  destruct (f_readAll st1 (fresh_handle st)) as [st2 r]. cbn [fst] in *. exact W2.
Qed.

Lemma wf_d_change st p : wfs st -> wfs (fst (d_change st p)).
Proof.
  intro W. unfold d_change, k_chdir.
  destruct (resolve st true p) as [e|d nm [[| |t]|]|d dot]; cbn [fst]; exact W.
Qed.

Lemma wf_f_unlink_o o st p : wfs st -> wfs (fst (fst (f_unlink_o o st p))).
Proof.
  intro W. unfold f_unlink_o. destruct (tick o) as [[|] o1]; cbn [fst]; auto.
  pose proof (wf_f_unlink st p W) as X. destruct (f_unlink st p) as [st' b]. exact X.
Qed.

Lemma wf_unlink_entries_o recur :
  (forall o st p, wfs st -> wfs (fst (fst (recur o st p)))) ->
  forall ents o st prefix, wfs st -> wfs (fst (fst (unlink_entries_o recur o st prefix ents))).
Proof.
  intros R. induction ents as [|[nm k] t IH]; intros o st prefix W; cbn [unlink_entries_o];
    destruct (tick o) as [[|] o1]; cbn [fst]; auto.
  destruct (is_sdir k && is_dots nm); [apply IH; auto|].
  assert (X : wfs (fst (fst (match k with SDir => recur o1 st (prefix ++ nm) | _ => f_unlink_o o1 st (prefix ++ nm) end)))).
  { destruct k; auto using wf_f_unlink_o. }
  destruct (match k with SDir => recur o1 st (prefix ++ nm) | _ => f_unlink_o o1 st (prefix ++ nm) end) as [[st1 ok] o2].
  cbn [fst] in X. destruct ok; cbn [fst]; auto.
Qed.

Lemma wf_d_unlink_o fuel : forall o st p r, wfs st -> wfs (fst (fst (d_unlink_o fuel o st p r))).
Proof.
  induction fuel as [|f IH]; intros o st p r W; cbn [d_unlink_o]; destruct (tick o) as [bad o1].
  - assert (W1 : wfs (fst (if bad then (st, Some EIO) else k_rmdir st p))).
    { destruct bad; [exact W|apply wf_k_rmdir; exact W]. }
    destruct (if bad then (st, Some EIO) else k_rmdir st p) as [st1 [e|]]; cbn [fst] in *; auto.
    destruct (negb r || negb (is_enotempty e)); auto.
  - assert (W1 : wfs (fst (if bad then (st, Some EIO) else k_rmdir st p))).
    { destruct bad; [exact W|apply wf_k_rmdir; exact W]. }
    destruct (if bad then (st, Some EIO) else k_rmdir st p) as [st1 [e|]]; cbn [fst] in *; auto.
    destruct (negb r || negb (is_enotempty e)); auto.
    destruct (tick o1) as [bad2 o2].
    destruct (if bad2 then inr EIO else k_opendir st p) as [ents|e']; auto.
    pose proof (wf_unlink_entries_o (fun o' s q => d_unlink_o f o' s q true) (fun o' s q => IH o' s q true) ents o2 st (p ++ [47]) W) as W2.
    destruct (unlink_entries_o (fun o' s q => d_unlink_o f o' s q true) o2 st (p ++ [47]) ents) as [[st2 ok] o3].
    cbn [fst] in W2. destruct ok; auto.
    destruct (tick o3) as [bad3 o4].
    assert (W3 : wfs (fst (if bad3 then (st2, Some EIO) else k_rmdir st2 p))).
    { destruct bad3; [exact W2|apply wf_k_rmdir; exact W2]. }
    destruct (if bad3 then (st2, Some EIO) else k_rmdir st2 p) as [st3 e3]. exact W3.
Qed.

Lemma wf_purge_up_o fuel : forall o st i, wfs st -> wfs (fst (purge_up_o fuel o st i)).
Proof.
  induction fuel as [|f IH]; intros o st i W; cbn [purge_up_o]; auto.
  destruct (str_eqb i DOT1); auto. destruct (tick o) as [bad o1].
  assert (W1 : wfs (fst (if bad then (st, Some EIO) else k_rmdir st i))).
  { destruct bad; [exact W|apply wf_k_rmdir; exact W]. }
  destruct (if bad then (st, Some EIO) else k_rmdir st i) as [st1 [e|]]; cbn [fst] in *; auto.
Qed.

Lemma wf_d_purge_o fuel o st p r : wfs st -> wfs (fst (d_purge_o fuel o st p r)).
Proof.
  intro W. unfold d_purge_o. pose proof (wf_d_unlink_o fuel o st p r W) as W1.
  destruct (d_unlink_o fuel o st p r) as [[st1 ok] o1]. cbn [fst] in W1.
  destruct ok; cbn [fst]; auto. apply wf_purge_up_o. exact W1.
Qed.

Lemma wf_fs_step st o : wfs st -> wfs (fs_step st o).
Proof.
  intro W. destruct o; cbn [fs_step].
  - apply wf_k_mknode; auto.
  - apply wf_k_mknode; auto.
  - apply wf_k_symlink; auto.
  - apply wf_f_open; auto.
  - exact W.
  - apply wf_h_step; auto.
  - apply wf_f_unlink; auto.
  - apply wf_f_symlink; auto.
  - apply wf_f_rename; auto.
  - apply wf_f_copy; auto.
  - apply wf_d_create; auto.
  - apply wf_d_unlink; auto.
  - apply wf_f_readAll_path; auto.
  - apply wf_d_change; auto.
  - apply wf_d_unlink_o; auto.
  - apply wf_d_purge_o; auto.
Qed.

Lemma wf_init : wfs init_state.
Proof. reflexivity. Qed.

Lemma wf_reachable os : forall st, wfs st -> wfs (fs_run st os).
Proof.
  induction os as [|o os IH]; intros st W; auto. apply IH. apply wf_fs_step. auto.
Qed.

Lemma reachable_wf os : wf_node (root (fs_run init_state os)) = true.
Proof. apply wf_reachable. apply wf_init. Qed.
