(* Success theorems for File::rename and File::copy (second audit, finding 4): every other theorem on these two
   functions is conditional on the answer, so a function that always says false would satisfy them all.  Here:
   the source exists, the destination text leads to a free place in an existing directory (for rename: not below
   the source; with failIfExists not a directory, whose placeholder is a regular file), every transfer call
   completes - then the answer is true and the state afterwards is the one the other theorems describe. *)
From Coq Require Import ZArith List Bool Lia.
From Path Require Import PathSpec PathModel PathProofs FsSpec FsModel FsTree FsWalk FsDir FsCreate FsFile FsMove FsCopy.
Import ListNotations.
Local Open Scope Z_scope.

Lemma parent_is_dir_get st d es : get (root st) d = Some (NDir es) -> parent_is_dir st d = true.
Proof. unfold parent_is_dir, sget. intros ->. reflexivity. Qed.

Lemma cpath_eqb_not_prefix a b : is_prefix a b = false -> cpath_eqb a b = false.
Proof. unfold cpath_eqb. intros ->. reflexivity. Qed.

(* something is at p1, nothing at p2: p2 is not above p1 *)
Lemma free_place_not_above r p1 p2 x : get r p1 = Some x -> get r p2 = None -> is_prefix p2 p1 = false.
Proof.
  intros G1 G2. destruct (is_prefix p2 p1) eqn:P; auto.
  apply is_prefix_true in P as [t E]. rewrite E, get_app, G2 in G1. discriminate.
Qed.

Lemma rename_succeeds_l st from to fie d1 n1 x d2 n2 es :
  resolve st false from = WAt d1 n1 (Some (shallow x)) ->
  get (root st) (d1 ++ [n1]) = Some x ->
  resolve st false to = WAt d2 n2 None ->
  get (root st) d2 = Some (NDir es) ->
  is_prefix (d1 ++ [n1]) (d2 ++ [n2]) = false ->
  (fie = true -> shallow x <> SDir) ->
  f_rename st from to fie
  = (set_root st (upd (upd (root st) (d1 ++ [n1]) None) (d2 ++ [n2]) (Some x)), true).
Proof.
  intros R1 G1 R2 G2 P12 Hd.
  pose proof (resolve_at_none _ _ _ _ _ R2) as Gn.
  pose proof (free_place_not_above _ _ _ _ G1 Gn) as P21.
  unfold f_rename. destruct fie.
  - unfold k_lstat. rewrite R1.
    unfold k_open. cbn [andb negb]. rewrite R2. rewrite (parent_is_dir_get _ _ _ G2). cbn [andb].
    set (st1 := set_root st (upd (root st) (d2 ++ [n2]) (Some (NFile [])))).
    assert (R1' : resolve st1 false from = WAt d1 n1 (Some (shallow x))).
    { unfold resolve in R1 |- *. destruct from as [|z from]; [discriminate R1|].
      cbn [root cwd st1 set_root].
      apply (walk_fresh_same (root st) d2 n2 (NFile []) false Gn (ex_intro _ es G2) (leaf_file [])); auto.
      - intros e X. discriminate X.
      - intro X. discriminate X. }
    assert (R2' : resolve st1 false to = WAt d2 n2 (Some SFile)).
    { unfold resolve in R2 |- *. destruct to as [|z to]; [discriminate R2|]. cbn [root cwd st1 set_root].
      apply (walk_fresh (root st) d2 n2 (NFile []) false Gn (ex_intro _ es G2) (leaf_file []) (or_introl eq_refl)); auto. }
    assert (SD : parent_is_dir st1 d2 = true).
    { unfold parent_is_dir. cbn [root st1 set_root]. rewrite sget_upd_other.
      - unfold sget. rewrite G2. reflexivity.
      - destruct d2; discriminate.
      - destruct (is_prefix (d2 ++ [n2]) d2) eqn:Q; auto. apply is_prefix_true in Q as [u Q].
        rewrite <- app_assoc in Q. rewrite <- (app_nil_r d2) in Q at 1. apply app_inv_head in Q. discriminate Q. }
    assert (G1' : get (root st1) (d1 ++ [n1]) = Some x).
    { cbn [root st1 set_root]. rewrite get_upd_unrelated by auto. exact G1. }
    unfold k_rename. rewrite R1', R2', SD. cbn [negb]. rewrite (cpath_eqb_not_prefix _ _ P12), G1'.
    specialize (Hd eq_refl).
    assert (E : set_root st1 (upd (upd (root st1) (d1 ++ [n1]) None) (d2 ++ [n2]) (Some x))
                = set_root st (upd (upd (root st) (d1 ++ [n1]) None) (d2 ++ [n2]) (Some x))).
    { unfold st1. rewrite set_root_twice. f_equal. cbn [root set_root].
      rewrite (upd_none_comm (d1 ++ [n1]) (root st) (d2 ++ [n2]) (Some (NFile []))) by auto.
      rewrite upd_upd_same. reflexivity. }
    destruct (shallow x) as [| |t]; [|contradiction|]; rewrite E; reflexivity.
  - unfold k_rename. rewrite R1, R2, (parent_is_dir_get _ _ _ G2). cbn [negb].
    rewrite (cpath_eqb_not_prefix _ _ P12), G1, P12.
    destruct (shallow x) as [| |t]; reflexivity.
Qed.

Lemma cpath_eqb_not_prefix_r a b : is_prefix b a = false -> cpath_eqb a b = false.
Proof. unfold cpath_eqb. intros ->. apply andb_false_r. Qed.

(* File::copy onto a free place, every transfer call complete *)
Lemma copy_succeeds_l st src dst fie ds ns c dd nd es :
  resolve st true src = WAt ds ns (Some SFile) ->
  get (root st) (ds ++ [ns]) = Some (NFile c) ->
  resolve st false dst = WAt dd nd None ->
  get (root st) dd = Some (NDir es) ->
  f_copy st src dst fie = (set_root st (upd (root st) (dd ++ [nd]) (Some (NFile c))), true).
Proof.
  intros Rs Gs Rd Gd.
  pose proof (resolve_at_none _ _ _ _ _ Rd) as Gn.
  assert (N : ds ++ [ns] <> dd ++ [nd]) by (intro X; rewrite X in Gs; congruence).
  destruct (file_unrelated _ _ _ _ _ _ Gs Gd (or_introl Gn) N) as [U1 U2].
  unfold f_copy, f_copy_o.
  unfold k_open at 1. cbn [andb negb]. rewrite Rs. cbn [fd_dir].
  unfold k_lseek, content_at. cbn [fd_path]. rewrite Gs. rewrite !Z.add_0_r.
  destruct (Z.of_nat (length c) <? 0) eqn:C1; [apply Z.ltb_lt in C1; lia|].
  cbn [Z.of_nat Z.add Z.ltb Z.compare Z.to_nat fd_path fd_pos fd_rd fd_wr fd_dir].
  rewrite Nat2Z.id.
  unfold k_open. cbn [andb negb]. rewrite Rd. rewrite (parent_is_dir_get _ _ _ Gd). cbn [andb].
  unfold same_file. cbn [fd_path]. rewrite (cpath_eqb_not_prefix_r _ _ U1).
  set (fs2 := {| fd_path := ds ++ [ns]; fd_pos := 0; fd_rd := true; fd_wr := false; fd_dir := false |}).
  set (fdst := {| fd_path := dd ++ [nd]; fd_pos := 0; fd_rd := false; fd_wr := true; fd_dir := false |}).
  assert (T : k_ftruncate0 (set_root st (upd (root st) (dd ++ [nd]) (Some (NFile [])))) fdst = at_k st c dd nd 0).
  { unfold k_ftruncate0, at_k. cbn [fd_path fdst firstn root set_root].
    assert (Gnew : get (upd (root st) (dd ++ [nd]) (Some (NFile []))) (dd ++ [nd]) = Some (NFile [])).
    { rewrite <- (app_nil_r (dd ++ [nd])) at 2. erewrite get_upd_here by eauto. reflexivity. }
    rewrite Gnew. rewrite set_root_twice, upd_upd_same. reflexivity. }
  rewrite T.
  assert (I0 : xinv st (ds ++ [ns]) c dd nd 0 (at_k st c dd nd 0) fdst fs2).
  { unfold xinv. cbn [fd_path fd_pos fd_rd fd_wr fd_dir fs2 fdst]. repeat split; auto; lia. }
  pose proof (xfer_loop_complete st (ds ++ [ns]) c dd nd es Gs Gd U1 U2 (length c) 0 _ _ _ I0) as X.
  rewrite Nat.sub_0_r in X. rewrite X. rewrite at_k_all. rewrite ?C1. reflexivity.
Qed.

Lemma resolve_follow_same st path :
  not_last_link (resolve st false path) -> resolve st true path = resolve st false path.
Proof.
  unfold resolve. destruct path as [|z path]; [reflexivity|]. apply walk_follow_same.
Qed.

(* a text that leads (through links) to a regular file: the exclusive creating open reports EEXIST *)
Lemma k_open_excl_existing st path d nm :
  resolve st true path = WAt d nm (Some SFile) ->
  k_open st path false true true true false = (st, inr EEXIST).
Proof.
  intro R. unfold k_open. cbn [andb negb].
  destruct (resolve st false path) as [e|d' nm' [[| |t]|]|d' dot] eqn:R0; try reflexivity.
  all: exfalso; rewrite resolve_follow_same in R by (rewrite R0; exact I); rewrite R0 in R; discriminate R.
Qed.

(* File::copy over an existing regular file (without failIfExists), every transfer call complete *)
Lemma copy_overwrites_l st src dst ds ns c dd nd c0 :
  resolve st true src = WAt ds ns (Some SFile) ->
  get (root st) (ds ++ [ns]) = Some (NFile c) ->
  resolve st true dst = WAt dd nd (Some SFile) ->
  get (root st) (dd ++ [nd]) = Some (NFile c0) ->
  ds ++ [ns] <> dd ++ [nd] ->
  f_copy st src dst false = (set_root st (upd (root st) (dd ++ [nd]) (Some (NFile c))), true).
Proof.
  intros Rs Gs Rd Gp N.
  destruct (get_below_dir _ dd nd [] _ Gp) as [es Gd].
  destruct (file_unrelated _ _ _ _ _ _ Gs Gd (or_intror (ex_intro _ c0 Gp)) N) as [U1 U2].
  unfold f_copy, f_copy_o.
  unfold k_open at 1. cbn [andb negb]. rewrite Rs. cbn [fd_dir].
  unfold k_lseek, content_at. cbn [fd_path]. rewrite Gs. rewrite !Z.add_0_r.
  destruct (Z.of_nat (length c) <? 0) eqn:C1; [apply Z.ltb_lt in C1; lia|].
  cbn [Z.of_nat Z.add Z.ltb Z.compare Z.to_nat fd_path fd_pos fd_rd fd_wr fd_dir].
  rewrite Nat2Z.id.
  rewrite (k_open_excl_existing _ _ _ _ Rd). cbn [is_eexist andb negb].
  unfold k_open. cbn [andb negb]. rewrite Rd.
  unfold same_file. cbn [fd_path]. rewrite (cpath_eqb_not_prefix_r _ _ U1).
  set (fs2 := {| fd_path := ds ++ [ns]; fd_pos := 0; fd_rd := true; fd_wr := false; fd_dir := false |}).
  set (fdst := {| fd_path := dd ++ [nd]; fd_pos := 0; fd_rd := false; fd_wr := true; fd_dir := false |}).
  assert (T : k_ftruncate0 st fdst = at_k st c dd nd 0).
  { unfold k_ftruncate0, at_k. cbn [fd_path fdst firstn]. rewrite Gp. reflexivity. }
  rewrite T.
  assert (I0 : xinv st (ds ++ [ns]) c dd nd 0 (at_k st c dd nd 0) fdst fs2).
  { unfold xinv. cbn [fd_path fd_pos fd_rd fd_wr fd_dir fs2 fdst]. repeat split; auto; lia. }
  pose proof (xfer_loop_complete st (ds ++ [ns]) c dd nd es Gs Gd U1 U2 (length c) 0 _ _ _ I0) as X.
  rewrite Nat.sub_0_r in X. rewrite X. rewrite at_k_all. rewrite ?C1. reflexivity.
Qed.

(* ---- the same on texts of proper names through real directories (the class of the unlink / create theorems) ---- *)

Lemma resolve_plain_entry st fl names c x :
  names_ok (names ++ [c]) -> get (root st) ((cwd st ++ names) ++ [c]) = Some x ->
  (fl = true -> forall t, shallow x <> SLink t) ->
  resolve st fl (join (names ++ [c])) = WAt (cwd st ++ names) c (Some (shallow x)).
Proof.
  intros Hn G Hl. destruct (get_below_dir _ (cwd st ++ names) c [] _ G) as [es Gd].
  rewrite (resolve_names st fl names c (cwd st ++ names) eq_refl Hn (ex_intro _ es Gd)).
  - unfold sget. rewrite G. reflexivity.
  - intros F t. unfold sget. rewrite G. cbn [option_map]. intro X. inversion X as [X']. exact (Hl F t X').
Qed.

Lemma resolve_plain_free st names c es :
  names_ok (names ++ [c]) -> get (root st) (cwd st ++ names) = Some (NDir es) ->
  get (root st) ((cwd st ++ names) ++ [c]) = None ->
  resolve st false (join (names ++ [c])) = WAt (cwd st ++ names) c None.
Proof.
  intros Hn Gd Gn.
  rewrite (resolve_names st false names c (cwd st ++ names) eq_refl Hn (ex_intro _ es Gd)) by discriminate.
  unfold sget. rewrite Gn. reflexivity.
Qed.

Lemma rename_succeeds_plain st sn sc dn dc fie x es :
  names_ok (sn ++ [sc]) -> names_ok (dn ++ [dc]) ->
  get (root st) ((cwd st ++ sn) ++ [sc]) = Some x ->
  get (root st) (cwd st ++ dn) = Some (NDir es) ->
  get (root st) ((cwd st ++ dn) ++ [dc]) = None ->
  is_prefix ((cwd st ++ sn) ++ [sc]) ((cwd st ++ dn) ++ [dc]) = false ->
  (fie = true -> shallow x <> SDir) ->
  f_rename st (join (sn ++ [sc])) (join (dn ++ [dc])) fie
  = (set_root st (upd (upd (root st) ((cwd st ++ sn) ++ [sc]) None) ((cwd st ++ dn) ++ [dc]) (Some x)), true).
Proof.
  intros Hs Hd G1 G2 Gn P F.
  apply (rename_succeeds_l st _ _ fie (cwd st ++ sn) sc x (cwd st ++ dn) dc es); auto.
  - apply resolve_plain_entry; auto. discriminate.
  - eapply resolve_plain_free; eauto.
Qed.

Lemma copy_succeeds_plain st sn sc dn dc fie c es :
  names_ok (sn ++ [sc]) -> names_ok (dn ++ [dc]) ->
  get (root st) ((cwd st ++ sn) ++ [sc]) = Some (NFile c) ->
  get (root st) (cwd st ++ dn) = Some (NDir es) ->
  get (root st) ((cwd st ++ dn) ++ [dc]) = None ->
  f_copy st (join (sn ++ [sc])) (join (dn ++ [dc])) fie
  = (set_root st (upd (root st) ((cwd st ++ dn) ++ [dc]) (Some (NFile c))), true).
Proof.
  intros Hs Hd G1 G2 Gn.
  apply (copy_succeeds_l st _ _ fie (cwd st ++ sn) sc c (cwd st ++ dn) dc es); auto.
  - apply (resolve_plain_entry st true sn sc (NFile c)); auto. intros _ t. discriminate.
  - eapply resolve_plain_free; eauto.
Qed.

Lemma copy_overwrites_plain st sn sc dn dc c c0 :
  names_ok (sn ++ [sc]) -> names_ok (dn ++ [dc]) ->
  get (root st) ((cwd st ++ sn) ++ [sc]) = Some (NFile c) ->
  get (root st) ((cwd st ++ dn) ++ [dc]) = Some (NFile c0) ->
  (cwd st ++ sn) ++ [sc] <> (cwd st ++ dn) ++ [dc] ->
  f_copy st (join (sn ++ [sc])) (join (dn ++ [dc])) false
  = (set_root st (upd (root st) ((cwd st ++ dn) ++ [dc]) (Some (NFile c))), true).
Proof.
  intros Hs Hd G1 G2 N.
  apply (copy_overwrites_l st _ _ (cwd st ++ sn) sc c (cwd st ++ dn) dc c0); auto.
  - apply (resolve_plain_entry st true sn sc (NFile c)); auto. intros _ t. discriminate.
  - apply (resolve_plain_entry st true dn dc (NFile c0)); auto. intros _ t. discriminate.
Qed.
