(* Directory::purge: the directory goes, and with it every ancestor - up to, not including, the
   directory the path text starts from - that this leaves empty. *)
From Coq Require Import ZArith List Bool Lia.
From Path Require Import PathSpec PathModel PathProofs FsSpec FsModel FsListSpec FsTree FsWalk FsDir FsCreate FsMkdirs FsFault.
Import ListNotations.
Local Open Scope Z_scope.

(* the parent directory after a change of one of its entries *)
Lemma get_upd_parent r p c v es :
  get r p = Some (NDir es) -> get (upd r (p ++ [c]) v) p = Some (NDir (set_entry es c v)).
Proof.
  revert r; induction p as [|a p IH]; intros r H.
  - simpl in H. inversion H; subst. simpl app. rewrite upd_one. reflexivity.
  - destruct r as [f|es0|t]; simpl in H; try discriminate.
    destruct (lookup es0 a) as [ch|] eqn:L; [|discriminate].
    change ((a :: p) ++ [c]) with (a :: (p ++ [c])).
    pose proof (IH ch H) as IH'.
    destruct (p ++ [c]) as [|x y] eqn:E; [destruct p; discriminate|].
    rewrite upd_deep, L, get_cons, lookup_set_same. exact IH'.
Qed.

Lemma join_not_dot l : l <> [] -> names_ok l -> str_eqb (join l) DOT1 = false.
Proof.
  intros N H. destruct l as [|x l]; [contradiction|]. inversion H as [|? ? Hx Hl]; subst.
  destruct (name_ok_pwf x Hx) as ((Nx & _) & D1 & _).
  destruct l as [|y l]; [exact D1|].
  change (join (x :: y :: l)) with (x ++ 47 :: join (y :: l)).
  destruct x as [|a x]; [contradiction|]. simpl. destruct x; simpl; [apply andb_false_r|apply andb_false_r].
Qed.

Lemma join_length l : Forall (fun c : str => c <> []) l -> (length l <= length (join l))%nat.
Proof.
  induction l as [|x l IH]; intro H; [simpl; lia|]. inversion H as [|? ? Hx Hl]; subst.
  destruct l as [|y l].
  - simpl. destruct x; [contradiction|simpl; lia].
  - change (join (x :: y :: l)) with (x ++ 47 :: join (y :: l)). rewrite app_length.
    specialize (IH Hl). simpl length in *. lia.
Qed.

(* ---- the climb ------------------------------------------------------------------------------------------ *)

Definition up_text (names : list str) : str := match names with [] => DOT1 | _ => join names end.

Lemma purge_up_names : forall names st fuel,
  Forall plain_name names ->
  (exists es, get (root st) (cwd st ++ names) = Some (NDir es)) ->
  (length names < fuel)%nat ->
  purge_up_o fuel None st (up_text names) = (set_root st (prune_up (root st) (cwd st) (rev names)), None).
Proof.
  induction names as [|d ns IH] using rev_ind; intros st fuel Hp [es G] Hf.
  - destruct fuel; [lia|]. cbn [purge_up_o up_text rev prune_up]. rewrite str_eqb_refl. rewrite set_root_root. reflexivity.
  - destruct fuel as [|f]; [lia|]. rewrite app_length in Hf. simpl in Hf.
    assert (Hn : names_ok (ns ++ [d])) by (apply plain_names_ok; exact Hp).
    apply Forall_app in Hp as [Hp1 Hp2]. inversion Hp2 as [|? ? [Hd1 Hd2] _]; subst.
    assert (NE : ns ++ [d] <> []) by (destruct ns; discriminate).
    assert (T : up_text (ns ++ [d]) = join (ns ++ [d])) by (destruct ns; reflexivity).
    rewrite T. cbn [purge_up_o]. rewrite (join_not_dot _ NE Hn). cbn [tick].
    rewrite app_assoc in G.
    destruct (get_below_dir (root st) (cwd st ++ ns) d [] _ G) as [pes Hpar].
    rewrite (k_rmdir_dir st ns d (cwd st ++ ns) eq_refl Hn (ex_intro _ pes Hpar) es G).
    rewrite rev_app_distr. cbn [rev app prune_up]. rewrite rev_involutive.
    rewrite <- app_assoc in G. rewrite G.
    destruct es as [|e es]; [|rewrite set_root_root; reflexivity].
    assert (DN : getDirectoryName (join (ns ++ [d])) = up_text ns).
    { destruct ns as [|x ns]; [apply dirname_single; exact Hd2|]. apply dirname_join; [discriminate|exact Hd2]. }
    rewrite DN. rewrite app_assoc.
    rewrite (IH (set_root st (upd (root st) ((cwd st ++ ns) ++ [d]) None)) f Hp1); [reflexivity| |lia].
    cbn [root cwd set_root]. eexists. apply get_upd_parent. exact Hpar.
Qed.

(* ---- the statement ---------------------------------------------------------------------------------------- *)

(* Directory::purge(path, true) on a real directory named by plain names: true, and the tree
   afterwards is the reference tree of FsListSpec.purged *)
Lemma purge_exact st names c es fuel :
  Forall plain_name (names ++ [c]) ->
  get (root st) ((cwd st ++ names) ++ [c]) = Some (NDir es) ->
  wf_node (root st) = true -> (height (root st) <= fuel)%nat ->
  d_purge fuel st (join (names ++ [c])) true = (set_root st (purged (root st) (cwd st) names c), true).
Proof.
  intros Hp G W Hf. unfold d_purge, d_purge_o.
  assert (Hn : names_ok (names ++ [c])) by (apply plain_names_ok; exact Hp).
  destruct (unlink_with_fault st names c es fuel None Hn G W Hf) as (st1 & b & o1 & E & C & H & X & F & _).
  pose proof (d_unlink_o_none fuel st (join (names ++ [c])) true) as O. rewrite E in O. cbn [snd] in O. subst o1.
  rewrite E. destruct b; [|exfalso; apply (F eq_refl); reflexivity].
  specialize (X eq_refl). subst st1.
  apply Forall_app in Hp as [Hp1 Hp2]. inversion Hp2 as [|? ? [Hc1 Hc2] _]; subst.
  assert (DN : getDirectoryName (join (names ++ [c])) = up_text names).
  { destruct names as [|x ns]; [apply dirname_single; exact Hc2|]. apply dirname_join; [discriminate|exact Hc2]. }
  rewrite DN.
  destruct (get_below_dir (root st) (cwd st ++ names) c [] _ G) as [pes Hpar].
  rewrite purge_up_names; auto.
  - cbn [fst root cwd set_root]. unfold purged. rewrite app_assoc. reflexivity.
  - cbn [root cwd set_root]. eexists. apply get_upd_parent. exact Hpar.
  - assert (L : (length (names ++ [c]) <= length (join (names ++ [c])))%nat).
    { apply join_length. eapply Forall_impl; [|exact Hn]. intros a Ha. apply name_ok_pwf in Ha. destruct Ha as [[Na _] _]. exact Na. }
    rewrite app_length in L. simpl in L. lia.
Qed.

(* ---- what the reference tree is ---------------------------------------------------------------------------- *)

Lemma rev_head {A} (l : list A) x : l <> [] -> exists t, rev l = last l x :: t.
Proof.
  intro N. exists (rev (removelast l)).
  transitivity (rev (removelast l ++ [last l x])); [f_equal; apply app_removelast_last; exact N|].
  rewrite rev_app_distr. reflexivity.
Qed.

Lemma prune_up_cons r base a up :
  prune_up r base (a :: up) =
  match get r (base ++ rev (a :: up)) with
  | Some (NDir []) => prune_up (upd r (base ++ rev (a :: up)) None) base up
  | _ => r
  end.
Proof. reflexivity. Qed.

(* climbing removes only at places at or below base / (outermost name) *)
Lemma prune_dels (base : cpath) (n0 : str) : forall (rnames : list str) r,
  rnames <> [] -> last rnames [] = n0 -> dels (base ++ [n0]) r (prune_up r base rnames).
Proof.
  induction rnames as [|a up IH]; intros r N L; [contradiction|].
  rewrite prune_up_cons.
  match goal with |- context [match ?g with _ => _ end] => destruct g as [[f|[|e es]|t]|] end; try apply dels_refl.
  destruct (rev_head (a :: up) [] N) as [t Et]. rewrite L in Et.
  apply dels_step with (p := base ++ rev (a :: up)).
  - rewrite Et. replace (base ++ n0 :: t) with ((base ++ [n0]) ++ t) by (rewrite <- app_assoc; reflexivity).
    apply is_prefix_app.
  - destruct up as [|b up]; [apply dels_refl|]. apply IH; [discriminate|]. exact L.
Qed.

(* the whole effect of a purge lies inside the first name of the path text: nothing outside it
   changes, the directory the text starts from stays, nothing new appears *)
Lemma purged_spec r base names c :
  wf_node r = true ->
  let top := base ++ [hd c names] in
  let r' := purged r base names c in
  wf_node r' = true /\
  (forall q, is_prefix top q = false -> sget r' q = sget r q) /\
  (forall q, is_prefix top q = false -> is_prefix q top = false -> get r' q = get r q) /\
  (forall q, sget r' q = sget r q \/ sget r' q = None) /\
  (forall q, get r' (((base ++ names) ++ [c]) ++ q) = None).
Proof.
  intros W top r'.
  assert (D : dels top r r').
  { unfold r', purged, top. destruct names as [|n0 more].
    - simpl. apply dels_one. apply is_prefix_refl.
    - eapply dels_trans.
      + apply dels_one with (p := base ++ (n0 :: more) ++ [c]).
        cbn [hd]. replace (base ++ (n0 :: more) ++ [c]) with ((base ++ [n0]) ++ more ++ [c]) by (rewrite <- app_assoc; reflexivity).
        apply is_prefix_app.
      + cbn [hd]. apply prune_dels.
        * intro E. apply (f_equal (@length str)) in E. rewrite rev_length in E. discriminate.
        * assert (X : rev (n0 :: more) = rev more ++ [n0]) by reflexivity. rewrite X. apply last_last. }
  assert (N : top <> []) by (unfold top; destruct base; discriminate).
  destruct (dels_spec _ _ _ W N D) as (A1 & A2 & A3 & A4).
  split; [exact A1|]. split; [exact A2|]. split; [exact A3|]. split; [exact A4|].
  (* the directory itself is gone: it was cut out first and nothing is ever added *)
  intro q. unfold r', purged.
  set (cp := (base ++ names) ++ [c]).
  assert (Ncp : cp <> []) by (unfold cp; destruct (base ++ names); discriminate).
  assert (W1 : wf_node (upd r cp None) = true).
  { apply wf_upd; [exact W|intros x E; discriminate|intros E; exfalso; apply E; reflexivity]. }
  assert (D2 : dels top (upd r cp None) (prune_up (upd r cp None) base (rev names))).
  { destruct names as [|n0 more]; [apply dels_refl|]. unfold top. cbn [hd]. apply prune_dels.
    - intro E. apply (f_equal (@length str)) in E. rewrite rev_length in E. discriminate.
    - assert (X : rev (n0 :: more) = rev more ++ [n0]) by reflexivity. rewrite X. apply last_last. }
  destruct (dels_spec _ _ _ W1 N D2) as (_ & _ & _ & B4).
  replace (base ++ names ++ [c]) with cp by (unfold cp; rewrite app_assoc; reflexivity).
  destruct (B4 (cp ++ q)) as [E|E].
  - unfold sget in E. rewrite get_upd_deleted in E by auto.
    destruct (get (prune_up (upd r cp None) base (rev names)) (cp ++ q)); [discriminate|reflexivity].
  - unfold sget in E. destruct (get (prune_up (upd r cp None) base (rev names)) (cp ++ q)); [discriminate|reflexivity].
Qed.
