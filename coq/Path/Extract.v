From Coq Require Extraction ExtrOcamlBasic.
From Common Require Import Words.
From Path Require Import PathSpec PathModel.
Extraction Language OCaml.
Extraction "model.ml" anchor
  getDirectoryName getBaseName getStem getExtension simplifyPath isAbsolutePath getRelativePath
  spec_dir spec_base spec_stem spec_ext spec_base_ext spec_is_absolute canon rel_hyp rel_joined.
