From Coq Require Extraction ExtrOcamlBasic.
From Common Require Import Words.
From Path Require Import PathSpec PathModel FsSpec FsModel FsListSpec.
Extraction Language OCaml.
Extraction "model.ml" anchor
  getDirectoryName getBaseName getStem getExtension simplifyPath isAbsolutePath getRelativePath
  spec_dir spec_base spec_stem spec_ext spec_base_ext spec_is_absolute canon rel_hyp rel_hyp_wide rel_joined
  init_state k_mkdir k_mkfile k_symlink f_open f_close f_size f_read f_readAll f_write f_seek f_unlink f_symlink
  f_rename f_copy f_copy_o d_exists d_create create_fuel d_unlink unlink_fuel resolve k_lstat k_stat
  f_flush f_exists f_readAll_path cwd_text f_absolute d_change d_open d_close d_read d_read_all read_all_fuel
  d_unlink_o d_purge_o spec_list purged dir_place.
