(* PathSpec — the reference object for the path half of property C19.  It does not look at
   the code: a path is read as (absolute?, list of components); "lexically equivalent" is
   equality of the normalised component lists; directory/base/stem/extension are "the part
   before / after the last separator (dot)". *)
From Coq Require Import ZArith List Bool.
Import ListNotations.
Local Open Scope Z_scope.

Definition str := list Z.

Definition is_sep (b : Z) : bool := (b =? 47) || (b =? 92).     (* '/' and '\\' *)
Definition is_dot (b : Z) : bool := (b =? 46).

Fixpoint str_eqb (a b : str) : bool :=
  match a, b with
  | [], [] => true
  | x :: a', y :: b' => (x =? y) && str_eqb a' b'
  | _, _ => false
  end.

Definition DOT1 : str := [46].
Definition DOTDOT : str := [46; 46].

(* ---- components ------------------------------------------------------------------------ *)

(* split at every separator, keeping empty pieces (always at least one piece) *)
Fixpoint split_sep (p : str) : list str :=
  match p with
  | [] => [[]]
  | c :: t => if is_sep c then [] :: split_sep t
              else match split_sep t with
                   | h :: r => (c :: h) :: r
                   | [] => [[c]]
                   end
  end.

Definition nonempty (s : str) : bool := match s with [] => false | _ => true end.
Definition starts_with_sep (p : str) : bool := match p with c :: _ => is_sep c | [] => false end.

Definition components (p : str) : bool * list str :=
  (starts_with_sep p, filter nonempty (split_sep p)).

(* ---- lexical normal form: '.' dropped, 'x/..' cancelled, leading '..' kept ---------------- *)

(* the stack is kept top-first *)
Definition norm_step (st : list str) (c : str) : list str :=
  if str_eqb c DOT1 then st
  else if str_eqb c DOTDOT then
    match st with
    | top :: below => if str_eqb top DOTDOT then c :: st else below
    | [] => c :: st
    end
  else c :: st.

Definition normalise (k : bool * list str) : bool * list str :=
  (fst k, rev (fold_left norm_step (snd k) [])).

Fixpoint join (cs : list str) : str :=
  match cs with
  | [] => []
  | [c] => c
  | c :: t => c ++ 47 :: join t
  end.

(* canonical text of a component list: single '/' separators, no trailing separator, the
   root is "/" and the empty relative path is "" *)
Definition render (k : bool * list str) : str :=
  match snd k with
  | [] => if fst k then [47] else []
  | cs => (if fst k then [47] else []) ++ join cs
  end.

Definition canon (p : str) : str := render (normalise (components p)).

(* ---- lexical equivalence --------------------------------------------------------------------
   What a path denotes, lexically: an absolute path is resolved from the root (the empty stack),
   a relative one from a current directory, itself a stack of components (top first); '.' stays,
   'x/..' cancels, a '..' with nothing to cancel is kept.  Two paths are lexically equivalent when
   they are of the same kind (the root is preserved) and resolve to the same place from every
   current directory. *)
Definition resolve (cwd : list str) (k : bool * list str) : list str :=
  fold_left norm_step (snd k) (if fst k then [] else cwd).

Definition lex_equiv (p q : str) : Prop :=
  fst (components p) = fst (components q) /\
  forall cwd, resolve cwd (components p) = resolve cwd (components q).

(* ---- the part before / after the last character satisfying f ------------------------------- *)

Fixpoint take_while (f : Z -> bool) (l : str) : str :=
  match l with [] => [] | c :: t => if f c then c :: take_while f t else [] end.
Fixpoint drop_while (f : Z -> bool) (l : str) : str :=
  match l with [] => [] | c :: t => if f c then drop_while f t else l end.

Definition after_last (f : Z -> bool) (p : str) : str :=
  rev (take_while (fun c => negb (f c)) (rev p)).
Definition before_last (f : Z -> bool) (p : str) : option str :=
  match drop_while (fun c => negb (f c)) (rev p) with
  | [] => None
  | _ :: r => Some (rev r)
  end.

Definition spec_base (p : str) : str := after_last is_sep p.
Definition spec_dir (p : str) : str :=
  match before_last is_sep p with Some d => d | None => DOT1 end.
Definition spec_stem (p : str) : str :=
  match before_last is_dot (spec_base p) with Some s => s | None => spec_base p end.
Definition spec_ext (p : str) : str :=
  match before_last is_dot (spec_base p) with Some _ => after_last is_dot (spec_base p) | None => [] end.

(* base name with a given extension removed: ext is taken with or without its leading dot *)
Definition ends_with (s suf : str) : bool :=
  (length suf <=? length s)%nat && str_eqb (skipn (length s - length suf) s) suf.
Definition spec_base_ext (p ext : str) : str :=
  let b := spec_base p in
  match ext with
  | [] => b
  | c :: _ =>
      let full := if is_dot c then ext else 46 :: ext in
      if ends_with b full then firstn (length b - length full) b else b
  end.

Definition spec_is_absolute (p : str) : bool :=
  starts_with_sep p ||
  match p with
  | _ :: 58 :: c :: _ => is_sep c
  | _ => false
  end.

(* ---- getRelativePath: the hypotheses under which a lexical answer exists --------------------
   `from` and `to` must be of the same kind (no text leads from a relative place to the root or
   back), and the normal form of `from` must not begin with '..' (to climb back down out of
   '../x' one would need the name of the current directory, which no lexical function has). *)

Definition has_dotdot (cs : list str) : bool := existsb (fun c => str_eqb c DOTDOT) cs.

Definition rel_hyp (from to : str) : bool :=
  Bool.eqb (starts_with_sep from) (starts_with_sep to) &&
  negb (has_dotdot (snd (normalise (components from)))).

(* The wider class in which a lexical answer exists: `from` may keep leading '..' as long as `to` keeps at least as
   many (the answer climbs to where `from` escaped to, then further, then down; with fewer in `to` one would have to
   come back down below a '..', by a name no lexical function has).  In a normal form every '..' is a leading one. *)
Definition count_dotdot (cs : list str) : nat := length (filter (fun c => str_eqb c DOTDOT) cs).

Definition rel_hyp_wide (from to : str) : bool :=
  Bool.eqb (starts_with_sep from) (starts_with_sep to) &&
  (count_dotdot (snd (normalise (components from))) <=? count_dotdot (snd (normalise (components to))))%nat.

(* `from` with the answer r appended (the empty `from` is the current directory) *)
Definition rel_joined (from r : str) : str :=
  match from with [] => r | _ => from ++ 47 :: r end.
