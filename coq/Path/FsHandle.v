(* File handles of every mode: a handle opened for reading and / or writing refines the byte
   sequence with a cursor on which the operations its mode does not allow fail and change nothing
   (FsSpec.abuf_step); File::open on an existing regular file gives such a handle, for every flag
   combination.  FsFile proves the read-write case; this file repeats the argument with the mode
   as a parameter. *)
From Coq Require Import ZArith List Bool Lia.
From Path Require Import PathSpec PathModel PathProofs FsSpec FsModel FsTree FsWalk FsFile.
Import ListNotations.
Local Open Scope Z_scope.

(* the handle h is open with the given mode on a regular file whose state is b *)
Definition file_handle (st : state) (h : nat) (rd wr : bool) (b : buf) : Prop :=
  exists f, hfind (handles st) h = Some f /\ fd_dir f = false /\ fd_rd f = rd /\ fd_wr f = wr /\
            fd_path f <> [] /\ get (root st) (fd_path f) = Some (NFile (b_data b)) /\ fd_pos f = b_pos b.

Lemma rw_file_is_file_handle st h b : rw_file st h b <-> file_handle st h true true b.
Proof. unfold rw_file, file_handle. tauto. Qed.

Lemma file_handle_set st h f f' rd wr b :
  fd_path f' = fd_path f -> fd_dir f' = false -> fd_rd f' = rd -> fd_wr f' = wr -> fd_path f <> [] ->
  get (root st) (fd_path f) = Some (NFile (b_data b)) -> fd_pos f' = b_pos b ->
  file_handle (set_handle st h (Some f')) h rd wr b.
Proof.
  intros P D R W N G Q. exists f'. unfold set_handle. cbn [handles root cwd]. rewrite hfind_hset_same, P.
  split; [reflexivity|]. split; [exact D|]. split; [exact R|]. split; [exact W|]. split; [exact N|]. split; [exact G|exact Q].
Qed.

Section Mode.
  Variables (rd wr : bool).

  Lemma g_size_spec st h b :
    file_handle st h rd wr b ->
    exists st', f_size st h = (st', buf_size b) /\ file_handle st' h rd wr b /\ frame st st' h.
  Proof.
    intros (f & H & D & R & W & N & G & P). unfold f_size. rewrite H.
    pose proof (k_lseek_spec st f b 0 1 G P) as L1.
    destruct (k_lseek st f 0 1) as [f1 cur]. unfold buf_seek in L1. rewrite Z.add_0_r in L1.
    destruct (Z.of_nat (b_pos b) <? 0) eqn:C1; [apply Z.ltb_lt in C1; lia|].
    destruct L1 as (-> & P1 & R1 & W1 & D1 & Q1). simpl in Q1. rewrite C1.
    assert (G1 : get (root st) (fd_path f1) = Some (NFile (b_data b))) by (rewrite P1; auto).
    set (b1 := {| b_data := b_data b; b_pos := Z.to_nat (Z.of_nat (b_pos b)) |}).
    pose proof (k_lseek_spec st f1 b1 0 2 G1 Q1) as L2.
    destruct (k_lseek st f1 0 2) as [f2 size]. unfold buf_seek in L2. simpl b_data in L2. rewrite Z.add_0_r in L2.
    destruct (Z.of_nat (length (b_data b)) <? 0) eqn:C2; [apply Z.ltb_lt in C2; lia|].
    destruct L2 as (-> & P2 & R2 & W2 & D2 & Q2). simpl in Q2. rewrite C2.
    destruct (Z.of_nat (b_pos b) =? Z.of_nat (length (b_data b))) eqn:C3.
    - apply Z.eqb_eq in C3. eexists. split; [reflexivity|]. split.
      + eapply file_handle_set with (f := f); try congruence. rewrite Q2. lia.
      + apply frame_set_handle with (f := f); congruence.
    - assert (G2 : get (root st) (fd_path f2) = Some (NFile (b_data b))) by (rewrite P2, P1; auto).
      set (b2 := {| b_data := b_data b; b_pos := Z.to_nat (Z.of_nat (length (b_data b))) |}).
      pose proof (k_lseek_spec st f2 b2 (Z.of_nat (b_pos b)) 0 G2 Q2) as L3.
      destruct (k_lseek st f2 (Z.of_nat (b_pos b)) 0) as [f3 back]. unfold buf_seek in L3. simpl in L3.
      destruct (Z.of_nat (b_pos b) <? 0) eqn:C4; [discriminate|].
      destruct L3 as (-> & P3 & R3 & W3 & D3 & Q3). simpl in Q3. rewrite C4.
      eexists. split; [reflexivity|]. split.
      + eapply file_handle_set with (f := f); try congruence. rewrite Q3. lia.
      + apply frame_set_handle with (f := f); congruence.
  Qed.

  Lemma g_seek_spec st h b off wh :
    file_handle st h rd wr b ->
    exists st', f_seek st h off wh = (st', snd (buf_seek b off wh)) /\
                file_handle st' h rd wr (fst (buf_seek b off wh)) /\ frame st st' h.
  Proof.
    intros (f & H & D & R & W & N & G & P). unfold f_seek. rewrite H.
    pose proof (k_lseek_spec st f b off wh G P) as L.
    destruct (k_lseek st f off wh) as [f' z]. destruct (buf_seek b off wh) as [b' z'] eqn:E.
    destruct L as (-> & P1 & R1 & W1 & D1 & Q1). simpl.
    eexists. split; [reflexivity|]. split.
    - eapply file_handle_set with (f := f); try congruence.
      unfold buf_seek in E. destruct (_ <? 0) in E; inversion E; subst; auto.
    - apply frame_set_handle with (f := f); auto.
  Qed.

  (* File::read: the bytes at the cursor when the handle may read, -1 and nothing moves otherwise *)
  Lemma g_read_spec st h b n :
    file_handle st h rd wr b ->
    exists st', f_read st h n = (st', if rd then inl (snd (buf_read b n)) else inr EBADF) /\
                file_handle st' h rd wr (if rd then fst (buf_read b n) else b) /\ frame st st' h.
  Proof.
    intros (f & H & D & R & W & N & G & P). unfold f_read, k_read. rewrite H, D, R. destruct rd; simpl negb; cbv iota.
    - unfold content_at. rewrite G, P. eexists. split; [reflexivity|]. split.
      + eapply file_handle_set with (f := f); simpl; auto.
      + apply frame_set_handle with (f := f); auto.
    - eexists. split; [reflexivity|]. split.
      + eapply file_handle_set with (f := f); auto.
      + apply frame_set_handle with (f := f); auto.
  Qed.

  Lemma g_readAll_spec st h b :
    file_handle st h rd wr b ->
    exists st', f_readAll st h = (st', if rd then (true, snd (buf_read_all b)) else (false, [])) /\
                file_handle st' h rd wr (if rd then fst (buf_read_all b) else b) /\ frame st st' h.
  Proof.
    intro H. unfold f_readAll. destruct H as (f0 & Hf0 & Df0 & Hrest). rewrite Hf0, Df0.
    assert (H : file_handle st h rd wr b) by (exists f0; split; [exact Hf0|split; [exact Df0|exact Hrest]]).
    destruct (g_size_spec st h b H) as (st1 & E1 & H1 & F1). rewrite E1.
    unfold buf_size. destruct (Z.of_nat (length (b_data b)) <? 0) eqn:C; [apply Z.ltb_lt in C; lia|].
    rewrite Nat2Z.id.
    destruct (g_read_spec st1 h b (length (b_data b)) H1) as (st2 & E2 & H2 & F2). rewrite E2.
    assert (X : buf_read b (length (b_data b)) = buf_read_all b).
    { unfold buf_read, buf_read_all. rewrite firstn_all2 by apply skipn_length_le. reflexivity. }
    rewrite X in *. destruct rd; (eexists; split; [reflexivity|]; split; auto; eapply frame_trans; eauto).
  Qed.

  (* File::write(String): true and the bytes are in the file when the handle may write, false and
     nothing changes otherwise *)
  Lemma g_write_spec st h b d :
    file_handle st h rd wr b ->
    exists st', f_write st h d = (st', wr) /\ file_handle st' h rd wr (if wr then buf_write b d else b) /\ frame st st' h.
  Proof.
    intros (f & H & D & R & W & N & G & P). unfold f_write, k_write. rewrite H, D, W. destruct wr; cbn [orb negb].
    - rewrite G. rewrite Nat.eqb_refl.
      eexists. split; [reflexivity|]. split.
      + eexists. unfold set_handle, set_root. cbn [handles root cwd]. rewrite hfind_hset_same.
        split; [reflexivity|]. cbn [fd_dir fd_rd fd_wr fd_path fd_pos].
        split; [first [reflexivity|exact D]|]. split; [first [reflexivity|exact R]|].
        split; [first [reflexivity|exact W]|]. split; [exact N|]. split.
        * erewrite get_upd_replace by eauto. unfold buf_write. cbn [b_data]. rewrite P. reflexivity.
        * rewrite P. reflexivity.
      + unfold frame, handle_path, set_handle, set_root. cbn [handles root cwd]. rewrite hfind_hset_same, H.
        cbn [fd_path]. split; [reflexivity|]. split; [reflexivity|]. split; [|split].
        * intros k Nk. apply hfind_hset_other. auto.
        * intros q H1 H2. apply get_upd_unrelated; auto.
        * intros q H1. apply sget_upd_other; auto.
    - eexists. split; [reflexivity|]. split; [|apply frame_refl].
      exists f. split; [exact H|]. split; [exact D|]. split; [exact R|]. split; [exact W|]. split; [exact N|]. split; [exact G|exact P].
  Qed.

  Lemma g_step_refines st h b o :
    file_handle st h rd wr b ->
    exists st', h_step st h o = (st', snd (abuf_step rd wr b o)) /\
                file_handle st' h rd wr (fst (abuf_step rd wr b o)) /\ frame st st' h.
  Proof.
    intro H. destruct o as [d|off wh| |n| |]; unfold h_step, abuf_step.
    6: { unfold f_flush. destruct H as (f & Hf & Hr). rewrite Hf. exists st. split; [reflexivity|].
         split; [exists f; split; [exact Hf|exact Hr]|apply frame_refl]. }
    - destruct (g_write_spec st h b d H) as (st' & E & H' & F). rewrite E. destruct wr; eauto.
    - destruct (g_seek_spec st h b off wh H) as (st' & E & H' & F). rewrite E.
      destruct (buf_seek b off wh). eauto.
    - destruct (g_readAll_spec st h b H) as (st' & E & H' & F). rewrite E.
      destruct rd; [destruct (buf_read_all b)|]; eauto.
    - destruct (g_read_spec st h b n H) as (st' & E & H' & F). rewrite E.
      destruct rd; [destruct (buf_read b n)|]; eauto.
    - destruct (g_size_spec st h b H) as (st' & E & H' & F). rewrite E. simpl. eauto.
  Qed.

  (* any history, any mode *)
  Lemma g_run_refines os : forall st h b,
    file_handle st h rd wr b ->
    exists st', h_run st h os = (st', snd (abuf_run rd wr b os)) /\
                file_handle st' h rd wr (fst (abuf_run rd wr b os)) /\ frame st st' h.
  Proof.
    induction os as [|o os IH]; intros st h b H.
    - exists st. simpl. split; auto. split; auto. apply frame_refl.
    - simpl. destruct (g_step_refines st h b o H) as (st1 & E1 & H1 & F1). rewrite E1.
      destruct (abuf_step rd wr b o) as [b1 x] eqn:EB. simpl in *.
      destruct (IH st1 h b1 H1) as (st2 & E2 & H2 & F2). rewrite E2.
      destruct (abuf_run rd wr b1 os) as [b2 xs]. simpl in *.
      exists st2. split; auto. split; auto. eapply frame_trans; eauto.
  Qed.
End Mode.

Lemma handle_run_refines os st h rd wr b :
  file_handle st h rd wr b ->
  exists st', h_run st h os = (st', snd (abuf_run rd wr b os)) /\
              file_handle st' h rd wr (fst (abuf_run rd wr b os)) /\ frame st st' h.
Proof. apply g_run_refines. Qed.

(* File::open on an existing regular file, every flag combination: the handle may read unless it
   is write-only, may write iff writeFlag was given; write-only without append and open flag empties
   the file, every other mode leaves the bytes; appendFlag puts the cursor at the end *)
Definition opened_content (fr fw fa fo : bool) (c : list Z) : list Z :=
  if fw && negb fr && negb fa && negb fo then [] else c.

Lemma open_existing_any st h path fr fw fa fo d nm c :
  hfind (handles st) h = None ->
  resolve st true path = WAt d nm (Some SFile) -> get (root st) (d ++ [nm]) = Some (NFile c) ->
  exists st', f_open st h path fr fw fa fo = (st', true) /\
              file_handle st' h (fr || negb fw) fw
                {| b_data := opened_content fr fw fa fo c;
                   b_pos := if fa then length (opened_content fr fw fa fo c) else O |} /\
              root st' = (if fw && negb fr && negb fa && negb fo
                          then upd (root st) (d ++ [nm]) (Some (NFile [])) else root st) /\
              cwd st' = cwd st.
Proof.
  intros Hh R G. unfold f_open. rewrite Hh.
  assert (N : d ++ [nm] <> []) by (destruct d; discriminate).
  assert (G' : get (upd (root st) (d ++ [nm]) (Some (NFile []))) (d ++ [nm]) = Some (NFile [])).
  { eapply get_upd_replace; eauto. }
  destruct fr, fw, fa, fo; cbn [andb negb orb opened_content]; unfold k_open; cbn [andb negb orb]; rewrite R; cbv iota;
    (eexists; split; [reflexivity|]; split; [|split; reflexivity]);
    unfold file_handle, set_handle, set_root; cbn [handles root cwd]; rewrite hfind_hset_same;
    (eexists; split; [reflexivity|]);
    unfold k_lseek, content_at; cbn [fd_path fd_pos fd_rd fd_wr fd_dir fst root b_data b_pos];
    rewrite ?G, ?G'; rewrite ?Z.add_0_r;
    repeat match goal with |- context [Z.of_nat (length ?l) <? 0] =>
             let C := fresh in destruct (Z.of_nat (length l) <? 0) eqn:C; [apply Z.ltb_lt in C; lia|] end;
    cbn [fst fd_path fd_pos fd_rd fd_wr fd_dir b_data b_pos length Z.of_nat Z.to_nat]; rewrite ?Nat2Z.id;
    (split; [reflexivity|]); (split; [reflexivity|]); (split; [reflexivity|]); (split; [exact N|]);
    (split; [first [exact G|exact G'|reflexivity]|reflexivity]).
Qed.
