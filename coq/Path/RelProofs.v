(* getRelativePath: the answer appended to `from` denotes `to`. *)
From Coq Require Import ZArith List Bool Lia.
From Path Require Import PathSpec PathModel PathProofs.
Import ListNotations.
Local Open Scope Z_scope.

Lemma rev_case {A} (l : list A) : l = [] \/ exists h d, l = h ++ [d].
Proof. induction l as [|d h _] using rev_ind; [left; reflexivity|right; eauto]. Qed.

(* ---- prefixes -------------------------------------------------------------------------------- *)

Lemma prefix_eqb_true pre s : prefix_eqb pre s = true -> s = pre ++ skipn (length pre) s.
Proof.
  unfold prefix_eqb. intro H. apply str_eqb_eq in H.
  rewrite <- (firstn_skipn (length pre) s) at 1. rewrite H. reflexivity.
Qed.

Lemma prefix_eqb_app pre r : prefix_eqb pre (pre ++ r) = true.
Proof.
  unfold prefix_eqb. apply str_eqb_eq. rewrite firstn_app, firstn_all, Nat.sub_diag. simpl. apply app_nil_r.
Qed.

(* ---- texts built from components --------------------------------------------------------------- *)

Definition absP (abs : bool) : str := if abs then [47] else [].

Definition dirprefix (abs : bool) (g : list str) : str :=
  absP abs ++ concat (map (fun c => c ++ [47]) g).

Lemma render_absP abs ts : render (abs, ts) = absP abs ++ join ts.
Proof. destruct ts; [|reflexivity]. unfold render, absP. simpl. destruct abs; reflexivity. Qed.

Lemma join_slash fs : fs <> [] -> join fs ++ [47] = concat (map (fun c => c ++ [47]) fs).
Proof.
  induction fs as [|c fs IH]; [contradiction|]. intros _.
  destruct fs as [|d fs].
  - simpl. rewrite app_nil_r. reflexivity.
  - change (join (c :: d :: fs)) with (c ++ 47 :: join (d :: fs)).
    change (concat (map (fun c0 => c0 ++ [47]) (c :: d :: fs)))
      with ((c ++ [47]) ++ concat (map (fun c0 => c0 ++ [47]) (d :: fs))).
    rewrite <- IH by discriminate. rewrite <- !app_assoc. reflexivity.
Qed.

Lemma dirprefix_snoc abs g c : dirprefix abs (g ++ [c]) = (dirprefix abs g ++ c) ++ [47].
Proof.
  unfold dirprefix. rewrite map_app, concat_app. simpl. rewrite app_nil_r, <- !app_assoc. reflexivity.
Qed.

Lemma dirprefix_last abs g : abs = true \/ g <> [] -> exists Y, dirprefix abs g = Y ++ [47].
Proof.
  intros H. destruct (rev_case g) as [->|(h & d & ->)].
  - destruct H as [->|H]; [|contradiction]. exists []. reflexivity.
  - rewrite dirprefix_snoc. eauto.
Qed.

Lemma sepfree_app_sep a s x : sepfree (a ++ s :: x) -> is_sep s = true -> False.
Proof.
  unfold sepfree. rewrite forallb_app. simpl. intros H Hs. rewrite Hs in H. simpl in H.
  rewrite andb_false_r in H. discriminate.
Qed.

Lemma sepfree_split_unique a b s t x y :
  sepfree a -> sepfree b -> is_sep s = true -> is_sep t = true ->
  a ++ s :: x = b ++ t :: y -> a = b /\ x = y.
Proof.
  revert b; induction a as [|e a IH]; intros b Ha Hb Hs Ht E.
  - destruct b as [|e' b]; simpl in E.
    + inversion E; auto.
    + inversion E; subst. exfalso. apply (sepfree_app_sep [] e' b); auto.
  - destruct b as [|e' b]; simpl in E.
    + inversion E; subst. exfalso. apply (sepfree_app_sep [] t a); auto.
    + inversion E; subst.
      assert (Ha' : sepfree a). { unfold sepfree in *. simpl in Ha. apply andb_true_iff in Ha as [_ Ha]. auto. }
      assert (Hb' : sepfree b). { unfold sepfree in *. simpl in Hb. apply andb_true_iff in Hb as [_ Hb]. auto. }
      destruct (IH b Ha' Hb' Hs Ht H1) as [-> ->]. auto.
Qed.

(* reading a component prefix off a joined text *)
Lemma join_prefix_inv g : forall ts x,
  Forall wfc g -> Forall wfc ts ->
  join ts = concat (map (fun c => c ++ [47]) g) ++ x ->
  exists r, ts = g ++ r /\ x = join r.
Proof.
  induction g as [|c g IH]; intros ts x Hg Hts E.
  - exists ts. simpl in E. auto.
  - inversion Hg as [|? ? [Hc1 Hc2] Hg']; subst.
    change (concat (map (fun c0 => c0 ++ [47]) (c :: g)))
      with ((c ++ [47]) ++ concat (map (fun c0 => c0 ++ [47]) g)) in E.
    rewrite <- !app_assoc in E. simpl app in E.
    destruct ts as [|d ts].
    + simpl in E. destruct c; discriminate.
    + inversion Hts as [|? ? [Hd1 Hd2] Hts']; subst.
      destruct ts as [|d' ts].
      * simpl in E. exfalso. rewrite E in Hd2. eapply sepfree_app_sep; eauto.
      * change (join (d :: d' :: ts)) with (d ++ 47 :: join (d' :: ts)) in E.
        destruct (sepfree_split_unique d c 47 47 _ _ Hd2 Hc2 is_sep_47 is_sep_47 E) as [-> E'].
        destruct (IH _ _ Hg' Hts' E') as (r & -> & ->). exists r. auto.
Qed.

Lemma render_dirprefix_inv abs g ts x :
  Forall wfc g -> Forall wfc ts ->
  render (abs, ts) = dirprefix abs g ++ x ->
  exists r, ts = g ++ r /\ x = join r.
Proof.
  intros Hg Hts E. rewrite render_absP in E. unfold dirprefix in E. rewrite <- app_assoc in E.
  apply app_inv_head in E. eapply join_prefix_inv; eauto.
Qed.

Lemma dirprefix_nil_prefix abs ts : prefix_eqb (dirprefix abs []) (render (abs, ts)) = true.
Proof.
  rewrite render_absP. unfold dirprefix. simpl. rewrite app_nil_r. apply prefix_eqb_app.
Qed.

(* ---- "../" repeated ------------------------------------------------------------------------------ *)

Lemma ups_snoc m : ups m ++ UP = ups (S m).
Proof. induction m as [|m IH]; simpl; auto. simpl in IH. rewrite IH. reflexivity. Qed.

Lemma toks_ups m x : toks (ups m ++ x) = repeat DOTDOT m ++ toks x.
Proof.
  induction m as [|m IH]; simpl; auto.
  change (46 :: 46 :: 47 :: ups m ++ x) with ([46; 46] ++ 47 :: (ups m ++ x)).
  rewrite toks_app by reflexivity. rewrite IH. reflexivity.
Qed.

(* ---- the loop ---------------------------------------------------------------------------------- *)

Lemma rel_loop_unfold f sf st result :
  sf <> [] ->
  rel_loop (S f) sf st result =
  match split_last is_slash (removelast sf) with
  | None => if nonempty (removelast sf) && negb (first_is_slash st) then result ++ st else []
  | Some (a, s, _) =>
      if prefix_eqb (a ++ [s]) st then result ++ skipn (length (a ++ [s])) st
      else rel_loop f (a ++ [s]) st (result ++ UP)
  end.
Proof. destruct sf; [contradiction|reflexivity]. Qed.

Lemma slashfree_of_sepfree c : sepfree c -> free is_slash c.
Proof.
  unfold sepfree, free. induction c as [|x c IH]; simpl; auto. intro H.
  apply andb_true_iff in H as [H1 H2]. rewrite IH by auto. rewrite andb_true_r.
  unfold is_sep in H1. unfold is_slash. destruct (x =? 47); auto.
Qed.

Lemma first_is_slash_render_rel ts : Forall wfc ts -> first_is_slash (render (false, ts)) = false.
Proof.
  intro H. rewrite render_absP. simpl. destruct ts as [|c ts]; [reflexivity|].
  pose proof (join_head c ts H) as J. destruct (join (c :: ts)) as [|x l]; [reflexivity|].
  simpl in *. unfold is_sep in J. destruct (x =? 47); auto.
Qed.

Lemma rel_loop_sound abs ts : Forall wfc ts -> forall fuel g result,
  Forall wfc g -> (length g < fuel)%nat ->
  prefix_eqb (dirprefix abs g) (render (abs, ts)) = false ->
  exists g' dropped r, g = g' ++ dropped /\ dropped <> [] /\ ts = g' ++ r /\
    rel_loop fuel (dirprefix abs g) (render (abs, ts)) result
    = result ++ ups (length dropped - 1) ++ join r /\
    (* the loop stopped at the longest prefix that passes the test: one component more did not *)
    (exists d0 rest, dropped = d0 :: rest /\ prefix_eqb (dirprefix abs (g' ++ [d0])) (render (abs, ts)) = false).
Proof.
  intros Hts. induction fuel as [|f IH]; intros g result Hg Hf Hp; [lia|].
  destruct (rev_case g) as [->|(g2 & c & ->)].
  - rewrite dirprefix_nil_prefix in Hp. discriminate.
  - apply Forall_app in Hg as [Hg2 Hc]. inversion Hc as [|? ? [Hc1 Hc2] _]; subst.
    rewrite rel_loop_unfold.
    2:{ rewrite dirprefix_snoc. destruct (dirprefix abs g2 ++ c); discriminate. }
    rewrite dirprefix_snoc. rewrite removelast_last.
    destruct (dirprefix abs g2) as [|y0 Y0] eqn:EX.
    + (* relative, nothing left in front of c *)
      assert (abs = false /\ g2 = []) as [-> ->].
      { unfold dirprefix in EX. apply app_eq_nil in EX as [E1 E2]. split.
        - destruct abs; [discriminate|reflexivity].
        - destruct g2 as [|d g2]; auto. simpl in E2. destruct d; discriminate. }
      change ([] ++ c) with c. rewrite (split_last_free is_slash c (slashfree_of_sepfree c Hc2)).
      rewrite first_is_slash_render_rel by auto.
      assert (Hne : nonempty c = true) by (destruct c; [contradiction|reflexivity]).
      rewrite Hne. simpl andb. cbv iota.
      exists [], [c], ts. split; [reflexivity|]. split; [discriminate|]. split; [reflexivity|]. split.
      { simpl. rewrite render_absP. reflexivity. }
      exists c, []. split; [reflexivity|exact Hp].
    + rewrite <- EX.
      destruct (dirprefix_last abs g2) as (Y & EY).
      { destruct abs; auto. right. intros ->. discriminate. }
      rewrite EY. rewrite <- (app_assoc Y [47] c).
      change ([47] ++ c) with (47 :: c).
      rewrite (split_last_app is_slash Y 47 c eq_refl (slashfree_of_sepfree c Hc2)).
      rewrite <- EY.
      destruct (prefix_eqb (dirprefix abs g2) (render (abs, ts))) eqn:P.
      * pose proof (prefix_eqb_true _ _ P) as E.
        destruct (render_dirprefix_inv abs g2 ts _ Hg2 Hts E) as (r & -> & Er).
        exists g2, [c], r. split; [reflexivity|]. split; [discriminate|]. split; [reflexivity|]. split.
        { simpl. rewrite Er. reflexivity. }
        exists c, []. split; [reflexivity|exact Hp].
      * destruct (IH g2 (result ++ UP) Hg2) as (g' & dropped & r & -> & Hd & -> & E & (d0 & rest & Ed & Pd)); auto.
        { rewrite app_length in Hf. simpl in Hf. lia. }
        exists g', (dropped ++ [c]), r. split; [rewrite app_assoc; reflexivity|].
        split; [destruct dropped; discriminate|]. split; [reflexivity|]. split.
        2:{ exists d0, (rest ++ [c]). split; [rewrite Ed; reflexivity|exact Pd]. }
        -- rewrite E. rewrite app_length. simpl length.
           replace (length dropped + 1 - 1)%nat with (S (length dropped - 1)).
           ++ rewrite <- ups_snoc. rewrite <- !app_assoc.
              f_equal. rewrite !app_assoc. f_equal. rewrite ups_snoc. simpl. reflexivity.
           ++ destruct dropped; [contradiction|]. simpl. lia.
Qed.

(* ---- `to` is a directory above `from` (repair fixes/C19/11) ---------------------------------------- *)

Lemma concat_prefix_inv ts : forall fs x,
  Forall wfc ts -> Forall wfc fs ->
  concat (map (fun c => c ++ [47]) fs) = concat (map (fun c => c ++ [47]) ts) ++ x ->
  exists d, fs = ts ++ d /\ x = concat (map (fun c => c ++ [47]) d).
Proof.
  induction ts as [|t ts IH]; intros fs x Hts Hfs E.
  - exists fs. simpl in E. auto.
  - inversion Hts as [|? ? [Ht1 Ht2] Hts']; subst.
    change (concat (map (fun c0 => c0 ++ [47]) (t :: ts)))
      with ((t ++ [47]) ++ concat (map (fun c0 => c0 ++ [47]) ts)) in E.
    rewrite <- !app_assoc in E. simpl app in E.
    destruct fs as [|f fs].
    + simpl in E. destruct t; discriminate.
    + inversion Hfs as [|? ? [Hf1 Hf2] Hfs']; subst.
      change (concat (map (fun c0 => c0 ++ [47]) (f :: fs)))
        with ((f ++ [47]) ++ concat (map (fun c0 => c0 ++ [47]) fs)) in E.
      rewrite <- !app_assoc in E. simpl app in E.
      destruct (sepfree_split_unique f t 47 47 _ _ Hf2 Ht2 is_sep_47 is_sep_47 E) as [-> E'].
      destruct (IH _ _ Hts' Hfs' E') as (d & -> & ->). exists d. auto.
Qed.

Lemma count_slash_app a b : count_slash (a ++ b) = (count_slash a + count_slash b)%nat.
Proof. unfold count_slash. rewrite filter_app, app_length. reflexivity. Qed.

Lemma count_slash_sepfree c : sepfree c -> count_slash c = O.
Proof.
  unfold sepfree, count_slash. induction c as [|x c IH]; simpl; auto. intro H.
  apply andb_true_iff in H as [H1 H2]. unfold is_sep in H1. unfold is_slash.
  destruct (x =? 47); [discriminate|]. auto.
Qed.

Lemma count_slash_dirs d : Forall wfc d -> count_slash (concat (map (fun c => c ++ [47]) d)) = length d.
Proof.
  induction d as [|c d IH]; intro H; [reflexivity|]. inversion H as [|? ? [_ Hc] Hd]; subst.
  change (concat (map (fun c0 => c0 ++ [47]) (c :: d)))
    with ((c ++ [47]) ++ concat (map (fun c0 => c0 ++ [47]) d)).
  rewrite !count_slash_app, (count_slash_sepfree c Hc), IH by auto. reflexivity.
Qed.

(* ---- the shape of the answer ---------------------------------------------------------------------- *)

Lemma initial_sf abs fs :
  Forall wfc fs ->
  (if nonempty (render (abs, fs)) && negb (str_eqb (render (abs, fs)) [47])
   then render (abs, fs) ++ [47] else render (abs, fs))
  = dirprefix abs fs.
Proof.
  intro H. rewrite render_absP. unfold dirprefix.
  destruct fs as [|c fs].
  - simpl. rewrite !app_nil_r. destruct abs; reflexivity.
  - assert (J : join (c :: fs) <> []).
    { inversion H as [|? ? [Hc _] _]; subst. destruct fs; simpl; [auto|]. destruct c; [contradiction|discriminate]. }
    assert (N : nonempty (absP abs ++ join (c :: fs)) = true).
    { destruct abs; [reflexivity|]. unfold absP. rewrite app_nil_l.
      destruct (join (c :: fs)); [contradiction|reflexivity]. }
    assert (D : str_eqb (absP abs ++ join (c :: fs)) [47] = false).
    { apply str_eqb_neq. intro E. destruct abs; unfold absP in E.
      - change ([47] ++ join (c :: fs)) with (47 :: join (c :: fs)) in E. inversion E. contradiction.
      - rewrite app_nil_l in E. pose proof (join_head c fs H) as JH. rewrite E in JH. discriminate. }
    rewrite N, D. simpl andb. cbv iota. rewrite <- app_assoc. f_equal. apply join_slash. discriminate.
Qed.

Lemma relpath_shape abs fs ts from to :
  Forall wfc fs -> Forall wfc ts ->
  simplifyPath from = render (abs, fs) -> simplifyPath to = render (abs, ts) ->
  (getRelativePath from to = [46] /\ simplifyPath from = simplifyPath to) \/
  exists g' dropped r, fs = g' ++ dropped /\ ts = g' ++ r /\
    getRelativePath from to = ups (length dropped) ++ join r /\
    (* which of the three ways: `to` below `from`; `to` above `from`; the loop, which stopped at the longest common
       prefix that passes its test, `to` not being above `from` *)
    (dropped = [] \/ r = [] \/
     exists d0 rest, dropped = d0 :: rest /\
       prefix_eqb (dirprefix abs (g' ++ [d0])) (render (abs, ts)) = false /\
       prefix_eqb (dirprefix abs ts) (dirprefix abs fs) = false).
Proof.
  intros Hfs Hts Ef Et. unfold getRelativePath. rewrite Ef, Et.
  destruct (str_eqb (render (abs, fs)) (render (abs, ts))) eqn:Eq.
  - left. apply str_eqb_eq in Eq. auto.
  - right. rewrite (initial_sf abs fs Hfs).
    destruct (prefix_eqb (dirprefix abs fs) (render (abs, ts))) eqn:P.
    + pose proof (prefix_eqb_true _ _ P) as E.
      destruct (render_dirprefix_inv abs fs ts _ Hfs Hts E) as (r & -> & Er).
      exists fs, [], r. rewrite app_nil_r. repeat split; auto.
    + rewrite (initial_sf abs ts Hts).
      destruct (prefix_eqb (dirprefix abs ts) (dirprefix abs fs)) eqn:P2.
      { (* `to` is a directory above `from` *)
        pose proof (prefix_eqb_true _ _ P2) as E. unfold dirprefix in E at 1 2. rewrite <- app_assoc in E.
        apply app_inv_head in E.
        destruct (concat_prefix_inv ts fs _ Hts Hfs E) as (d & -> & Ex).
        apply Forall_app in Hfs as [_ Hd].
        exists ts, d, []. rewrite app_nil_r. split; [reflexivity|]. split; [reflexivity|]. split; [|right; left; reflexivity].
        rewrite Ex, (count_slash_dirs d Hd). simpl. rewrite app_nil_r. reflexivity. }
      destruct (rel_loop_sound abs ts Hts (S (length (dirprefix abs fs))) fs UP Hfs) as (g' & dropped & r & -> & Hd & -> & E & (d0 & rest & Ed & Pd)); auto.
      * unfold dirprefix. rewrite app_length.
        assert (L : (length fs <= length (concat (map (fun c : list Z => c ++ [47%Z]) fs)))%nat).
        { clear. induction fs as [|c fs IH]; simpl; auto. rewrite !app_length. simpl. lia. }
        lia.
      * exists g', dropped, r. split; [reflexivity|]. split; [reflexivity|]. split.
        2:{ right; right. exists d0, rest. split; [exact Ed|]. split; [exact Pd|reflexivity]. }
        rewrite E.
        destruct dropped as [|d dropped]; [contradiction|]. cbn [length]. replace (S (length dropped) - 1)%nat with (length dropped) by lia. cbn [ups]. rewrite <- app_assoc. reflexivity.
Qed.

(* ---- what the answer denotes ------------------------------------------------------------------- *)

Lemma pops e st : Forall plain e -> fold_left norm_step (repeat DOTDOT (length e)) (e ++ st) = st.
Proof.
  induction e as [|x e IH]; intro H; simpl; auto.
  inversion H as [|? ? [_ Hx] He]; subst.
  unfold norm_step at 2. simpl. apply str_eqb_neq in Hx. rewrite Hx. apply IH; auto.
Qed.

Lemma starts_with_sep_ups_join m r : Forall wfc r -> starts_with_sep (ups m ++ join r) = false.
Proof.
  intro H. destruct m as [|m]; [|reflexivity]. simpl.
  destruct r as [|c r]; [reflexivity|]. apply join_head; auto.
Qed.

(* the tokens and the kind of `from` followed by a relative text y *)
Lemma components_joined from y :
  starts_with_sep y = false ->
  components (rel_joined from y) = (starts_with_sep from, toks from ++ toks y).
Proof.
  intro Hy. unfold rel_joined. destruct from as [|c from'].
  - rewrite components_eq, Hy. reflexivity.
  - set (from := c :: from'). rewrite components_eq. rewrite toks_app by reflexivity. reflexivity.
Qed.

Lemma denotes from abs g' dropped r :
  starts_with_sep from = abs ->
  fold_left norm_step (toks from) [] = rev (g' ++ dropped) ->
  Forall plain (g' ++ dropped) -> Forall wfc r -> nf (rev (g' ++ r)) ->
  simplifyPath (rel_joined from (ups (length dropped) ++ join r)) = render (abs, g' ++ r).
Proof.
  intros Habs Ef Hplain Hr Hnf. rewrite simplify_spec. unfold canon.
  rewrite components_joined by (apply starts_with_sep_ups_join; auto).
  rewrite toks_ups, toks_join by auto.
  unfold normalise. cbn [fst snd]. rewrite Habs. f_equal. f_equal.
  rewrite !fold_left_app, Ef. rewrite rev_app_distr.
  apply Forall_app in Hplain as [Hg Hd].
  rewrite <- (rev_length dropped). rewrite pops by (apply Forall_rev; auto).
  pose proof (fold_norm_nf_fix _ Hnf) as F. rewrite rev_involutive in F.
  rewrite fold_left_app in F. rewrite (fold_norm_plain g' [] Hg) in F. rewrite app_nil_r in F.
  rewrite F. apply rev_involutive.
Qed.

Lemma nf_no_dotdot_plain st : nf st -> has_dotdot st = false -> Forall plain st.
Proof.
  intros (names & n & -> & Hn) H. unfold has_dotdot in H. rewrite existsb_app in H.
  apply orb_false_iff in H as [_ H]. destruct n as [|n].
  - simpl. rewrite app_nil_r. auto.
  - simpl in H. discriminate.
Qed.

Lemma has_dotdot_rev l : has_dotdot (rev l) = has_dotdot l.
Proof.
  unfold has_dotdot. induction l as [|x l IH]; simpl; auto.
  rewrite existsb_app, IH. simpl. rewrite orb_false_r. apply orb_comm.
Qed.

Lemma relative_path_denotes_target_l from to :
  rel_hyp from to = true ->
  simplifyPath (rel_joined from (getRelativePath from to)) = simplifyPath to.
Proof.
  unfold rel_hyp. intro H. apply andb_true_iff in H as [H2 H3].
  apply Bool.eqb_prop in H2.
  set (abs := starts_with_sep from) in *.
  set (F := fold_left norm_step (toks from) []).
  set (T := fold_left norm_step (toks to) []).
  assert (WF : Forall wfc F) by (apply fold_norm_wf; [constructor|apply toks_wf]).
  assert (WT : Forall wfc T) by (apply fold_norm_wf; [constructor|apply toks_wf]).
  assert (NF : nf F) by (apply fold_norm_nf, nf_nil).
  assert (NT : nf T) by (apply fold_norm_nf, nf_nil).
  assert (Ef : simplifyPath from = render (abs, rev F)) by (rewrite simplify_spec; reflexivity).
  assert (Et : simplifyPath to = render (abs, rev T)).
  { rewrite simplify_spec. unfold canon, normalise. rewrite components_eq. cbn [fst snd]. rewrite <- H2. reflexivity. }
  assert (PF : Forall plain F).
  { apply nf_no_dotdot_plain; auto. apply negb_true_iff in H3.
    unfold normalise in H3. cbn [snd components] in H3. fold (toks from) in H3. fold F in H3.
    rewrite has_dotdot_rev in H3. exact H3. }
  destruct (relpath_shape abs (rev F) (rev T) from to) as [[E1 E2]|(g' & dropped & r & Eg & Er & E & _)];
    auto using Forall_rev.
  - (* equal after simplification: "." *)
    rewrite E1, <- E2. rewrite simplify_spec. unfold canon. rewrite components_joined by reflexivity.
    unfold normalise. cbn [fst snd]. rewrite fold_left_app. simpl fold_left.
    rewrite simplify_spec. unfold canon, normalise. rewrite components_eq. reflexivity.
  - rewrite E, Et, Er.
    apply denotes; auto.
    + fold F. rewrite <- Eg. symmetry. apply rev_involutive.
    + rewrite <- Eg. apply Forall_rev; auto.
    + assert (W : Forall wfc (g' ++ r)) by (rewrite <- Er; apply Forall_rev; auto).
      apply Forall_app in W as [_ W]. exact W.
    + rewrite <- Er, rev_involutive. exact NT.
Qed.

(* ---- the wider class: `from` keeps leading ".." but no more of them than `to` (round 5) ---------------- *)

Lemma nf_app_r x : forall y, nf (x ++ y) -> nf y.
Proof.
  induction x as [|e x IH]; intros y H; [exact H|].
  apply IH. destruct H as (names & n & E & Hn). destruct names as [|e' names].
  - destruct n as [|n]; [discriminate E|]. simpl in E. inversion E as [[E0 E1]]. exists [], n. split; [exact E1|constructor].
  - simpl in E. inversion E as [[E0 E1]]. inversion Hn; subst. exists names, n. split; [exact E1|assumption].
Qed.

Lemma nf_rev_prefix a b : nf (rev (a ++ b)) -> nf (rev a).
Proof. rewrite rev_app_distr. apply nf_app_r. Qed.

(* bottom-first reading of a normal form: a block of ".." and then proper names *)
Lemma nf_rev_shape l : nf (rev l) -> exists n names, l = repeat DOTDOT n ++ names /\ Forall plain names.
Proof.
  intros (names & n & E & Hn). exists n, (rev names). split; [|apply Forall_rev; exact Hn].
  rewrite <- (rev_involutive l), E, rev_app_distr, rev_repeat. reflexivity.
Qed.

Lemma count_dotdot_app a b : count_dotdot (a ++ b) = (count_dotdot a + count_dotdot b)%nat.
Proof. unfold count_dotdot. rewrite filter_app, app_length. reflexivity. Qed.

Lemma count_dotdot_plain l : Forall plain l -> count_dotdot l = O.
Proof.
  unfold count_dotdot. induction l as [|c l IH]; intro H; [reflexivity|]. inversion H as [|? ? [_ Hc] Hl]; subst.
  simpl. apply str_eqb_neq in Hc. rewrite Hc. auto.
Qed.

Lemma count_dotdot_cons_dd l : count_dotdot (DOTDOT :: l) = S (count_dotdot l).
Proof. reflexivity. Qed.

(* a part of a normal form (bottom first) without "..": proper names only *)
Lemma nf_part_plain a : forall l n names,
  a ++ l = repeat DOTDOT n ++ names -> Forall plain names -> count_dotdot l = O -> Forall plain l.
Proof.
  induction a as [|x a IH]; intros l n names E Hn C.
  - simpl in E. subst l. destruct n as [|n]; [exact Hn|]. simpl in C. rewrite count_dotdot_cons_dd in C. discriminate C.
  - destruct n as [|n]; simpl in E.
    + subst names. inversion Hn; subst. apply Forall_app in H2 as [_ H2]. exact H2.
    + inversion E. eapply IH; eauto.
Qed.

(* ... with a "..": it starts with one, and everything before it is ".." too *)
Lemma nf_part_dotdot a : forall l n names,
  a ++ l = repeat DOTDOT n ++ names -> Forall plain names -> count_dotdot l <> O -> exists l', l = DOTDOT :: l'.
Proof.
  induction a as [|x a IH]; intros l n names E Hn C.
  - simpl in E. subst l. destruct n as [|n]; [|simpl; eauto].
    simpl in C. rewrite (count_dotdot_plain _ Hn) in C. contradiction.
  - destruct n as [|n]; simpl in E.
    + subst names. inversion Hn; subst. apply Forall_app in H2 as [_ H2].
      rewrite (count_dotdot_plain _ H2) in C. contradiction.
    + inversion E. eapply IH; eauto.
Qed.

Lemma join_app_dirs g : forall y, y <> [] -> join (g ++ y) = concat (map (fun c => c ++ [47]) g) ++ join y.
Proof.
  induction g as [|c g IH]; intros y Hy; [reflexivity|].
  change ((c :: g) ++ y) with (c :: (g ++ y)).
  change (concat (map (fun c0 => c0 ++ [47]) (c :: g))) with ((c ++ [47]) ++ concat (map (fun c0 => c0 ++ [47]) g)).
  rewrite <- !app_assoc. rewrite <- IH by auto.
  destruct (g ++ y) as [|d t] eqn:E; [destruct g; [contradiction|discriminate]|].
  reflexivity.
Qed.

Lemma prefix_dirprefix_render abs g y : y <> [] -> prefix_eqb (dirprefix abs g) (render (abs, g ++ y)) = true.
Proof.
  intro Hy. rewrite render_absP, (join_app_dirs g y Hy). unfold dirprefix. rewrite app_assoc. apply prefix_eqb_app.
Qed.

Lemma prefix_dirprefix_dirprefix abs g y : prefix_eqb (dirprefix abs g) (dirprefix abs (g ++ y)) = true.
Proof.
  unfold dirprefix. rewrite map_app, concat_app, app_assoc. apply prefix_eqb_app.
Qed.

Lemma denotes_wide from abs g' dropped r :
  starts_with_sep from = abs ->
  fold_left norm_step (toks from) [] = rev (g' ++ dropped) ->
  Forall plain dropped -> nf (rev g') -> Forall wfc r -> nf (rev (g' ++ r)) ->
  simplifyPath (rel_joined from (ups (length dropped) ++ join r)) = render (abs, g' ++ r).
Proof.
  intros Habs Ef Hd Hg Hr Hnf. rewrite simplify_spec. unfold canon.
  rewrite components_joined by (apply starts_with_sep_ups_join; auto).
  rewrite toks_ups, toks_join by auto.
  unfold normalise. cbn [fst snd]. rewrite Habs. f_equal. f_equal.
  rewrite !fold_left_app, Ef. rewrite rev_app_distr.
  rewrite <- (rev_length dropped). rewrite pops by (apply Forall_rev; auto).
  pose proof (fold_norm_nf_fix _ Hnf) as F. rewrite rev_involutive in F.
  rewrite fold_left_app in F.
  pose proof (fold_norm_nf_fix _ Hg) as G. rewrite rev_involutive in G. rewrite G in F.
  rewrite F. apply rev_involutive.
Qed.

Lemma relative_path_denotes_target_wide_l from to :
  rel_hyp_wide from to = true ->
  simplifyPath (rel_joined from (getRelativePath from to)) = simplifyPath to.
Proof.
  unfold rel_hyp_wide. intro H. apply andb_true_iff in H as [H2 H3].
  apply Bool.eqb_prop in H2. apply Nat.leb_le in H3.
  set (abs := starts_with_sep from) in *.
  set (F := fold_left norm_step (toks from) []).
  set (T := fold_left norm_step (toks to) []).
  assert (WF : Forall wfc F) by (apply fold_norm_wf; [constructor|apply toks_wf]).
  assert (WT : Forall wfc T) by (apply fold_norm_wf; [constructor|apply toks_wf]).
  assert (NF : nf F) by (apply fold_norm_nf, nf_nil).
  assert (NT : nf T) by (apply fold_norm_nf, nf_nil).
  assert (Ef : simplifyPath from = render (abs, rev F)) by (rewrite simplify_spec; reflexivity).
  assert (Et : simplifyPath to = render (abs, rev T)).
  { rewrite simplify_spec. unfold canon, normalise. rewrite components_eq. cbn [fst snd]. rewrite <- H2. reflexivity. }
  unfold normalise in H3. cbn [snd components] in H3. fold (toks from) in H3. fold (toks to) in H3. fold F in H3. fold T in H3.
  destruct (relpath_shape abs (rev F) (rev T) from to) as [[E1 E2]|(g' & dropped & r & Eg & Er & E & Way)];
    auto using Forall_rev.
  - (* equal after simplification: "." *)
    rewrite E1, <- E2. rewrite simplify_spec. unfold canon. rewrite components_joined by reflexivity.
    unfold normalise. cbn [fst snd]. rewrite fold_left_app. simpl fold_left.
    rewrite simplify_spec. unfold canon, normalise. rewrite components_eq. reflexivity.
  - rewrite Eg, Er, !count_dotdot_app in H3.
    assert (NF' : nf (rev (g' ++ dropped))) by (rewrite <- Eg, rev_involutive; exact NF).
    assert (NT' : nf (rev (g' ++ r))) by (rewrite <- Er, rev_involutive; exact NT).
    destruct (nf_rev_shape _ NF') as (nf_ & namesF & EF & HnF).
    destruct (nf_rev_shape _ NT') as (nt_ & namesT & ET & HnT).
    assert (PD : Forall plain dropped).
    { destruct (Nat.eq_dec (count_dotdot dropped) 0) as [Z|NZ]; [exact (nf_part_plain g' dropped _ _ EF HnF Z)|].
      exfalso.
      destruct (nf_part_dotdot g' dropped _ _ EF HnF NZ) as (rest0 & Ed0).
      assert (NZr : count_dotdot r <> O) by lia.
      destruct (nf_part_dotdot g' r _ _ ET HnT NZr) as (r' & Er').
      destruct Way as [D|[R|(d0 & rest & Ed & Pd & P2)]].
      - subst dropped. discriminate Ed0.
      - subst r. discriminate Er'.
      - rewrite Ed in Ed0. inversion Ed0; subst d0 rest0. subst r.
        destruct r' as [|x r'].
        + (* `to` = g' ++ [".."] is a directory above `from` = g' ++ ".." :: rest: the early branch took it *)
          rewrite Er, Eg, Ed in P2.
          change (g' ++ DOTDOT :: rest) with (g' ++ [DOTDOT] ++ rest) in P2. rewrite app_assoc in P2.
          rewrite prefix_dirprefix_dirprefix in P2. discriminate P2.
        + rewrite Er in Pd. change (g' ++ DOTDOT :: x :: r') with (g' ++ [DOTDOT] ++ x :: r') in Pd.
          rewrite app_assoc in Pd. rewrite prefix_dirprefix_render in Pd by discriminate. discriminate Pd. }
    rewrite E, Et, Er.
    apply denotes_wide; auto.
    + fold F. rewrite <- Eg. symmetry. apply rev_involutive.
    + exact (nf_rev_prefix _ _ NF').
    + assert (W : Forall wfc (g' ++ r)) by (rewrite <- Er; apply Forall_rev; auto).
      apply Forall_app in W as [_ W]. exact W.
Qed.

(* the old hypothesis (no ".." left in `from`) is the special case *)
Lemma rel_hyp_is_wide from to : rel_hyp from to = true -> rel_hyp_wide from to = true.
Proof.
  unfold rel_hyp, rel_hyp_wide. intro H. apply andb_true_iff in H as [H1 H2]. rewrite H1. cbn [andb].
  apply Nat.leb_le. apply negb_true_iff in H2.
  assert (Z : count_dotdot (snd (normalise (components from))) = O); [|rewrite Z; lia].
  unfold has_dotdot in H2. unfold count_dotdot.
  induction (snd (normalise (components from))) as [|c l IH]; [reflexivity|].
  simpl in H2 |- *. apply orb_false_iff in H2 as [Hc Hl]. rewrite Hc. auto.
Qed.
