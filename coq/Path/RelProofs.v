(* getRelativePath: the answer appended to `from` denotes `to`. *)
From Coq Require Import ZArith List Bool Lia.
From Path Require Import PathSpec PathModel PathProofs.
Import ListNotations.
Local Open Scope Z_scope.

Lemma rev_case {A} (l : list A) : l = [] \/ exists h d, l = h ++ [d].
Proof. induction l as [|d h _] using rev_ind; [left; reflexivity|right; eauto]. Qed.

(* ---- prefixes -------------------------------------------------------------------------------- *)

Lemma prefix_eqb_true pre s : prefix_eqb pre s = true -> s = pre ++ skipn (length pre) s.
Proof.
  unfold prefix_eqb. intro H. apply str_eqb_eq in H.
  rewrite <- (firstn_skipn (length pre) s) at 1. rewrite H. reflexivity.
Qed.

Lemma prefix_eqb_app pre r : prefix_eqb pre (pre ++ r) = true.
Proof.
  unfold prefix_eqb. apply str_eqb_eq. rewrite firstn_app, firstn_all, Nat.sub_diag. simpl. apply app_nil_r.
Qed.

(* ---- texts built from components --------------------------------------------------------------- *)

Definition absP (abs : bool) : str := if abs then [47] else [].

Definition dirprefix (abs : bool) (g : list str) : str :=
  absP abs ++ concat (map (fun c => c ++ [47]) g).

Lemma render_absP abs ts : render (abs, ts) = absP abs ++ join ts.
Proof. destruct ts; [|reflexivity]. unfold render, absP. simpl. destruct abs; reflexivity. Qed.

Lemma join_slash fs : fs <> [] -> join fs ++ [47] = concat (map (fun c => c ++ [47]) fs).
Proof.
  induction fs as [|c fs IH]; [contradiction|]. intros _.
  destruct fs as [|d fs].
  - simpl. rewrite app_nil_r. reflexivity.
  - change (join (c :: d :: fs)) with (c ++ 47 :: join (d :: fs)).
    change (concat (map (fun c0 => c0 ++ [47]) (c :: d :: fs)))
      with ((c ++ [47]) ++ concat (map (fun c0 => c0 ++ [47]) (d :: fs))).
    rewrite <- IH by discriminate. rewrite <- !app_assoc. reflexivity.
Qed.

Lemma dirprefix_snoc abs g c : dirprefix abs (g ++ [c]) = (dirprefix abs g ++ c) ++ [47].
Proof.
  unfold dirprefix. rewrite map_app, concat_app. simpl. rewrite app_nil_r, <- !app_assoc. reflexivity.
Qed.

Lemma dirprefix_last abs g : abs = true \/ g <> [] -> exists Y, dirprefix abs g = Y ++ [47].
Proof.
  intros H. destruct (rev_case g) as [->|(h & d & ->)].
  - destruct H as [->|H]; [|contradiction]. exists []. reflexivity.
  - rewrite dirprefix_snoc. eauto.
Qed.

Lemma sepfree_app_sep a s x : sepfree (a ++ s :: x) -> is_sep s = true -> False.
Proof.
  unfold sepfree. rewrite forallb_app. simpl. intros H Hs. rewrite Hs in H. simpl in H.
  rewrite andb_false_r in H. discriminate.
Qed.

Lemma sepfree_split_unique a b s t x y :
  sepfree a -> sepfree b -> is_sep s = true -> is_sep t = true ->
  a ++ s :: x = b ++ t :: y -> a = b /\ x = y.
Proof.
  revert b; induction a as [|e a IH]; intros b Ha Hb Hs Ht E.
  - destruct b as [|e' b]; simpl in E.
    + inversion E; auto.
    + inversion E; subst. exfalso. apply (sepfree_app_sep [] e' b); auto.
  - destruct b as [|e' b]; simpl in E.
    + inversion E; subst. exfalso. apply (sepfree_app_sep [] t a); auto.
    + inversion E; subst.
      assert (Ha' : sepfree a). { unfold sepfree in *. simpl in Ha. apply andb_true_iff in Ha as [_ Ha]. auto. }
      assert (Hb' : sepfree b). { unfold sepfree in *. simpl in Hb. apply andb_true_iff in Hb as [_ Hb]. auto. }
      destruct (IH b Ha' Hb' Hs Ht H1) as [-> ->]. auto.
Qed.

(* reading a component prefix off a joined text *)
Lemma join_prefix_inv g : forall ts x,
  Forall wfc g -> Forall wfc ts ->
  join ts = concat (map (fun c => c ++ [47]) g) ++ x ->
  exists r, ts = g ++ r /\ x = join r.
Proof.
  induction g as [|c g IH]; intros ts x Hg Hts E.
  - exists ts. simpl in E. auto.
  - inversion Hg as [|? ? [Hc1 Hc2] Hg']; subst.
    change (concat (map (fun c0 => c0 ++ [47]) (c :: g)))
      with ((c ++ [47]) ++ concat (map (fun c0 => c0 ++ [47]) g)) in E.
    rewrite <- !app_assoc in E. simpl app in E.
    destruct ts as [|d ts].
    + simpl in E. destruct c; discriminate.
    + inversion Hts as [|? ? [Hd1 Hd2] Hts']; subst.
      destruct ts as [|d' ts].
      * simpl in E. exfalso. rewrite E in Hd2. eapply sepfree_app_sep; eauto.
      * change (join (d :: d' :: ts)) with (d ++ 47 :: join (d' :: ts)) in E.
        destruct (sepfree_split_unique d c 47 47 _ _ Hd2 Hc2 is_sep_47 is_sep_47 E) as [-> E'].
        destruct (IH _ _ Hg' Hts' E') as (r & -> & ->). exists r. auto.
Qed.

Lemma render_dirprefix_inv abs g ts x :
  Forall wfc g -> Forall wfc ts ->
  render (abs, ts) = dirprefix abs g ++ x ->
  exists r, ts = g ++ r /\ x = join r.
Proof.
  intros Hg Hts E. rewrite render_absP in E. unfold dirprefix in E. rewrite <- app_assoc in E.
  apply app_inv_head in E. eapply join_prefix_inv; eauto.
Qed.

Lemma dirprefix_nil_prefix abs ts : prefix_eqb (dirprefix abs []) (render (abs, ts)) = true.
Proof.
  rewrite render_absP. unfold dirprefix. simpl. rewrite app_nil_r. apply prefix_eqb_app.
Qed.

(* ---- "../" repeated ------------------------------------------------------------------------------ *)

Fixpoint ups (m : nat) : str := match m with O => [] | S k => UP ++ ups k end.

Lemma ups_snoc m : ups m ++ UP = ups (S m).
Proof. induction m as [|m IH]; simpl; auto. simpl in IH. rewrite IH. reflexivity. Qed.

Lemma toks_ups m x : toks (ups m ++ x) = repeat DOTDOT m ++ toks x.
Proof.
  induction m as [|m IH]; simpl; auto.
  change (46 :: 46 :: 47 :: ups m ++ x) with ([46; 46] ++ 47 :: (ups m ++ x)).
  rewrite toks_app by reflexivity. rewrite IH. reflexivity.
Qed.

(* ---- the loop ---------------------------------------------------------------------------------- *)

Lemma rel_loop_unfold f sf st result :
  sf <> [] ->
  rel_loop (S f) sf st result =
  match split_last is_slash (removelast sf) with
  | None => if nonempty (removelast sf) && negb (first_is_slash st) then result ++ st else []
  | Some (a, s, _) =>
      if prefix_eqb (a ++ [s]) st then result ++ skipn (length (a ++ [s])) st
      else rel_loop f (a ++ [s]) st (result ++ UP)
  end.
Proof. destruct sf; [contradiction|reflexivity]. Qed.

Lemma slashfree_of_sepfree c : sepfree c -> free is_slash c.
Proof.
  unfold sepfree, free. induction c as [|x c IH]; simpl; auto. intro H.
  apply andb_true_iff in H as [H1 H2]. rewrite IH by auto. rewrite andb_true_r.
  unfold is_sep in H1. unfold is_slash. destruct (x =? 47); auto.
Qed.

Lemma first_is_slash_render_rel ts : Forall wfc ts -> first_is_slash (render (false, ts)) = false.
Proof.
  intro H. rewrite render_absP. simpl. destruct ts as [|c ts]; [reflexivity|].
  pose proof (join_head c ts H) as J. destruct (join (c :: ts)) as [|x l]; [reflexivity|].
  simpl in *. unfold is_sep in J. destruct (x =? 47); auto.
Qed.

Lemma rel_loop_sound abs ts : Forall wfc ts -> forall fuel g result,
  Forall wfc g -> (length g < fuel)%nat ->
  prefix_eqb (dirprefix abs g) (render (abs, ts)) = false ->
  exists g' dropped r, g = g' ++ dropped /\ dropped <> [] /\ ts = g' ++ r /\
    rel_loop fuel (dirprefix abs g) (render (abs, ts)) result
    = result ++ ups (length dropped - 1) ++ join r.
Proof.
  intros Hts. induction fuel as [|f IH]; intros g result Hg Hf Hp; [lia|].
  destruct (rev_case g) as [->|(g2 & c & ->)].
  - rewrite dirprefix_nil_prefix in Hp. discriminate.
  - apply Forall_app in Hg as [Hg2 Hc]. inversion Hc as [|? ? [Hc1 Hc2] _]; subst.
    rewrite rel_loop_unfold.
    2:{ rewrite dirprefix_snoc. destruct (dirprefix abs g2 ++ c); discriminate. }
    rewrite dirprefix_snoc. rewrite removelast_last.
    destruct (dirprefix abs g2) as [|y0 Y0] eqn:EX.
    + (* relative, nothing left in front of c *)
      assert (abs = false /\ g2 = []) as [-> ->].
      { unfold dirprefix in EX. apply app_eq_nil in EX as [E1 E2]. split.
        - destruct abs; [discriminate|reflexivity].
        - destruct g2 as [|d g2]; auto. simpl in E2. destruct d; discriminate. }
      change ([] ++ c) with c. rewrite (split_last_free is_slash c (slashfree_of_sepfree c Hc2)).
      rewrite first_is_slash_render_rel by auto.
      assert (Hne : nonempty c = true) by (destruct c; [contradiction|reflexivity]).
      rewrite Hne. simpl andb. cbv iota.
      exists [], [c], ts. repeat split; auto; [discriminate|]. simpl. rewrite render_absP. reflexivity.
    + rewrite <- EX.
      destruct (dirprefix_last abs g2) as (Y & EY).
      { destruct abs; auto. right. intros ->. discriminate. }
      rewrite EY. rewrite <- (app_assoc Y [47] c).
      change ([47] ++ c) with (47 :: c).
      rewrite (split_last_app is_slash Y 47 c eq_refl (slashfree_of_sepfree c Hc2)).
      rewrite <- EY.
      destruct (prefix_eqb (dirprefix abs g2) (render (abs, ts))) eqn:P.
      * pose proof (prefix_eqb_true _ _ P) as E.
        destruct (render_dirprefix_inv abs g2 ts _ Hg2 Hts E) as (r & -> & Er).
        exists g2, [c], r. repeat split; auto; [discriminate|]. simpl. rewrite Er. reflexivity.
      * destruct (IH g2 (result ++ UP) Hg2) as (g' & dropped & r & -> & Hd & -> & E); auto.
        { rewrite app_length in Hf. simpl in Hf. lia. }
        exists g', (dropped ++ [c]), r. repeat split; auto.
        -- rewrite app_assoc. reflexivity.
        -- destruct dropped; discriminate.
        -- rewrite E. rewrite app_length. simpl length.
           replace (length dropped + 1 - 1)%nat with (S (length dropped - 1)).
           ++ rewrite <- ups_snoc. rewrite <- !app_assoc.
              f_equal. rewrite !app_assoc. f_equal. rewrite ups_snoc. simpl. reflexivity.
           ++ destruct dropped; [contradiction|]. simpl. lia.
Qed.

(* ---- the shape of the answer ---------------------------------------------------------------------- *)

Lemma initial_sf abs fs :
  Forall wfc fs ->
  (if nonempty (render (abs, fs)) && negb (str_eqb (render (abs, fs)) [47])
   then render (abs, fs) ++ [47] else render (abs, fs))
  = dirprefix abs fs.
Proof.
  intro H. rewrite render_absP. unfold dirprefix.
  destruct fs as [|c fs].
  - simpl. rewrite !app_nil_r. destruct abs; reflexivity.
  - assert (J : join (c :: fs) <> []).
    { inversion H as [|? ? [Hc _] _]; subst. destruct fs; simpl; [auto|]. destruct c; [contradiction|discriminate]. }
    assert (N : nonempty (absP abs ++ join (c :: fs)) = true).
    { destruct abs; [reflexivity|]. unfold absP. rewrite app_nil_l.
      destruct (join (c :: fs)); [contradiction|reflexivity]. }
    assert (D : str_eqb (absP abs ++ join (c :: fs)) [47] = false).
    { apply str_eqb_neq. intro E. destruct abs; unfold absP in E.
      - change ([47] ++ join (c :: fs)) with (47 :: join (c :: fs)) in E. inversion E. contradiction.
      - rewrite app_nil_l in E. pose proof (join_head c fs H) as JH. rewrite E in JH. discriminate. }
    rewrite N, D. simpl andb. cbv iota. rewrite <- app_assoc. f_equal. apply join_slash. discriminate.
Qed.

Lemma relpath_shape abs fs ts from to :
  Forall wfc fs -> Forall wfc ts ->
  simplifyPath from = render (abs, fs) -> simplifyPath to = render (abs, ts) ->
  (getRelativePath from to = [46] /\ simplifyPath from = simplifyPath to) \/
  exists g' dropped r, fs = g' ++ dropped /\ ts = g' ++ r /\
    getRelativePath from to = ups (length dropped) ++ join r.
Proof.
  intros Hfs Hts Ef Et. unfold getRelativePath. rewrite Ef, Et.
  destruct (str_eqb (render (abs, fs)) (render (abs, ts))) eqn:Eq.
  - left. apply str_eqb_eq in Eq. auto.
  - right. rewrite (initial_sf abs fs Hfs).
    destruct (prefix_eqb (dirprefix abs fs) (render (abs, ts))) eqn:P.
    + pose proof (prefix_eqb_true _ _ P) as E.
      destruct (render_dirprefix_inv abs fs ts _ Hfs Hts E) as (r & -> & Er).
      exists fs, [], r. rewrite app_nil_r. repeat split; auto.
    + destruct (rel_loop_sound abs ts Hts (S (length (dirprefix abs fs))) fs UP Hfs) as (g' & dropped & r & -> & Hd & -> & E); auto.
      * unfold dirprefix. rewrite app_length.
        assert (L : (length fs <= length (concat (map (fun c : list Z => c ++ [47%Z]) fs)))%nat).
        { clear. induction fs as [|c fs IH]; simpl; auto. rewrite !app_length. simpl. lia. }
        lia.
      * exists g', dropped, r. repeat split; auto. rewrite E.
        destruct dropped as [|d dropped]; [contradiction|]. cbn [length]. replace (S (length dropped) - 1)%nat with (length dropped) by lia. cbn [ups]. rewrite <- app_assoc. reflexivity.
Qed.

(* ---- what the answer denotes ------------------------------------------------------------------- *)

Lemma pops e st : Forall plain e -> fold_left norm_step (repeat DOTDOT (length e)) (e ++ st) = st.
Proof.
  induction e as [|x e IH]; intro H; simpl; auto.
  inversion H as [|? ? [_ Hx] He]; subst.
  unfold norm_step at 2. simpl. apply str_eqb_neq in Hx. rewrite Hx. apply IH; auto.
Qed.

Lemma starts_with_sep_ups_join m r : Forall wfc r -> starts_with_sep (ups m ++ join r) = false.
Proof.
  intro H. destruct m as [|m]; [|reflexivity]. simpl.
  destruct r as [|c r]; [reflexivity|]. apply join_head; auto.
Qed.

(* the tokens and the kind of `from` followed by a relative text y *)
Lemma components_joined from y :
  starts_with_sep y = false ->
  components (rel_joined from y) = (starts_with_sep from, toks from ++ toks y).
Proof.
  intro Hy. unfold rel_joined. destruct from as [|c from'].
  - rewrite components_eq, Hy. reflexivity.
  - set (from := c :: from'). rewrite components_eq. rewrite toks_app by reflexivity. reflexivity.
Qed.

Lemma denotes from abs g' dropped r :
  starts_with_sep from = abs ->
  fold_left norm_step (toks from) [] = rev (g' ++ dropped) ->
  Forall plain (g' ++ dropped) -> Forall wfc r -> nf (rev (g' ++ r)) ->
  simplifyPath (rel_joined from (ups (length dropped) ++ join r)) = render (abs, g' ++ r).
Proof.
  intros Habs Ef Hplain Hr Hnf. rewrite simplify_spec. unfold canon.
  rewrite components_joined by (apply starts_with_sep_ups_join; auto).
  rewrite toks_ups, toks_join by auto.
  unfold normalise. cbn [fst snd]. rewrite Habs. f_equal. f_equal.
  rewrite !fold_left_app, Ef. rewrite rev_app_distr.
  apply Forall_app in Hplain as [Hg Hd].
  rewrite <- (rev_length dropped). rewrite pops by (apply Forall_rev; auto).
  pose proof (fold_norm_nf_fix _ Hnf) as F. rewrite rev_involutive in F.
  rewrite fold_left_app in F. rewrite (fold_norm_plain g' [] Hg) in F. rewrite app_nil_r in F.
  rewrite F. apply rev_involutive.
Qed.

Lemma nf_no_dotdot_plain st : nf st -> has_dotdot st = false -> Forall plain st.
Proof.
  intros (names & n & -> & Hn) H. unfold has_dotdot in H. rewrite existsb_app in H.
  apply orb_false_iff in H as [_ H]. destruct n as [|n].
  - simpl. rewrite app_nil_r. auto.
  - simpl in H. discriminate.
Qed.

Lemma has_dotdot_rev l : has_dotdot (rev l) = has_dotdot l.
Proof.
  unfold has_dotdot. induction l as [|x l IH]; simpl; auto.
  rewrite existsb_app, IH. simpl. rewrite orb_false_r. apply orb_comm.
Qed.

Lemma relative_path_denotes_target_l from to :
  rel_hyp from to = true ->
  simplifyPath (rel_joined from (getRelativePath from to)) = simplifyPath to.
Proof.
  unfold rel_hyp. intro H. apply andb_true_iff in H as [H2 H3].
  apply Bool.eqb_prop in H2.
  set (abs := starts_with_sep from) in *.
  set (F := fold_left norm_step (toks from) []).
  set (T := fold_left norm_step (toks to) []).
  assert (WF : Forall wfc F) by (apply fold_norm_wf; [constructor|apply toks_wf]).
  assert (WT : Forall wfc T) by (apply fold_norm_wf; [constructor|apply toks_wf]).
  assert (NF : nf F) by (apply fold_norm_nf, nf_nil).
  assert (NT : nf T) by (apply fold_norm_nf, nf_nil).
  assert (Ef : simplifyPath from = render (abs, rev F)) by (rewrite simplify_spec; reflexivity).
  assert (Et : simplifyPath to = render (abs, rev T)).
  { rewrite simplify_spec. unfold canon, normalise. rewrite components_eq. cbn [fst snd]. rewrite <- H2. reflexivity. }
  assert (PF : Forall plain F).
  { apply nf_no_dotdot_plain; auto. apply negb_true_iff in H3.
    unfold normalise in H3. cbn [snd components] in H3. fold (toks from) in H3. fold F in H3.
    rewrite has_dotdot_rev in H3. exact H3. }
  destruct (relpath_shape abs (rev F) (rev T) from to) as [[E1 E2]|(g' & dropped & r & Eg & Er & E)];
    auto using Forall_rev.
  - (* equal after simplification: "." *)
    rewrite E1, <- E2. rewrite simplify_spec. unfold canon. rewrite components_joined by reflexivity.
    unfold normalise. cbn [fst snd]. rewrite fold_left_app. simpl fold_left.
    rewrite simplify_spec. unfold canon, normalise. rewrite components_eq. reflexivity.
  - rewrite E, Et, Er.
    apply denotes; auto.
    + fold F. rewrite <- Eg. symmetry. apply rev_involutive.
    + rewrite <- Eg. apply Forall_rev; auto.
    + assert (W : Forall wfc (g' ++ r)) by (rewrite <- Er; apply Forall_rev; auto).
      apply Forall_app in W as [_ W]. exact W.
    + rewrite <- Er, rev_involutive. exact NT.
Qed.
