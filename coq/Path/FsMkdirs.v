(* Directory::create makes all missing parents: the success theorem.  For a text of proper names
   (no '.', '..', no separator of either kind inside a name) whose first k names lead through real
   directories and whose next name does not exist, create answers true and the tree afterwards is
   the tree before with exactly the chain of new, empty directories added. *)
From Coq Require Import ZArith List Bool Lia.
From Path Require Import PathSpec PathModel PathProofs FsSpec FsModel FsTree FsWalk FsDir FsCreate.
Import ListNotations.
Local Open Scope Z_scope.

(* a proper name that contains neither '/' nor '\' *)
Definition plain_name (c : str) : Prop := name_ok c = true /\ sepfree c.

(* the tree with a chain of new empty directories below base *)
Fixpoint add_chain (r : node) (base : cpath) (rest : list str) : node :=
  match rest with
  | [] => r
  | c :: more => add_chain (upd r (base ++ [c]) (Some (NDir []))) (base ++ [c]) more
  end.

Lemma add_chain_snoc rest : forall r base c,
  add_chain r base (rest ++ [c]) = upd (add_chain r base rest) ((base ++ rest) ++ [c]) (Some (NDir [])).
Proof.
  induction rest as [|a rest IH]; intros r base c.
  - simpl. rewrite app_nil_r. reflexivity.
  - simpl. rewrite IH. rewrite <- (app_assoc base [a] rest). reflexivity.
Qed.

Lemma add_chain_end rest : forall r base es,
  rest <> [] -> get r base = Some (NDir es) -> get (add_chain r base rest) (base ++ rest) = Some (NDir []).
Proof.
  induction rest as [|a rest IH]; intros r base es N G; [contradiction|].
  assert (G1 : get (upd r (base ++ [a]) (Some (NDir []))) (base ++ [a]) = Some (NDir [])).
  { rewrite <- (app_nil_r (base ++ [a])) at 2. erewrite get_upd_here by eauto. reflexivity. }
  destruct rest as [|b rest].
  - simpl. exact G1.
  - change (add_chain r base (a :: b :: rest)) with (add_chain (upd r (base ++ [a]) (Some (NDir []))) (base ++ [a]) (b :: rest)).
    replace (base ++ a :: b :: rest) with ((base ++ [a]) ++ b :: rest) by (rewrite <- app_assoc; reflexivity).
    eapply IH; [discriminate|exact G1].
Qed.

Lemma dirname_join ns c : ns <> [] -> sepfree c -> getDirectoryName (join (ns ++ [c])) = join ns.
Proof.
  intros N F. rewrite join_snoc by auto. unfold getDirectoryName.
  rewrite (split_last_app is_sep (join ns) 47 c eq_refl F). reflexivity.
Qed.

Lemma dirname_single c : sepfree c -> getDirectoryName c = DOT1.
Proof. intro F. unfold getDirectoryName. rewrite (split_last_free is_sep c F). reflexivity. Qed.

Lemma plain_names_ok l : Forall plain_name l -> names_ok l.
Proof. intro H. eapply Forall_impl; [|exact H]. intros a [A _]. exact A. Qed.

(* names that lead through real directories denote a directory *)
Lemma exists_names st ns c es :
  names_ok (ns ++ [c]) -> get (root st) ((cwd st ++ ns) ++ [c]) = Some (NDir es) ->
  d_exists st (join (ns ++ [c])) = true.
Proof.
  intros Hn G. apply d_exists_iff.
  destruct (get_below_dir (root st) (cwd st ++ ns) c [] _ G) as [es0 G0].
  rewrite (resolve_names st true ns c (cwd st ++ ns)); auto.
  - unfold sget. rewrite G. exact I.
  - eauto.
  - intros _ t. unfold sget. rewrite G. discriminate.
Qed.

(* names that lead through real directories up to a name that does not exist denote no directory *)
Lemma not_exists_names st ns c more es :
  names_ok (ns ++ c :: more) -> get (root st) (cwd st ++ ns) = Some (NDir es) ->
  get (root st) ((cwd st ++ ns) ++ [c]) = None ->
  d_exists st (join (ns ++ c :: more)) = false.
Proof.
  intros Hn G Gn. destruct (d_exists st (join (ns ++ c :: more))) eqn:X; auto. exfalso.
  apply d_exists_iff in X.
  assert (Hp : Forall pwf (ns ++ c :: more)).
  { eapply Forall_impl; [|exact Hn]. intros a Ha. apply name_ok_pwf in Ha. tauto. }
  destruct (ns ++ c :: more) as [|x y] eqn:E; [destruct ns; discriminate|].
  inversion Hp as [|? ? Hx Hy]; subst.
  destruct (join_first_pwf x y Hx) as [F N].
  rewrite resolve_nonempty in X by auto. rewrite F in X.
  rewrite ptoks_join in X by (constructor; auto). rewrite <- E in X.
  pose proof Hn as Hn0. rewrite <- E in Hn0. apply Forall_app in Hn0 as [Hn1 Hn2].
  rewrite walk_descend in X by (eauto; discriminate).
  inversion Hn2 as [|? ? Hc _]; subst. destruct (name_ok_pwf c Hc) as (_ & D1 & D2).
  rewrite walk_cons in X. unfold wstep in X. rewrite D1, D2 in X.
  unfold sget in X. rewrite Gn in X. simpl in X. destruct more; exact X.
Qed.

(* mkdir of a name that does not exist in a real directory *)
Lemma mkdir_names st ns c es :
  names_ok (ns ++ [c]) -> get (root st) (cwd st ++ ns) = Some (NDir es) ->
  get (root st) ((cwd st ++ ns) ++ [c]) = None ->
  k_mkdir st (join (ns ++ [c])) = (set_root st (upd (root st) ((cwd st ++ ns) ++ [c]) (Some (NDir []))), None).
Proof.
  intros Hn G Gn. unfold k_mkdir, k_mknode.
  rewrite (resolve_names st false ns c (cwd st ++ ns)); eauto; [|discriminate].
  unfold sget. rewrite Gn. simpl. unfold parent_is_dir, sget. rewrite G. reflexivity.
Qed.

Lemma mkdir_names_exists st ns c es :
  names_ok (ns ++ [c]) -> get (root st) ((cwd st ++ ns) ++ [c]) = Some (NDir es) ->
  exists e, k_mkdir st (join (ns ++ [c])) = (st, Some e).
Proof.
  intros Hn G. unfold k_mkdir, k_mknode.
  destruct (get_below_dir (root st) (cwd st ++ ns) c [] _ G) as [es0 G0].
  rewrite (resolve_names st false ns c (cwd st ++ ns)); eauto; [|discriminate].
  unfold sget. rewrite G. simpl. eauto.
Qed.

Lemma create_chain rest : forall st names es fuel,
  Forall plain_name (names ++ rest) -> names ++ rest <> [] ->
  get (root st) (cwd st ++ names) = Some (NDir es) ->
  match rest with [] => True | c :: _ => get (root st) ((cwd st ++ names) ++ [c]) = None end ->
  (length rest < fuel)%nat ->
  d_create fuel st (join (names ++ rest)) = (set_root st (add_chain (root st) (cwd st ++ names) rest), true).
Proof.
  induction rest as [|c rest' IH] using rev_ind; intros st names es fuel Hp Hne G Hfirst Hf.
  - (* everything exists already *)
    rewrite app_nil_r in *. cbn [add_chain]. rewrite set_root_root.
    destruct fuel as [|f]; [simpl in Hf; lia|]. cbn [d_create].
    destruct (@exists_last _ names Hne) as (ns & c & ->).
    pose proof (plain_names_ok _ Hp) as Hn. rewrite app_assoc in G.
    assert (C : negb (str_eqb (getDirectoryName (join (ns ++ [c]))) DOT1) && nonempty (getDirectoryName (join (ns ++ [c]))) &&
                negb (d_exists st (getDirectoryName (join (ns ++ [c])))) = false).
    { apply Forall_app in Hp as [Hp1 Hp2]. inversion Hp2 as [|? ? [_ Fc] _]; subst.
      destruct ns as [|n0 ns'] using rev_ind.
      - simpl app. cbn [join]. rewrite dirname_single by auto. reflexivity.
      - clear IHns'. rewrite dirname_join by (auto; destruct ns'; discriminate).
        destruct (get_below_dir (root st) (cwd st ++ ns' ++ [n0]) c [] _ G) as [es0 G0].
        rewrite app_assoc in G0.
        rewrite (exists_names st ns' n0 es0); [rewrite andb_false_r; reflexivity| |exact G0].
        apply Forall_app in Hn as [Hn _]. exact Hn. }
    rewrite C. destruct (mkdir_names_exists st ns c es Hn G) as [e E]. rewrite E.
    rewrite (exists_names st ns c es Hn G). reflexivity.
  - (* the last name c is created after the chain rest' *)
    destruct fuel as [|f]; [lia|]. rewrite app_length in Hf. simpl in Hf.
    rewrite app_assoc in *. set (all := names ++ rest') in *.
    pose proof (plain_names_ok _ Hp) as Hn.
    pose proof Hp as Hp0. apply Forall_app in Hp0 as [Hpall Hpc]. inversion Hpc as [|? ? [_ Fc] _]; subst.
    cbn [d_create].
    destruct all as [|a0 all0] eqn:EA.
    + (* a single name in the current directory *)
      apply app_eq_nil in EA as [-> ->]. simpl app in *. cbn [join]. rewrite dirname_single by auto.
      rewrite str_eqb_refl. cbn [negb andb].
      rewrite app_nil_r in *.
      pose proof (mkdir_names st [] c es) as M. simpl app in M. cbn [join] in M. rewrite app_nil_r in M.
      rewrite M by auto. reflexivity.
    + rewrite <- EA in *. assert (Nall : all <> []) by (rewrite EA; discriminate).
      rewrite dirname_join by auto.
      assert (ER : rest' = [] \/ rest' <> []) by (destruct rest'; [left; reflexivity|right; discriminate]).
      destruct ER as [ER|Nr].
      * (* the parent exists: one mkdir *)
        subst rest'. unfold all in *. rewrite app_nil_r in *.
        destruct (@exists_last _ names Nall) as (ns & n0 & ->).
        rewrite app_assoc in G.
        rewrite (exists_names st ns n0 es (plain_names_ok _ Hpall) G). rewrite andb_false_r.
        rewrite <- app_assoc in G.
        rewrite (mkdir_names st (ns ++ [n0]) c es) by auto. reflexivity.
      * (* the parent is missing: it is created first *)
        assert (X : d_exists st (join all) = false).
        { unfold all. clear IH. destruct rest' as [|r0 rest0]; [contradiction|].
          eapply not_exists_names; eauto. apply plain_names_ok. exact Hpall. }
        rewrite X.
        assert (D : negb (str_eqb (join all) DOT1) && nonempty (join all) = true).
        { apply andb_true_iff. split.
          - apply negb_true_iff. apply str_eqb_neq. intro E.
            destruct (@exists_last _ all Nall) as (l0 & z & E0). rewrite E0 in E, Hpall.
            apply Forall_app in Hpall as [_ Hz]. inversion Hz as [|? ? [Hz1 Hz2] _]; subst.
            destruct l0 as [|l1 l0'].
            + simpl in E. subst z. discriminate.
            + rewrite join_snoc in E by discriminate.
              assert (L : In 47 (join (l1 :: l0') ++ 47 :: z)) by (apply in_or_app; right; left; reflexivity).
              rewrite E in L. simpl in L. destruct L as [L|[]]. discriminate.
          - destruct (join all) eqn:J; auto. exfalso.
            destruct all as [|x y]; [contradiction|]. inversion Hpall as [|? ? [Hx1 Hx2] _]; subst.
            destruct (join_first_pwf x y) as [_ N]; [apply name_ok_pwf in Hx1; tauto|]. contradiction. }
        rewrite D. cbn [negb andb].
        assert (Hfirst' : match rest' with [] => True | c0 :: _ => get (root st) ((cwd st ++ names) ++ [c0]) = None end).
        { clear - Hfirst. destruct rest'; [exact I|exact Hfirst]. }
        unfold all. rewrite (IH st names es f Hpall) by (auto; lia). cbn [negb].
        set (st1 := set_root st (add_chain (root st) (cwd st ++ names) rest')).
        assert (G1 : get (root st1) (cwd st1 ++ names ++ rest') = Some (NDir [])).
        { unfold st1. cbn [root cwd set_root]. rewrite app_assoc. eapply add_chain_end; eauto. }
        assert (Gn1 : get (root st1) ((cwd st1 ++ names ++ rest') ++ [c]) = None).
        { rewrite get_app, G1. reflexivity. }
        rewrite (mkdir_names st1 (names ++ rest') c [] Hn G1 Gn1).
        unfold st1. rewrite set_root_twice. cbn [root cwd set_root]. rewrite add_chain_snoc. rewrite !app_assoc. reflexivity.
Qed.

(* Directory::create of a text of plain names: `names` lead from the current directory through real
   directories, the first of `rest` does not exist there: true, and exactly the chain of new empty
   directories has been added (nothing when rest is empty) *)
Lemma create_succeeds_l st names rest es :
  Forall plain_name (names ++ rest) -> names ++ rest <> [] ->
  get (root st) (cwd st ++ names) = Some (NDir es) ->
  match rest with [] => True | c :: _ => get (root st) ((cwd st ++ names) ++ [c]) = None end ->
  d_create (create_fuel (join (names ++ rest))) st (join (names ++ rest))
  = (set_root st (add_chain (root st) (cwd st ++ names) rest), true).
Proof.
  intros Hp Hne G Hfirst. eapply create_chain; eauto.
  unfold create_fuel.
  assert (L : forall l : list str, Forall plain_name l -> (length l <= length (join l))%nat).
  { induction l as [|a l IHl]; intro H; [simpl; lia|]. inversion H as [|? ? [Ha _] Hl]; subst.
    destruct l as [|b l'].
    - simpl. destruct a; [discriminate|]. simpl. lia.
    - change (join (a :: b :: l')) with (a ++ 47 :: join (b :: l')). rewrite app_length. simpl length.
      specialize (IHl Hl). simpl length in IHl. lia. }
  specialize (L (names ++ rest) Hp). rewrite app_length in L. lia.
Qed.
