(* Laws of the tree primitives lookup / set_entry / get / upd / sget of FsSpec. *)
From Coq Require Import ZArith List Bool Lia.
From Path Require Import PathSpec PathProofs FsSpec.
Import ListNotations.
Local Open Scope Z_scope.

Lemma str_eqb_sym a b : str_eqb a b = str_eqb b a.
Proof.
  destruct (str_eqb a b) eqn:E.
  - apply str_eqb_eq in E. subst. symmetry. apply str_eqb_refl.
  - symmetry. apply str_eqb_neq. apply str_eqb_neq in E. congruence.
Qed.

(* ---- one directory ---------------------------------------------------------------------------- *)

Lemma lookup_set_same es c x : lookup (set_entry es c (Some x)) c = Some x.
Proof.
  induction es as [|[k w] t IH]; simpl.
  - rewrite str_eqb_refl. reflexivity.
  - destruct (str_eqb k c) eqn:E; simpl; rewrite E; auto.
Qed.

Lemma lookup_set_other es c v k : str_eqb c k = false -> lookup (set_entry es c v) k = lookup es k.
Proof.
  intro N. induction es as [|[k0 w] t IH]; simpl.
  - destruct v; simpl; [rewrite N|]; reflexivity.
  - destruct (str_eqb k0 c) eqn:E.
    + apply str_eqb_eq in E. subst k0. rewrite N. destruct v; simpl; [rewrite N|]; reflexivity.
    + simpl. destruct (str_eqb k0 k); auto.
Qed.

Lemma set_set es c x v : set_entry (set_entry es c (Some x)) c v = set_entry es c v.
Proof.
  induction es as [|[k w] t IH]; simpl.
  - rewrite str_eqb_refl. destruct v; reflexivity.
  - destruct (str_eqb k c) eqn:E; simpl; rewrite E; [reflexivity|]. rewrite IH. reflexivity.
Qed.

Lemma set_same es c x : lookup es c = Some x -> set_entry es c (Some x) = es.
Proof.
  induction es as [|[k w] t IH]; simpl; [discriminate|].
  destruct (str_eqb k c) eqn:E; intro H.
  - inversion H; subst. reflexivity.
  - rewrite IH by auto. reflexivity.
Qed.

Lemma set_none_absent es c : lookup es c = None -> set_entry es c None = es.
Proof.
  induction es as [|[k w] t IH]; simpl; auto.
  destruct (str_eqb k c) eqn:E; intro H; [discriminate|]. rewrite IH by auto. reflexivity.
Qed.

Lemma lookup_none_not_in es c : lookup es c = None -> existsb (str_eqb c) (map fst es) = false.
Proof.
  induction es as [|[k w] t IH]; simpl; auto.
  destruct (str_eqb k c) eqn:E; intro H; [discriminate|]. rewrite str_eqb_sym, E. simpl. auto.
Qed.

Lemma not_in_lookup_none es c : existsb (str_eqb c) (map fst es) = false -> lookup es c = None.
Proof.
  induction es as [|[k w] t IH]; simpl; auto. intro H. apply orb_false_iff in H as [H1 H2].
  rewrite str_eqb_sym, H1. auto.
Qed.

Lemma lookup_set_none_nodup es c :
  names_nodup (map fst es) = true -> lookup (set_entry es c None) c = None.
Proof.
  induction es as [|[k w] t IH]; simpl; auto. intro H. apply andb_true_iff in H as [H1 H2].
  destruct (str_eqb k c) eqn:E.
  - apply str_eqb_eq in E. subst k. apply negb_true_iff in H1. apply not_in_lookup_none. exact H1.
  - simpl. rewrite E. auto.
Qed.

(* ---- the whole tree --------------------------------------------------------------------------- *)

Lemma upd_nil r v : upd r [] v = r.
Proof. destruct r; reflexivity. Qed.

Lemma upd_one es c v : upd (NDir es) [c] v = NDir (set_entry es c v).
Proof. reflexivity. Qed.

Lemma upd_deep es c d p v :
  upd (NDir es) (c :: d :: p) v =
  match lookup es c with
  | Some ch => NDir (set_entry es c (Some (upd ch (d :: p) v)))
  | None => NDir es
  end.
Proof. reflexivity. Qed.

Lemma upd_nondir r c p v : (forall es, r <> NDir es) -> upd r (c :: p) v = r.
Proof. intro H. destruct r; try reflexivity. exfalso. eapply H. reflexivity. Qed.

Lemma get_cons es c p : get (NDir es) (c :: p) = match lookup es c with Some ch => get ch p | None => None end.
Proof. reflexivity. Qed.

Lemma get_app r a b : get r (a ++ b) = match get r a with Some x => get x b | None => None end.
Proof.
  revert r; induction a as [|c a IH]; intro r; simpl; auto.
  destruct r; auto. destruct (lookup entries c); auto.
Qed.

(* U1: writing back what is there changes nothing *)
Lemma upd_same r p A : get r p = Some A -> upd r p (Some A) = r.
Proof.
  revert r; induction p as [|c p IH]; intros r H.
  - apply upd_nil.
  - destruct r as [|es|]; simpl in H; try discriminate.
    destruct (lookup es c) as [ch|] eqn:L; [|discriminate].
    destruct p as [|d p].
    + simpl in H. inversion H; subst. rewrite upd_one, set_same by auto. reflexivity.
    + rewrite upd_deep, L, IH by auto. rewrite set_same by auto. reflexivity.
Qed.

(* U2: a change below a node that was just set is a change of that node *)
Lemma upd_upd_below r p A q v :
  p <> [] -> q <> [] -> upd (upd r p (Some A)) (p ++ q) v = upd r p (Some (upd A q v)).
Proof.
  revert r; induction p as [|c p IH]; intros r Hp Hq; [contradiction|].
  destruct r as [f|es|t]; try reflexivity.
  destruct p as [|d p].
  - rewrite !upd_one. destruct q as [|e q]; [contradiction|].
    change ([c] ++ e :: q) with (c :: e :: q). rewrite upd_deep, lookup_set_same, set_set. reflexivity.
  - change ((c :: d :: p) ++ q) with (c :: (d :: p) ++ q).
    rewrite !upd_deep. destruct (lookup es c) as [ch|] eqn:L.
    + change ((d :: p) ++ q) with (d :: p ++ q). rewrite upd_deep, lookup_set_same, set_set.
      change (d :: p ++ q) with ((d :: p) ++ q). rewrite IH by (auto; discriminate). reflexivity.
    + change ((d :: p) ++ q) with (d :: p ++ q). rewrite upd_deep, L. reflexivity.
Qed.

(* U3: the second change at the same place wins *)
Lemma upd_upd_same r p A v : upd (upd r p (Some A)) p v = upd r p v.
Proof.
  revert r; induction p as [|c p IH]; intro r.
  - rewrite !upd_nil. reflexivity.
  - destruct r as [f|es|t]; try reflexivity.
    destruct p as [|d p].
    + rewrite !upd_one, set_set. reflexivity.
    + rewrite !upd_deep. destruct (lookup es c) as [ch|] eqn:L.
      * rewrite upd_deep, lookup_set_same, set_set, IH. reflexivity.
      * rewrite upd_deep, L. reflexivity.
Qed.

(* U4: deleting what is not there changes nothing *)
Lemma upd_none_absent r p : get r p = None -> upd r p None = r.
Proof.
  revert r; induction p as [|c p IH]; intros r H; [discriminate|].
  destruct r as [f|es|t]; try reflexivity. rewrite get_cons in H.
  destruct p as [|d p].
  - rewrite upd_one. destruct (lookup es c) eqn:L; [discriminate|]. rewrite set_none_absent by auto. reflexivity.
  - rewrite upd_deep. destruct (lookup es c) as [ch|] eqn:L; [|reflexivity].
    rewrite IH by auto. rewrite set_same by auto. reflexivity.
Qed.

(* G1: what was put below an existing directory is found there *)
Lemma get_upd_here r d c v q es :
  get r d = Some (NDir es) ->
  get (upd r (d ++ [c]) (Some v)) ((d ++ [c]) ++ q) = get v q.
Proof.
  revert r; induction d as [|a d IH]; intros r H.
  - simpl in H. inversion H; subst. simpl app. rewrite upd_one, get_cons, lookup_set_same. reflexivity.
  - destruct r as [f|es0|t]; simpl in H; try discriminate.
    destruct (lookup es0 a) as [ch|] eqn:L; [|discriminate].
    change ((a :: d) ++ [c]) with (a :: (d ++ [c])).
    pose proof (IH ch H) as IH'.
    destruct (d ++ [c]) as [|x y] eqn:E; [destruct d; discriminate|].
    rewrite upd_deep, L. change ((a :: x :: y) ++ q) with (a :: (x :: y) ++ q).
    rewrite get_cons, lookup_set_same. exact IH'.
Qed.

Lemma is_prefix_refl p : is_prefix p p = true.
Proof. induction p; simpl; auto. rewrite str_eqb_refl. auto. Qed.

Lemma is_prefix_app p q : is_prefix p (p ++ q) = true.
Proof. induction p; simpl; auto. rewrite str_eqb_refl. auto. Qed.

Lemma is_prefix_true p q : is_prefix p q = true -> exists t, q = p ++ t.
Proof.
  revert q; induction p as [|a p IH]; intros q H; [exists q; reflexivity|].
  destruct q as [|b q]; simpl in H; [discriminate|]. apply andb_true_iff in H as [H1 H2].
  apply str_eqb_eq in H1. subst b. destruct (IH q H2) as [t ->]. exists t. reflexivity.
Qed.

Lemma shallow_upd r p v : p <> [] -> shallow (upd r p v) = shallow r.
Proof.
  intro H. destruct p as [|c p]; [contradiction|]. destruct r as [f|es|t]; try reflexivity.
  destruct p as [|d p]; [reflexivity|]. rewrite upd_deep. destruct (lookup es c); reflexivity.
Qed.

(* G2: the kind of everything that is not at or below p is unchanged *)
Lemma sget_upd_other r p v q : p <> [] -> is_prefix p q = false -> sget (upd r p v) q = sget r q.
Proof.
  unfold sget. revert r q; induction p as [|a p IH]; intros r q Hp H; [contradiction|].
  destruct q as [|b q].
  - cbn [get option_map]. rewrite shallow_upd by discriminate. reflexivity.
  - destruct r as [f|es|t]; try reflexivity. simpl in H.
    destruct p as [|d p].
    + rewrite andb_true_r in H. rewrite upd_one, !get_cons, lookup_set_other by auto. reflexivity.
    + rewrite upd_deep. destruct (lookup es a) as [ch|] eqn:L; [|reflexivity].
      rewrite !get_cons. destruct (str_eqb a b) eqn:E.
      * apply str_eqb_eq in E. subst b. rewrite lookup_set_same, L. apply IH; [discriminate|]. exact H.
      * rewrite lookup_set_other by auto. reflexivity.
Qed.

(* G3: everything that is neither at/below p nor above p is unchanged, children included *)
Lemma get_upd_unrelated r p v q :
  is_prefix p q = false -> is_prefix q p = false -> get (upd r p v) q = get r q.
Proof.
  revert r q; induction p as [|a p IH]; intros r q H1 H2; [discriminate|].
  destruct q as [|b q]; [discriminate|].
  destruct r as [f|es|t]; try reflexivity. simpl in H1, H2.
  destruct p as [|d p].
  - rewrite andb_true_r in H1. rewrite upd_one, !get_cons, lookup_set_other by auto. reflexivity.
  - rewrite upd_deep. destruct (lookup es a) as [ch|] eqn:L; [|reflexivity].
    rewrite !get_cons. destruct (str_eqb a b) eqn:E.
    + apply str_eqb_eq in E. subst b. rewrite lookup_set_same, L.
      rewrite str_eqb_refl in H2. apply IH; auto.
    + rewrite lookup_set_other by auto. reflexivity.
Qed.

Lemma get_some_prefix r a b x : get r (a ++ b) = Some x -> exists y, get r a = Some y.
Proof. rewrite get_app. destruct (get r a); [eauto|discriminate]. Qed.

Lemma get_below_dir r a c b x : get r (a ++ c :: b) = Some x -> exists es, get r a = Some (NDir es).
Proof.
  rewrite get_app. destruct (get r a) as [y|]; [|discriminate].
  destruct y; simpl; try discriminate. eauto.
Qed.

Lemma sget_some_get r p k : sget r p = Some k -> exists n, get r p = Some n /\ shallow n = k.
Proof. unfold sget. destruct (get r p); simpl; [|discriminate]. intro H. inversion H. eauto. Qed.

Lemma sget_dir_get r p : sget r p = Some SDir -> exists es, get r p = Some (NDir es).
Proof.
  intro H. apply sget_some_get in H as (n & G & S). destruct n; try discriminate. eauto.
Qed.

Lemma sget_none_get r p : sget r p = None -> get r p = None.
Proof. unfold sget. destruct (get r p); [discriminate|auto]. Qed.

(* ---- well-formedness ---------------------------------------------------------------------------- *)

Lemma wf_dir es :
  wf_node (NDir es) = forallb (fun kv => name_ok (fst kv)) es && names_nodup (map fst es) &&
                      forallb (fun kv => wf_node (snd kv)) es.
Proof.
  simpl. f_equal. induction es as [|[k ch] t IH]; simpl; auto. rewrite IH. reflexivity.
Qed.

Lemma wf_lookup es c ch : wf_node (NDir es) = true -> lookup es c = Some ch -> wf_node ch = true /\ name_ok c = true.
Proof.
  rewrite wf_dir. intros H L. apply andb_true_iff in H as [H H3]. apply andb_true_iff in H as [H1 _].
  induction es as [|[k w] t IH]; simpl in *; [discriminate|].
  apply andb_true_iff in H1 as [A1 A2]. apply andb_true_iff in H3 as [B1 B2].
  destruct (str_eqb k c) eqn:E.
  - inversion L; subst. apply str_eqb_eq in E. subst. auto.
  - auto.
Qed.

Lemma wf_get r p x : wf_node r = true -> get r p = Some x -> wf_node x = true.
Proof.
  revert r; induction p as [|c p IH]; intros r W H.
  - inversion H; subst. auto.
  - destruct r as [f|es|t]; simpl in H; try discriminate.
    destruct (lookup es c) as [ch|] eqn:L; [|discriminate].
    eapply IH; [|exact H]. eapply wf_lookup; eauto.
Qed.

Lemma in_keys_set es c v k :
  existsb (str_eqb k) (map fst (set_entry es c v)) = true ->
  existsb (str_eqb k) (map fst es) = true \/ str_eqb k c = true.
Proof.
  induction es as [|[k0 w] t IH]; simpl.
  - destruct v; simpl; [|discriminate]. rewrite orb_false_r. auto.
  - destruct (str_eqb k0 c) eqn:E.
    + destruct v; simpl.
      * intro H. left. exact H.
      * intro H. left. rewrite H. apply orb_true_r.
    + simpl. intro H. apply orb_true_iff in H as [H|H].
      * left. rewrite H. reflexivity.
      * destruct (IH H) as [H'|H']; [left; rewrite H'; apply orb_true_r|right; exact H'].
Qed.

Lemma nodup_set es c v : names_nodup (map fst es) = true -> names_nodup (map fst (set_entry es c v)) = true.
Proof.
  induction es as [|[k w] t IH]; simpl; intro H.
  - destruct v; reflexivity.
  - apply andb_true_iff in H as [H1 H2]. destruct (str_eqb k c) eqn:E.
    + destruct v; simpl; [rewrite H1, H2; reflexivity|exact H2].
    + simpl. rewrite IH by auto. rewrite andb_true_r. apply negb_true_iff.
      destruct (existsb (str_eqb k) (map fst (set_entry t c v))) eqn:X; auto.
      apply in_keys_set in X as [X|X].
      * apply negb_true_iff in H1. congruence.
      * congruence.
Qed.

Lemma names_ok_set es c v :
  forallb (fun kv => name_ok (fst kv)) es = true ->
  (v <> None -> lookup es c = None -> name_ok c = true) ->
  forallb (fun kv : str * node => name_ok (fst kv)) (set_entry es c v) = true.
Proof.
  induction es as [|[k w] t IH]; simpl; intros H N.
  - destruct v; simpl; auto. rewrite N by (auto; discriminate). reflexivity.
  - apply andb_true_iff in H as [H1 H2]. destruct (str_eqb k c) eqn:E.
    + destruct v; simpl; [rewrite H1, H2; reflexivity|exact H2].
    + simpl. rewrite H1. apply IH; auto.
Qed.

Lemma children_wf_set es c v :
  forallb (fun kv => wf_node (snd kv)) es = true ->
  (forall x, v = Some x -> wf_node x = true) ->
  forallb (fun kv : str * node => wf_node (snd kv)) (set_entry es c v) = true.
Proof.
  induction es as [|[k w] t IH]; simpl; intros H N.
  - destruct v; simpl; auto. rewrite (N n) by auto. reflexivity.
  - apply andb_true_iff in H as [H1 H2]. destruct (str_eqb k c) eqn:E.
    + destruct v; simpl; [rewrite (N n), H2 by auto; reflexivity|exact H2].
    + simpl. rewrite H1. apply IH; auto.
Qed.

Lemma wf_set es c v :
  wf_node (NDir es) = true ->
  (forall x, v = Some x -> wf_node x = true) ->
  (v <> None -> lookup es c = None -> name_ok c = true) ->
  wf_node (NDir (set_entry es c v)) = true.
Proof.
  rewrite !wf_dir. intros H Hv Hc. apply andb_true_iff in H as [H H3]. apply andb_true_iff in H as [H1 H2].
  rewrite names_ok_set, nodup_set, children_wf_set by auto. reflexivity.
Qed.

(* a change keeps the tree well-formed when the new node is, and a new name is a proper name *)
Lemma wf_upd r p v :
  wf_node r = true ->
  (forall x, v = Some x -> wf_node x = true) ->
  (v <> None -> get r p = None -> name_ok (last p []) = true) ->
  wf_node (upd r p v) = true.
Proof.
  revert r; induction p as [|c p IH]; intros r W Hv Hc.
  - rewrite upd_nil. auto.
  - destruct r as [f|es|t]; try exact W.
    destruct p as [|d p].
    + rewrite upd_one. apply wf_set; auto. intros V L. apply Hc; auto. rewrite get_cons, L. reflexivity.
    + rewrite upd_deep. destruct (lookup es c) as [ch|] eqn:L; [|exact W].
      destruct (wf_lookup es c ch W L) as [Wch Nc].
      apply wf_set; [exact W| |].
      * intros x X. inversion X; subst. apply IH; auto.
        intros V G. change (last (c :: d :: p) []) with (last (d :: p) []) in Hc. apply Hc; auto.
        rewrite get_cons, L. exact G.
      * intros _ L'. congruence.
Qed.

(* G4: in a well-formed tree a deleted path is gone *)
Lemma get_upd_deleted r p q : wf_node r = true -> p <> [] -> get (upd r p None) (p ++ q) = None.
Proof.
  revert r; induction p as [|c p IH]; intros r W Hp; [contradiction|].
  destruct r as [f|es|t]; try reflexivity.
  change ((c :: p) ++ q) with (c :: p ++ q).
  destruct p as [|d p].
  - rewrite upd_one, get_cons. rewrite wf_dir in W. apply andb_true_iff in W as [W _].
    apply andb_true_iff in W as [_ W]. rewrite lookup_set_none_nodup by auto. reflexivity.
  - rewrite upd_deep. destruct (lookup es c) as [ch|] eqn:L.
    + rewrite get_cons, lookup_set_same. apply IH; [|discriminate]. eapply wf_lookup; eauto.
    + rewrite get_cons, L. reflexivity.
Qed.

(* ---- a deletion commutes with a change at an unrelated place ---------------------------------------- *)

(* replacing / deleting the entry a commutes with any change of another entry b, unless a is appended *)
Lemma set_entry_comm es a b v w :
  str_eqb a b = false -> (v = None \/ exists y, lookup es a = Some y) ->
  set_entry (set_entry es b w) a v = set_entry (set_entry es a v) b w.
Proof.
  intros N C. induction es as [|[k u] t IH].
  - destruct C as [->|[y Y]]; [|discriminate]. simpl.
    destruct w; simpl; [rewrite str_eqb_sym, N|]; reflexivity.
  - simpl. destruct (str_eqb k b) eqn:Eb; destruct (str_eqb k a) eqn:Ea.
    + apply str_eqb_eq in Eb. apply str_eqb_eq in Ea. subst. rewrite str_eqb_refl in N. discriminate.
    + destruct w; simpl; rewrite ?Ea, ?Eb; reflexivity.
    + simpl. rewrite Ea. destruct v; simpl; rewrite ?Eb; reflexivity.
    + simpl. rewrite Ea, Eb. rewrite IH; [reflexivity|].
      destruct C as [C|[y Y]]; [left; exact C|right]. simpl in Y. rewrite Ea in Y. eauto.
Qed.

(* the entry an update of (NDir es) at c :: p writes *)
Definition child_after (es : list (str * node)) (c : str) (p : cpath) (v : option node) : option node :=
  match p with
  | [] => v
  | _ => match lookup es c with Some ch => Some (upd ch p v) | None => None end
  end.

Lemma upd_dir es c p v : upd (NDir es) (c :: p) v = NDir (set_entry es c (child_after es c p v)).
Proof.
  destruct p as [|d p]; [reflexivity|]. rewrite upd_deep. unfold child_after.
  destruct (lookup es c) eqn:L; [reflexivity|]. rewrite set_none_absent by auto. reflexivity.
Qed.

Lemma upd_none_comm p : forall r q w,
  is_prefix p q = false -> is_prefix q p = false ->
  upd (upd r q w) p None = upd (upd r p None) q w.
Proof.
  induction p as [|a p IH]; intros r q w H1 H2; [discriminate|].
  destruct q as [|b q]; [discriminate|].
  destruct r as [f|es|t]; try reflexivity.
  rewrite (upd_dir es b q w), (upd_dir es a p None), !upd_dir.
  simpl in H1, H2. destruct (str_eqb a b) eqn:E.
  - apply str_eqb_eq in E. subst b. rewrite str_eqb_refl in H2. simpl in H1, H2.
    assert (Hp : p <> []) by (intros ->; destruct q; discriminate).
    assert (Hq : q <> []) by (intros ->; destruct p; discriminate).
    unfold child_after. destruct p as [|p0 p']; [contradiction|]. destruct q as [|q0 q']; [contradiction|].
    destruct (lookup es a) as [ch|] eqn:L.
    + rewrite !lookup_set_same, !set_set. rewrite (IH ch (q0 :: q') w) by auto. reflexivity.
    + rewrite !set_none_absent by auto. rewrite L. rewrite !set_none_absent by auto. reflexivity.
  - assert (E' : str_eqb b a = false) by (rewrite str_eqb_sym; exact E).
    assert (C1 : child_after (set_entry es b (child_after es b q w)) a p None = child_after es a p None).
    { unfold child_after. destruct p; auto. rewrite lookup_set_other by auto. reflexivity. }
    assert (C2 : child_after (set_entry es a (child_after es a p None)) b q w = child_after es b q w).
    { unfold child_after at 1 3. destruct q; auto. rewrite lookup_set_other by auto. reflexivity. }
    rewrite C1, C2. f_equal. apply set_entry_comm; auto.
    unfold child_after. destruct p; auto. destruct (lookup es a); eauto.
Qed.
