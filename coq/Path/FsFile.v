(* An open read/write File handle refines the byte sequence with a cursor (FsSpec.buf). *)
From Coq Require Import ZArith List Bool Lia.
From Path Require Import PathSpec PathModel PathProofs FsSpec FsModel FsTree.
Import ListNotations.
Local Open Scope Z_scope.

Lemma hfind_hset_same hs h v : hfind (hset hs h v) h = v.
Proof.
  unfold hset. destruct v as [f|]; simpl.
  - rewrite Nat.eqb_refl. reflexivity.
  - induction hs as [|[k f] t IH]; simpl; auto.
    destruct (Nat.eqb k h) eqn:E; simpl; auto. rewrite E. exact IH.
Qed.

Lemma hfind_hset_other hs h v k : k <> h -> hfind (hset hs h v) k = hfind hs k.
Proof.
  intro N. unfold hset.
  assert (F : hfind (filter (fun kf : nat * fd => negb (Nat.eqb (fst kf) h)) hs) k = hfind hs k).
  { induction hs as [|[k0 f] t IH]; simpl; auto.
    destruct (Nat.eqb k0 h) eqn:E; simpl.
    - apply Nat.eqb_eq in E. subst k0. destruct (Nat.eqb h k) eqn:E2; auto.
      apply Nat.eqb_eq in E2. congruence.
    - destruct (Nat.eqb k0 k); auto. }
  destruct v as [f|]; simpl; auto.
  destruct (Nat.eqb h k) eqn:E; auto. apply Nat.eqb_eq in E. congruence.
Qed.

Lemma get_upd_replace r p x y : p <> [] -> get r p = Some x -> get (upd r p (Some y)) p = Some y.
Proof.
  revert r; induction p as [|c p IH]; intros r Hp H; [contradiction|].
  destruct r as [f|es|t]; simpl in H; try discriminate.
  destruct (lookup es c) as [ch|] eqn:L; [|discriminate].
  destruct p as [|d p].
  - rewrite upd_one, get_cons, lookup_set_same. reflexivity.
  - rewrite upd_deep, L, get_cons, lookup_set_same. apply IH; [discriminate|exact H].
Qed.

(* the handle h is open for reading and writing on a regular file whose state is b *)
Definition rw_file (st : state) (h : nat) (b : buf) : Prop :=
  exists f, hfind (handles st) h = Some f /\ fd_dir f = false /\ fd_rd f = true /\ fd_wr f = true /\
            fd_path f <> [] /\ get (root st) (fd_path f) = Some (NFile (b_data b)) /\ fd_pos f = b_pos b.

Definition handle_path (st : state) (h : nat) : cpath :=
  match hfind (handles st) h with Some f => fd_path f | None => [] end.

(* what a handle operation may change: the file of the handle and the handle itself *)
Definition frame (st st' : state) (h : nat) : Prop :=
  cwd st' = cwd st /\ handle_path st' h = handle_path st h /\
  (forall k, k <> h -> hfind (handles st') k = hfind (handles st) k) /\
  (forall q, is_prefix (handle_path st h) q = false -> is_prefix q (handle_path st h) = false ->
             get (root st') q = get (root st) q) /\
  (forall q, is_prefix (handle_path st h) q = false -> sget (root st') q = sget (root st) q).

Lemma frame_refl st h : frame st st h.
Proof. repeat split; auto. Qed.

Lemma frame_trans a b c h : frame a b h -> frame b c h -> frame a c h.
Proof.
  intros (A1 & A2 & A3 & A4 & A5) (B1 & B2 & B3 & B4 & B5). repeat split.
  - congruence.
  - congruence.
  - intros k N. rewrite B3, A3; auto.
  - intros q H1 H2. rewrite B4, A4; auto; rewrite A2; auto.
  - intros q H1. rewrite B5, A5; auto; rewrite A2; auto.
Qed.

Lemma frame_set_handle st h f f' :
  hfind (handles st) h = Some f -> fd_path f' = fd_path f -> frame st (set_handle st h (Some f')) h.
Proof.
  intros H P. unfold frame, handle_path, set_handle. cbn [handles root cwd]. rewrite hfind_hset_same, H. repeat split; auto.
  intros k N. apply hfind_hset_other. auto.
Qed.

Lemma k_lseek_spec st f b off wh :
  get (root st) (fd_path f) = Some (NFile (b_data b)) -> fd_pos f = b_pos b ->
  let (f', z) := k_lseek st f off wh in
  let (b', z') := buf_seek b off wh in
  z = z' /\ fd_path f' = fd_path f /\ fd_rd f' = fd_rd f /\ fd_wr f' = fd_wr f /\ fd_dir f' = fd_dir f /\
  fd_pos f' = b_pos b'.
Proof.
  intros G P. unfold k_lseek, buf_seek, content_at. rewrite G, P.
  destruct (Z.of_nat match wh with O => O | S O => b_pos b | S (S _) => length (b_data b) end + off <? 0);
    simpl; repeat split; auto.
Qed.

Lemma rw_file_set_handle st h f f' b :
  fd_path f' = fd_path f -> fd_dir f' = false -> fd_rd f' = true -> fd_wr f' = true -> fd_path f <> [] ->
  get (root st) (fd_path f) = Some (NFile (b_data b)) -> fd_pos f' = b_pos b ->
  rw_file (set_handle st h (Some f')) h b.
Proof.
  intros P D R W N G Q. exists f'. unfold set_handle. cbn [handles root cwd]. rewrite hfind_hset_same, P. repeat split; auto.
Qed.

Lemma skipn_length_le {A} n (l : list A) : (length (skipn n l) <= length l)%nat.
Proof. rewrite skipn_length. lia. Qed.

(* File::size() gives the length and leaves the cursor where it was *)
Lemma f_size_spec st h b :
  rw_file st h b ->
  exists st', f_size st h = (st', buf_size b) /\ rw_file st' h b /\ frame st st' h.
Proof.
  intros (f & H & D & R & W & N & G & P). unfold f_size. rewrite H.
  pose proof (k_lseek_spec st f b 0 1 G P) as L1.
  destruct (k_lseek st f 0 1) as [f1 cur]. unfold buf_seek in L1. rewrite Z.add_0_r in L1.
  destruct (Z.of_nat (b_pos b) <? 0) eqn:C1; [apply Z.ltb_lt in C1; lia|].
  destruct L1 as (-> & P1 & R1 & W1 & D1 & Q1). simpl in Q1. rewrite C1.
  assert (G1 : get (root st) (fd_path f1) = Some (NFile (b_data b))) by (rewrite P1; auto).
  set (b1 := {| b_data := b_data b; b_pos := Z.to_nat (Z.of_nat (b_pos b)) |}).
  pose proof (k_lseek_spec st f1 b1 0 2 G1 Q1) as L2.
  destruct (k_lseek st f1 0 2) as [f2 size]. unfold buf_seek in L2. simpl b_data in L2. rewrite Z.add_0_r in L2.
  destruct (Z.of_nat (length (b_data b)) <? 0) eqn:C2; [apply Z.ltb_lt in C2; lia|].
  destruct L2 as (-> & P2 & R2 & W2 & D2 & Q2). simpl in Q2. rewrite C2.
  destruct (Z.of_nat (b_pos b) =? Z.of_nat (length (b_data b))) eqn:C3.
  - apply Z.eqb_eq in C3. eexists. split; [reflexivity|]. split.
    + eapply rw_file_set_handle with (f := f); try congruence. rewrite Q2. lia.
    + apply frame_set_handle with (f := f); congruence.
  - assert (G2 : get (root st) (fd_path f2) = Some (NFile (b_data b))) by (rewrite P2, P1; auto).
    set (b2 := {| b_data := b_data b; b_pos := Z.to_nat (Z.of_nat (length (b_data b))) |}).
    pose proof (k_lseek_spec st f2 b2 (Z.of_nat (b_pos b)) 0 G2 Q2) as L3.
    destruct (k_lseek st f2 (Z.of_nat (b_pos b)) 0) as [f3 back]. unfold buf_seek in L3. simpl in L3.
    destruct (Z.of_nat (b_pos b) <? 0) eqn:C4; [discriminate|].
    destruct L3 as (-> & P3 & R3 & W3 & D3 & Q3). simpl in Q3. rewrite C4.
    eexists. split; [reflexivity|]. split.
    + eapply rw_file_set_handle with (f := f); try congruence. rewrite Q3. lia.
    + apply frame_set_handle with (f := f); congruence.
Qed.

Lemma f_read_spec st h b n :
  rw_file st h b ->
  exists st', f_read st h n = (st', inl (snd (buf_read b n))) /\ rw_file st' h (fst (buf_read b n)) /\ frame st st' h.
Proof.
  intros (f & H & D & R & W & N & G & P). unfold f_read, k_read. rewrite H, D, R. simpl negb. cbv iota.
  unfold content_at. rewrite G, P. eexists. split; [reflexivity|]. split.
  - eapply rw_file_set_handle with (f := f); simpl; auto.
  - apply frame_set_handle with (f := f); auto.
Qed.

Lemma f_readAll_spec st h b :
  rw_file st h b ->
  exists st', f_readAll st h = (st', (true, snd (buf_read_all b))) /\ rw_file st' h (fst (buf_read_all b)) /\ frame st st' h.
Proof.
  intro H. unfold f_readAll. destruct H as (f0 & Hf0 & Df0 & Hrest). rewrite Hf0, Df0.
  assert (H : rw_file st h b) by (exists f0; tauto).
  destruct (f_size_spec st h b H) as (st1 & E1 & H1 & F1). rewrite E1.
  unfold buf_size. destruct (Z.of_nat (length (b_data b)) <? 0) eqn:C; [apply Z.ltb_lt in C; lia|].
  rewrite Nat2Z.id.
  destruct (f_read_spec st1 h b (length (b_data b)) H1) as (st2 & E2 & H2 & F2). rewrite E2.
  assert (X : buf_read b (length (b_data b)) = buf_read_all b).
  { unfold buf_read, buf_read_all. rewrite firstn_all2 by apply skipn_length_le. reflexivity. }
  rewrite X in *. eexists. split; [reflexivity|]. split; auto. eapply frame_trans; eauto.
Qed.

Lemma f_seek_spec st h b off wh :
  rw_file st h b ->
  exists st', f_seek st h off wh = (st', snd (buf_seek b off wh)) /\ rw_file st' h (fst (buf_seek b off wh)) /\ frame st st' h.
Proof.
  intros (f & H & D & R & W & N & G & P). unfold f_seek. rewrite H.
  pose proof (k_lseek_spec st f b off wh G P) as L.
  destruct (k_lseek st f off wh) as [f' z]. destruct (buf_seek b off wh) as [b' z'] eqn:E.
  destruct L as (-> & P1 & R1 & W1 & D1 & Q1). simpl.
  eexists. split; [reflexivity|]. split.
  - eapply rw_file_set_handle with (f := f); try congruence.
    unfold buf_seek in E. destruct (_ <? 0) in E; inversion E; subst; auto.
  - apply frame_set_handle with (f := f); auto.
Qed.

Lemma f_write_spec st h b d :
  rw_file st h b ->
  exists st', f_write st h d = (st', true) /\ rw_file st' h (buf_write b d) /\ frame st st' h.
Proof.
  intros (f & H & D & R & W & N & G & P). unfold f_write, k_write. rewrite H, D, W, G.
  cbn [orb negb]. rewrite Nat.eqb_refl.
  eexists. split; [reflexivity|]. split.
  - eexists. unfold set_handle, set_root. cbn [handles root cwd]. rewrite hfind_hset_same.
    split; [reflexivity|]. cbn [fd_dir fd_rd fd_wr fd_path fd_pos]. repeat split; auto.
    + erewrite get_upd_replace by eauto. unfold buf_write. cbn [b_data]. rewrite P. reflexivity.
    + rewrite P. reflexivity.
  - unfold frame, handle_path, set_handle, set_root. cbn [handles root cwd]. rewrite hfind_hset_same, H.
    cbn [fd_path]. repeat split; auto.
    + intros k Nk. apply hfind_hset_other. auto.
    + intros q H1 H2. apply get_upd_unrelated; auto.
    + intros q H1. apply sget_upd_other; auto.
Qed.

(* one operation: same answer, the handle keeps refining the stepped buffer *)
Lemma h_step_refines st h b o :
  rw_file st h b ->
  exists st', h_step st h o = (st', snd (buf_step b o)) /\ rw_file st' h (fst (buf_step b o)) /\ frame st st' h.
Proof.
  intro H. destruct o as [d|off wh| |n| |]; unfold h_step, buf_step.
  6: { unfold f_flush. destruct H as (f & Hf & Hr). rewrite Hf. exists st. split; [reflexivity|].
       split; [exists f; tauto|apply frame_refl]. }
  - destruct (f_write_spec st h b d H) as (st' & E & H' & F). rewrite E. eauto.
  - destruct (f_seek_spec st h b off wh H) as (st' & E & H' & F). rewrite E.
    destruct (buf_seek b off wh). eauto.
  - destruct (f_readAll_spec st h b H) as (st' & E & H' & F). rewrite E.
    destruct (buf_read_all b). eauto.
  - destruct (f_read_spec st h b n H) as (st' & E & H' & F). rewrite E.
    destruct (buf_read b n). eauto.
  - destruct (f_size_spec st h b H) as (st' & E & H' & F). rewrite E. simpl. eauto.
Qed.

(* any history *)
Lemma h_run_refines os : forall st h b,
  rw_file st h b ->
  exists st', h_run st h os = (st', snd (buf_run b os)) /\ rw_file st' h (fst (buf_run b os)) /\ frame st st' h.
Proof.
  induction os as [|o os IH]; intros st h b H.
  - exists st. simpl. split; auto. split; auto. apply frame_refl.
  - simpl. destruct (h_step_refines st h b o H) as (st1 & E1 & H1 & F1). rewrite E1.
    destruct (buf_step b o) as [b1 x] eqn:EB. simpl in *.
    destruct (IH st1 h b1 H1) as (st2 & E2 & H2 & F2). rewrite E2.
    destruct (buf_run b1 os) as [b2 xs]. simpl in *.
    exists st2. split; auto. split; auto. eapply frame_trans; eauto.
Qed.

(* ---- the byte sequence itself: what was written is what is there ----------------------------- *)

Lemma overwrite_nonempty data pos x d : overwrite data pos (x :: d) = overwrite_at data pos (x :: d).
Proof. reflexivity. Qed.

Lemma overwrite_length data pos d : d <> [] ->
  length (overwrite data pos d) = Nat.max (length data) (pos + length d).
Proof.
  destruct d as [|x d]; [contradiction|]. intros _. rewrite overwrite_nonempty.
  unfold overwrite_at. rewrite !app_length, firstn_length, repeat_length, skipn_length. lia.
Qed.

(* the bytes written are read back from the place they were written to *)
Lemma overwrite_read_back data pos d : firstn (length d) (skipn pos (overwrite data pos d)) = d.
Proof.
  destruct d as [|x d0]; [reflexivity|]. rewrite overwrite_nonempty. set (d := x :: d0).
  unfold overwrite_at.
  assert (L : length (firstn pos data ++ repeat 0 (pos - length data)) = pos).
  { rewrite app_length, firstn_length, repeat_length. lia. }
  rewrite app_assoc. rewrite skipn_app, L, Nat.sub_diag. simpl skipn at 2.
  rewrite skipn_all2 by lia. simpl. rewrite firstn_app, Nat.sub_diag. simpl.
  rewrite firstn_all, app_nil_r. reflexivity.
Qed.

(* bytes before the written range are unchanged *)
Lemma overwrite_before data pos d i : (i < pos)%nat -> (i < length data)%nat ->
  nth i (overwrite data pos d) 0 = nth i data 0.
Proof.
  intros H1 H2. destruct d as [|x d0]; [reflexivity|]. rewrite overwrite_nonempty. set (d := x :: d0).
  unfold overwrite_at. rewrite app_nth1 by (rewrite firstn_length; lia).
  rewrite <- (firstn_skipn pos data) at 2. rewrite app_nth1 by (rewrite firstn_length; lia). reflexivity.
Qed.

(* bytes behind the written range are unchanged *)
Lemma overwrite_after data pos d i : (pos + length d <= i)%nat ->
  nth i (overwrite data pos d) 0 = nth i data 0.
Proof.
  destruct d as [|x d0]; [reflexivity|]. rewrite overwrite_nonempty. set (d := x :: d0).
  intro H. unfold overwrite_at.
  assert (L : length (firstn pos data ++ repeat 0 (pos - length data)) = pos).
  { rewrite app_length, firstn_length, repeat_length. lia. }
  rewrite app_assoc. rewrite app_nth2 by lia. rewrite L.
  rewrite app_nth2 by lia.
  rewrite <- (firstn_skipn (pos + length d) data) at 2.
  destruct (Nat.le_gt_cases (pos + length d) (length data)) as [C|C].
  - rewrite app_nth2 by (rewrite firstn_length; lia). rewrite firstn_length.
    f_equal. lia.
  - rewrite skipn_all2 by lia. rewrite app_nil_r. rewrite nth_overflow by (simpl; lia).
    rewrite nth_overflow; auto. rewrite firstn_length. lia.
Qed.

(* write d, go back to where it started, read: d *)
Lemma write_seek_read b d :
  let b1 := buf_write b d in
  let b2 := fst (buf_seek b1 (Z.of_nat (b_pos b)) 0) in
  snd (buf_read b2 (length d)) = d.
Proof.
  simpl. unfold buf_seek. simpl.
  destruct (Z.of_nat (b_pos b) <? 0) eqn:C; [apply Z.ltb_lt in C; lia|].
  simpl. rewrite Nat2Z.id. apply overwrite_read_back.
Qed.

Lemma overwrite_elsewhere data pos d i :
  ((i < pos)%nat -> (i < length data)%nat -> nth i (overwrite data pos d) 0 = nth i data 0) /\
  ((pos + length d <= i)%nat -> nth i (overwrite data pos d) 0 = nth i data 0).
Proof. split; [apply overwrite_before|apply overwrite_after]. Qed.
