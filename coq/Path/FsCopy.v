(* File::copy: on success the destination holds the source's bytes; on failure no new name exists. *)
From Coq Require Import ZArith List Bool Lia.
From Path Require Import PathSpec PathModel PathProofs FsSpec FsModel FsTree FsWalk FsDir FsCreate FsFile FsMove.
Import ListNotations.
Local Open Scope Z_scope.

(* the read-only open of the source *)
Lemma k_open_src st path st1 f :
  k_open st path true false false false false = (st1, inl f) ->
  st1 = st /\ fd_rd f = true /\ fd_wr f = false /\ fd_pos f = O /\
  (fd_dir f = false -> exists c, get (root st) (fd_path f) = Some (NFile c)).
Proof.
  unfold k_open. cbn [andb negb orb].
  destruct (resolve st true path) as [e|d nm [[| |t]|]|d dot] eqn:R; intro H; inversion H; subst; clear H;
    cbn [fd_rd fd_wr fd_pos fd_dir fd_path]; repeat split; auto; try discriminate.
  intros _. apply resolve_at_some in R. apply sget_some_get in R as (n & G & S).
  destruct n; try discriminate. eauto.
Qed.

(* the creating, truncating open of the destination *)
Lemma k_open_dst st path excl st2 f :
  k_open st path false true true excl true = (st2, inl f) ->
  exists d nm es,
    fd_path f = d ++ [nm] /\ fd_dir f = false /\ fd_wr f = true /\ fd_pos f = O /\
    get (root st) d = Some (NDir es) /\
    (get (root st) (d ++ [nm]) = None \/ exists c, get (root st) (d ++ [nm]) = Some (NFile c)) /\
    st2 = set_root st (upd (root st) (d ++ [nm]) (Some (NFile []))).
Proof.
  unfold k_open. cbn [andb negb orb].
  destruct (resolve st (negb excl) path) as [e|d nm [[| |t]|]|d dot] eqn:R; try discriminate.
  - destruct excl; [discriminate|]. intro H. inversion H; subst; clear H.
    apply resolve_at_some in R. apply sget_some_get in R as (n & G & S). destruct n; try discriminate.
    destruct (get_below_dir (root st) d nm [] _ G) as [es Gd].
    exists d, nm, es. cbn [fd_rd fd_wr fd_pos fd_dir fd_path]. repeat split; eauto.
  - unfold parent_is_dir. destruct (sget (root st) d) as [[| |t]|] eqn:S; try discriminate.
    intro H. inversion H; subst; clear H. apply sget_dir_get in S as [es Gd].
    apply resolve_at_none in R.
    exists d, nm, es. cbn [fd_rd fd_wr fd_pos fd_dir fd_path]. repeat split; eauto.
Qed.

Lemma overwrite_empty d : overwrite [] 0 d = d.
Proof. unfold overwrite. simpl. rewrite skipn_nil, app_nil_r. reflexivity. Qed.

(* a regular file and another place whose parent is a directory: unless they are the same place,
   neither is above the other *)
Lemma file_unrelated r ps c d nm es :
  get r ps = Some (NFile c) -> get r d = Some (NDir es) ->
  (get r (d ++ [nm]) = None \/ exists c', get r (d ++ [nm]) = Some (NFile c')) ->
  ps <> d ++ [nm] ->
  is_prefix (d ++ [nm]) ps = false /\ is_prefix ps (d ++ [nm]) = false.
Proof.
  intros Gs Gd Gp N. split.
  - destruct (is_prefix (d ++ [nm]) ps) eqn:P; auto. apply is_prefix_true in P as [t ->].
    destruct t as [|x t]; [rewrite app_nil_r in N; contradiction|].
    rewrite get_app in Gs. destruct Gp as [Gp|[c' Gp]]; rewrite Gp in Gs; discriminate.
  - destruct (is_prefix ps (d ++ [nm])) eqn:P; auto. apply is_prefix_true in P as [t E].
    destruct (@exists_last _ t) as (u & z & X).
    { intros ->. rewrite app_nil_r in E. symmetry in E. contradiction. }
    rewrite X, app_assoc in E. apply app_inj_tail in E as [E _]. subst d.
    rewrite get_app, Gs in Gd. destruct u; simpl in Gd; discriminate.
Qed.

Section Copy.
  Variables (st : state) (src dst : str) (fie : bool) (st' : state) (b : bool).
  Hypothesis Hc : f_copy st src dst fie = (st', b).

  (* either nothing happened, or the destination was written: the source is the regular file at
     ps with bytes c, the destination file is at pd and now holds what could be copied *)
  Lemma copy_cases :
    (b = false /\ st' = st) \/
    (exists ps c d nm es,
        get (root st) ps = Some (NFile c) /\ get (root st) d = Some (NDir es) /\
        (get (root st) (d ++ [nm]) = None \/ exists c', get (root st) (d ++ [nm]) = Some (NFile c')) /\
        ((ps <> d ++ [nm] /\ b = true /\ st' = set_root st (upd (root st) (d ++ [nm]) (Some (NFile c)))) \/
         (ps = d ++ [nm] /\ b = Nat.eqb (length c) 0 /\ st' = set_root st (upd (root st) (d ++ [nm]) (Some (NFile [])))))).
  Proof.
    unfold f_copy in Hc.
    destruct (k_open st src true false false false false) as [st1 [fs|e]] eqn:O1.
    2:{ left. inversion Hc; subst. split; auto. eapply k_open_err_same; eauto. }
    destruct (k_open_src _ _ _ _ O1) as (-> & Rd & Wr & P0 & Gf).
    destruct (fd_dir fs) eqn:D. { left. inversion Hc; auto. }
    destruct (Gf eq_refl) as [c Gs].
    unfold k_lseek, content_at in Hc. rewrite Gs in Hc. rewrite !Z.add_0_r in Hc.
    destruct (Z.of_nat (length c) <? 0) eqn:C1; [apply Z.ltb_lt in C1; lia|].
    rewrite C1 in Hc.
    cbn [Z.of_nat Z.add Z.ltb Z.compare Z.to_nat fd_path fd_pos fd_rd fd_wr fd_dir] in Hc.
    destruct (k_open st dst false true true fie true) as [st2 [fd2|e]] eqn:O2.
    2:{ left. inversion Hc; subst. split; auto. eapply k_open_err_same; eauto. }
    destruct (k_open_dst _ _ _ _ _ O2) as (d & nm & es & Pd & Dd & Wd & Qd & Gd & Gp & ->).
    right. exists (fd_path fs), c, d, nm, es. repeat split; auto.
    unfold k_sendfile in Hc. cbn [fd_path fd_pos fd_rd fd_wr fd_dir root set_root] in Hc.
    rewrite D, Dd, Rd, Wd, Pd, Qd in Hc. cbn [orb negb] in Hc.
    assert (Gnew : get (upd (root st) (d ++ [nm]) (Some (NFile []))) (d ++ [nm]) = Some (NFile [])).
    { rewrite <- (app_nil_r (d ++ [nm])) at 2. erewrite get_upd_here by eauto. reflexivity. }
    rewrite Gnew in Hc. rewrite Nat2Z.id in Hc. rewrite overwrite_empty in Hc. rewrite upd_upd_same in Hc.
    unfold content_at in Hc. cbn [skipn] in Hc.
    destruct (cpath_eq_dec (fd_path fs) (d ++ [nm])) as [E|N].
    - right. rewrite E in Hc. rewrite Gnew in Hc. cbn [firstn length] in Hc.
      destruct (length c) as [|k] eqn:L.
      + cbn [firstn length Z.of_nat Z.eqb] in Hc. inversion Hc; subst. auto.
      + cbn [firstn length] in Hc. inversion Hc; subst. repeat split; auto.
    - left. destruct (file_unrelated _ _ _ _ _ _ Gs Gd Gp N) as [U1 U2].
      rewrite get_upd_unrelated in Hc by auto. rewrite Gs in Hc. rewrite firstn_all in Hc.
      rewrite Z.eqb_refl in Hc. inversion Hc; subst. auto.
  Qed.
End Copy.

(* success: the destination holds exactly the source's bytes, the source keeps them *)
Lemma copy_success_bytes st src dst fie st' :
  f_copy st src dst fie = (st', true) ->
  exists ps pd c, get (root st) ps = Some (NFile c) /\
                  get (root st') pd = Some (NFile c) /\ get (root st') ps = Some (NFile c) /\
                  (forall q, is_prefix pd q = false -> sget (root st') q = sget (root st) q).
Proof.
  intro H. destruct (copy_cases _ _ _ _ _ _ H) as [[X _]|(ps & c & d & nm & es & Gs & Gd & Gp & C)]; [discriminate|].
  assert (Gpd : forall c0, get (upd (root st) (d ++ [nm]) (Some (NFile c0))) (d ++ [nm]) = Some (NFile c0)).
  { intro c0. rewrite <- (app_nil_r (d ++ [nm])) at 2. erewrite get_upd_here by eauto. reflexivity. }
  exists ps, (d ++ [nm]), c. split; auto.
  destruct C as [(N & _ & ->)|(E & B & ->)]; cbn [root set_root].
  - destruct (file_unrelated _ _ _ _ _ _ Gs Gd Gp N) as [U1 U2].
    repeat split; auto.
    + rewrite get_upd_unrelated; auto.
    + intros q P. apply sget_upd_other; auto. destruct d; discriminate.
  - symmetry in B. apply Nat.eqb_eq in B. destruct c; [|discriminate]. subst ps.
    repeat split; auto. intros q P. apply sget_upd_other; auto. destruct d; discriminate.
Qed.

(* failure: no name exists afterwards that did not exist before *)
Lemma copy_failure_no_new_names st src dst fie st' :
  f_copy st src dst fie = (st', false) ->
  forall q, sget (root st') q <> None -> sget (root st) q <> None.
Proof.
  intro H. destruct (copy_cases _ _ _ _ _ _ H) as [[_ ->]|(ps & c & d & nm & es & Gs & Gd & Gp & C)]; auto.
  destruct C as [(_ & X & _)|(E & B & ->)]; [discriminate|]. cbn [root set_root]. subst ps.
  intros q S. destruct (is_prefix (d ++ [nm]) q) eqn:P.
  - apply is_prefix_true in P as [t ->]. destruct t as [|x t].
    + rewrite app_nil_r. unfold sget. rewrite Gs. discriminate.
    + exfalso. apply S. unfold sget. erewrite get_upd_here by eauto. reflexivity.
  - rewrite sget_upd_other in S; auto. destruct d; discriminate.
Qed.
