(* File::copy: on success the destination holds the source's bytes; on failure no new name exists. *)
From Coq Require Import ZArith List Bool Lia.
From Path Require Import PathSpec PathModel PathProofs FsSpec FsModel FsTree FsWalk FsDir FsCreate FsFile FsMove.
Import ListNotations.
Local Open Scope Z_scope.

(* the read-only open of the source *)
Lemma k_open_src st path st1 f :
  k_open st path true false false false false = (st1, inl f) ->
  st1 = st /\ fd_rd f = true /\ fd_wr f = false /\ fd_pos f = O /\
  (fd_dir f = false -> exists d nm c, resolve st true path = WAt d nm (Some SFile) /\ fd_path f = d ++ [nm] /\
                                      get (root st) (fd_path f) = Some (NFile c)).
Proof.
  unfold k_open. cbn [andb negb orb].
  destruct (resolve st true path) as [e|d nm [[| |t]|]|d dot] eqn:R; intro H; inversion H; subst; clear H;
    cbn [fd_rd fd_wr fd_pos fd_dir fd_path]; repeat split; auto; try discriminate.
  intros _. pose proof R as R0. apply resolve_at_some in R. apply sget_some_get in R as (n & G & S).
  destruct n; try discriminate. eauto 7.
Qed.

(* the creating open of the destination (no O_TRUNC): a fresh empty file, or the regular file that is there *)
Lemma k_open_dst st path excl st2 f :
  k_open st path false true true excl false = (st2, inl f) ->
  exists d nm es k,
    resolve st (negb excl) path = WAt d nm k /\
    fd_path f = d ++ [nm] /\ fd_dir f = false /\ fd_wr f = true /\ fd_rd f = false /\ fd_pos f = O /\
    get (root st) d = Some (NDir es) /\
    ((k = None /\ get (root st) (d ++ [nm]) = None /\
      st2 = set_root st (upd (root st) (d ++ [nm]) (Some (NFile [])))) \/
     (excl = false /\ k = Some SFile /\ (exists c, get (root st) (d ++ [nm]) = Some (NFile c)) /\ st2 = st)).
Proof.
  unfold k_open. cbn [andb negb orb].
  destruct (resolve st (negb excl) path) as [e|d nm [[| |t]|]|d dot] eqn:R; try discriminate.
  - destruct excl; [discriminate|]. intro H. inversion H; subst; clear H.
    pose proof R as R0. apply resolve_at_some in R. apply sget_some_get in R as (n & G & S). destruct n; try discriminate.
    destruct (get_below_dir _ d nm [] _ G) as [es Gd].
    exists d, nm, es, (Some SFile). cbn [fd_rd fd_wr fd_pos fd_dir fd_path]. repeat split; eauto.
    right. repeat split; eauto.
  - unfold parent_is_dir. destruct (sget (root st) d) as [[| |t]|] eqn:S; try discriminate.
    intro H. inversion H; subst; clear H. apply sget_dir_get in S as [es Gd].
    pose proof R as R0. apply resolve_at_none in R.
    exists d, nm, es, None. cbn [fd_rd fd_wr fd_pos fd_dir fd_path]. repeat split; eauto.
Qed.

Lemma overwrite_empty d : overwrite [] 0 d = d.
Proof. unfold overwrite. simpl. rewrite skipn_nil, app_nil_r. reflexivity. Qed.

(* a regular file and another place whose parent is a directory: unless they are the same place,
   neither is above the other *)
Lemma file_unrelated r ps c d nm es :
  get r ps = Some (NFile c) -> get r d = Some (NDir es) ->
  (get r (d ++ [nm]) = None \/ exists c', get r (d ++ [nm]) = Some (NFile c')) ->
  ps <> d ++ [nm] ->
  is_prefix (d ++ [nm]) ps = false /\ is_prefix ps (d ++ [nm]) = false.
Proof.
  intros Gs Gd Gp N. split.
  - destruct (is_prefix (d ++ [nm]) ps) eqn:P; auto. apply is_prefix_true in P as [t ->].
    destruct t as [|x t]; [rewrite app_nil_r in N; contradiction|].
    rewrite get_app in Gs. destruct Gp as [Gp|[c' Gp]]; rewrite Gp in Gs; discriminate.
  - destruct (is_prefix ps (d ++ [nm])) eqn:P; auto. apply is_prefix_true in P as [t E].
    destruct (@exists_last _ t) as (u & z & X).
    { intros ->. rewrite app_nil_r in E. symmetry in E. contradiction. }
    rewrite X, app_assoc in E. apply app_inj_tail in E as [E _]. subst d.
    rewrite get_app, Gs in Gd. destruct u; simpl in Gd; discriminate.
Qed.

Lemma cpath_eqb_refl a : cpath_eqb a a = true.
Proof. unfold cpath_eqb. rewrite is_prefix_refl. reflexivity. Qed.

Lemma cpath_eqb_false a b : a <> b -> cpath_eqb a b = false.
Proof. intro N. destruct (cpath_eqb a b) eqn:E; auto. apply cpath_eqb_true in E. contradiction. Qed.

(* File::copy, exactly: either it says false and nothing at all has changed, or it says true, the
   source text leads (through links) to a regular file with bytes c, the destination text leads
   to a different place dd/nd whose parent exists and where there was nothing or (without
   failIfExists) a regular file, and the tree afterwards is the tree before with a regular file
   holding exactly c at that place *)
Lemma copy_exact st src dst fie st' b :
  f_copy st src dst fie = (st', b) ->
  (b = false /\ st' = st) \/
  (b = true /\
   exists ds ns c dd nd kd es,
     resolve st true src = WAt ds ns (Some SFile) /\ get (root st) (ds ++ [ns]) = Some (NFile c) /\
     resolve st (negb fie) dst = WAt dd nd kd /\ (kd = None \/ (fie = false /\ kd = Some SFile)) /\
     get (root st) dd = Some (NDir es) /\ ds ++ [ns] <> dd ++ [nd] /\
     st' = set_root st (upd (root st) (dd ++ [nd]) (Some (NFile c)))).
Proof.
  intro Hc. unfold f_copy in Hc.
  destruct (k_open st src true false false false false) as [st1 [fs|e]] eqn:O1.
  2:{ left. inversion Hc; subst. split; auto. eapply k_open_err_same; eauto. }
  destruct (k_open_src _ _ _ _ O1) as (-> & Rd & Wr & P0 & Gf).
  destruct (fd_dir fs) eqn:D. { left. inversion Hc; auto. }
  destruct (Gf eq_refl) as (ds & ns & c & Rs & Ps & Gs).
  unfold k_lseek, content_at in Hc. rewrite Gs in Hc. rewrite !Z.add_0_r in Hc.
  destruct (Z.of_nat (length c) <? 0) eqn:C1; [apply Z.ltb_lt in C1; lia|].
  rewrite C1 in Hc.
  cbn [Z.of_nat Z.add Z.ltb Z.compare Z.to_nat fd_path fd_pos fd_rd fd_wr fd_dir] in Hc.
  destruct (k_open st dst false true true fie false) as [st2 [fd2|e]] eqn:O2.
  2:{ left. inversion Hc; subst. split; auto. eapply k_open_err_same; eauto. }
  destruct (k_open_dst _ _ _ _ _ O2) as (d & nm & es & kd & Rdst & Pd & Dd & Wd & Rdd & Qd & Gd & Cd).
  unfold same_file in Hc. cbn [fd_path] in Hc. rewrite Pd in Hc.
  destruct (cpath_eq_dec (fd_path fs) (d ++ [nm])) as [E|N].
  - (* the destination is the source itself: refused, and it was not created, so nothing changed *)
    rewrite E, cpath_eqb_refl in Hc. left. inversion Hc; subst. split; auto.
    destruct Cd as [(_ & Gn & _)|(_ & _ & _ & X)]; auto. rewrite E in Gs. congruence.
  - rewrite (cpath_eqb_false _ _ N) in Hc. right.
    assert (Gp : get (root st) (d ++ [nm]) = None \/ exists c', get (root st) (d ++ [nm]) = Some (NFile c')).
    { destruct Cd as [(_ & Gn & _)|(_ & _ & X & _)]; auto. }
    destruct (file_unrelated _ _ _ _ _ _ Gs Gd Gp N) as [U1 U2].
    assert (Gnew : get (upd (root st) (d ++ [nm]) (Some (NFile []))) (d ++ [nm]) = Some (NFile [])).
    { rewrite <- (app_nil_r (d ++ [nm])) at 2. erewrite get_upd_here by eauto. reflexivity. }
    assert (T : k_ftruncate0 st2 fd2 = set_root st (upd (root st) (d ++ [nm]) (Some (NFile [])))).
    { unfold k_ftruncate0. rewrite Pd. destruct Cd as [(_ & Gn & ->)|(_ & _ & [c' X] & ->)].
      - cbn [root set_root]. rewrite Gnew. rewrite set_root_twice, upd_upd_same. reflexivity.
      - rewrite X. reflexivity. }
    rewrite T in Hc. unfold k_sendfile in Hc. cbn [fd_path fd_pos fd_rd fd_wr fd_dir root set_root] in Hc.
    rewrite D, Dd, Rd, Wd, Pd, Qd in Hc. cbn [orb negb] in Hc.
    rewrite Gnew in Hc. rewrite Nat2Z.id in Hc. rewrite overwrite_empty in Hc. rewrite upd_upd_same in Hc.
    unfold content_at in Hc. cbn [skipn] in Hc.
    rewrite get_upd_unrelated in Hc by auto. rewrite Gs in Hc. rewrite firstn_all in Hc.
    rewrite Z.eqb_refl in Hc. inversion Hc; subst. split; auto.
    rewrite Ps in *.
    exists ds, ns, c, d, nm, kd, es. repeat split; auto.
    destruct Cd as [(K & _)|(F & K & _)]; auto.
Qed.

Lemma copy_success_exact st src dst fie st' :
  f_copy st src dst fie = (st', true) ->
  exists ds ns c dd nd kd es,
    resolve st true src = WAt ds ns (Some SFile) /\ get (root st) (ds ++ [ns]) = Some (NFile c) /\
    resolve st (negb fie) dst = WAt dd nd kd /\ (kd = None \/ (fie = false /\ kd = Some SFile)) /\
    get (root st) dd = Some (NDir es) /\ ds ++ [ns] <> dd ++ [nd] /\
    st' = set_root st (upd (root st) (dd ++ [nd]) (Some (NFile c))).
Proof.
  intro H. destruct (copy_exact _ _ _ _ _ _ H) as [[X _]|[_ X]]; [discriminate|exact X].
Qed.

(* success: the destination holds exactly the source's bytes, the source keeps them, and no other
   place changes kind (the older, weaker reading of copy_exact) *)
Lemma copy_success_bytes st src dst fie st' :
  f_copy st src dst fie = (st', true) ->
  exists ps pd c, get (root st) ps = Some (NFile c) /\
                  get (root st') pd = Some (NFile c) /\ get (root st') ps = Some (NFile c) /\
                  (forall q, is_prefix pd q = false -> sget (root st') q = sget (root st) q).
Proof.
  intro H. destruct (copy_exact _ _ _ _ _ _ H) as [[X _]|(_ & ds & ns & c & d & nm & kd & es & Rs & Gs & Rd & K & Gd & N & ->)];
    [discriminate|].
  assert (Gp : get (root st) (d ++ [nm]) = None \/ exists c', get (root st) (d ++ [nm]) = Some (NFile c')).
  { destruct K as [->|[_ ->]].
    - left. eapply resolve_at_none; eauto.
    - right. apply resolve_at_some in Rd. apply sget_some_get in Rd as (n & G & S). destruct n; try discriminate. eauto. }
  destruct (file_unrelated _ _ _ _ _ _ Gs Gd Gp N) as [U1 U2].
  exists (ds ++ [ns]), (d ++ [nm]), c. cbn [root set_root]. repeat split; auto.
  - rewrite <- (app_nil_r (d ++ [nm])) at 2. erewrite get_upd_here by eauto. reflexivity.
  - rewrite get_upd_unrelated; auto.
  - intros q P. apply sget_upd_other; auto. destruct d; discriminate.
Qed.

(* failure: nothing at all has changed - in particular copy(f, f) leaves f as it is *)
Lemma copy_failure_unchanged st src dst fie st' :
  f_copy st src dst fie = (st', false) -> st' = st.
Proof.
  intro H. destruct (copy_exact _ _ _ _ _ _ H) as [[_ X]|[X _]]; [exact X|discriminate].
Qed.

Lemma copy_failure_no_new_names st src dst fie st' :
  f_copy st src dst fie = (st', false) ->
  forall q, sget (root st') q <> None -> sget (root st) q <> None.
Proof. intro H. rewrite (copy_failure_unchanged _ _ _ _ _ H). auto. Qed.
