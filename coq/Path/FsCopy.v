(* File::copy: on success the destination holds the source's bytes; on failure no new name exists. *)
From Coq Require Import ZArith List Bool Lia.
From Path Require Import PathSpec PathModel PathProofs FsSpec FsModel FsTree FsWalk FsDir FsCreate FsFile FsMove.
Import ListNotations.
Local Open Scope Z_scope.

(* the read-only open of the source *)
Lemma k_open_src st path st1 f :
  k_open st path true false false false false = (st1, inl f) ->
  st1 = st /\ fd_rd f = true /\ fd_wr f = false /\ fd_pos f = O /\
  (fd_dir f = false -> exists d nm c, resolve st true path = WAt d nm (Some SFile) /\ fd_path f = d ++ [nm] /\
                                      get (root st) (fd_path f) = Some (NFile c)).
Proof.
  unfold k_open. cbn [andb negb orb].
  destruct (resolve st true path) as [e|d nm [[| |t]|]|d dot] eqn:R; intro H; inversion H; subst; clear H;
    cbn [fd_rd fd_wr fd_pos fd_dir fd_path]; repeat split; auto; try discriminate.
  intros _. pose proof R as R0. apply resolve_at_some in R. apply sget_some_get in R as (n & G & S).
  destruct n; try discriminate. eauto 7.
Qed.

(* the creating open of the destination (no O_TRUNC): a fresh empty file, or the regular file that is there *)
Lemma k_open_dst st path excl st2 f :
  k_open st path false true true excl false = (st2, inl f) ->
  exists d nm es k,
    resolve st (negb excl) path = WAt d nm k /\
    fd_path f = d ++ [nm] /\ fd_dir f = false /\ fd_wr f = true /\ fd_rd f = false /\ fd_pos f = O /\
    get (root st) d = Some (NDir es) /\
    ((k = None /\ get (root st) (d ++ [nm]) = None /\
      st2 = set_root st (upd (root st) (d ++ [nm]) (Some (NFile [])))) \/
     (excl = false /\ k = Some SFile /\ (exists c, get (root st) (d ++ [nm]) = Some (NFile c)) /\ st2 = st)).
Proof.
  unfold k_open. cbn [andb negb orb].
  destruct (resolve st (negb excl) path) as [e|d nm [[| |t]|]|d dot] eqn:R; try discriminate;
    try (destruct excl; discriminate).
  - destruct excl; [discriminate|]. intro H. inversion H; subst; clear H.
    pose proof R as R0. apply resolve_at_some in R. apply sget_some_get in R as (n & G & S). destruct n; try discriminate.
    destruct (get_below_dir _ d nm [] _ G) as [es Gd].
    exists d, nm, es, (Some SFile). cbn [fd_rd fd_wr fd_pos fd_dir fd_path]. repeat split; eauto.
    right. repeat split; eauto.
  - unfold parent_is_dir. destruct (sget (root st) d) as [[| |t]|] eqn:S; try discriminate.
    intro H. inversion H; subst; clear H. apply sget_dir_get in S as [es Gd].
    pose proof R as R0. apply resolve_at_none in R.
    exists d, nm, es, None. cbn [fd_rd fd_wr fd_pos fd_dir fd_path]. repeat split; eauto.
Qed.

(* the path walk itself never reports EEXIST *)
Lemma walk_err_not_eexist r fl e : forall L cur cs, walk L r fl cur cs = WErr e -> is_eexist e = false.
Proof.
  apply (walk_ind r fl (fun L cur cs => walk L r fl cur cs = WErr e -> is_eexist e = false)).
  - intros L cur. rewrite walk_nil. discriminate.
  - intros L cur c rest IH. rewrite walk_cons. unfold wstep in *.
    destruct (str_eqb c DOT1). { destruct rest; [discriminate|]. apply IH. reflexivity. }
    destruct (str_eqb c DOTDOT). { destruct rest; [discriminate|]. apply IH. reflexivity. }
    destruct (sget r (cur ++ [c])) as [[| |t]|].
    + destruct rest; intro H; inversion H; reflexivity.
    + destruct rest; [discriminate|]. apply IH. reflexivity.
    + destruct rest as [|x y]; [destruct fl; [|discriminate]|];
        (destruct L; [intro H; inversion H; reflexivity|]; destruct t; [intro H; inversion H; reflexivity|]; apply IH; reflexivity).
    + destruct rest; intro H; inversion H; reflexivity.
Qed.

(* open(O_CREAT | O_EXCL) that fails with EEXIST: the name is taken (lstat succeeds) *)
Lemma k_open_excl_eexist st path rd wr trunc st' e :
  k_open st path rd wr true true trunc = (st', inr e) -> is_eexist e = true -> k_lstat st path <> None.
Proof.
  unfold k_open, k_lstat. cbn [andb negb].
  destruct (resolve st false path) as [e0|d nm [[| |t]|]|d dot] eqn:R; try discriminate.
  - intros H X. inversion H; subst. unfold resolve in R. destruct path; [inversion R; subst; discriminate|].
    apply walk_err_not_eexist in R. congruence.
  - destruct (parent_is_dir st d); intros H X; inversion H; subst; discriminate.
Qed.

Lemma overwrite_empty d : overwrite [] 0 d = d.
Proof. destruct d; [reflexivity|]. unfold overwrite, overwrite_at. simpl. rewrite app_nil_r. reflexivity. Qed.

(* a regular file and another place whose parent is a directory: unless they are the same place,
   neither is above the other *)
Lemma file_unrelated r ps c d nm es :
  get r ps = Some (NFile c) -> get r d = Some (NDir es) ->
  (get r (d ++ [nm]) = None \/ exists c', get r (d ++ [nm]) = Some (NFile c')) ->
  ps <> d ++ [nm] ->
  is_prefix (d ++ [nm]) ps = false /\ is_prefix ps (d ++ [nm]) = false.
Proof.
  intros Gs Gd Gp N. split.
  - destruct (is_prefix (d ++ [nm]) ps) eqn:P; auto. apply is_prefix_true in P as [t ->].
    destruct t as [|x t]; [rewrite app_nil_r in N; contradiction|].
    rewrite get_app in Gs. destruct Gp as [Gp|[c' Gp]]; rewrite Gp in Gs; discriminate.
  - destruct (is_prefix ps (d ++ [nm])) eqn:P; auto. apply is_prefix_true in P as [t E].
    destruct (@exists_last _ t) as (u & z & X).
    { intros ->. rewrite app_nil_r in E. symmetry in E. contradiction. }
    rewrite X, app_assoc in E. apply app_inj_tail in E as [E _]. subst d.
    rewrite get_app, Gs in Gd. destruct u; simpl in Gd; discriminate.
Qed.

Lemma cpath_eqb_refl a : cpath_eqb a a = true.
Proof. unfold cpath_eqb. rewrite is_prefix_refl. reflexivity. Qed.

Lemma cpath_eqb_false a b : a <> b -> cpath_eqb a b = false.
Proof. intro N. destruct (cpath_eqb a b) eqn:E; auto. apply cpath_eqb_true in E. contradiction. Qed.

Ltac splits := repeat match goal with |- _ /\ _ => split end.

(* ---- the transfer loop ------------------------------------------------------------------------------ *)

Lemma firstn_app_skipn {A} k m (c : list A) : firstn k c ++ firstn m (skipn k c) = firstn (k + m) c.
Proof.
  revert c; induction k as [|k IH]; intro c; [reflexivity|].
  destruct c as [|a c]; simpl; [rewrite firstn_nil; reflexivity|]. rewrite IH. reflexivity.
Qed.

Lemma firstn_len_self {A} lim (l : list A) : firstn (length (firstn lim l)) l = firstn lim l.
Proof.
  rewrite firstn_length. destruct (Nat.le_ge_cases lim (length l)) as [H|H].
  - rewrite Nat.min_l by auto. reflexivity.
  - rewrite Nat.min_r by auto. rewrite !firstn_all2 by auto. reflexivity.
Qed.

Lemma overwrite_at_end c k d : (k <= length c)%nat -> overwrite (firstn k c) k d = firstn k c ++ d.
Proof.
  intro H. destruct d as [|x d0]; [rewrite app_nil_r; reflexivity|]. rewrite overwrite_nonempty. set (d := x :: d0).
  unfold overwrite_at. rewrite firstn_length, Nat.min_l by auto.
  rewrite (firstn_all2 (n := k) (firstn k c)) by (rewrite firstn_length; lia).
  rewrite Nat.sub_diag. simpl. rewrite skipn_all2 by (rewrite firstn_length; lia). rewrite app_nil_r. reflexivity.
Qed.

Section Transfer.
  (* st0: the state before the destination was opened; the source is the regular file at ps with
     bytes c, the destination is the place pd = d/nm, not related to ps *)
  Variables (st0 : state) (ps : cpath) (c : list Z) (d : cpath) (nm : str) (es : list (str * node)).
  Hypothesis Gs : get (root st0) ps = Some (NFile c).
  Hypothesis Gd : get (root st0) d = Some (NDir es).
  Hypothesis U1 : is_prefix (d ++ [nm]) ps = false.
  Hypothesis U2 : is_prefix ps (d ++ [nm]) = false.

  (* k bytes have been transferred *)
  Definition at_k (k : nat) : state := set_root st0 (upd (root st0) (d ++ [nm]) (Some (NFile (firstn k c)))).

  Definition xinv (k : nat) (s : state) (dst src : fd) : Prop :=
    (k <= length c)%nat /\ s = at_k k /\
    fd_path dst = d ++ [nm] /\ fd_pos dst = k /\ fd_dir dst = false /\ fd_wr dst = true /\
    fd_path src = ps /\ fd_pos src = k /\ fd_dir src = false /\ fd_rd src = true.

  Lemma get_dst k : get (root (at_k k)) (d ++ [nm]) = Some (NFile (firstn k c)).
  Proof.
    unfold at_k. cbn [root set_root]. rewrite <- (app_nil_r (d ++ [nm])) at 2.
    erewrite get_upd_here by eauto. reflexivity.
  Qed.

  Lemma get_src k : get (root (at_k k)) ps = Some (NFile c).
  Proof. unfold at_k. cbn [root set_root]. rewrite get_upd_unrelated by auto. exact Gs. Qed.

  Lemma sendfile_step k s dst src count x :
    xinv k s dst src ->
    match k_sendfile s dst src count x with
    | (s1, dst1, src1, inl n) => xinv (k + n) s1 dst1 src1 /\ (n <= count)%nat
    | (s1, _, _, inr _) => s1 = s
    end.
  Proof.
    intros (Hk & -> & Pd & Qd & Dd & Wd & Psrc & Qs & Ds & Rs).
    unfold k_sendfile. rewrite Ds, Dd, Rs, Wd. cbn [orb negb].
    destruct x as [[|n]|]; [reflexivity| |].
    all: rewrite Pd, get_dst; unfold content_at; rewrite Psrc, get_src, Qd, Qs.
    all: match goal with |- context [firstn ?lim (skipn ?kk ?cc)] => set (dd := firstn lim (skipn kk cc)); assert (Ld : (length dd <= lim)%nat) by (unfold dd; rewrite firstn_length; lia) end.
    all: assert (Lk : (k + length dd <= length c)%nat) by (unfold dd; rewrite firstn_length, skipn_length; lia).
    all: assert (E : firstn k c ++ dd = firstn (k + length dd) c)
           by (rewrite <- firstn_app_skipn; f_equal; unfold dd; symmetry; apply firstn_len_self).
    all: rewrite overwrite_at_end by auto; rewrite E.
    all: split; [|lia].
    all: unfold xinv, fd_advance; cbn [fd_path fd_pos fd_rd fd_wr fd_dir]; repeat split; auto; try lia.
    all: unfold at_k; cbn [root set_root]; rewrite upd_upd_same; reflexivity.
  Qed.

  (* whatever the outcomes: the loop leaves a prefix of the source's bytes in the destination, and
     all of them when it says true *)
  Lemma xfer_loop_spec fuel : forall orc k s dst src s' b,
    xinv k s dst src ->
    xfer_loop fuel orc s dst src (length c - k) = (s', b) ->
    exists k', (k' <= length c)%nat /\ s' = at_k k' /\ (b = true -> k' = length c).
  Proof.
    induction fuel as [|f IH]; intros orc k s dst src s' b I H.
    - destruct I as (Hk & -> & _). simpl in H. destruct (length c - k)%nat eqn:L; inversion H; subst.
      + exists k. repeat split; auto. intros _. lia.
      + exists k. repeat split; auto. discriminate.
    - cbn [xfer_loop] in H. destruct (length c - k)%nat as [|l] eqn:L.
      + destruct I as (Hk & -> & _). inversion H; subst. exists k. repeat split; auto. intros _. lia.
      + pose proof (sendfile_step k s dst src (S l) (hd_error orc) I) as St.
        destruct (k_sendfile s dst src (S l) (hd_error orc)) as [[[s1 dst1] src1] [n|e]].
        * destruct St as [I1 Hn]. destruct (Nat.eqb n 0) eqn:N0.
          -- inversion H; subst. destruct I1 as (Hk1 & -> & _). exists (k + n)%nat. repeat split; auto. discriminate.
          -- replace (S l - n)%nat with (length c - (k + n))%nat in H by lia. eapply IH; eauto.
        * subst s1. inversion H; subst. destruct I as (Hk & -> & _). exists k. repeat split; auto. discriminate.
  Qed.

  (* when every call moves all it was asked for, one round does it *)
  Lemma xfer_loop_complete f k s dst src :
    xinv k s dst src -> xfer_loop (S f) [] s dst src (length c - k) = (at_k (length c), true).
  Proof.
    intro I. cbn [xfer_loop hd_error tl]. destruct (length c - k)%nat as [|l] eqn:L.
    - destruct I as (Hk & -> & _). f_equal. f_equal. lia.
    - pose proof I as (Hk & -> & Pd & Qd & Dd & Wd & Psrc & Qs & Ds & Rs).
      unfold k_sendfile. rewrite Ds, Dd, Rs, Wd. cbn [orb negb].
      rewrite Pd, get_dst. unfold content_at. rewrite Psrc, get_src, Qd, Qs.
      assert (F : firstn (S l) (skipn k c) = skipn k c) by (apply firstn_all2; rewrite skipn_length; lia).
      rewrite F, skipn_length, L. cbn [Nat.eqb]. rewrite Nat.sub_diag.
      destruct f; cbn [xfer_loop]; f_equal.
      all: unfold at_k; cbn [root set_root]; rewrite upd_upd_same, overwrite_at_end by auto.
      all: rewrite firstn_skipn, firstn_all; reflexivity.
  Qed.

  Lemma at_k_all : at_k (length c) = set_root st0 (upd (root st0) (d ++ [nm]) (Some (NFile c))).
  Proof. unfold at_k. rewrite firstn_all. reflexivity. Qed.
End Transfer.

(* what a failed copy may leave: nothing changed; or the destination text led to an existing
   regular file, or - through a symbolic link - to a name that did not exist, and that file now
   holds some bytes c1 (only when a transfer call failed or moved nothing) *)
Definition copy_failure_outcome (orc : list xfer) (st : state) (dst : str) (fie : bool) (st' : state) : Prop :=
  st' = st \/
  exists dd nd kd es c1,
    orc <> [] /\ fie = false /\ resolve st true dst = WAt dd nd kd /\ get (root st) dd = Some (NDir es) /\
    (kd = Some SFile \/ (kd = None /\ k_lstat st dst <> None)) /\
    st' = set_root st (upd (root st) (dd ++ [nd]) (Some (NFile c1))).

(* File::copy, exactly, whatever the transfer calls do: either it says true, the source text leads
   (through links) to a regular file with bytes c, the destination text leads to a different place
   dd/nd whose parent exists and where there was nothing or (without failIfExists) a regular file,
   and the tree afterwards is the tree before with a regular file holding exactly c at that place;
   or it says false and the state is as described by copy_failure_outcome *)
Lemma copy_exact_o orc st src dst fie st' b :
  f_copy_o orc st src dst fie = (st', b) ->
  (b = false /\ copy_failure_outcome orc st dst fie st') \/
  (b = true /\
   exists ds ns c dd nd kd es,
     resolve st true src = WAt ds ns (Some SFile) /\ get (root st) (ds ++ [ns]) = Some (NFile c) /\
     resolve st (negb fie) dst = WAt dd nd kd /\ (kd = None \/ (fie = false /\ kd = Some SFile)) /\
     get (root st) dd = Some (NDir es) /\ ds ++ [ns] <> dd ++ [nd] /\
     st' = set_root st (upd (root st) (dd ++ [nd]) (Some (NFile c)))).
Proof.
  intro Hc. unfold f_copy_o in Hc.
  destruct (k_open st src true false false false false) as [st1 [fs|e]] eqn:O1.
  2:{ left. inversion Hc; subst. split; auto. left. eapply k_open_err_same; eauto. }
  destruct (k_open_src _ _ _ _ O1) as (-> & Rd & Wr & P0 & Gf).
  destruct (fd_dir fs) eqn:D. { left. inversion Hc; subst. split; auto. left; auto. }
  destruct (Gf eq_refl) as (ds & ns & c & Rs & Ps & Gs).
  unfold k_lseek, content_at in Hc. rewrite Gs in Hc. rewrite !Z.add_0_r in Hc.
  destruct (Z.of_nat (length c) <? 0) eqn:C1; [apply Z.ltb_lt in C1; lia|].
  rewrite C1 in Hc.
  cbn [Z.of_nat Z.add Z.ltb Z.compare Z.to_nat fd_path fd_pos fd_rd fd_wr fd_dir] in Hc.
  rewrite Nat2Z.id in Hc.
  set (fs2 := {| fd_path := fd_path fs; fd_pos := 0; fd_rd := fd_rd fs; fd_wr := fd_wr fs; fd_dir := fd_dir fs |}) in *.
  (* the two ways the destination gets opened *)
  assert (OPEN : forall excl st2 fd2 created,
             k_open st dst false true true excl false = (st2, inl fd2) ->
             (created = true -> excl = true) -> (excl = true -> created = true) ->
             (excl = false -> fie = false /\ k_lstat st dst <> None) ->
             (let '(st3, ok) := if same_file fs2 fd2 then (st2, false)
                                else xfer_loop (S (length c)) orc (k_ftruncate0 st2 fd2) fd2 fs2 (length c) in
              if ok then (st3, true) else if created then (fst (k_unlink st3 dst), false) else (st3, false)) = (st', b) ->
             (b = false /\ copy_failure_outcome orc st dst fie st') \/
             (b = true /\
              exists dd nd kd es,
                resolve st (negb excl) dst = WAt dd nd kd /\ (kd = None \/ (excl = false /\ kd = Some SFile)) /\
                get (root st) dd = Some (NDir es) /\ ds ++ [ns] <> dd ++ [nd] /\
                st' = set_root st (upd (root st) (dd ++ [nd]) (Some (NFile c))))).
  { intros excl st2 fd2 created O2 CE EC EF H.
    destruct (k_open_dst _ _ _ _ _ O2) as (d & nm & es & kd & Rdst & Pd & Dd & Wd & Rdd & Qd & Gd & Cd).
    unfold same_file in H. replace (fd_path fs2) with (fd_path fs) in H by reflexivity. rewrite Pd in H.
    destruct (cpath_eq_dec (fd_path fs) (d ++ [nm])) as [E|N].
    - (* the destination is the source itself: refused; it was not created, so nothing changed *)
      rewrite E, cpath_eqb_refl in H. left.
      destruct Cd as [(_ & Gn & _)|(X0 & _ & _ & X)]; [rewrite E in Gs; congruence|].
      subst st2. destruct created; [specialize (CE eq_refl); congruence|].
      inversion H; subst. split; auto. left; auto.
    - rewrite (cpath_eqb_false _ _ N) in H.
      assert (Gp : get (root st) (d ++ [nm]) = None \/ exists c', get (root st) (d ++ [nm]) = Some (NFile c')).
      { destruct Cd as [(_ & Gn & _)|(_ & _ & X & _)]; auto. }
      destruct (file_unrelated _ _ _ _ _ _ Gs Gd Gp N) as [U1 U2].
      assert (T : k_ftruncate0 st2 fd2 = at_k st c d nm 0).
      { unfold k_ftruncate0, at_k. rewrite Pd. cbn [firstn]. destruct Cd as [(_ & Gn & ->)|(_ & _ & [c' X] & ->)].
        - cbn [root set_root].
          assert (Gnew : get (upd (root st) (d ++ [nm]) (Some (NFile []))) (d ++ [nm]) = Some (NFile [])).
          { rewrite <- (app_nil_r (d ++ [nm])) at 2. erewrite get_upd_here by eauto. reflexivity. }
          rewrite Gnew. rewrite set_root_twice, upd_upd_same. reflexivity.
        - rewrite X. reflexivity. }
      rewrite T in H.
      assert (I0 : xinv st (fd_path fs) c d nm 0 (at_k st c d nm 0) fd2 fs2).
      { unfold xinv. cbn [fd_path fd_pos fd_rd fd_wr fd_dir fs2]. repeat split; auto; lia. }
      destruct (xfer_loop (S (length c)) orc (at_k st c d nm 0) fd2 fs2 (length c)) as [st3 ok] eqn:X.
      replace (length c) with (length c - 0)%nat in X at 2 by lia.
      destruct (xfer_loop_spec st (fd_path fs) c d nm es Gs Gd U1 U2 _ _ _ _ _ _ _ _ I0 X) as (k' & Hk' & -> & Hb).
      destruct ok.
      + (* everything arrived *)
        inversion H; subst. right. split; auto. rewrite (Hb eq_refl), at_k_all. rewrite Ps in N.
        exists d, nm, kd, es. repeat split; auto.
        destruct Cd as [(K & _)|(F & K & _)]; auto.
      + left. destruct created.
        * (* a destination this call created is removed again: nothing has changed *)
          specialize (CE eq_refl). subst excl.
          destruct Cd as [(K & Gn & _)|(X0 & _)]; [|discriminate]. subst kd.
          inversion H; subst. split; auto. left.
          unfold k_unlink.
          assert (R1 : resolve (at_k st c d nm k') false dst = WAt d nm (Some SFile)).
          { unfold resolve in *. destruct dst as [|z dst]; [discriminate|]. unfold at_k. cbn [root cwd set_root].
            cbn [negb] in Rdst.
            apply (walk_fresh (root st) d nm (NFile (firstn k' c)) false Gn (ex_intro _ es Gd) (leaf_file _) (or_introl eq_refl)); auto. }
          rewrite R1. unfold at_k. cbn [fst root set_root]. rewrite upd_upd_same.
          rewrite upd_none_absent by auto. unfold set_root. cbn [cwd handles]. destruct st; reflexivity.
        * (* an existing destination (or the target of a dangling link) keeps what has arrived *)
          inversion H; subst. split; auto. right.
          assert (excl = false) by (destruct excl; auto; specialize (EC eq_refl); discriminate). subst excl.
          cbn [negb] in Rdst.
          exists d, nm, kd, es, (firstn k' c). repeat split; auto.
          { intros ->. rewrite (xfer_loop_complete st (fd_path fs) c d nm es Gs Gd U1 U2 _ _ _ _ _ I0) in X. discriminate. }
          { exact (proj1 (EF eq_refl)). }
          destruct Cd as [(K & Gn & _)|(_ & K & _)]; [|left; exact K]. right. split; auto.
          exact (proj2 (EF eq_refl)). }
  destruct (k_open st dst false true true true false) as [s [f|e]] eqn:OX.
  - (* created by this call *)
    destruct (OPEN true s f true OX) as [L|(B & dd & nd & kd & es & R & K & G & N & E)]; auto; try discriminate.
    right. split; [exact B|]. exists ds, ns, c, dd, nd, kd, es. rewrite Ps in Gs.
    refine (conj Rs (conj Gs (conj _ (conj _ (conj G (conj N E)))))).
    + cbn [negb] in R. destruct K as [->|[X _]]; [|discriminate].
      destruct fie; [exact R|]. cbn [negb]. unfold resolve in *. destruct dst; [discriminate|].
      rewrite walk_follow_same; [exact R|]. rewrite R. exact I.
    + destruct K as [K|[X _]]; [auto|discriminate].
  - pose proof (k_open_err_same _ _ _ _ _ _ _ _ _ OX). subst s.
    destruct (is_eexist e && negb fie) eqn:EE.
    + apply andb_true_iff in EE as [EE F]. apply negb_true_iff in F. subst fie.
      assert (LS : k_lstat st dst <> None) by (eapply k_open_excl_eexist; eauto).
      destruct (k_open st dst false true true false false) as [s' [f|e']] eqn:OY.
      * destruct (OPEN false s' f false OY) as [L|(B & dd & nd & kd & es & R & K & G & N & E)]; auto; try discriminate.
        right. split; [exact B|]. exists ds, ns, c, dd, nd, kd, es. rewrite Ps in Gs.
        refine (conj Rs (conj Gs (conj R (conj _ (conj G (conj N E)))))).
        destruct K as [K|[_ K]]; auto.
      * pose proof (k_open_err_same _ _ _ _ _ _ _ _ _ OY). subst s'.
        left. inversion Hc; subst. split; auto. left; auto.
    + left. inversion Hc; subst. split; auto. left; auto.
Qed.

(* when every transfer call moves all it was asked for, a copy that says false has changed nothing *)
Lemma copy_exact st src dst fie st' b :
  f_copy st src dst fie = (st', b) ->
  (b = false /\ st' = st) \/
  (b = true /\
   exists ds ns c dd nd kd es,
     resolve st true src = WAt ds ns (Some SFile) /\ get (root st) (ds ++ [ns]) = Some (NFile c) /\
     resolve st (negb fie) dst = WAt dd nd kd /\ (kd = None \/ (fie = false /\ kd = Some SFile)) /\
     get (root st) dd = Some (NDir es) /\ ds ++ [ns] <> dd ++ [nd] /\
     st' = set_root st (upd (root st) (dd ++ [nd]) (Some (NFile c)))).
Proof.
  intro Hc. destruct (copy_exact_o _ _ _ _ _ _ _ Hc) as [[B O]|R]; [|right; exact R].
  left. split; auto. destruct O as [E|(dd & nd & kd & es & c1 & X & _)]; [exact E|]. exfalso. apply X. reflexivity.
Qed.

Lemma copy_success_exact_o orc st src dst fie st' :
  f_copy_o orc st src dst fie = (st', true) ->
  exists ds ns c dd nd kd es,
    resolve st true src = WAt ds ns (Some SFile) /\ get (root st) (ds ++ [ns]) = Some (NFile c) /\
    resolve st (negb fie) dst = WAt dd nd kd /\ (kd = None \/ (fie = false /\ kd = Some SFile)) /\
    get (root st) dd = Some (NDir es) /\ ds ++ [ns] <> dd ++ [nd] /\
    st' = set_root st (upd (root st) (dd ++ [nd]) (Some (NFile c))).
Proof.
  intro H. destruct (copy_exact_o _ _ _ _ _ _ _ H) as [[X _]|[_ X]]; [discriminate|exact X].
Qed.

(* success: the destination holds exactly the source's bytes, the source keeps them, and no other
   place changes kind (the older, weaker reading of copy_exact) *)
Lemma copy_success_bytes orc st src dst fie st' :
  f_copy_o orc st src dst fie = (st', true) ->
  exists ps pd c, get (root st) ps = Some (NFile c) /\
                  get (root st') pd = Some (NFile c) /\ get (root st') ps = Some (NFile c) /\
                  (forall q, is_prefix pd q = false -> sget (root st') q = sget (root st) q).
Proof.
  intro H. destruct (copy_success_exact_o _ _ _ _ _ _ H) as (ds & ns & c & d & nm & kd & es & Rs & Gs & Rd & K & Gd & N & ->).
  assert (Gp : get (root st) (d ++ [nm]) = None \/ exists c', get (root st) (d ++ [nm]) = Some (NFile c')).
  { destruct K as [->|[_ ->]].
    - left. eapply resolve_at_none; eauto.
    - right. apply resolve_at_some in Rd. apply sget_some_get in Rd as (n & G & S). destruct n; try discriminate. eauto. }
  destruct (file_unrelated _ _ _ _ _ _ Gs Gd Gp N) as [U1 U2].
  exists (ds ++ [ns]), (d ++ [nm]), c. cbn [root set_root]. repeat split; auto.
  - rewrite <- (app_nil_r (d ++ [nm])) at 2. erewrite get_upd_here by eauto. reflexivity.
  - rewrite get_upd_unrelated; auto.
  - intros q P. apply sget_upd_other; auto. destruct d; discriminate.
Qed.

(* failure, whatever the transfer calls do: every name that exists afterwards existed before, except
   - when the destination text is a symbolic link to a name that did not exist - that name; and
   every place other than the destination is untouched *)
Lemma copy_failure_frame orc st src dst fie st' :
  f_copy_o orc st src dst fie = (st', false) ->
  st' = st \/
  exists dd nd es, resolve st true dst = WAt dd nd (sget (root st) (dd ++ [nd])) /\ get (root st) dd = Some (NDir es) /\
    (sget (root st) (dd ++ [nd]) = Some SFile \/ (sget (root st) (dd ++ [nd]) = None /\ k_lstat st dst <> None)) /\
    (forall q, is_prefix (dd ++ [nd]) q = false -> sget (root st') q = sget (root st) q) /\
    (forall q, is_prefix (dd ++ [nd]) q = false -> is_prefix q (dd ++ [nd]) = false -> get (root st') q = get (root st) q) /\
    sget (root st') (dd ++ [nd]) = Some SFile.
Proof.
  intro H. destruct (copy_exact_o _ _ _ _ _ _ _ H) as [[_ O]|[X _]]; [|discriminate].
  destruct O as [E|(dd & nd & kd & es & c1 & _ & F & Rd & Gd & K & ->)]; [left; exact E|right].
  exists dd, nd, es. cbn [root set_root].
  assert (S : sget (root st) (dd ++ [nd]) = kd).
  { destruct K as [->|[-> _]].
    - eapply resolve_at_some; eauto.
    - unfold sget. erewrite resolve_at_none by eauto. reflexivity. }
  rewrite S. splits; auto.
  - intros q P. apply sget_upd_other; auto. destruct dd; discriminate.
  - intros q P1 P2. apply get_upd_unrelated; auto.
  - unfold sget. rewrite <- (app_nil_r (dd ++ [nd])) at 2. erewrite get_upd_here by eauto. reflexivity.
Qed.

(* with transfers that complete: a copy that says false has changed nothing at all - in particular
   copy(f, f) leaves f as it is *)
Lemma copy_failure_unchanged st src dst fie st' :
  f_copy st src dst fie = (st', false) -> st' = st.
Proof.
  intro H. destruct (copy_exact _ _ _ _ _ _ H) as [[_ X]|[X _]]; [exact X|discriminate].
Qed.

(* no new name whenever the destination existed or was created by this call *)
Lemma copy_failure_no_new_names orc st src dst fie st' :
  f_copy_o orc st src dst fie = (st', false) -> (k_lstat st dst <> None -> k_stat st dst <> None) ->
  forall q, sget (root st') q <> None -> sget (root st) q <> None.
Proof.
  intros H NL q Sq. destruct (copy_failure_frame _ _ _ _ _ _ H) as [->|(dd & nd & es & Rd & Gd & K & F1 & _ & _)]; auto.
  destruct K as [K|[K L]].
  - destruct (is_prefix (dd ++ [nd]) q) eqn:P; [|rewrite <- F1; auto].
    apply is_prefix_true in P as [t ->]. destruct t as [|x t]; [rewrite app_nil_r; congruence|].
    exfalso. apply Sq. unfold sget. rewrite get_app.
    destruct (get (root st') (dd ++ [nd])) as [n|] eqn:G; auto.
    destruct (copy_failure_frame _ _ _ _ _ _ H) as [->|(dd' & nd' & es' & Rd' & _ & _ & _ & _ & S')].
    + apply sget_some_get in K as (n0 & G0 & S0). rewrite G0 in G. inversion G; subst. destruct n; try discriminate. reflexivity.
    + rewrite Rd in Rd'. inversion Rd'; subst dd' nd'. unfold sget in S'. rewrite G in S'. destruct n; try discriminate. reflexivity.
  - exfalso. apply (NL L). unfold k_stat. rewrite Rd, K. reflexivity.
Qed.
