(* FsListSpec — the reference objects of round 3 that need the kernel's view of a path (FsModel
   part K: resolve, k_stat, glob) but do not look at the library code:

   (1) what enumerating a directory is supposed to yield: every entry of the directory that the
       pattern selects, each once and in directory order, as (name, is-a-directory), where a
       symbolic link counts as a directory when it leads to one; with dirsOnly only real
       directories are reported (choice where the documentation is silent: a link that leads to a
       directory is not reported under dirsOnly - the code decides by d_type first);
   (2) the tree after Directory::purge: FsSpec.prune_up on the tree with the directory cut out. *)
From Coq Require Import ZArith List Bool.
From Path Require Import PathSpec PathModel FsSpec FsModel.
Import ListNotations.
Local Open Scope Z_scope.

(* an empty pattern selects every name *)
Definition pattern_selects (pat nm : str) : bool :=
  match pat with [] => true | _ => glob pat nm end.

Definition leads_to_dir (st : state) (p : str) : bool :=
  match k_stat st p with Some SDir => true | _ => false end.

Definition listed (st : state) (dirpath pat : str) (only : bool) (kv : str * node) : option (str * bool) :=
  let (nm, n) := kv in
  if pattern_selects pat nm then
    match n with
    | NDir _ => Some (nm, true)
    | NFile _ => if only then None else Some (nm, false)
    | NLink _ => if only then None else Some (nm, leads_to_dir st (entry_path dirpath nm))
    end
  else None.

Fixpoint filter_map {A B} (f : A -> option B) (l : list A) : list B :=
  match l with
  | [] => []
  | x :: t => match f x with Some y => y :: filter_map f t | None => filter_map f t end
  end.

Definition listing (st : state) (dirpath pat : str) (only : bool) (es : list (str * node)) : list (str * bool) :=
  filter_map (listed st dirpath pat only) es.

(* the directory a path text names (links followed), as the place in the tree *)
Definition dir_place (st : state) (path : str) : option cpath :=
  match resolve st true path with
  | WDir d _ => Some d
  | WAt d nm (Some SDir) => Some (d ++ [nm])
  | _ => None
  end.

Definition open_text (path : str) : str := match path with [] => DOT1 | _ => path end.

(* the whole answer of "open, read until false": None when the text names no directory *)
Definition spec_list (st : state) (path pat : str) (only : bool) : option (list (str * bool)) :=
  match dir_place st (open_text path) with
  | Some d =>
      match get (root st) d with
      | Some (NDir es) => Some (listing st path pat only es)
      | _ => None
      end
  | None => None
  end.

(* the tree after purge of the directory at base ++ names ++ [c] *)
Definition purged (r : node) (base : cpath) (names : list str) (c : str) : node :=
  prune_up (upd r (base ++ names ++ [c]) None) base (rev names).
