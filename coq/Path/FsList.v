(* Directory::open / read / close: reading an opened directory to the end yields exactly the
   reference listing of FsListSpec - every entry the pattern selects, once, in directory order,
   with the right type, "." and ".." left out - and the wildcard matcher is the reference relation. *)
From Coq Require Import ZArith List Bool Lia.
From Path Require Import PathSpec PathModel PathProofs FsSpec FsModel FsListSpec FsTree FsWalk FsDir FsFault.
Import ListNotations.
Local Open Scope Z_scope.

(* ---- the wildcard matcher ------------------------------------------------------------------------------ *)

Lemma glob_star p s : glob (42 :: p) s = glob p s || match s with [] => false | _ :: s' => glob (42 :: p) s' end.
Proof. destruct s; reflexivity. Qed.

Lemma glob_lit c p s : (c =? 42) = false ->
  glob (c :: p) s = match s with [] => false | x :: s' => ((c =? 63) || (c =? x)) && glob p s' end.
Proof. intro H. cbn [glob]. rewrite H. reflexivity. Qed.

Lemma glob_sound : forall p s, glob p s = true -> matches p s.
Proof.
  induction p as [|c p IHp]; intros s H.
  - destruct s; [constructor|discriminate].
  - destruct (c =? 42) eqn:C.
    + apply Z.eqb_eq in C. subst c. induction s as [|x s IHs].
      * rewrite glob_star in H. rewrite orb_false_r in H. apply m_star_none. auto.
      * rewrite glob_star in H. apply orb_true_iff in H as [H|H].
        -- apply m_star_none. auto.
        -- apply m_star_more. auto.
    + rewrite glob_lit in H by exact C. destruct s as [|x s]; [discriminate|].
      apply andb_true_iff in H as [H1 H2]. apply orb_true_iff in H1 as [H1|H1].
      * apply Z.eqb_eq in H1. subst c. apply m_any. auto.
      * apply Z.eqb_eq in H1. subst x. destruct (c =? 63) eqn:Q.
        -- apply Z.eqb_eq in Q. subst c. apply m_any. auto.
        -- apply m_lit; auto.
           ++ intro E. subst c. discriminate.
           ++ intro E. subst c. discriminate.
Qed.

Lemma glob_complete p s : matches p s -> glob p s = true.
Proof.
  intro H. induction H as [|p s H IH|p x s H IH|p x s H IH|c p s N1 N2 H IH].
  - reflexivity.
  - rewrite glob_star, IH. reflexivity.
  - rewrite glob_star, IH. apply orb_true_r.
  - rewrite glob_lit by reflexivity. rewrite IH. reflexivity.
  - rewrite glob_lit by (apply Z.eqb_neq; exact N1). rewrite Z.eqb_refl, IH, orb_true_r. reflexivity.
Qed.

Lemma glob_matches p s : glob p s = true <-> matches p s.
Proof. split; [apply glob_sound|apply glob_complete]. Qed.

(* ---- one entry -------------------------------------------------------------------------------------------- *)

(* what the loop of Directory::read makes of one readdir answer *)
Definition entry_view (st : state) (path pat : str) (only : bool) (e : str * snode) : option (str * bool) :=
  let (nm, k) := e in
  if negb (nonempty pat) || glob pat nm then
    let isDir := is_sdir k in
    if only && negb isDir then None
    else
      let '(isDir2, skip) :=
        if negb isDir && is_slink k then
          match k_stat st (entry_path path nm) with
          | Some SDir => (true, false)
          | _ => (false, only)
          end
        else (isDir, false) in
      if skip then None
      else if isDir2 && is_dots nm then None
      else Some (nm, isDir2)
  else None.

Lemma read_loop_cons st path pat only e t :
  read_loop st path pat only (e :: t) =
  match entry_view st path pat only e with
  | Some x => (t, Some x)
  | None => read_loop st path pat only t
  end.
Proof.
  destruct e as [nm k]. cbn [read_loop entry_view].
  destruct (negb (nonempty pat) || glob pat nm); [|reflexivity].
  destruct (only && negb (is_sdir k)); [reflexivity|].
  destruct (if negb (is_sdir k) && is_slink k
            then match k_stat st (entry_path path nm) with Some SDir => (true, false) | _ => (false, only) end
            else (is_sdir k, false)) as [isDir2 skip].
  destruct skip; [reflexivity|]. destruct (isDir2 && is_dots nm); reflexivity.
Qed.

(* what one call of the loop hands out, in terms of the views of the entries it went over *)
Lemma read_loop_spec st path pat only : forall rest,
  let (rest', r) := read_loop st path pat only rest in
  match r with
  | Some x => filter_map (entry_view st path pat only) rest = x :: filter_map (entry_view st path pat only) rest' /\
              (length rest' < length rest)%nat
  | None => filter_map (entry_view st path pat only) rest = [] /\ rest' = []
  end.
Proof.
  induction rest as [|e t IH].
  - cbn. auto.
  - rewrite read_loop_cons. cbn [filter_map].
    destruct (entry_view st path pat only e) as [x|].
    + split; [reflexivity|simpl; lia].
    + destruct (read_loop st path pat only t) as [rest' [x|]].
      * destruct IH as [A B]. split; [exact A|simpl; lia].
      * exact IH.
Qed.

Definition dh_done (dh : dirh) : dirh :=
  {| dh_path := dh_path dh; dh_pat := dh_pat dh; dh_only := dh_only dh; dh_rest := [] |}.

(* read() until false hands out the views of all the entries that were left, in order, and leaves
   the object open at the end *)
Lemma read_all_views st : forall fuel dh,
  (length (dh_rest dh) < fuel)%nat ->
  d_read_all fuel st (Some dh) =
  (Some (dh_done dh), filter_map (entry_view st (dh_path dh) (dh_pat dh) (dh_only dh)) (dh_rest dh)).
Proof.
  induction fuel as [|f IH]; intros dh Hf; [lia|].
  cbn [d_read_all d_read].
  pose proof (read_loop_spec st (dh_path dh) (dh_pat dh) (dh_only dh) (dh_rest dh)) as S.
  destruct (read_loop st (dh_path dh) (dh_pat dh) (dh_only dh) (dh_rest dh)) as [rest' [x|]].
  - destruct S as [A B].
    rewrite (IH {| dh_path := dh_path dh; dh_pat := dh_pat dh; dh_only := dh_only dh; dh_rest := rest' |}) by (cbn [dh_rest]; lia).
    cbn [dh_path dh_pat dh_only dh_rest dh_done]. rewrite A. reflexivity.
  - destruct S as [A ->]. rewrite A. reflexivity.
Qed.

(* ---- against the tree --------------------------------------------------------------------------------------- *)

Lemma view_dot st path pat only : entry_view st path pat only (DOT1, SDir) = None.
Proof.
  cbn [entry_view is_sdir is_slink negb andb]. destruct (negb (nonempty pat) || glob pat DOT1); [|reflexivity].
  rewrite andb_false_r. reflexivity.
Qed.

Lemma view_dotdot st path pat only : entry_view st path pat only (DOTDOT, SDir) = None.
Proof.
  cbn [entry_view is_sdir is_slink negb andb]. destruct (negb (nonempty pat) || glob pat DOTDOT); [|reflexivity].
  rewrite andb_false_r. reflexivity.
Qed.

Lemma selects_eq pat nm : negb (nonempty pat) || glob pat nm = pattern_selects pat nm.
Proof. destruct pat; reflexivity. Qed.

(* on a proper name the loop's view is the reference's *)
Lemma view_listed st path pat only nm n :
  name_ok nm = true ->
  entry_view st path pat only (nm, shallow n) = listed st path pat only (nm, n).
Proof.
  intro Hn. pose proof (name_ok_not_dots nm Hn) as D.
  cbn [entry_view listed]. rewrite selects_eq. destruct (pattern_selects pat nm); [|reflexivity].
  destruct n as [c|es|t]; cbn [shallow is_sdir is_slink negb andb].
  - rewrite andb_true_r. destruct only; reflexivity.
  - rewrite andb_false_r. cbn [andb]. rewrite D. reflexivity.
  - rewrite andb_true_r. destruct only; [reflexivity|]. unfold leads_to_dir.
    destruct (k_stat st (entry_path path nm)) as [[| |t']|]; cbn [andb]; rewrite ?D; reflexivity.
Qed.

Lemma views_listing st path pat only es :
  Forall (fun kv => name_ok (fst kv) = true /\ wf_node (snd kv) = true) es ->
  filter_map (entry_view st path pat only) (map (fun kv => (fst kv, shallow (snd kv))) es) = listing st path pat only es.
Proof.
  unfold listing. induction es as [|[nm n] es IH]; intro W; [reflexivity|].
  inversion W as [|? ? [Wn _] W']; subst. cbn [map filter_map fst snd].
  rewrite view_listed by exact Wn. rewrite IH by exact W'. reflexivity.
Qed.

Lemma k_readdir_place st path d es :
  dir_place st path = Some d -> get (root st) d = Some (NDir es) ->
  k_readdir st path = inl (map (fun kv => (fst kv, shallow (snd kv))) es).
Proof.
  unfold dir_place, k_readdir. intros P G.
  destruct (resolve st true path) as [e|d' nm [[| |t]|]|d' dot]; try discriminate; inversion P; subst;
    unfold entries_at; rewrite G; reflexivity.
Qed.

Lemma k_readdir_noplace st path : dir_place st path = None -> exists e, k_readdir st path = inr e.
Proof.
  unfold dir_place, k_readdir. destruct (resolve st true path) as [e|d' nm [[| |t]|]|d' dot]; try discriminate; eauto.
Qed.

(* ---- the statements ------------------------------------------------------------------------------------------- *)

(* open on a text that names a directory, then read until false: exactly the reference listing,
   and the object is still open, at its end *)
Lemma enumeration_exact st path pat only d es :
  dir_place st (open_text path) = Some d -> get (root st) d = Some (NDir es) -> wf_node (root st) = true ->
  exists dh, d_open st None path pat only = (Some dh, true) /\
             d_read_all (read_all_fuel (Some dh)) st (Some dh) = (Some (dh_done dh), listing st path pat only es) /\
             spec_list st path pat only = Some (listing st path pat only es).
Proof.
  intros P G W. unfold d_open, k_opendir. fold (open_text path).
  rewrite (k_readdir_place st (open_text path) d es P G).
  eexists. split; [reflexivity|]. split.
  - unfold read_all_fuel. rewrite read_all_views by lia.
    cbn [dh_path dh_pat dh_only dh_rest filter_map]. rewrite view_dot, view_dotdot.
    rewrite views_listing; [reflexivity|]. apply wf_children. eapply wf_get; eauto.
  - unfold spec_list. rewrite P, G. reflexivity.
Qed.

(* a text that names no directory: open says false and the object stays closed *)
Lemma enumeration_refused st path pat only :
  dir_place st (open_text path) = None ->
  d_open st None path pat only = (None, false) /\ spec_list st path pat only = None.
Proof.
  intro P. unfold d_open, k_opendir, spec_list. fold (open_text path).
  destruct (k_readdir_noplace st (open_text path) P) as [e ->]. rewrite P. auto.
Qed.

(* the protocol of the object: an open object refuses open and keeps its place; a closed one
   refuses read; at the end read keeps saying false *)
Lemma enumeration_protocol st dh path pat only :
  d_open st (Some dh) path pat only = (Some dh, false) /\
  d_read st None = (None, None) /\
  d_read st (Some (dh_done dh)) = (Some (dh_done dh), None) /\
  d_close (Some dh) = None.
Proof. repeat split. Qed.

(* ---- what the reference listing is ------------------------------------------------------------------------------ *)

Lemma listed_name st path pat only nm n x : listed st path pat only (nm, n) = Some x -> fst x = nm.
Proof.
  cbn [listed]. destruct (pattern_selects pat nm); [|discriminate].
  destruct n; try destruct only; intro H; inversion H; reflexivity.
Qed.

(* each listed pair comes from an entry of the directory and carries that entry's name *)
Lemma listing_in st path pat only es x :
  In x (listing st path pat only es) <-> exists n, In (fst x, n) es /\ listed st path pat only (fst x, n) = Some x.
Proof.
  unfold listing. induction es as [|[nm n] es IH]; cbn [filter_map].
  - split; [intros []|intros (n & [] & _)].
  - destruct (listed st path pat only (nm, n)) as [y|] eqn:L.
    + split.
      * intros [E|I].
        -- subst y. exists n. rewrite (listed_name _ _ _ _ _ _ _ L). split; [left; reflexivity|exact L].
        -- apply IH in I as (n' & I & L'). exists n'. split; [right; exact I|exact L'].
      * intros (n' & [E|I] & L').
        -- inversion E; subst. rewrite L in L'. inversion L'. left. reflexivity.
        -- right. apply IH. eauto.
    + split.
      * intro I. apply IH in I as (n' & I & L'). exists n'. split; [right; exact I|exact L'].
      * intros (n' & [E|I] & L').
        -- inversion E; subst. rewrite L in L'. discriminate.
        -- apply IH. eauto.
Qed.

Lemma existsb_names x (es : list (str * node)) : existsb (str_eqb x) (map fst es) = false -> forall n, ~ In (x, n) es.
Proof.
  induction es as [|[k v] es IH]; intros H n I; [destruct I|].
  simpl in H. apply orb_false_iff in H as [H1 H2]. destruct I as [E|I].
  - inversion E; subst. rewrite str_eqb_refl in H1. discriminate.
  - eapply IH; eauto.
Qed.

(* no name is reported twice *)
Lemma listing_nodup st path pat only es :
  names_nodup (map fst es) = true -> NoDup (map fst (listing st path pat only es)).
Proof.
  unfold listing. induction es as [|[nm n] es IH]; intro H; cbn [filter_map map]; [constructor|].
  cbn [map fst names_nodup] in H. apply andb_true_iff in H as [H1 H2]. apply negb_true_iff in H1.
  destruct (listed st path pat only (nm, n)) as [y|] eqn:L; [|auto].
  cbn [map]. constructor; [|auto]. rewrite (listed_name _ _ _ _ _ _ _ L).
  intro I. apply in_map_iff in I as (x & Ex & Ix).
  apply (listing_in st path pat only es x) in Ix as (n' & I' & _). rewrite Ex in I'.
  eapply existsb_names; eauto.
Qed.

(* without a pattern and without dirsOnly every entry is reported *)
Lemma listing_all st path es : map fst (listing st path [] false es) = map fst es.
Proof.
  unfold listing. induction es as [|[nm n] es IH]; [reflexivity|].
  cbn [filter_map listed pattern_selects]. destruct n; cbn [map fst]; rewrite IH; reflexivity.
Qed.
