(* Directory::create, and the failure branches of File::open / rename. *)
From Coq Require Import ZArith List Bool Lia.
From Path Require Import PathSpec PathModel PathProofs FsSpec FsModel FsTree FsWalk FsDir.
Import ListNotations.
Local Open Scope Z_scope.

Definition cpath_eq_dec : forall a b : cpath, {a = b} + {a <> b} := list_eq_dec (list_eq_dec Z.eq_dec).

(* ---- W4: when the answer is not a link in last position, following makes no difference -------- *)

Definition not_last_link (R : wres) : Prop :=
  match R with WAt _ _ (Some (SLink _)) => False | _ => True end.

Lemma walk_follow_same r : forall L cur cs,
  not_last_link (walk L r false cur cs) -> walk L r true cur cs = walk L r false cur cs.
Proof.
  apply (walk_ind r false (fun L cur cs =>
           not_last_link (walk L r false cur cs) -> walk L r true cur cs = walk L r false cur cs)).
  - intros L cur _. rewrite !walk_nil. reflexivity.
  - intros L cur c rest IH. rewrite !walk_cons. unfold wstep in *.
    destruct (str_eqb c DOT1).
    { destruct rest; auto. }
    destruct (str_eqb c DOTDOT).
    { destruct rest; auto. }
    destruct (sget r (cur ++ [c])) as [[| |t]|]; try (destruct rest; auto; fail).
    destruct rest as [|x y].
    + simpl. intro H. contradiction.
    + destruct L as [|l]; auto. destruct t; auto.
Qed.

(* ---- W2: a fresh leaf at (d, nm) is found by the walk that stopped there ----------------------- *)

Section Fresh.
  Variables (r : node) (d : cpath) (nm : str) (A : node) (fl : bool).
  Hypothesis Hnone : get r (d ++ [nm]) = None.
  Hypothesis Hpar : exists es, get r d = Some (NDir es).
  Hypothesis Hleaf : forall x q, get A (x :: q) = None.
  Hypothesis Hfl : fl = false \/ forall t, shallow A <> SLink t.

  Let r' := upd r (d ++ [nm]) (Some A).

  Lemma sget_fresh_here : sget r' (d ++ [nm]) = Some (shallow A).
  Proof.
    destruct Hpar as [es G]. unfold r', sget. rewrite <- (app_nil_r (d ++ [nm])) at 2.
    erewrite get_upd_here by eauto. reflexivity.
  Qed.

  Lemma sget_fresh_other q : q <> d ++ [nm] -> sget r' q = sget r q.
  Proof.
    intro N. destruct (is_prefix (d ++ [nm]) q) eqn:P.
    - apply is_prefix_true in P as [t ->]. destruct t as [|x t]; [rewrite app_nil_r in N; contradiction|].
      destruct Hpar as [es G]. unfold r', sget. erewrite get_upd_here by eauto.
      rewrite Hleaf. rewrite get_app, Hnone. reflexivity.
    - apply sget_upd_other; auto. destruct d; discriminate.
  Qed.

  Lemma walk_fresh : forall L cur cs,
    walk L r fl cur cs = WAt d nm None -> walk L r' fl cur cs = WAt d nm (Some (shallow A)).
  Proof.
    apply (walk_ind r fl (fun L cur cs =>
             walk L r fl cur cs = WAt d nm None -> walk L r' fl cur cs = WAt d nm (Some (shallow A)))).
    - intros L cur. rewrite walk_nil. discriminate.
    - intros L cur c rest IH. rewrite !walk_cons. unfold wstep in *.
      destruct (str_eqb c DOT1).
      { destruct rest; [discriminate|]. apply IH. reflexivity. }
      destruct (str_eqb c DOTDOT).
      { destruct rest; [discriminate|]. apply IH. reflexivity. }
      destruct (cpath_eq_dec (cur ++ [c]) (d ++ [nm])) as [E|N].
      + apply app_inj_tail in E as [-> ->].
        unfold sget at 1. rewrite Hnone. simpl option_map. cbv iota.
        rewrite sget_fresh_here.
        destruct rest; [|discriminate]. intros _.
        destruct (shallow A) as [| |t] eqn:S; try reflexivity.
        destruct Hfl as [->|F]; [reflexivity|]. exfalso. eapply F. reflexivity.
      + rewrite (sget_fresh_other _ N).
        destruct (sget r (cur ++ [c])) as [[| |t]|].
        * destruct rest; [discriminate|discriminate].
        * destruct rest; [discriminate|]. apply IH. reflexivity.
        * destruct rest as [|x y].
          -- destruct fl; [|discriminate]. destruct L as [|l]; [discriminate|].
             destruct t; [discriminate|]. apply IH. reflexivity.
          -- destruct L as [|l]; [discriminate|]. destruct t; [discriminate|]. apply IH. reflexivity.
        * destruct rest; [|discriminate]. intro H. inversion H; subst. contradiction.
  Qed.
End Fresh.

(* ---- W3: what leads to a directory leads through directories ------------------------------------ *)

Definition is_dir_res (R : wres) : Prop :=
  match R with WDir _ _ => True | WAt _ _ (Some SDir) => True | _ => False end.

Lemma walk_prefix_dir r : forall L cur cs1 cs2,
  is_dir_res (walk L r true cur (cs1 ++ cs2)) -> is_dir_res (walk L r true cur cs1).
Proof.
  apply (walk_ind r true (fun L cur cs1 => forall cs2,
           is_dir_res (walk L r true cur (cs1 ++ cs2)) -> is_dir_res (walk L r true cur cs1))).
  - intros L cur cs2 _. rewrite walk_nil. exact I.
  - intros L cur c rest IH cs2.
    change ((c :: rest) ++ cs2) with (c :: (rest ++ cs2)). rewrite !walk_cons. unfold wstep in *.
    destruct (str_eqb c DOT1).
    { destruct rest as [|x y]; [intros _; exact I|]. intro H. exact (IH _ _ _ eq_refl cs2 H). }
    destruct (str_eqb c DOTDOT).
    { destruct rest as [|x y]; [intros _; exact I|]. intro H. exact (IH _ _ _ eq_refl cs2 H). }
    destruct (sget r (cur ++ [c])) as [[| |t]|].
    + destruct rest as [|x y].
      * destruct cs2; intro H; simpl in *; auto.
      * intro H. exact H.
    + destruct rest as [|x y]; [intros _; exact I|]. intro H. exact (IH _ _ _ eq_refl cs2 H).
    + destruct rest as [|x y].
      * destruct L as [|l].
        { destruct cs2; intro H; simpl in *; contradiction. }
        destruct t as [|t0 t'].
        { destruct cs2; intro H; simpl in *; contradiction. }
        intro H. rewrite ?app_nil_r in *. simpl app in H.
        assert (H' : is_dir_res (walk l r true (if first_is_slash (t0 :: t') then [] else cur) (ptoks (t0 :: t') ++ cs2)))
          by (destruct cs2; exact H).
        exact (IH _ _ _ eq_refl cs2 H').
      * destruct L as [|l]; [intro H; exact H|]. destruct t as [|t0 t']; [intro H; exact H|].
        intro H. apply (IH _ _ _ eq_refl cs2). rewrite <- app_assoc. exact H.
    + destruct rest as [|x y].
      * destruct cs2; intro H; simpl in *; auto.
      * intro H. exact H.
Qed.

(* ---- Directory::exists ------------------------------------------------------------------------- *)

Lemma d_exists_iff st dir : d_exists st dir = true <-> is_dir_res (resolve st true dir).
Proof.
  unfold d_exists, k_stat. destruct (resolve st true dir) as [e|d nm [[| |t]|]|d dot]; simpl; split;
    intro H; auto; try discriminate; try contradiction.
Qed.

(* the directory text in front of a '/' of a path that is a directory is a directory *)
Lemma exists_prefix st pre rest :
  pre <> [] -> d_exists st (pre ++ 47 :: rest) = true -> d_exists st pre = true.
Proof.
  intros N H. apply d_exists_iff in H. apply d_exists_iff.
  rewrite resolve_nonempty in * by (auto; destruct pre; discriminate).
  assert (F : first_is_slash (pre ++ 47 :: rest) = first_is_slash pre) by (destruct pre; [contradiction|reflexivity]).
  rewrite F in H. rewrite ptoks_app in H. eapply walk_prefix_dir. exact H.
Qed.

(* where the walk says "nothing here", nothing is there *)
Lemma walk_at_none r fl d nm : forall L cur cs, walk L r fl cur cs = WAt d nm None -> get r (d ++ [nm]) = None.
Proof.
  apply (walk_ind r fl (fun L cur cs => walk L r fl cur cs = WAt d nm None -> get r (d ++ [nm]) = None)).
  - intros L cur. rewrite walk_nil. discriminate.
  - intros L cur c rest IH. rewrite walk_cons. unfold wstep in *.
    destruct (str_eqb c DOT1). { destruct rest; [discriminate|]. apply IH. reflexivity. }
    destruct (str_eqb c DOTDOT). { destruct rest; [discriminate|]. apply IH. reflexivity. }
    destruct (sget r (cur ++ [c])) as [[| |t]|] eqn:S.
    + destruct rest; discriminate.
    + destruct rest; [discriminate|]. apply IH. reflexivity.
    + destruct rest as [|x y].
      * destruct fl; [|discriminate]. destruct L; [discriminate|]. destruct t; [discriminate|]. apply IH. reflexivity.
      * destruct L; [discriminate|]. destruct t; [discriminate|]. apply IH. reflexivity.
    + destruct rest; [|discriminate]. intro H. inversion H; subst. apply sget_none_get. exact S.
Qed.

(* ---- mkdir / creating open on a fresh place ------------------------------------------------------ *)

Lemma k_mknode_cases st path n :
  (exists e, k_mknode st path n = (st, Some e)) \/
  (exists d nm es, resolve st false path = WAt d nm None /\ get (root st) d = Some (NDir es) /\
                   get (root st) (d ++ [nm]) = None /\
                   k_mknode st path n = (set_root st (upd (root st) (d ++ [nm]) (Some n)), None)).
Proof.
  unfold k_mknode. destruct (resolve st false path) as [e|d nm [k|]|d dot] eqn:R; eauto.
  unfold parent_is_dir. destruct (sget (root st) d) as [[| |t]|] eqn:S; eauto.
  right. apply sget_dir_get in S as [es G]. exists d, nm, es. repeat split; auto.
  unfold resolve in R. destruct path; [discriminate|]. eapply walk_at_none; eauto.
Qed.

Lemma leaf_dir x q : get (NDir []) (x :: q) = None.
Proof. reflexivity. Qed.
Lemma leaf_file c x q : get (NFile c) (x :: q) = None.
Proof. reflexivity. Qed.

(* after a successful mkdir the directory exists *)
Lemma mkdir_then_exists st dir st' : k_mkdir st dir = (st', None) -> d_exists st' dir = true.
Proof.
  unfold k_mkdir. intro H.
  destruct (k_mknode_cases st dir (NDir [])) as [[e E]|(d & nm & es & R & G & Gn & E)]; [congruence|].
  rewrite E in H. inversion H; subst. clear H.
  apply d_exists_iff. unfold resolve in *. destruct dir as [|z dir]; [discriminate|].
  cbn [root cwd set_root].
  assert (R' : walk MAXLINKS (root st) true (if first_is_slash (z :: dir) then [] else cwd st) (ptoks (z :: dir)) = WAt d nm None).
  { rewrite walk_follow_same; rewrite R; auto. exact I. }
  assert (Hfl : true = false \/ forall t, shallow (NDir []) <> SLink t) by (right; discriminate).
  rewrite (walk_fresh (root st) d nm (NDir []) true Gn (ex_intro _ es G) leaf_dir Hfl _ _ _ R').
  exact I.
Qed.

Lemma k_mknode_err_same st path n st' e : k_mknode st path n = (st', Some e) -> st' = st.
Proof.
  unfold k_mknode. destruct (resolve st false path) as [e0|d nm [k|]|d dot]; try (intro H; inversion H; auto; fail).
  destruct (parent_is_dir st d); intro H; inversion H; auto.
Qed.

(* ---- Directory::create --------------------------------------------------------------------------- *)

(* true: the directory exists afterwards (for every path text) *)
Lemma create_true_exists fuel st dir st' : d_create fuel st dir = (st', true) -> d_exists st' dir = true.
Proof.
  destruct fuel as [|f]; [discriminate|]. cbn [d_create].
  destruct (negb (str_eqb (getDirectoryName dir) DOT1) && nonempty (getDirectoryName dir) &&
            negb (d_exists st (getDirectoryName dir))).
  - destruct (d_create f st (getDirectoryName dir)) as [st1 ok]. destruct ok; simpl; [|discriminate].
    destruct (k_mkdir st1 dir) as [st2 [e|]] eqn:M; intro H; inversion H; subst; auto.
    eapply mkdir_then_exists; eauto.
  - simpl. destruct (k_mkdir st dir) as [st2 [e|]] eqn:M; intro H; inversion H; subst; auto.
    eapply mkdir_then_exists; eauto.
Qed.

Definition no_backslash (p : str) : Prop := forallb (fun b => negb (b =? 92)) p = true.

(* the directory name of a text with a separator is the text in front of the last separator *)
Lemma dirname_split p :
  (exists s b, is_sep s = true /\ p = getDirectoryName p ++ s :: b) \/ getDirectoryName p = DOT1.
Proof.
  destruct (dir_base_cases p) as [(s & Hs & E & _)|(_ & E & _)].
  - left. exists s, (getBaseName p []). split; auto.
  - right. exact E.
Qed.

Lemma no_backslash_sep p a s b : no_backslash p -> p = a ++ s :: b -> is_sep s = true -> s = 47 /\ no_backslash a.
Proof.
  unfold no_backslash. intros H -> Hs. rewrite forallb_app in H. apply andb_true_iff in H as [Ha H].
  simpl in H. apply andb_true_iff in H as [H1 _]. split; auto.
  unfold is_sep in Hs. apply negb_true_iff in H1. rewrite H1, orb_false_r in Hs. apply Z.eqb_eq. exact Hs.
Qed.

(* false: the directory does not exist afterwards (for '/'-separated texts, enough fuel) *)
Lemma create_false_not_exists fuel : forall st dir st',
  (length dir < fuel)%nat -> no_backslash dir ->
  d_create fuel st dir = (st', false) -> d_exists st' dir = false.
Proof.
  induction fuel as [|f IH]; intros st dir st' Hf Hb; [lia|]. cbn [d_create].
  destruct (negb (str_eqb (getDirectoryName dir) DOT1) && nonempty (getDirectoryName dir) &&
            negb (d_exists st (getDirectoryName dir))) eqn:C.
  - destruct (d_create f st (getDirectoryName dir)) as [st1 ok] eqn:Rec. destruct ok; simpl.
    + destruct (k_mkdir st1 dir) as [st2 [e|]] eqn:M; intro H; inversion H; subst; auto.
    + intro H. inversion H; subst. clear H.
      apply andb_true_iff in C as [C _]. apply andb_true_iff in C as [C1 C2].
      destruct (dirname_split dir) as [(s & b & Hs & E)|E].
      2:{ rewrite E in C1. discriminate. }
      destruct (no_backslash_sep dir _ s b Hb E Hs) as [-> Hb'].
      assert (Hlen : (length (getDirectoryName dir) < f)%nat).
      { rewrite E in Hf. rewrite app_length in Hf. simpl in Hf. lia. }
      specialize (IH st (getDirectoryName dir) st' Hlen Hb' Rec).
      destruct (d_exists st' dir) eqn:X; auto.
      rewrite E in X. apply exists_prefix in X; [congruence|].
      destruct (getDirectoryName dir); [discriminate|discriminate].
  - simpl. destruct (k_mkdir st dir) as [st2 [e|]] eqn:M; intro H; inversion H; subst; auto.
Qed.

Lemma create_iff_exists st dir st' b :
  no_backslash dir ->
  d_create (create_fuel dir) st dir = (st', b) -> b = d_exists st' dir.
Proof.
  intros Hb H. destruct b.
  - symmetry. eapply create_true_exists; eauto.
  - symmetry. apply (create_false_not_exists (create_fuel dir) st dir st'); [unfold create_fuel; lia|exact Hb|exact H].
Qed.

(* all parents exist afterwards *)
Lemma create_makes_parents fuel st dir st' pre rest :
  d_create fuel st dir = (st', true) -> dir = pre ++ 47 :: rest -> pre <> [] -> d_exists st' pre = true.
Proof.
  intros H -> N. eapply exists_prefix; eauto. eapply create_true_exists; eauto.
Qed.

(* create only adds directories: whatever was there is still there, as it was *)
Lemma mknode_keeps st path n st' e q k :
  k_mknode st path n = (st', e) -> sget (root st) q = Some k -> sget (root st') q = Some k.
Proof.
  intros H S.
  destruct (k_mknode_cases st path n) as [[e' E]|(d & nm & es & R & G & Gn & E)]; rewrite E in H; inversion H; subst; auto.
  cbn [root set_root]. rewrite sget_upd_other; auto.
  - destruct d; discriminate.
  - destruct (is_prefix (d ++ [nm]) q) eqn:P; auto.
    apply is_prefix_true in P as [t ->]. unfold sget in S. rewrite get_app, Gn in S. discriminate.
Qed.

Lemma create_keeps fuel : forall st dir st' b q k,
  d_create fuel st dir = (st', b) -> sget (root st) q = Some k -> sget (root st') q = Some k.
Proof.
  induction fuel as [|f IH]; intros st dir st' b q k; cbn [d_create].
  - intro H. inversion H; subst. auto.
  - destruct (negb (str_eqb (getDirectoryName dir) DOT1) && nonempty (getDirectoryName dir) &&
              negb (d_exists st (getDirectoryName dir))).
    + destruct (d_create f st (getDirectoryName dir)) as [st1 ok] eqn:Rec. intros H S.
      pose proof (IH _ _ _ _ q k Rec S) as S1. destruct ok; simpl in H.
      * destruct (k_mkdir st1 dir) as [st2 e] eqn:M. unfold k_mkdir in M.
        pose proof (mknode_keeps _ _ _ _ _ q k M S1). destruct e; inversion H; subst; auto.
      * inversion H; subst. auto.
    + simpl. intros H S. destruct (k_mkdir st dir) as [st2 e] eqn:M. unfold k_mkdir in M.
      pose proof (mknode_keeps _ _ _ _ _ q k M S). destruct e; inversion H; subst; auto.
Qed.

(* ---- failed operations ----------------------------------------------------------------------------- *)

Lemma k_open_err_same st path rd wr creat excl trunc st' e :
  k_open st path rd wr creat excl trunc = (st', inr e) -> st' = st.
Proof.
  unfold k_open. destruct (resolve st (negb (creat && excl)) path) as [e0|d nm [[| |t]|]|d dot];
    repeat match goal with |- context [if ?c then _ else _] => destruct c end;
    intro H; inversion H; auto.
Qed.

(* File::open that fails leaves everything as it was *)
Lemma open_failure_unchanged st h path fr fw fa fo st' :
  f_open st h path fr fw fa fo = (st', false) -> st' = st.
Proof.
  unfold f_open. destruct (hfind (handles st) h); [intro H; inversion H; auto|].
  destruct (if fr && fw then (true, true, negb fo, false)
            else if fw then (false, true, negb fo, negb fo && negb fa) else (true, false, false, false))
    as [[[rd wr] creat] trunc].
  destruct (k_open st path rd wr creat false trunc) as [st1 [f|e]] eqn:O; intro H; inversion H; subst.
  eapply k_open_err_same; eauto.
Qed.

Lemma k_rename_err_same st a b st' e : k_rename st a b = (st', Some e) -> st' = st.
Proof.
  unfold k_rename.
  destruct (resolve st false a) as [e0|d1 n1 [k1|]|d0 dot0]; try (intro H; inversion H; auto; fail).
  destruct (resolve st false b) as [e0|d2 n2 k2|d0 dot0]; try (intro H; inversion H; auto; fail).
  destruct (negb (parent_is_dir st d2)); [intro H; inversion H; auto|].
  destruct (cpath_eqb (d1 ++ [n1]) (d2 ++ [n2])); [intro H; inversion H|].
  destruct (get (root st) (d1 ++ [n1])) as [x|];
    destruct k1 as [| |t1]; try destruct (is_prefix (d1 ++ [n1]) (d2 ++ [n2]));
    try destruct k2 as [[| |t2]|]; try destruct (entries_at (root st) (d2 ++ [n2]));
    intro H; inversion H; auto.
Qed.

(* File::rename that fails leaves everything as it was (the placeholder is gone again) *)
Lemma rename_failure_unchanged st from to fie st' :
  f_rename st from to fie = (st', false) -> st' = st.
Proof.
  unfold f_rename. destruct fie.
  - destruct (k_lstat st from) as [k0|]; [|intro H; inversion H; auto].
    destruct (k_open st to true false true true false) as [st1 [f|e]] eqn:O.
    + (* the placeholder was created *)
      unfold k_open in O. simpl negb in O.
      destruct (resolve st false to) as [e0|d nm [[| |t]|]|d dot] eqn:R; try discriminate.
      simpl andb in O. unfold parent_is_dir in O.
      destruct (sget (root st) d) as [[| |t]|] eqn:S; try discriminate.
      inversion O; subst. clear O.
      destruct (k_rename (set_root st (upd (root st) (d ++ [nm]) (Some (NFile [])))) from to) as [st2 [e|]] eqn:K;
        [|discriminate].
      apply k_rename_err_same in K. subst st2. intro H. inversion H; subst. clear H.
      apply sget_dir_get in S as [es G].
      assert (Gn : get (root st) (d ++ [nm]) = None).
      { destruct (k_mknode_cases st to (NFile [])) as [[e' E]|(d' & nm' & es' & R' & G' & Gn' & E)].
        - unfold k_mknode in E. rewrite R in E. unfold parent_is_dir, sget in E. rewrite G in E. simpl in E. discriminate.
        - rewrite R in R'. inversion R'; subst. auto. }
      unfold k_unlink.
      assert (R1 : resolve (set_root st (upd (root st) (d ++ [nm]) (Some (NFile [])))) false to = WAt d nm (Some SFile)).
      { unfold resolve in *. destruct to as [|z to]; [discriminate|]. cbn [root cwd set_root].
        apply (walk_fresh (root st) d nm (NFile []) false Gn (ex_intro _ es G) (leaf_file []) (or_introl eq_refl)); auto. }
      rewrite R1. cbn [fst root set_root]. rewrite upd_upd_same.
      rewrite upd_none_absent by auto. unfold set_root. cbn [cwd handles]. destruct st; reflexivity.
    + intro H. inversion H; subst. eapply k_open_err_same; eauto.
  - destruct (k_rename st from to) as [st1 [e|]] eqn:K; intro H; inversion H; subst.
    eapply k_rename_err_same; eauto.
Qed.
